/-
  C02 growth (`Props/C02c.lean`), part 1: the doubling loop of `flush_side`
  (`Model/Tess/Monotone.lean` `flushLevel` / `flushLevels`).

  * `flushLevels_count`  — a buffered chain of `len` ids is cut into exactly `len − 2` triangles
    (induction on the loop: at level `step` the live chain positions are the multiples of `step`
    below `len`; the level removes the odd multiples);
  * `flushLevels_ids`    — every such triangle sits on three chain positions `a < b < c < len`
    (`ChainTri`), in increasing order on the left side, in an odd permutation on the right side;
  * `chainTri_distinct`  — hence three distinct ids when the buffered ids are pairwise distinct.

  Purely discrete (no scalar law is used).  `ZS` is a small integer `Scalar` used only to evaluate
  the models inside `decide`d non-vacuity examples.
-/
import LyonVerif.Props.C02

set_option linter.unusedSectionVars false
set_option linter.unusedVariables false
set_option linter.unusedSimpArgs false

namespace Lyon.C02c
open Lyon Lyon.Mono Lyon.C02

/-! ## `flush_side`'s doubling loop -/

/-- number of triangles of one level -/
theorem flushLevel_length (ev : Array Nat) (len step : Nat) (right : Bool) (hs : 1 ≤ step)
    (hlt : step * 2 < len) :
    (flushLevel ev len step right).length = (len - 1) / step - (len - 1) / (2 * step) := by
  have hq2 : (len - 1) / (2 * step) = (len - 1) / step / 2 := by
    rw [Nat.div_div_eq_div_mul, Nat.mul_comm]
  have hm1 : 1 ≤ (len - 1) / (2 * step) := by
    rw [Nat.le_div_iff_mul_le (by omega)]; omega
  -- the extra triangle exists iff the number of steps is odd
  have hcond : ∀ m, m = (len - 1) / (2 * step) → 1 ≤ m →
      (((if (m == 0) = true then 0 else (m - 1) * 2 * step + step + step) + step < len) ↔
        2 * m + 1 ≤ (len - 1) / step) := by
    intro m _ hm
    have h0 : (m == 0) = false := by simp; omega
    rw [h0]
    simp only [Bool.false_eq_true, if_false]
    rw [Nat.le_div_iff_mul_le (by omega)]
    obtain ⟨m', rfl⟩ : ∃ m', m = m' + 1 := ⟨m - 1, by omega⟩
    have e1 : (m' + 1 - 1) * 2 * step = m' * (2 * step) := by
      rw [Nat.add_sub_cancel, Nat.mul_assoc]
    have e2 : (2 * (m' + 1) + 1) * step = m' * (2 * step) + 3 * step := by
      rw [Nat.add_mul, Nat.mul_add, Nat.add_mul, Nat.mul_comm 2 m', Nat.mul_assoc]; omega
    rw [e1, e2]
    omega
  unfold flushLevel
  simp only [List.length_append, List.length_map, List.length_range]
  have hc := hcond _ rfl hm1
  by_cases hx : 2 * ((len - 1) / (2 * step)) + 1 ≤ (len - 1) / step
  · rw [if_pos (hc.mpr hx)]
    simp only [List.length_cons, List.length_nil]
    omega
  · rw [if_neg (fun h => hx (hc.mp h))]
    simp only [List.length_nil]
    omega

theorem flushLevels_length (ev : Array Nat) (len : Nat) (right : Bool) (fuel step : Nat)
    (hs : 1 ≤ step) (hf : len ≤ step + fuel) :
    (flushLevels ev len right fuel step).length = (len - 1) / step - 1 := by
  induction fuel generalizing step with
  | zero =>
    simp only [flushLevels, List.length_nil]
    have : (len - 1) / step = 0 := Nat.div_eq_of_lt (by omega)
    omega
  | succ fuel ih =>
    simp only [flushLevels]
    split
    · rename_i hlt
      rw [List.length_append, flushLevel_length ev len step right hs hlt, ih (step * 2) (by omega) (by omega)]
      have hq2 : (len - 1) / (2 * step) = (len - 1) / step / 2 := by
        rw [Nat.div_div_eq_div_mul, Nat.mul_comm]
      have hm1 : 1 ≤ (len - 1) / (2 * step) := by
        rw [Nat.le_div_iff_mul_le (by omega)]; omega
      rw [Nat.mul_comm step 2]
      omega
    · rename_i hge
      have : (len - 1) / step < 2 := by
        rw [Nat.div_lt_iff_lt_mul (by omega)]; omega
      simp only [List.length_nil]
      omega

/-- **`flush_side` emits `len − 2` triangles** for a chain of `len` buffered ids. -/
theorem flushLevels_count (ev : Array Nat) (len : Nat) (right : Bool) :
    (flushLevels ev len right (len + 1) 1).length = len - 2 := by
  rw [flushLevels_length ev len right (len + 1) 1 (by omega) (by omega), Nat.div_one]
  omega


/-- `t` is a triangle on three chain entries with increasing indices `a < b < c < len`, listed in
increasing order on the left side and in an odd permutation of it on the right side (both shapes
`flush_side` uses: `(b, a, c)` in its main loop, `(a, c, b)` for the leftover triangle). -/
def ChainTri (ev : Array Nat) (len : Nat) (right : Bool) (t : Tri) : Prop :=
  ∃ a b c, a < b ∧ b < c ∧ c < len ∧
    (if right then t = (ev.getD b 0, ev.getD a 0, ev.getD c 0) ∨ t = (ev.getD a 0, ev.getD c 0, ev.getD b 0)
     else t = (ev.getD a 0, ev.getD b 0, ev.getD c 0))

theorem flushLevel_chainTri (ev : Array Nat) (len step : Nat) (right : Bool) (hs : 1 ≤ step)
    (hlt : step * 2 < len) : ∀ t ∈ flushLevel ev len step right, ChainTri ev len right t := by
  have hm1 : 1 ≤ (len - 1) / (2 * step) := by
    rw [Nat.le_div_iff_mul_le (by omega)]; omega
  have hle : (len - 1) / (2 * step) * (2 * step) ≤ len - 1 := Nat.div_mul_le_self _ _
  intro t ht
  unfold flushLevel at ht
  simp only [List.mem_append, List.mem_map, List.mem_range] at ht
  rcases ht with ⟨i, hi, rfl⟩ | ht
  · refine ⟨i * 2 * step, i * 2 * step + step, i * 2 * step + step + step, by omega, by omega, ?_, ?_⟩
    · have : (i + 1) * (2 * step) ≤ (len - 1) / (2 * step) * (2 * step) := Nat.mul_le_mul_right _ hi
      have e : (i + 1) * (2 * step) = i * 2 * step + step + step := by
        rw [Nat.add_mul, Nat.mul_assoc]; omega
      omega
    · cases right <;> simp
  · obtain ⟨m', hm'⟩ : ∃ m', (len - 1) / (2 * step) = m' + 1 := ⟨(len - 1) / (2 * step) - 1, by omega⟩
    rw [hm'] at ht
    have h0 : (m' + 1 == 0) = false := by simp
    simp only [h0, Bool.false_eq_true, if_false, Nat.add_sub_cancel] at ht
    split at ht
    · rename_i hlt2
      simp only [List.mem_singleton] at ht
      refine ⟨0, m' * 2 * step + step + step, m' * 2 * step + step + step + step, by omega, by omega, hlt2, ?_⟩
      cases right <;> simp [ht]
    · simp at ht

theorem flushLevels_chainTri (ev : Array Nat) (len : Nat) (right : Bool) (fuel step : Nat) (hs : 1 ≤ step) :
    ∀ t ∈ flushLevels ev len right fuel step, ChainTri ev len right t := by
  induction fuel generalizing step with
  | zero => intro t ht; simp [flushLevels] at ht
  | succ fuel ih =>
    intro t ht
    simp only [flushLevels] at ht
    split at ht
    · rename_i hlt
      rcases List.mem_append.mp ht with h | h
      · exact flushLevel_chainTri ev len step right hs hlt t h
      · exact ih (step * 2) (by omega) t h
    · simp at ht

/-- **every triangle of `flush_side` uses three different chain positions** `a < b < c < len`. -/
theorem flushLevels_ids (ev : Array Nat) (len : Nat) (right : Bool) :
    ∀ t ∈ flushLevels ev len right (len + 1) 1, ChainTri ev len right t :=
  flushLevels_chainTri ev len right (len + 1) 1 (by omega)

/-- with pairwise distinct buffered ids the three ids of a chain triangle are distinct -/
theorem chainTri_distinct (l : List Nat) (right : Bool) (hnd : l.Nodup) (t : Tri)
    (h : ChainTri l.toArray l.length right t) : TriDistinct t := by
  obtain ⟨a, b, c, hab, hbc, hc, h⟩ := h
  have g : ∀ i, i < l.length → l.toArray.getD i 0 = l[i]! := by
    intro i hi; simp [Array.getD, hi]
  have inj : ∀ i j, i < j → j < l.length → l[i]! ≠ l[j]! := by
    intro i j hij hj
    have hi : i < l.length := by omega
    simp only [getElem!_pos, hi, hj]
    exact (List.pairwise_iff_getElem.mp hnd) i j hi hj hij
  rw [g a (by omega), g b (by omega), g c hc] at h
  have h1 := inj a b hab (by omega)
  have h2 := inj b c hbc hc
  have h3 := inj a c (by omega) hc
  cases right
  · simp only [Bool.false_eq_true, if_false] at h
    subst h; exact ⟨h1, h2, h3⟩
  · simp only [if_true] at h
    rcases h with h | h <;> subst h
    · exact ⟨h1.symm, h3, h2⟩
    · exact ⟨h3, h2.symm, h1⟩


/-- A small integer scalar, used only to evaluate the models in `decide`d examples (`x / y` is
integer division; decimal literals `m·10^-e` are truncated, so scale coordinates by 10). -/
structure ZS where
  v : Int
deriving DecidableEq, Repr

instance : Scalar ZS where
  add a b := ⟨a.v + b.v⟩
  sub a b := ⟨a.v - b.v⟩
  mul a b := ⟨a.v * b.v⟩
  div a b := ⟨a.v / b.v⟩
  neg a := ⟨-a.v⟩
  lt a b := a.v < b.v
  le a b := a.v ≤ b.v
  beq a b := a.v == b.v
  ofNat n := ⟨n⟩
  ofSci m e := ⟨m / 10 ^ e⟩
  dlt := fun a b => inferInstanceAs (Decidable (a.v < b.v))
  dle := fun a b => inferInstanceAs (Decidable (a.v ≤ b.v))
  abs a := ⟨a.v.natAbs⟩
  min a b := if a.v ≤ b.v then a else b
  max a b := if a.v ≤ b.v then b else a

end Lyon.C02c
