/-
  NO-PANIC, part 5: error recovery (`sort_active_edges` with its merge-vertex fix-up `swapBack`,
  `recover_from_error`).

  * `swapBack`: the indices `idx`, `idx - 1` are in range (`mEdgeIdx` unreachable here); when no
    prefix of the re-sorted active list has an `in` winding the loop reaches `idx == 0`: since lyon
    747d7f78 that is `Err(Internal(MergeVertexOutside))` (before: `idx - 1` underflowed - a panic
    REACHABLE on finite input, finding `C01-sort-active-edges-merge-underflow`, fixed);
  * `partial_cmp(..).unwrap()` (`mNaN`) is unreachable for a scalar type without NaN (`hNaN`);
  * `recover_from_error`: `begin_span` is only called with `span_index == spans.len()` (`mSpanIns`
    unreachable here) and the surplus spans popped are live (`mDead` unreachable).
-/
import LyonVerif.Lemmas.SweepSafeActive

set_option linter.unusedSectionVars false
set_option linter.unusedVariables false
set_option linter.unusedSimpArgs false
set_option mvcgen.warning false

namespace Lyon.SweepSafe
open Lyon Lyon.Scalar Lyon.Mono Lyon.Sweep Lyon.EQ
open Std.Do

variable {α : Type} [Scalar α] [Wide α]
variable {tol : α} {n : Nat} {A : List String}

/-- no value of the scalar type is a NaN -/
def NoNaN (α : Type) [Wide α] : Prop := ∀ x : α, Wide.isNaN x = false

theorem safe_iff {s : St α} : Safe tol s ↔ SomeExcept [] s.spans ∧ s.tolerance = tol :=
  ⟨fun ⟨_, h⟩ => ⟨h.1, h.2.1⟩, fun h => ⟨_, h.1, h.2, rfl⟩⟩

theorem Safe.frame {s s' : St α} (h : Safe tol s) (h1 : s'.spans = s.spans) (h2 : s'.tolerance = s.tolerance) :
    Safe tol s' := safe_iff.mpr ⟨h1 ▸ (safe_iff.mp h).1, h2 ▸ (safe_iff.mp h).2⟩

theorem swapBack_size (rule : Slab.Rule) : ∀ (f : Nat) (a : Array (ActiveEdge α)) (idx : Nat) (w : Int)
    (a' : Array (ActiveEdge α)), swapBack rule f a idx w = .ok a' → a'.size = a.size
  | 0, a, idx, w, a', e => by simp [swapBack] at e
  | f+1, a, idx, w, a', e => by
    simp only [swapBack] at e
    split at e
    · cases e
    · split at e
      · split at e
        · cases e; simp
        · have := swapBack_size rule f _ _ _ a' e
          simpa using this
      · cases e

theorem swapBack_err (rule : Slab.Rule) : ∀ (f : Nat) (a : Array (ActiveEdge α)) (idx : Nat) (w : Int)
    (e : Fail), idx < a.size → swapBack rule f a idx w = .error e →
      e = .fuel ∨ e = .err "Internal(MergeVertexOutside)"
  | 0, a, idx, w, e, _, h => by simp [swapBack] at h; exact Or.inl h.symm
  | f+1, a, idx, w, e, hi, h => by
    simp only [swapBack] at h
    split at h
    · cases h; exact Or.inr rfl
    · rename_i h0
      have h0' : idx ≠ 0 := by simpa using h0
      split at h
      · split at h
        · cases h
        · exact swapBack_err rule f _ _ _ e (by simp; omega) h
      · rename_i hx
        exfalso
        have h2 : idx - 1 < a.size := by omega
        exact hx a[idx] a[idx - 1] (by simp [hi]) (by simp [h2])

theorem mark_safeS (b : Nat) :
    ⦃fun s => ⌜Safe tol s⌝⦄ (mark b : SM α Unit) ⦃safePost A fun _ s => Safe tol s⦄ :=
  mark_safe _ (fun s c h => h.frame rfl rfl) b

theorem anyNaN_false (h : NoNaN α) (keys : Array (α × Nat)) : anyNaNKey keys = false := by
  unfold anyNaNKey
  simp [h _]

theorem sortActiveEdges_safe (hNaN : NoNaN α ∨ mNaN ∈ A) :
    ⦃fun s => ⌜Safe tol s⌝⦄ (sortActiveEdges : SM α Unit) ⦃safePost A fun _ s => Safe tol s⦄ := by
  unfold sortActiveEdges
  strip_mdata
  have h1 := mark_safeS (α := α) (tol := tol) (A := A)
  mvcgen [h1] invariants
  · post⟨fun _ s => ⌜Safe tol s⌝, fun f _ => ⌜Allowed A f⌝⟩
  · post⟨fun _ s => ⌜Safe tol s⌝, fun f _ => ⌜Allowed A f⌝⟩
  · post⟨fun r s => ⌜Safe tol s ∧ r.2.1.size = r.1.prefix.length + r.1.suffix.length⌝, fun f _ => ⌜Allowed A f⌝⟩
  with skip
  case vc4 =>
    rcases hNaN with hNaN | hNaN
    · exfalso
      have h := ‹(decide (_ ≥ 2) && anyNaNKey _) = true›
      rw [anyNaN_false hNaN] at h
      simp at h
    · exact allowed_panic hNaN
  case vc5 => exact allowed_unmodelled _
  case vc11 =>
    rename_i hx s1 h1 _ s h
    refine ⟨h, ?_⟩
    rw [swapBack_size _ _ _ _ _ _ hx]
    exact h1.2.trans (by simp only [List.length_append, List.length_cons, List.length_nil]; omega)
  case vc13 =>
    rename_i cur suff hr b edges wn ae0 hget hm hin f hx s h
    have hlt : cur < edges.size := by
      rcases Array.getElem?_eq_some_iff.mp hget with ⟨hh, _⟩; exact hh
    rcases swapBack_err _ _ _ _ _ _ hlt hx with e | e
    · rw [e]; exact allowed_fuel
    · rw [e]; exact allowed_err _
  case vc16 =>
    refine ⟨by assumption, ?_⟩
    rw [range_length]; simp
  all_goals first
    | (intro _ h; exact h)
    | exact (‹Safe tol _ ∧ _›).1
    | (rename_i h _; exact Safe.frame h rfl rfl)
    | (have h := ‹Safe tol _ ∧ _›; exact Safe.frame h.1 rfl rfl)
    | (have h := ‹Safe tol _ ∧ _›
       exact ⟨h.1, h.2.trans (by simp only [List.length_append, List.length_cons, List.length_nil]; omega)⟩)


/-- `begin_span(spans.len(), ..)`: pushing at the end never fails -/
theorem beginSpan_at_end (i : Int) (pos : P α) (id : Nat) :
    ⦃fun s => ⌜Safe tol s ∧ (s.spans.size : Int) = i⌝⦄ (beginSpan i pos id : SM α Unit)
    ⦃safePost A fun _ s => Safe tol s ∧ (s.spans.size : Int) = i + 1⦄ := by
  unfold beginSpan
  mvcgen
  · rename_i s h _ _
    have h1 := safe_iff.mp h.1
    refine ⟨safe_iff.mpr ⟨someExcept_insert h1.1 _ _, h1.2⟩, ?_⟩
    have := h.2
    simp
    omega
  · rename_i s h hn
    exfalso
    have := h.2
    omega

theorem someExcept_pop {spans : Array (Option (Adv α))} (h : SomeExcept [] spans) : SomeExcept [] spans.pop := by
  intro j hj hn
  have hj' : j < spans.size := by simp at hj; omega
  rw [Array.getElem_pop] at hn
  exact h j hj' hn

theorem upd_eq {w : WindingState} {r : Slab.Rule} {k : Int} {m : Int}
    (h1 : (w.update r k).spanIndex ≥ m) (h2 : w.spanIndex < m) : m = (w.update r k).spanIndex := by
  rcases update_spanIndex w r k with h | h
  · omega
  · omega

theorem recoverFromError_safe (hNaN : NoNaN α ∨ mNaN ∈ A) :
    ⦃fun s => ⌜Safe tol s⌝⦄ (recoverFromError : SM α Unit) ⦃safePost A fun _ s => Safe tol s⦄ := by
  unfold recoverFromError
  strip_mdata
  have h1 := mark_safeS (α := α) (tol := tol) (A := A)
  have h2 := sortActiveEdges_safe (α := α) (tol := tol) (A := A) hNaN
  have h3 := beginSpan_at_end (α := α) (tol := tol) (A := A)
  mvcgen [mark, emitTris, h2, h3] invariants
  · post⟨fun r s => ⌜Safe tol s ∧ r.2.spanIndex < (s.spans.size : Int)⌝, fun f _ => ⌜Allowed A f⌝⟩
  · post⟨fun r s => ⌜Safe tol s ∧ r.1.suffix.length ≤ s.spans.size⌝, fun f _ => ⌜Allowed A f⌝⟩
  · post⟨fun r s => ⌜Safe tol s ∧ r.2.spanIndex < (s.spans.size : Int)⌝, fun f _ => ⌜Allowed A f⌝⟩
  · post⟨fun r s => ⌜Safe tol s ∧ r.1.suffix.length ≤ s.spans.size⌝, fun f _ => ⌜Allowed A f⌝⟩
  with skip
  all_goals first
    | (intro _ h; exact h)
    | exact (‹Safe tol _ ∧ _›).1
    | (have h := ‹Safe tol _ ∧ (_ : Int) = _›; exact ⟨h.1, by have := h.2; omega⟩)
    | (have h := ‹Safe tol _ ∧ (_ : Int) < _›; exact ⟨h.1, by have := h.2; omega⟩)
    | (rename_i s h hge t
       exact ⟨h.1.frame rfl rfl, show (s.spans.size : Int) = _ by have := h.2; omega⟩)
    | (rename_i s h hge t
       exact ⟨h.1.frame rfl rfl, upd_eq hge h.2⟩)
    | (refine ⟨?_, by show (-1 : Int) < _; omega⟩
       first
         | (rename_i s h _ _ _ _ _ _; exact Safe.frame h rfl rfl)
         | (rename_i s h _ _ _ _ _; exact Safe.frame h rfl rfl)
         | (rename_i s h _ _ _ _; exact Safe.frame h rfl rfl)
         | (rename_i s h _ _ _; exact Safe.frame h rfl rfl))
    | (rename_i s h hx
       exfalso
       have h1 := (safe_iff.mp h.1).1
       have hl : s.spans.size - 1 < s.spans.size := by
         have := h.2; simp only [List.length_cons] at this; omega
       rw [getD_eq hl] at hx
       have := h1 _ hl hx
       simp at this)
    | (have h := ‹Safe tol _ ∧ (_ :: _).length ≤ _›
       refine ⟨safe_iff.mpr ⟨someExcept_pop (safe_iff.mp h.1).1, (safe_iff.mp h.1).2⟩, ?_⟩
       show _ ≤ (Array.pop _).size
       have := h.2
       simp only [List.length_cons] at this
       simp only [Array.size_pop]
       omega)
    | (have h := ‹Safe tol _ ∧ (_ : Int) < _›
       refine ⟨h.1, ?_⟩
       rw [range_length]
       omega)

end Lyon.SweepSafe
