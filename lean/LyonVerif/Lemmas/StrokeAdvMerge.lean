/-
  Advancement bookkeeping of the complete stroker model with MERGED points: a point within the merge
  threshold of the last kept point is dropped by `fixed_width_step_impl` (it only sets
  `may_need_empty_cap` while a single point is kept), so the table of advancements ranges over the
  KEPT points `keptFrom`.  Any open polyline sub-path `begin p0, line_to …, end(false)`, with any number
  of points (also none: the empty cap), started in any idle state.
-/
import LyonVerif.Lemmas.StrokeAdvPath

set_option linter.unusedSectionVars false
set_option linter.unusedVariables false

namespace Lyon.C05c
open Lyon Scalar Lyon.Stroke Lyon.Stroke.Full Lyon.C05 Lyon.C05b

section
variable {α : Type} [Scalar α] [Transc α] [Asin α] [FlatConst α]

/-- the points `fixed_width_step_impl` keeps: each one not within the merge threshold of the last
kept point -/
def keptFrom (thr : α) : P α → List (Nat × P α) → List (Nat × P α)
  | _, [] => []
  | last, q :: r => if pointsAreTooClose thr last q.2 then keptFrom thr last r else q :: keptFrom thr q.2 r

/-- a merged point changes nothing but the flag -/
theorem fwStep_merged {e : Env α} {st : St α} {next : EP α} (h : st.tooClose e.thr next.position = true) :
    fwStep e st next = ({ st with mayNeedEmptyCap := st.mayNeedEmptyCap || st.buf.count == 1 }, false) := by
  unfold fwStep; rw [if_pos h]

/-- the `line_to` loop with merged points: as `feedFw_advs`, the table over the kept points -/
theorem feedFw_advs_m {e : Env α} (hnan : Transc.isNaN (nan : α) = true)
    (f0 : EP α) (rest : List (Nat × P α)) :
    ∀ (st : St α) (a b : EP α) (ib : Nat), WF st.buf → st.buf.lastTwo = some (a, b) → Fresh e b →
      b.src = .endpoint ib →
      (b.advancement = nan ∨ b.advancement = a.advancement + len (b.position - a.position)) →
      ((st.buf.count = 2 ∧ a = f0) ∨ (st.buf.count = 3 ∧ st.firsts.head? = some f0)) →
      ∃ a' b' il, (rest.foldl (fun s q => (fwStep e s (linePt e q)).1) st).buf.lastTwo = some (a', b')
        ∧ Emits (AdvOK (advTable (a.advancement + len (b.position - a.position))
              ((ib, b.position) :: keptFrom e.thr b.position rest)))
            st.out (rest.foldl (fun s q => (fwStep e s (linePt e q)).1) st).out
        ∧ b'.src = .endpoint il
        ∧ (advTable (a.advancement + len (b.position - a.position))
              ((ib, b.position) :: keptFrom e.thr b.position rest)).getLast?
            = some (il, b'.position, a'.advancement + len (b'.position - a'.position))
        ∧ (((rest.foldl (fun s q => (fwStep e s (linePt e q)).1) st).buf.count = 2 ∧ a' = f0)
          ∨ ((rest.foldl (fun s q => (fwStep e s (linePt e q)).1) st).buf.count = 3
              ∧ (rest.foldl (fun s q => (fwStep e s (linePt e q)).1) st).firsts.head? = some f0))
        ∧ WF (rest.foldl (fun s q => (fwStep e s (linePt e q)).1) st).buf := by
  induction rest with
  | nil =>
    intro st a b ib hwf hab _ hsrc _ hfirst
    exact ⟨a, b, ib, hab, Emits.refl _ _, hsrc, by simp [advTable, keptFrom], hfirst, hwf⟩
  | cons q rest ih =>
    intro st a b ib hwf hab hb hsrc hadv hfirst
    have hlast := hwf.lastTwo_last _ _ hab
    by_cases hclose : pointsAreTooClose e.thr b.position q.2 = true
    · -- merged: the state is unchanged up to the flag
      have hc : st.tooClose e.thr (linePt e q).position = true := by rw [tooClose_eq hlast]; exact hclose
      rw [List.foldl_cons, fwStep_merged hc]
      have hk : keptFrom e.thr b.position (q :: rest) = keptFrom e.thr b.position rest := by
        simp only [keptFrom]; rw [if_pos hclose]
      rw [hk]
      exact ih { st with mayNeedEmptyCap := st.mayNeedEmptyCap || st.buf.count == 1 } a b ib hwf hab hb hsrc hadv hfirst
    · have hfar : pointsAreTooClose e.thr b.position (linePt e q).position = false := by
        show pointsAreTooClose e.thr b.position q.2 = false
        simpa using hclose
      have hk : keptFrom e.thr b.position (q :: rest) = q :: keptFrom e.thr q.2 rest := by
        simp only [keptFrom]; rw [if_neg hclose]
      rw [hk]
      obtain ⟨b1, h1, h2, h3, h4, h5, h6, h7, h8⟩ := fwStep_join_advs hwf hab hb (linePt e q) hfar
      have hA := joinAdv_eq hnan hadv
      rw [hA] at h5 h6
      have hfirst' : ((fwStep e st (linePt e q)).1.buf.count = 2 ∧ b1 = f0)
          ∨ ((fwStep e st (linePt e q)).1.buf.count = 3 ∧ (fwStep e st (linePt e q)).1.firsts.head? = some f0) := by
        right
        refine ⟨h7, ?_⟩
        rw [h8]
        rcases hfirst with ⟨hc, rfl⟩ | ⟨hc, hf⟩
        · simp [hc]
        · have : (st.buf.count == 2) = false := by simp [hc]
          rw [this]; exact hf
      obtain ⟨a'', b'', il, g1, g2, g3, g4l, g5, g6⟩ := ih _ b1 (linePt e q) q.1 h2 h1 (fresh_mk' e _ _ _) rfl (Or.inl rfl)
        hfirst'
      have hpos : (linePt e q).position = q.2 := rfl
      rw [h5, h3, hpos] at g2 g4l
      refine ⟨a'', b'', il, g1, ?_, g3,
        by rw [advTable_getLast _ (ib, b.position) q _]; exact g4l, g5, g6⟩
      rw [List.foldl_cons]
      refine Emits.trans (Emits.mono ?_ h6) (Emits.mono ?_ g2)
      · rintro v ⟨v1, v2, v3⟩
        exact ⟨_, advTable_head _ (ib, b.position) (q :: keptFrom e.thr q.2 rest), by rw [v1, hsrc], v2, v3⟩
      · rintro v ⟨t, ht, hv⟩
        exact ⟨t, advTable_tail _ (ib, b.position) q _ t ht, hv⟩

/-- `tessellate_empty_cap`: its vertices sit on the single kept point and carry its advancement -/
theorem emptyCap_emits (e : Env α) (st : St α) (point : EP α) (hg : st.buf.get 0 = some point) :
    Emits (SiteOK point.src point.position point.advancement) st.out (emptyCap e st) := by
  unfold emptyCap
  rw [hg]
  simp only []
  cases e.o.startCap with
  | butt => exact Emits.refl _ _
  | square =>
    unfold tessellateEmptySquareCap
    simp only []
    exact (((((((Emits.refl _ _).vert ⟨rfl, rfl, rfl⟩).vert ⟨rfl, rfl, rfl⟩).vert ⟨rfl, rfl, rfl⟩).vert
      ⟨rfl, rfl, rfl⟩).tri _).tri _)
  | round =>
    unfold tessellateEmptyRoundCap
    simp only []
    exact ((((Emits.refl _ _).vert ⟨rfl, rfl, rfl⟩).vert ⟨rfl, rfl, rfl⟩).trans
      (roundCap_emits _ _ _ _ _ _ _ _ _ _ rfl rfl)).trans (roundCap_emits _ _ _ _ _ _ _ _ _ _ rfl rfl)

/-- `end(false)` on a window with at least two points: the last edge and the first edge -/
theorem endSub_open_advs {e : Env α} (hfw : e.o.varWidth = false) {st' : St α} {a' b' F : EP α} {il : Nat}
    {T : List (Nat × P α × α)} (hwf : WF st'.buf) (g1 : st'.buf.lastTwo = some (a', b'))
    (g3 : b'.src = .endpoint il)
    (g4 : (il, b'.position, a'.advancement + len (b'.position - a'.position)) ∈ T)
    (g5 : (st'.buf.count = 2 ∧ a' = F) ∨ (st'.buf.count = 3 ∧ st'.firsts.head? = some F))
    (hF : AdvOK T (baseVertex F.src F.position F.halfWidth F.advancement)) :
    Emits (AdvOK T) st'.out (endSub e (fwStep e) st' false).out
    ∧ WF (endSub e (fwStep e) st' false).buf ∧ (endSub e (fwStep e) st' false).buf.count = 0
    ∧ (endSub e (fwStep e) st' false).subPathStartAdvancement = a'.advancement + len (b'.position - a'.position) := by
  have hcount2 : 2 ≤ st'.buf.count := WF.lastTwo_count _ _ g1
  have hcap : (({ st' with mayNeedEmptyCap := st'.mayNeedEmptyCap || (false && st'.buf.count == 1) } : St α).mayNeedEmptyCap
      && ({ st' with mayNeedEmptyCap := st'.mayNeedEmptyCap || (false && st'.buf.count == 1) } : St α).buf.count == 1) = false := by
    have : (st'.buf.count == 1) = false := by simp; omega
    show ((st'.mayNeedEmptyCap || (false && st'.buf.count == 1)) && st'.buf.count == 1) = false
    simp [this]
  have hcaps := endWithCaps_eq_some (e := e) hcap
    (show ({ st' with mayNeedEmptyCap := st'.mayNeedEmptyCap || (false && st'.buf.count == 1) } : St α).buf.lastTwo = some (a', b') from g1)
  have hendsub : endSub e (fwStep e) st' false
      = { (endWithCaps e { st' with mayNeedEmptyCap := st'.mayNeedEmptyCap || (false && st'.buf.count == 1) }) with
          buf := (endWithCaps e { st' with mayNeedEmptyCap := st'.mayNeedEmptyCap || (false && st'.buf.count == 1) }).buf.clear,
          firsts := [] } := by
    unfold endSub; simp
  have hfirstF : (if st'.buf.count > 2 then st'.firsts.headD a' else a') = F := by
    rcases g5 with ⟨hc, rfl⟩ | ⟨hc, hf⟩
    · rw [if_neg (by omega)]
    · rw [if_pos (by omega)]
      cases hfs : st'.firsts with
      | nil => rw [hfs] at hf; simp at hf
      | cons x xs => rw [hfs] at hf; simp at hf; simp [hf]
  refine ⟨?_, ?_, ?_, ?_⟩
  · rw [hendsub, hcaps]
    have s2 : Emits (AdvOK T) st'.out
        (capsOut e { st' with mayNeedEmptyCap := st'.mayNeedEmptyCap || (false && st'.buf.count == 1) } a' b').2 := by
      show Emits _ st'.out (lastEdge e a' (if e.o.varWidth then b' else lastSidesFw a' b') (st'.buf.count == 2) st'.out).2
      rw [hfw]
      refine Emits.mono ?_ (lastEdge_emits e a' (lastSidesFw a' b') (st'.buf.count == 2) st'.out)
      rintro v ⟨v1, v2, v3⟩
      exact ⟨_, g4, by rw [v1]; exact g3, v2, v3⟩
    refine s2.trans ?_
    show Emits _ _ (firstEdge e (if st'.buf.count > 2 then st'.firsts.headD a' else a') _ _)
    rw [hfirstF]
    refine Emits.mono ?_ (firstEdge_emits e _ _ _)
    rintro v ⟨v1, v2, v3⟩
    obtain ⟨t, ht, h1, h2, h3⟩ := hF
    exact ⟨t, ht, by rw [v1]; exact h1, by rw [v2]; exact h2, by rw [v3]; exact h3⟩
  · rw [hendsub, hcaps]
    obtain ⟨l, hl⟩ := hwf
    exact ⟨[], hl.clear⟩
  · rw [hendsub]; rfl
  · rw [hendsub, hcaps]
    show (lastEdge e a' (if e.o.varWidth then b' else lastSidesFw a' b') (st'.buf.count == 2) st'.out).1.advancement = _
    rw [hfw, lastEdge_adv]
    rfl

/-- **an open sub-path after its `begin`, any points (merged ones included, possibly none)**: `st` holds
the first point `F` only; the vertices emitted by the `line_to`s and `end(false)` agree with the
table over the kept points, and `sub_path_start_advancement` ends as the table's last entry -/
theorem sub_from_one {e : Env α} (hfw : e.o.varWidth = false) (hnan : Transc.isNaN (nan : α) = true)
    (i0 : Nat) (p0 : P α) (s0 : α) (pts : List (Nat × P α)) :
    ∀ st : St α, WF st.buf → st.buf.count = 1 →
      st.buf.last = some (EP.mk' p0 e.hwFw s0 e.o.join (.endpoint i0) false) →
      st.subPathStartAdvancement = s0 →
      Emits (AdvOK (advTable s0 ((i0, p0) :: keptFrom e.thr p0 pts))) st.out
        (endSub e (fwStep e) (pts.foldl (fun s q => (fwStep e s (linePt e q)).1) st) false).out
      ∧ WF (endSub e (fwStep e) (pts.foldl (fun s q => (fwStep e s (linePt e q)).1) st) false).buf
      ∧ (endSub e (fwStep e) (pts.foldl (fun s q => (fwStep e s (linePt e q)).1) st) false).buf.count = 0
      ∧ ((advTable s0 ((i0, p0) :: keptFrom e.thr p0 pts)).getLast?).map (·.2.2)
          = some (endSub e (fwStep e) (pts.foldl (fun s q => (fwStep e s (linePt e q)).1) st) false).subPathStartAdvancement := by
  induction pts with
  | nil =>
    intro st hwf hc hl hs
    simp only [List.foldl_nil, keptFrom, advTable]
    have hg : st.buf.get 0 = some (EP.mk' p0 e.hwFw s0 e.o.join (.endpoint i0) false) := by
      have := hl
      simp only [PointBuffer.last, hc, Nat.sub_self] at this
      simpa using this
    have hlt : st.buf.lastTwo = none := lastTwo_none (by omega)
    have hendsub : endSub e (fwStep e) st false
        = { (endWithCaps e { st with mayNeedEmptyCap := st.mayNeedEmptyCap || (false && st.buf.count == 1) }) with
            buf := (endWithCaps e { st with mayNeedEmptyCap := st.mayNeedEmptyCap || (false && st.buf.count == 1) }).buf.clear,
            firsts := [] } := by
      unfold endSub; simp
    rw [hendsub]
    set st0 : St α := { st with mayNeedEmptyCap := st.mayNeedEmptyCap || (false && st.buf.count == 1) } with hst0
    by_cases hcap : (st0.mayNeedEmptyCap && st0.buf.count == 1) = true
    · rw [endWithCaps_eq_cap hcap]
      refine ⟨?_, ?_, rfl, ?_⟩
      · refine Emits.mono ?_ (emptyCap_emits e st0 _ hg)
        rintro v ⟨v1, v2, v3⟩
        exact ⟨(i0, p0, s0), by simp, v1, v2, v3⟩
      · obtain ⟨l, hl'⟩ := hwf; exact ⟨[], hl'.clear⟩
      · show some s0 = some st.subPathStartAdvancement
        rw [hs]
    · have hcap' : (st0.mayNeedEmptyCap && st0.buf.count == 1) = false := by simpa using hcap
      rw [endWithCaps_eq_none hcap' hlt]
      refine ⟨Emits.refl _ _, ?_, rfl, ?_⟩
      · obtain ⟨l, hl'⟩ := hwf; exact ⟨[], hl'.clear⟩
      · show some s0 = some st.subPathStartAdvancement
        rw [hs]
  | cons q r ih =>
    intro st hwf hc hl hs
    rw [List.foldl_cons]
    by_cases hclose : pointsAreTooClose e.thr p0 q.2 = true
    · have hcl : st.tooClose e.thr (linePt e q).position = true := by rw [tooClose_eq hl]; exact hclose
      rw [fwStep_merged hcl]
      have hk : keptFrom e.thr p0 (q :: r) = keptFrom e.thr p0 r := by
        simp only [keptFrom]; rw [if_pos hclose]
      rw [hk]
      exact ih { st with mayNeedEmptyCap := st.mayNeedEmptyCap || st.buf.count == 1 } hwf hc hl hs
    · have hfar : pointsAreTooClose e.thr p0 q.2 = false := by simpa using hclose
      have hk : keptFrom e.thr p0 (q :: r) = q :: keptFrom e.thr q.2 r := by
        simp only [keptFrom]; rw [if_neg hclose]
      rw [hk]
      have hcl : st.tooClose e.thr (linePt e q).position = false := by rw [tooClose_eq hl]; exact hfar
      rw [fwStep_eq_first hcl (lastTwo_none (by omega)) hl]
      -- the window with two points
      set A := (firstEdgeSetup (EP.mk' p0 e.hwFw s0 e.o.join (.endpoint i0) false) (linePt e q)).1 with hA
      set B := (firstEdgeSetup (EP.mk' p0 e.hwFw s0 e.o.join (.endpoint i0) false) (linePt e q)).2 with hB
      obtain ⟨b1, hb1, hwf1, hc1, hl1, _⟩ := hwf.replaceLast (by omega) A
      obtain ⟨b2, hb2, hwf2, hc2, _, hlt2⟩ := hwf1.push B
      have est2 : (st.setLast A).push B = { st with buf := b2 } := by
        simp [St.push, St.setLast, hb1, hb2]
      rw [est2]
      have hab : ({ st with buf := b2 } : St α).buf.lastTwo = some (A, B) := hlt2 _ hl1
      have hcnt : ({ st with buf := b2 } : St α).buf.count = 2 := by show b2.count = 2; rw [hc2, hc1, hc]; rfl
      have hBadv : B.advancement = A.advancement + len (B.position - A.position) := by
        show (if Transc.isNaN (nan : α) then s0 + len (q.2 - p0) else nan) = s0 + len (q.2 - p0)
        rw [hnan]; rfl
      obtain ⟨a', b', il, g1, g2, g3, g4l, g5, g6⟩ := feedFw_advs_m hnan A r { st with buf := b2 } A B q.1 hwf2 hab
        ⟨rfl, rfl, rfl, rfl, rfl⟩ rfl (Or.inr hBadv) (Or.inl ⟨hcnt, rfl⟩)
      have eA : A.advancement + len (B.position - A.position) = s0 + len (q.2 - p0) := rfl
      have eBp : B.position = q.2 := rfl
      rw [eA, eBp] at g2 g4l
      have hT : ∀ t ∈ advTable (s0 + len (q.2 - p0)) ((q.1, q.2) :: keptFrom e.thr q.2 r),
          t ∈ advTable s0 ((i0, p0) :: q :: keptFrom e.thr q.2 r) := advTable_tail s0 (i0, p0) q _
      obtain ⟨k1, k2, k3, k4⟩ := endSub_open_advs (T := advTable s0 ((i0, p0) :: q :: keptFrom e.thr q.2 r))
        hfw g6 g1 g3 (hT _ (List.mem_of_getLast? g4l)) g5
        ⟨(i0, p0, s0), advTable_head s0 (i0, p0) _, rfl, rfl, rfl⟩
      refine ⟨(Emits.mono (fun v ⟨t, ht, hv⟩ => ⟨t, hT t ht, hv⟩) g2).trans k1, k2, k3, ?_⟩
      rw [k4, advTable_getLast s0 (i0, p0) q _, g4l]
      rfl

/-- `begin p0` from an idle run: the window holds the first point -/
theorem run_begin_g (e : Env α) (store : Nat → List α) (hfw : e.o.varWidth = false)
    (r0 : Run α) (h0 : Idle r0) (i0 : Nat) (p0 : P α) :
    ∃ st1 : St α, runFrom e store r0 [IdEv.begin i0 p0] = ⟨st1, i0, p0, false⟩
      ∧ WF st1.buf ∧ st1.buf.count = 1
      ∧ st1.buf.last = some (EP.mk' p0 e.hwFw r0.st.subPathStartAdvancement e.o.join (.endpoint i0) false)
      ∧ st1.subPathStartAdvancement = r0.st.subPathStartAdvancement ∧ st1.out = r0.st.out := by
  obtain ⟨hp, hwf, hc0⟩ := h0
  unfold runFrom
  simp only [List.foldl_cons, List.foldl_nil]
  set s0 := r0.st.subPathStartAdvancement with hs0
  set st0 : St α := { r0.st with mayNeedEmptyCap := false } with hst0
  have hb : (if r0.panicked = true then r0 else runEvent e store r0 (IdEv.begin i0 p0))
      = ⟨st0.push (EP.mk' p0 e.hwFw s0 e.o.join (.endpoint i0) false), i0, p0, false⟩ := by
    rw [if_neg (by simp [hp])]
    show ({ r0 with st := (e.step st0 _).1, curId := i0, curPos := p0 } : Run α) = _
    rw [step_fixed hfw, hwOf_fw hfw]
    have : fwStep e st0 (EP.mk' p0 e.hwFw r0.st.subPathStartAdvancement e.o.join (Src.endpoint i0) false)
        = (st0.push (EP.mk' p0 e.hwFw s0 e.o.join (.endpoint i0) false), true) :=
      fwStep_eq_zero (tooClose_none (last_none hc0) _ _) (lastTwo_none (by show r0.st.buf.count < 2; omega))
        (last_none hc0)
    rw [this, hp]
  rw [hb]
  obtain ⟨bb, hbb, hwfb, hcb, hlb, _⟩ := hwf.push (EP.mk' p0 e.hwFw s0 e.o.join (.endpoint i0) false)
  have est1 : st0.push (EP.mk' p0 e.hwFw s0 e.o.join (.endpoint i0) false) = { st0 with buf := bb } := by
    show ({ st0 with buf := (st0.buf.push _).getD st0.buf } : St α) = _
    rw [show st0.buf = r0.st.buf from rfl, hbb]; rfl
  rw [est1]
  exact ⟨_, rfl, hwfb, by show bb.count = 1; rw [hcb, hc0]; rfl, hlb, rfl, rfl⟩

/-- the events of an open polyline sub-path with any number of `line_to`s -/
def subEvsM (i0 : Nat) (p0 : P α) (pts : List (Nat × P α)) : List (IdEv α) :=
  IdEv.begin i0 p0 :: (lineEvs pts ++ [IdEv.end_ false])

/-- **one open polyline sub-path with merged points, started in any idle state**: the vertices agree
with the table over the KEPT points (`keptFrom`: each not within the merge threshold of the last kept
one); afterwards the run is idle and `sub_path_start_advancement` is the table's last entry -/
theorem subpath_advancement_m (e : Env α) (store : Nat → List α) (hfw : e.o.varWidth = false)
    (hnan : Transc.isNaN (nan : α) = true) (r0 : Run α) (h0 : Idle r0)
    (i0 : Nat) (p0 : P α) (pts : List (Nat × P α)) :
    Idle (runFrom e store r0 (subEvsM i0 p0 pts))
    ∧ Emits (AdvOK (advTable r0.st.subPathStartAdvancement ((i0, p0) :: keptFrom e.thr p0 pts)))
        r0.st.out (runFrom e store r0 (subEvsM i0 p0 pts)).st.out
    ∧ ((advTable r0.st.subPathStartAdvancement ((i0, p0) :: keptFrom e.thr p0 pts)).getLast?).map (·.2.2)
        = some (runFrom e store r0 (subEvsM i0 p0 pts)).st.subPathStartAdvancement := by
  obtain ⟨st1, e1, hwf1, hc1, hl1, hs1, hout1⟩ := run_begin_g e store hfw r0 h0 i0 p0
  have hsplit : subEvsM i0 p0 pts = [IdEv.begin i0 p0] ++ (lineEvs pts ++ [IdEv.end_ false]) := rfl
  rw [hsplit, runFrom_append, e1, runFrom_append]
  obtain ⟨r1, r2⟩ := runFrom_lines hfw store pts ⟨st1, i0, p0, false⟩ rfl
  generalize runFrom e store ⟨st1, i0, p0, false⟩ (lineEvs pts) = rr at r1 r2
  have hend : runFrom e store rr [IdEv.end_ false] = { rr with st := endSub e (fwStep e) rr.st false } := by
    unfold runFrom
    simp only [List.foldl_cons, List.foldl_nil]
    rw [if_neg (by simp [r2])]
    show ({ rr with st := endSub e e.step rr.st false } : Run α) = _
    rw [step_fixed hfw]
  rw [hend]
  obtain ⟨k1, k2, k3, k4⟩ := sub_from_one hfw hnan i0 p0 r0.st.subPathStartAdvancement pts st1 hwf1 hc1 hl1 hs1
  rw [← r1] at k1 k2 k3 k4
  rw [hout1] at k1
  exact ⟨⟨r2, k2, k3⟩, k1, k4⟩

/-! ## a whole path -/

/-- an open polyline sub-path: its first point and the `line_to` points (any number, merged or not) -/
structure SubM (α : Type) where
  i0 : Nat
  p0 : P α
  pts : List (Nat × P α)

def pathEvsM (subs : List (SubM α)) : List (IdEv α) := subs.flatMap (fun s => subEvsM s.i0 s.p0 s.pts)

/-- the table of a path over the kept points of each sub-path; every sub-path continues where the one
before it ended (a sub-path with a single kept point leaves the value alone) -/
def pathTableM (thr : α) (a : α) : List (SubM α) → List (Nat × P α × α)
  | [] => []
  | s :: r => advTable a ((s.i0, s.p0) :: keptFrom thr s.p0 s.pts)
      ++ pathTableM thr (lastAdv a (advTable a ((s.i0, s.p0) :: keptFrom thr s.p0 s.pts))) r

theorem path_advancement_m_from (e : Env α) (store : Nat → List α) (hfw : e.o.varWidth = false)
    (hnan : Transc.isNaN (nan : α) = true) :
    ∀ (subs : List (SubM α)) (r0 : Run α), Idle r0 →
      Idle (runFrom e store r0 (pathEvsM subs))
      ∧ Emits (AdvOK (pathTableM e.thr r0.st.subPathStartAdvancement subs)) r0.st.out
          (runFrom e store r0 (pathEvsM subs)).st.out := by
  intro subs
  induction subs with
  | nil => intro r0 h0; exact ⟨h0, Emits.refl _ _⟩
  | cons s r ih =>
    intro r0 h0
    obtain ⟨k1, k2, k3⟩ := subpath_advancement_m e store hfw hnan r0 h0 s.i0 s.p0 s.pts
    have hev : pathEvsM (s :: r) = subEvsM s.i0 s.p0 s.pts ++ pathEvsM r := by simp [pathEvsM]
    rw [hev, runFrom_append]
    obtain ⟨j1, j2⟩ := ih (runFrom e store r0 (subEvsM s.i0 s.p0 s.pts)) k1
    refine ⟨j1, ?_⟩
    have hl : lastAdv r0.st.subPathStartAdvancement
          (advTable r0.st.subPathStartAdvancement ((s.i0, s.p0) :: keptFrom e.thr s.p0 s.pts))
        = (runFrom e store r0 (subEvsM s.i0 s.p0 s.pts)).st.subPathStartAdvancement := by
      unfold lastAdv
      rw [k3]; rfl
    refine Emits.trans (Emits.mono ?_ k2) (Emits.mono ?_ j2)
    · rintro v ⟨t, ht, hv⟩
      exact ⟨t, by simp only [pathTableM, List.mem_append]; exact Or.inl ht, hv⟩
    · rintro v ⟨t, ht, hv⟩
      exact ⟨t, by simp only [pathTableM, List.mem_append]; rw [hl]; exact Or.inr ht, hv⟩

/-- **advancement along a whole path of open polyline sub-paths, merged points included** -/
theorem path_advancement_m (e : Env α) (store : Nat → List α) (hfw : e.o.varWidth = false)
    (hnan : Transc.isNaN (nan : α) = true) (subs : List (SubM α)) :
    ∀ v ∈ (runEvents e store (pathEvsM subs)).st.out.verts, AdvOK (pathTableM e.thr zero subs) v := by
  obtain ⟨_, vs, ev, qv⟩ := path_advancement_m_from e store hfw hnan subs _ idle_new
  intro v hv
  rw [runEvents_eq_runFrom] at hv
  have h0 : (⟨St.new, unset, nanP, false⟩ : Run α).st.out.verts = [] := rfl
  rw [h0, List.nil_append] at ev
  exact qv v (ev ▸ hv)

end
end Lyon.C05c
