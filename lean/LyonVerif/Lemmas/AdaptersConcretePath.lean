/-
  C16 with the concrete flatteners — whole-path lemmas:

  * `cbPoints F`: the `line.to`s of a callback flattener as an iterator flattener; `cbOkPlain`:
    the curves of a plain event stream are flattened without a panic; for a well-nested program
    they are the curves the builder-side adapter meets (`cbOkPlain_of_run`): the adapter always
    flattens the curve from the TRUE previous endpoint.
  * `flatRun_equivariant`: if the flattener of the target space, on the image of a curve under
    a point map `g`, returns the image of what the flattener of the source space returns
    (same `t`s), then `Flattened` after `Transformed` = `Transformed` after `Flattened`, call for
    call — generic in the flatteners and the point map.

  Core Lean only.
-/
import LyonVerif.Model.Path.AdaptersConcrete
import LyonVerif.Lemmas.Adapters

set_option linter.unusedSectionVars false
set_option linter.unusedVariables false

namespace Lyon.Adapt
open Lyon Lyon.Path Scalar

section generic
variable {π π' α : Type} [Scalar α]

/-- the points a callback flattener emits (`line.to` of every callback) -/
def cbPoints (F : Flattener π α) : IterFlattener π where
  quad a c b := (F.quad a c b).map (·.b)
  cubic a c d b := (F.cubic a c d b).map (·.b)

/-- image of one callback under a point map: the points move, `t.end` stays -/
def mapSeg (g : π → π') (s : FSeg π α) : FSeg π' α := ⟨g s.a, g s.b, s.t⟩

theorem emitLines_mapSeg (g : π → π') (segs : List (FSeg π α)) (prev a : List α) :
    emitLines (segs.map (mapSeg g)) prev a = (emitLines segs prev a).map (mapCall g) := by
  simp [emitLines, mapSeg, mapCall, Function.comp_def]

/-- **flatRun_equivariant**: flattening after transforming = transforming after flattening, call
for call (positions, attributes, order), whenever the two flatteners correspond under `g`
curve by curve. -/
theorem flatRun_equivariant (g : π → π') (F : Flattener π α) (F' : Flattener π' α)
    (hq : ∀ a c b, F'.quad (g a) (g c) (g b) = (F.quad a c b).map (mapSeg g))
    (hc : ∀ a c d b, F'.cubic (g a) (g c) (g d) (g b) = (F.cubic a c d b).map (mapSeg g))
    (s : FlatB π α) (prog : List (Call π (List α))) :
    FlatB.run F' ⟨g s.cur, s.prev⟩ (prog.map (mapCall g)) = (FlatB.run F s prog).map (mapCall g) := by
  induction prog generalizing s with
  | nil => rfl
  | cons c r ih =>
    cases c with
    | begin p a => simpa [FlatB.run, FlatB.step, mapCall] using ih ⟨p, a⟩
    | line p a => simpa [FlatB.run, FlatB.step, mapCall] using ih ⟨p, a⟩
    | end_ cl => simpa [FlatB.run, FlatB.step, mapCall] using ih s
    | quad k p a =>
      have := ih ⟨p, a⟩
      simp only [List.map_cons, mapCall, FlatB.run, FlatB.step, List.map_append, hq,
        emitLines_mapSeg] at this ⊢
      rw [this]
    | cubic k1 k2 p a =>
      have := ih ⟨p, a⟩
      simp only [List.map_cons, mapCall, FlatB.run, FlatB.step, List.map_append, hc,
        emitLines_mapSeg] at this ⊢
      rw [this]

/-- a point map on endpoints that carry attributes (the attributes stay) -/
def mapAP (g : π → π') (p : AP π α) : AP π' α := (g p.1, p.2)

theorem linesA_mapSeg (g : π → π') (fa ta ca : List α) (segs : List (FSeg π α)) :
    linesA fa ta ca (segs.map (mapSeg g)) = (linesA fa ta ca segs).map (mapEvent (mapAP g)) := by
  induction segs generalizing ca with
  | nil => rfl
  | cons s r ih => simp [linesA, mapSeg, mapEvent, mapAP, ih]

/-- **flatAttrIter_equivariant**: `for_each_flattened` after transforming the stored path =
transforming the callbacks of `for_each_flattened`, when the flatteners correspond under `g` -/
theorem flatAttrIter_equivariant (g : π → π') (F : Flattener π α) (F' : Flattener π' α)
    (hq : ∀ a c b, F'.quad (g a) (g c) (g b) = (F.quad a c b).map (mapSeg g))
    (hc : ∀ a c d b, F'.cubic (g a) (g c) (g d) (g b) = (F.cubic a c d b).map (mapSeg g))
    (aevs : List (Event (AP π α))) :
    flatAttrIter F' (aevs.map (mapEvent (mapAP g)))
      = (flatAttrIter F aevs).map (mapEvent (mapAP g)) := by
  induction aevs with
  | nil => rfl
  | cons e r ih =>
    cases e with
    | begin p => simp [flatAttrIter, mapEvent, ih]
    | line a b => simp [flatAttrIter, mapEvent, ih]
    | end_ l f cl => simp [flatAttrIter, mapEvent, ih]
    | quad a c b => simp [flatAttrIter, mapEvent, mapAP, ih, hq, linesA_mapSeg]
    | cubic a c d b => simp [flatAttrIter, mapEvent, mapAP, ih, hc, linesA_mapSeg]

end generic

section any
variable {α : Type} [Scalar α] [Transc α] [FlatConst α]

/-- every curve of a plain event stream is flattened by the callback form without a panic -/
def cbOkPlain (tol : α) : List (Event (P α)) → Bool
  | [] => true
  | .quad a c b :: r => cbOkQuad tol a c b && cbOkPlain tol r
  | .cubic a c d b :: r => cbOkCubic tol a c d b && cbOkPlain tol r
  | _ :: r => cbOkPlain tol r

theorem cbOkPlain_quad_mem (tol : α) (evs : List (Event (P α))) (h : cbOkPlain tol evs = true)
    (a c b : P α) (hm : Event.quad a c b ∈ evs) : cbOkQuad tol a c b = true := by
  induction evs with
  | nil => cases hm
  | cons e r ih =>
    rcases List.mem_cons.mp hm with rfl | hm'
    · simp only [cbOkPlain, Bool.and_eq_true] at h; exact h.1
    · cases e <;> simp only [cbOkPlain, Bool.and_eq_true] at h
      · exact ih h hm'
      · exact ih h hm'
      · exact ih h.2 hm'
      · exact ih h.2 hm'
      · exact ih h hm'

theorem cbOkPlain_cubic_mem (tol : α) (evs : List (Event (P α))) (h : cbOkPlain tol evs = true)
    (a c d b : P α) (hm : Event.cubic a c d b ∈ evs) : cbOkCubic tol a c d b = true := by
  induction evs with
  | nil => cases hm
  | cons e r ih =>
    rcases List.mem_cons.mp hm with rfl | hm'
    · simp only [cbOkPlain, Bool.and_eq_true] at h; exact h.1
    · cases e <;> simp only [cbOkPlain, Bool.and_eq_true] at h
      · exact ih h hm'
      · exact ih h hm'
      · exact ih h.2 hm'
      · exact ih h.2 hm'
      · exact ih h hm'

/-- for a well-nested program, the curve events of the path it denotes are exactly the curves
the builder-side adapter hands to lyon_geom (its `current_position` is the event's `from`) -/
theorem cbOkPlain_of_run {A : Type} (tol : α) (st : Option (P α × P α)) (cur : P α)
    (prog : List (Call (P α) A)) (hn : wellNestedFrom st.isSome prog = true)
    (hs : ∀ f c, st = some (f, c) → cur = c) (h : cbOkRun tol cur prog = true) :
    cbOkPlain tol (specFrom st prog) = true := by
  induction prog generalizing st cur with
  | nil => cases st <;> simp [specFrom, cbOkPlain]
  | cons c r ih =>
    cases st with
    | none =>
      cases c with
      | begin p a =>
        simp only [cbOkRun] at h
        have := ih (some (p, p)) p (by simpa [wellNestedFrom] using hn)
          (by intro f c h; cases h; rfl) h
        simpa [specFrom, cbOkPlain] using this
      | line p a => simp [wellNestedFrom] at hn
      | quad k p a => simp [wellNestedFrom] at hn
      | cubic k1 k2 p a => simp [wellNestedFrom] at hn
      | end_ cl => simp [wellNestedFrom] at hn
    | some fc =>
      obtain ⟨f, c0⟩ := fc
      have hcur : cur = c0 := hs f c0 rfl
      cases c with
      | begin p a => simp [wellNestedFrom] at hn
      | line p a =>
        simp only [cbOkRun] at h
        have := ih (some (f, p)) p (by simpa [wellNestedFrom] using hn)
          (by intro f c h; cases h; rfl) h
        simpa [specFrom, cbOkPlain] using this
      | quad k p a =>
        simp only [cbOkRun, Bool.and_eq_true] at h
        have := ih (some (f, p)) p (by simpa [wellNestedFrom] using hn)
          (by intro f c h; cases h; rfl) h.2
        simp only [specFrom, cbOkPlain, Bool.and_eq_true]
        exact ⟨by rw [← hcur]; exact h.1, this⟩
      | cubic k1 k2 p a =>
        simp only [cbOkRun, Bool.and_eq_true] at h
        have := ih (some (f, p)) p (by simpa [wellNestedFrom] using hn)
          (by intro f c h; cases h; rfl) h.2
        simp only [specFrom, cbOkPlain, Bool.and_eq_true]
        exact ⟨by rw [← hcur]; exact h.1, this⟩
      | end_ cl =>
        simp only [cbOkRun] at h
        have := ih none cur (by simpa [wellNestedFrom] using hn) (by intro f c h; cases h) h
        simpa [specFrom, cbOkPlain] using this

/-- two callback flatteners that agree on the curves of an event stream give the same
flattened stream -/
theorem flatIter_cbPoints_congr (tol : α) (F F' : Flattener (P α) α)
    (hq : ∀ a c b, cbOkQuad tol a c b = true → F.quad a c b = F'.quad a c b)
    (hc : ∀ a c d b, cbOkCubic tol a c d b = true → F.cubic a c d b = F'.cubic a c d b)
    (evs : List (Event (P α))) (h : cbOkPlain tol evs = true) :
    flatIter (cbPoints F) evs = flatIter (cbPoints F') evs := by
  induction evs with
  | nil => rfl
  | cons e r ih =>
    cases e with
    | begin p => simp only [cbOkPlain] at h; simp [flatIter, ih h]
    | line a b => simp only [cbOkPlain] at h; simp [flatIter, ih h]
    | end_ l f cl => simp only [cbOkPlain] at h; simp [flatIter, ih h]
    | quad a c b =>
      simp only [cbOkPlain, Bool.and_eq_true] at h
      rw [flatIter, flatIter, ih h.2]
      simp [cbPoints, hq a c b h.1]
    | cubic a c d b =>
      simp only [cbOkPlain, Bool.and_eq_true] at h
      rw [flatIter, flatIter, ih h.2]
      simp [cbPoints, hc a c d b h.1]

end any

end Lyon.Adapt
