/-
  `ActiveSpan` through `process_intersection`, `handle_intersections`, `update_active_edges`
  (continuation of `Lemmas/SweepSpan.lean`).
-/
import LyonVerif.Lemmas.SweepSpan

set_option linter.unusedSectionVars false
set_option linter.unusedVariables false
set_option linter.unusedSimpArgs false
set_option mvcgen.warning false

namespace Lyon.SweepSpan
open Lyon Lyon.Scalar Lyon.Sweep Lyon.EQ Lyon.SweepPos
open Std.Do

section field
variable {K : Type} [Field K] [LinearOrder K] [IsStrictOrderedRing K]
variable [w : Wide K]

theorem isAfter_neg_y {a b : P K} (h : ¬(!Mono.isAfter a b) = true) : b.y ≤ a.y :=
  isAfter_y (by simpa using h)

attribute [local irreducible] Queue.insertSorted Queue.insertSibling Queue.vertexEventOnEdgeSorted Sources.remapT in
set_option maxHeartbeats 1600000 in
theorem processIntersection_inv (ta tb : w.W) (aei : Nat) (eb0 : PendingEdge K) (belowSeg : Seg w.W) :
    ⦃fun s => ⌜Inv s ∧ (s.curPos.y ≤ eb0.to.y ∧ U eb0.rangeEnd) ∧ U (Wide.narrow ta) ∧ U (Wide.narrow tb) ∧
      ∀ e, s.active[aei]? = some e → e.isMerge = false⌝⦄
    (processIntersection ta tb aei eb0 belowSeg : SM K (PendingEdge K))
    ⦃post⟨fun r s => ⌜Inv s ∧ s.curPos.y ≤ r.to.y ∧ U r.rangeEnd⌝, fun _ s => ⌜Inv s⌝⟩⦄ := by
  unfold processIntersection
  mvcgen
  all_goals
    have hpre := ‹Inv _ ∧ _›
  all_goals first
    | exact hpre.1
    | skip
  all_goals
    have hget := ‹_[aei]? = some _›
    obtain ⟨hI, ⟨hB, hUB⟩, hta, htb, hnm⟩ := hpre
    have hmem := Array.mem_of_getElem? hget
    have hA := hI.1.1 _ hmem (hnm _ hget)
    have hUA := hI.2.2.1 _ hmem
    have hsa := ed_U hI.2.1 (‹ActiveEdge K›).srcEdge
    have hsb := ed_U hI.2.1 eb0.srcEdge
    have hra := remap_U hta hsa.1 hUA
    have hrb := remap_U htb hsb.1 hUB
  case vc2 =>
    have hc := ‹(_ == _) = true›
    refine pi_fin hI ?hQ ?hAE ⟨hB, hUB⟩ rfl rfl rfl rfl rfl
    case hQ => exact QU.modifyT0 hI.2.1 _ hra
    case hAE => exact ⟨fun _ => ⟨le_of_eq (beq_y hc).symm, hA.2⟩, hUA⟩
  all_goals
    refine pi_fin hI ?_ ?_ ?_ rfl rfl rfl rfl rfl
    · first
        | exact hI.2.1
        | exact QU.insertSorted hI.2.1 _ ⟨hra, hUA⟩ _
        | exact QU.insertSorted hI.2.1 _ ⟨hUA, hra⟩ _
        | exact QU.insertSibling (QU.insertSorted hI.2.1 _ ⟨hra, hUA⟩ _) _ _ ⟨hrb, hUB⟩
        | exact QU.insertSorted hI.2.1 _ ⟨hrb, hUB⟩ _
        | exact QU.insertSorted hI.2.1 _ ⟨hUB, hrb⟩ _
        | exact QU.insertSorted (QU.insertSorted hI.2.1 _ ⟨hra, hUA⟩ _) _ ⟨hrb, hUB⟩ _
        | exact QU.insertSorted (QU.insertSorted hI.2.1 _ ⟨hUA, hra⟩ _) _ ⟨hrb, hUB⟩ _
        | exact QU.insertSorted (QU.insertSorted hI.2.1 _ ⟨hra, hUA⟩ _) _ ⟨hUB, hrb⟩ _
        | exact QU.insertSorted (QU.insertSorted hI.2.1 _ ⟨hUA, hra⟩ _) _ ⟨hUB, hrb⟩ _
        | exact QU.vertexEvent (QU.insertSorted (QU.insertSorted hI.2.1 _ ⟨hUA, hra⟩ _) _ ⟨hUB, hrb⟩ _) _ hrb _ _ _
        | exact QU.vertexEvent (QU.insertSorted hI.2.1 _ ⟨hUB, hrb⟩ _) _ hrb _ _ _
    · first
        | exact ⟨fun _ => hA, hUA⟩
        | exact ⟨fun _ => ⟨hA.1, ip_y hB hA.2 (isAfter_neg_y ‹_›)⟩, hra⟩
    · first
        | exact ⟨hB, hUB⟩
        | exact ⟨ip_y hB hA.2 (isAfter_neg_y ‹_›), hrb⟩

open Lyon.SweepRep in
/-- **`handle_intersections` keeps `ActiveSpan` and the parameter range**: the filter of the loop bounds the
cut parameters (`WClosure`), the intersected edge is no merge vertex, and every new end is the snapped /
asserted intersection point, at or below the current vertex -/
theorem handleIntersectionsStep_inv {M : w.W → Prop} (hw : WClosure (α := K) U M) (skipS skipE : Nat) :
    ⦃fun s => ⌜Inv s⌝⦄ (handleIntersectionsStep skipS skipE : SM K Unit) ⦃keeps⦄ := by
  unfold handleIntersectionsStep
  have h1 := processIntersection_inv (K := K)
  mvcgen [h1] invariants
  · post⟨fun _ s => ⌜Inv s⌝, fun _ s => ⌜Inv s⌝⟩
  · post⟨fun r s => ⌜Inv s ∧ (s.curPos.y ≤ (‹PendingEdge K›).to.y ∧ U (‹PendingEdge K›).rangeEnd) ∧ M r.2.1 ∧
        s.active.toList = r.1.prefix ++ r.1.suffix ∧ r.2.2.2 = r.1.prefix.length ∧
        ∀ x, r.2.2.1 = some x → U (Wide.narrow x.1) ∧ U (Wide.narrow x.2.1) ∧
          ∀ e, s.active[x.2.2]? = some e → e.isMerge = false⌝, fun _ s => ⌜Inv s⌝⟩
  with skip
  case vc2 | vc3 | vc4 | vc6 | vc7 =>
    have h := ‹Inv _ ∧ _ ∧ _›
    obtain ⟨hI, hE, hM, hL, hi, hx⟩ := h
    refine ⟨hI, hE, hM, ?_, ?_, hx⟩
    · rw [hL]; simp
    · rw [List.length_append, List.length_singleton, ← hi]
  case vc5 =>
    have h := ‹Inv _ ∧ _ ∧ _›
    obtain ⟨hI, hE, hM, hL, hi, hx⟩ := h
    have hg := ‹_ < _ ∧ _ > zero ∧ _ > zero ∧ _ ≤ one›
    have hnm := ‹¬(_ || _) = true›
    have hM2 := hw.mLt _ _ hg.1 hM
    refine ⟨hI, hE, hM2, ?_, ?_, ?_⟩
    · rw [hL]; simp
    · rw [List.length_append, List.length_singleton, ← hi]
    · intro x hx'
      cases hx'
      refine ⟨hw.nar _ hg.2.2.1 (hw.mLe _ hg.2.2.2), hw.nar _ hg.2.1 hM2, ?_⟩
      intro e he
      rw [← Array.getElem?_toList, hL, hi] at he
      simp at he
      simp only [Bool.or_eq_true, not_or, Bool.not_eq_true] at hnm
      rw [← he]
      exact hnm.1
  case vc8 =>
    have hI := ‹Inv _›
    have hget := ‹_[_]? = some _›
    have hmem := Array.mem_of_getElem? hget
    refine ⟨hI, ⟨hI.1.2 _ hmem, hI.2.2.2.1 _ hmem⟩, hw.mOne, by simp, rfl, ?_⟩
    intro x hx
    exact nomatch (hx : (none : Option _) = some x)
  case vc9 =>
    have h := ‹Inv _ ∧ _ ∧ _›
    obtain ⟨hI, hE, hM, hL, hi, hx⟩ := h
    have hx' := hx _ ‹_ = some _›
    exact ⟨hI, hE, hx'.1, hx'.2.1, hx'.2.2⟩
  case vc10 =>
    rename_i s h t
    obtain ⟨⟨⟨ha, hb⟩, hq, hua, hub, ho⟩, h1, h2⟩ := h
    exact ⟨⟨ha, all_set hb _ _ h1⟩, hq, hua, all_set hub _ _ h2, ho⟩
  case vc12 => exact (‹Inv _ ∧ _ ∧ _›).1

/-- **`update_active_edges` keeps `ActiveSpan` and the parameter range**: the pending edges become active edges that
start at the current vertex -/
theorem updateActiveEdges_inv {M : w.W → Prop} (hw : SweepRep.WClosure (α := K) U M) (scan : Scan) :
    ⦃fun s => ⌜Inv s⌝⦄ (updateActiveEdges scan : SM K Unit) ⦃keeps⦄ := by
  unfold updateActiveEdges
  have h1 := handleIntersectionsStep_inv (K := K) hw
  mvcgen [h1]
  all_goals
    have hI := ‹Inv _›
  all_goals first
    | exact hI
    | (obtain ⟨⟨ha, hb⟩, hq, hua, hub, ho⟩ := hI
       refine ⟨⟨?_, fun b hb' => by simp at hb'⟩, hq, ?_, fun b hb' => by simp at hb', ho⟩
       · intro e he
         simp only [Array.mem_append, Array.mem_map] at he
         rcases he with (he | ⟨b, hbm, rfl⟩) | he
         · exact ha e (SweepIdx.mem_of_mem_extract he)
         · exact fun _ => ⟨le_refl _, hb b hbm⟩
         · exact ha e (SweepIdx.mem_of_mem_extract he)
       · intro e he
         simp only [Array.mem_append, Array.mem_map] at he
         rcases he with (he | ⟨b, hbm, rfl⟩) | he
         · exact hua e (SweepIdx.mem_of_mem_extract he)
         · exact hub b hbm
         · exact hua e (SweepIdx.mem_of_mem_extract he))

end field

end Lyon.SweepSpan
