/-
  The trigonometric (three real roots) branch of `utils::cubic_polynomial_roots`
  (`Roots.cardano3` of `Model/Geom/Intersect.lean`), over an ordered field with `sqrt`, `cos`,
  `acos`, `π` as parameters (`Transc K`).  Helper lemmas; the property's theorems are in
  `Props/C12d.lean`, the laws are discharged for Mathlib's real functions in `Props/C12Real.lean`.

  * `CosLaws`            five laws, all about `cos` only: `cos(x+y) + cos(x−y) = 2 cos x cos y`,
                         `cos 0 = 1`, `cos(2π/3) = −1/2`, `cos(x + 2π) = cos x`,
                         `cos(acos x) = x` on `[−1, 1]`
  * `CosLaws.cos_three_mul`   the triple-angle identity follows
  * `CosLaws.thirds_sum`, `thirds_pairs`  `Σ cos(x + 2kπ/3) = 0`, `Σ pairs = −3/4`
  * `trig_regime`        `δ₀³ + δ₁² < 0`: `δ₀ < 0`, `sqrt(−δ₀)³ = sqrt(−δ₀³) > 0`, `|δ₁/sqrt(−δ₀³)| < 1`
  * `trig_root`          `cos 3φ = δ₁/sqrt(−δ₀³)` ⟹ `2 sqrt(−δ₀) cos φ` solves `y³ + 3δ₀y − 2δ₁ = 0`
  * `cardano3_eq`        the three values the model returns, in field notation
-/
import LyonVerif.Props.C12
import LyonVerif.Lemmas.CubicRootsAlg

set_option linter.unusedSectionVars false
set_option linter.unusedVariables false

namespace Lyon.CubicRoots
open Lyon Scalar Lyon.Ix
variable {K : Type} [Field K] [LinearOrder K] [IsStrictOrderedRing K] [Transc K]

/-- the laws of `cos`, `acos`, `π` used by the three-real-roots branch (no `sin` needed) -/
structure CosLaws (K : Type) [Field K] [LinearOrder K] [IsStrictOrderedRing K] [Transc K] : Prop where
  cos_add_sub : ∀ x y : K, Transc.cos (x + y) + Transc.cos (x - y) = 2 * Transc.cos x * Transc.cos y
  cos_zero : Transc.cos (0 : K) = 1
  cos_two_pi_div_three : Transc.cos (2 * Transc.pi / 3 : K) = -1 / 2
  cos_periodic : ∀ x : K, Transc.cos (x + 2 * Transc.pi) = Transc.cos x
  cos_acos : ∀ x : K, -1 ≤ x → x ≤ 1 → Transc.cos (Transc.acos x) = x

namespace CosLaws
variable (L : CosLaws K)
include L

theorem cos_double (x : K) : Transc.cos (x + x) = 2 * Transc.cos x ^ 2 - 1 := by
  have h := L.cos_add_sub x x
  rw [sub_self, L.cos_zero] at h
  linear_combination h

/-- the triple-angle identity -/
theorem cos_three_mul (x : K) : Transc.cos (3 * x) = 4 * Transc.cos x ^ 3 - 3 * Transc.cos x := by
  have h := L.cos_add_sub (x + x) x
  rw [show x + x + x = 3 * x by ring, show x + x - x = x by ring, L.cos_double] at h
  linear_combination h

theorem cos_four_pi_div_three : Transc.cos (4 * Transc.pi / 3 : K) = -1 / 2 := by
  have h := L.cos_double (2 * Transc.pi / 3 : K)
  rw [show (2 * Transc.pi / 3 + 2 * Transc.pi / 3 : K) = 4 * Transc.pi / 3 by ring,
    L.cos_two_pi_div_three] at h
  rw [h]; norm_num

/-- `cos(x − 2π/3) = cos(x + 4π/3)` -/
theorem cos_sub_third (x : K) :
    Transc.cos (x - 2 * Transc.pi / 3) = Transc.cos (x + 4 * Transc.pi / 3) := by
  rw [← L.cos_periodic (x - 2 * Transc.pi / 3)]
  congr 1; ring

/-- the three cosines at angles `2π/3` apart sum to zero -/
theorem thirds_sum (x : K) :
    Transc.cos x + Transc.cos (x + 2 * Transc.pi / 3) + Transc.cos (x + 4 * Transc.pi / 3) = 0 := by
  have h := L.cos_add_sub x (2 * Transc.pi / 3)
  rw [L.cos_sub_third, L.cos_two_pi_div_three] at h
  linear_combination h

/-- … and their pairwise products sum to `−3/4` -/
theorem thirds_pairs (x : K) :
    Transc.cos x * Transc.cos (x + 2 * Transc.pi / 3) + Transc.cos x * Transc.cos (x + 4 * Transc.pi / 3)
      + Transc.cos (x + 2 * Transc.pi / 3) * Transc.cos (x + 4 * Transc.pi / 3) = -3 / 4 := by
  have hs := L.thirds_sum x
  have h := L.cos_add_sub (x + 2 * Transc.pi / 3) (x - 2 * Transc.pi / 3)
  rw [show x + 2 * Transc.pi / 3 + (x - 2 * Transc.pi / 3) = x + x by ring,
    show x + 2 * Transc.pi / 3 - (x - 2 * Transc.pi / 3) = 4 * Transc.pi / 3 by ring,
    L.cos_double, L.cos_four_pi_div_three, L.cos_sub_third] at h
  set c := Transc.cos x
  set u1 := Transc.cos (x + 2 * Transc.pi / 3)
  set u2 := Transc.cos (x + 4 * Transc.pi / 3)
  linear_combination (-1 / 2 : K) * h + c * hs

/-- the three cosines all solve `4u³ − 3u = cos 3x` -/
theorem thirds_triple (x : K) :
    4 * Transc.cos (x + 2 * Transc.pi / 3) ^ 3 - 3 * Transc.cos (x + 2 * Transc.pi / 3) = Transc.cos (3 * x)
    ∧ 4 * Transc.cos (x + 4 * Transc.pi / 3) ^ 3 - 3 * Transc.cos (x + 4 * Transc.pi / 3) = Transc.cos (3 * x) := by
  constructor
  · rw [← L.cos_three_mul, ← L.cos_periodic (3 * x)]; congr 1; ring
  · rw [← L.cos_three_mul, ← L.cos_periodic (3 * x), ← L.cos_periodic (3 * x + 2 * Transc.pi)]; congr 1; ring

/-- the three cosines at angles `2π/3` apart are pairwise distinct unless `cos 3x = ±1` -/
theorem thirds_distinct (x : K) (hw : Transc.cos (3 * x) ^ 2 ≠ 1) :
    Transc.cos x ≠ Transc.cos (x + 2 * Transc.pi / 3)
    ∧ Transc.cos x ≠ Transc.cos (x + 4 * Transc.pi / 3)
    ∧ Transc.cos (x + 2 * Transc.pi / 3) ≠ Transc.cos (x + 4 * Transc.pi / 3) := by
  have e1 := L.thirds_sum x
  have e2 := L.thirds_pairs x
  have t0 := (L.cos_three_mul x).symm
  obtain ⟨t1, t2⟩ := L.thirds_triple x
  refine ⟨sep_of_vieta _ _ _ _ e1 e2 t0 hw, ?_, ?_⟩
  · exact sep_of_vieta (Transc.cos x) (Transc.cos (x + 4 * Transc.pi / 3))
      (Transc.cos (x + 2 * Transc.pi / 3)) _ (by linear_combination e1) (by linear_combination e2) t0 hw
  · exact sep_of_vieta (Transc.cos (x + 2 * Transc.pi / 3)) (Transc.cos (x + 4 * Transc.pi / 3))
      (Transc.cos x) _ (by linear_combination e1) (by linear_combination e2) t1 hw

end CosLaws

/-! ### the regime `δ₀³ + δ₁² < 0` -/

/-- In the branch `δ₀³ + δ₁² < 0` (as the code tests it): `δ₀ < 0`, the radicand `−δ₀·δ₀·δ₀` of the
code is positive, `m = sqrt(−δ₀)` and `r = sqrt(−δ₀³)` satisfy `m² = −δ₀`, `m³ = r > 0`, and the
argument `δ₁/r` of `acos` is strictly inside `(−1, 1)`. -/
theorem trig_regime (hs0 : ∀ x : K, 0 ≤ x → 0 ≤ Transc.sqrt x)
    (hsq : ∀ x : K, 0 ≤ x → Transc.sqrt x * Transc.sqrt x = x)
    (d0 d1 : K) (hD : d0 * d0 * d0 + d1 * d1 < 0) :
    d0 < 0 ∧ Transc.sqrt (-d0) * Transc.sqrt (-d0) = -d0 ∧ 0 < Transc.sqrt (-d0)
      ∧ Transc.sqrt (-d0) ^ 3 = Transc.sqrt (-d0 * d0 * d0) ∧ 0 < Transc.sqrt (-d0 * d0 * d0)
      ∧ -1 < d1 / Transc.sqrt (-d0 * d0 * d0) ∧ d1 / Transc.sqrt (-d0 * d0 * d0) < 1 := by
  have hd1 : 0 ≤ d1 * d1 := mul_self_nonneg d1
  have hneg : d0 < 0 := by
    by_contra h
    rw [not_lt] at h
    have : 0 ≤ d0 * d0 * d0 := mul_nonneg (mul_nonneg h h) h
    linarith
  have hn : 0 < -d0 * d0 * d0 := by linarith
  have hm2 := hsq (-d0) (by linarith)
  have hm0 := hs0 (-d0) (by linarith)
  have hr2 := hsq _ hn.le
  have hr0 := hs0 _ hn.le
  set m := Transc.sqrt (-d0)
  set r := Transc.sqrt (-d0 * d0 * d0)
  have hmpos : 0 < m := by
    rcases hm0.lt_or_eq with h | h
    · exact h
    · rw [← h] at hm2; linarith
  have hrpos : 0 < r := by
    rcases hr0.lt_or_eq with h | h
    · exact h
    · rw [← h] at hr2; linarith
  have hmr : m ^ 3 = r := by
    have : (m ^ 3) ^ 2 = r ^ 2 := by
      rw [pow_two r, hr2]
      linear_combination (m ^ 4 + m ^ 2 * (-d0) + d0 * d0) * hm2
    exact (sq_eq_sq₀ (by positivity) hr0).mp this
  have habs : |d1| < r := by
    apply abs_lt_of_sq_lt_sq _ hr0
    rw [pow_two, pow_two, hr2]; linarith
  obtain ⟨hlo, hhi⟩ := abs_lt.mp habs
  refine ⟨hneg, hm2, hmpos, hmr, hrpos, ?_, ?_⟩
  · rw [lt_div_iff₀ hrpos]; linarith
  · rw [div_lt_one hrpos]; exact hhi

/-- non-vacuity: `y³ − 3y` (roots `0, ±√3`): `δ₀ = −1`, `δ₁ = 0` -/
example : (-1:ℚ) * (-1) * (-1) + 0 * 0 < 0 := by norm_num

/-- `cos 3φ = δ₁ / sqrt(−δ₀³)` makes `2·sqrt(−δ₀)·cos φ` a root of the depressed cubic -/
theorem trig_root (hs0 : ∀ x : K, 0 ≤ x → 0 ≤ Transc.sqrt x)
    (hsq : ∀ x : K, 0 ≤ x → Transc.sqrt x * Transc.sqrt x = x)
    (d0 d1 u : K) (hD : d0 * d0 * d0 + d1 * d1 < 0)
    (hu : 4 * u ^ 3 - 3 * u = d1 / Transc.sqrt (-d0 * d0 * d0)) :
    (2 * Transc.sqrt (-d0) * u) ^ 3 + 3 * d0 * (2 * Transc.sqrt (-d0) * u) - 2 * d1 = 0 := by
  obtain ⟨_, hm, _, hmr, hrpos, _, _⟩ := trig_regime hs0 hsq d0 d1 hD
  have hr : d1 / Transc.sqrt (-d0 * d0 * d0) * Transc.sqrt (-d0 * d0 * d0) = d1 :=
    div_mul_cancel₀ _ hrpos.ne'
  set m := Transc.sqrt (-d0)
  set r := Transc.sqrt (-d0 * d0 * d0)
  linear_combination (6 * m * u) * hm + (2 * m ^ 3) * hu + (2 * (d1 / r)) * hmr + 2 * hr

/-! ### the model's three values in field notation -/

theorem frac13_eq : (Roots.frac13 : K) = 1 / 3 := by
  simp only [Roots.frac13, geom, Nat.cast_ofNat, Nat.cast_one]

/-- the angle `acos(δ₁ / sqrt(−δ₀·δ₀·δ₀))` -/
theorem theta_eq (d0 d1 : K) : Roots.theta d0 d1 = Transc.acos (d1 / Transc.sqrt (-d0 * d0 * d0)) := rfl

/-- the list returned by the trigonometric branch: angles `θ/3`, `θ/3 + 2π/3`, `θ/3 + 4π/3`
(the model writes `(θ + 2π)·(1/3)`, `(θ + 4π)·(1/3)`: the same field elements) -/
theorem cardano3_eq (bn d0 d1 : K) :
    Roots.cardano3 bn d0 d1 =
      [2 * Transc.sqrt (-d0) * Transc.cos (Roots.theta d0 d1 / 3) - bn / 3,
       2 * Transc.sqrt (-d0) * Transc.cos (Roots.theta d0 d1 / 3 + 2 * Transc.pi / 3) - bn / 3,
       2 * Transc.sqrt (-d0) * Transc.cos (Roots.theta d0 d1 / 3 + 4 * Transc.pi / 3) - bn / 3] := by
  unfold Roots.cardano3 Roots.twoSqrt
  rw [frac13_eq]
  have h2 : (Scalar.two : K) = 2 := by simp only [geom, Nat.cast_ofNat]
  have h4 : (Scalar.four : K) = 4 := by simp only [geom, Nat.cast_ofNat]
  rw [h2, h4]
  have a0 : Roots.theta d0 d1 * (1 / 3) = Roots.theta d0 d1 / 3 := by ring
  have a1 : (Roots.theta d0 d1 + 2 * Transc.pi) * (1 / 3) = Roots.theta d0 d1 / 3 + 2 * Transc.pi / 3 := by ring
  have a2 : (Roots.theta d0 d1 + 4 * Transc.pi) * (1 / 3) = Roots.theta d0 d1 / 3 + 4 * Transc.pi / 3 := by ring
  have a3 : bn * (1 / 3) = bn / 3 := by ring
  rw [a0, a1, a2, a3]

end Lyon.CubicRoots
