/-
  Index validity, error recovery: `sort_active_edges` (with the `needs_swap` fix-up `swapBack`)
  and `recover_from_error` (re-sort, last-two swap, `begin_span` for missing spans — ids are the
  `fromId`s of active edges —, flush + pop of surplus spans) preserve `Inv1 n` (success and failure).
-/
import LyonVerif.Lemmas.SweepIdxActive

set_option linter.unusedSectionVars false
set_option linter.unusedVariables false
set_option linter.unusedSimpArgs false
set_option mvcgen.warning false

namespace Lyon.SweepIdx
open Lyon Lyon.Scalar Lyon.Mono Lyon.Sweep Lyon.EQ
open Std.Do

variable {α : Type} [Scalar α] [Wide α]

def EdgesLt (n : Nat) (a : Array (ActiveEdge α)) : Prop := ∀ e ∈ a, e.fromId < n

theorem swapBack_ok {n : Nat} (rule : Slab.Rule) : ∀ (f : Nat) (a : Array (ActiveEdge α)) (idx : Nat) (w : Int)
    (a' : Array (ActiveEdge α)), EdgesLt n a → swapBack rule f a idx w = .ok a' → EdgesLt n a'
  | 0, a, idx, w, a', h, e => by simp [swapBack] at e
  | f+1, a, idx, w, a', h, e => by
    simp only [swapBack] at e
    split at e
    · cases e
    · split at e
      · rename_i x y hx hy
        have h' : EdgesLt n ((a.setIfInBounds idx y).setIfInBounds (idx-1) x) :=
          active_set_ok (active_set_ok h _ _ (h y (mem_of_getElem? hy))) _ _ (h x (mem_of_getElem? hx))
        split at e
        · cases e; exact h'
        · exact swapBack_ok rule f _ _ _ a' h' e
      · cases e

theorem swapBack_ok' {n : Nat} {rule : Slab.Rule} {f : Nat} {a a' : Array (ActiveEdge α)} {idx : Nat} {w : Int}
    (he : swapBack rule f a idx w = .ok a') (h : EdgesLt n a) : EdgesLt n a' :=
  swapBack_ok rule f a idx w a' h he

theorem edgesLt_empty {n : Nat} : EdgesLt n (#[] : Array (ActiveEdge α)) := by
  intro e he; simp at he

theorem edgesLt_push {n : Nat} {b : Array (ActiveEdge α)} {e : ActiveEdge α} (hb : EdgesLt n b)
    (he : e.fromId < n) : EdgesLt n (b.push e) := by
  intro x hx
  rcases Array.mem_push.mp hx with h | h
  · exact hb x h
  · exact h ▸ he

/-- `sort_active_edges`: the new active list holds edges of the old one only (selected through the
sorted keys, then swapped in place by the merge-vertex fix-up), whatever the sort does — the
invariant never looks at the order.  (The verification conditions are closed by shape, not by
position, so that a change of the sort's guard does not disturb the proof.) -/
theorem sortActiveEdges_spec (n : Nat) :
    ⦃fun s => ⌜Inv1 n s⌝⦄ (sortActiveEdges : SM α Unit) ⦃keeps n⦄ := by
  unfold sortActiveEdges
  strip_mdata
  have h1 := mark_spec (α := α) n
  mvcgen [h1] invariants
  · post⟨fun _ s => ⌜Inv1 n s⌝, fun _ s => ⌜Inv1 n s⌝⟩
  · post⟨fun r s => ⌜Inv1 n s ∧ EdgesLt n r.2⌝, fun _ s => ⌜Inv1 n s⌝⟩
  · post⟨fun r s => ⌜Inv1 n s ∧ EdgesLt n r.2.1⌝, fun _ s => ⌜Inv1 n s⌝⟩
  with skip
  all_goals split_inv_ands
  all_goals first
    | assumption
    | (inv_from; assumption)
    | (refine ⟨by assumption, ?_⟩
       first
       | exact edgesLt_empty
       | (apply edgesLt_push
          · assumption
          · inv_id)
       | (apply swapBack_ok'
          case he => assumption
          case h => assumption))

/-- the last-two swap of `recover_from_error` (same expression as in the model) -/
def swapLast (a : Array (ActiveEdge α)) : Array (ActiveEdge α) :=
  match a[a.size-1]?, a[a.size-2]? with
  | some l, some p =>
    if a.size > 1 && l.isMerge then (a.setIfInBounds (a.size-1) p).setIfInBounds (a.size-2) l else a
  | _, _ => a

theorem swapLast_ok {n : Nat} {a : Array (ActiveEdge α)} (h : EdgesLt n a) : EdgesLt n (swapLast a) := by
  unfold swapLast
  split
  · rename_i l p hl hp
    split
    · exact active_set_ok (active_set_ok h _ _ (h p (mem_of_getElem? hp))) _ _ (h l (mem_of_getElem? hl))
    · exact h
  · exact h

theorem recover_begin_pre {n : Nat} {s0 s : St α} {act : Array (ActiveEdge α)} {pref suff : List (ActiveEdge α)}
    {cur : ActiveEdge α} (h0 : Inv1 n s0) (hact : act = swapLast s0.active)
    (hl : act.toList = pref ++ cur :: suff) (hs : Inv1 n s) : Inv1 n s ∧ cur.fromId < n := by
  refine ⟨hs, ?_⟩
  have h1 : EdgesLt n act := hact ▸ swapLast_ok h0.active'
  exact h1 cur (Array.mem_toList_iff.mp (by rw [hl]; simp))

theorem recover_store {n : Nat} {s0 s' : St α} {act : Array (ActiveEdge α)} (h0 : Inv1 n s0)
    (hact : act = swapLast s0.active) (h1 : s'.nverts = s0.nverts) (h2 : s'.out = s0.out)
    (h3 : s'.spans = s0.spans) (h4 : s'.curVertex = s0.curVertex) (h5 : s'.active = act) : Inv1 n s' :=
  h0.frame h1 h2 h3 h4 (by rw [h5, hact]; exact swapLast_ok h0.active')

/-- the same when the store goes through `modify` on a later state `s` (coverage marks in between) -/
theorem recover_store_frame {n : Nat} {s0 s s' : St α} {act : Array (ActiveEdge α)} (h0 : Inv1 n s0) (hs : Inv1 n s)
    (hact : act = swapLast s0.active) (h1 : s'.nverts = s.nverts) (h2 : s'.out = s.out)
    (h3 : s'.spans = s.spans) (h4 : s'.curVertex = s.curVertex) (h5 : s'.active = act) : Inv1 n s' :=
  hs.frame h1 h2 h3 h4 (by rw [h5, hact]; exact swapLast_ok h0.active')

theorem mem_of_mem_pop {γ : Type} {a : Array γ} {x : γ} (h : x ∈ a.pop) : x ∈ a := by
  rcases Array.mem_iff_getElem.mp h with ⟨k, hk, e⟩
  rw [Array.getElem_pop] at e
  exact e ▸ Array.getElem_mem _

theorem recover_pop {n : Nat} {s s' : St α} {t : Adv α} {k : Nat} (h : Inv1 n s) (ht : s.spans.getD k none = some t)
    (h1 : s'.nverts = s.nverts) (h2 : s'.out = s.out) (h3 : s'.spans = s.spans.pop)
    (h4 : s'.curVertex = s.curVertex) (h5 : s'.active = s.active) : Inv1 n s' ∧ TrisLt n t.tess.tris := by
  refine ⟨h.withSpans h1 h2 ?_ h4 h5, (h.1.spans t (mem_of_getD_eq_some ht)).tess.tris⟩
  intro t' ht'
  rw [h3] at ht'
  exact h.1.spans t' (mem_of_mem_pop ht')

theorem recoverFromError_spec (n : Nat) :
    ⦃fun s => ⌜Inv1 n s⌝⦄ (recoverFromError : SM α Unit) ⦃keeps n⦄ := by
  unfold recoverFromError
  strip_mdata
  have h1 := mark_spec (α := α) n
  have h2 := sortActiveEdges_spec (α := α) n
  have h3 := beginSpan_spec (α := α) n
  have h4 := emitTris_spec (α := α) n
  mvcgen [h1, h2, h3, h4] invariants
  · post⟨fun _ s => ⌜Inv1 n s⌝, fun _ s => ⌜Inv1 n s⌝⟩
  · post⟨fun _ s => ⌜Inv1 n s⌝, fun _ s => ⌜Inv1 n s⌝⟩
  · post⟨fun _ s => ⌜Inv1 n s⌝, fun _ s => ⌜Inv1 n s⌝⟩
  · post⟨fun _ s => ⌜Inv1 n s⌝, fun _ s => ⌜Inv1 n s⌝⟩
  with skip
  all_goals first
    | (apply recover_begin_pre
       case hl => assumption
       case hact => rfl
       case h0 => assumption
       case hs => assumption)
    | (apply recover_store
       case h5 => rfl
       case hact => rfl
       case h0 => assumption
       all_goals rfl)
    | (apply recover_store_frame
       case hs => assumption
       case h5 => rfl
       case hact => rfl
       case h0 => assumption
       all_goals rfl)
    | (apply recover_pop
       case ht => assumption
       case h => assumption
       all_goals rfl)
