/-
  C02 growth 4 (`Props/C02g.lean`), part 15: the fine remaining polygon through the operations of
  one `Adv.vertex` call: flush-and-forward in terms of `Rg3` (`ff_tiles`), buffering a vertex leaves
  the region unchanged (`rg_push`), `flushOpp` / `flushOwn` / `stepSides` as `Tiles0` steps
  (`stepSides_t`).
-/
import LyonVerif.Lemmas.MonotoneTileAdvSetFwdFan

set_option linter.unusedSectionVars false
set_option linter.unusedVariables false
set_option linter.unusedSimpArgs false

namespace Lyon.C02f
open Lyon Lyon.Mono Lyon.C02 Lyon.C02c

section Geometry
variable {K : Type} [Field K] [LinearOrder K] [IsStrictOrderedRing K]

theorem vertex_previous {α : Type} [Scalar α] (s : Basic α) (v : MV α) : (s.vertex v).previous = v := by
  unfold Basic.vertex
  split
  · rfl
  · cases s.stack <;> rfl

theorem Tiles0.perm {T : Type} {R R' : P K → Prop} {I : T → P K → Prop} {ts ts' : List T}
    (h : Tiles0 R I ts R') (p : ts.Perm ts') : Tiles0 R I ts' R' :=
  ⟨fun t ht => h.inside t (p.mem_iff.mpr ht), h.sub, fun t ht => h.apart t (p.mem_iff.mpr ht),
    (p.pairwise_iff (fun {x y} hxy q ⟨qa, qb⟩ => hxy q ⟨qb, qa⟩)).mp h.disj⟩

variable (seq : List (P K × Bool))

theorem RgC_congr (tess : Basic K) {sc sc' so so' : SideEv K} (k : Nat) (h1 : sc'.events = sc.events)
    (h2 : so'.events = so.events) : RgC seq tess sc' so' k = RgC seq tess sc so k := by
  unfold RgC; rw [h1, h2]

theorem Rg3_congr (l : Bool) (tess : Basic K) {a a' b b' : SideEv K} (k : Nat) (h1 : a'.events = a.events)
    (h2 : b'.events = b.events) : Rg3 seq l tess a' b' k = Rg3 seq l tess a b k := by
  unfold Rg3; rw [RgC_congr seq tess k h1 h2, RgC_congr seq tess k h2 h1]

/-- **flush and forward** in terms of `Rg3` -/
theorem ff_tiles (hval : SweepValid seq) (hnc : NoCollinear seq) (h2 : 2 ≤ seq.length) {l : Bool} {k : Nat}
    {tess : Basic K} {a b : SideEv K} (w : W3 seq l k tess a b) (hk : k + 1 ≤ seq.length) (hk1 : 1 ≤ k)
    (hl2 : 2 ≤ a.events.length) (hord : 2 ≤ b.events.length → a.last.id < b.last.id)
    (a' : SideEv K) (he : a'.events = [a.last.id]) :
    ∃ nt, ((tess.pushTris (flushLevels a.events.toArray a.events.length (!l) (a.events.length + 1) 1)).vertex a.last).tris =
        tess.tris ++ flushLevels a.events.toArray a.events.length (!l) (a.events.length + 1) 1 ++ nt ∧
      Tiles0 (Rg3 seq l tess a b k) (TriIn (posOf seq))
        (flushLevels a.events.toArray a.events.length (!l) (a.events.length + 1) 1 ++ nt)
        (Rg3 seq l ((tess.pushTris (flushLevels a.events.toArray a.events.length (!l) (a.events.length + 1) 1)).vertex a.last)
          a' b k) := by
  have hprev : ((tess.pushTris (flushLevels a.events.toArray a.events.length (!l) (a.events.length + 1) 1)).vertex
      a.last).previous.left = l := by rw [vertex_previous]; exact w.y.p3.sidea
  have eR : Rg3 seq l ((tess.pushTris (flushLevels a.events.toArray a.events.length (!l) (a.events.length + 1) 1)).vertex
      a.last) a' b k = RgC seq ((tess.pushTris (flushLevels a.events.toArray a.events.length (!l) (a.events.length + 1)
      1)).vertex a.last) a' b k := by
    unfold Rg3; rw [if_pos hprev]
  rw [eR]
  by_cases hcl : tess.previous.left = l
  · have eL : Rg3 seq l tess a b k = RgC seq tess a b k := by unfold Rg3; rw [if_pos hcl]
    rw [eL]
    exact ff_pop seq hval hnc h2 w hk hk1 hl2 hord hcl a' he
  · have eL : Rg3 seq l tess a b k = RgC seq tess b a k := by unfold Rg3; rw [if_neg hcl]
    rw [eL]
    exact ff_fan seq hval hnc h2 w hk hk1 hl2 hord hcl a' he

/-- buffering the vertex `k` on side `l` leaves the fine remaining polygon unchanged -/
theorem rg_push (l : Bool) (tess : Basic K) (a b : SideEv K) (p : P K) (k : Nat) (hk : k + 1 < seq.length)
    (hp : posOf seq k = p) (hs : sideAt seq k = l) (hne : a.events ≠ []) :
    Rg3 seq l tess (a.push ⟨p, k, l⟩) b (k + 1) = Rg3 seq l tess a b k := by
  have htail : (a.push ⟨p, k, l⟩).events.tail = a.events.tail ++ [k] := by
    simp only [SideEv.push]
    exact List.tail_append_of_ne_nil hne
  have f1 : fut seq l k = posOf seq k :: fut seq l (k + 1) := by
    simp only [fut]; rw [futIds_same seq l hk hs]; rfl
  have f2 : fut seq (!l) k = fut seq (!l) (k + 1) := by
    simp only [fut]; rw [futIds_other seq (!l) hk (by rw [hs]; cases l <;> simp)]
  unfold Rg3 RgC
  by_cases hcl : tess.previous.left = l
  · rw [if_pos hcl, if_pos hcl, hcl, htail, f1, f2]
    simp
  · have hopp : tess.previous.left = !l := bool_ne_not hcl
    rw [if_neg hcl, if_neg hcl, hopp, Bool.not_not, htail, f1, f2]
    simp

/-- `flushOpp` as a `Tiles0` step, with the invariants of the result -/
theorem flushOpp_t (hval : SweepValid seq) (hnc : NoCollinear seq) (h2 : 2 ≤ seq.length) (tess : Basic K)
    (a b : SideEv K) (l : Bool) (k : Nat) (hk : k + 1 ≤ seq.length) (hk1 : 1 ≤ k) (w : W3 seq l k tess a b)
    (haft : After a.last.pos b.last.pos) :
    W3 seq l k (flushOpp tess a b l).1 (flushOpp tess a b l).2.1 (flushOpp tess a b l).2.2 ∧
    (flushOpp tess a b l).2.1.events = a.events ∧ (flushOpp tess a b l).2.1.last = a.last ∧
    (flushOpp tess a b l).2.2.events.length < 2 ∧
    ∃ nt, (flushOpp tess a b l).1.tris = tess.tris ++ nt ∧
      Tiles0 (Rg3 seq l tess a b k) (TriIn (posOf seq)) nt
        (Rg3 seq l (flushOpp tess a b l).1 (flushOpp tess a b l).2.1 (flushOpp tess a b l).2.2 k) := by
  obtain ⟨y1, _, y3, y4, y5, y6⟩ := flushOpp_y seq hval tess a b l k (by omega) w.y w.hb haft
  refine ⟨⟨y1, w.ha.congr seq y3 y4, ChordClear.short seq (by omega), w.na.congr y3 ?_ y4, ?_⟩, y3, y4, y6, ?_⟩
  · unfold flushOpp; split <;> rfl
  · -- the other chain after the flush
    unfold flushOpp
    rcases flushSide_cases b l with ⟨hl, e⟩ | ⟨hl, e1, e2, e3, e4⟩
    · rw [e]; exact w.nb
    · rw [e4]
      exact CInv.single (by rw [e1, e2]) (e2 ▸ w.nb.good)
  · unfold flushOpp
    rcases flushSide_cases b l with ⟨hl, e⟩ | ⟨hl, e1, e2, e3, e4⟩
    · rw [e]; exact ⟨[], by simp, Tiles0.refl _ _⟩
    · rw [e4]
      have hlt : 2 ≤ a.events.length → b.last.id < a.last.id := by
        intro _
        have ha := w.y.ca.good
        have hb := w.y.cb.good
        unfold Good at ha hb
        rw [ha, hb] at haft
        exact id_lt_of_after seq hval (by have := w.y.ca.lt _ (w.y.ca.last_mem seq); omega)
          (by have := w.y.cb.lt _ (w.y.cb.last_mem seq); omega) haft
      obtain ⟨nt, e, t⟩ := ff_tiles seq hval hnc h2 (W3.symm seq w) hk hk1 hl hlt (flushSide b l).1 e1
      rw [Bool.not_not] at e t
      rw [Rg3_symm, Rg3_symm] at t
      refine ⟨(flushSide b l).2.1 ++ nt, ?_, ?_⟩
      · show ((tess.pushTris (flushSide b l).2.1).vertex b.last).tris = _
        rw [e3, e, List.append_assoc]
      · show Tiles0 _ _ _ (Rg3 seq l ((tess.pushTris (flushSide b l).2.1).vertex b.last)
          { a with consRefX := a.refPt.x } (flushSide b l).1 k)
        have eq : Rg3 seq l ((tess.pushTris (flushSide b l).2.1).vertex b.last)
            ({ a with consRefX := a.refPt.x } : SideEv K) (flushSide b l).1 k =
            Rg3 seq l ((tess.pushTris (flushSide b l).2.1).vertex b.last) a (flushSide b l).1 k :=
          Rg3_congr seq l _ k rfl rfl
        rw [eq, e3]
        exact t

/-- `flushOwn` as a `Tiles0` step -/
theorem flushOwn_t (hval : SweepValid seq) (hnc : NoCollinear seq) (h2 : 2 ≤ seq.length) (tess : Basic K)
    (a b : SideEv K) (p : P K) (l : Bool) (k : Nat) (hk : k + 1 ≤ seq.length) (hk1 : 1 ≤ k) (w : W3 seq l k tess a b)
    (hord : 2 ≤ b.events.length → a.last.id < b.last.id) :
    (flushOwn tess a b p l).2.1.events ≠ [] ∧
    ∃ nt, (flushOwn tess a b p l).1.tris = tess.tris ++ nt ∧
      Tiles0 (Rg3 seq l tess a b k) (TriIn (posOf seq)) nt
        (Rg3 seq l (flushOwn tess a b p l).1 (flushOwn tess a b p l).2.1 (flushOwn tess a b p l).2.2 k) := by
  unfold flushOwn
  rcases flushSide_cases a (!l) with ⟨hl, e⟩ | ⟨hl, e1, e2, e3, e4⟩
  · rw [e]; exact ⟨w.y.ca.ne, [], by simp, Tiles0.refl _ _⟩
  · rw [e4]
    have r1 : (reRef (flushSide a !l).1 p l).events = [a.last.id] := e1
    obtain ⟨nt, e, t⟩ := ff_tiles seq hval hnc h2 w hk hk1 hl hord (reRef (flushSide a !l).1 p l) r1
    refine ⟨by show (reRef (flushSide a !l).1 p l).events ≠ []; rw [r1]; simp, (flushSide a !l).2.1 ++ nt, ?_, ?_⟩
    · show ((tess.pushTris (flushSide a !l).2.1).vertex a.last).tris = _
      rw [e3, e, List.append_assoc]
    · show Tiles0 _ _ _ (Rg3 seq l ((tess.pushTris (flushSide a !l).2.1).vertex a.last)
        (reRef (flushSide a !l).1 p l) { b with consRefX := b.refPt.x } k)
      have eq : Rg3 seq l ((tess.pushTris (flushSide a !l).2.1).vertex a.last) (reRef (flushSide a !l).1 p l)
          ({ b with consRefX := b.refPt.x } : SideEv K) k =
          Rg3 seq l ((tess.pushTris (flushSide a !l).2.1).vertex a.last) (reRef (flushSide a !l).1 p l) b k :=
        Rg3_congr seq l _ k rfl rfl
      rw [eq, e3]
      exact t

/-- **one `vertex` call on the triple** as a `Tiles0` step on the fine remaining polygon -/
theorem stepSides_t (hval : SweepValid seq) (hnc : NoCollinear seq) (h2 : 2 ≤ seq.length) (tess : Basic K)
    (a b : SideEv K) (dx : K) (p : P K) (l : Bool) (k : Nat) (hk : k + 1 < seq.length) (hk1 : 1 ≤ k)
    (w : W3 seq l k tess a b) (hp : posOf seq k = p) (hs : sideAt seq k = l) :
    ∃ nt, (stepSides tess a b dx p k l).1.tris = tess.tris ++ nt ∧
      Tiles0 (Rg3 seq l tess a b k) (TriIn (posOf seq)) nt
        (Rg3 seq l (stepSides tess a b dx p k l).1 (stepSides tess a b dx p k l).2.1 (stepSides tess a b dx p k l).2.2
          (k + 1)) := by
  dsimp only [stepSides]
  by_cases hcond : (outwardTurn a p l (decide (dx < (p.y - a.refPt.y) * Scalar.ofSci 1 1)) ||
        decide (dx < (p.y - a.refPt.y) * Scalar.ofSci 1 1)) = true
  · rw [if_pos hcond]
    have han : a.last.id < seq.length := by have := w.y.ca.lt _ (w.y.ca.last_mem seq); omega
    have hbn : b.last.id < seq.length := by have := w.y.cb.lt _ (w.y.cb.last_mem seq); omega
    have h1 : W3 seq l k (if isAfter a.last.pos b.last.pos then flushOpp tess a b l else (tess, a, b)).1
          (if isAfter a.last.pos b.last.pos then flushOpp tess a b l else (tess, a, b)).2.1
          (if isAfter a.last.pos b.last.pos then flushOpp tess a b l else (tess, a, b)).2.2 ∧
        (2 ≤ (if isAfter a.last.pos b.last.pos then flushOpp tess a b l else (tess, a, b)).2.2.events.length →
          (if isAfter a.last.pos b.last.pos then flushOpp tess a b l else (tess, a, b)).2.1.last.id <
            (if isAfter a.last.pos b.last.pos then flushOpp tess a b l else (tess, a, b)).2.2.last.id) ∧
        ∃ nt, (if isAfter a.last.pos b.last.pos then flushOpp tess a b l else (tess, a, b)).1.tris = tess.tris ++ nt ∧
          Tiles0 (Rg3 seq l tess a b k) (TriIn (posOf seq)) nt
            (Rg3 seq l (if isAfter a.last.pos b.last.pos then flushOpp tess a b l else (tess, a, b)).1
              (if isAfter a.last.pos b.last.pos then flushOpp tess a b l else (tess, a, b)).2.1
              (if isAfter a.last.pos b.last.pos then flushOpp tess a b l else (tess, a, b)).2.2 k) := by
      split
      · rename_i hia
        obtain ⟨g1, _, _, g4, g5⟩ := flushOpp_t seq hval hnc h2 tess a b l k (by omega) hk1 w ((isAfter_iff _ _).mp hia)
        exact ⟨g1, fun g => by omega, g5⟩
      · rename_i hia
        refine ⟨w, ?_, [], by simp, Tiles0.refl _ _⟩
        intro h2'
        have h2'' : 2 ≤ b.events.length := h2'
        have hna : ¬ After a.last.pos b.last.pos := fun g => hia ((isAfter_iff _ _).mpr g)
        have ha := w.y.ca.good
        have hb := w.y.cb.good
        unfold Good at ha hb
        rw [ha, hb] at hna
        have := id_le_of_not_after seq hval han hbn hna
        have := w.y.ends_ne seq h2''
        show a.last.id < b.last.id
        omega
    generalize (if isAfter a.last.pos b.last.pos then flushOpp tess a b l else (tess, a, b)) = r1 at h1 ⊢
    obtain ⟨r1t, r1a, r1b⟩ := r1
    obtain ⟨w1, ho1, nt1, e1, t1⟩ := h1
    have w1' : W3 seq l k r1t r1a r1b := w1
    have ho1' : 2 ≤ r1b.events.length → r1a.last.id < r1b.last.id := ho1
    have e1' : r1t.tris = tess.tris ++ nt1 := e1
    have t1' : Tiles0 (Rg3 seq l tess a b k) (TriIn (posOf seq)) nt1 (Rg3 seq l r1t r1a r1b k) := t1
    obtain ⟨hne, nt2, e2, t2⟩ := flushOwn_t seq hval hnc h2 r1t r1a r1b p l k (by omega) hk1 w1' ho1'
    show ∃ nt, (flushOwn r1t r1a r1b p l).1.tris = tess.tris ++ nt ∧
      Tiles0 _ _ nt (Rg3 seq l (flushOwn r1t r1a r1b p l).1 ((flushOwn r1t r1a r1b p l).2.1.push ⟨p, k, l⟩)
        (flushOwn r1t r1a r1b p l).2.2 (k + 1))
    rw [rg_push seq l _ _ _ p k hk hp hs hne]
    exact ⟨nt1 ++ nt2, by rw [e2, e1', List.append_assoc], t1'.trans t2⟩
  · rw [if_neg hcond]
    show ∃ nt, tess.tris = tess.tris ++ nt ∧ Tiles0 _ _ nt (Rg3 seq l tess (a.push ⟨p, k, l⟩) b (k + 1))
    rw [rg_push seq l _ _ _ p k hk hp hs w.y.ca.ne]
    exact ⟨[], by simp, Tiles0.refl _ _⟩

end Geometry

end Lyon.C02f
