/-
  Triangle count of the complete stroker model on an open fixed-width polyline without merged points
  and without folding joins, non-round joins and caps:
  `2·(n - 1) + Σ_joins (joinVertsFw - 2)` — two triangles per edge, one per join whose miter is not kept.
-/
import LyonVerif.Lemmas.StrokeIdxCount

set_option linter.unusedSectionVars false
set_option linter.unusedVariables false
set_option linter.unusedTactic false
set_option linter.unreachableTactic false
set_option linter.unnecessarySeqFocus false

namespace Lyon.C05c
open Lyon Scalar Lyon.Stroke Lyon.Stroke.Full Lyon.C05 Lyon.C05b

/-! ## ids of a join that did not fold -/

/-- a join that did not fold: fold flags `false`, four valid ids, the two sides use different vertices -/
def Sides2 (n : Nat) (i : JoinIds) : Prop :=
  i.foldPos = false ∧ i.foldNeg = false ∧ Good n i ∧ i.negNext ≠ i.posNext ∧ i.posPrev ≠ i.negPrev

theorem Sides2.mono {n m : Nat} {i : JoinIds} (h : Sides2 n i) (hnm : n ≤ m) : Sides2 m i :=
  ⟨h.1, h.2.1, h.2.2.1.mono hnm, h.2.2.2.1, h.2.2.2.2⟩

/-- `add_edge_triangles` between two joins without folds whose relevant ids are pairwise distinct: 2 triangles -/
theorem edgeTris_len2 (p0 p1 : JoinIds) (hf0 : p0.foldPos = false) (hg0 : p0.foldNeg = false)
    (hf1 : p1.foldPos = false) (hg1 : p1.foldNeg = false)
    (h1 : p0.negNext ≠ p1.posPrev) (h2 : p0.negNext ≠ p0.posNext) (h3 : p0.posNext ≠ p1.posPrev)
    (h4 : p0.negNext ≠ p1.negPrev) (h5 : p1.posPrev ≠ p1.negPrev) :
    (addEdgeTriangles p0 p1).length = 2 := by
  simp [addEdgeTriangles, edgeP0Neg, edgeP0Pos, edgeP1Neg, edgeP1Pos, edgeTri1, edgeTri2, hf0, hg0, hf1, hg1,
    h1, h2, h3, h4, h5]

section
variable {α : Type} [Scalar α] [Transc α]

theorem edgeAndJoin_tris (tol : α) (count : Nat) (prev j : EP α) (d : VData α) (o : Out α)
    (hr : (j.lineJoin == Lyon.StrokeQuad.Join.round) = false) :
    (edgeAndJoin tol count prev j d o).tris
      = o.tris ++ (if count > 2 then addEdgeTriangles prev.ids j.ids else [])
          ++ joinInterior j.ids (needsJoinPos j.toJoin) (needsJoinNeg j.toJoin)
    ∧ (edgeAndJoin tol count prev j d o).nextId = o.nextId := by
  unfold edgeAndJoin tessellateJoin roundJoinIf
  have : j.toJoin.round = false := hr
  simp only [this, Bool.and_false, Bool.false_eq_true, if_false, toJoin_ids]
  split_ifs <;> simp [Out.addTris]

/-- the ids `add_join_base_vertices` hands out (negative side first), by the single-vertex flags -/
theorem baseVertices_ids (j : EP α) (d : VData α) (o : Out α) (hfp : j.foldPos = false) (hfn : j.foldNeg = false) :
    Sides2 (baseVertices j d o).2.nextId (baseVertices j d o).1.ids
    ∧ o.nextId ≤ (baseVertices j d o).1.pos.prevVertex ∧ o.nextId ≤ (baseVertices j d o).1.neg.prevVertex
    ∧ (baseVertices j d o).2.tris = o.tris
    ∧ (baseVertices j d o).2.nextId = o.nextId
        + (if j.neg.single.isSome then 1 else 2) + (if j.pos.single.isSome then 1 else 2)
    ∧ (joinInterior (baseVertices j d o).1.ids (needsJoinPos (baseVertices j d o).1.toJoin)
        (needsJoinNeg (baseVertices j d o).1.toJoin)).length + 2
        = (if j.neg.single.isSome then 1 else 2) + (if j.pos.single.isSome then 1 else 2) := by
  rcases j with ⟨p, hw, adv, lj, src, ⟨pp, pn, ps, pi, pj⟩, ⟨np, nn, ns, ni, nj⟩, fp, fn, fl⟩
  simp only at hfp hfn
  subst hfp hfn
  cases ps <;> cases ns <;>
    (simp [baseVertices, EP.withSides, EP.toJoin, EP.ids, addJoinBaseVertices, baseVerticesSide, Out.addVertex,
      joinInterior, needsJoinPos, needsJoinNeg, Sides2, Good] <;> omega)

theorem joinSidesFw_nofold (ix : Lyon.StrokeQuad.Ix α) (prev join next : EP α) (ml vhw : α)
    (h : (fwGeo prev join next ml vhw).fold = false) :
    (joinSidesFw ix prev join next ml vhw).foldPos = join.foldPos
    ∧ (joinSidesFw ix prev join next ml vhw).foldNeg = join.foldNeg := by
  unfold joinSidesFw
  simp only [h, Bool.false_eq_true, if_false]
  split_ifs <;> exact ⟨rfl, rfl⟩

/-- the join between `p, j, n` does not fold -/
def noFoldAt (e : Env α) (p j n : P α) : Prop :=
  (fwGeo (EP.mk' p e.hwFw nan e.o.join (.endpoint 0) false) (EP.mk' j e.hwFw nan e.o.join (.endpoint 0) false)
    (EP.mk' n e.hwFw nan e.o.join (.endpoint 0) false) e.o.miterLimit e.hwFw).fold = false

def NoFoldFw (e : Env α) : List (P α) → Prop
  | a :: b :: c :: rest => noFoldAt e a b c ∧ NoFoldFw e (b :: c :: rest)
  | _ => True

/-- a fixed-width join of a fresh endpoint that does not fold: the triangles it emits -/
theorem fwJoin_tris {e : Env α} (hj : e.o.join ≠ .round) (st : St α) (prev join next : EP α) (hf : Fresh e join)
    (hfp : join.foldPos = false) (hfn : join.foldNeg = false)
    (hnf : noFoldAt e prev.position join.position next.position)
    (hprev : st.buf.count > 2 → Sides2 st.out.nextId prev.ids) :
    ∃ j2 o', fwJoin e st prev join next = (commitSt st prev j2 o', next)
      ∧ j2.position = join.position
      ∧ o'.verts.length = st.out.verts.length + joinVertsFw e prev.position join.position next.position
      ∧ o'.tris.length + 2 = st.out.tris.length + (if st.buf.count > 2 then 2 else 0)
          + joinVertsFw e prev.position join.position next.position
      ∧ Sides2 o'.nextId j2.ids ∧ st.out.nextId ≤ o'.nextId := by
  have hr : (join.lineJoin == Lyon.StrokeQuad.Join.round) = false := by
    rw [hf.lj]; cases h : e.o.join <;> simp_all
  have hgeo : fwGeo prev join next e.o.miterLimit join.halfWidth
      = fwGeo (EP.mk' prev.position e.hwFw nan e.o.join (.endpoint 0) false)
          (EP.mk' join.position e.hwFw nan e.o.join (.endpoint 0) false)
          (EP.mk' next.position e.hwFw nan e.o.join (.endpoint 0) false) e.o.miterLimit e.hwFw := by
    rw [hf.hw]; exact fwGeo_congr _ _ rfl rfl hf.lj rfl
  have hfold : (fwGeo prev join next e.o.miterLimit join.halfWidth).fold = false := by rw [hgeo]; exact hnf
  obtain ⟨s1, s2, s3⟩ := joinSidesFw_singles e.ix prev join next e.o.miterLimit join.halfWidth hf.ps hf.ns
  obtain ⟨f1, f2⟩ := joinSidesFw_nofold e.ix prev join next e.o.miterLimit join.halfWidth hfold
  generalize hj1 : joinSidesFw e.ix prev join next e.o.miterLimit join.halfWidth = j1 at s1 s2 s3 f1 f2
  have hdd : ∃ dd : VData α, dd = { baseVertex join.src join.position join.halfWidth nan with
      advancement := j1.advancement } := ⟨_, rfl⟩
  obtain ⟨dd, edd⟩ := hdd
  obtain ⟨b1, b2, b3⟩ := baseVertices_verts j1 dd st.out
  obtain ⟨i1, i2, i3, i4, i5, i6⟩ := baseVertices_ids j1 dd st.out (f1.trans hfp) (f2.trans hfn)
  have hr2 : ((baseVertices j1 dd st.out).1.lineJoin == Lyon.StrokeQuad.Join.round) = false := by
    rw [b3, s3]; exact hr
  obtain ⟨t1, t2⟩ := edgeAndJoin_tris e.o.tolerance st.buf.count prev (baseVertices j1 dd st.out).1 dd
    (baseVertices j1 dd st.out).2 hr2
  have hcost : (if j1.neg.single.isSome then 1 else 2) + (if j1.pos.single.isSome then 1 else 2)
      = joinVertsFw e prev.position join.position next.position := by
    rw [s1, hgeo]; rfl
  refine ⟨(baseVertices j1 dd st.out).1,
    edgeAndJoin e.o.tolerance st.buf.count prev (baseVertices j1 dd st.out).1 dd (baseVertices j1 dd st.out).2,
    ?_, by rw [b2, s2], ?_, ?_, by rw [t2]; exact i1, by rw [t2, i5]; omega⟩
  · unfold fwJoin; simp only []; rw [if_neg (by rw [fastPath_fresh hf]; simp)]
    show _ = _
    simp only [show (baseVertex join.src join.position join.halfWidth nan : VData α).halfWidth = join.halfWidth from rfl, hj1]
    rw [edd]; rfl
  · rw [edgeAndJoin_verts _ _ _ _ _ _ hr2, b1, Nat.add_assoc, hcost]
  · rw [t1, i4]
    simp only [List.length_append]
    have hedge : (if st.buf.count > 2 then addEdgeTriangles prev.ids (baseVertices j1 dd st.out).1.ids else []).length
        = (if st.buf.count > 2 then 2 else 0) := by
      split_ifs with h3
      · obtain ⟨p1, p2, pg, p4, p5⟩ := hprev h3
        obtain ⟨q1, q2, qg, q4, q5⟩ := i1
        obtain ⟨g1, g2, g3, g4⟩ := pg
        have hi2 : st.out.nextId ≤ (baseVertices j1 dd st.out).1.ids.posPrev := i2
        have hi3 : st.out.nextId ≤ (baseVertices j1 dd st.out).1.ids.negPrev := i3
        exact edgeTris_len2 _ _ p1 p2 q1 q2 (by omega) p4 (by omega) (by omega) q5
      · rfl
    rw [hedge, ← hcost]
    omega

/-! ## the `line_to` loop -/

/-- what the counting induction carries: the newest point is fresh, the one before it has been a
join without fold (window full) or is the untouched first point; `V = T + 2` once the first join
has been emitted -/
structure TInv (e : Env α) (st : St α) (a b : EP α) : Prop where
  wf : WF st.buf
  two : st.buf.lastTwo = some (a, b)
  fresh : Fresh e b
  bfp : b.foldPos = false
  bfn : b.foldNeg = false
  first : st.buf.count = 2 → a.foldPos = false ∧ a.foldNeg = false
  full : st.buf.count > 2 → Sides2 st.out.nextId a.ids
    ∧ ∃ f0 f1, st.firsts = [f0, f1] ∧ f0.foldPos = false ∧ f0.foldNeg = false ∧ Sides2 st.out.nextId f1.ids
  euler : st.out.verts.length = st.out.tris.length + (if st.buf.count == 2 then 0 else 2)

theorem fwStep_join_tris {e : Env α} (hj : e.o.join ≠ .round) {st : St α} {a b : EP α} (hI : TInv e st a b)
    (next : EP α) (hn : Fresh e next) (hnp : next.foldPos = false) (hnn : next.foldNeg = false)
    (hfar : pointsAreTooClose e.thr b.position next.position = false)
    (hnf : noFoldAt e a.position b.position next.position) :
    ∃ b', TInv e (fwStep e st next).1 b' next ∧ b'.position = b.position
      ∧ (fwStep e st next).1.out.verts.length
          = st.out.verts.length + joinVertsFw e a.position b.position next.position := by
  have hlast := hI.wf.lastTwo_last _ _ hI.two
  have hclose : st.tooClose e.thr next.position = false := by rw [tooClose_eq hlast]; exact hfar
  obtain ⟨j2, o', ej, hp, hv, ht, hs2, hle⟩ := fwJoin_tris hj st a b next hI.fresh hI.bfp hI.bfn hnf
    (fun h => (hI.full h).1)
  rw [fwStep_eq_join hclose hI.two, ej]
  have hc2 := WF.lastTwo_count _ _ hI.two
  have hle3 := hI.wf.count_le
  obtain ⟨b1, hb1, hwf1, hc1, hl1, _⟩ := hI.wf.replaceLast (by omega) j2
  obtain ⟨b2, hb2, hwf2, hcnt2, _, hlt2⟩ := hwf1.push next
  have e2 : (commitSt st a j2 o').push next
      = { st with buf := b2, out := o', firsts := if st.buf.count == 2 then [a, j2] else st.firsts } := by
    simp [commitSt, St.push, St.setLast, hb1, hb2]
  simp only [e2]
  have hc3 : b2.count = 3 := by rw [hcnt2, hc1]; omega
  refine ⟨j2, ⟨hwf2, hlt2 _ hl1, hn, hnp, hnn, fun h => by simp only at h; omega, fun _ => ⟨hs2, ?_⟩, ?_⟩, hp, hv⟩
  · by_cases h2 : st.buf.count = 2
    · obtain ⟨r1, r2⟩ := hI.first h2
      simp only [h2, beq_self_eq_true, if_true]
      exact ⟨a, j2, rfl, r1, r2, hs2⟩
    · have hne : (st.buf.count == 2) = false := by simpa using h2
      obtain ⟨_, f0, f1, ef, g1, g2, g3⟩ := hI.full (by omega)
      simp only [hne, Bool.false_eq_true, if_false]
      exact ⟨f0, f1, ef, g1, g2, g3.mono hle⟩
  · have he := hI.euler
    simp only [hc3]
    by_cases h2 : st.buf.count = 2
    · simp only [h2, beq_self_eq_true, if_true, Nat.lt_irrefl, if_false] at he ht
      simp; omega
    · have hne : (st.buf.count == 2) = false := by simpa using h2
      have h3 : st.buf.count > 2 := by omega
      simp only [hne, Bool.false_eq_true, if_false, h3, if_true] at he ht
      simp; omega

theorem linePt_folds (e : Env α) (q : Nat × P α) : (linePt e q).foldPos = false ∧ (linePt e q).foldNeg = false :=
  ⟨rfl, rfl⟩

theorem feedFw_tris {e : Env α} (hj : e.o.join ≠ .round) (rest : List (Nat × P α)) :
    ∀ (st : St α) (a b : EP α), TInv e st a b →
      NoMerge e.thr (b.position :: rest.map (·.2)) → NoFoldFw e (a.position :: b.position :: rest.map (·.2)) →
      ∃ a' b', TInv e (rest.foldl (fun s q => (fwStep e s (linePt e q)).1) st) a' b'
        ∧ (rest.foldl (fun s q => (fwStep e s (linePt e q)).1) st).out.verts.length
            = st.out.verts.length + joinCostFw e (a.position :: b.position :: rest.map (·.2)) := by
  induction rest with
  | nil => intro st a b hI _ _; exact ⟨a, b, hI, rfl⟩
  | cons q rest ih =>
    intro st a b hI hm hnf
    obtain ⟨hfar, hm'⟩ := hm
    obtain ⟨hnf1, hnf'⟩ := hnf
    obtain ⟨b', h1, h3, h4⟩ := fwStep_join_tris hj hI (linePt e q) (fresh_mk' e _ _ _) rfl rfl hfar hnf1
    obtain ⟨a'', b'', g1, g3⟩ := ih _ b' (linePt e q) h1 hm' (by rw [h3]; exact hnf')
    refine ⟨a'', b'', g1, ?_⟩
    rw [List.foldl_cons, g3, h4, h3]
    simp only [List.map_cons, joinCostFw, linePt, EP.mk']
    omega

/-! ## the caps -/

theorem lastEdge_tris (e : Env α) (hc : e.o.endCap ≠ .round) (p0 p1 : EP α) (isFirst : Bool) (o : Out α) :
    (lastEdge e p0 p1 isFirst o).2.tris
      = o.tris ++ (if isFirst then [] else addEdgeTriangles p0.ids { p1.ids with posPrev := o.nextId, negPrev := o.nextId + 1 })
    ∧ (lastEdge e p0 p1 isFirst o).2.nextId = o.nextId + 2
    ∧ (lastEdge e p0 p1 isFirst o).1.ids = { p1.ids with posPrev := o.nextId, negPrev := o.nextId + 1 } := by
  have hr : (e.o.endCap == Lyon.StrokeQuad.Cap.round) = false := by
    cases h : e.o.endCap <;> simp_all
  unfold lastEdge
  simp only [hr, Bool.false_eq_true, if_false]
  cases isFirst <;> simp [Out.addVertex, Out.addTris, EP.ids]

theorem firstEdge_tris (e : Env α) (hc : e.o.startCap ≠ .round) (f s : EP α) (o : Out α) :
    (firstEdge e f s o).tris
      = o.tris ++ addEdgeTriangles { f.ids with posNext := o.nextId, negNext := o.nextId + 1 } s.ids := by
  have hr : (e.o.startCap == Lyon.StrokeQuad.Cap.round) = false := by
    cases h : e.o.startCap <;> simp_all
  unfold firstEdge
  simp only [hr, Bool.false_eq_true, if_false]
  simp [Out.addVertex, Out.addTris, EP.ids]

/-- `end_with_caps` after the loop: `V = T + 2` for the finished sub-path -/
theorem endWithCaps_euler (e : Env α) (hs : e.o.startCap ≠ .round) (he : e.o.endCap ≠ .round) {st : St α}
    {a b : EP α} (hI : TInv e st a b) :
    (endWithCaps e st).out.verts.length = (endWithCaps e st).out.tris.length + 2 := by
  have hc2 := WF.lastTwo_count _ _ hI.two
  have hle3 := hI.wf.count_le
  have hcap : (st.mayNeedEmptyCap && st.buf.count == 1) = false := by
    have : (st.buf.count == 1) = false := by simp; omega
    simp [this]
  have hv := endWithCaps_verts e hs he hI.two
  rw [hv]
  rw [endWithCaps_eq_some hcap hI.two]
  show _ = (firstEdge e _ _ _).tris.length + 2
  rw [firstEdge_tris e hs]
  have hb : ∃ p1a, p1a = (if e.o.varWidth then b else lastSidesFw a b) ∧ p1a.ids = b.ids := by
    refine ⟨_, rfl, ?_⟩
    split_ifs <;> rfl
  obtain ⟨p1a, ea, ida⟩ := hb
  have ecaps : capsOut e st a b = lastEdge e a p1a (st.buf.count == 2) st.out := by rw [ea]; rfl
  rw [ecaps]
  obtain ⟨l1, l2, l3⟩ := lastEdge_tris e he a p1a (st.buf.count == 2) st.out
  have heu := hI.euler
  generalize lastEdge e a p1a (st.buf.count == 2) st.out = r at l1 l2 l3 ⊢
  obtain ⟨p1b, o1⟩ := r
  simp only at l1 l2 l3 ⊢
  have hbp : p1b.ids.foldPos = false := by rw [l3, ida]; exact hI.bfp
  have hbn : p1b.ids.foldNeg = false := by rw [l3, ida]; exact hI.bfn
  have hpp : p1b.ids.posPrev = st.out.nextId := by rw [l3]
  have hpn : p1b.ids.negPrev = st.out.nextId + 1 := by rw [l3]
  by_cases h2 : st.buf.count = 2
  · obtain ⟨r1, r2⟩ := hI.first h2
    have hn3 : ¬ st.buf.count > 2 := by omega
    simp only [h2, beq_self_eq_true, if_true, List.append_nil] at heu l1
    simp only [if_neg hn3]
    rw [List.length_append, l1, l2]
    rw [edgeTris_len2 _ _ r1 r2 hbp hbn (by rw [hpp]; simp <;> omega) (by simp) (by rw [hpp]; simp <;> omega)
      (by rw [hpn]; simp <;> omega) (by rw [hpp, hpn]; simp)]
    omega
  · have h3 : st.buf.count > 2 := by omega
    have hne : (st.buf.count == 2) = false := by simpa using h2
    obtain ⟨sa, f0, f1, ef, g1, g2, sf⟩ := hI.full h3
    simp only [hne, Bool.false_eq_true, if_false] at heu l1
    simp only [if_pos h3, ef, List.headD_cons, List.drop_succ_cons, List.drop_zero]
    rw [List.length_append, l1, List.length_append, l2]
    obtain ⟨a1, a2, ag, a4, a5⟩ := sa
    obtain ⟨ag1, ag2, ag3, ag4⟩ := ag
    obtain ⟨s1, s2, sg, s4, s5⟩ := sf
    obtain ⟨sg1, sg2, sg3, sg4⟩ := sg
    have hbp' : ({ p1a.ids with posPrev := st.out.nextId, negPrev := st.out.nextId + 1 } : JoinIds).foldPos = false := by
      rw [ida]; exact hI.bfp
    have hbn' : ({ p1a.ids with posPrev := st.out.nextId, negPrev := st.out.nextId + 1 } : JoinIds).foldNeg = false := by
      rw [ida]; exact hI.bfn
    rw [edgeTris_len2 _ _ a1 a2 hbp' hbn' (by simp; omega) a4 (by simp; omega) (by simp; omega) (by simp)]
    rw [edgeTris_len2 _ _ g1 g2 s1 s2 (by simp; omega) (by simp) (by simp; omega) (by simp; omega) s5]
    omega

end

section Loop
variable {α : Type} [Scalar α] [Transc α] [Asin α] [FlatConst α]

/-- **`V = T + 2`.**  Fixed line width, an open sub-path of `n ≥ 2` unmerged points none of whose
joins folds, join kind Miter / MiterClip / Bevel, butt or square caps: the stroke is a triangle
strip — two triangles per edge, one more per join whose miter is not kept — so the number of
triangles is the number of vertices minus two. -/
theorem polyline_euler (e : Env α) (store : Nat → List α) (hfw : e.o.varWidth = false)
    (hj : e.o.join ≠ .round) (hs : e.o.startCap ≠ .round) (he : e.o.endCap ≠ .round)
    (i0 i1 : Nat) (p0 p1 : P α) (rest : List (Nat × P α))
    (hm : NoMerge e.thr (p0 :: p1 :: rest.map (·.2))) (hnf : NoFoldFw e (p0 :: p1 :: rest.map (·.2))) :
    (runEvents e store (IdEv.begin i0 p0 :: IdEv.line i1 p1 :: (lineEvs rest ++ [IdEv.end_ false]))).st.out.verts.length
      = (runEvents e store (IdEv.begin i0 p0 :: IdEv.line i1 p1 :: (lineEvs rest ++ [IdEv.end_ false]))).st.out.tris.length + 2 := by
  obtain ⟨hfar, hm'⟩ := hm
  obtain ⟨st2, a, b, hwf2, hab, hfresh, hb1, hb2, ha1, ha2, ha, hb, hc2, hout, hrun⟩ :=
    run_open_subpath e store hfw i0 i1 p0 p1 rest hfar
  rw [hrun]
  have hI2 : TInv e st2 a b :=
    ⟨hwf2, hab, hfresh, hb1, hb2, fun _ => ⟨ha1, ha2⟩, fun h => by omega, by rw [hout, hc2]; rfl⟩
  obtain ⟨a', b', g1, _⟩ := feedFw_tris hj rest st2 a b hI2 (by rw [hb]; exact hm') (by rw [ha, hb]; exact hnf)
  have hI : TInv e { (rest.foldl (fun s q => (fwStep e s (linePt e q)).1) st2) with
      mayNeedEmptyCap := (rest.foldl (fun s q => (fwStep e s (linePt e q)).1) st2).mayNeedEmptyCap
        || (false && (rest.foldl (fun s q => (fwStep e s (linePt e q)).1) st2).buf.count == 1) } a' b' :=
    ⟨g1.wf, g1.two, g1.fresh, g1.bfp, g1.bfn, g1.first, g1.full, g1.euler⟩
  exact endWithCaps_euler e hs he hI

end Loop

end Lyon.C05c
