/-
  C08 on the sweep model, part 3: the remaining steps of one event (`update_active_edges` with the
  intersection handling, error recovery, `initialize_events`, `process_events`).
-/
import LyonVerif.Lemmas.ResetSweepOps

set_option linter.unusedSectionVars false
set_option linter.unusedVariables false
set_option linter.unusedSimpArgs false

namespace Lyon.C08
open Lyon Lyon.Mono Lyon.Sweep Lyon.EQ

variable {α : Type} [Scalar α] [Wide α]

/-! ### step 4 -/

theorem processIntersection_sim (ta tb : Wide.W α) (aei : Nat) (eb0 : PendingEdge α) (bs : Seg (Wide.W α)) :
    Sim (processIntersection ta tb aei eb0 bs) := by
  unfold processIntersection
  sim_auto
macro_rules | `(tactic| sim_call) => `(tactic| with_reducible exact processIntersection_sim _ _ _ _ _)

theorem handleIntersectionsStep_sim (a b : Nat) : Sim (handleIntersectionsStep (α := α) a b) := by
  unfold handleIntersectionsStep
  sim_auto
macro_rules | `(tactic| sim_call) => `(tactic| with_reducible exact handleIntersectionsStep_sim _ _)

theorem updateActiveEdges_sim (scan : Scan) : Sim (updateActiveEdges (α := α) scan) := by
  unfold updateActiveEdges
  sim_auto
macro_rules | `(tactic| sim_call) => `(tactic| with_reducible exact updateActiveEdges_sim _)

/-! ### error recovery -/

theorem sortActiveEdges_sim : Sim (sortActiveEdges (α := α)) := by
  unfold sortActiveEdges
  sim_auto
macro_rules | `(tactic| sim_call) => `(tactic| with_reducible exact sortActiveEdges_sim)

/-- the `while self.fill.spans.len() > (winding.span_index + 1) as usize { flush the last span; pop }`
loop of `recover_from_error` (as a named program: the text of the loop in `Sweep.recoverFromError`) -/
def popSpans (n : Nat) : SM α Unit := do
  for _ in [0:n] do
    let s' ← get
    let last := s'.spans.size - 1
    match s'.spans.getD last none with
    | none => throw (.panic "dead span")
    | some t =>
      set { s' with spans := s'.spans.pop, cov := s'.cov ||| (1 <<< 21) }
      emitTris t.tess.tris

/-- a span popped by the recovery is flushed as it is (`tess.flush` without `end`): its inner
tessellator's triangles are the same on both sides -/
theorem popSpans_sim (n : Nat) : Sim (popSpans (α := α) n) := by
  unfold popSpans
  refine sim_bind (sim_forIn_range _ _ ?_) (fun _ => sim_pure _)
  intro x b
  refine sim_get_bind ?_
  intro s sp pl c hsp
  dsimp only [with3]
  rw [hsp.size]
  have hk := hsp.getD (s.spans.size - 1)
  rcases ha : s.spans.getD (s.spans.size - 1) none with _ | t <;>
    rcases hb : sp.getD (s.spans.size - 1) none with _ | t' <;> rw [ha, hb] at hk
  · dsimp only; sim_auto
  · exact hk.elim
  · exact hk.elim
  · dsimp only
    rw [hk.1]
    exact sim_bind (sim_set ⟨_, pl, _, rfl, hsp.pop⟩) (fun _ => sim_bind (emitTris_sim _) (fun _ => sim_pure _))

-- (default transparency: the loop inside `recoverFromError` is recognised by unfolding `popSpans`)
macro_rules | `(tactic| sim_call) => `(tactic| exact popSpans_sim _)

theorem recoverFromError_sim : Sim (recoverFromError (α := α)) := by
  unfold recoverFromError
  sim_auto
macro_rules | `(tactic| sim_call) => `(tactic| with_reducible exact recoverFromError_sim)

/-! ### one event -/

theorem initializeEvents_sim : Sim (initializeEvents (α := α)) := by
  unfold initializeEvents
  sim_auto
macro_rules | `(tactic| sim_call) => `(tactic| with_reducible exact initializeEvents_sim)

/-- `initialize_events` against a geometry builder that refuses a vertex -/
theorem initializeEventsB_sim (limit : Option Nat) : Sim (initializeEventsB (α := α) limit) := by
  unfold initializeEventsB
  sim_auto
macro_rules | `(tactic| sim_call) => `(tactic| with_reducible exact initializeEventsB_sim _)

theorem processEvents_sim : Sim (processEvents (α := α)) := by
  unfold processEvents
  refine sim_get_bind ?_
  intro s sp pl c hsp
  have e := scan_congr s sp pl c hsp.size
  dsimp only [with3] at e ⊢
  rw [e]
  sim_auto
macro_rules | `(tactic| sim_call) => `(tactic| with_reducible exact processEvents_sim)

end Lyon.C08
