/-
  C08 on the sweep model, part 2: every step of the sweep (`Model/Tess/Sweep.lean`) maps related
  states to related states and returns the same value — `Sim (step …)`.

  Three kinds of steps:
  * the ones that touch the spans and the pool (`spanVertex`, `beginSpan`, `endSpan`, the span
    clean-up): proved by hand from `vertex_sim`, `begin_sim`, `end_sim` of `Lemmas/Reset.lean` —
    `beginSpan` is the point where a recycled tessellator with stale fields (or none at all, the
    pools may have different lengths) enters the picture;
  * the one that reads the number of spans (`scanActiveEdges`): `scan_congr`;
  * everything else neither reads nor writes `spans` / `pool` (and only ORs bits into `cov`):
    `sim_auto` walks through the `do` block.
-/
import LyonVerif.Lemmas.ResetSweepCore

set_option linter.unusedSectionVars false
set_option linter.unusedVariables false
set_option linter.unusedSimpArgs false

namespace Lyon.C08
open Lyon Lyon.Mono Lyon.Sweep Lyon.EQ

variable {α : Type} [Scalar α] [Wide α]

/-! ### instrumentation and output -/

theorem mark_sim (bit : Nat) : Sim (mark (α := α) bit) := by
  unfold mark
  refine sim_modify ?_
  rintro s _ ⟨sp, pl, c, rfl, h⟩
  exact ⟨sp, pl, _, rfl, h⟩
macro_rules | `(tactic| sim_call) => `(tactic| with_reducible exact mark_sim _)

theorem emitTris_sim (tris : List Mono.Tri) : Sim (emitTris (α := α) tris) := by
  unfold emitTris
  refine sim_modify ?_
  rintro s _ ⟨sp, pl, c, rfl, h⟩
  exact ⟨sp, pl, c, rfl, h⟩
macro_rules | `(tactic| sim_call) => `(tactic| with_reducible exact emitTris_sim _)

/-! ### the spans -/

theorem spanVertex_sim (i : Int) (pos : P α) (id : Nat) (l : Bool) : Sim (spanVertex i pos id l) := by
  unfold spanVertex
  refine sim_get_bind ?_
  intro s sp pl c hsp
  dsimp only [with3]
  rw [hsp.size]
  split
  · exact sim_throw _
  · rename_i k _
    have hk := hsp.getD k
    rcases ha : s.spans.getD k none with _ | t <;> rcases hb : sp.getD k none with _ | t' <;> rw [ha, hb] at hk
    · exact sim_throw _
    · exact hk.elim
    · exact hk.elim
    · dsimp only
      exact sim_set ⟨_, pl, c, rfl, hsp.setIfInBounds (x := some _) (y := some _) (vertex_sim t t' pos id l hk) k⟩
macro_rules | `(tactic| sim_call) => `(tactic| with_reducible exact spanVertex_sim _ _ _ _)

/-- **`Spans::begin_span` from any two pools**: one side may pop a recycled tessellator with stale
fields while the other one pops a different one, or finds its pool empty and builds a new one —
`begin` makes them `AdvSim`. -/
theorem beginSpan_sim (i : Int) (pos : P α) (id : Nat) : Sim (beginSpan i pos id) := by
  unfold beginSpan
  refine sim_get_bind ?_
  intro s sp pl c hsp
  dsimp only [with3]
  rw [hsp.size]
  split
  · refine sim_set ⟨_, _, _, rfl, ?_⟩
    exact hsp.insert (x := some _) (y := some _) (begin_sim _ _ pos id) _
  · exact sim_throw _
macro_rules | `(tactic| sim_call) => `(tactic| with_reducible exact beginSpan_sim _ _ _)

theorem endSpan_sim (i : Int) (pos : P α) (id : Nat) : Sim (endSpan i pos id) := by
  unfold endSpan
  refine sim_get_bind ?_
  intro s sp pl c hsp
  dsimp only [with3]
  rw [hsp.size]
  split
  · exact sim_throw _
  · rename_i k _
    have hk := hsp.getD k
    rcases ha : s.spans.getD k none with _ | t <;> rcases hb : sp.getD k none with _ | t' <;> rw [ha, hb] at hk
    · exact sim_throw _
    · exact hk.elim
    · exact hk.elim
    · dsimp only
      rw [end_sim t t' pos id hk]
      refine sim_bind (sim_set ⟨_, _, c, rfl, ?_⟩) (fun _ => emitTris_sim _)
      exact hsp.setIfInBounds (x := none) (y := none) trivial k
macro_rules | `(tactic| sim_call) => `(tactic| with_reducible exact endSpan_sim _ _ _)

/-- `cleanup_spans` -/
theorem cleanup_sim :
    Sim (modify fun (s : St α) => { s with spans := s.spans.filter (·.isSome) } : SM α PUnit) := by
  refine sim_modify ?_
  rintro s _ ⟨sp, pl, c, rfl, h⟩
  exact ⟨_, pl, c, rfl, h.filter⟩
macro_rules | `(tactic| sim_call) => `(tactic| with_reducible exact cleanup_sim)

/-! ### `scan_active_edges` reads the spans through their number only -/

theorem scan_congr' (s s2 : St α) (e1 : s2.curPos = s.curPos) (e2 : s2.active = s.active) (e3 : s2.tolerance = s.tolerance)
    (e4 : s2.rule = s.rule) (e5 : s2.below = s.below) (e6 : s2.spans.size = s.spans.size) :
    scanActiveEdges s2 = scanActiveEdges s := by
  unfold scanActiveEdges
  simp -zeta only [e1, e2, e3, e4, e5, e6]

theorem scan_congr (s : St α) (sp : Array (Option (Adv α))) (pl : List (Adv α)) (c : Nat) (h : sp.size = s.spans.size) :
    scanActiveEdges (with3 s sp pl c) = scanActiveEdges s :=
  scan_congr' s _ rfl rfl rfl rfl rfl h

/-! ### step 2 -/

theorem splitEdge_sim (ei : Nat) : Sim (splitEdge (α := α) ei) := by
  unfold splitEdge
  sim_auto
macro_rules | `(tactic| sim_call) => `(tactic| with_reducible exact splitEdge_sim _)

theorem processEdgesAbove_sim (scan : Scan) : Sim (processEdgesAbove (α := α) scan) := by
  unfold processEdgesAbove
  sim_auto
macro_rules | `(tactic| sim_call) => `(tactic| with_reducible exact processEdgesAbove_sim _)

/-! ### step 3 -/

theorem sortEdgesBelow_sim : Sim (sortEdgesBelow (α := α)) := by
  unfold sortEdgesBelow
  sim_auto
macro_rules | `(tactic| sim_call) => `(tactic| with_reducible exact sortEdgesBelow_sim)

theorem mergeCoincidentEdges_sim (a b : Nat) : Sim (mergeCoincidentEdges (α := α) a b) := by
  unfold mergeCoincidentEdges
  sim_auto
macro_rules | `(tactic| sim_call) => `(tactic| with_reducible exact mergeCoincidentEdges_sim _ _)

theorem handleCoincidentEdgesBelow_sim : Sim (handleCoincidentEdgesBelow (α := α)) := by
  unfold handleCoincidentEdgesBelow
  sim_auto
macro_rules | `(tactic| sim_call) => `(tactic| with_reducible exact handleCoincidentEdgesBelow_sim)

theorem splitEvent_sim (le : Nat) (ls : Int) : Sim (splitEvent (α := α) le ls) := by
  unfold splitEvent
  sim_auto
macro_rules | `(tactic| sim_call) => `(tactic| with_reducible exact splitEvent_sim _ _)

theorem processEdgesBelow_sim (scan : Scan) : Sim (processEdgesBelow (α := α) scan) := by
  unfold processEdgesBelow
  sim_auto
macro_rules | `(tactic| sim_call) => `(tactic| with_reducible exact processEdgesBelow_sim _)

end Lyon.C08
