/-
  C02 growth (`Props/C02c.lean`), part 2: the two-level scheme of `AdvancedMonotoneTessellator`.

  * the basic tessellator fed with a FRESH id (not necessarily the largest so far) keeps its
    stack ids pairwise distinct and emits triangles with three distinct ids (`vertex_fresh`);
  * `Adv.vertex` / `Adv.end_` cut into named pieces that are definitionally the model's functions
    (`vertex_eq`, `end_eq` are `rfl`; mirrors lyon incl. fix 9b7220fb);
  * the invariant `InvL`: with `k` vertices fed (ids `0 … k−1`) every id is in exactly one place —
    the inner stack tessellator, or pending in the tail of one side's buffered chain — and
    `triangles + inner stack + Σ_sides (buffered − 1) = k`;
  * `run_spec` — `Adv.run` on `n ≥ 2` vertices: `n − 2` triangles, three distinct ids each, and
    `run_ids_lt` — all ids `< n` (through `Lemmas/SweepIdxMono.lean`).

  Purely discrete: holds for every scalar type, floats included.
-/
import LyonVerif.Lemmas.MonotoneAdvFlush
import LyonVerif.Lemmas.SweepIdxMono

set_option linter.unusedSectionVars false
set_option linter.unusedVariables false
set_option linter.unusedSimpArgs false

namespace Lyon.C02c
open Lyon Lyon.Mono Lyon.C02

variable {α : Type} [Scalar α]

/-! ## the basic tessellator fed with a FRESH id (not necessarily the largest so far) -/

theorem fanTris_distinct' (cur : MV α) (l : List (MV α))
    (hnd : (l.map (·.id)).Nodup) (hfresh : cur.id ∉ l.map (·.id)) : ∀ t ∈ fanTris cur l, TriDistinct t := by
  induction l with
  | nil => intro t ht; simp [fanTris] at ht
  | cons a r ih =>
    cases r with
    | nil => intro t ht; simp [fanTris] at ht
    | cons b r' =>
      intro t ht
      simp only [fanTris, List.mem_cons] at ht
      simp only [List.map_cons, List.nodup_cons, List.mem_cons, not_or] at hnd hfresh
      rcases ht with ht | ht
      · subst ht
        simp only [fanTri, TriDistinct]
        split
        · exact ⟨hnd.1.1, fun h => hfresh.2.1 h.symm, fun h => hfresh.1 h.symm⟩
        · exact ⟨fun h => hnd.1.1 h.symm, fun h => hfresh.1 h.symm, fun h => hfresh.2.1 h.symm⟩
      · apply ih
        · simp only [List.map_cons, List.nodup_cons, List.mem_cons, not_or]
          exact hnd.2
        · simp only [List.map_cons, List.mem_cons, not_or]
          exact hfresh.2
        · exact ht

theorem popLoop_spec' (cur lp : MV α) (st : List (MV α)) (hlp : lp.id ≠ cur.id)
    (hnot : lp.id ∉ st.map (·.id)) (hnd : (st.map (·.id)).Nodup) (hfresh : cur.id ∉ st.map (·.id)) :
    (((popLoop cur lp st).1.map (·.id)).Nodup) ∧ (∀ v ∈ (popLoop cur lp st).1, v.id ∈ lp.id :: st.map (·.id))
      ∧ ∀ t ∈ (popLoop cur lp st).2, TriDistinct t := by
  induction st generalizing lp with
  | nil => simp [popLoop]
  | cons top rest ih =>
    simp only [List.map_cons, List.nodup_cons, List.mem_cons, not_or] at hnd hfresh hnot
    simp only [popLoop]
    split
    · have := ih top (fun h => hfresh.1 h.symm) hnd.1 hnd.2 hfresh.2
      refine ⟨this.1, ?_, ?_⟩
      · intro v hv
        have := this.2.1 v hv
        simp only [List.map_cons, List.mem_cons] at this ⊢
        exact Or.inr this
      · intro t ht
        simp only [List.mem_cons] at ht
        rcases ht with ht | ht
        · subst ht
          simp only [earTri, TriDistinct]
          split
          · exact ⟨fun h => hnot.1 h.symm, hlp, fun h => hfresh.1 h.symm⟩
          · exact ⟨hnot.1, fun h => hfresh.1 h.symm, hlp⟩
        · exact this.2.2 t ht
    · refine ⟨?_, ?_, by simp⟩
      · simp only [List.map_cons, List.nodup_cons, List.mem_cons, not_or]
        exact ⟨hnot, hnd⟩
      · intro v hv
        simp only [List.mem_cons] at hv
        simp only [List.map_cons, List.mem_cons]
        rcases hv with hv | hv | hv
        · subst hv; exact Or.inl rfl
        · subst hv; exact Or.inr (Or.inl rfl)
        · exact Or.inr (Or.inr (List.mem_map.mpr ⟨v, hv, rfl⟩))

theorem vertex_fresh (s : Basic α) (cur : MV α) (htop : ∃ rest, s.stack = s.previous :: rest)
    (hnd : (s.stack.map (·.id)).Nodup) (htri : ∀ t ∈ s.tris, TriDistinct t)
    (hfresh : cur.id ∉ s.stack.map (·.id)) :
    (∃ rest, (s.vertex cur).stack = (s.vertex cur).previous :: rest) ∧
    ((s.vertex cur).stack.map (·.id)).Nodup ∧ (∀ t ∈ (s.vertex cur).tris, TriDistinct t) ∧
    (∀ v ∈ (s.vertex cur).stack, v.id = cur.id ∨ v.id ∈ s.stack.map (·.id)) ∧
    (s.vertex cur).tris.length + (s.vertex cur).stack.length = s.tris.length + s.stack.length + 1 := by
  obtain ⟨rest, hst⟩ := htop
  have hcnt := (vertex_countInv s cur (s.tris.length + s.stack.length) ⟨by simp [hst], rfl⟩).2
  refine ⟨?_, ?_, ?_, ?_, hcnt⟩
  all_goals
    unfold Basic.vertex
    split
  · exact ⟨_, rfl⟩
  · rw [hst]; exact ⟨_, rfl⟩
  · have : s.previous.id ∈ s.stack.map (·.id) := by rw [hst]; simp
    simp only [List.map_cons, List.map_nil, List.nodup_cons, List.mem_cons, List.not_mem_nil, or_false,
      not_false_eq_true, List.nodup_nil, and_true]
    intro h; exact hfresh (h ▸ this)
  · rw [hst] at hnd hfresh ⊢
    simp only [List.map_cons, List.nodup_cons, List.mem_cons, not_or] at hnd hfresh
    have sp := popLoop_spec' cur s.previous rest (fun h => hfresh.1 h.symm) hnd.1 hnd.2 hfresh.2
    simp only [List.map_cons, List.nodup_cons]
    refine ⟨?_, sp.1⟩
    intro hmem
    obtain ⟨v, hv, hvid⟩ := List.mem_map.mp hmem
    have := sp.2.1 v hv
    simp only [List.mem_cons] at this
    rcases this with h | h
    · exact hfresh.1 (hvid ▸ h)
    · exact hfresh.2 (hvid ▸ h)
  · intro t ht
    rcases List.mem_append.mp ht with h | h
    · exact htri t h
    · refine fanTris_distinct' cur s.stack.reverse ?_ ?_ t h
      · rw [List.map_reverse]
        unfold List.Nodup at hnd ⊢
        rw [List.pairwise_reverse]
        exact hnd.imp (fun h => fun e => h e.symm)
      · rw [List.map_reverse]; simpa using hfresh
  · rw [hst] at hnd hfresh ⊢
    simp only [List.map_cons, List.nodup_cons, List.mem_cons, not_or] at hnd hfresh
    have sp := popLoop_spec' cur s.previous rest (fun h => hfresh.1 h.symm) hnd.1 hnd.2 hfresh.2
    intro t ht
    rcases List.mem_append.mp ht with h | h
    · exact htri t h
    · exact sp.2.2 t h
  · intro v hv
    simp only [List.mem_cons, List.not_mem_nil, or_false] at hv
    rcases hv with hv | hv
    · exact Or.inl (hv ▸ rfl)
    · subst hv; right; rw [hst]; simp
  · rw [hst] at hnd hfresh ⊢
    simp only [List.map_cons, List.nodup_cons, List.mem_cons, not_or] at hnd hfresh
    have sp := popLoop_spec' cur s.previous rest (fun h => hfresh.1 h.symm) hnd.1 hnd.2 hfresh.2
    intro v hv
    simp only [List.mem_cons] at hv
    rcases hv with hv | hv
    · exact Or.inl (hv ▸ rfl)
    · right
      have := sp.2.1 v hv
      simpa using this


/-! ## `Adv.vertex` / `Adv.end_` cut into named pieces (definitionally the same functions) -/

def outwardTurn (sideEv : SideEv α) (p : P α) (l close : Bool) : Bool :=
  if !close && decide (sideEv.events.length ≥ 2) then
    decide ((sideEv.prev - sideEv.last.pos).cross (p - sideEv.last.pos) * (if l then Scalar.one else -Scalar.one) < Scalar.zero)
  else false

abbrev Trip (α : Type) := Basic α × SideEv α × SideEv α

def flushOpp (tess : Basic α) (sideEv oppEv : SideEv α) (l : Bool) : Trip α :=
  match (flushSide oppEv l).2.2 with
  | some mv => (((tess.pushTris (flushSide oppEv l).2.1).vertex mv), { sideEv with consRefX := sideEv.refPt.x }, (flushSide oppEv l).1)
  | none => (tess, sideEv, oppEv)

/-- lyon 9b7220fb: after its own flush the restarted chain's reference folds in the new vertex -/
def reRef (s : SideEv α) (p : P α) (l : Bool) : SideEv α :=
  { s with refPt := ⟨if l then Scalar.max s.refPt.x p.x else Scalar.min s.refPt.x p.x, s.refPt.y⟩ }

def flushOwn (tess : Basic α) (sideEv oppEv : SideEv α) (p : P α) (l : Bool) : Trip α :=
  match (flushSide sideEv (!l)).2.2 with
  | some mv => (((tess.pushTris (flushSide sideEv (!l)).2.1).vertex mv), reRef (flushSide sideEv (!l)).1 p l, { oppEv with consRefX := oppEv.refPt.x })
  | none => (tess, sideEv, oppEv)

def stepSides (tess : Basic α) (sideEv oppEv : SideEv α) (dx : α) (p : P α) (id : Nat) (l : Bool) : Trip α :=
  let close : Bool := decide (dx < (p.y - sideEv.refPt.y) * Scalar.ofSci 1 1)
  let r1 := if isAfter sideEv.last.pos oppEv.last.pos then flushOpp tess sideEv oppEv l else (tess, sideEv, oppEv)
  let r := if outwardTurn sideEv p l close || close then flushOwn r1.1 r1.2.1 r1.2.2 p l else (tess, sideEv, oppEv)
  (r.1, r.2.1.push ⟨p, id, l⟩, r.2.2)

def updRef (st : Adv α) (pos : P α) (isLeft : Bool) : Adv α :=
    if isLeft then
      let rx := Scalar.max st.left.refPt.x pos.x
      { st with left := { st.left with refPt := ⟨rx, st.left.refPt.y⟩, consRefX := Scalar.max st.left.consRefX rx } }
    else
      let rx := Scalar.min st.right.refPt.x pos.x
      { st with right := { st.right with refPt := ⟨rx, st.right.refPt.y⟩, consRefX := Scalar.min st.right.consRefX rx } }

def vertex' (st : Adv α) (p : P α) (id : Nat) (l : Bool) : Adv α :=
  let st := updRef st p l
  let dx := st.right.consRefX - st.left.consRefX
  let r := stepSides st.tess (if l then st.left else st.right) (if l then st.right else st.left) dx p id l
  if l then ⟨r.1, r.2.1, r.2.2⟩ else ⟨r.1, r.2.2, r.2.1⟩

theorem vertex_eq (st : Adv α) (p : P α) (id : Nat) (l : Bool) : st.vertex p id l = vertex' st p id l := by
  cases l <;> rfl

def endCore (tess : Basic α) (fa fb : List Tri × Option (MV α)) (pos : P α) (id : Nat) : Basic α :=
  let tess := (tess.pushTris (if fa.2.isSome then fa.1 else [])).pushTris (if fb.2.isSome then fb.1 else [])
  let tess := match fa.2, fb.2 with
    | some v, none => tess.vertex v
    | none, some v => tess.vertex v
    | some v1, some v2 =>
      if isAfter v1.pos v2.pos then (tess.vertex v2).vertex v1 else (tess.vertex v1).vertex v2
    | none, none => tess
  tess.end_ pos id

theorem end_eq (st : Adv α) (pos : P α) (id : Nat) :
    st.end_ pos id = endCore st.tess (flushSide st.left false).2 (flushSide st.right true).2 pos id := rfl

/-- the two outcomes of `flush_side` -/
theorem flushSide_cases (s : SideEv α) (r : Bool) :
    (s.events.length < 2 ∧ flushSide s r = (s, [], none)) ∨
    (2 ≤ s.events.length ∧ (flushSide s r).1.events = [s.last.id] ∧ (flushSide s r).1.last = s.last ∧
      (flushSide s r).2.1 = flushLevels s.events.toArray s.events.length r (s.events.length + 1) 1 ∧
      (flushSide s r).2.2 = some s.last) := by
  unfold flushSide
  by_cases h : s.events.length < 2
  · left; simp [h]
  · right; simp [h]; omega

/-! ## the invariant of the two-level scheme

`k` vertices have been fed, with ids `0 … k−1`.  Every id is in exactly one place: in the inner
stack-tessellator (possibly already consumed by it), or pending in the tail of one side's buffered
chain.  The HEAD of a chain is the vertex the chain hangs from (already forwarded).  The count:
`triangles + inner stack + pending = k`. -/
structure InvL (tess : Basic α) (ea : List Nat) (la : Nat) (eb : List Nat) (lb : Nat) (k off : Nat) : Prop where
  top : ∃ rest, tess.stack = tess.previous :: rest
  snd : (tess.stack.map (·.id)).Nodup
  tri : ∀ t ∈ tess.tris, TriDistinct t
  nda : ea.Nodup
  ndb : eb.Nodup
  lasta : ea.getLast? = some la
  lastb : eb.getLast? = some lb
  taila : ∀ x ∈ ea.tail, x ∉ eb ∧ x ∉ tess.stack.map (·.id)
  tailb : ∀ x ∈ eb.tail, x ∉ ea ∧ x ∉ tess.stack.map (·.id)
  lta : ∀ x ∈ ea, x < k
  ltb : ∀ x ∈ eb, x < k
  lts : ∀ v ∈ tess.stack, v.id < k
  cnt : tess.tris.length + tess.stack.length + (ea.length - 1) + (eb.length - 1) = k + off

theorem InvL.symm {tess : Basic α} {ea eb : List Nat} {la lb k off : Nat} (h : InvL tess ea la eb lb k off) :
    InvL tess eb lb ea la k off :=
  { top := h.top, snd := h.snd, tri := h.tri, nda := h.ndb, ndb := h.nda, lasta := h.lastb, lastb := h.lasta,
    taila := h.tailb, tailb := h.taila, lta := h.ltb, ltb := h.lta, lts := h.lts,
    cnt := by have := h.cnt; omega }

theorem getLast_mem_tail (l : List Nat) (x : Nat) (h : l.getLast? = some x) (hl : 2 ≤ l.length) : x ∈ l.tail := by
  match l, hl with
  | a :: b :: r, _ =>
    simp only [List.tail_cons]
    rw [List.getLast?_cons_cons] at h
    exact List.mem_of_getLast? h

/-- flushing side `a` (≥ 2 buffered ids): its `len − 2` chain triangles go out, its last vertex is
forwarded to the inner tessellator, the chain restarts from that vertex. -/
theorem InvL.flushFwd {tess : Basic α} {ea eb : List Nat} {la lb k off : Nat} (h : InvL tess ea la eb lb k off)
    (hl : 2 ≤ ea.length) (tr : List Tri) (d : Nat) (htr : tr.length + d = ea.length - 2) (hdo : d ≤ off)
    (hd : ∀ t ∈ tr, TriDistinct t) (mv : MV α) (hmv : mv.id = la) :
    InvL ((tess.pushTris tr).vertex mv) [la] la eb lb k (off - d) := by
  have hmem : la ∈ ea.tail := getLast_mem_tail ea la h.lasta hl
  have hla : la ∈ ea := List.mem_of_mem_tail hmem
  have hf := h.taila la hmem
  have vf := vertex_fresh (tess.pushTris tr) mv h.top h.snd
    (by intro t ht
        rcases List.mem_append.mp ht with g | g
        · exact h.tri t g
        · exact hd t g)
    (by rw [hmv]; exact hf.2)
  obtain ⟨v1, v2, v3, v4, v5⟩ := vf
  have hsub : ∀ x ∈ ((tess.pushTris tr).vertex mv).stack.map (·.id), x = la ∨ x ∈ tess.stack.map (·.id) := by
    intro x hx
    obtain ⟨v, hv, rfl⟩ := List.mem_map.mp hx
    rcases v4 v hv with g | g
    · exact Or.inl (g.trans hmv)
    · exact Or.inr g
  refine { top := v1, snd := v2, tri := v3, nda := by simp, ndb := h.ndb, lasta := rfl, lastb := h.lastb,
           taila := by simp, tailb := ?_, lta := ?_, ltb := h.ltb, lts := ?_, cnt := ?_ }
  · intro x hx
    have g := h.tailb x hx
    have hne : x ≠ la := fun e => g.1 (e ▸ hla)
    refine ⟨by simpa using hne, ?_⟩
    intro hx'
    rcases hsub x hx' with e | e
    · exact hne e
    · exact g.2 e
  · intro x hx
    simp only [List.mem_singleton] at hx
    exact hx ▸ h.lta la hla
  · intro v hv
    rcases hsub v.id (List.mem_map.mpr ⟨v, hv, rfl⟩) with e | e
    · rw [e]; exact h.lta la hla
    · obtain ⟨w, hw, hwid⟩ := List.mem_map.mp e
      rw [← hwid]; exact h.lts w hw
  · have := h.cnt
    have e1 : (tess.pushTris tr).tris.length = tess.tris.length + tr.length := by
      simp [Basic.pushTris]
    have e2 : (tess.pushTris tr).stack = tess.stack := rfl
    rw [e1, e2] at v5
    simp only [List.length_cons, List.length_nil]
    omega

/-- buffering the next vertex (id `k`) on side `a` -/
theorem InvL.push {tess : Basic α} {ea eb : List Nat} {la lb k : Nat} (h : InvL tess ea la eb lb k 0) :
    InvL tess (ea ++ [k]) k eb lb (k + 1) 0 := by
  have hne : ea ≠ [] := by intro e; have := h.lasta; simp [e] at this
  have hlen : 1 ≤ ea.length := by
    cases ea with
    | nil => exact absurd rfl hne
    | cons a r => simp
  have hka : k ∉ ea := fun g => Nat.lt_irrefl _ (h.lta k g)
  have hkb : k ∉ eb := fun g => Nat.lt_irrefl _ (h.ltb k g)
  have hks : k ∉ tess.stack.map (·.id) := by
    intro g
    obtain ⟨w, hw, hwid⟩ := List.mem_map.mp g
    have := h.lts w hw
    omega
  refine { top := h.top, snd := h.snd, tri := h.tri, nda := ?_, ndb := h.ndb, lasta := by simp, lastb := h.lastb,
           taila := ?_, tailb := ?_, lta := ?_, ltb := ?_, lts := ?_, cnt := ?_ }
  · rw [List.nodup_append]
    refine ⟨h.nda, by simp, ?_⟩
    intro a ha b hb
    simp only [List.mem_singleton] at hb
    subst hb
    intro e; exact hka (e ▸ ha)
  · intro x hx
    rw [List.tail_append_of_ne_nil hne, List.mem_append, List.mem_singleton] at hx
    rcases hx with g | g
    · exact h.taila x g
    · subst g; exact ⟨hkb, hks⟩
  · intro x hx
    have g := h.tailb x hx
    refine ⟨?_, g.2⟩
    rw [List.mem_append, List.mem_singleton]
    rintro (e | e)
    · exact g.1 e
    · have := h.ltb x (List.mem_of_mem_tail hx); omega
  · intro x hx
    rw [List.mem_append, List.mem_singleton] at hx
    rcases hx with g | g
    · have := h.lta x g; omega
    · omega
  · intro x hx; have := h.ltb x hx; omega
  · intro v hv; have := h.lts v hv; omega
  · have := h.cnt
    simp only [List.length_append, List.length_cons, List.length_nil]
    omega

/-- the invariant on a triple (inner tessellator, one side, the other side) -/
def Inv3 (x : Trip α) (k : Nat) : Prop := InvL x.1 x.2.1.events x.2.1.last.id x.2.2.events x.2.2.last.id k 0

theorem flushSide_tris_distinct (s : SideEv α) (r : Bool) (hnd : s.events.Nodup) :
    ∀ t ∈ flushLevels s.events.toArray s.events.length r (s.events.length + 1) 1, TriDistinct t :=
  fun t ht => chainTri_distinct s.events r hnd t (flushLevels_ids _ _ r t ht)

theorem flushOwn_inv (tess : Basic α) (a b : SideEv α) (p : P α) (l : Bool) (k : Nat) (h : Inv3 (tess, a, b) k) :
    Inv3 (flushOwn tess a b p l) k := by
  unfold flushOwn
  rcases flushSide_cases a (!l) with ⟨_, e⟩ | ⟨hl, e1, e2, e3, e4⟩
  · rw [e]; exact h
  · rw [e4]
    have r1 : (reRef (flushSide a !l).1 p l).events = [a.last.id] := e1
    have r2 : (reRef (flushSide a !l).1 p l).last = a.last := e2
    simp only [Inv3, r1, r2, e3]
    exact InvL.flushFwd h hl _ 0 (flushLevels_count _ _ _) (Nat.le_refl 0) (flushSide_tris_distinct a _ h.nda) a.last rfl

theorem flushOpp_inv (tess : Basic α) (a b : SideEv α) (l : Bool) (k : Nat) (h : Inv3 (tess, a, b) k) :
    Inv3 (flushOpp tess a b l) k := by
  unfold flushOpp
  rcases flushSide_cases b l with ⟨_, e⟩ | ⟨hl, e1, e2, e3, e4⟩
  · rw [e]; exact h
  · rw [e4]
    simp only [Inv3, e1, e2, e3]
    exact (InvL.flushFwd (InvL.symm h) hl _ 0 (flushLevels_count _ _ _) (Nat.le_refl 0) (flushSide_tris_distinct b _ h.ndb) b.last rfl).symm

theorem stepSides_inv (tess : Basic α) (a b : SideEv α) (dx : α) (p : P α) (l : Bool) (k : Nat)
    (h : Inv3 (tess, a, b) k) : Inv3 (stepSides tess a b dx p k l) (k + 1) := by
  dsimp only [stepSides]
  have h1 : Inv3 (if isAfter a.last.pos b.last.pos then flushOpp tess a b l else (tess, a, b)) k := by
    split
    · exact flushOpp_inv tess a b l k h
    · exact h
  generalize (if isAfter a.last.pos b.last.pos then flushOpp tess a b l else (tess, a, b)) = r1 at h1 ⊢
  have h2 : Inv3 (if (outwardTurn a p l (decide (dx < (p.y - a.refPt.y) * Scalar.ofSci 1 1)) ||
      decide (dx < (p.y - a.refPt.y) * Scalar.ofSci 1 1)) = true then flushOwn r1.1 r1.2.1 r1.2.2 p l else (tess, a, b)) k := by
    split
    · exact flushOwn_inv _ _ _ p l k h1
    · exact h
  generalize (if (outwardTurn a p l (decide (dx < (p.y - a.refPt.y) * Scalar.ofSci 1 1)) ||
      decide (dx < (p.y - a.refPt.y) * Scalar.ofSci 1 1)) = true then flushOwn r1.1 r1.2.1 r1.2.2 p l else (tess, a, b)) = r at h2 ⊢
  exact InvL.push h2

/-- the invariant on a whole `Adv` state -/
def AInv (st : Adv α) (k : Nat) : Prop := Inv3 (st.tess, st.left, st.right) k

theorem begin_inv (old : Adv α) (p : P α) : AInv (Adv.begin old p 0) 1 := by
  refine { top := ⟨[], rfl⟩, snd := by simp [Adv.begin, Basic.begin], tri := by simp [Adv.begin, Basic.begin],
           nda := by simp [Adv.begin], ndb := by simp [Adv.begin], lasta := rfl, lastb := rfl,
           taila := by simp [Adv.begin], tailb := by simp [Adv.begin], lta := by simp [Adv.begin],
           ltb := by simp [Adv.begin], lts := by simp [Adv.begin, Basic.begin], cnt := by simp [Adv.begin, Basic.begin] }

theorem vertex_inv (st : Adv α) (p : P α) (l : Bool) (k : Nat) (h : AInv st k) :
    AInv (st.vertex p k l) (k + 1) := by
  rw [vertex_eq]
  cases l
  · have hu : Inv3 ((updRef st p false).tess, (updRef st p false).right, (updRef st p false).left) k :=
      InvL.symm h
    have := stepSides_inv _ _ _ ((updRef st p false).right.consRefX - (updRef st p false).left.consRefX) p false k hu
    exact InvL.symm this
  · have hu : Inv3 ((updRef st p true).tess, (updRef st p true).left, (updRef st p true).right) k := h
    exact stepSides_inv _ _ _ ((updRef st p true).right.consRefX - (updRef st p true).left.consRefX) p true k hu


@[simp] theorem pushTris_nil (s : Basic α) : s.pushTris [] = s := by
  cases s; simp [Basic.pushTris]

/-- triangles pushed ahead of the vertex they belong to (as `end` does) -/
theorem InvL.pushTris {tess : Basic α} {ea eb : List Nat} {la lb k off : Nat} (h : InvL tess ea la eb lb k off)
    (tr : List Tri) (hd : ∀ t ∈ tr, TriDistinct t) : InvL (tess.pushTris tr) ea la eb lb k (off + tr.length) :=
  { top := h.top, snd := h.snd, nda := h.nda, ndb := h.ndb, lasta := h.lasta, lastb := h.lastb,
    taila := h.taila, tailb := h.tailb, lta := h.lta, ltb := h.ltb, lts := h.lts,
    tri := by
      intro t ht
      rcases List.mem_append.mp ht with g | g
      · exact h.tri t g
      · exact hd t g
    cnt := by
      have := h.cnt
      have e1 : (tess.pushTris tr).tris.length = tess.tris.length + tr.length := by simp [Basic.pushTris]
      have e2 : (tess.pushTris tr).stack = tess.stack := rfl
      rw [e1, e2]; omega }

/-- with nothing pending on either side, `end` of the inner tessellator closes the piece -/
theorem InvL.finish {tess : Basic α} {ea eb : List Nat} {la lb k : Nat} (h : InvL tess ea la eb lb k 0)
    (ha : ea.length < 2) (hb : eb.length < 2) (pos : P α) :
    (tess.end_ pos k).tris.length = k - 1 ∧ ∀ t ∈ (tess.end_ pos k).tris, TriDistinct t := by
  obtain ⟨rest, hst⟩ := h.top
  constructor
  · apply end_count
    refine ⟨by simp [hst], ?_⟩
    have := h.cnt; omega
  · have hfresh : k ∉ tess.stack.map (·.id) := by
      intro g
      obtain ⟨w, hw, hwid⟩ := List.mem_map.mp g
      have := h.lts w hw
      omega
    exact (vertex_fresh tess ⟨pos, k, !tess.previous.left⟩ h.top h.snd h.tri hfresh).2.2.1

theorem end_inv (st : Adv α) (pos : P α) (k : Nat) (h : AInv st k) :
    (st.end_ pos k).tris.length = k - 1 ∧ ∀ t ∈ (st.end_ pos k).tris, TriDistinct t := by
  rw [end_eq]
  unfold endCore
  have h0 : InvL st.tess st.left.events st.left.last.id st.right.events st.right.last.id k 0 := h
  rcases flushSide_cases st.left false with ⟨ha, ea⟩ | ⟨ha, _, _, a3, a4⟩ <;>
  rcases flushSide_cases st.right true with ⟨hb, eb⟩ | ⟨hb, _, _, b3, b4⟩
  · simp only [ea, eb, Option.isSome_none, Bool.false_eq_true, if_false, pushTris_nil]
    exact h0.finish ha hb pos
  · simp only [ea, b3, b4, Option.isSome_none, Option.isSome_some, Bool.false_eq_true, if_false, if_true, pushTris_nil]
    have := h0.symm.flushFwd hb _ 0 (flushLevels_count _ _ true) (Nat.le_refl 0)
      (flushSide_tris_distinct st.right _ h0.ndb) st.right.last rfl
    exact this.symm.finish ha (by simp) pos
  · simp only [eb, a3, a4, Option.isSome_none, Option.isSome_some, Bool.false_eq_true, if_false, if_true, pushTris_nil]
    have := h0.flushFwd ha _ 0 (flushLevels_count _ _ false) (Nat.le_refl 0)
      (flushSide_tris_distinct st.left _ h0.nda) st.left.last rfl
    exact this.finish (by simp) hb pos
  · simp only [a3, a4, b3, b4, Option.isSome_some, if_true]
    have h1 := (h0.pushTris _ (flushSide_tris_distinct st.left false h0.nda)).pushTris _
      (flushSide_tris_distinct st.right true h0.ndb)
    rw [flushLevels_count, flushLevels_count] at h1
    split
    · have h2 := h1.symm.flushFwd hb [] (st.right.events.length - 2) (by simp) (by omega) (by simp) st.right.last rfl
      rw [pushTris_nil] at h2
      have h3 := h2.symm.flushFwd ha [] (st.left.events.length - 2) (by simp) (by omega) (by simp) st.left.last rfl
      rw [pushTris_nil] at h3
      rw [show 0 + (st.left.events.length - 2) + (st.right.events.length - 2) - (st.right.events.length - 2)
        - (st.left.events.length - 2) = 0 by omega] at h3
      exact h3.finish (by simp) (by simp) pos
    · have h2 := h1.flushFwd ha [] (st.left.events.length - 2) (by simp) (by omega) (by simp) st.left.last rfl
      rw [pushTris_nil] at h2
      have h3 := h2.symm.flushFwd hb [] (st.right.events.length - 2) (by simp) (by omega) (by simp) st.right.last rfl
      rw [pushTris_nil] at h3
      rw [show 0 + (st.left.events.length - 2) + (st.right.events.length - 2) - (st.left.events.length - 2)
        - (st.right.events.length - 2) = 0 by omega] at h3
      exact h3.finish (by simp) (by simp) pos


/-- ids `k, k+1, …` are assigned in feeding order -/
def afeed (s : Adv α) : Nat → List (P α × Bool) → Adv α
  | _, [] => s
  | k, (p, l) :: r => afeed (s.vertex p k l) (k + 1) r

theorem foldl_zipIdx_eq_afeed (vs : List (P α × Bool)) (s : Adv α) (k : Nat) :
    (vs.zipIdx k).foldl (fun s (pi : (P α × Bool) × Nat) => s.vertex pi.1.1 (pi.2 + 1) pi.1.2) s
      = afeed s (k + 1) vs := by
  induction vs generalizing s k with
  | nil => rfl
  | cons v r ih =>
    obtain ⟨p, l⟩ := v
    simp only [List.zipIdx_cons, List.foldl_cons, afeed]
    exact ih _ (k + 1)

theorem afeed_inv (vs : List (P α × Bool)) (s : Adv α) (k : Nat) (h : AInv s k) :
    AInv (afeed s k vs) (k + vs.length) := by
  induction vs generalizing s k with
  | nil => simpa [afeed] using h
  | cons v r ih =>
    obtain ⟨p, l⟩ := v
    have := ih (s.vertex p k l) (k + 1) (vertex_inv s p l k h)
    simp only [afeed, List.length_cons]
    rwa [show k + (r.length + 1) = k + 1 + r.length by omega]

theorem run_spec (seq : List (P α × Bool)) :
    (2 ≤ seq.length → (Adv.run seq).length = seq.length - 2) ∧ ∀ t ∈ Adv.run seq, TriDistinct t := by
  match seq with
  | [] => simp [Adv.run]
  | [_] => simp [Adv.run]
  | (p0, b0) :: v1 :: rest =>
    simp only [Adv.run, foldl_zipIdx_eq_afeed]
    have h := afeed_inv (List.take ((v1 :: rest).length - 1) (v1 :: rest)) (Adv.begin Adv.new p0 0) (0 + 1)
      (begin_inv Adv.new p0)
    have hlen : 0 + 1 + (List.take ((v1 :: rest).length - 1) (v1 :: rest)).length = (v1 :: rest).length := by
      simp only [List.length_take, List.length_cons]; omega
    rw [hlen] at h
    have e := end_inv _ (((v1 :: rest).getLast?.map (·.1)).getD p0) _ h
    refine ⟨fun _ => ?_, e.2⟩
    rw [e.1]
    simp only [List.length_cons]
    omega

/-! ## all ids below the number of vertices (through `Lemmas/SweepIdxMono.lean`) -/

open Lyon.SweepIdx in
theorem afeed_ok {n : Nat} (vs : List (P α × Bool)) (s : Adv α) (k : Nat) (h : AdvOk n s)
    (hk : k + vs.length ≤ n) : AdvOk n (afeed s k vs) := by
  induction vs generalizing s k with
  | nil => simpa [afeed] using h
  | cons v r ih =>
    obtain ⟨p, l⟩ := v
    simp only [List.length_cons] at hk
    simp only [afeed]
    exact ih _ (k + 1) (adv_vertex_ok h p k l (by omega)) (by omega)

open Lyon.SweepIdx in
/-- every id of every triangle of `Adv.run seq` is `< seq.length` -/
theorem run_ids_lt (seq : List (P α × Bool)) : TrisLt seq.length (Adv.run seq) := by
  match seq with
  | [] => intro t ht; simp [Adv.run] at ht
  | [_] => intro t ht; simp [Adv.run] at ht
  | (p0, b0) :: v1 :: rest =>
    simp only [Adv.run, foldl_zipIdx_eq_afeed]
    have hn : 0 < ((p0, b0) :: v1 :: rest).length := by simp
    have h0 : AdvOk ((p0, b0) :: v1 :: rest).length (Adv.begin (Adv.new (α := α)) p0 0) := adv_begin_ok _ p0 0 hn
    have h := afeed_ok (List.take ((v1 :: rest).length - 1) (v1 :: rest)) _ (0 + 1) h0 (by
      simp only [List.length_take, List.length_cons]; omega)
    exact (adv_end_ok h (((v1 :: rest).getLast?.map (·.1)).getD p0) (v1 :: rest).length (by simp)).tris

open Lyon.SweepIdx in
theorem bfeed_ok {n : Nat} (vs : List (P α × Bool)) (s : Basic α) (k : Nat) (h : BasicOk n s)
    (hk : k + vs.length ≤ n) : BasicOk n (feed s k vs) := by
  induction vs generalizing s k with
  | nil => simpa [feed] using h
  | cons v r ih =>
    obtain ⟨p, l⟩ := v
    simp only [List.length_cons] at hk
    simp only [feed]
    exact ih _ (k + 1) (basic_vertex_ok h ⟨p, k, l⟩ (by show k < n; omega)) (by omega)

open Lyon.SweepIdx in
/-- the same for the basic tessellator -/
theorem basic_run_ids_lt (seq : List (P α × Bool)) : TrisLt seq.length (Basic.run seq) := by
  match seq with
  | [] => intro t ht; simp [Basic.run] at ht
  | [_] => intro t ht; simp [Basic.run] at ht
  | (p0, b0) :: v1 :: rest =>
    simp only [Basic.run, foldl_zipIdx_eq_feed]
    have hn : 0 < ((p0, b0) :: v1 :: rest).length := by simp
    have h0 : BasicOk ((p0, b0) :: v1 :: rest).length (Basic.begin p0 0) := basic_begin_ok p0 0 hn
    have h := bfeed_ok (List.take ((v1 :: rest).length - 1) (v1 :: rest)) _ (0 + 1) h0 (by
      simp only [List.length_take, List.length_cons]; omega)
    exact (basic_end_ok h (((v1 :: rest).getLast?.map (·.1)).getD p0) (v1 :: rest).length (by simp)).tris

end Lyon.C02c
