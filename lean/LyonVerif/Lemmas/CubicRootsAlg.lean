/-
  Pure algebra behind the completeness theorems of `utils::cubic_polynomial_roots`
  (helper lemmas; the property's theorems are in `Props/C12d.lean`).

  * `cubic_factor_of_three_roots`   a cubic with three pairwise distinct roots IS
                                    `a (x − x₁)(x − x₂)(x − x₃)`
  * `cubic_at_most_three_roots`     … hence (leading coefficient ≠ 0) every root is one of them
  * `depressed_disc_of_two_roots`   two distinct roots `y₀ ≠ y₁` of `y³ + 3δ₀y − 2δ₁` give
                                    `−108 (δ₀³ + δ₁²) = ((y₀−y₁)(2y₀+y₁)(y₀+2y₁))²`
  * `depressed_unique_root`         `δ₀³ + δ₁² > 0`: at most one root
  * `depressed_three_roots_disc_neg` three pairwise distinct roots: `δ₀³ + δ₁² < 0`
  * `depressed_roots_disc_zero`     `δ₀³ + δ₁² = 0`, `B³ = δ₁`: the roots are `2B` and `−B` (double)
  * `sep_of_vieta`                  three numbers with `Σ = 0`, `Σ pairs = −3/4`, all solving
                                    `4u³ − 3u = w` with `w² ≠ 1`, are pairwise distinct
-/
import LyonVerif.Lemmas.IxField
import Mathlib.Tactic.Positivity
import Mathlib.Tactic.NormNum

set_option linter.unusedSectionVars false
set_option linter.unusedVariables false

namespace Lyon.CubicRoots
variable {K : Type} [Field K] [LinearOrder K] [IsStrictOrderedRing K]

/-- a polynomial of degree ≤ 3 with three pairwise distinct roots is `a (x−x₁)(x−x₂)(x−x₃)` -/
theorem cubic_factor_of_three_roots (a b c d x1 x2 x3 : K)
    (h12 : x1 ≠ x2) (h13 : x1 ≠ x3) (h23 : x2 ≠ x3)
    (r1 : a * x1 ^ 3 + b * x1 ^ 2 + c * x1 + d = 0)
    (r2 : a * x2 ^ 3 + b * x2 ^ 2 + c * x2 + d = 0)
    (r3 : a * x3 ^ 3 + b * x3 ^ 2 + c * x3 + d = 0) (x : K) :
    a * x ^ 3 + b * x ^ 2 + c * x + d = a * ((x - x1) * (x - x2) * (x - x3)) := by
  have d12 : x1 - x2 ≠ 0 := sub_ne_zero.mpr h12
  have d13 : x1 - x3 ≠ 0 := sub_ne_zero.mpr h13
  have d23 : x2 - x3 ≠ 0 := sub_ne_zero.mpr h23
  -- divided differences
  have e12 : a * (x1 ^ 2 + x1 * x2 + x2 ^ 2) + b * (x1 + x2) + c = 0 := by
    apply mul_left_cancel₀ d12
    linear_combination r1 - r2
  have e13 : a * (x1 ^ 2 + x1 * x3 + x3 ^ 2) + b * (x1 + x3) + c = 0 := by
    apply mul_left_cancel₀ d13
    linear_combination r1 - r3
  have eb : a * (x1 + x2 + x3) + b = 0 := by
    apply mul_left_cancel₀ d23
    linear_combination e12 - e13
  have hb : b = -(a * (x1 + x2 + x3)) := by linear_combination eb
  have hc : c = a * (x1 * x2 + x1 * x3 + x2 * x3) := by
    linear_combination e12 - (x1 + x2) * eb
  have hd : d = -(a * (x1 * x2 * x3)) := by
    linear_combination r1 - x1 ^ 2 * eb - x1 * (e12 - (x1 + x2) * eb)
  rw [hb, hc, hd]; ring

/-- **a cubic has at most three roots**: if `x₁, x₂, x₃` are pairwise distinct roots of
`a x³ + b x² + c x + d` and `a ≠ 0`, every root is one of them. -/
theorem cubic_at_most_three_roots (a b c d x1 x2 x3 x : K) (ha : a ≠ 0)
    (h12 : x1 ≠ x2) (h13 : x1 ≠ x3) (h23 : x2 ≠ x3)
    (r1 : a * x1 ^ 3 + b * x1 ^ 2 + c * x1 + d = 0)
    (r2 : a * x2 ^ 3 + b * x2 ^ 2 + c * x2 + d = 0)
    (r3 : a * x3 ^ 3 + b * x3 ^ 2 + c * x3 + d = 0)
    (r : a * x ^ 3 + b * x ^ 2 + c * x + d = 0) : x = x1 ∨ x = x2 ∨ x = x3 := by
  rw [cubic_factor_of_three_roots a b c d x1 x2 x3 h12 h13 h23 r1 r2 r3 x] at r
  rcases mul_eq_zero.mp r with h | h
  · exact absurd h ha
  · rcases mul_eq_zero.mp h with h | h
    · rcases mul_eq_zero.mp h with h | h
      · exact Or.inl (sub_eq_zero.mp h)
      · exact Or.inr (Or.inl (sub_eq_zero.mp h))
    · exact Or.inr (Or.inr (sub_eq_zero.mp h))

/-- non-vacuity: `x³ − 6x² + 11x − 6 = (x−1)(x−2)(x−3)` -/
example : (1:ℚ) * 1 ^ 3 + (-6) * 1 ^ 2 + 11 * 1 + (-6) = 0 ∧ (1:ℚ) * 2 ^ 3 + (-6) * 2 ^ 2 + 11 * 2 + (-6) = 0
    ∧ (1:ℚ) * 3 ^ 3 + (-6) * 3 ^ 2 + 11 * 3 + (-6) = 0 := by norm_num

/-- two distinct roots of the depressed cubic `y³ + 3δ₀ y − 2δ₁` determine `δ₀`, `δ₁`, and
`−108 (δ₀³ + δ₁²)` is the square of the product of the root differences (the third root is
`−y₀ − y₁`) -/
theorem depressed_disc_of_two_roots (d0 d1 y0 y1 : K) (hne : y0 ≠ y1)
    (r0 : y0 ^ 3 + 3 * d0 * y0 - 2 * d1 = 0) (r1 : y1 ^ 3 + 3 * d0 * y1 - 2 * d1 = 0) :
    -108 * (d0 ^ 3 + d1 ^ 2) = ((y0 - y1) * (2 * y0 + y1) * (y0 + 2 * y1)) ^ 2 := by
  have dne : y0 - y1 ≠ 0 := sub_ne_zero.mpr hne
  have e : y0 ^ 2 + y0 * y1 + y1 ^ 2 + 3 * d0 = 0 := by
    apply mul_left_cancel₀ dne
    linear_combination r0 - r1
  have h0 : d0 = -(y0 ^ 2 + y0 * y1 + y1 ^ 2) / 3 := by
    rw [eq_div_iff (three_ne_zero)]; linear_combination e
  have h1 : d1 = (y0 ^ 3 + 3 * d0 * y0) / 2 := by
    rw [eq_div_iff (two_ne_zero)]; linear_combination -r0
  rw [h1, h0]; field_simp; ring

/-- `δ₀³ + δ₁² > 0`: the depressed cubic has at most one root in an ordered field -/
theorem depressed_unique_root (d0 d1 y0 y1 : K) (hD : 0 < d0 ^ 3 + d1 ^ 2)
    (r0 : y0 ^ 3 + 3 * d0 * y0 - 2 * d1 = 0) (r1 : y1 ^ 3 + 3 * d0 * y1 - 2 * d1 = 0) : y0 = y1 := by
  by_contra hne
  have h := depressed_disc_of_two_roots d0 d1 y0 y1 hne r0 r1
  have : 0 ≤ ((y0 - y1) * (2 * y0 + y1) * (y0 + 2 * y1)) ^ 2 := sq_nonneg _
  rw [← h] at this
  linarith

/-- non-vacuity: `y³ + 3y − 4` (`δ₀ = 1`, `δ₁ = 2`, discriminant `5 > 0`) has the root `1` -/
example : (0:ℚ) < 1 ^ 3 + 2 ^ 2 ∧ (1:ℚ) ^ 3 + 3 * 1 * 1 - 2 * 2 = 0 := by norm_num

/-- three pairwise distinct roots of the depressed cubic: `δ₀³ + δ₁² < 0` (strictly) -/
theorem depressed_three_roots_disc_neg (d0 d1 y0 y1 y2 : K)
    (h01 : y0 ≠ y1) (h02 : y0 ≠ y2) (h12 : y1 ≠ y2)
    (r0 : y0 ^ 3 + 3 * d0 * y0 - 2 * d1 = 0) (r1 : y1 ^ 3 + 3 * d0 * y1 - 2 * d1 = 0)
    (r2 : y2 ^ 3 + 3 * d0 * y2 - 2 * d1 = 0) : d0 ^ 3 + d1 ^ 2 < 0 := by
  have h := depressed_disc_of_two_roots d0 d1 y0 y1 h01 r0 r1
  -- y2 = -y0 - y1
  have hf := cubic_factor_of_three_roots 1 0 (3 * d0) (-2 * d1) y0 y1 y2 h01 h02 h12
    (by linear_combination r0) (by linear_combination r1) (by linear_combination r2)
  have hs : y0 + y1 + y2 = 0 := by
    have a0 := hf 0
    have a1 := hf 1
    have a2 := hf (-1)
    linear_combination (a1 + a2 - 2 * a0) / 2
  have e2 : y2 = -y0 - y1 := by linear_combination hs
  have p1 : 2 * y0 + y1 ≠ 0 := by
    intro h'; apply h02; rw [e2]; linear_combination h'
  have p2 : y0 + 2 * y1 ≠ 0 := by
    intro h'; apply h12; rw [e2]; linear_combination h'
  have pos : 0 < ((y0 - y1) * (2 * y0 + y1) * (y0 + 2 * y1)) ^ 2 :=
    pow_pos_of_ne_zero_sq (mul_ne_zero (mul_ne_zero (sub_ne_zero.mpr h01) p1) p2)
  rw [← h] at pos
  linarith
where
  pow_pos_of_ne_zero_sq {x : K} (hx : x ≠ 0) : 0 < x ^ 2 := by positivity

/-- non-vacuity: `y³ − 7y + 6 = (y−1)(y−2)(y+3)`: `δ₀ = −7/3`, `δ₁ = −3` -/
example : (1:ℚ) ^ 3 + 3 * (-7/3) * 1 - 2 * (-3) = 0 ∧ (2:ℚ) ^ 3 + 3 * (-7/3) * 2 - 2 * (-3) = 0
    ∧ (-3:ℚ) ^ 3 + 3 * (-7/3) * (-3) - 2 * (-3) = 0 ∧ (-7/3 : ℚ) ^ 3 + (-3) ^ 2 < 0 := by norm_num

/-- cube roots are unique in an ordered field -/
theorem cube_inj {x y : K} (h : x ^ 3 = y ^ 3) : x = y := by
  by_contra hne
  have hd : x - y ≠ 0 := sub_ne_zero.mpr hne
  have e : x ^ 2 + x * y + y ^ 2 = 0 := by
    apply mul_left_cancel₀ hd
    linear_combination h
  -- 4(x² + xy + y²) = (2x + y)² + 3y²
  have hy : y = 0 := by
    by_contra hy
    have : 0 < y ^ 2 := by positivity
    nlinarith [sq_nonneg (2 * x + y)]
  rw [hy] at e hne
  have hx : x = 0 := by
    have : x ^ 2 = 0 := by linear_combination e
    exact pow_eq_zero_iff (two_ne_zero) |>.mp this
  exact hne hx

/-- `δ₀³ + δ₁² = 0` and `B³ = δ₁`: then `δ₀ = −B²` and the depressed cubic is `(y − 2B)(y + B)²` -/
theorem depressed_factor_disc_zero (d0 d1 B y : K) (hD : d0 ^ 3 + d1 ^ 2 = 0) (hB : B ^ 3 = d1) :
    d0 = -B ^ 2 ∧ y ^ 3 + 3 * d0 * y - 2 * d1 = (y - 2 * B) * (y + B) ^ 2 := by
  have h0 : d0 = -B ^ 2 := by
    apply cube_inj
    rw [← hB] at hD
    linear_combination hD
  refine ⟨h0, ?_⟩
  rw [h0, ← hB]; ring

/-- `δ₀³ + δ₁² = 0`, `B³ = δ₁`: the roots of the depressed cubic are exactly `2B` and `−B` -/
theorem depressed_roots_disc_zero (d0 d1 B y : K) (hD : d0 ^ 3 + d1 ^ 2 = 0) (hB : B ^ 3 = d1) :
    y ^ 3 + 3 * d0 * y - 2 * d1 = 0 ↔ (y = 2 * B ∨ y = -B) := by
  rw [(depressed_factor_disc_zero d0 d1 B y hD hB).2]
  constructor
  · intro h
    rcases mul_eq_zero.mp h with h | h
    · exact Or.inl (sub_eq_zero.mp h)
    · right
      have := pow_eq_zero_iff (two_ne_zero) |>.mp h
      linear_combination this
  · rintro (h | h) <;> rw [h] <;> ring

/-- non-vacuity: `y³ − 3y − 2 = (y − 2)(y + 1)²`: `δ₀ = −1`, `δ₁ = 1`, `B = 1` -/
example : (-1:ℚ) ^ 3 + 1 ^ 2 = 0 ∧ (1:ℚ) ^ 3 = 1 := by norm_num

/-- three numbers with elementary symmetric functions `e₁ = 0`, `e₂ = −3/4` that all solve
`4u³ − 3u = w` with `w² ≠ 1` (the three cosines at angles `2π/3` apart): the first two differ. -/
theorem sep_of_vieta (u0 u1 u2 w : K) (e1 : u0 + u1 + u2 = 0)
    (e2 : u0 * u1 + u0 * u2 + u1 * u2 = -3 / 4) (hw : 4 * u0 ^ 3 - 3 * u0 = w) (hw1 : w ^ 2 ≠ 1) :
    u0 ≠ u1 := by
  intro h
  apply hw1
  have hu2 : u2 = -2 * u0 := by linear_combination e1 + h
  rw [← h, hu2] at e2
  have hq : u0 ^ 2 = 1 / 4 := by linear_combination (-1 / 3 : K) * e2
  rw [← hw]
  have : (4 * u0 ^ 3 - 3 * u0) ^ 2 = u0 ^ 2 * (4 * u0 ^ 2 - 3) ^ 2 := by ring
  rw [this, hq]; norm_num

/-- non-vacuity: a rational triple of "cosines `2π/3` apart": `(−13/14, 1/7, 11/14)`, `w = −143/343` -/
example : (-13/14:ℚ) + 1/7 + 11/14 = 0 ∧ (-13/14:ℚ) * (1/7) + (-13/14) * (11/14) + (1/7) * (11/14) = -3/4
    ∧ 4 * (-13/14:ℚ) ^ 3 - 3 * (-13/14) = -143/343 ∧ (-143/343:ℚ) ^ 2 ≠ 1 := by norm_num

end Lyon.CubicRoots
