/-
  C16 with the concrete flatteners — orientation-reversing similarities, iterator side:
  lyon_geom's `Flattened` iterators of the mirrored curve at `s·tol` yield the transformed points
  of the iterators of the original at `tol`, pull for pull, when the flattener's sign test is
  symmetric for the quadratics involved.  The parameter RECORD of the mirrored quadratic is the
  negated one (`flatParams_simneg`), so the iterators are related, not equal: `QTRel` / `QRel` /
  `CRel` (same count, same `t_at_iteration`, same counters).
-/
import LyonVerif.Lemmas.AdaptersConcreteSimNeg
import LyonVerif.Lemmas.AdaptersConcreteSimIter

set_option linter.unusedSectionVars false
set_option linter.unusedVariables false

namespace Lyon.Adapt
open Lyon Lyon.Path Scalar Lyon.Flat

section field
variable {K : Type} [Field K] [LinearOrder K] [IsStrictOrderedRing K] [Transc K] [FlatConst K]

/-- two parameter records the iterators cannot tell apart -/
def PRel (p' p : FlatParams K) : Prop := p'.count = p.count ∧ ∀ i, p'.tAt i = p.tAt i

/-! ### the parameter iterator (`FlattenedT`) -/

def QTRel (a' a : QuadTIter K) : Prop := PRel a'.params a.params ∧ a'.i = a.i ∧ a'.done = a.done

theorem quadTIter_next_rel (a' a : QuadTIter K) (h : QTRel a' a) :
    a'.next.1 = a.next.1 ∧ QTRel a'.next.2 a.next.2 := by
  obtain ⟨⟨hc, ht⟩, hi, hd⟩ := h
  have hat : a'.atEnd = a.atEnd := by simp only [QuadTIter.atEnd, hc, hi]
  unfold QuadTIter.next
  rw [hd, hat]
  by_cases h1 : a.done = true
  · rw [if_pos h1, if_pos h1]; exact ⟨rfl, ⟨hc, ht⟩, hi, hd⟩
  · rw [if_neg h1, if_neg h1]
    by_cases h2 : a.atEnd = true
    · rw [if_pos h2, if_pos h2]; exact ⟨rfl, ⟨hc, ht⟩, hi, rfl⟩
    · rw [if_neg h2, if_neg h2]
      exact ⟨by simp only [ht, hi], ⟨hc, ht⟩, by simp only [hi], rfl⟩

/-! ### the quadratic point iterator -/

def QRel (m : Xf K) (a' a : QuadIter K) : Prop :=
  a'.curve = a.curve.transformed m ∧ PRel a'.params a.params ∧ a'.i = a.i ∧ a'.done = a.done

theorem quadIter_next_rel (m : Xf K) (a' a : QuadIter K) (h : QRel m a' a) :
    a'.next.1 = a.next.1.map m.apply ∧ QRel m a'.next.2 a.next.2 := by
  obtain ⟨hcv, ⟨hc, ht⟩, hi, hd⟩ := h
  have hat : a'.atEnd = a.atEnd := by simp only [QuadIter.atEnd, hc, hi]
  unfold QuadIter.next
  rw [hd, hat]
  by_cases h1 : a.done = true
  · rw [if_pos h1, if_pos h1]; exact ⟨rfl, hcv, ⟨hc, ht⟩, hi, hd⟩
  · rw [if_neg h1, if_neg h1]
    by_cases h2 : a.atEnd = true
    · rw [if_pos h2, if_pos h2]
      exact ⟨by simp [hcv, Quad.transformed], hcv, ⟨hc, ht⟩, hi, rfl⟩
    · rw [if_neg h2, if_neg h2]
      exact ⟨by simp [hcv, ht, hi, quad_sample_xf], hcv, ⟨hc, ht⟩, by simp only [hi], rfl⟩

theorem quadIter_collectDone_rel (m : Xf K) (f : ℕ) (a' a : QuadIter K) (h : QRel m a' a) :
    a'.collectDone f = (a.collectDone f).map (List.map m.apply) := by
  induction f generalizing a' a with
  | zero => rfl
  | succ f ih =>
    obtain ⟨h1, h2⟩ := quadIter_next_rel m a' a h
    rw [QuadIter.collectDone, QuadIter.collectDone]
    cases hn : a.next with
    | mk o it =>
      cases hn' : a'.next with
      | mk o' it' =>
        rw [hn, hn'] at h1 h2
        simp only at h1 h2
        subst h1
        cases o with
        | none => rfl
        | some p =>
          simp only [Option.map_some, ih it' it h2]
          cases it.collectDone f <;> rfl

theorem quadIter_collect_rel (m : Xf K) (f : ℕ) (a' a : QuadIter K) (h : QRel m a' a) :
    a'.collect f = (a.collect f).map m.apply := by
  induction f generalizing a' a with
  | zero => rfl
  | succ f ih =>
    obtain ⟨h1, h2⟩ := quadIter_next_rel m a' a h
    rw [QuadIter.collect, QuadIter.collect]
    cases hn : a.next with
    | mk o it =>
      cases hn' : a'.next with
      | mk o' it' =>
        rw [hn, hn'] at h1 h2
        simp only at h1 h2
        subst h1
        cases o with
        | none => rfl
        | some p => simp [ih it' it h2]

theorem quadIter_new_simneg (hsq : SqrtScales K) (m : Xf K) (s : K) (h : IsSimNeg m s) (q : Quad K)
    (tol : K) (hg : ParabolaGeneric (parabolaFromOf q) (parabolaToOf q)) :
    QRel m (QuadIter.new (q.transformed m) (s * tol)) (QuadIter.new q tol) :=
  ⟨rfl, flatParams_simneg hsq m s h q tol hg, rfl, rfl⟩

/-! ### the cubic iterator -/

/-- the sign test is symmetric for every quadratic approximation of a sub-range of the cubic
(the iterator approximates `[k·step, (k+1)·step]`, accumulated in the scalar type) -/
def CubicGenericAll (c : Cubic K) : Prop :=
  ∀ t0 t1 : K, ParabolaGeneric (parabolaFromOf (c.splitRange t0 t1).toQuadratic)
    (parabolaToOf (c.splitRange t0 t1).toQuadratic)

def CRel (m : Xf K) (s : K) (a' a : CubicIter K) : Prop :=
  a'.curve = a.curve.transformed m ∧ QTRel a'.current a.current ∧ a'.remaining = a.remaining ∧
  a'.tolerance = s * a.tolerance ∧ a'.rangeStep = a.rangeStep ∧ a'.rangeStart = a.rangeStart

theorem cubicIter_next_rel (hsq : SqrtScales K) (m : Xf K) (s : K) (h : IsSimNeg m s)
    (a' a : CubicIter K) (hr : CRel m s a' a) (hg : CubicGenericAll a.curve) :
    a'.next.1 = a.next.1.map m.apply ∧ CRel m s a'.next.2 a.next.2 := by
  obtain ⟨cv', cur0', rem', tol', st', sa'⟩ := a'
  obtain ⟨cv, cur0, rem, tl, st, sa⟩ := a
  simp only [CRel] at hr
  obtain ⟨rfl, hcur, rfl, rfl, rfl, rfl⟩ := hr
  obtain ⟨hn1, hn2⟩ := quadTIter_next_rel cur0' cur0 hcur
  unfold CubicIter.next
  simp only
  cases hc : cur0.next with
  | mk o cur =>
    cases hc' : cur0'.next with
    | mk o' cur' =>
      rw [hc, hc'] at hn1 hn2
      simp only at hn1 hn2
      subst hn1
      cases o' with
      | some tInner =>
        refine ⟨?_, rfl, hn2, rfl, rfl, rfl, rfl⟩
        simp only [lastOr_xf, Option.map_some]
      | none =>
        by_cases h0 : rem' = 0
        · simp only [h0, if_true]
          exact ⟨rfl, rfl, hn2, rfl, rfl, rfl, rfl⟩
        · simp only [h0, if_false, CubicIter.advance, cubic_splitRange_xf, toQuadratic_xf]
          have hp := flatParams_simneg hsq m s h
            ((cv.splitRange (sa' + st') (sa' + st' + st')).toQuadratic) tl (hg _ _)
          have hq : QTRel
              (QuadTIter.new (((cv.splitRange (sa' + st') (sa' + st' + st')).toQuadratic).transformed m)
                (s * tl))
              (QuadTIter.new ((cv.splitRange (sa' + st') (sa' + st' + st')).toQuadratic) tl) :=
            ⟨hp, rfl, rfl⟩
          obtain ⟨g1, g2⟩ := quadTIter_next_rel _ _ hq
          refine ⟨?_, rfl, g2, rfl, rfl, rfl, rfl⟩
          simp only [g1, lastOr_xf, Option.map_some]

theorem cubicIter_next_curve (a : CubicIter K) : a.next.2.curve = a.curve := by
  unfold CubicIter.next
  cases hc : a.current.next with
  | mk o cur =>
    cases o with
    | some t => rfl
    | none =>
      by_cases h0 : a.remaining = 0
      · simp [h0]
      · simp [h0, CubicIter.advance]

theorem cubicIter_collectDone_rel (hsq : SqrtScales K) (m : Xf K) (s : K) (h : IsSimNeg m s)
    (f : ℕ) (a' a : CubicIter K) (hr : CRel m s a' a) (hg : CubicGenericAll a.curve) :
    a'.collectDone f = (a.collectDone f).map (List.map m.apply) := by
  induction f generalizing a' a with
  | zero => rfl
  | succ f ih =>
    obtain ⟨h1, h2⟩ := cubicIter_next_rel hsq m s h a' a hr hg
    have hcv := cubicIter_next_curve a
    rw [CubicIter.collectDone, CubicIter.collectDone]
    cases hn : a.next with
    | mk o it =>
      cases hn' : a'.next with
      | mk o' it' =>
        rw [hn, hn'] at h1 h2
        rw [hn] at hcv
        simp only at h1 h2 hcv
        subst h1
        cases o with
        | none => rfl
        | some p =>
          simp only [Option.map_some, ih it' it h2 (hcv ▸ hg)]
          cases it.collectDone f <;> rfl

theorem cubicIter_collect_rel (hsq : SqrtScales K) (m : Xf K) (s : K) (h : IsSimNeg m s)
    (f : ℕ) (a' a : CubicIter K) (hr : CRel m s a' a) (hg : CubicGenericAll a.curve) :
    a'.collect f = (a.collect f).map m.apply := by
  induction f generalizing a' a with
  | zero => rfl
  | succ f ih =>
    obtain ⟨h1, h2⟩ := cubicIter_next_rel hsq m s h a' a hr hg
    have hcv := cubicIter_next_curve a
    rw [CubicIter.collect, CubicIter.collect]
    cases hn : a.next with
    | mk o it =>
      cases hn' : a'.next with
      | mk o' it' =>
        rw [hn, hn'] at h1 h2
        rw [hn] at hcv
        simp only at h1 h2 hcv
        subst h1
        cases o with
        | none => rfl
        | some p => simp [ih it' it h2 (hcv ▸ hg)]

theorem cubicIter_new_simneg (hsq : SqrtScales K) (m : Xf K) (s : K) (h : IsSimNeg m s) (c : Cubic K)
    (tol : K) (hg : CubicGenericAll c) :
    (CubicIter.new (c.transformed m) (s * tol) = none ∧ CubicIter.new c tol = none) ∨
    ∃ a' a, CubicIter.new (c.transformed m) (s * tol) = some a' ∧ CubicIter.new c tol = some a ∧
      CRel m s a' a ∧ a.curve = c := by
  simp only [CubicIter.new, mul_assoc s tol, numQuadraticsImpl_simneg m s h, cubic_splitRange_xf,
    toQuadratic_xf]
  cases toI32 (c.numQuadraticsImpl (tol * FlatConst.value 4 1)) with
  | none => left; exact ⟨rfl, rfl⟩
  | some n =>
    right
    refine ⟨_, _, rfl, rfl, ⟨rfl, ⟨flatParams_simneg hsq m s h _ _ (hg _ _), rfl, rfl⟩, rfl, rfl, rfl, rfl⟩, rfl⟩

end field

end Lyon.Adapt
