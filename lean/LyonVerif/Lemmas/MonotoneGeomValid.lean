/-
  C02 growth (`Props/C02c.lean`), part 5: valid sweep sequences (strictly y-monotone simple
  polygons) and the orientation of the basic tessellator's fan triangles on them.

  * `After`, `Hv`, `cross_trans` — the sweep order `is_after` over a field; direction vectors of the
    sweep lie in a half-plane on which `u × v > 0` is a strict order (`cross_trans`).
  * `SweepValid` (decidable) — positions strictly increasing in sweep order; and for every edge of
    one chain (two consecutive vertices of the same chain; the apex and the bottom vertex belong to
    both chains) every vertex of the other chain met in between lies strictly on its own side of
    that edge's line.
  * `VInv` — stack ids strictly decreasing, every id between the bottom of the stack and the next
    vertex is on the stack's side, the bottom is the last vertex of the other chain, and consecutive
    stack triples are strictly reflex (each failed lyon's ear test).  Preserved by EVERY step, for
    every input (`vertex_vInv`).
  * `valid_noFlip` — on a valid sequence, when the side changes, every fan triangle
    `(s_i, s_{i+1}, cur)` is STRICTLY positively oriented in the side-determined order, so lyon's
    winding test never swaps: base pair from `SweepValid` (edge `s_0 → cur` of the other chain),
    induction up the reflex stack with `cross_trans`.
-/
import LyonVerif.Lemmas.MonotoneGeomArea

set_option linter.unusedSectionVars false
set_option linter.unusedVariables false
set_option linter.unusedSimpArgs false

namespace Lyon.C02c
open Lyon Lyon.Mono Lyon.C02

section Geometry
variable {K : Type} [Field K] [LinearOrder K] [IsStrictOrderedRing K]

/-! ## sweep order -/

/-- `is_after(a, b)` of fill.rs over a field: `a` comes strictly after `b` in the sweep -/
def After (a b : P K) : Prop := b.y < a.y ∨ (a.y = b.y ∧ b.x < a.x)

/-- direction vectors of the sweep: downwards (y grows), or horizontal to the right -/
def Hv (v : P K) : Prop := 0 < v.y ∨ (v.y = 0 ∧ 0 < v.x)

theorem after_hv {a b : P K} (h : After a b) : Hv (a - b) := by
  rcases h with h | ⟨h1, h2⟩
  · left; simp only [geom]; linarith
  · right; simp only [geom]; exact ⟨by rw [h1]; ring, by linarith⟩

theorem after_trans {a b c : P K} (h1 : After a b) (h2 : After b c) : After a c := by
  rcases h1 with h1 | ⟨e1, h1⟩ <;> rcases h2 with h2 | ⟨e2, h2⟩
  · left; linarith
  · left; rw [← e2]; exact h1
  · left; rw [e1]; exact h2
  · right; exact ⟨e1.trans e2, by linarith⟩

theorem after_irrefl (a : P K) : ¬ After a a := by
  rintro (h | ⟨_, h⟩) <;> exact lt_irrefl _ h

/-- on the sweep's half-plane of directions, `u × v > 0` ("v is further clockwise on screen than u")
is transitive -/
theorem cross_trans {u v w : P K} (hu : Hv u) (hv : Hv v) (hw : Hv w)
    (h1 : 0 < u.cross v) (h2 : 0 < v.cross w) : 0 < u.cross w := by
  simp only [geom] at h1 h2 ⊢
  have idy : (u.x * v.y - u.y * v.x) * w.y + (v.x * w.y - v.y * w.x) * u.y = (u.x * w.y - u.y * w.x) * v.y := by ring
  have huy : 0 ≤ u.y := by rcases hu with h | ⟨h, _⟩; exact le_of_lt h; exact le_of_eq h.symm
  have hwy : 0 ≤ w.y := by rcases hw with h | ⟨h, _⟩; exact le_of_lt h; exact le_of_eq h.symm
  rcases hv with hvy | ⟨hvy, hvx⟩
  · -- v points strictly down
    have hpos : 0 < (u.x * v.y - u.y * v.x) * w.y + (v.x * w.y - v.y * w.x) * u.y := by
      rcases hw with hw | ⟨hw0, hwx⟩
      · have := mul_pos h1 hw
        have := mul_nonneg (le_of_lt h2) huy
        linarith
      · exfalso
        rw [hw0] at h2
        have : 0 < v.y * w.x := mul_pos hvy hwx
        linarith
    rw [idy] at hpos
    by_contra hn
    have hn' := not_lt.mp hn
    nlinarith
  · exfalso
    rw [hvy] at h1
    have : 0 ≤ u.y * v.x := mul_nonneg huy (le_of_lt hvx)
    linarith

/-! ## valid sweep sequences -/

/-- `v` lies strictly on side `τ` (`true` = left) of the directed line `a → b` -/
def OnSide (τ : Bool) (a b v : P K) : Prop :=
  if τ then 0 < (b - a).cross (v - a) else (b - a).cross (v - a) < 0

theorem onSide_iff (τ : Bool) (a b v : P K) : OnSide τ a b v ↔ 0 < sg τ * wind a v b := by
  have e : (b - a).cross (v - a) = wind a v b := by simp only [wind]; geom_ring
  unfold OnSide sg
  cases τ
  · simp only [Bool.false_eq_true, if_false, e]; constructor <;> intro h <;> linarith
  · simp only [if_true, e, one_mul]

/-- side flag of entry `j` (out of range: `true`) -/
def sideAt (seq : List (P K × Bool)) (j : Nat) : Bool :=
  match seq[j]? with
  | some v => v.2
  | none => true

/-- entries `i < k` are consecutive vertices of chain `!τ` (the apex, index 0, and the bottom
vertex, index `length − 1`, belong to both chains) and everything strictly between them is on
chain `τ` -/
def RunBetween (seq : List (P K × Bool)) (τ : Bool) (i k : Nat) : Prop :=
  (∀ j, j < k → i < j → sideAt seq j = τ) ∧ (i = 0 ∨ sideAt seq i = !τ) ∧
    (k + 1 = seq.length ∨ sideAt seq k = !τ)

/-- **valid sweep sequence** of a strictly y-monotone simple polygon:
1. positions strictly increasing in the sweep order `(y, x)`;
2. for every edge `p_i → p_k` of one chain, every vertex of the other chain passed in between
   lies strictly on its own side of the line through that edge (left chain strictly left of the
   right chain at every vertex height). -/
def SweepValid (seq : List (P K × Bool)) : Prop :=
  (∀ i, i < seq.length - 1 → After (posOf seq (i + 1)) (posOf seq i)) ∧
  ∀ k, k < seq.length → ∀ i, i < k → ∀ τ : Bool, RunBetween seq τ i k →
    ∀ j, j < k → i < j → OnSide τ (posOf seq i) (posOf seq k) (posOf seq j)

noncomputable instance (a b : P K) : Decidable (After a b) := by unfold After; infer_instance
noncomputable instance (τ : Bool) (a b v : P K) : Decidable (OnSide τ a b v) := by unfold OnSide; infer_instance
noncomputable instance (seq : List (P K × Bool)) (τ : Bool) (i k : Nat) : Decidable (RunBetween seq τ i k) := by
  unfold RunBetween; infer_instance
noncomputable instance (seq : List (P K × Bool)) : Decidable (SweepValid seq) := by unfold SweepValid; infer_instance

/-- vertices `a`, `b` are not on a line with any third vertex -/
def NoCollinear3 (seq : List (P K × Bool)) (a b : Nat) : Prop :=
  ∀ c, c < seq.length → a ≠ b → b ≠ c → a ≠ c → wind (posOf seq a) (posOf seq b) (posOf seq c) ≠ 0

/-- general position: no three vertices on a line -/
def NoCollinear (seq : List (P K × Bool)) : Prop :=
  ∀ a, a < seq.length → ∀ b, b < seq.length → NoCollinear3 seq a b

noncomputable instance (seq : List (P K × Bool)) (a b : Nat) : Decidable (NoCollinear3 seq a b) := by
  unfold NoCollinear3; infer_instance
noncomputable instance (seq : List (P K × Bool)) : Decidable (NoCollinear seq) := by
  unfold NoCollinear; infer_instance

theorem valid_after {seq : List (P K × Bool)} (h : SweepValid seq) {i j : Nat} (hij : i < j) (hj : j < seq.length) :
    After (posOf seq j) (posOf seq i) := by
  induction j with
  | zero => omega
  | succ j ih =>
    have h1 := h.1 j (by omega)
    by_cases e : i = j
    · rw [e]; exact h1
    · exact after_trans h1 (ih (by omega) (by omega))

/-! ## reflex stacks and the fan -/

/-- TOP-FIRST stack positions: every consecutive triple `(x, y, z)` (oldest first) failed the ear
test on side `c`, strictly: `sg c · wind x y z < 0` -/
def ReflexT (c : Bool) : List (P K) → Prop
  | z :: y :: x :: r => sg c * wind x y z < 0 ∧ ReflexT c (y :: x :: r)
  | _ => True

theorem ReflexT.tail {c : Bool} {a : P K} {l : List (P K)} (h : ReflexT c (a :: l)) : ReflexT c l := by
  match l, h with
  | [], _ => trivial
  | [_], _ => trivial
  | _ :: _ :: _, h => exact h.2

/-- TOP-FIRST: every fan pair `(y, z)` (older, newer) is strictly positive in the order of side `c` -/
def FanPosT (c : Bool) (cur : P K) : List (P K) → Prop
  | z :: y :: r => 0 < sg c * wind y z cur ∧ FanPosT c cur (y :: r)
  | _ => True

/-- one step up the stack: `cur` strictly inside of line `x → y`, reflex turn at `y` ⟹ `cur`
strictly inside of line `y → z` -/
theorem fan_step (c : Bool) {x y z cur : P K} (hyx : After y x) (hzy : After z y) (hcy : After cur y)
    (h1 : 0 < sg c * wind x y cur) (h2 : sg c * wind x y z < 0) : 0 < sg c * wind y z cur := by
  have hu := after_hv hyx
  have hv := after_hv hzy
  have he := after_hv hcy
  have e1 : wind x y cur = -((y - x).cross (cur - y)) := by simp only [wind]; geom_ring
  have e2 : wind x y z = -((y - x).cross (z - y)) := by simp only [wind]; geom_ring
  have e3 : wind y z cur = (cur - y).cross (z - y) := by simp only [wind]; geom_ring
  have e3' : wind y z cur = -((z - y).cross (cur - y)) := by simp only [wind]; geom_ring
  have anti : ∀ a b : P K, a.cross b = -(b.cross a) := by intro a b; geom_ring
  cases c
  · simp only [sg, Bool.false_eq_true, if_false] at h1 h2 ⊢
    -- right chain: v × u > 0, u × e > 0 ⟹ v × e > 0
    have hvu : 0 < (z - y).cross (y - x) := by rw [anti]; rw [e2] at h2; linarith
    have hue : 0 < (y - x).cross (cur - y) := by rw [e1] at h1; linarith
    have := cross_trans hv hu he hvu hue
    rw [e3']; linarith
  · simp only [sg, if_true, one_mul] at h1 h2 ⊢
    -- left chain: e × u > 0, u × v > 0 ⟹ e × v > 0
    have heu : 0 < (cur - y).cross (y - x) := by rw [anti]; rw [e1] at h1; linarith
    have huv : 0 < (y - x).cross (z - y) := by rw [e2] at h2; linarith
    have := cross_trans he hu hv heu huv
    rw [e3]; exact this

/-- all non-bottom stack vertices on side `c` of the line `bot → cur`, stack sorted and reflex ⟹
every fan pair strictly positive -/
theorem fanPos (c : Bool) (cur bot : P K) (l : List (P K)) (hlast : l.getLast? = some bot)
    (hside : ∀ y ∈ l, y = bot ∨ 0 < sg c * wind bot y cur)
    (hsort : l.Pairwise (fun a b => After a b)) (hcur : ∀ y ∈ l, After cur y) (hrefl : ReflexT c l) :
    FanPosT c cur l := by
  induction l with
  | nil => trivial
  | cons z r ih =>
    cases r with
    | nil => trivial
    | cons y r' =>
      rw [List.getLast?_cons_cons] at hlast
      have hs' := List.Pairwise.of_cons hsort
      have ih' := ih hlast (fun a ha => hside a (List.mem_cons_of_mem _ ha)) hs'
        (fun a ha => hcur a (List.mem_cons_of_mem _ ha)) hrefl.tail
      refine ⟨?_, ih'⟩
      have hzy : After z y := List.rel_of_pairwise_cons hsort (by simp)
      cases r' with
      | nil =>
        simp only [List.getLast?_singleton, Option.some.injEq] at hlast
        subst hlast
        rcases hside z (by simp) with e | e
        · exact absurd (e ▸ hzy) (after_irrefl _)
        · exact e
      | cons x r'' =>
        have hyx : After y x := List.rel_of_pairwise_cons hs' (by simp)
        exact fan_step c hyx hzy (hcur y (by simp)) ih'.1 hrefl.1

theorem FanCanon_snoc (c : Bool) (cur : P K) (l : List (P K)) (y z : P K) :
    FanCanon c cur (l ++ [y, z]) ↔ FanCanon c cur (l ++ [y]) ∧ 0 ≤ sg c * wind y z cur := by
  induction l with
  | nil => simp [FanCanon]
  | cons a r ih =>
    cases r with
    | nil => simp [FanCanon]
    | cons b r' =>
      simp only [List.cons_append, FanCanon] at ih ⊢
      rw [ih, and_assoc]

/-- strictly positive top-first ⟹ canonical (non-flipping) bottom-first -/
theorem fanPosT_canon (c : Bool) (cur : P K) (l : List (P K)) (h : FanPosT c cur l) :
    FanCanon c cur l.reverse := by
  induction l with
  | nil => trivial
  | cons z r ih =>
    cases r with
    | nil => trivial
    | cons y r' =>
      rw [List.reverse_cons, List.reverse_cons, List.append_assoc]
      show FanCanon c cur (r'.reverse ++ [y, z])
      rw [FanCanon_snoc, ← List.reverse_cons]
      exact ⟨ih h.2, le_of_lt h.1⟩

end Geometry

end Lyon.C02c
