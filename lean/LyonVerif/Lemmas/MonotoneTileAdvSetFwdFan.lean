/-
  C02 growth 4 (`Props/C02g.lean`), part 14: flush-and-forward of a chain that is on the side
  OPPOSITE to the inner stack's top (`ff_fan`): the chain polygon is cut off the opposite chain of
  the fine remaining polygon, then the inner tessellator fans over its stack; the stack's own chain
  may continue with buffered vertices that come before the forwarded vertex — they lie on the
  stack's side of the diagonal `top → cur` (`turn_fan_le` + `chain_side`).  `ff_tiles`: both cases.
-/
import LyonVerif.Lemmas.MonotoneTileAdvSetPop

set_option linter.unusedSectionVars false
set_option linter.unusedVariables false
set_option linter.unusedSimpArgs false

namespace Lyon.C02f
open Lyon Lyon.Mono Lyon.C02 Lyon.C02c

section Geometry
variable {K : Type} [Field K] [LinearOrder K] [IsStrictOrderedRing K]

variable (seq : List (P K × Bool))

/-- a buffered chain followed by the not yet fed part of its side is sorted -/
theorem chain_fut_sorted (hval : SweepValid seq) {τ : Bool} {k : Nat} {s : SideEv K} (hc : SideChain seq τ k s)
    (hk : k + 1 ≤ seq.length) : SortedP (s.events.map (posOf seq) ++ fut seq τ k) := by
  have := sortedP_ids seq hval (s.events ++ futIds seq τ k) (by
      rw [List.pairwise_append]
      refine ⟨hc.inc, futIds_sorted seq τ k (by omega), ?_⟩
      intro x hx y hy
      have h1 := hc.lt x hx
      rcases (mem_futIds seq τ _ k (by omega) rfl y).mp hy with g | g <;> omega) (by
      intro j hj
      rcases List.mem_append.mp hj with g | g
      · have := hc.lt j g; omega
      · rcases (mem_futIds seq τ _ k (by omega) rfl j).mp g with g' | g' <;> omega)
  simpa [fut] using this

/-- **flush and forward, the chain is on the side opposite to the inner stack's top** -/
theorem ff_fan (hval : SweepValid seq) (hnc : NoCollinear seq) (h2 : 2 ≤ seq.length) {l : Bool} {k : Nat}
    {tess : Basic K} {a b : SideEv K} (w : W3 seq l k tess a b) (hk : k + 1 ≤ seq.length) (hk1 : 1 ≤ k)
    (hl2 : 2 ≤ a.events.length) (hord : 2 ≤ b.events.length → a.last.id < b.last.id)
    (hcn : tess.previous.left ≠ l) (a' : SideEv K) (he : a'.events = [a.last.id]) :
    ∃ nt, ((tess.pushTris (flushLevels a.events.toArray a.events.length (!l) (a.events.length + 1) 1)).vertex a.last).tris =
        tess.tris ++ flushLevels a.events.toArray a.events.length (!l) (a.events.length + 1) 1 ++ nt ∧
      Tiles0 (RgC seq tess b a k) (TriIn (posOf seq))
        (flushLevels a.events.toArray a.events.length (!l) (a.events.length + 1) 1 ++ nt)
        (RgC seq ((tess.pushTris (flushLevels a.events.toArray a.events.length (!l) (a.events.length + 1) 1)).vertex a.last)
          a' b k) := by
  have hy := w.y
  have ht := hy.tinv
  have hopp : tess.previous.left = !l := bool_ne_not hcn
  obtain ⟨rest, hst⟩ := ht.top
  have hne0 : tess.stack ≠ [] := by rw [hst]; simp
  have hb0 : tess.stack.getLast? = some (tess.stack.getLast hne0) := List.getLast?_eq_some_getLast hne0
  generalize tess.stack.getLast hne0 = bot at hb0
  have hbmem : bot ∈ tess.stack := List.mem_of_getLast? hb0
  obtain ⟨hpid, hbid⟩ := (ht.heads bot hb0).2 hcn
  have hbotpos : C02c.botPos tess = bot.pos := by simp [C02c.botPos, hb0]
  have hprevmem : tess.previous ∈ tess.stack := by rw [hst]; simp
  have hprevpos : tess.previous.pos = posOf seq (headId b) := by rw [ht.good _ hprevmem, hpid]
  have hbotp : bot.pos = posOf seq (headId a) := by rw [ht.good _ hbmem, hbid]
  obtain ⟨hm, hhl⟩ := hy.ca.last_tail seq hl2
  obtain ⟨esp, etl⟩ := hy.ca.split_last seq hl2
  have hlastpos : a.last.pos = posOf seq a.last.id := hy.ca.good
  have hlk : a.last.id < k := hy.ca.lt _ (hy.ca.last_mem seq)
  have hcurl : a.last.left = l := hy.p3.sidea
  have hle := ht.le_prev seq
  have hssort := ht.stack_sorted seq hval
  have hoab := hy.oab hl2
  have hlo := pairwise_last tess.stack bot ht.dec hb0
  -- the new inner state
  have hcl' : a.last.left ≠ tess.previous.left := by rw [hcurl]; exact fun e => hcn e.symm
  have hne : (a.last.left != tess.previous.left) = true := by
    revert hcl'; cases a.last.left <;> cases tess.previous.left <;> simp
  have hvx : (tess.pushTris (flushLevels a.events.toArray a.events.length (!l) (a.events.length + 1) 1)).vertex a.last =
      ⟨[a.last, tess.previous], a.last,
        tess.tris ++ flushLevels a.events.toArray a.events.length (!l) (a.events.length + 1) 1 ++
          fanTris a.last tess.stack.reverse⟩ := by
    simp only [Basic.vertex, Basic.pushTris, hne, if_true]
  refine ⟨fanTris a.last tess.stack.reverse, by rw [hvx], ?_⟩
  rw [hvx]
  set Fc : List (P K) := b.events.tail.map (posOf seq) ++ fut seq (!l) k with hFcdef
  set OpC : P K → Prop := ChainIn (!l) ((tess.stack.map (·.pos)).reverse ++ Fc) with hOpC
  have hebm : b.events.map (posOf seq) = tess.previous.pos :: b.events.tail.map (posOf seq) := by
    conv_lhs => rw [hy.cb.head_mem seq]
    simp [hprevpos]
  have eL : RgC seq tess b a k = fun q => ChainIn l ([] ++ bot.pos ::
      a.events.tail.dropLast.map (posOf seq) ++ a.last.pos :: fut seq l k) q ∧ OpC q := by
    funext q
    unfold RgC InPoly
    rw [hbotpos, hopp, Bool.not_not]
    conv_lhs => rw [etl]
    apply propext
    simp only [List.map_append, List.map_cons, List.map_nil, List.append_assoc, List.singleton_append,
      List.cons_append, List.nil_append, hlastpos]
    exact and_comm
  have eR : RgC seq (⟨[a.last, tess.previous], a.last,
        tess.tris ++ flushLevels a.events.toArray a.events.length (!l) (a.events.length + 1) 1 ++
          fanTris a.last tess.stack.reverse⟩ : Basic K) a' b k =
      fun q => InPoly (!l) (tess.previous.pos :: Fc) (tess.previous.pos :: a.last.pos :: fut seq l k) q := by
    funext q
    unfold RgC InPoly
    have e0 : C02c.botPos (⟨[a.last, tess.previous], a.last,
        tess.tris ++ flushLevels a.events.toArray a.events.length (!l) (a.events.length + 1) 1 ++
          fanTris a.last tess.stack.reverse⟩ : Basic K) = tess.previous.pos := by
      simp [C02c.botPos]
    rw [e0]
    apply propext
    simp only [he, List.tail_cons, List.map_nil, List.nil_append, hcurl, List.map_cons, List.reverse_cons,
      List.reverse_nil, List.append_assoc, List.singleton_append, List.cons_append, Bool.not_not]
    exact and_comm
  rw [eL, eR]
  -- step 1: the chain polygon is cut off the opposite chain
  have hg := chainGeneral_of seq hnc hy.ca (by omega)
  have hfan0 := Tiles0.ofTiles (flush_side_fan_tiles w.na hg)
  rw [chain_poly_eq seq hy.ca] at hfan0
  have eE : a.events.map (posOf seq) = bot.pos :: a.events.tail.dropLast.map (posOf seq) ++ [a.last.pos] := by
    conv_lhs => rw [esp]
    simp [hlastpos, hbotp]
  rw [eE, ← hbotp] at hfan0
  have hhk : headId a < k := by omega
  have hE : SortedP (bot.pos :: a.events.tail.dropLast.map (posOf seq) ++ [a.last.pos]) := by
    rw [← eE]
    exact sortedP_ids seq hval a.events hy.ca.inc (fun j hj => by have := hy.ca.lt j hj; omega)
  have hB : SortedP (a.last.pos :: fut seq l k) := by
    rw [hlastpos]
    exact fut_sorted seq l hval a.last.id k hlk (by omega)
  have hlh : After a.last.pos bot.pos := by
    rw [hlastpos, hbotp]; exact valid_after hval hhl (by omega)
  have hconv : ∀ v ∈ bot.pos :: a.events.tail.dropLast.map (posOf seq) ++ [a.last.pos],
      0 ≤ sg l * wind bot.pos v a.last.pos := by
    rw [← eE]
    intro v hv
    obtain ⟨j, hj, rfl⟩ := List.mem_map.mp hv
    rw [hbotp]
    exact chain_convex_mem seq w.na j hj
  have hchord := chord_of_chain seq hval hy.ca (by omega) hl2 w.ha
  -- a stack vertex above the bottom is strictly on the stack's side of the chord `bot → cur`
  have hstack : ∀ v ∈ tess.stack, bot.id < v.id → 0 < sg (!l) * wind bot.pos v.pos a.last.pos := by
    intro v hv hlt
    have hsv : sideAt seq v.id = !l := by rw [← hopp]; exact ht.sides bot hb0 v hv (by omega)
    have hw := hchord v.id (by omega) (by have := hle v hv; omega) hsv
    rw [hbotp, ht.good v hv]
    refine lt_of_le_of_ne hw (Ne.symm ?_)
    intro z
    rcases mul_eq_zero.mp z with z' | z'
    · exact sg_ne_zero _ z'
    · rw [hlastpos] at z'
      have := hle v hv
      exact hnc (headId a) (by omega) v.id (ht.lt v hv) a.last.id (by omega) (by omega) (by omega) (by omega) z'
  have hFcs : SortedP (tess.previous.pos :: Fc) := by
    have := chain_fut_sorted seq hval hy.cb hk
    rw [hebm] at this
    simpa [hFcdef] using this
  have hSlast : ((tess.stack.map (·.pos)).reverse).getLast? = some tess.previous.pos := by
    rw [hst]; simp
  have hShead : ((tess.stack.map (·.pos)).reverse).head? = some bot.pos := by
    rw [List.head?_reverse, List.getLast?_map, hb0]; rfl
  have hCP : ∀ q, InPoly l (bot.pos :: a.events.tail.dropLast.map (posOf seq) ++ [a.last.pos])
      [bot.pos, a.last.pos] q → OpC q := by
    intro q hq
    have hq' : InPoly l (a.events.map (posOf seq)) [posOf seq (headId a), a.last.pos] q := by
      rw [eE, ← hbotp]; exact hq
    obtain ⟨⟨hqb, hlq⟩, hqin⟩ : Span bot.pos a.last.pos q ∧ 0 < sg (!l) * wind bot.pos a.last.pos q := by
      rcases hq.2 with g | g
      · exact g
      · exact absurd g (chainIn_single _ _ q)
    rw [hOpC]
    rcases after_total tess.previous.pos q with g | g | g
    · -- before the stack's top: the stack chain lies on its own side of the chord
      apply chainIn_prefix
      refine chain_side (!l) hlh hqin _ bot.pos tess.previous.pos (sortedP_reverse _ hssort) hShead hSlast ?_ hqb g
      intro v hv
      rw [List.mem_reverse] at hv
      obtain ⟨x, hx, rfl⟩ := List.mem_map.mp hv
      rcases hlo x hx with e | e
      · have : x.pos = bot.pos := by rw [ht.good x hx, ht.good bot hbmem, e]
        rw [this, wind_self_mid]; simp
      · exact (hstack x hx e).le
    all_goals
      have hqp : AfterEq q tess.previous.pos := by
        first
        | exact Or.inl g.symm
        | exact Or.inr g
      have hfull := (chain_poly_full seq hval hnc h2 hy.ca hk w.ha w.na hl2 q hq').2
      have := chainIn_from_head seq hval hy.cb hk h2 hk1 (!l) q hfull (by rw [← hprevpos]; exact hqp)
      rw [hebm] at this
      rw [hst]
      simp only [List.map_cons, List.reverse_cons, List.append_assoc, List.singleton_append]
      exact (chainIn_append (!l) _ _ _ q).mpr (Or.inr (by simpa [hFcdef] using this))
  have step1 := chain_fan_tiles0 l [] (a.events.tail.dropLast.map (posOf seq)) (fut seq l k)
    bot.pos a.last.pos OpC (TriIn (posOf seq)) _ hfan0 (by simp [SortedP]) hB hE hlh hconv hCP
  refine step1.trans ?_
  -- step 2: the inner tessellator fans over its stack
  have hgoodst : ∀ v ∈ tess.previous :: rest, Good (posOf seq) v := by rw [← hst]; exact ht.good
  have hcur : Good (posOf seq) a.last := hy.ca.good
  have hcs : ∀ v ∈ tess.stack, After a.last.pos v.pos := by
    intro v hv
    rw [ht.good v hv, hlastpos]
    exact valid_after hval (by have := hle v hv; omega) (by omega)
  have hsideS : ∀ v ∈ tess.stack, v.pos = bot.pos ∨ 0 < sg (!l) * wind bot.pos v.pos a.last.pos := by
    intro v hv
    rcases hlo v hv with e | e
    · left; rw [ht.good v hv, ht.good bot hbmem, e]
    · exact Or.inr (hstack v hv e)
  have hfanP : FanPosT (!l) a.last.pos (tess.stack.map (·.pos)) := by
    apply fanPos (!l) a.last.pos bot.pos
    · rw [List.getLast?_map, hb0]; rfl
    · intro y hy'
      obtain ⟨v, hv, rfl⟩ := List.mem_map.mp hy'
      exact hsideS v hv
    · exact hssort
    · intro y hy'
      obtain ⟨v, hv, rfl⟩ := List.mem_map.mp hy'
      exact hcs v hv
    · have := ht.reflex; rw [hopp] at this; exact this
  have hcp : After a.last.pos tess.previous.pos := hcs _ hprevmem
  have hU : ∀ q, Span tess.previous.pos a.last.pos q → 0 < sg (!l) * wind tess.previous.pos a.last.pos q →
      ChainIn (!l) (tess.previous.pos :: Fc) q := by
    intro q hsp hin
    by_cases hb2 : 2 ≤ b.events.length
    · -- buffered vertices follow the stack's top: they are on its side of the diagonal
      obtain ⟨hmb, hhlb⟩ := hy.cb.last_tail seq hb2
      have hab := hord hb2
      have hblk : b.last.id < k := hy.cb.lt _ (hy.cb.last_mem seq)
      have hblpos : b.last.pos = posOf seq b.last.id := hy.cb.good
      have hchb := chord_of_chain seq hval hy.cb (by omega) hb2 w.hb
      rw [Bool.not_not] at hchb
      have hcurw : 0 ≤ sg (!(!l)) * wind tess.previous.pos a.last.pos b.last.pos := by
        rw [Bool.not_not, hprevpos, hlastpos]
        exact hchb a.last.id hoab hab (hy.ca.side _ hm)
      have hbp : After b.last.pos tess.previous.pos := by
        rw [hblpos, hprevpos]; exact valid_after hval hhlb (by omega)
      have hLs : SortedP (b.events.map (posOf seq)) :=
        sortedP_ids seq hval b.events hy.cb.inc (fun j hj => by have := hy.cb.lt j hj; omega)
      have hcv : ∀ v ∈ b.events.map (posOf seq), 0 ≤ sg (!l) * wind tess.previous.pos v a.last.pos := by
        intro v hv
        obtain ⟨j, hj, rfl⟩ := List.mem_map.mp hv
        by_cases ej : j = headId b
        · rw [ej, ← hprevpos, wind_self_mid]; simp
        · have hjh : headId b < j := by
            have hinc := hy.cb.inc
            rw [hy.cb.head_mem seq] at hinc hj
            rcases List.mem_cons.mp hj with g | g
            · exact absurd g ej
            · exact List.rel_of_pairwise_cons hinc g
          have hcm := chain_convex_mem seq w.nb j hj
          rw [← hprevpos] at hcm
          refine turn_fan_le (!l) ?_ hbp hcp hcm hcurw
          rw [hprevpos]; exact valid_after hval hjh (by have := hy.cb.lt j hj; omega)
      have hbq : After b.last.pos q := by
        refine after_trans ?_ hsp.2
        rw [hblpos, hlastpos]; exact valid_after hval hab (by omega)
      have hin' := chain_side (!l) hcp hin (b.events.map (posOf seq)) tess.previous.pos b.last.pos hLs
        (by rw [hebm]; rfl) (by rw [List.getLast?_map, hy.cb.last]; simp [hblpos]) hcv hsp.1 hbq
      rw [hebm] at hin'
      have := chainIn_prefix (!l) q _ (fut seq (!l) k) hin'
      simpa [hFcdef] using this
    · -- the stack's top is followed by the not yet fed part: one polygon edge
      have hb1 : b.events.length < 2 := by omega
      obtain ⟨hbe, hbh⟩ := hy.cb.single_head seq hb1
      obtain ⟨f, restC, eC, f1, f2, f3, f4, _, _⟩ := futIds_head seq (!l) _ k (by omega) rfl
      have hrb : RunBetween seq l tess.previous.id f := by
        refine ⟨?_, ?_, ?_⟩
        · intro j hj1 hj2
          by_cases g : j < k
          · by_contra hne'
            have hsl : sideAt seq j = !l := by revert hne'; cases sideAt seq j <;> cases l <;> simp
            have := hy.cb.complete j (by omega) g hsl
            rw [hbe, List.mem_singleton] at this
            omega
          · have := f3 j (by omega) hj1
            rwa [Bool.not_not] at this
        · rw [hpid]; exact hy.cb.hside
        · exact f4
      have hpk : tess.previous.id < k := by rw [hpid]; exact hy.cb.lt _ (by rw [hy.cb.head_mem seq]; simp)
      have hcin := hval.2 f f2 tess.previous.id (by omega) l hrb a.last.id (by omega) (by omega)
      rw [onSide_inner] at hcin
      rw [← ht.good _ hprevmem, ← hlastpos] at hcin
      have hfc : After (posOf seq f) a.last.pos := by rw [hlastpos]; exact valid_after hval (by omega) f2
      have hfp : After (posOf seq f) tess.previous.pos := after_trans hfc hcp
      have := turn_from_x (!l) hfp hcp hsp.1 hcin hin
      rw [hFcdef, hbe]
      simp only [List.tail_cons, List.map_nil, List.nil_append, fut, eC, List.map_cons]
      exact Or.inl ⟨⟨hsp.1, after_trans hfc hsp.2⟩, this⟩
  have hO : SortedP (a.last.pos :: fut seq l k) := hB
  rw [hst] at hfanP hsideS hcs hb0 hssort
  have t2 := fan_step_tiles0 (posOf seq) (!l) a.last bot tess.previous rest Fc (fut seq l k) hgoodst hcur hb0
    hssort hcs hsideS hfanP hFcs hO hU
  rw [← hst] at t2
  refine t2.rebase ?_ (fun q h => h)
  intro q hq
  rw [hOpC]
  refine ⟨?_, hq.1⟩
  have := hq.2
  rw [Bool.not_not] at this
  simpa using this

end Geometry

end Lyon.C02f
