/-
  Helper lemmas for C16d about storing helper programs (`Model/Path/AdaptersHelpers.lean` over
  the C14 storage model): attribute counts of an expansion as the storage sees them, the
  `P α` / `Pt α` conversions under a point map, and what `extend_from_paths` stores
  (`storePieces` = the storage of the whole program).  Core Lean only.
-/
import LyonVerif.Model.Path.AdaptersHelpers
import LyonVerif.Lemmas.PathStore
import LyonVerif.Lemmas.AdaptersStored

set_option linter.unusedSectionVars false

namespace Lyon.Adapt
open Lyon Lyon.Path

section Conv
variable {α : Type}

theorem attrsOk_toPt [Inhabited α] (n : Nat) (l : List (Call (P α) (List α))) :
    attrsOk n (l.map (mapCall toPt)) = attrsLen n l := by
  induction l with
  | nil => rfl
  | cons c r ih => cases c <;> simp [attrsOk, attrsLen, mapCall, ih]

theorem onPt_toPt (g : P α → P α) (p : P α) : onPt g (toPt p) = toPt (g p) := rfl

theorem xfBuilder_onPt {A : Type} (g : P α → P α) (l : List (Call (P α) A)) :
    xfBuilder (onPt g) (xfBuilder toPt l) = xfBuilder toPt (xfBuilder g l) := by
  induction l with
  | nil => rfl
  | cons c r ih =>
    simp only [xfBuilder, List.map_cons, List.cons.injEq] at ih ⊢
    exact ⟨by cases c <;> rfl, ih⟩

end Conv

section Store
variable {S : Type} [Inhabited S]

theorem attrsOk_append (n : Nat) (p q : Prog S) :
    attrsOk n (p ++ q) = (attrsOk n p && attrsOk n q) := by
  induction p with
  | nil => simp [attrsOk]
  | cons c r ih => cases c <;> simp [attrsOk, ih, Bool.and_assoc]

theorem emitVerbs_append (p q : Prog S) : emitVerbs (p ++ q) = emitVerbs p ++ emitVerbs q := by
  induction p with
  | nil => rfl
  | cons c r ih =>
    cases c with
    | end_ cl => cases cl <;> simp [emitVerbs, ih]
    | _ => simp [emitVerbs, ih]

theorem emitPts_append (f : Pt S) (fa : List S) (p q : Prog S) :
    emitPts f fa (p ++ q)
      = emitPts f fa p ++ emitPts (firstAfter f fa p).1 (firstAfter f fa p).2 q := by
  induction p generalizing f fa with
  | nil => rfl
  | cons c r ih =>
    cases c with
    | end_ cl => cases cl <;> simp [emitPts, firstAfter, ih]
    | _ => simp [emitPts, firstAfter, ih]

/-- the stale `first` / `first_attributes` do not matter to a well-nested continuation -/
theorem emitPts_append_wellNested (f f' : Pt S) (fa fa' : List S) (p q : Prog S)
    (h : WellNested q) : emitPts f fa (p ++ q) = emitPts f fa p ++ emitPts f' fa' q := by
  rw [emitPts_append, emitPts_first_irrelevant _ f' _ fa' q h]

theorem wellNested_flatten (ps : List (Prog S)) (h : ∀ p ∈ ps, WellNested p) :
    WellNested ps.flatten := by
  induction ps with
  | nil => rfl
  | cons p r ih =>
    simp only [List.flatten_cons]
    exact wellNested_append (h p (by simp)) (ih fun q hq => h q (by simp [hq]))

theorem attrsOk_flatten (n : Nat) (ps : List (Prog S)) (h : ∀ p ∈ ps, attrsOk n p = true) :
    attrsOk n ps.flatten = true := by
  induction ps with
  | nil => rfl
  | cons p r ih =>
    simp only [List.flatten_cons, attrsOk_append, Bool.and_eq_true]
    exact ⟨h p (by simp), ih fun q hq => h q (by simp [hq])⟩

/-- the path `Path::builder_with_attributes(n)` builds for a program -/
def built (n : Nat) (p : Prog S) : PathData S :=
  ⟨emitPts zeroPt (List.replicate n default) p, emitVerbs p, n⟩

/-- the points / verbs of separately built well-nested pieces, appended, are the points / verbs
their concatenation stores from any builder state -/
theorem flatMap_built_points (n : Nat) (f : Pt S) (fa : List S) (ps : List (Prog S))
    (h : ∀ p ∈ ps, WellNested p) :
    (ps.map (built n)).flatMap (·.points) = emitPts f fa ps.flatten := by
  induction ps generalizing f fa with
  | nil => rfl
  | cons p r ih =>
    have hr : WellNested r.flatten := wellNested_flatten r fun q hq => h q (by simp [hq])
    simp only [List.map_cons, List.flatMap_cons, List.flatten_cons]
    rw [emitPts_append_wellNested f zeroPt fa (List.replicate n default) p r.flatten hr,
      ih zeroPt (List.replicate n default) fun q hq => h q (by simp [hq]),
      emitPts_first_irrelevant f zeroPt fa (List.replicate n default) p (h p (by simp))]
    rfl

theorem flatMap_built_verbs (n : Nat) (ps : List (Prog S)) :
    (ps.map (built n)).flatMap (·.verbs) = emitVerbs ps.flatten := by
  induction ps with
  | nil => rfl
  | cons p r ih =>
    simp only [List.map_cons, List.flatMap_cons, List.flatten_cons, emitVerbs_append, ih]
    rfl

theorem built_numAttributes (n : Nat) (p : Prog S) : (built n p).numAttributes = n := rfl

/-- `storePieces` (direct pieces driven into the final builder, the others built on their own
and appended with `extend_from_paths`) stores the whole program: from a builder state `b`, with
the paths of `pend` pending, the result is `b`'s storage followed by what
`pend ++ pieces`, concatenated, stores from `b`. -/
theorem storePieces_emit (n : Nat) (b : BuilderWithAttributes S) (hb : b.numAttributes = n)
    (hfa : b.firstAttributes.length = n) (pend : List (Prog S))
    (pieces : List (Prog S × Bool))
    (hp : ∀ p ∈ pend, WellNested p) (hpa : ∀ p ∈ pend, attrsOk n p = true)
    (hq : ∀ p ∈ pieces, WellNested p.1) (hqa : ∀ p ∈ pieces, attrsOk n p.1 = true) :
    storePieces n b (pend.map (built n)) pieces = some
      ⟨b.builder.points ++ emitPts b.builder.first b.firstAttributes
          (pend.flatten ++ (pieces.map (·.1)).flatten),
       b.builder.verbs ++ emitVerbs (pend.flatten ++ (pieces.map (·.1)).flatten), n⟩ := by
  induction pieces generalizing b pend with
  | nil =>
    obtain ⟨⟨pts, vs, f⟩, nb, fa⟩ := b
    simp only at hb hfa
    subst hb
    simp [storePieces, extendFromPaths, built_numAttributes, BuilderWithAttributes.build,
      flatMap_built_points nb f fa pend hp, flatMap_built_verbs]
  | cons pc r ih =>
    obtain ⟨p, d⟩ := pc
    have hpw : WellNested p := hq (p, d) (by simp)
    have hpo : attrsOk n p = true := hqa (p, d) (by simp)
    have hrw : ∀ q ∈ r, WellNested q.1 := fun q hq' => hq q (by simp [hq'])
    have hro : ∀ q ∈ r, attrsOk n q.1 = true := fun q hq' => hqa q (by simp [hq'])
    cases d with
    | false =>
      have hbuild : buildWithAttributes n p = some (built n p) := buildWithAttributes_emit n p hpo
      have := ih b hb hfa (pend ++ [p])
        (by intro q hq'; simp only [List.mem_append, List.mem_singleton] at hq'
            rcases hq' with h | h
            · exact hp q h
            · exact h ▸ hpw)
        (by intro q hq'; simp only [List.mem_append, List.mem_singleton] at hq'
            rcases hq' with h | h
            · exact hpa q h
            · exact h ▸ hpo)
        hrw hro
      simp only [storePieces, hbuild, Option.bind_some]
      simpa [List.map_append, List.flatten_append, List.append_assoc] using this
    | true =>
      obtain ⟨⟨pts, vs, f⟩, nb, fa⟩ := b
      simp only at hb hfa
      subst hb
      -- after `extend_from_paths`: the storage of the pending pieces is appended
      let b1 : BuilderWithAttributes S :=
        ⟨⟨pts ++ emitPts f fa pend.flatten, vs ++ emitVerbs pend.flatten, f⟩, nb, fa⟩
      have hext : extendFromPaths ⟨⟨pts, vs, f⟩, nb, fa⟩ (pend.map (built nb)) = some b1 := by
        simp [extendFromPaths, built_numAttributes, flatMap_built_points nb f fa pend hp,
          flatMap_built_verbs, b1]
      have hrun := run_emit b1 p (by simpa [b1] using hpo) (by simpa [b1] using hfa)
      cases hr : b1.run p with
      | none => simp [hr] at hrun
      | some s =>
        rw [hr, Option.map_some, Option.some.injEq] at hrun
        have hfa2 : s.1.firstAttributes.length = nb := by
          rw [hrun]
          exact firstAfter_length nb f fa p hpo hfa
        have := ih s.1 (by rw [hrun]) hfa2 [] (by simp) (by simp) hrw hro
        simp only [storePieces, hext, Option.bind_some, hr]
        rw [show ([] : List (PathData S)) = ([] : List (Prog S)).map (built nb) from rfl, this, hrun]
        have hrest : WellNested (r.map (·.1)).flatten :=
          wellNested_flatten _ (by
            intro q hq'
            obtain ⟨x, hx, rfl⟩ := List.mem_map.1 hq'
            exact hrw x hx)
        have hpr : WellNested (p ++ (r.map (·.1)).flatten) := wellNested_append hpw hrest
        simp only [b1, List.flatten_nil, List.nil_append, List.map_cons, List.flatten_cons,
          List.append_assoc, emitVerbs_append]
        rw [emitPts_append_wellNested f f fa fa pend.flatten _ hpr,
          emitPts_append_wellNested f (firstAfter f fa p).1 fa (firstAfter f fa p).2 p _ hrest]

end Store

end Lyon.Adapt
