/-
  NO-PANIC, part 2: the state invariant and the span operations / `process_edges_above`.

  `Allowed A f`  : the failure `f` is not a panic, or it is a panic whose message is in the list `A`.
                   Every triple below has `Allowed A` as its exception postcondition, for an
                   ARBITRARY list `A` subject to explicit membership hypotheses - so that
                   instantiating `A` shows which panic sites a function can reach.
  `Core tol n D s` : every span is live (`some`) except at the indices in `D` (spans ended during the
                   current `process_edges_above`, not yet cleaned up); `s.tolerance = tol`;
                   `s.active.size = n`.
-/
import LyonVerif.Lemmas.SweepSafeScan

set_option linter.unusedSectionVars false
set_option linter.unusedVariables false
set_option linter.unusedSimpArgs false
set_option mvcgen.warning false

namespace Lyon.SweepSafe
open Lyon Lyon.Scalar Lyon.Mono Lyon.Sweep Lyon.EQ
open Std.Do

variable {α : Type} [Scalar α] [Wide α]

/-! ### the panic messages of `Model/Tess/Sweep.lean` -/
def mSpanIdx : String := "span index out of range"
def mDead : String := "dead span"
def mSpanIns : String := "span insertion index out of range"
def mEdgeIdx : String := "edge index out of range"
def mBelowIdx : String := "edge below index out of range"
def mSub : String := "subtract with overflow"
def mSplice : String := "splice range"
def mNaN : String := "partial_cmp unwrap on NaN"
def mAssert : String := "assert is_after(intersection_position, current_position)"

def Allowed (A : List String) (f : Fail) : Prop := ∀ w, f = .panic w → w ∈ A

theorem allowed_panic {A : List String} {w : String} (h : w ∈ A) : Allowed A (.panic w) := by
  intro w' e; cases e; exact h
theorem allowed_err {A : List String} (k : String) : Allowed A (.err k) := by intro w e; cases e
theorem allowed_unmodelled {A : List String} (k : String) : Allowed A (.unmodelled k) := by intro w e; cases e
theorem allowed_fuel {A : List String} : Allowed A .fuel := by intro w e; cases e

abbrev SMps (α : Type) : PostShape := .except Fail (.arg (St α) .pure)

/-- every span is live except at the indices in `D` -/
def SomeExcept (D : List Int) (spans : Array (Option (Adv α))) : Prop :=
  ∀ k (h : k < spans.size), spans[k] = none → (k : Int) ∈ D

def Core (tol : α) (n : Nat) (D : List Int) (s : St α) : Prop :=
  SomeExcept D s.spans ∧ s.tolerance = tol ∧ s.active.size = n

theorem Core.frame {tol : α} {n : Nat} {D : List Int} {s s' : St α} (h : Core tol n D s)
    (h1 : s'.spans = s.spans) (h2 : s'.tolerance = s.tolerance) (h3 : s'.active.size = s.active.size) :
    Core tol n D s' := ⟨h1 ▸ h.1, h2 ▸ h.2.1, h3 ▸ h.2.2⟩

/-- postcondition shape: `Q` on success, `Allowed A` on failure -/
abbrev safePost {β : Type} (A : List String) (Q : β → St α → Prop) : PostCond β (SMps α) :=
  post⟨fun r s => ⌜Q r s⌝, fun f _ => ⌜Allowed A f⌝⟩

variable {tol : α} {n : Nat} {A : List String}

theorem mark_safe (P : St α → Prop) (hP : ∀ s c, P s → P { s with cov := c }) (b : Nat) :
    ⦃fun s => ⌜P s⌝⦄ (mark b : SM α Unit) ⦃safePost A fun _ s => P s⦄ := by
  unfold mark
  mvcgen
  all_goals (rename_i s h t; exact hP _ _ h)

theorem mark_core (D : List Int) (b : Nat) :
    ⦃fun s => ⌜Core tol n D s⌝⦄ (mark b : SM α Unit) ⦃safePost A fun _ s => Core tol n D s⦄ :=
  mark_safe _ (fun s c h => h.frame rfl rfl rfl) b

theorem emitTris_core (D : List Int) (tris : List Mono.Tri) :
    ⦃fun s => ⌜Core tol n D s⌝⦄ (emitTris tris : SM α Unit) ⦃safePost A fun _ s => Core tol n D s⦄ := by
  unfold emitTris
  mvcgen
  all_goals (rename_i s h t; exact h.frame rfl rfl rfl)

theorem spanIdx_lt {i : Int} {m k : Nat} (h : spanIdx i m = some k) : k < m ∧ (k : Int) = i := by
  unfold spanIdx at h
  split at h
  · cases h
    rename_i h'
    exact ⟨h'.2, by omega⟩
  · cases h

theorem getD_eq {γ : Type} {a : Array (Option γ)} {k : Nat} (h : k < a.size) : a.getD k none = a[k] := by
  simp [Array.getD, h]

theorem someExcept_set {D : List Int} {spans : Array (Option (Adv α))} (h : SomeExcept D spans) (k : Nat)
    (t : Adv α) : SomeExcept D (spans.setIfInBounds k (some t)) := by
  intro j hj hn
  have hj' : j < spans.size := by simpa using hj
  rw [Array.getElem_setIfInBounds hj'] at hn
  split at hn
  · cases hn
  · exact h j hj' hn

theorem someExcept_kill {D : List Int} {spans : Array (Option (Adv α))} (h : SomeExcept D spans) (k : Nat) :
    SomeExcept ((k : Int) :: D) (spans.setIfInBounds k none) := by
  intro j hj hn
  have hj' : j < spans.size := by simpa using hj
  rw [Array.getElem_setIfInBounds hj'] at hn
  split at hn
  · rename_i e; simp [e]
  · exact List.mem_cons_of_mem _ (h j hj' hn)

/-- `spans[i].tess().vertex(..)` on a span that is live: the only failure is the index -/
theorem spanVertex_safe (hA : mSpanIdx ∈ A) (D : List Int) (i : Int) (pos : P α) (id : Nat) (l : Bool) :
    ⦃fun s => ⌜Core tol n D s ∧ i ∉ D⌝⦄ (spanVertex i pos id l : SM α Unit)
    ⦃safePost A fun _ s => Core tol n D s⦄ := by
  unfold spanVertex
  mvcgen
  · exact allowed_panic hA
  · rename_i s h k hk hd
    have hk' := spanIdx_lt hk
    exfalso
    rw [getD_eq hk'.1] at hd
    exact h.2 (hk'.2 ▸ h.1.1 k hk'.1 hd)
  · rename_i s h k hk t ht
    exact ⟨someExcept_set h.1.1 k _, h.1.2.1, h.1.2.2⟩

theorem someExcept_insert {spans : Array (Option (Adv α))} (h : SomeExcept [] spans) (k : Nat) (t : Adv α) :
    SomeExcept [] ((spans.extract 0 k).push (some t) ++ spans.extract k spans.size) := by
  intro j hj hn
  exfalso
  have hmem : (none : Option (Adv α)) ∈ (spans.extract 0 k).push (some t) ++ spans.extract k spans.size :=
    hn ▸ Array.getElem_mem hj
  simp only [Array.mem_append, Array.mem_push] at hmem
  have key : ∀ x ∈ spans, x ≠ none := by
    intro x hx e
    rcases Array.mem_iff_getElem.mp hx with ⟨j', hj', e'⟩
    have := h j' hj' (e'.trans e)
    simp at this
  rcases hmem with (hm | hm) | hm
  · exact key _ (SweepIdx.mem_of_mem_extract hm) rfl
  · cases hm
  · exact key _ (SweepIdx.mem_of_mem_extract hm) rfl

/-- `Spans::begin_span` (between clean-ups: every span is live) -/
theorem beginSpan_safe (hA : mSpanIns ∈ A) (i : Int) (pos : P α) (id : Nat) :
    ⦃fun s => ⌜Core tol n [] s⌝⦄ (beginSpan i pos id : SM α Unit)
    ⦃safePost A fun _ s => Core tol n [] s⦄ := by
  unfold beginSpan
  mvcgen
  · rename_i s h _ _
    exact ⟨someExcept_insert h.1 _ _, h.2.1, h.2.2⟩
  · exact allowed_panic hA

/-- `Spans::end_span` on a span that has not been ended yet -/
theorem endSpan_safe (hA : mSpanIdx ∈ A) (D : List Int) (i : Int) (hD : i ∉ D) (pos : P α) (id : Nat) :
    ⦃fun s => ⌜Core tol n D s⌝⦄ (endSpan i pos id : SM α Unit)
    ⦃safePost A fun _ s => Core tol n (i :: D) s⦄ := by
  unfold endSpan
  have h1 := emitTris_core (α := α) (tol := tol) (n := n) (A := A) (i :: D)
  mvcgen [h1]
  · exact allowed_panic hA
  · rename_i s h k hk hd
    have hk' := spanIdx_lt hk
    exfalso
    rw [getD_eq hk'.1] at hd
    exact hD (hk'.2 ▸ h.1 k hk'.1 hd)
  · rename_i s h k hk t ht b pooled
    have hk' := spanIdx_lt hk
    exact ⟨hk'.2 ▸ someExcept_kill h.1 k, h.2.1, h.2.2⟩

/-- `edges_to_split`: an index below the length never fails -/
theorem splitEdge_safe (D : List Int) (ei : Nat) (hei : ei < n) :
    ⦃fun s => ⌜Core tol n D s⌝⦄ (splitEdge ei : SM α Unit) ⦃safePost A fun _ s => Core tol n D s⦄ := by
  unfold splitEdge
  mvcgen
  · rename_i s h hlt _ _ _ _ _ _ _
    exact ⟨h.1, h.2.1, by simp [h.2.2]⟩
  · rename_i s h hlt
    exact absurd (h.2.2 ▸ hei) hlt

theorem someExcept_filter {D : List Int} {spans : Array (Option (Adv α))} :
    SomeExcept [] (spans.filter (·.isSome)) := by
  intro j hj hn
  have hmem : (none : Option (Adv α)) ∈ spans.filter (·.isSome) := hn ▸ Array.getElem_mem hj
  have := (Array.mem_filter.mp hmem).2
  simp at this


theorem someExcept_mono {D D' : List Int} {spans : Array (Option (Adv α))} (h : SomeExcept D spans)
    (hs : ∀ x ∈ D, x ∈ D') : SomeExcept D' spans := fun k hk hn => hs _ (h k hk hn)

theorem Core.mono {D D' : List Int} {s : St α} (h : Core tol n D s) (hs : ∀ x ∈ D, x ∈ D') : Core tol n D' s :=
  ⟨someExcept_mono h.1 hs, h.2⟩

theorem not_mem_of_pairwise {l p q : List Int} {c : Int} (h : l.Pairwise (· < ·)) (e : l = p ++ c :: q) :
    c ∉ p := by
  intro hc
  rw [e, List.pairwise_append] at h
  have := h.2.2 c hc c (by simp)
  omega

theorem pref_sub_filter {l p q : List Int} {c : Int} (h : l.Pairwise (· < ·)) (e : l = p ++ c :: q) :
    ∀ x ∈ p, x ∈ l.filter (· < c) := by
  intro x hx
  rw [List.mem_filter]
  refine ⟨by rw [e]; simp [hx], ?_⟩
  rw [e, List.pairwise_append] at h
  have := h.2.2 x hx c (by simp)
  simpa using this

theorem filter_sub_pref {l p q : List Int} {c : Int} (h : l.Pairwise (· < ·)) (e : l = p ++ c :: q) :
    ∀ x ∈ c :: l.filter (· < c), x ∈ p ++ [c] := by
  intro x hx
  rcases List.mem_cons.mp hx with hx | hx
  · simp [hx]
  · rw [List.mem_filter] at hx
    obtain ⟨hx1, hx2⟩ := hx
    have hx2 : x < c := by simpa using hx2
    rw [e] at hx1
    rcases List.mem_append.mp hx1 with h1 | h1
    · simp [h1]
    · rcases List.mem_cons.mp h1 with h2 | h2
      · omega
      · rw [e, List.pairwise_append] at h
        have := (List.pairwise_cons.mp h.2.1).1 x h2
        omega

/-- what `process_edges_above` returns -/
def aboveResult (scan : Scan) : Scan :=
  if scan.mergeEvent then { scan with aboveStart := scan.aboveStart + 1 } else scan

/-- `process_edges_above` on the result of a successful scan of the same active list: the only
panic it can reach is a span index out of range -/
theorem processEdgesAbove_safe (hA : mSpanIdx ∈ A) (s0 : St α) (scan : Scan) (hs : ScanOk s0 scan)
    (hn : s0.active.size = n) :
    ⦃fun s => ⌜Core tol n [] s⌝⦄ (processEdgesAbove scan : SM α Scan)
    ⦃safePost A fun sc s => Core tol n [] s ∧ sc = aboveResult scan⦄ := by
  unfold processEdgesAbove
  have h1 := spanVertex_safe (α := α) (tol := tol) (n := n) (A := A) hA []
  have h2 := fun (i : Int) => endSpan_safe (α := α) (tol := tol) (n := n) (A := A) hA
    (scan.spansToEnd.toList.filter (· < i)) i (by simp)
  have h3 := fun ei hei => splitEdge_safe (α := α) (tol := tol) (n := n) (A := A) [] ei hei
  mvcgen [h1, h2, h3] invariants
  · post⟨fun _ s => ⌜Core tol n [] s⌝, fun f _ => ⌜Allowed A f⌝⟩
  · post⟨fun r s => ⌜Core tol n r.1.prefix s⌝, fun f _ => ⌜Allowed A f⌝⟩
  · post⟨fun _ s => ⌜Core tol n [] s⌝, fun f _ => ⌜Allowed A f⌝⟩
  with skip
  case vc5 => exact Core.mono (by assumption) (pref_sub_filter hs.ends_inc (by assumption))
  case vc6 => exact Core.mono (by assumption) (filter_sub_pref hs.ends_inc (by assumption))
  case vc9 =>
    rename_i pref cur suff h _ _ _
    exact hn ▸ hs.split_lt cur (Array.mem_toList_iff.mp (by rw [h]; simp))
  case vc13 =>
    rename_i s h _
    exact ⟨someExcept_filter (D := []), h.2.1, h.2.2⟩
  case vc14 =>
    rename_i hm s h hlt e e'
    refine ⟨⟨h.1, h.2.1, by simp [h.2.2]⟩, ?_⟩
    simp [aboveResult, hm]
  case vc15 =>
    rename_i hm s h hlt
    exact absurd (h.2.2 ▸ hn ▸ hs.merge_lt hm) hlt
  case vc16 =>
    rename_i hm s h
    refine ⟨h, ?_⟩
    simp [aboveResult, hm]
  all_goals first | (intro _ h; exact h) | exact ⟨by assumption, by simp⟩

end Lyon.SweepSafe
