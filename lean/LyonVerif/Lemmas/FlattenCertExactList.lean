/-
  List-level lemmas of the exact flattening checker (Model/Geom/FlattenCertExact.lean):

  * `p_beq`                exact equality test of points over a field
  * `flatDevSq_le`, `flatVtxSq_le`   the maxima dominate every segment's value
  * `chainOK_spec`         what the structural test guarantees (`Chain`, strictly increasing ranges,
                           last point / parameter)
  * `chain_params_range`   in a chain of increasing ranges from `t` to `e` every range lies in `[t, e]`
  * `seg_sound`            one segment: deviation and vertex bounds ⟹ every curve point of its range is
                           within `r + eps` of the EMITTED segment
  * `rangesOK_cover`       the pieces' ranges cover `[t, 1]`
  * `far_from_sound`       the converse certificate
-/
import LyonVerif.Lemmas.FlattenCertExact
import LyonVerif.Lemmas.SlabAlg

set_option linter.unusedSectionVars false
set_option linter.unusedVariables false

namespace Lyon.FlatChk
open Lyon Scalar Lyon.Flat

variable {K : Type} [Field K] [LinearOrder K] [IsStrictOrderedRing K]

theorem p_beq (a b : P K) : ((a == b) = true) ↔ a = b := by
  show (P.beq a b = true) ↔ a = b
  simp only [P.beq, Bool.and_eq_true, sc_beq]
  constructor
  · rintro ⟨h1, h2⟩; exact P.ext' h1 h2
  · rintro rfl; exact ⟨rfl, rfl⟩

theorem flatDevSq_le (q : Quad K) (b : K) (l : List (FlatSeg K)) (h : flatDevSq q l ≤ b) :
    ∀ sg ∈ l, segDevSq q sg ≤ b := by
  induction l with
  | nil => intro sg hsg; cases hsg
  | cons x r ih =>
    simp only [flatDevSq, sc_max] at h
    intro sg hsg
    rcases List.mem_cons.mp hsg with rfl | hsg
    · exact le_trans (le_max_left _ _) h
    · exact ih (le_trans (le_max_right _ _) h) sg hsg

theorem flatVtxSq_le (q : Quad K) (b : K) (l : List (FlatSeg K)) (h : flatVtxSq q l ≤ b) :
    ∀ sg ∈ l, (sg.a - q.sample sg.t0).sqLen ≤ b ∧ (sg.b - q.sample sg.t1).sqLen ≤ b := by
  induction l with
  | nil => intro sg hsg; cases hsg
  | cons x r ih =>
    simp only [flatVtxSq, sc_max] at h
    intro sg hsg
    rcases List.mem_cons.mp hsg with rfl | hsg
    · have := le_trans (le_max_left _ _) h
      simp only [segVtxSq, sc_max] at this
      exact ⟨le_trans (le_max_left _ _) this, le_trans (le_max_right _ _) this⟩
    · exact ih (le_trans (le_max_right _ _) h) sg hsg

/-- the structural test: chained from `(p,t)`, strictly increasing ranges, ends in `(pe,te)` -/
theorem chainOK_spec (p : P K) (t : K) (pe : P K) (te : K) (l : List (FlatSeg K))
    (h : chainOK p t pe te l = true) :
    l ≠ [] ∧ Chain p t l ∧ lastPt p l = pe ∧ lastT t l = te ∧ ∀ sg ∈ l, sg.t0 < sg.t1 := by
  induction l generalizing p t with
  | nil => simp [chainOK] at h
  | cons sg r ih =>
    cases r with
    | nil =>
      simp only [chainOK, Bool.and_eq_true, decide_eq_true_eq, p_beq, sc_beq] at h
      obtain ⟨⟨⟨⟨h1, h2⟩, h3⟩, h4⟩, h5⟩ := h
      refine ⟨by simp, ⟨h1, h2, trivial⟩, h4, h5, ?_⟩
      intro s hs
      rw [List.mem_singleton] at hs
      rw [hs]; exact h3
    | cons y r2 =>
      simp only [chainOK, Bool.and_eq_true, decide_eq_true_eq, p_beq, sc_beq] at h
      obtain ⟨⟨⟨h1, h2⟩, h3⟩, h4⟩ := h
      obtain ⟨_, i2, i3, i4, i5⟩ := ih sg.b sg.t1 h4
      refine ⟨by simp, ⟨h1, h2, i2⟩, i3, i4, ?_⟩
      intro s hs
      rcases List.mem_cons.mp hs with rfl | hs
      · exact h3
      · exact i5 s hs

/-- in a chain of increasing ranges from `t` to `e` every range lies in `[t, e]` -/
theorem chain_params_range (p : P K) (t : K) (l : List (FlatSeg K)) (hc : Chain p t l)
    (hinc : ∀ sg ∈ l, sg.t0 < sg.t1) : t ≤ lastT t l ∧ ∀ sg ∈ l, t ≤ sg.t0 ∧ sg.t1 ≤ lastT t l := by
  induction l generalizing p t with
  | nil => exact ⟨le_refl _, fun sg h => by cases h⟩
  | cons x r ih =>
    obtain ⟨_, ht0, hrest⟩ := hc
    obtain ⟨i1, i2⟩ := ih x.b x.t1 hrest (fun sg h => hinc sg (List.mem_cons_of_mem _ h))
    have hx := hinc x List.mem_cons_self
    simp only [lastT]
    refine ⟨by rw [← ht0]; linarith, ?_⟩
    intro sg hsg
    rcases List.mem_cons.mp hsg with rfl | hsg
    · exact ⟨le_of_eq ht0.symm, i1⟩
    · obtain ⟨j1, j2⟩ := i2 sg hsg
      exact ⟨by rw [← ht0]; linarith, j2⟩

/-- **one segment**: if the deviation bound of its range is at most `r²` and both emitted end points
are within `eps` of the exact curve points, every curve point of the range is within `r + eps` of the
emitted segment -/
theorem seg_sound (q : Quad K) (sg : FlatSeg K) (r eps : K) (hr : 0 ≤ r) (he : 0 ≤ eps)
    (hd : segDevSq q sg ≤ r * r)
    (ha : (sg.a - q.sample sg.t0).sqLen ≤ eps * eps) (hb : (sg.b - q.sample sg.t1).sqLen ≤ eps * eps)
    (s : K) (hs0 : 0 ≤ s) (hs1 : s ≤ 1) :
    ∃ s2 : K, 0 ≤ s2 ∧ s2 ≤ 1 ∧
      (q.sample (sg.t0 + s * (sg.t1 - sg.t0)) - sg.a.lerp sg.b s2).sqLen ≤ (r + eps) * (r + eps) := by
  have hb2 : q.sample sg.t1 = q.sample (sg.t0 + (sg.t1 - sg.t0)) := by congr 1; ring
  have hpt := quad_chord_point q sg.t0 (sg.t1 - sg.t0) s
  rw [← hb2] at hpt
  have hsm : q.secondDiff.smul (-(s * (1 - s) * ((sg.t1 - sg.t0) * (sg.t1 - sg.t0))))
      = (segDD q sg).smul (-(s * (1 - s))) := by
    simp only [segDD]
    apply P.ext' <;> simp only [P.smul] <;> ring
  rw [hsm] at hpt
  obtain ⟨s2, h0, h1, h2⟩ := dev_core (q.sample sg.t0) (q.sample sg.t1) (segDD q sg) s hs0 hs1
  refine ⟨s2, h0, h1, ?_⟩
  rw [hpt]
  have hdev : (((q.sample sg.t0).lerp (q.sample sg.t1) s + (segDD q sg).smul (-(s * (1 - s))))
      - (q.sample sg.t0).lerp (q.sample sg.t1) s2).sqLen ≤ r * r := le_trans h2 hd
  have hsh := lerp_shift (q.sample sg.t0) (q.sample sg.t1) sg.a sg.b (eps * eps) s2 h0 h1 ha hb
  have e : ((q.sample sg.t0).lerp (q.sample sg.t1) s + (segDD q sg).smul (-(s * (1 - s)))) - sg.a.lerp sg.b s2
      = ((((q.sample sg.t0).lerp (q.sample sg.t1) s + (segDD q sg).smul (-(s * (1 - s))))
          - (q.sample sg.t0).lerp (q.sample sg.t1) s2))
        + ((q.sample sg.t0).lerp (q.sample sg.t1) s2 - sg.a.lerp sg.b s2) := by
    apply P.ext' <;> simp only [P.add_def, P.sub_def] <;> ring
  rw [e]
  exact sq_triangle _ _ r eps hr he hdev hsh

/-- the pieces' ranges cover `[t, 1]` -/
theorem rangesOK_cover (t : K) (ps : List (Piece K)) (h : rangesOK t ps = true) (x : K)
    (hx0 : t ≤ x) (hx1 : x ≤ 1) : ∃ pc ∈ ps, pc.t0 < pc.t1 ∧ pc.t0 ≤ x ∧ x ≤ pc.t1 := by
  induction ps generalizing t with
  | nil => simp [rangesOK] at h
  | cons pc r ih =>
    cases r with
    | nil =>
      simp only [rangesOK, Bool.and_eq_true, decide_eq_true_eq, sc_beq, sc_one] at h
      obtain ⟨⟨h1, h2⟩, h3⟩ := h
      exact ⟨pc, List.mem_cons_self, h2, by rw [h1]; exact hx0, by rw [h3]; exact hx1⟩
    | cons y r2 =>
      simp only [rangesOK, Bool.and_eq_true, decide_eq_true_eq, sc_beq] at h
      obtain ⟨⟨h1, h2⟩, h3⟩ := h
      rcases le_or_gt x pc.t1 with hle | hgt
      · exact ⟨pc, List.mem_cons_self, h2, by rw [h1]; exact hx0, hle⟩
      · obtain ⟨p2, hp2, hh⟩ := ih pc.t1 h3 (le_of_lt hgt)
        exact ⟨p2, List.mem_cons_of_mem _ hp2, hh⟩

/-- every range of the pieces lies in `[t, 1]` -/
theorem rangesOK_range (t : K) (ps : List (Piece K)) (h : rangesOK t ps = true) :
    ∀ pc ∈ ps, t ≤ pc.t0 ∧ pc.t0 < pc.t1 ∧ pc.t1 ≤ 1 := by
  induction ps generalizing t with
  | nil => simp [rangesOK] at h
  | cons pc r ih =>
    cases r with
    | nil =>
      simp only [rangesOK, Bool.and_eq_true, decide_eq_true_eq, sc_beq, sc_one] at h
      obtain ⟨⟨h1, h2⟩, h3⟩ := h
      intro p hp
      rw [List.mem_singleton] at hp
      rw [hp]
      exact ⟨le_of_eq h1.symm, h2, le_of_eq h3⟩
    | cons y r2 =>
      simp only [rangesOK, Bool.and_eq_true, decide_eq_true_eq, sc_beq] at h
      obtain ⟨⟨h1, h2⟩, h3⟩ := h
      have hr := ih pc.t1 h3
      have hy := hr y List.mem_cons_self
      intro p hp
      rcases List.mem_cons.mp hp with rfl | hp
      · exact ⟨le_of_eq h1.symm, h2, by linarith [hy.1, hy.2.1, hy.2.2]⟩
      · obtain ⟨j1, j2, j3⟩ := hr p hp
        exact ⟨by rw [← h1]; linarith, j2, j3⟩

/-- **the converse certificate**: `farFrom p r2 l` ⟹ `p` is farther than `√r2` from every point of
every segment -/
theorem far_from_sound (p : P K) (r2 : K) (l : List (FlatSeg K)) (h : farFrom p r2 l = true) :
    ∀ sg ∈ l, ∀ s : K, 0 ≤ s → s ≤ 1 → r2 < (p - sg.a.lerp sg.b s).sqLen := by
  intro sg hsg s hs0 hs1
  simp only [farFrom, List.all_eq_true, decide_eq_true_eq] at h
  have h1 := h sg hsg
  have h2 := Slab.sqDistSeg_le_at p sg.a sg.b s hs0 hs1
  have e : Slab.sqDistAt p sg.a sg.b s = (p - sg.a.lerp sg.b s).sqLen := by
    simp only [Slab.sqDistAt, geom, Nat.cast_one]; ring
  rw [e] at h2
  exact lt_of_lt_of_le h1 h2

end Lyon.FlatChk
