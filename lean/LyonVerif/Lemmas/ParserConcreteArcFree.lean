/-
  C17b, part 2 (continued): a text that contains neither `a` nor `A` makes the parser read no arc
  command — the syntactic sufficient condition for the hypothesis `hno` of `parse_is_svg_semantics`.

  Invariants of the command loop: the implicit command is never `a`/`A` (it is `M` at the start and
  afterwards `nextImplicit` of an executed command), and the remaining input is a suffix of the
  text.
-/
import LyonVerif.Lemmas.ParserConcreteSvg

set_option linter.unusedVariables false

namespace Lyon.Parser
open Lyon.Path Lyon.Svg

variable {ν : Type}

theorem bind_prop {β γ : Type} {m : PM β} {k : β → PM γ} {P : γ → Prop}
    (hk : ∀ b y c y', k b y = .ok c y' → P c) {x : Src} {c : γ} {x' : Src}
    (h : (m >>= k) x = .ok c x') : P c := by
  obtain ⟨b, y, _, h2⟩ := bind_ok h
  exact hk b y c x' h2

theorem pure_prop {γ : Type} {P : γ → Prop} {a : γ} (ha : P a) {x : Src} {c : γ} {x' : Src}
    (h : (pure a : PM γ) x = .ok c x') : P c := by
  rw [(pure_ok h).1]; exact ha

/-- "not an arc command" -/
def NotArc (c : SCmd ν) : Prop := c.isArc = false

theorem notArc_ite (b : Bool) {c1 c2 : SCmd ν} (h1 : c1.isArc = false) (h2 : c2.isArc = false) :
    NotArc (if b then c1 else c2) := by cases b <;> assumption

theorem rdL_notArc (N : Num ν) (na : Nat) (rel : Bool) {x : Src} {c : SCmd ν} {x' : Src}
    (h : rdL N na rel x = .ok c x') : NotArc c := by
  unfold rdL at h
  exact bind_prop (P := NotArc) (fun b y c y' h => pure_prop (notArc_ite _ rfl rfl) h) h

theorem rdH_notArc (N : Num ν) (na : Nat) (rel : Bool) {x : Src} {c : SCmd ν} {x' : Src}
    (h : rdH N na rel x = .ok c x') : NotArc c := by
  unfold rdH at h
  exact bind_prop (P := NotArc) (fun b y c y' h => bind_prop (P := NotArc) (fun b y c y' h =>
    pure_prop (notArc_ite _ rfl rfl) h) h) h

theorem rdV_notArc (N : Num ν) (na : Nat) (rel : Bool) {x : Src} {c : SCmd ν} {x' : Src}
    (h : rdV N na rel x = .ok c x') : NotArc c := by
  unfold rdV at h
  exact bind_prop (P := NotArc) (fun b y c y' h => bind_prop (P := NotArc) (fun b y c y' h =>
    pure_prop (notArc_ite _ rfl rfl) h) h) h

theorem rdQ_notArc (N : Num ν) (na : Nat) (rel : Bool) {x : Src} {c : SCmd ν} {x' : Src}
    (h : rdQ N na rel x = .ok c x') : NotArc c := by
  unfold rdQ at h
  exact bind_prop (P := NotArc) (fun b y c y' h => bind_prop (P := NotArc) (fun b y c y' h =>
    pure_prop (notArc_ite _ rfl rfl) h) h) h

theorem rdT_notArc (N : Num ν) (na : Nat) (rel : Bool) {x : Src} {c : SCmd ν} {x' : Src}
    (h : rdT N na rel x = .ok c x') : NotArc c := by
  unfold rdT at h
  exact bind_prop (P := NotArc) (fun b y c y' h => pure_prop (notArc_ite _ rfl rfl) h) h

theorem rdC_notArc (N : Num ν) (na : Nat) (rel : Bool) {x : Src} {c : SCmd ν} {x' : Src}
    (h : rdC N na rel x = .ok c x') : NotArc c := by
  unfold rdC at h
  exact bind_prop (P := NotArc) (fun b y c y' h => bind_prop (P := NotArc) (fun b y c y' h =>
    bind_prop (P := NotArc) (fun b y c y' h => pure_prop (notArc_ite _ rfl rfl) h) h) h) h

theorem rdS_notArc (N : Num ν) (na : Nat) (rel : Bool) {x : Src} {c : SCmd ν} {x' : Src}
    (h : rdS N na rel x = .ok c x') : NotArc c := by
  unfold rdS at h
  exact bind_prop (P := NotArc) (fun b y c y' h => bind_prop (P := NotArc) (fun b y c y' h =>
    pure_prop (notArc_ite _ rfl rfl) h) h) h

theorem rdM_notArc (N : Num ν) (na : Nat) (rel : Bool) {x : Src} {c : SCmd ν} {x' : Src}
    (h : rdM N na rel x = .ok c x') : NotArc c := by
  unfold rdM at h
  exact bind_prop (P := NotArc) (fun b y c y' h => pure_prop (notArc_ite _ rfl rfl) h) h

theorem readEdge_notArc (N : Num ν) (na : Nat) (cmd : Char) (r : PM (SCmd ν))
    (hr : readEdge N na cmd = some r) (x : Src) (c : SCmd ν) (x' : Src) (h : r x = .ok c x') :
    c.isArc = false := by
  unfold readEdge at hr
  split at hr
  · cases hr; exact rdL_notArc N na _ h
  split at hr
  · cases hr; exact rdH_notArc N na _ h
  split at hr
  · cases hr; exact rdV_notArc N na _ h
  split at hr
  · cases hr; exact rdQ_notArc N na _ h
  split at hr
  · cases hr; exact rdT_notArc N na _ h
  split at hr
  · cases hr; exact rdC_notArc N na _ h
  split at hr
  · cases hr; exact rdS_notArc N na _ h
  · cases hr

theorem cmdAt_notArc (N : Num ν) (na : Nat) (st : St ν) (x : Src) (ha : cmdOf st x ≠ 'a')
    (hA : cmdOf st x ≠ 'A') : (cmdAt N na st x).isArc = false := by
  unfold cmdAt
  split
  · rename_i c y heq
    cases hre : readEdge N na (cmdOf st x) with
    | some r =>
      have hrc : readCmd N na (cmdOf st x) = r := by unfold readCmd; rw [hre]
      rw [hrc] at heq
      exact readEdge_notArc N na _ r hre _ c y heq
    | none =>
      have hna : ¬ ((cmdOf st x == 'a' || cmdOf st x == 'A') = true) := by simp [ha, hA]
      have hrc : readCmd N na (cmdOf st x) =
          (if cmdOf st x == 'm' || cmdOf st x == 'M' then rdM N na (cmdOf st x).isLower
           else pure .close) := by
        unfold readCmd; rw [hre]; dsimp only; rw [if_neg hna]
      rw [hrc] at heq
      by_cases hm : (cmdOf st x == 'm' || cmdOf st x == 'M') = true
      · rw [if_pos hm] at heq; exact rdM_notArc N na _ heq
      · rw [if_neg hm] at heq; exact pure_prop (P := NotArc) (a := Cmd.close) (show Cmd.isArc (Cmd.close : SCmd ν) = false from rfl) heq
  · rfl

theorem loopCmds_succ2 (N : Num ν) (na : Nat) (stop : Option Char) (fuel : Nat) (st : St ν)
    (x : Src) :
    loopCmds N na stop (fuel + 1) st x =
      if x.fin then []
      else if stop == some x.cur then []
      else
        match step N na st x with
        | .cont st' x' _ => cmdAt N na st x :: loopCmds N na stop fuel st' x'.skipWs
        | .fail .. => []
        | .panic .. => [] := rfl

theorem nextImplicit_notArc (c : Char) (ha : c ≠ 'a') (hA : c ≠ 'A') :
    nextImplicit c ≠ 'a' ∧ nextImplicit c ≠ 'A' := by
  unfold nextImplicit
  split
  · decide
  split
  · decide
  split
  · decide
  split
  · decide
  · exact ⟨ha, hA⟩

theorem cur_mem {x : Src} (h : ¬ x.fin = true) : x.cur ∈ x.inp := by
  cases hx : x.inp with
  | nil => exact absurd (by simp [Src.fin, hx]) h
  | cons a r => simp [Src.cur, hx]

theorem reach_mem {x y : Src} (h : Reach x y) {c : Char} (hc : c ∉ x.inp) : c ∉ y.inp := by
  obtain ⟨n, rfl⟩ := h
  rw [advN_inp]
  exact fun hm => hc (List.mem_of_mem_drop hm)

/-- no `a`/`A` in the text ⇒ no arc command is read -/
theorem loopCmds_noArc (N : Num ν) (na : Nat) (stop : Option Char) (fuel : Nat) :
    ∀ (st : St ν) (x : Src), st.implicit ≠ 'a' → st.implicit ≠ 'A' → 'a' ∉ x.inp → 'A' ∉ x.inp →
      ∀ c ∈ loopCmds N na stop fuel st x, c.isArc = false := by
  induction fuel with
  | zero => intro st x _ _ _ _ c hc; cases hc
  | succ fuel ih =>
    intro st x hia hiA ha hA c hc
    rw [loopCmds_succ2] at hc
    by_cases hf : x.fin = true
    · simp [hf] at hc
    by_cases hstop : (stop == some x.cur) = true
    · simp [hf, hstop] at hc
    simp only [hf, hstop, if_false, Bool.false_eq_true] at hc
    have hcur := cur_mem hf
    have hca : cmdOf st x ≠ 'a' := by
      unfold cmdOf; split
      · intro h; exact ha (h ▸ hcur)
      · exact hia
    have hcA : cmdOf st x ≠ 'A' := by
      unfold cmdOf; split
      · intro h; exact hA (h ▸ hcur)
      · exact hiA
    have hk := step_keeps N na st x
    have hpos := step_pos N na st x
    cases hstep : step N na st x with
    | cont st' x' em =>
      rw [hstep] at hc hk hpos
      simp only [StepKeeps] at hk
      simp only [StepPos] at hpos
      rcases List.mem_cons.1 hc with rfl | hc
      · exact cmdAt_notArc N na st x hca hcA
      · have hn := nextImplicit_notArc _ hca hcA
        have hr := Reach.trans hpos (skipWs_reach x')
        exact ih st' x'.skipWs (hk.1 ▸ hn.1) (hk.1 ▸ hn.2) (reach_mem hr ha) (reach_mem hr hA) c hc
    | fail e ne x' em => rw [hstep] at hc; cases hc
    | panic x' em => rw [hstep] at hc; cases hc

theorem parseCmds_noArc (N : Num ν) (na : Nat) (stop : Option Char) (inp : List Char)
    (ha : 'a' ∉ inp) (hA : 'A' ∉ inp) : ∀ c ∈ parseCmds N na stop inp, c.isArc = false := by
  have hr : Reach (Src.new inp) (Src.new inp).skipWs := skipWs_reach _
  exact loopCmds_noArc N na stop _ (St.init N) _ (by simp [St.init]) (by simp [St.init])
    (reach_mem hr (by simpa [Src.new] using ha)) (reach_mem hr (by simpa [Src.new] using hA))

end Lyon.Parser
