/-
  C14: the specification of path reversal on event sequences (`reverseEvents`) and its two
  laws — the reversal of a well-formed sequence is well-formed, and reversing twice gives the
  original.  Mathlib-free.

  `reverseEvents` walks the events backwards: an `End` opens a sub-path at its last point, edges
  are flipped (control points of a cubic swapped), the `Begin` closes the sub-path with an `End`
  naming the old first point as last and the old last point as first, keeping the close flag.
  So sub-paths come out in reverse order, each traversed backwards.
-/
import LyonVerif.Model.Path.Trace

namespace Lyon.Path

variable {π : Type}
set_option linter.unusedSimpArgs false

def Event.isEdge : Event π → Bool
  | .line _ _ => true
  | .quad _ _ _ => true
  | .cubic _ _ _ _ => true
  | _ => false

/-- an edge traversed backwards -/
def flipE : Event π → Event π
  | .line a b => .line b a
  | .quad a c b => .quad b c a
  | .cubic a c d b => .cubic b d c a
  | e => e

/-- walk over the events in reverse order; state = (close flag of the sub-path being emitted,
its first point) -/
def revGo : List (Event π) → Bool → Option π → List (Event π)
  | [], _, _ => []
  | .end_ l _ cl :: r, _, _ => .begin l :: revGo r cl (some l)
  | .begin a :: r, nc, fst => .end_ a (fst.getD a) nc :: revGo r false none
  | .line a b :: r, nc, fst => .line b a :: revGo r nc fst
  | .quad a c b :: r, nc, fst => .quad b c a :: revGo r nc fst
  | .cubic a c d b :: r, nc, fst => .cubic b d c a :: revGo r nc fst

def revState : List (Event π) → Bool → Option π → Bool × Option π
  | [], nc, fst => (nc, fst)
  | .end_ l _ cl :: r, _, _ => revState r cl (some l)
  | .begin _ :: r, _, _ => revState r false none
  | .line _ _ :: r, nc, fst => revState r nc fst
  | .quad _ _ _ :: r, nc, fst => revState r nc fst
  | .cubic _ _ _ _ :: r, nc, fst => revState r nc fst

/-- the reversed path, as an event sequence -/
def reverseEvents (evs : List (Event π)) : List (Event π) := revGo evs.reverse false none

theorem revGo_append (A B : List (Event π)) (nc : Bool) (fst : Option π) :
    revGo (A ++ B) nc fst = revGo A nc fst ++ revGo B (revState A nc fst).1 (revState A nc fst).2 := by
  induction A generalizing nc fst with
  | nil => simp [revGo, revState]
  | cons e r ih => cases e <;> simp [revGo, revState, ih]

theorem revState_append (A B : List (Event π)) (nc : Bool) (fst : Option π) :
    revState (A ++ B) nc fst = revState B (revState A nc fst).1 (revState A nc fst).2 := by
  induction A generalizing nc fst with
  | nil => simp [revState]
  | cons e r ih => cases e <;> simp [revState, ih]

theorem revGo_edges (E : List (Event π)) (hE : ∀ e ∈ E, e.isEdge = true) (nc : Bool) (fst : Option π) :
    revGo E nc fst = E.map flipE ∧ revState E nc fst = (nc, fst) := by
  induction E with
  | nil => simp [revGo, revState]
  | cons e r ih =>
    have hr := ih (fun e he => hE e (by simp [he]))
    have he := hE e (by simp)
    cases e <;> simp_all [revGo, revState, flipE, Event.isEdge]

theorem flipE_flipE (e : Event π) : flipE (flipE e) = e := by cases e <;> rfl
theorem flipE_isEdge (e : Event π) : (flipE e).isEdge = e.isEdge := by cases e <;> rfl

/-- one sub-path `begin a, E, end l f cl` followed by anything: its reversal comes last -/
theorem reverseEvents_block (a l f : π) (cl : Bool) (E rest : List (Event π))
    (hE : ∀ e ∈ E, e.isEdge = true) :
    reverseEvents (.begin a :: (E ++ .end_ l f cl :: rest))
      = reverseEvents rest ++ (.begin l :: ((E.reverse.map flipE) ++ [.end_ a l cl])) := by
  have hE' : ∀ e ∈ E.reverse, e.isEdge = true := by
    intro e he; exact hE e (by simpa using he)
  have h1 : (Event.begin a :: (E ++ Event.end_ l f cl :: rest)).reverse
      = rest.reverse ++ (Event.end_ l f cl :: (E.reverse ++ [Event.begin a])) := by simp
  simp only [reverseEvents, h1, revGo_append, revGo, (revGo_edges E.reverse hE' _ _).1,
    (revGo_edges E.reverse hE' _ _).2, Option.getD_some, List.cons_append]

/-- a sequence that starts with `Begin` can be split off: `R (X ++ Y) = R Y ++ R X` -/
theorem reverseEvents_append_begin (X Y : List (Event π)) (a : π) :
    reverseEvents (X ++ .begin a :: Y) = reverseEvents (.begin a :: Y) ++ reverseEvents X := by
  have h1 : (X ++ Event.begin a :: Y).reverse = (Y.reverse ++ [Event.begin a]) ++ X.reverse := by simp
  have h2 : (Event.begin a :: Y).reverse = Y.reverse ++ [Event.begin a] := by simp
  simp only [reverseEvents, h1, h2, revGo_append (Y.reverse ++ [Event.begin a]), revState_append,
    revState]

section wf
variable [BEq π] [LawfulBEq π]

/-- edges chained from `c`, ending at `l` -/
def chain : π → List (Event π) → π → Bool
  | c, [], l => c == l
  | c, .line a b :: r, l => a == c && chain b r l
  | c, .quad a _ b :: r, l => a == c && chain b r l
  | c, .cubic a _ _ b :: r, l => a == c && chain b r l
  | _, _ :: _, _ => false

theorem chain_edges (c l : π) (E : List (Event π)) (h : chain c E l = true) :
    ∀ e ∈ E, e.isEdge = true := by
  induction E generalizing c with
  | nil => simp
  | cons e r ih =>
    cases e <;> simp_all [chain, Event.isEdge] <;> exact ih _ h.2

/-- a well-formed tail inside a sub-path: edges, the End, a well-formed rest -/
theorem wf_decompose (f c : π) (evs : List (Event π)) (h : wellFormedFrom (some (f, c)) evs = true) :
    ∃ E l cl rest, evs = E ++ .end_ l f cl :: rest ∧ chain c E l = true ∧
      wellFormedFrom none rest = true := by
  induction evs generalizing c with
  | nil => simp [wellFormedFrom] at h
  | cons e r ih =>
    cases e with
    | begin a => simp [wellFormedFrom] at h
    | line a b =>
      simp [wellFormedFrom] at h
      obtain ⟨E, l, cl, rest, h1, h2, h3⟩ := ih b h.2
      exact ⟨.line a b :: E, l, cl, rest, by simp [h1], by simp [chain, h.1, h2], h3⟩
    | quad a k b =>
      simp [wellFormedFrom] at h
      obtain ⟨E, l, cl, rest, h1, h2, h3⟩ := ih b h.2
      exact ⟨.quad a k b :: E, l, cl, rest, by simp [h1], by simp [chain, h.1, h2], h3⟩
    | cubic a k1 k2 b =>
      simp [wellFormedFrom] at h
      obtain ⟨E, l, cl, rest, h1, h2, h3⟩ := ih b h.2
      exact ⟨.cubic a k1 k2 b :: E, l, cl, rest, by simp [h1], by simp [chain, h.1, h2], h3⟩
    | end_ l f' cl =>
      simp [wellFormedFrom] at h
      obtain ⟨⟨h1, h2⟩, h3⟩ := h
      subst h1 h2
      exact ⟨[], l, cl, r, by simp, by simp [chain], h3⟩

theorem chain_snoc (c l : π) (E : List (Event π)) (e : Event π) :
    chain c (E ++ [e]) l = true ↔ ∃ m, chain c E m = true ∧ chain m [e] l = true := by
  induction E generalizing c with
  | nil => simp [chain]
  | cons x r ih => cases x <;> simp [chain, ih] <;> grind

theorem chain_flip_reverse (c l : π) (E : List (Event π)) (h : chain c E l = true) :
    chain l (E.reverse.map flipE) c = true := by
  induction E generalizing c with
  | nil => simp [chain] at h ⊢; exact h.symm
  | cons e r ih =>
    cases e with
    | begin a => simp [chain] at h
    | end_ a b cl => simp [chain] at h
    | line a b =>
      simp [chain] at h
      simp only [List.reverse_cons, List.map_append, List.map_cons, List.map_nil, chain_snoc]
      exact ⟨b, ih b h.2, by simp [flipE, chain, h.1]⟩
    | quad a k b =>
      simp [chain] at h
      simp only [List.reverse_cons, List.map_append, List.map_cons, List.map_nil, chain_snoc]
      exact ⟨b, ih b h.2, by simp [flipE, chain, h.1]⟩
    | cubic a k1 k2 b =>
      simp [chain] at h
      simp only [List.reverse_cons, List.map_append, List.map_cons, List.map_nil, chain_snoc]
      exact ⟨b, ih b h.2, by simp [flipE, chain, h.1]⟩

theorem wf_of_chain (f c l : π) (cl : Bool) (E rest : List (Event π)) (h : chain c E l = true)
    (hr : wellFormedFrom none rest = true) :
    wellFormedFrom (some (f, c)) (E ++ .end_ l f cl :: rest) = true := by
  induction E generalizing c with
  | nil => simp [chain] at h; simp [wellFormedFrom, h, hr]
  | cons e r ih => cases e <;> simp_all [chain, wellFormedFrom]

theorem wf_append (st : Option (π × π)) (X Y : List (Event π)) (hX : wellFormedFrom st X = true)
    (hY : wellFormedFrom none Y = true) : wellFormedFrom st (X ++ Y) = true := by
  induction X generalizing st with
  | nil => cases st <;> simp_all [wellFormedFrom]
  | cons e r ih =>
    cases st with
    | none => cases e <;> simp_all [wellFormedFrom]
    | some fc => obtain ⟨f, c⟩ := fc; cases e <;> simp_all [wellFormedFrom]

/-- both laws at once, by induction on the number of events -/
theorem reverse_laws (n : Nat) : ∀ evs : List (Event π), evs.length ≤ n → WellFormed evs →
    WellFormed (reverseEvents evs) ∧ reverseEvents (reverseEvents evs) = evs := by
  induction n with
  | zero =>
    intro evs hlen _
    have : evs = [] := List.eq_nil_of_length_eq_zero (by omega)
    subst this
    simp [reverseEvents, revGo, WellFormed, wellFormedFrom]
  | succ n ih =>
    intro evs hlen hwf
    cases evs with
    | nil => simp [reverseEvents, revGo, WellFormed, wellFormedFrom]
    | cons e r =>
      cases e with
      | begin a =>
        simp only [WellFormed, wellFormedFrom] at hwf
        obtain ⟨E, l, cl, rest, h1, h2, h3⟩ := wf_decompose a a r hwf
        subst h1
        have hE := chain_edges _ _ _ h2
        have hE' : ∀ e ∈ E.reverse.map flipE, e.isEdge = true := by
          intro e he
          simp only [List.mem_map, List.mem_reverse] at he
          obtain ⟨x, hx, rfl⟩ := he
          rw [flipE_isEdge]; exact hE x hx
        obtain ⟨ihwf, ihinv⟩ := ih rest (by simp at hlen; omega) h3
        rw [reverseEvents_block a l a cl E rest hE]
        constructor
        · apply wf_append none _ _ ihwf
          simp only [wellFormedFrom]
          have := wf_of_chain l l a cl (E.reverse.map flipE) [] (chain_flip_reverse a l E h2)
            (by simp [wellFormedFrom])
          simpa using this
        · rw [reverseEvents_append_begin, ihinv]
          have := reverseEvents_block l a l cl (E.reverse.map flipE) [] hE'
          rw [this]
          simp [reverseEvents, revGo, List.map_reverse, flipE_flipE, Function.comp_def]
      | _ => simp [WellFormed, wellFormedFrom] at hwf

/-- `reversed_wellformed` (specification level): the reversal of a well-formed event sequence
is well-formed. -/
theorem reverseEvents_wellFormed (evs : List (Event π)) (h : WellFormed evs) :
    WellFormed (reverseEvents evs) := (reverse_laws evs.length evs (Nat.le_refl _) h).1

/-- `reversed_involutive` (specification level): reversing twice gives the original. -/
theorem reverseEvents_involutive (evs : List (Event π)) (h : WellFormed evs) :
    reverseEvents (reverseEvents evs) = evs := (reverse_laws evs.length evs (Nat.le_refl _) h).2

end wf

end Lyon.Path
