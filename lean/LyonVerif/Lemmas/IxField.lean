/-
  Field-side helpers for C12: the canonical `Sgn` instance of an ordered field, and the pure
  algebra behind the segment intersection theorems (Cramer's rule, range test with postponed
  division).  Helper lemmas only — the property's theorems are in `Props/C12.lean`.
-/
import LyonVerif.Model.Geom.Intersect
import LyonVerif.Lemmas.Field
import Mathlib.Algebra.Order.Ring.Abs
import Mathlib.Tactic.Tauto

set_option linter.unusedSectionVars false
set_option linter.unusedVariables false

geom_all Lyon.Seg
geom_all Lyon.Line

namespace Lyon
variable {K : Type} [Field K] [LinearOrder K] [IsStrictOrderedRing K]
noncomputable instance fieldSgn : Sgn K where
  signum x := if x < 0 then -1 else 1

theorem sgn_neg {x : K} (h : x < 0) : Sgn.signum x = -1 := by simp [Sgn.signum, h]
theorem sgn_nonneg {x : K} (h : 0 ≤ x) : Sgn.signum x = 1 := by simp [Sgn.signum, not_lt.mpr h]
theorem sgn_mul_abs (x : K) : Sgn.signum x * |x| = x := by
  rcases lt_or_ge x 0 with h | h
  · rw [sgn_neg h, abs_of_neg h]; ring
  · rw [sgn_nonneg h, abs_of_nonneg h]; ring
theorem sgn_mul_self (x : K) : Sgn.signum x * x = |x| := by
  rcases lt_or_ge x 0 with h | h
  · rw [sgn_neg h, abs_of_neg h]; ring
  · rw [sgn_nonneg h, abs_of_nonneg h]; ring
theorem sgn_sq (x : K) : Sgn.signum x * Sgn.signum x = 1 := by
  rcases lt_or_ge x 0 with h | h
  · rw [sgn_neg h]; ring
  · rw [sgn_nonneg h]; ring

theorem P.beq_iff (a b : P K) : (a == b) = true ↔ a = b := by
  show (P.beq a b = true) ↔ _
  unfold P.beq
  rw [Bool.and_eq_true, sc_beq, sc_beq]
  constructor
  · rintro ⟨h1, h2⟩; exact P.ext' h1 h2
  · rintro rfl; exact ⟨rfl, rfl⟩

end Lyon

namespace Lyon.Ix
open Lyon Scalar
variable {K : Type} [Field K] [LinearOrder K] [IsStrictOrderedRing K]

theorem sharesEndpoint_iff (s o : Seg K) :
    s.sharesEndpoint o = true ↔ (s.b = o.b ∨ s.a = o.a ∨ s.a = o.b ∨ s.b = o.a) := by
  unfold Seg.sharesEndpoint
  simp only [Bool.or_eq_true, P.beq_iff]
  tauto

/-- `t/|d|` with the sign folded in is `num/d` -/
theorem signed_div (n d : K) (hd : d ≠ 0) : n * Sgn.signum d / |d| = n / d := by
  have h1 : |d| ≠ 0 := abs_ne_zero.mpr hd
  rw [div_eq_div_iff h1 hd]
  calc n * Sgn.signum d * d = n * (Sgn.signum d * d) := by ring
    _ = n * |d| := by rw [sgn_mul_self]

/-- Cramer: for a non-zero determinant the two linear equations "same point" have exactly the
solution computed by the code. -/
theorem cramer (ax ay bx by' cx cy dx dy t u : K)
    (hd : (bx - ax) * (dy - cy) - (by' - ay) * (dx - cx) ≠ 0) :
    ((1 - t) * ax + t * bx = (1 - u) * cx + u * dx ∧ (1 - t) * ay + t * by' = (1 - u) * cy + u * dy)
    ↔ (t = ((cx - ax) * (dy - cy) - (cy - ay) * (dx - cx)) / ((bx - ax) * (dy - cy) - (by' - ay) * (dx - cx))
       ∧ u = ((cx - ax) * (by' - ay) - (cy - ay) * (bx - ax)) / ((bx - ax) * (dy - cy) - (by' - ay) * (dx - cx))) := by
  set d := (bx - ax) * (dy - cy) - (by' - ay) * (dx - cx) with hdd
  constructor
  · rintro ⟨h1, h2⟩
    constructor
    · rw [eq_div_iff hd]; rw [hdd]; linear_combination (dy - cy) * h1 - (dx - cx) * h2
    · rw [eq_div_iff hd]; rw [hdd]; linear_combination (by' - ay) * h1 - (bx - ax) * h2
  · rintro ⟨h1, h2⟩
    rw [eq_div_iff hd] at h1 h2
    constructor
    · apply mul_right_cancel₀ hd
      rw [hdd] at h1 h2 ⊢
      linear_combination (bx - ax) * h1 - (dx - cx) * h2
    · apply mul_right_cancel₀ hd
      rw [hdd] at h1 h2 ⊢
      linear_combination (by' - ay) * h1 - (dy - cy) * h2

theorem sample_eq_iff (s o : Seg K) (t u : K) (hd : s.ixDet o ≠ 0) :
    s.sample t = o.sample u ↔
      (t = (o.a - s.a).cross o.toVector / s.ixDet o ∧ u = (o.a - s.a).cross s.toVector / s.ixDet o) := by
  have hd' : (s.b.x - s.a.x) * (o.b.y - o.a.y) - (s.b.y - s.a.y) * (o.b.x - o.a.x) ≠ 0 := by
    simpa only [geom] using hd
  have h := cramer s.a.x s.a.y s.b.x s.b.y o.a.x o.a.y o.b.x o.b.y t u hd'
  simp only [geom, Nat.cast_one, P.mk.injEq]
  exact h

theorem beq_zero_iff (x : K) : ((x == (Scalar.zero : K)) = true) ↔ x = 0 := by
  rw [sc_beq]; simp [Scalar.zero]

/-- the range test on the undivided numerators is the range test on the quotients -/
theorem range_iff (n d : K) (hd : 0 < d) : ¬ (n < 0 ∨ n > d) ↔ (0 ≤ n / d ∧ n / d ≤ 1) := by
  rw [not_or, not_lt, not_lt, div_le_one hd]
  constructor
  · rintro ⟨h1, h2⟩; exact ⟨div_nonneg h1 hd.le, h2⟩
  · rintro ⟨h1, h2⟩
    refine ⟨?_, h2⟩
    by_contra hn
    rw [not_le] at hn
    exact absurd h1 (not_le.mpr (div_neg_of_neg_of_pos hn hd))

end Lyon.Ix
