/-
  Field-side helpers for C12: the canonical `Sgn` instance of an ordered field, and the pure
  algebra behind the segment intersection theorems (Cramer's rule, range test with postponed
  division).  Helper lemmas only — the property's theorems are in `Props/C12.lean`.
-/
import LyonVerif.Model.Geom.Intersect
import LyonVerif.Lemmas.Field
import Mathlib.Algebra.Order.Ring.Abs
import Mathlib.Tactic.Tauto

set_option linter.unusedSectionVars false
set_option linter.unusedVariables false

geom_all Lyon.Seg
geom_all Lyon.Line

namespace Lyon
variable {K : Type} [Field K] [LinearOrder K] [IsStrictOrderedRing K]
noncomputable instance fieldSgn : Sgn K where
  signum x := if x < 0 then -1 else 1

theorem sgn_neg {x : K} (h : x < 0) : Sgn.signum x = -1 := by simp [Sgn.signum, h]
theorem sgn_nonneg {x : K} (h : 0 ≤ x) : Sgn.signum x = 1 := by simp [Sgn.signum, not_lt.mpr h]
theorem sgn_mul_abs (x : K) : Sgn.signum x * |x| = x := by
  rcases lt_or_ge x 0 with h | h
  · rw [sgn_neg h, abs_of_neg h]; ring
  · rw [sgn_nonneg h, abs_of_nonneg h]; ring
theorem sgn_mul_self (x : K) : Sgn.signum x * x = |x| := by
  rcases lt_or_ge x 0 with h | h
  · rw [sgn_neg h, abs_of_neg h]; ring
  · rw [sgn_nonneg h, abs_of_nonneg h]; ring
theorem sgn_sq (x : K) : Sgn.signum x * Sgn.signum x = 1 := by
  rcases lt_or_ge x 0 with h | h
  · rw [sgn_neg h]; ring
  · rw [sgn_nonneg h]; ring

theorem P.beq_iff (a b : P K) : (a == b) = true ↔ a = b := by
  show (P.beq a b = true) ↔ _
  unfold P.beq
  rw [Bool.and_eq_true, sc_beq, sc_beq]
  constructor
  · rintro ⟨h1, h2⟩; exact P.ext' h1 h2
  · rintro rfl; exact ⟨rfl, rfl⟩

end Lyon

namespace Lyon.Ix
open Lyon Scalar
variable {K : Type} [Field K] [LinearOrder K] [IsStrictOrderedRing K]

theorem sharesEndpoint_iff (s o : Seg K) :
    s.sharesEndpoint o = true ↔ (s.b = o.b ∨ s.a = o.a ∨ s.a = o.b ∨ s.b = o.a) := by
  unfold Seg.sharesEndpoint
  simp only [Bool.or_eq_true, P.beq_iff]
  tauto

/-- `t/|d|` with the sign folded in is `num/d` -/
theorem signed_div (n d : K) (hd : d ≠ 0) : n * Sgn.signum d / |d| = n / d := by
  have h1 : |d| ≠ 0 := abs_ne_zero.mpr hd
  rw [div_eq_div_iff h1 hd]
  calc n * Sgn.signum d * d = n * (Sgn.signum d * d) := by ring
    _ = n * |d| := by rw [sgn_mul_self]

/-- Cramer: for a non-zero determinant the two linear equations "same point" have exactly the
solution computed by the code. -/
theorem cramer (ax ay bx by' cx cy dx dy t u : K)
    (hd : (bx - ax) * (dy - cy) - (by' - ay) * (dx - cx) ≠ 0) :
    ((1 - t) * ax + t * bx = (1 - u) * cx + u * dx ∧ (1 - t) * ay + t * by' = (1 - u) * cy + u * dy)
    ↔ (t = ((cx - ax) * (dy - cy) - (cy - ay) * (dx - cx)) / ((bx - ax) * (dy - cy) - (by' - ay) * (dx - cx))
       ∧ u = ((cx - ax) * (by' - ay) - (cy - ay) * (bx - ax)) / ((bx - ax) * (dy - cy) - (by' - ay) * (dx - cx))) := by
  set d := (bx - ax) * (dy - cy) - (by' - ay) * (dx - cx) with hdd
  constructor
  · rintro ⟨h1, h2⟩
    constructor
    · rw [eq_div_iff hd]; rw [hdd]; linear_combination (dy - cy) * h1 - (dx - cx) * h2
    · rw [eq_div_iff hd]; rw [hdd]; linear_combination (by' - ay) * h1 - (bx - ax) * h2
  · rintro ⟨h1, h2⟩
    rw [eq_div_iff hd] at h1 h2
    constructor
    · apply mul_right_cancel₀ hd
      rw [hdd] at h1 h2 ⊢
      linear_combination (bx - ax) * h1 - (dx - cx) * h2
    · apply mul_right_cancel₀ hd
      rw [hdd] at h1 h2 ⊢
      linear_combination (by' - ay) * h1 - (dy - cy) * h2

theorem sample_eq_iff (s o : Seg K) (t u : K) (hd : s.ixDet o ≠ 0) :
    s.sample t = o.sample u ↔
      (t = (o.a - s.a).cross o.toVector / s.ixDet o ∧ u = (o.a - s.a).cross s.toVector / s.ixDet o) := by
  have hd' : (s.b.x - s.a.x) * (o.b.y - o.a.y) - (s.b.y - s.a.y) * (o.b.x - o.a.x) ≠ 0 := by
    simpa only [geom] using hd
  have h := cramer s.a.x s.a.y s.b.x s.b.y o.a.x o.a.y o.b.x o.b.y t u hd'
  simp only [geom, Nat.cast_one, P.mk.injEq]
  exact h

theorem beq_zero_iff (x : K) : ((x == (Scalar.zero : K)) = true) ↔ x = 0 := by
  rw [sc_beq]; simp [Scalar.zero]

/-- the range test on the undivided numerators is the range test on the quotients -/
theorem range_iff (n d : K) (hd : 0 < d) : ¬ (n < 0 ∨ n > d) ↔ (0 ≤ n / d ∧ n / d ≤ 1) := by
  rw [not_or, not_lt, not_lt, div_le_one hd]
  constructor
  · rintro ⟨h1, h2⟩; exact ⟨div_nonneg h1 hd.le, h2⟩
  · rintro ⟨h1, h2⟩
    refine ⟨?_, h2⟩
    by_contra hn
    rw [not_le] at hn
    exact absurd h1 (not_le.mpr (div_neg_of_neg_of_pos hn hd))

/-- a line through a non-corner point of the unit square, with direction `(α, β)`, `α ≠ 0`,
`β > 0`, contains another point of the square -/
theorem exists_other (t u α β : K) (hβ : 0 < β) (hα : α ≠ 0) (ht0 : 0 ≤ t) (ht1 : t ≤ 1)
    (hu0 : 0 ≤ u) (hu1 : u ≤ 1) (hnc : ¬ ((t = 0 ∨ t = 1) ∧ (u = 0 ∨ u = 1))) :
    ∃ ε : K, ε ≠ 0 ∧ 0 ≤ t + ε * α ∧ t + ε * α ≤ 1 ∧ 0 ≤ u + ε * β ∧ u + ε * β ≤ 1 := by
  have hA : 0 < |α| + β := add_pos (abs_pos.mpr hα) hβ
  have hapos : 0 < |α| := abs_pos.mpr hα
  -- x = |α|/A, y = β/A
  obtain ⟨x, y, hx0, hy0, hx1, hy1, hxA, hyA⟩ : ∃ x y : K, 0 < x ∧ 0 < y ∧ x ≤ 1 ∧ y ≤ 1
      ∧ x * (|α| + β) = |α| ∧ y * (|α| + β) = β := by
    refine ⟨|α| / (|α| + β), β / (|α| + β), div_pos hapos hA, div_pos hβ hA, ?_, ?_, div_mul_cancel₀ _ hA.ne', div_mul_cancel₀ _ hA.ne'⟩
    · rw [div_le_one hA]; linarith
    · rw [div_le_one hA]; linarith
  -- generic step: for a room ρ > 0 and a sign σ (= ±1), ε = σ ρ / A · (sign α on the t side)
  have step : ∀ (ρ σ : K), 0 < ρ → (σ = 1 ∨ σ = -1) →
      (0 ≤ t + σ * ρ * x ∧ t + σ * ρ * x ≤ 1) →
      (0 ≤ u + σ * Sgn.signum α * ρ * y ∧ u + σ * Sgn.signum α * ρ * y ≤ 1) →
      ∃ ε : K, ε ≠ 0 ∧ 0 ≤ t + ε * α ∧ t + ε * α ≤ 1 ∧ 0 ≤ u + ε * β ∧ u + ε * β ≤ 1 := by
    intro ρ σ hρ hσ htb hub
    refine ⟨σ * Sgn.signum α * ρ / (|α| + β), ?_, ?_⟩
    · have hs : Sgn.signum α ≠ 0 := by
        intro h; have := sgn_sq α; rw [h] at this; simp at this
      have hσ0 : σ ≠ 0 := by rcases hσ with h | h <;> rw [h] <;> norm_num
      exact div_ne_zero (mul_ne_zero (mul_ne_zero hσ0 hs) hρ.ne') hA.ne'
    · have e1 : σ * Sgn.signum α * ρ / (|α| + β) * α = σ * ρ * x := by
        rw [div_mul_eq_mul_div, div_eq_iff hA.ne']
        have := sgn_mul_self α
        linear_combination (σ * ρ) * this - (σ * ρ) * hxA
      have e2 : σ * Sgn.signum α * ρ / (|α| + β) * β = σ * Sgn.signum α * ρ * y := by
        rw [div_mul_eq_mul_div, div_eq_iff hA.ne']
        linear_combination (-(σ * Sgn.signum α * ρ)) * hyA
      rw [e1, e2]
      exact ⟨htb.1, htb.2, hub.1, hub.2⟩
  have hsg : Sgn.signum α = 1 ∨ Sgn.signum α = -1 := by
    rcases lt_or_ge α 0 with h | h
    · right; exact sgn_neg h
    · left; exact sgn_nonneg h
  by_cases hui : 0 < u ∧ u < 1
  · -- u interior: move t inward
    obtain ⟨hu0', hu1'⟩ := hui
    have hq : 0 < u * (1 - u) := mul_pos hu0' (by linarith)
    have hqu : u * (1 - u) ≤ u := by nlinarith
    have hqu' : u * (1 - u) ≤ 1 - u := by nlinarith
    by_cases htl : t < 1
    · -- ρ = (1-t) u (1-u), σ = +1
      have hρ : 0 < (1 - t) * (u * (1 - u)) := mul_pos (by linarith) hq
      have hρt : (1 - t) * (u * (1 - u)) ≤ 1 - t := by nlinarith
      have hρu : (1 - t) * (u * (1 - u)) ≤ u * (1 - u) := by nlinarith
      have hx : 0 ≤ (1 - t) * (u * (1 - u)) * x ∧ (1 - t) * (u * (1 - u)) * x ≤ (1 - t) * (u * (1 - u)) :=
        ⟨by positivity, by nlinarith⟩
      have hy : 0 ≤ (1 - t) * (u * (1 - u)) * y ∧ (1 - t) * (u * (1 - u)) * y ≤ (1 - t) * (u * (1 - u)) :=
        ⟨by positivity, by nlinarith⟩
      apply step _ 1 hρ (Or.inl rfl)
      · constructor <;> linarith [hx.1, hx.2]
      · rcases hsg with h | h <;> rw [h] <;> constructor <;> linarith [hy.1, hy.2]
    · have ht : t = 1 := le_antisymm ht1 (not_lt.mp htl)
      have hρ : 0 < u * (1 - u) := hq
      have hx : 0 ≤ u * (1 - u) * x ∧ u * (1 - u) * x ≤ u * (1 - u) := ⟨by positivity, by nlinarith⟩
      have hy : 0 ≤ u * (1 - u) * y ∧ u * (1 - u) * y ≤ u * (1 - u) := ⟨by positivity, by nlinarith⟩
      have hq1 : u * (1 - u) ≤ 1 := by nlinarith
      apply step _ (-1) hρ (Or.inr rfl)
      · rw [ht]; constructor <;> linarith [hx.1, hx.2]
      · rcases hsg with h | h <;> rw [h] <;> constructor <;> linarith [hy.1, hy.2]
  · -- u ∈ {0,1}, so t is interior
    have hu : u = 0 ∨ u = 1 := by
      by_contra h
      exact hui ⟨lt_of_le_of_ne hu0 (fun e => h (Or.inl e.symm)), lt_of_le_of_ne hu1 (fun e => h (Or.inr e))⟩
    have hti : 0 < t ∧ t < 1 := by
      constructor
      · exact lt_of_le_of_ne ht0 (fun h => hnc ⟨Or.inl h.symm, hu⟩)
      · exact lt_of_le_of_ne ht1 (fun h => hnc ⟨Or.inr h, hu⟩)
    obtain ⟨ht0', ht1'⟩ := hti
    have hq : 0 < t * (1 - t) := mul_pos ht0' (by linarith)
    have hqt : t * (1 - t) ≤ t := by nlinarith
    have hqt' : t * (1 - t) ≤ 1 - t := by nlinarith
    have hq1 : t * (1 - t) ≤ 1 := by nlinarith
    have hx : 0 ≤ t * (1 - t) * x ∧ t * (1 - t) * x ≤ t * (1 - t) := ⟨by positivity, by nlinarith⟩
    have hy : 0 ≤ t * (1 - t) * y ∧ t * (1 - t) * y ≤ t * (1 - t) := ⟨by positivity, by nlinarith⟩
    -- need σ * sgn α = +1 if u = 0, -1 if u = 1
    rcases hu with hu | hu
    · rcases hsg with h | h
      · apply step _ 1 hq (Or.inl rfl)
        · constructor <;> linarith [hx.1, hx.2]
        · rw [h, hu]; constructor <;> linarith [hy.1, hy.2]
      · apply step _ (-1) hq (Or.inr rfl)
        · constructor <;> linarith [hx.1, hx.2]
        · rw [h, hu]; constructor <;> linarith [hy.1, hy.2]
    · rcases hsg with h | h
      · apply step _ (-1) hq (Or.inr rfl)
        · constructor <;> linarith [hx.1, hx.2]
        · rw [h, hu]; constructor <;> linarith [hy.1, hy.2]
      · apply step _ 1 hq (Or.inl rfl)
        · constructor <;> linarith [hx.1, hx.2]
        · rw [h, hu]; constructor <;> linarith [hy.1, hy.2]
end Lyon.Ix
