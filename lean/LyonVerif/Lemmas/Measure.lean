/-
  Helper lemmas for C19 (cursor search of `measure.rs`, edge-table construction).
-/
import LyonVerif.Model.Algo.Measure
import LyonVerif.Model.Algo.Walk
import LyonVerif.Lemmas.Field

set_option linter.unusedSectionVars false
set_option linter.unusedVariables false

namespace Lyon.Measure

/-! ### `partition_point`: the loop invariants hold for ANY predicate (no monotonicity needed) -/

theorem partPt_spec (pred : Nat → Bool) (first last : Nat) :
    ∀ (fuel l r : Nat), l ≤ r → r - l ≤ fuel →
      (l = first ∨ pred (l - 1) = true) → (r = last ∨ pred r = false) →
      l ≤ partPt pred fuel l r ∧ partPt pred fuel l r ≤ r ∧
      (partPt pred fuel l r = first ∨ pred (partPt pred fuel l r - 1) = true) ∧
      (partPt pred fuel l r = last ∨ pred (partPt pred fuel l r) = false) := by
  intro fuel
  induction fuel with
  | zero =>
    intro l r hlr hf hl hr
    have : l = r := by omega
    subst this
    simp only [partPt]
    exact ⟨le_refl _, le_refl _, hl, hr⟩
  | succ n ih =>
    intro l r hlr hf hl hr
    unfold partPt
    by_cases hlt : l < r
    · simp only [hlt, if_true]
      have hm1 : l ≤ (l + r) / 2 := by omega
      have hm2 : (l + r) / 2 < r := by omega
      by_cases hp : pred ((l + r) / 2) = true
      · simp only [hp, if_true]
        have := ih ((l + r) / 2 + 1) r (by omega) (by omega) (Or.inr (by simpa using hp)) hr
        exact ⟨by omega, this.2.1, this.2.2.1, this.2.2.2⟩
      · have hp' : pred ((l + r) / 2) = false := by simpa using hp
        simp only [hp', Bool.false_eq_true, if_false]
        have := ih l ((l + r) / 2) hm1 (by omega) hl (Or.inr hp')
        exact ⟨this.1, by omega, this.2.2.1, this.2.2.2⟩
    · simp only [hlt, if_false]
      have : l = r := by omega
      subst this
      exact ⟨le_refl _, le_refl _, hl, hr⟩

section
variable {K : Type} [Field K] [LinearOrder K] [IsStrictOrderedRing K]

/-! ### linear scans -/

theorem fwdLin_spec (es : List (Edge K)) (dist : K) (N : Nat) (hN : dist ≤ dAt es N) :
    ∀ (fuel c : Nat), c + fuel = N → 1 ≤ fuel → dAt es c < dist →
      c < fwdLin es dist fuel c ∧ fwdLin es dist fuel c ≤ N ∧
      dAt es (fwdLin es dist fuel c - 1) < dist ∧ dist ≤ dAt es (fwdLin es dist fuel c) := by
  intro fuel
  induction fuel with
  | zero => intro c _ h; omega
  | succ n ih =>
    intro c hc _ hlt
    unfold fwdLin
    by_cases h : dist ≤ dAt es (c + 1)
    · rw [if_pos h]
      refine ⟨by omega, by omega, ?_, h⟩
      simpa using hlt
    · rw [if_neg h]
      have hn : 1 ≤ n := by
        rcases Nat.eq_zero_or_pos n with h0 | h0
        · subst h0
          have : c + 1 = N := by omega
          rw [this] at h
          exact absurd hN h
        · exact h0
      have := ih (c + 1) (by omega) hn (lt_of_not_ge h)
      exact ⟨by omega, this.2.1, this.2.2.1, this.2.2.2⟩

theorem bwdLin_spec (es : List (Edge K)) (dist : K) :
    ∀ c : Nat, dist ≤ dAt es c →
      bwdLin es dist (c + 1) ≤ c ∧
      (bwdLin es dist (c + 1) = 0 ∨ dAt es (bwdLin es dist (c + 1) - 1) < dist) ∧
      dist ≤ dAt es (bwdLin es dist (c + 1)) := by
  intro c
  induction c with
  | zero =>
    intro h
    simp [bwdLin, h]
  | succ n ih =>
    intro h
    unfold bwdLin
    by_cases hb : (n + 1 = 0 ∨ dAt es (n + 1 - 1) < dist)
    · rw [if_pos hb]
      refine ⟨le_refl _, ?_, h⟩
      rcases hb with hb | hb
      · omega
      · exact Or.inr hb
    · rw [if_neg hb]
      have hb2 : dist ≤ dAt es n := by
        have : ¬ dAt es (n + 1 - 1) < dist := fun h' => hb (Or.inr h')
        simpa using this
      have := ih hb2
      exact ⟨by omega, this.2.1, this.2.2⟩

/-! ### the `dist == 0.0` scan (first entry of non-zero length) -/

theorem zeroScan_spec (es : List (Edge K)) :
    ∀ (fuel c : Nat), 1 ≤ c → c < es.length → es.length - c ≤ fuel → dAt es (c - 1) = 0 →
      c ≤ zeroScan es fuel c ∧ zeroScan es fuel c < es.length ∧
      dAt es (zeroScan es fuel c - 1) = 0 ∧
      (zeroScan es fuel c + 1 = es.length ∨ dAt es (zeroScan es fuel c) ≠ 0) := by
  intro fuel
  induction fuel with
  | zero => intro c _ h1 h2; omega
  | succ n ih =>
    intro c hc1 hc hf hz
    unfold zeroScan
    by_cases h : c + 1 < es.length ∧ (dAt es c == (Scalar.zero : K)) = true
    · rw [if_pos h]
      have hz' : dAt es c = 0 := by
        have := h.2
        rw [sc_beq] at this
        simpa using this
      have := ih (c + 1) (by omega) h.1 (by omega) (by simpa using hz')
      exact ⟨by omega, this.2.1, this.2.2.1, this.2.2.2⟩
    · rw [if_neg h]
      refine ⟨le_refl _, hc, hz, ?_⟩
      by_cases h1 : c + 1 < es.length
      · right
        intro h0
        apply h
        refine ⟨h1, ?_⟩
        rw [sc_beq]
        simpa using h0
      · left; omega

end

end Lyon.Measure

namespace Lyon.Path
variable {π A : Type}

theorem nestState_append (s : Bool) (a b : List (Call π A)) :
    nestState s (a ++ b) = (nestState s a).bind (fun s' => nestState s' b) := by
  induction a generalizing s with
  | nil => simp [nestState]
  | cons c r ih =>
    cases s <;> cases c <;> simp [nestState, ih]

end Lyon.Path
