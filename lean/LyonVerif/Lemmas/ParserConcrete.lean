/-
  C17b, part 1: the concrete arc handling of the parser (`Model/ParserConcrete.lean`,
  `concreteNum`) never answers `none` — the only panic site of the modelled arc conversion,
  `cast::<S, i32>(n_steps).unwrap()` in `arc_to_quadratic_beziers_with_t`, is unreachable:

      n_steps = ceil( min(|sweep|, 2π) / (π/4) )

  and `f32::min` returns the other operand when one is NaN, so `min(|sweep|, 2π)` is never NaN
  whatever `sweep` is (NaN, ±inf: zero radii, equal end points, non-finite operands all end here or
  in the `is_straight_line` branch before it).

  The scalar type is generic (`[Scalar α] [Transc α]`: `Float32` is opaque to the kernel), so the four
  IEEE facts used are stated as the hypothesis `NoNaNLaws α`; they hold for binary32/64 with the
  `Scalar.min` of `Model/Scalar.lean` (IEEE minNum).  `optNum` below is a small number type WITH a
  NaN (`none`) on which they are proved: the hypothesis is satisfiable in the presence of NaN.
-/
import LyonVerif.Model.ParserConcrete

namespace Lyon.Parser
open Lyon

/-- the IEEE facts about NaN used by `bezPanics_false` -/
structure NoNaNLaws (α : Type) [Scalar α] [Transc α] : Prop where
  /-- `2π` is a number -/
  twoPi : Transc.isNaN (Transc.pi * Scalar.two : α) = false
  /-- `x.min(c)` is a number if `c` is (`f32::min`: NaN operands are ignored) -/
  min_right : ∀ x c : α, Transc.isNaN c = false → Transc.isNaN (Scalar.min x c) = false
  /-- a number divided by the finite non-zero constant `π/4` is a number -/
  div_quarterPi : ∀ x : α, Transc.isNaN x = false → Transc.isNaN (x / ArcConv.fracPi4) = false
  /-- `ceil` of a number is a number -/
  ceil : ∀ x : α, Transc.isNaN x = false → Transc.isNaN (Transc.ceil x) = false

variable {α : Type} [Scalar α] [Transc α]

/-- `cast::<S, i32>(n_steps).unwrap()` never sees a NaN: for EVERY centre-form arc (NaN / infinite
sweep, radii, angles included) -/
theorem bezPanics_false (h : NoNaNLaws α) (arc : Arc α) : ArcConv.bezPanics arc = false := by
  unfold ArcConv.bezPanics ArcConv.nStepsQ ArcConv.effSweep
  exact h.ceil _ (h.div_quarterPi _ (h.min_right _ _ h.twoPi))

variable [ArcConv.Eps α]

/-- the concrete `Num.arc` is total: for every operand tuple it answers the list of quadratic
pieces -/
theorem concreteNum_arc (h : NoNaNLaws α) (ofLexeme : List Char → α) (pos : Nat) (a : ArcArgs α) :
    (concreteNum ofLexeme).arc pos a = some (arcQuads a) := by
  simp [concreteNum, bezPanics_false h]

theorem concreteNum_arc_ne_none (h : NoNaNLaws α) (ofLexeme : List Char → α) :
    ∀ pos a, (concreteNum ofLexeme).arc pos a ≠ none := by
  intro pos a; rw [concreteNum_arc h]; exact Option.some_ne_none _

/-! ### a number type with a NaN on which the laws hold

`Option Int`, `none` = NaN; comparisons with NaN are false; `min` is the `f32::min` of
`Model/Scalar.lean`; division by zero gives NaN.  (`pi = 4` so that `π/4` is a non-zero integer —
the type only serves to show that `NoNaNLaws` is satisfiable together with a NaN.) -/

def OI := Option Int

namespace OI
def lift2 (f : Int → Int → Int) : OI → OI → OI
  | some a, some b => some (f a b)
  | _, _ => none
def div : OI → OI → OI
  | some a, some b => if b = 0 then none else some (a / b)
  | _, _ => none
def lt : OI → OI → Prop
  | some a, some b => a < b
  | _, _ => False
def le : OI → OI → Prop
  | some a, some b => a ≤ b
  | _, _ => False
instance : ∀ a b, Decidable (lt a b)
  | some a, some b => inferInstanceAs (Decidable (a < b))
  | none, _ => isFalse (fun h => h)
  | some _, none => isFalse (fun h => h)
instance : ∀ a b, Decidable (le a b)
  | some a, some b => inferInstanceAs (Decidable (a ≤ b))
  | none, _ => isFalse (fun h => h)
  | some _, none => isFalse (fun h => h)
def isNaN : OI → Bool
  | none => true
  | some _ => false
def min (a b : OI) : OI := if lt a b then a else if lt b a then b else if isNaN a then b else a
def max (a b : OI) : OI := if lt b a then a else if lt a b then b else if isNaN a then b else a
def map (f : Int → Int) : OI → OI
  | some a => some (f a)
  | none => none
end OI

instance : Scalar OI where
  add := OI.lift2 (· + ·)
  sub := OI.lift2 (· - ·)
  mul := OI.lift2 (· * ·)
  div := OI.div
  neg := OI.map (- ·)
  lt := OI.lt
  le := OI.le
  beq := fun a b => match a, b with
    | some x, some y => x == y
    | _, _ => false
  ofNat := fun n => some n
  ofSci := fun m _ => some m
  dlt := fun a b => inferInstanceAs (Decidable (OI.lt a b))
  dle := fun a b => inferInstanceAs (Decidable (OI.le a b))
  abs := OI.map (fun a => if a < 0 then -a else a)
  min := OI.min
  max := OI.max

instance : Transc OI where
  sqrt := id
  cbrt := id
  sin := id
  cos := id
  tan := id
  acos := id
  atan2 := fun a _ => a
  pow := fun a _ => a
  log2 := id
  ln := id
  floor := id
  ceil := id
  toNat := fun a => match a with
    | some x => x.toNat
    | none => 0
  fmod := fun a _ => a
  eps := some 0
  pi := some 4
  isNaN := OI.isNaN
  isFinite := fun a => !OI.isNaN a

instance : ArcConv.Eps OI := ⟨some 0⟩

theorem OI.min_right (x c : OI) (hc : OI.isNaN c = false) : OI.isNaN (OI.min x c) = false := by
  cases c with
  | none => cases hc
  | some b =>
    cases x with
    | none => simp [OI.min, OI.lt, OI.isNaN]
    | some a =>
      unfold OI.min
      by_cases h1 : OI.lt (some a) (some b)
      · simp [h1, OI.isNaN]
      · by_cases h2 : OI.lt (some b) (some a)
        · simp [h1, h2, OI.isNaN]
        · simp [h1, h2, OI.isNaN]

/-- `NoNaNLaws` holds on a type that has a NaN -/
theorem noNaNLaws_OI : NoNaNLaws OI where
  twoPi := rfl
  min_right := OI.min_right
  div_quarterPi := by
    intro x hx
    cases x with
    | none => cases hx
    | some a => exact (rfl : OI.isNaN (OI.div (some a) (some 1)) = false)
  ceil := fun x hx => hx

/-- … and the NaN is there: a NaN sweep angle still does not reach the `unwrap` -/
example : Transc.isNaN (show OI from none) = true ∧
    ArcConv.bezPanics (⟨⟨some 0, some 0⟩, ⟨some 1, some 1⟩, some 0, none, some 0⟩ : Arc OI) = false :=
  ⟨rfl, bezPanics_false noNaNLaws_OI _⟩

end Lyon.Parser
