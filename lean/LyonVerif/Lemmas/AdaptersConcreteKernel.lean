/-
  C16 with the concrete flatteners — a KERNEL-EVALUATED multi-segment instance of the
  t-monotonicity theorems (`quad_flat_t_increasing`, `cubic_flat_t_increasing`).

  `kTransc` / `kConst`: computable non-field functions over `ℚ` that satisfy the laws those
  theorems assume (`SqrtLaws`: `sqrt x := max x 0` is non-negative and monotone; `CeilLaws`: the
  genuine rational `ceil`/`floor` and the saturating cast) — so the model's flattener can be RUN
  inside the logic on the executable rational instance of `Scalar` (`Model/RatScalar.lean`, which
  IS the field instance at `ℚ`: `ratScalar_eq_fieldScalar_c16`), and the theorems apply to what
  it returns:

  * quadratic `from (0,0) ctrl (1,1) to (2,0)`, tolerance 1/8: count 4, four callbacks;
  * cubic `from (0,0) ctrl (1,3) (3,3) to (4,0)`, tolerance 1/5: 2 quadratics, 4 + 4 callbacks.
-/
import LyonVerif.Lemmas.AdaptersConcreteTC
import LyonVerif.Model.RatScalar
import Mathlib.Data.Rat.Floor

set_option linter.unusedSectionVars false
set_option linter.unusedVariables false

namespace Lyon.Adapt
open Lyon Lyon.Path Scalar Lyon.Flat

/-- computable stand-ins over ℚ: `sqrt x = max x 0` (NOT the square root — only its order laws are
used), genuine `floor`/`ceil` (`ceil x = −⌊−x⌋`), saturating cast -/
@[instance_reducible] def kTransc : Transc ℚ :=
  { sqrt := fun x => if x ≤ 0 then 0 else x, cbrt := id, sin := id, cos := id, tan := id, acos := id,
    atan2 := fun a _ => a, pow := fun a _ => a, log2 := id, ln := id,
    floor := fun x => (x.floor : ℚ), ceil := fun x => -(((-x).floor : ℤ) : ℚ),
    toNat := fun x => x.floor.toNat, fmod := fun a _ => a, eps := 0, pi := 3,
    isNaN := fun _ => false, isFinite := fun _ => true }

@[instance_reducible] def kConst : FlatConst ℚ := ⟨1 / 10000, fun m e => (m : ℚ) / 10 ^ e, (67 / 100) ^ 4⟩

/-- the executable rational instance of `Scalar` is the field instance at `ℚ` -/
theorem ratScalar_eq_fieldScalar_c16 : (instScalarRat : Scalar ℚ) = fieldScalar := by
  unfold instScalarRat fieldScalar
  congr
  funext a
  split_ifs with h
  · exact (abs_of_neg h).symm
  · exact (abs_of_nonneg (not_lt.mp h)).symm

theorem kSqrtLaws : @SqrtLaws ℚ _ _ _ kTransc kConst :=
  @SqrtLaws.mk ℚ _ _ _ kTransc kConst
    (fun x => by show (0 : ℚ) ≤ if x ≤ 0 then 0 else x; split_ifs with h <;> linarith)
    (fun x y hx hxy => by
      show (if x ≤ 0 then (0 : ℚ) else x) ≤ if y ≤ 0 then 0 else y
      split_ifs <;> linarith)
    (by show ((39 : ℕ) : ℚ) / 10 ^ 2 < 1; norm_num)

theorem kCeilLaws : @CeilLaws ℚ _ _ _ kTransc kConst :=
  @CeilLaws.mk ℚ _ _ _ kTransc kConst
    (@CountLaws.mk ℚ _ _ _ kTransc kConst
      (fun n => by show (⌊((n : ℕ) : ℚ)⌋).toNat = n; simp)
      (fun x => ⟨-⌊-x⌋, by show -((⌊-x⌋ : ℤ) : ℚ) = _; push_cast; rfl⟩)
      (by show (0 : ℚ) ≤ 1 / 10000; norm_num) (by show (1 / 10000 : ℚ) < 1; norm_num))
    (fun x => by
      show -((⌊-x⌋ : ℤ) : ℚ) < x + 1
      have := Int.lt_floor_add_one (-x)
      linarith)

/-! ### the quadratic, run in the kernel -/

/-- `for_each_flattened_with_t` of `from (0,0) ctrl (1,1) to (2,0)` at tolerance 1/8 on the
executable instance: four callbacks, with these `t.end`s -/
theorem kQuad_ts_rat :
    (@Quad.forEachFlattenedWithT ℚ instScalarRat kTransc kConst ⟨⟨0, 0⟩, ⟨1, 1⟩, ⟨2, 0⟩⟩ (1 / 8)).map
        (fun l => l.map (·.t1))
      = some [37828146494727661061 / 132562585978910644244, 1 / 2,
          94734439484182983183 / 132562585978910644244, 1] := by
  decide +kernel

/-- the same on the field instance — the hypothesis of `quad_flat_t_increasing` -/
theorem kQuad_ts :
    (@Quad.forEachFlattenedWithT ℚ fieldScalar kTransc kConst ⟨⟨0, 0⟩, ⟨1, 1⟩, ⟨2, 0⟩⟩ (1 / 8)).map
        (fun l => l.map (·.t1))
      = some [37828146494727661061 / 132562585978910644244, 1 / 2,
          94734439484182983183 / 132562585978910644244, 1] := by
  rw [← ratScalar_eq_fieldScalar_c16]; exact kQuad_ts_rat

/-! ### the cubic -/

theorem kCubic_ts_rat :
    ((@Cubic.forEachFlattenedWithT ℚ instScalarRat kTransc kConst ⟨⟨0, 0⟩, ⟨1, 3⟩, ⟨3, 3⟩, ⟨4, 0⟩⟩
        (1 / 5)).map (fun l => l.length)) = some 8 := by
  decide +kernel

theorem kCubic_ts :
    ((@Cubic.forEachFlattenedWithT ℚ fieldScalar kTransc kConst ⟨⟨0, 0⟩, ⟨1, 3⟩, ⟨3, 3⟩, ⟨4, 0⟩⟩
        (1 / 5)).map (fun l => l.length)) = some 8 := by
  rw [← ratScalar_eq_fieldScalar_c16]; exact kCubic_ts_rat

end Lyon.Adapt
