/-
  C06b, part 4: the caps (`end_with_caps`: `tessellate_last_edge`, `tessellate_first_edge`) and the
  emission shape of the whole run `begin (pt 0), line_to (pt 1), …, line_to (pt n), end(false)`.
-/
import LyonVerif.Lemmas.StrokeCoverLoop

set_option linter.unusedSectionVars false
set_option linter.unusedVariables false

namespace Lyon.C06b
open Lyon Scalar Lyon.Stroke Lyon.Stroke.Full Lyon.C05 Lyon.C05b Lyon.C05c

section
variable {K : Type} [Field K] [LinearOrder K] [IsStrictOrderedRing K] [Transc K]

/-- a cap vertex: `position_on_path = c`, `half_width = hw`, `normal = (x - c) / hw` -/
noncomputable def capV (src : Src K) (c : P K) (hw adv : K) (side : Side) (x : P K) : VData K :=
  { baseVertex src c hw adv with side := side, normal := (x - c).sdiv hw }

theorem capV_position (src : Src K) (c : P K) (hw adv : K) (side : Side) (x : P K) (h : hw ≠ 0) :
    (capV src c hw adv side x).position = x := emit_position c x hw h

/-- `tessellate_last_edge`, butt / square cap, spelled out -/
theorem lastEdge_unfold (e : Env K) (hc : e.o.endCap ≠ .round) (p0 p1 : EP K) (isFirst : Bool) (o : Out K) :
    let adv := p0.advancement + len (p1.position - p0.position)
    let xp := clipSidePos e.ix e.o.endCap p1.position p0.position p1.halfWidth p1.pos.prev p0.pos.next
    let xn := clipSidePos e.ix e.o.endCap p1.position p0.position p1.halfWidth p1.neg.prev p0.neg.next
    let o2 := (o.addVertex (capV p1.src p1.position p1.halfWidth adv .positive xp)).addVertex
      (capV p1.src p1.position p1.halfWidth adv .negative xn)
    let p1' : EP K := { p1 with advancement := adv,
                                pos := { p1.pos with prev := xp, prevVertex := o.nextId },
                                neg := { p1.neg with prev := xn, prevVertex := o.nextId + 1 } }
    lastEdge e p0 p1 isFirst o = (p1', if isFirst then o2 else o2.addTris (addEdgeTriangles p0.ids p1'.ids)) := by
  have hr : (e.o.endCap == Lyon.StrokeQuad.Cap.round) = false := by
    cases h : e.o.endCap <;> simp_all
  unfold lastEdge
  simp only [hr, Bool.false_eq_true, if_false]
  rfl

/-- `tessellate_last_edge`, butt / square cap: the two vertices sit at the clipped side points -/
theorem lastEdge_em (e : Env K) (hc : e.o.endCap ≠ .round) (p0 p1 : EP K) (isFirst : Bool) (o : Out K)
    (hn : o.nextId = o.verts.length) (hw0 : p1.halfWidth ≠ 0) :
    Ext o (lastEdge e p0 p1 isFirst o).2
    ∧ (lastEdge e p0 p1 isFirst o).2.nextId = (lastEdge e p0 p1 isFirst o).2.verts.length
    ∧ PosAt (lastEdge e p0 p1 isFirst o).2 o.nextId
        (clipSidePos e.ix e.o.endCap p1.position p0.position p1.halfWidth p1.pos.prev p0.pos.next)
    ∧ PosAt (lastEdge e p0 p1 isFirst o).2 (o.nextId + 1)
        (clipSidePos e.ix e.o.endCap p1.position p0.position p1.halfWidth p1.neg.prev p0.neg.next)
    ∧ (lastEdge e p0 p1 isFirst o).1.pos.prev
        = clipSidePos e.ix e.o.endCap p1.position p0.position p1.halfWidth p1.pos.prev p0.pos.next
    ∧ (lastEdge e p0 p1 isFirst o).1.neg.prev
        = clipSidePos e.ix e.o.endCap p1.position p0.position p1.halfWidth p1.neg.prev p0.neg.next
    ∧ (lastEdge e p0 p1 isFirst o).1.position = p1.position
    ∧ (lastEdge e p0 p1 isFirst o).1.pos.single = p1.pos.single
    ∧ (lastEdge e p0 p1 isFirst o).1.neg.single = p1.neg.single := by
  have hu := lastEdge_unfold e hc p0 p1 isFirst o
  simp only [] at hu
  generalize hxp : clipSidePos e.ix e.o.endCap p1.position p0.position p1.halfWidth p1.pos.prev p0.pos.next = xp at hu ⊢
  generalize hxn : clipSidePos e.ix e.o.endCap p1.position p0.position p1.halfWidth p1.neg.prev p0.neg.next = xn at hu ⊢
  rw [hu]
  generalize hadv : p0.advancement + len (p1.position - p0.position) = adv
  have hn1 : (o.addVertex (capV p1.src p1.position p1.halfWidth adv .positive xp)).nextId
      = (o.addVertex (capV p1.src p1.position p1.halfWidth adv .positive xp)).verts.length := by simp [Out.addVertex, hn]
  have hx2 : Ext o ((o.addVertex (capV p1.src p1.position p1.halfWidth adv .positive xp)).addVertex
      (capV p1.src p1.position p1.halfWidth adv .negative xn)) := (Ext.addVertex _ _).trans (Ext.addVertex _ _)
  have p1' := (posAt_new o (capV p1.src p1.position p1.halfWidth adv .positive xp) hn).ext
    (Ext.addVertex _ (capV p1.src p1.position p1.halfWidth adv .negative xn))
  have p2' := posAt_new (o.addVertex (capV p1.src p1.position p1.halfWidth adv .positive xp))
    (capV p1.src p1.position p1.halfWidth adv .negative xn) hn1
  rw [capV_position _ _ _ _ _ _ hw0] at p1' p2'
  have hid : (o.addVertex (capV p1.src p1.position p1.halfWidth adv .positive xp)).nextId = o.nextId + 1 := rfl
  rw [hid] at p2'
  cases isFirst
  · simp only [Bool.false_eq_true, if_false]
    exact ⟨hx2.trans (Ext.addTris _ _), by simp [Out.addVertex, Out.addTris, hn],
      p1'.ext (Ext.addTris _ _), p2'.ext (Ext.addTris _ _), (by first | trivial | rfl), (by first | trivial | rfl), (by first | trivial | rfl), (by first | trivial | rfl), (by first | trivial | rfl)⟩
  · simp only [if_true]
    exact ⟨hx2, by simp [Out.addVertex, hn], p1', p2', (by first | trivial | rfl), (by first | trivial | rfl), (by first | trivial | rfl), (by first | trivial | rfl), (by first | trivial | rfl)⟩

/-- `tessellate_first_edge`, butt / square cap, spelled out -/
theorem firstEdge_unfold (e : Env K) (hc : e.o.startCap ≠ .round) (f s : EP K) (o : Out K) :
    let xp := clipSidePos e.ix e.o.startCap f.position s.position f.halfWidth f.pos.next s.pos.prev
    let xn := clipSidePos e.ix e.o.startCap f.position s.position f.halfWidth f.neg.next s.neg.prev
    firstEdge e f s o
      = (((o.addVertex (capV f.src f.position f.halfWidth f.advancement .positive xp)).addVertex
          (capV f.src f.position f.halfWidth f.advancement .negative xn)).addTris
          (addEdgeTriangles { f.ids with posNext := o.nextId, negNext := o.nextId + 1 } s.ids)) := by
  have hr : (e.o.startCap == Lyon.StrokeQuad.Cap.round) = false := by
    cases h : e.o.startCap <;> simp_all
  unfold firstEdge
  simp only [hr, Bool.false_eq_true, if_false]
  rfl

/-- `tessellate_first_edge`: the two vertices sit at the clipped side points; the edge quad towards the
second point `s` (whose `prev` vertices sit at `X`, `Y`) is emitted -/
theorem firstEdge_em (e : Env K) (hc : e.o.startCap ≠ .round) (f s : EP K) (o : Out K)
    (hn : o.nextId = o.verts.length) (hw0 : f.halfWidth ≠ 0)
    (hf1 : f.foldPos = false) (hf2 : f.foldNeg = false) (hs1 : s.foldPos = false) (hs2 : s.foldNeg = false)
    (X Y : P K) (hX : PosAt o s.pos.prevVertex X) (hY : PosAt o s.neg.prevVertex Y)
    (hne : s.pos.prevVertex ≠ s.neg.prevVertex) :
    Ext o (firstEdge e f s o)
    ∧ EmTri (firstEdge e f s o)
        (clipSidePos e.ix e.o.startCap f.position s.position f.halfWidth f.neg.next s.neg.prev,
         clipSidePos e.ix e.o.startCap f.position s.position f.halfWidth f.pos.next s.pos.prev, X)
    ∧ EmTri (firstEdge e f s o)
        (clipSidePos e.ix e.o.startCap f.position s.position f.halfWidth f.neg.next s.neg.prev, X, Y)
    ∧ (∀ t ∈ (firstEdge e f s o).tris, t ∈ o.tris ∨ TriIn (firstEdge e f s o)
        [clipSidePos e.ix e.o.startCap f.position s.position f.halfWidth f.neg.next s.neg.prev,
         clipSidePos e.ix e.o.startCap f.position s.position f.halfWidth f.pos.next s.pos.prev, X, Y] t) := by
  have hu := firstEdge_unfold e hc f s o
  simp only [] at hu
  generalize hxp : clipSidePos e.ix e.o.startCap f.position s.position f.halfWidth f.pos.next s.pos.prev = xp at hu ⊢
  generalize hxn : clipSidePos e.ix e.o.startCap f.position s.position f.halfWidth f.neg.next s.neg.prev = xn at hu ⊢
  rw [hu]
  have hn1 : (o.addVertex (capV f.src f.position f.halfWidth f.advancement .positive xp)).nextId
      = (o.addVertex (capV f.src f.position f.halfWidth f.advancement .positive xp)).verts.length := by
    simp [Out.addVertex, hn]
  have hx2 : Ext o ((o.addVertex (capV f.src f.position f.halfWidth f.advancement .positive xp)).addVertex
      (capV f.src f.position f.halfWidth f.advancement .negative xn)) := (Ext.addVertex _ _).trans (Ext.addVertex _ _)
  have hx3 : Ext o (((o.addVertex (capV f.src f.position f.halfWidth f.advancement .positive xp)).addVertex
      (capV f.src f.position f.halfWidth f.advancement .negative xn)).addTris
      (addEdgeTriangles { f.ids with posNext := o.nextId, negNext := o.nextId + 1 } s.ids)) :=
    hx2.trans (Ext.addTris _ _)
  have p1' := ((posAt_new o (capV f.src f.position f.halfWidth f.advancement .positive xp) hn).ext
    (Ext.addVertex _ (capV f.src f.position f.halfWidth f.advancement .negative xn))).ext (Ext.addTris _
    (addEdgeTriangles { f.ids with posNext := o.nextId, negNext := o.nextId + 1 } s.ids))
  have p2' := (posAt_new (o.addVertex (capV f.src f.position f.halfWidth f.advancement .positive xp))
    (capV f.src f.position f.halfWidth f.advancement .negative xn) hn1).ext (Ext.addTris _
    (addEdgeTriangles { f.ids with posNext := o.nextId, negNext := o.nextId + 1 } s.ids))
  rw [capV_position _ _ _ _ _ _ hw0] at p1' p2'
  have hid : (o.addVertex (capV f.src f.position f.halfWidth f.advancement .positive xp)).nextId = o.nextId + 1 := rfl
  rw [hid] at p2'
  have hXlt := posAt_lt hX
  have hYlt := posAt_lt hY
  have he := edgeTris_eq ({ f.ids with posNext := o.nextId, negNext := o.nextId + 1 } : JoinIds) s.ids hf1 hf2 hs1 hs2
    (by show o.nextId + 1 ≠ s.pos.prevVertex; omega) (by show o.nextId + 1 ≠ o.nextId; omega)
    (by show o.nextId ≠ s.pos.prevVertex; omega) (by show o.nextId + 1 ≠ s.neg.prevVertex; omega) hne
  refine ⟨hx3, ⟨(o.nextId + 1, o.nextId, s.pos.prevVertex), ?_, p2', p1', hX.ext hx3⟩,
    ⟨(o.nextId + 1, s.pos.prevVertex, s.neg.prevVertex), ?_, p2', hX.ext hx3, hY.ext hx3⟩, ?_⟩
  · show _ ∈ o.tris ++ _
    rw [he]; simp [EP.ids]
  · show _ ∈ o.tris ++ _
    rw [he]; simp [EP.ids]
  · intro t ht
    have ht' : t ∈ o.tris ++ addEdgeTriangles { f.ids with posNext := o.nextId, negNext := o.nextId + 1 } s.ids := ht
    rw [he] at ht'
    rcases List.mem_append.mp ht' with h | h
    · exact Or.inl h
    · right
      simp only [List.mem_cons, List.mem_nil_iff, or_false] at h
      rcases h with rfl | rfl
      · exact ⟨_, _, _, p2', p1', hX.ext hx3, by simp, by simp, by simp⟩
      · exact ⟨_, _, _, p2', hX.ext hx3, hY.ext hx3, by simp, by simp, by simp⟩

/-! ## round caps: the same two vertices, then `tessellate_round_cap`'s fan -/

/-- side conditions under which a cap is followed: not round, or round with the law `cos² + sin² = 1` and an edge
direction `v` that normalises to a unit vector -/
def CapOK (cap : LineCap) (v : P K) : Prop :=
  cap ≠ .round ∨ ((∀ x : K, Transc.cos x * Transc.cos x + Transc.sin x * Transc.sin x = 1) ∧ (normalize v).sqLen = 1)

theorem lastEdge_split (e : Env K) (p0 p1 : EP K) (isFirst : Bool) (o : Out K) :
    let adv := p0.advancement + len (p1.position - p0.position)
    let xp := clipSidePos e.ix e.o.endCap p1.position p0.position p1.halfWidth p1.pos.prev p0.pos.next
    let xn := clipSidePos e.ix e.o.endCap p1.position p0.position p1.halfWidth p1.neg.prev p0.neg.next
    let o2 := (o.addVertex (capV p1.src p1.position p1.halfWidth adv .positive xp)).addVertex
      (capV p1.src p1.position p1.halfWidth adv .negative xn)
    let p1' : EP K := { p1 with advancement := adv,
                                pos := { p1.pos with prev := xp, prevVertex := o.nextId },
                                neg := { p1.neg with prev := xn, prevVertex := o.nextId + 1 } }
    let o3 := if isFirst then o2 else o2.addTris (addEdgeTriangles p0.ids p1'.ids)
    lastEdge e p0 p1 isFirst o = (p1', if e.o.endCap == .round then
      tessellateRoundCap p1.position p1.halfWidth (xp - p1.position) o.nextId (o.nextId + 1) (p1.position - p0.position)
        e.o.tolerance false (baseVertex p1.src p1.position p1.halfWidth adv) o3 else o3) := by
  unfold lastEdge
  rfl

/-- `tessellate_last_edge`, any cap -/
theorem lastEdge_emG (e : Env K) (p0 p1 : EP K) (isFirst : Bool) (o : Out K)
    (hc : CapOK e.o.endCap (p1.position - p0.position))
    (hn : o.nextId = o.verts.length) (hw0 : p1.halfWidth ≠ 0) :
    Ext o (lastEdge e p0 p1 isFirst o).2
    ∧ (lastEdge e p0 p1 isFirst o).2.nextId = (lastEdge e p0 p1 isFirst o).2.verts.length
    ∧ PosAt (lastEdge e p0 p1 isFirst o).2 o.nextId
        (clipSidePos e.ix e.o.endCap p1.position p0.position p1.halfWidth p1.pos.prev p0.pos.next)
    ∧ PosAt (lastEdge e p0 p1 isFirst o).2 (o.nextId + 1)
        (clipSidePos e.ix e.o.endCap p1.position p0.position p1.halfWidth p1.neg.prev p0.neg.next)
    ∧ (lastEdge e p0 p1 isFirst o).1.pos.prev
        = clipSidePos e.ix e.o.endCap p1.position p0.position p1.halfWidth p1.pos.prev p0.pos.next
    ∧ (lastEdge e p0 p1 isFirst o).1.neg.prev
        = clipSidePos e.ix e.o.endCap p1.position p0.position p1.halfWidth p1.neg.prev p0.neg.next
    ∧ (lastEdge e p0 p1 isFirst o).1.position = p1.position
    ∧ (lastEdge e p0 p1 isFirst o).1.pos.single = p1.pos.single
    ∧ (lastEdge e p0 p1 isFirst o).1.neg.single = p1.neg.single
    ∧ (lastEdge e p0 p1 isFirst o).1.ids = { p1.ids with posPrev := o.nextId, negPrev := o.nextId + 1 }
    ∧ ∃ ts, (lastEdge e p0 p1 isFirst o).2.tris = o.tris
          ++ (if isFirst then [] else addEdgeTriangles p0.ids { p1.ids with posPrev := o.nextId, negPrev := o.nextId + 1 }) ++ ts
        ∧ ∀ t ∈ ts, TriFan (lastEdge e p0 p1 isFirst o).2
          [clipSidePos e.ix e.o.endCap p1.position p0.position p1.halfWidth p1.pos.prev p0.pos.next,
           clipSidePos e.ix e.o.endCap p1.position p0.position p1.halfWidth p1.neg.prev p0.neg.next]
          p1.position (p1.halfWidth * p1.halfWidth) t := by
  by_cases hround : e.o.endCap = .round
  swap
  · obtain ⟨l1, l2, l3, l4, l5, l6, l7, l8, l9⟩ := lastEdge_em e hround p0 p1 isFirst o hn hw0
    obtain ⟨m1, m2, m3⟩ := lastEdge_tris e hround p0 p1 isFirst o
    exact ⟨l1, l2, l3, l4, l5, l6, l7, l8, l9, m3, [], by rw [m1]; simp, by simp⟩
  · obtain ⟨hcs, hunit⟩ : (∀ x : K, Transc.cos x * Transc.cos x + Transc.sin x * Transc.sin x = 1)
        ∧ (normalize (p1.position - p0.position)).sqLen = 1 := by
      rcases hc with h | h
      · exact absurd hround h
      · exact h
    have hu := lastEdge_split e p0 p1 isFirst o
    simp only [] at hu
    have hr : (e.o.endCap == Lyon.StrokeQuad.Cap.round) = true := by rw [hround]; rfl
    rw [hr] at hu
    simp only [if_true] at hu
    generalize hxp : clipSidePos e.ix e.o.endCap p1.position p0.position p1.halfWidth p1.pos.prev p0.pos.next = xp at hu ⊢
    generalize hxn : clipSidePos e.ix e.o.endCap p1.position p0.position p1.halfWidth p1.neg.prev p0.neg.next = xn at hu ⊢
    rw [hu]
    generalize hadv : p0.advancement + len (p1.position - p0.position) = adv
    simp only []
    set o2 := (o.addVertex (capV p1.src p1.position p1.halfWidth adv .positive xp)).addVertex
      (capV p1.src p1.position p1.halfWidth adv .negative xn) with ho2
    have hn1 : (o.addVertex (capV p1.src p1.position p1.halfWidth adv .positive xp)).nextId
        = (o.addVertex (capV p1.src p1.position p1.halfWidth adv .positive xp)).verts.length := by simp [Out.addVertex, hn]
    have hx2 : Ext o o2 := (Ext.addVertex _ _).trans (Ext.addVertex _ _)
    have p1' : PosAt o2 o.nextId (capV p1.src p1.position p1.halfWidth adv .positive xp).position :=
      (posAt_new o (capV p1.src p1.position p1.halfWidth adv .positive xp) hn).ext
        (Ext.addVertex _ (capV p1.src p1.position p1.halfWidth adv .negative xn))
    have p2' : PosAt o2 (o.addVertex (capV p1.src p1.position p1.halfWidth adv .positive xp)).nextId
        (capV p1.src p1.position p1.halfWidth adv .negative xn).position :=
      posAt_new (o.addVertex (capV p1.src p1.position p1.halfWidth adv .positive xp))
        (capV p1.src p1.position p1.halfWidth adv .negative xn) hn1
    rw [capV_position _ _ _ _ _ _ hw0] at p1' p2'
    have hid : (o.addVertex (capV p1.src p1.position p1.halfWidth adv .positive xp)).nextId = o.nextId + 1 := rfl
    rw [hid] at p2'
    have hn2 : o2.nextId = o2.verts.length := by simp [ho2, Out.addVertex, hn]
    obtain ⟨o3, ho3⟩ : ∃ o3, o3 = (if isFirst = true then o2 else o2.addTris (addEdgeTriangles p0.ids
      ({ p1 with advancement := adv, pos := { p1.pos with prev := xp, prevVertex := o.nextId },
                 neg := { p1.neg with prev := xn, prevVertex := o.nextId + 1 } } : EP K).ids)) := ⟨_, rfl⟩
    rw [← ho3]
    have hx23 : Ext o2 o3 := by
      rw [ho3]; cases isFirst
      · exact Ext.addTris _ _
      · exact Ext.refl _
    have hn3 : o3.nextId = o3.verts.length := by
      rw [ho3]; cases isFirst
      · exact hn2
      · exact hn2
    have ht3 : o3.tris = o.tris ++ (if isFirst = true then [] else addEdgeTriangles p0.ids
        { p1.ids with posPrev := o.nextId, negPrev := o.nextId + 1 }) := by
      rw [ho3]; cases isFirst <;> simp [ho2, Out.addVertex, Out.addTris, EP.ids]
    obtain ⟨x4, n4, ts, e4, t4⟩ := roundCap_shape hcs [xp, xn] p1.position p1.halfWidth (xp - p1.position)
      (p1.position - p0.position) o.nextId (o.nextId + 1) e.o.tolerance false
      (baseVertex p1.src p1.position p1.halfWidth adv) o3 xp xn hunit hn3 (p1'.ext hx23) (Or.inl (by simp))
      (p2'.ext hx23) (Or.inl (by simp))
    refine ⟨(hx2.trans hx23).trans x4, n4, (p1'.ext hx23).ext x4, (p2'.ext hx23).ext x4, (by first | trivial | rfl), (by first | trivial | rfl), (by first | trivial | rfl), (by first | trivial | rfl), (by first | trivial | rfl), (by first | trivial | rfl),
      ts, ?_, t4⟩
    rw [e4, ht3]

theorem firstEdge_split (e : Env K) (f s : EP K) (o : Out K) :
    let xp := clipSidePos e.ix e.o.startCap f.position s.position f.halfWidth f.pos.next s.pos.prev
    let xn := clipSidePos e.ix e.o.startCap f.position s.position f.halfWidth f.neg.next s.neg.prev
    let o3 := ((o.addVertex (capV f.src f.position f.halfWidth f.advancement .positive xp)).addVertex
          (capV f.src f.position f.halfWidth f.advancement .negative xn)).addTris
          (addEdgeTriangles { f.ids with posNext := o.nextId, negNext := o.nextId + 1 } s.ids)
    firstEdge e f s o = if e.o.startCap == .round then
      tessellateRoundCap f.position f.halfWidth (f.neg.next - f.position) (o.nextId + 1) o.nextId
        (f.position - s.position) e.o.tolerance true (baseVertex f.src f.position f.halfWidth f.advancement) o3
      else o3 := by
  unfold firstEdge
  rfl

/-- the part of `tessellate_first_edge` before the cap, at arbitrary vertex positions `xp`, `xn` -/
theorem firstBase_em (f s : EP K) (o : Out K) (xp xn : P K)
    (hn : o.nextId = o.verts.length) (hw0 : f.halfWidth ≠ 0)
    (hf1 : f.foldPos = false) (hf2 : f.foldNeg = false) (hs1 : s.foldPos = false) (hs2 : s.foldNeg = false)
    (X Y : P K) (hX : PosAt o s.pos.prevVertex X) (hY : PosAt o s.neg.prevVertex Y)
    (hne : s.pos.prevVertex ≠ s.neg.prevVertex) :
    ∀ o3, o3 = ((o.addVertex (capV f.src f.position f.halfWidth f.advancement .positive xp)).addVertex
          (capV f.src f.position f.halfWidth f.advancement .negative xn)).addTris
          (addEdgeTriangles { f.ids with posNext := o.nextId, negNext := o.nextId + 1 } s.ids) →
    Ext o o3 ∧ o3.nextId = o3.verts.length ∧ PosAt o3 o.nextId xp ∧ PosAt o3 (o.nextId + 1) xn
    ∧ EmTri o3 (xn, xp, X) ∧ EmTri o3 (xn, X, Y)
    ∧ (∀ t ∈ o3.tris, t ∈ o.tris ∨ TriIn o3 [xn, xp, X, Y] t) := by
  intro o3 ho3
  subst ho3
  have hn1 : (o.addVertex (capV f.src f.position f.halfWidth f.advancement .positive xp)).nextId
      = (o.addVertex (capV f.src f.position f.halfWidth f.advancement .positive xp)).verts.length := by
    simp [Out.addVertex, hn]
  have hx2 : Ext o ((o.addVertex (capV f.src f.position f.halfWidth f.advancement .positive xp)).addVertex
      (capV f.src f.position f.halfWidth f.advancement .negative xn)) := (Ext.addVertex _ _).trans (Ext.addVertex _ _)
  have hx3 : Ext o (((o.addVertex (capV f.src f.position f.halfWidth f.advancement .positive xp)).addVertex
      (capV f.src f.position f.halfWidth f.advancement .negative xn)).addTris
      (addEdgeTriangles { f.ids with posNext := o.nextId, negNext := o.nextId + 1 } s.ids)) :=
    hx2.trans (Ext.addTris _ _)
  have p1' := ((posAt_new o (capV f.src f.position f.halfWidth f.advancement .positive xp) hn).ext
    (Ext.addVertex _ (capV f.src f.position f.halfWidth f.advancement .negative xn))).ext (Ext.addTris _
    (addEdgeTriangles { f.ids with posNext := o.nextId, negNext := o.nextId + 1 } s.ids))
  have p2' := (posAt_new (o.addVertex (capV f.src f.position f.halfWidth f.advancement .positive xp))
    (capV f.src f.position f.halfWidth f.advancement .negative xn) hn1).ext (Ext.addTris _
    (addEdgeTriangles { f.ids with posNext := o.nextId, negNext := o.nextId + 1 } s.ids))
  rw [capV_position _ _ _ _ _ _ hw0] at p1' p2'
  have hid : (o.addVertex (capV f.src f.position f.halfWidth f.advancement .positive xp)).nextId = o.nextId + 1 := rfl
  rw [hid] at p2'
  have hXlt := posAt_lt hX
  have hYlt := posAt_lt hY
  have he := edgeTris_eq ({ f.ids with posNext := o.nextId, negNext := o.nextId + 1 } : JoinIds) s.ids hf1 hf2 hs1 hs2
    (by show o.nextId + 1 ≠ s.pos.prevVertex; omega) (by show o.nextId + 1 ≠ o.nextId; omega)
    (by show o.nextId ≠ s.pos.prevVertex; omega) (by show o.nextId + 1 ≠ s.neg.prevVertex; omega) hne
  refine ⟨hx3, by simp [Out.addVertex, Out.addTris, hn], p1', p2',
    ⟨(o.nextId + 1, o.nextId, s.pos.prevVertex), ?_, p2', p1', hX.ext hx3⟩,
    ⟨(o.nextId + 1, s.pos.prevVertex, s.neg.prevVertex), ?_, p2', hX.ext hx3, hY.ext hx3⟩, ?_⟩
  · show _ ∈ o.tris ++ _
    rw [he]; simp [EP.ids]
  · show _ ∈ o.tris ++ _
    rw [he]; simp [EP.ids]
  · intro t ht
    have ht' : t ∈ o.tris ++ addEdgeTriangles { f.ids with posNext := o.nextId, negNext := o.nextId + 1 } s.ids := ht
    rw [he] at ht'
    rcases List.mem_append.mp ht' with h | h
    · exact Or.inl h
    · right
      simp only [List.mem_cons, List.mem_nil_iff, or_false] at h
      rcases h with rfl | rfl
      · exact ⟨_, _, _, p2', p1', hX.ext hx3, by simp, by simp, by simp⟩
      · exact ⟨_, _, _, p2', hX.ext hx3, hY.ext hx3, by simp, by simp, by simp⟩

/-- `tessellate_first_edge`, any cap: the quad towards the second point, then (round cap) the cap's fan -/
theorem firstEdge_emG (e : Env K) (f s : EP K) (o : Out K) (hc : CapOK e.o.startCap (f.position - s.position))
    (hn : o.nextId = o.verts.length) (hw0 : f.halfWidth ≠ 0)
    (hf1 : f.foldPos = false) (hf2 : f.foldNeg = false) (hs1 : s.foldPos = false) (hs2 : s.foldNeg = false)
    (X Y : P K) (hX : PosAt o s.pos.prevVertex X) (hY : PosAt o s.neg.prevVertex Y)
    (hne : s.pos.prevVertex ≠ s.neg.prevVertex) :
    Ext o (firstEdge e f s o)
    ∧ EmTri (firstEdge e f s o)
        (clipSidePos e.ix e.o.startCap f.position s.position f.halfWidth f.neg.next s.neg.prev,
         clipSidePos e.ix e.o.startCap f.position s.position f.halfWidth f.pos.next s.pos.prev, X)
    ∧ EmTri (firstEdge e f s o)
        (clipSidePos e.ix e.o.startCap f.position s.position f.halfWidth f.neg.next s.neg.prev, X, Y)
    ∧ (∀ t ∈ (firstEdge e f s o).tris, t ∈ o.tris ∨ TriIn (firstEdge e f s o)
        [clipSidePos e.ix e.o.startCap f.position s.position f.halfWidth f.neg.next s.neg.prev,
         clipSidePos e.ix e.o.startCap f.position s.position f.halfWidth f.pos.next s.pos.prev, X, Y] t
      ∨ TriFan (firstEdge e f s o)
        [clipSidePos e.ix e.o.startCap f.position s.position f.halfWidth f.neg.next s.neg.prev,
         clipSidePos e.ix e.o.startCap f.position s.position f.halfWidth f.pos.next s.pos.prev]
        f.position (f.halfWidth * f.halfWidth) t) := by
  by_cases hround : e.o.startCap = .round
  swap
  · obtain ⟨x1, x2, x3, x4⟩ := firstEdge_em e hround f s o hn hw0 hf1 hf2 hs1 hs2 X Y hX hY hne
    refine ⟨x1, x2, x3, fun t ht => ?_⟩
    rcases x4 t ht with h | h
    · exact Or.inl h
    · exact Or.inr (Or.inl h)
  · obtain ⟨hcs, hunit⟩ : (∀ x : K, Transc.cos x * Transc.cos x + Transc.sin x * Transc.sin x = 1)
        ∧ (normalize (f.position - s.position)).sqLen = 1 := by
      rcases hc with h | h
      · exact absurd hround h
      · exact h
    have hu := firstEdge_split e f s o
    simp only [] at hu
    have hr : (e.o.startCap == Lyon.StrokeQuad.Cap.round) = true := by rw [hround]; rfl
    rw [hr] at hu
    simp only [if_true] at hu
    generalize hxp : clipSidePos e.ix e.o.startCap f.position s.position f.halfWidth f.pos.next s.pos.prev = xp at hu ⊢
    generalize hxn : clipSidePos e.ix e.o.startCap f.position s.position f.halfWidth f.neg.next s.neg.prev = xn at hu ⊢
    rw [hu]
    obtain ⟨b1, b2, b3, b4, b5, b6, b7⟩ := firstBase_em f s o xp xn hn hw0 hf1 hf2 hs1 hs2 X Y hX hY hne _ rfl
    obtain ⟨x4, n4, ts, e4, t4⟩ := roundCap_shape hcs [xn, xp] f.position f.halfWidth (f.neg.next - f.position)
      (f.position - s.position) (o.nextId + 1) o.nextId e.o.tolerance true
      (baseVertex f.src f.position f.halfWidth f.advancement) _ xn xp hunit b2 b4 (Or.inl (by simp)) b3 (Or.inl (by simp))
    refine ⟨b1.trans x4, b5.ext x4, b6.ext x4, fun t ht => ?_⟩
    rw [e4] at ht
    rcases List.mem_append.mp ht with h | h
    · rcases b7 t h with h' | h'
      · exact Or.inl h'
      · exact Or.inr (Or.inl (h'.ext x4))
    · exact Or.inr (Or.inr (t4 t h))

/-! ## the corner points of the two caps, as the model computes them -/

/-- `perp(tangent of the last edge) · w/2` -/
noncomputable def endN (e : Env K) (pt : Nat → P K) (n : Nat) : P K :=
  (perp (normalize (pt n - pt (n - 1)))).smul e.hwFw
/-- the `next` side points of the point before the last one (the `other` ends of the side lines the end cap clips) -/
noncomputable def prevNext (e : Env K) (pt : Nat → P K) (n : Nat) : P K × P K :=
  if n = 1 then ((fPt e pt).pos.next, (fPt e pt).neg.next) else ((jEP e pt (n - 1)).pos.next, (jEP e pt (n - 1)).neg.next)
/-- the two vertices of `tessellate_last_edge` -/
noncomputable def endPos (e : Env K) (pt : Nat → P K) (n : Nat) : P K :=
  clipSidePos e.ix e.o.endCap (pt n) (pt (n - 1)) e.hwFw (pt n + endN e pt n) (prevNext e pt n).1
noncomputable def endNeg (e : Env K) (pt : Nat → P K) (n : Nat) : P K :=
  clipSidePos e.ix e.o.endCap (pt n) (pt (n - 1)) e.hwFw (pt n - endN e pt n) (prevNext e pt n).2
/-- the `prev` side points of the second point -/
noncomputable def secondPrev (e : Env K) (pt : Nat → P K) (n : Nat) : P K × P K :=
  if n = 1 then (endPos e pt n, endNeg e pt n) else ((jEP e pt 1).pos.prev, (jEP e pt 1).neg.prev)
/-- the two vertices of `tessellate_first_edge` -/
noncomputable def startPos (e : Env K) (pt : Nat → P K) (n : Nat) : P K :=
  clipSidePos e.ix e.o.startCap (pt 0) (pt 1) e.hwFw (fPt e pt).pos.next (secondPrev e pt n).1
noncomputable def startNeg (e : Env K) (pt : Nat → P K) (n : Nat) : P K :=
  clipSidePos e.ix e.o.startCap (pt 0) (pt 1) e.hwFw (fPt e pt).neg.next (secondPrev e pt n).2

/-- **what the run emits**: for the polyline `pt 0 … pt n` the output contains, as index triples over
vertices emitted at exactly these positions, the edge quad of every edge (between the cap corners /
the joins' side points) and the join triangle of every join that has one -/
structure Emitted (e : Env K) (pt : Nat → P K) (n : Nat) (o : Out K) : Prop where
  quads : ∀ i, 1 ≤ i → i + 1 < n → EmQuadJ o (jEP e pt i) (jEP e pt (i + 1))
  joins : ∀ i, 1 ≤ i → i < n → EmJoin o (jEP e pt i)
  last : 2 ≤ n → EmTri o (sNext (jEP e pt (n - 1)).neg, sNext (jEP e pt (n - 1)).pos, endPos e pt n)
    ∧ EmTri o (sNext (jEP e pt (n - 1)).neg, endPos e pt n, endNeg e pt n)
  first : 2 ≤ n → EmTri o (startNeg e pt n, startPos e pt n, sPrev (jEP e pt 1).pos)
    ∧ EmTri o (startNeg e pt n, sPrev (jEP e pt 1).pos, sPrev (jEP e pt 1).neg)
  single : n = 1 → EmTri o (startNeg e pt n, startPos e pt n, endPos e pt n)
    ∧ EmTri o (startNeg e pt n, endPos e pt n, endNeg e pt n)
  /-- and nothing else: every emitted index triple is one of these -/
  only : ∀ t ∈ o.tris,
    (∃ i, 1 ≤ i ∧ i + 1 < n ∧ TriIn o (quadSet (jEP e pt i) (jEP e pt (i + 1))) t)
    ∨ (∃ i, 1 ≤ i ∧ i < n ∧ TriIn o (joinSet (jEP e pt i)) t)
    ∨ (∃ i, 1 ≤ i ∧ i < n ∧ TriFan o (joinSet (jEP e pt i)) (pt i) (e.hwFw * e.hwFw) t)
    ∨ (2 ≤ n ∧ TriIn o [sNext (jEP e pt (n - 1)).neg, sNext (jEP e pt (n - 1)).pos, endPos e pt n, endNeg e pt n] t)
    ∨ (2 ≤ n ∧ TriIn o [startNeg e pt n, startPos e pt n, sPrev (jEP e pt 1).pos, sPrev (jEP e pt 1).neg] t)
    ∨ (n = 1 ∧ TriIn o [startNeg e pt n, startPos e pt n, endPos e pt n, endNeg e pt n] t)
    ∨ (1 ≤ n ∧ TriFan o [endPos e pt n, endNeg e pt n] (pt n) (e.hwFw * e.hwFw) t)
    ∨ (1 ≤ n ∧ TriFan o [startNeg e pt n, startPos e pt n] (pt 0) (e.hwFw * e.hwFw) t)

/-- `end_with_caps` after the loop -/
theorem caps_emitted {e : Env K} (hfw : e.o.varWidth = false) (hw0 : e.hwFw ≠ 0) {pt : Nat → P K} {n : Nat}
    (hs : CapOK e.o.startCap (pt 0 - pt 1)) (he : CapOK e.o.endCap (pt n - pt (n - 1)))
    {st : St K} {a b : EP K} (hI : CInv e pt n st a b) :
    Emitted e pt n (endWithCaps e st).out := by
  have hn1 := hI.k1
  have hc2 := WF.lastTwo_count _ _ hI.t.two
  have hcap : (st.mayNeedEmptyCap && st.buf.count == 1) = false := by
    have : (st.buf.count == 1) = false := by simp; omega
    simp [this]
  rw [endWithCaps_eq_some hcap hI.t.two]
  show Emitted e pt n (firstEdge e _ _ _)
  have ecaps : capsOut e st a b = lastEdge e a (lastSidesFw a b) (st.buf.count == 2) st.out := by
    unfold capsOut; rw [hfw]; rfl
  rw [ecaps]
  -- the last point with its side points
  have hbw : (lastSidesFw a b).halfWidth ≠ 0 := by
    show b.halfWidth ≠ 0; rw [hI.t.fresh.hw]; exact hw0
  have he' : CapOK e.o.endCap ((lastSidesFw a b).position - a.position) := by
    rw [show (lastSidesFw a b).position = b.position from rfl, hI.apos, hI.bpos]; exact he
  obtain ⟨l1, l2, l3, l4, l5, l6, l7, l8, l9, m3, tsE, m1, mE⟩ :=
    lastEdge_emG e a (lastSidesFw a b) (st.buf.count == 2) st.out he' hI.next hbw
  have hbhw : (lastSidesFw a b).halfWidth = e.hwFw := hI.t.fresh.hw
  have hanext : a.pos.next = (prevNext e pt n).1 ∧ a.neg.next = (prevNext e pt n).2 := by
    unfold prevNext
    by_cases hk : n = 1
    · rw [if_pos hk, hI.first1 hk]; exact ⟨rfl, rfl⟩
    · rw [if_neg hk]
      obtain ⟨g, _, _⟩ := hI.ageo (by omega)
      exact ⟨(geo_pos g).2.1, (geo_neg g).2.1⟩
  have hxp : clipSidePos e.ix e.o.endCap (lastSidesFw a b).position a.position (lastSidesFw a b).halfWidth
      (lastSidesFw a b).pos.prev a.pos.next = endPos e pt n := by
    unfold endPos endN
    rw [← hanext.1, ← hI.apos, ← hI.bpos, ← hI.t.fresh.hw]; rfl
  have hxn : clipSidePos e.ix e.o.endCap (lastSidesFw a b).position a.position (lastSidesFw a b).halfWidth
      (lastSidesFw a b).neg.prev a.neg.next = endNeg e pt n := by
    unfold endNeg endN
    rw [← hanext.2, ← hI.apos, ← hI.bpos, ← hI.t.fresh.hw]; rfl
  rw [hxp] at l3 l5
  rw [hxn] at l4 l6
  rw [hxp, hxn, show (lastSidesFw a b).position = b.position from rfl, hI.bpos, hbhw] at mE
  have hpos7 : (lastEdge e a (lastSidesFw a b) (st.buf.count == 2) st.out).1.position = pt n := by
    rw [l7]; exact hI.bpos
  have hfold1 : (lastEdge e a (lastSidesFw a b) (st.buf.count == 2) st.out).1.ids.foldPos = false := by
    rw [m3]; exact hI.t.bfp
  have hfold2 : (lastEdge e a (lastSidesFw a b) (st.buf.count == 2) st.out).1.ids.foldNeg = false := by
    rw [m3]; exact hI.t.bfn
  have hidp : (lastEdge e a (lastSidesFw a b) (st.buf.count == 2) st.out).1.ids.posPrev = st.out.nextId := by rw [m3]
  have hidn : (lastEdge e a (lastSidesFw a b) (st.buf.count == 2) st.out).1.ids.negPrev = st.out.nextId + 1 := by rw [m3]
  generalize hr : lastEdge e a (lastSidesFw a b) (st.buf.count == 2) st.out = r at l1 l2 l3 l4 l5 l6 m1 mE m3 hpos7 hfold1 hfold2 hidp hidn
  obtain ⟨p1b, o1⟩ := r
  simp only at l1 l2 l3 l4 l5 l6 m1 mE m3 hpos7 hfold1 hfold2 hidp hidn ⊢
  have hF0 : (fPt e pt).halfWidth ≠ 0 := hw0
  by_cases hk : n = 1
  · -- a single segment
    have hcnt : st.buf.count = 2 := by rw [hI.cnt, if_pos hk]
    have hn3 : ¬ st.buf.count > 2 := by omega
    simp only [if_neg hn3]
    rw [hI.first1 hk]
    have hX : PosAt o1 p1b.pos.prevVertex (endPos e pt n) := by
      have : p1b.pos.prevVertex = st.out.nextId := hidp
      rw [this]; exact l3
    have hY : PosAt o1 p1b.neg.prevVertex (endNeg e pt n) := by
      have : p1b.neg.prevVertex = st.out.nextId + 1 := hidn
      rw [this]; exact l4
    have hs' : CapOK e.o.startCap ((fPt e pt).position - p1b.position) := by
      rw [hpos7, hk]; exact hs
    obtain ⟨x1, x2, x3, x4⟩ := firstEdge_emG e (fPt e pt) p1b o1 hs' l2 hF0 rfl rfl hfold1 hfold2 _ _ hX hY
      (by show p1b.ids.posPrev ≠ p1b.ids.negPrev; rw [hidp, hidn]; omega)
    have hsp : clipSidePos e.ix e.o.startCap (fPt e pt).position p1b.position (fPt e pt).halfWidth (fPt e pt).pos.next p1b.pos.prev
        = startPos e pt n := by
      unfold startPos secondPrev; rw [if_pos hk, hpos7, l5, hk]; rfl
    have hsn : clipSidePos e.ix e.o.startCap (fPt e pt).position p1b.position (fPt e pt).halfWidth (fPt e pt).neg.next p1b.neg.prev
        = startNeg e pt n := by
      unfold startNeg secondPrev; rw [if_pos hk, hpos7, l6, hk]; rfl
    rw [hsp, hsn] at x2 x4
    rw [hsn] at x3
    have hfw0 : (fPt e pt).halfWidth = e.hwFw := rfl
    have hfp0 : (fPt e pt).position = pt 0 := rfl
    rw [hfw0, hfp0] at x4
    refine ⟨fun i h1 h2 => by omega, fun i h1 h2 => by omega, fun h => by omega, fun h => by omega, fun _ => ⟨x2, x3⟩, ?_⟩
    intro t ht
    rcases x4 t ht with h | h | h
    · have hc2' : (st.buf.count == 2) = true := by simp [hcnt]
      rw [hc2'] at m1
      simp only [if_true, List.append_nil] at m1
      rw [m1] at h
      rcases List.mem_append.mp h with h | h
      · rcases hI.only t h with ⟨i, a1, a2, _⟩ | ⟨i, a1, a2, _⟩ | ⟨i, a1, a2, _⟩ <;> omega
      · exact Or.inr (Or.inr (Or.inr (Or.inr (Or.inr (Or.inr (Or.inl ⟨hn1, (mE t h).ext x1⟩))))))
    · exact Or.inr (Or.inr (Or.inr (Or.inr (Or.inr (Or.inl ⟨hk, h⟩)))))
    · exact Or.inr (Or.inr (Or.inr (Or.inr (Or.inr (Or.inr (Or.inr ⟨hn1, h⟩))))))
  · -- at least one join
    have hk2 : 2 ≤ n := by omega
    have hcnt : st.buf.count = 3 := by rw [hI.cnt, if_neg hk]
    have h3 : st.buf.count > 2 := by omega
    obtain ⟨sa, f0, f1', ef, g1, g2, sf⟩ := hI.t.full h3
    obtain ⟨f1, hf, gf, gp, pf1, pf2⟩ := hI.first2 hk2
    rw [hf] at ef
    simp only [List.cons.injEq, and_true] at ef
    obtain ⟨rfl, rfl⟩ := ef
    obtain ⟨ga, pa1, pa2⟩ := hI.ageo hk2
    simp only [if_pos h3, hf, List.headD_cons, List.drop_succ_cons, List.drop_zero]
    -- the last edge
    have hne2 : (st.buf.count == 2) = false := by simp [hcnt]
    rw [hne2] at m1
    simp only [Bool.false_eq_true, if_false] at m1
    obtain ⟨a1, a2, ag, a4, a5⟩ := sa
    obtain ⟨ag1, ag2, ag3, ag4⟩ := ag
    have hids : ({ (lastSidesFw a b).ids with posPrev := st.out.nextId, negPrev := st.out.nextId + 1 } : JoinIds) = p1b.ids := m3.symm
    rw [hids] at m1
    have hel := edgeTris_eq a.ids p1b.ids a1 a2 hfold1 hfold2 (by rw [hidp]; omega) a4 (by rw [hidp]; omega)
      (by rw [hidn]; omega) (by rw [hidp, hidn]; omega)
    have hlast : EmTri o1 (sNext (jEP e pt (n - 1)).neg, sNext (jEP e pt (n - 1)).pos, endPos e pt n)
        ∧ EmTri o1 (sNext (jEP e pt (n - 1)).neg, endPos e pt n, endNeg e pt n) := by
      refine ⟨⟨(a.ids.negNext, a.ids.posNext, p1b.ids.posPrev), by rw [m1, hel]; simp, pa1.ext l1, pa2.ext l1, ?_⟩,
        ⟨(a.ids.negNext, p1b.ids.posPrev, p1b.ids.negPrev), by rw [m1, hel]; simp, pa1.ext l1, ?_, ?_⟩⟩
      · show PosAt o1 p1b.ids.posPrev _; rw [hidp]; exact l3
      · show PosAt o1 p1b.ids.posPrev _; rw [hidp]; exact l3
      · show PosAt o1 p1b.ids.negPrev _; rw [hidn]; exact l4
    -- the first edge
    obtain ⟨s1, s2, sg, s4, s5⟩ := sf
    have hs' : CapOK e.o.startCap ((fPt e pt).position - f1.position) := by
      rw [gp]; exact hs
    obtain ⟨x1, x2, x3, x4⟩ := firstEdge_emG e (fPt e pt) f1 o1 hs' l2 hF0 rfl rfl s1 s2 _ _ (pf1.ext l1) (pf2.ext l1) s5
    have hsp : clipSidePos e.ix e.o.startCap (fPt e pt).position f1.position (fPt e pt).halfWidth (fPt e pt).pos.next f1.pos.prev
        = startPos e pt n := by
      unfold startPos secondPrev; rw [if_neg hk, gp, (geo_pos gf).1]; rfl
    have hsn : clipSidePos e.ix e.o.startCap (fPt e pt).position f1.position (fPt e pt).halfWidth (fPt e pt).neg.next f1.neg.prev
        = startNeg e pt n := by
      unfold startNeg secondPrev; rw [if_neg hk, gp, (geo_neg gf).1]; rfl
    rw [hsp, hsn] at x2 x4
    rw [hsn] at x3
    have hfw0 : (fPt e pt).halfWidth = e.hwFw := rfl
    have hfp0 : (fPt e pt).position = pt 0 := rfl
    rw [hfw0, hfp0] at x4
    have hx := l1.trans x1
    refine ⟨fun i h1 h2 => (hI.quads i h1 h2).ext hx, fun i h1 h2 => (hI.joins i h1 h2).ext hx,
      fun _ => ⟨hlast.1.ext x1, hlast.2.ext x1⟩, fun _ => ⟨x2, x3⟩, fun h => absurd h hk, ?_⟩
    intro t ht
    rcases x4 t ht with h | h | h
    · rw [m1, hel] at h
      rcases List.mem_append.mp h with h | h
      swap
      · exact Or.inr (Or.inr (Or.inr (Or.inr (Or.inr (Or.inr (Or.inl ⟨hn1, (mE t h).ext x1⟩))))))
      rcases List.mem_append.mp h with h | h
      · rcases hI.only t h with ⟨i, a1, a2, a3⟩ | ⟨i, a1, a2, a3⟩ | ⟨i, a1, a2, a3⟩
        · exact Or.inl ⟨i, a1, a2, a3.ext hx⟩
        · exact Or.inr (Or.inl ⟨i, a1, a2, a3.ext hx⟩)
        · exact Or.inr (Or.inr (Or.inl ⟨i, a1, a2, a3.ext hx⟩))
      · refine Or.inr (Or.inr (Or.inr (Or.inl ⟨hk2, ?_⟩)))
        have hp3 : PosAt o1 p1b.ids.posPrev (endPos e pt n) := by rw [hidp]; exact l3
        have hp4 : PosAt o1 p1b.ids.negPrev (endNeg e pt n) := by rw [hidn]; exact l4
        simp only [List.mem_cons, List.mem_nil_iff, or_false] at h
        rcases h with rfl | rfl
        · exact ⟨_, _, _, (pa1.ext l1).ext x1, (pa2.ext l1).ext x1, hp3.ext x1, by simp, by simp, by simp⟩
        · exact ⟨_, _, _, (pa1.ext l1).ext x1, hp3.ext x1, hp4.ext x1, by simp, by simp, by simp⟩
    · exact Or.inr (Or.inr (Or.inr (Or.inr (Or.inl ⟨hk2, h⟩))))
    · exact Or.inr (Or.inr (Or.inr (Or.inr (Or.inr (Or.inr (Or.inr ⟨hn1, h⟩))))))

end

section Run
variable {K : Type} [Field K] [LinearOrder K] [IsStrictOrderedRing K] [Transc K] [Asin K] [FlatConst K]

/-- the events of the open polyline `pt 0, …, pt n` (`n ≥ 1` edges); endpoint ids are the indices, as
`tessellate_fw` assigns them -/
def polyEvs (pt : Nat → P K) (n : Nat) : List (IdEv K) :=
  IdEv.begin 0 (pt 0) :: IdEv.line 1 (pt 1) :: (lineEvs (restPts pt 2 (n - 1)) ++ [IdEv.end_ false])

/-- **emission shape of the complete model on an open polyline** (fixed width, Miter / MiterClip / Bevel
join, butt / square caps, no merged points, no folding join): see `Emitted` -/
theorem run_emittedG (e : Env K) (store : Nat → List K) (hfw : e.o.varWidth = false)
    (hj : RoundOK e) (hw0 : e.hwFw ≠ 0)
    (pt : Nat → P K) (n : Nat) (hn : 1 ≤ n)
    (hs : CapOK e.o.startCap (pt 0 - pt 1)) (he : CapOK e.o.endCap (pt n - pt (n - 1)))
    (hfar : ∀ i, i < n → pointsAreTooClose e.thr (pt i) (pt (i + 1)) = false)
    (hnf : ∀ i, 1 ≤ i → i < n → noFoldAt e (pt (i - 1)) (pt i) (pt (i + 1))) :
    Emitted e pt n (runEvents e store (polyEvs pt n)).st.out := by
  obtain ⟨st2, hwf2, hab, hc2, hout, hrun⟩ := run_open_subpath_x e store hfw 0 1 (pt 0) (pt 1) (restPts pt 2 (n - 1))
    (hfar 0 (by omega))
  unfold polyEvs
  rw [hrun]
  have hI1 : CInv e pt 1 st2 (fPt e pt) (secondPt e 0 1 (pt 0) (pt 1)) := by
    refine ⟨⟨hwf2, hab, ⟨rfl, rfl, rfl, rfl, rfl⟩, rfl, rfl, fun _ => ⟨rfl, rfl⟩, fun h => by omega⟩, by rw [hout]; rfl, rfl, rfl, le_refl _, by simp [hc2], fun _ => rfl,
      fun h => by omega, fun h => by omega, fun i h1 h2 => by omega, fun i h1 h2 => by omega,
      fun t ht => by rw [hout] at ht; simp [Out.empty] at ht⟩
  obtain ⟨a', b', hI⟩ := feed_cinv hj hw0 (n - 1) 1 st2 _ _ hI1 (fun i h1 h2 => hfar i (by omega))
    (fun i h1 h2 => hnf i h1 (by omega))
  have hn' : 1 + (n - 1) = n := by omega
  rw [hn'] at hI
  set st' := (restPts pt (1 + 1) (n - 1)).foldl (fun s q => (fwStep e s (linePt e q)).1) st2 with hst'
  have hI' : CInv e pt n { st' with mayNeedEmptyCap := st'.mayNeedEmptyCap || (false && st'.buf.count == 1) } a' b' :=
    ⟨⟨hI.t.wf, hI.t.two, hI.t.fresh, hI.t.bfp, hI.t.bfn, hI.t.first, hI.t.full⟩, hI.next, hI.apos, hI.bpos,
      hI.k1, hI.cnt, hI.first1, hI.first2, hI.ageo, hI.quads, hI.joins, hI.only⟩
  exact caps_emitted hfw hw0 hs he hI'

/-- … butt / square caps -/
theorem run_emitted (e : Env K) (store : Nat → List K) (hfw : e.o.varWidth = false)
    (hj : RoundOK e) (hs : e.o.startCap ≠ .round) (he : e.o.endCap ≠ .round) (hw0 : e.hwFw ≠ 0)
    (pt : Nat → P K) (n : Nat) (hn : 1 ≤ n)
    (hfar : ∀ i, i < n → pointsAreTooClose e.thr (pt i) (pt (i + 1)) = false)
    (hnf : ∀ i, 1 ≤ i → i < n → noFoldAt e (pt (i - 1)) (pt i) (pt (i + 1))) :
    Emitted e pt n (runEvents e store (polyEvs pt n)).st.out :=
  run_emittedG e store hfw hj hw0 pt n hn (Or.inl hs) (Or.inl he) hfar hnf

end Run


end Lyon.C06b
