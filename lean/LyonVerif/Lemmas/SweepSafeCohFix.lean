/-
  SPAN / WINDING COHERENCE, recovery, part 2: the winding number as a sum; the merge-vertex fix-up
  (`swapBack`) moves a merge vertex to a place whose prefix winding is `in`, keeps the other merge
  vertices' prefixes and the multiset of edges.
-/
import LyonVerif.Lemmas.SweepSafeCohSort

set_option linter.unusedSectionVars false
set_option linter.unusedVariables false
set_option linter.unusedSimpArgs false

namespace Lyon.SweepCoh
open Lyon Lyon.Scalar Lyon.Mono Lyon.Sweep Lyon.EQ Lyon.SweepSafe

variable {α : Type} [Scalar α] [Wide α]

/-- what a signature adds to the winding number -/
def gW (x : Bool × Int) : Int := if x.1 then 0 else x.2

/-- sum of the windings of the edges (merge vertices count 0) -/
def gsum (l : List (Bool × Int)) : Int := lsum gW l

theorem sfold_number (rule : Slab.Rule) : ∀ (l : List (Bool × Int)) (w : WindingState),
    (sfold rule w l).number = w.number + gsum l
  | [], w => by simp [sfold, gsum, lsum_nil]
  | x :: l, w => by
    have ih := sfold_number rule l (sstep rule w x)
    simp only [sfold, List.foldl_cons] at ih ⊢
    rw [ih]
    unfold gsum
    rw [lsum_cons]
    rcases x with ⟨m, k⟩
    cases m <;> simp [sstep, gW, WindingState.update] <;> omega

/-- `is_in` left of position `k` of a signature list -/
theorem WatS_isIn (rule : Slab.Rule) (l : List (Bool × Int)) (k : Nat) :
    (WatS rule l k).isIn = rule.isIn (gsum (l.take k)) := by
  rw [(good_WatS rule l k).canon]
  unfold WatS
  rw [sfold_number]
  simp [WindingState.new]

/-- merge vertices carry winding 0 -/
def MZl (l : List (Bool × Int)) : Prop := ∀ x ∈ l, x.1 = true → x.2 = 0

/-- the merge vertices before position `m` lie in `in` regions -/
def K4upto (rule : Slab.Rule) (l : List (Bool × Int)) (m : Nat) : Prop :=
  ∀ p, p < m → ∀ x, l[p]? = some x → x.1 = true → rule.isIn (gsum (l.take p)) = true

/-- the signatures of an array of active edges -/
def sgA (a : Array (ActiveEdge α)) : List (Bool × Int) := a.toList.map sigOf

theorem sgA_length (a : Array (ActiveEdge α)) : (sgA a).length = a.size := by simp [sgA]

theorem sgA_getElem? (a : Array (ActiveEdge α)) (k : Nat) : (sgA a)[k]? = (a[k]?).map sigOf := by
  simp [sgA]

/-! ### swapping two neighbours of a list -/

theorem decomp_pair {γ : Type} (l : List γ) (i : Nat) (hi : i + 1 < l.length) :
    ∃ A y x B, l = A ++ y :: x :: B ∧ A.length = i ∧ y = l[i] ∧ x = l[i + 1] := by
  refine ⟨l.take i, l[i], l[i + 1], l.drop (i + 2), ?_, by simp; omega, rfl, rfl⟩
  conv => lhs; rw [← List.take_append_drop i l]
  congr 1
  rw [List.drop_eq_getElem_cons (by omega), List.drop_eq_getElem_cons (by omega)]

theorem swap_app {γ : Type} (A B : List γ) (x y : γ) :
    ((A ++ y :: x :: B).set (A.length + 1) y).set A.length x = A ++ x :: y :: B := by
  induction A with
  | nil => simp
  | cons a A ih => simp [ih]


theorem gsum_append (l m : List (Bool × Int)) : gsum (l ++ m) = gsum l + gsum m := lsum_append _ _ _
theorem gsum_cons (x : Bool × Int) (l : List (Bool × Int)) : gsum (x :: l) = gW x + gsum l := lsum_cons _ _ _
theorem gsum_nil : gsum [] = 0 := rfl

theorem gW_merge {x : Bool × Int} (h : x.1 = true) : gW x = 0 := by simp [gW, h]

theorem gW_eq_snd {l : List (Bool × Int)} (hz : MZl l) {x : Bool × Int} (hx : x ∈ l) : gW x = x.2 := by
  unfold gW
  by_cases h : x.1 = true
  · simp [h, hz x hx h]
  · simp [h]

/-- what one swap of the fix-up does to the signature list -/
theorem sgA_swap (a : Array (ActiveEdge α)) (idx : Nat) (x y : ActiveEdge α) (A B : List (Bool × Int))
    (sy sx : Bool × Int) (h : sgA a = A ++ sy :: sx :: B) (hA : A.length + 1 = idx)
    (hx : sigOf x = sx) (hy : sigOf y = sy) :
    sgA ((a.setIfInBounds idx y).setIfInBounds (idx - 1) x) = A ++ sx :: sy :: B := by
  unfold sgA at h ⊢
  rw [Array.toList_setIfInBounds, Array.toList_setIfInBounds, List.map_set, List.map_set, h, hx, hy]
  have e1 : idx = A.length + 1 := hA.symm
  have e2 : idx - 1 = A.length := by omega
  rw [e2, e1]
  exact swap_app A B sx sy

/-- **the merge-vertex fix-up**: the merge vertex at `idx` (signature `sx`, prefix winding `w`) is moved
left to a place whose prefix winding is `in`; the other merge vertices keep their prefix windings -/
theorem swapBack_spec (rule : Slab.Rule) : ∀ (f : Nat) (a : Array (ActiveEdge α)) (idx : Nat) (w : Int)
    (a' : Array (ActiveEdge α)) (A B : List (Bool × Int)) (sx : Bool × Int),
    swapBack rule f a idx w = .ok a' → sgA a = A ++ sx :: B → A.length = idx → sx.1 = true →
    MZl (sgA a) → w = gsum A → K4upto rule (sgA a) idx →
    a'.size = a.size ∧ gsum (sgA a') = gsum (sgA a) ∧ MZl (sgA a') ∧ K4upto rule (sgA a') (idx + 1) ∧
    (sgA a').drop (idx + 1) = B ∧ gsum ((sgA a').take (idx + 1)) = gsum A
  | 0, a, idx, w, a', A, B, sx, e, _, _, _, _, _, _ => by simp [swapBack] at e
  | f+1, a, idx, w, a', A, B, sx, e, hs, hA, hsx, hz, hw, hk => by
    simp only [swapBack] at e
    split at e
    · cases e
    · rename_i h0
      have hidx : idx ≠ 0 := by simpa using h0
      -- the element left of the merge vertex
      obtain ⟨A', sy, rfl⟩ : ∃ A' sy, A = A' ++ [sy] := by
        rcases List.eq_nil_or_concat A with h | ⟨A', sy, h⟩
        · rw [h] at hA; simp at hA; omega
        · exact ⟨A', sy, by rw [h]; simp⟩
      have hA' : A'.length + 1 = idx := by simpa using hA
      have hs' : sgA a = A' ++ sy :: sx :: B := by rw [hs]; simp
      split at e
      · rename_i x y hx hy
        have hsx' : sigOf x = sx := by
          have := sgA_getElem? a idx
          rw [hx, hs', List.getElem?_append_right (by omega)] at this
          have e2 : idx - A'.length = 1 := by omega
          rw [e2] at this
          simpa using this.symm
        have hsy' : sigOf y = sy := by
          have := sgA_getElem? a (idx - 1)
          rw [hy, hs', List.getElem?_append_right (by omega)] at this
          have e2 : idx - 1 - A'.length = 0 := by omega
          rw [e2] at this
          simpa using this.symm
        have hsw := sgA_swap a idx x y A' B sy sx hs' hA' hsx' hsy'
        have hyw : y.winding = gW sy := by
          have : sy ∈ sgA a := by rw [hs']; simp
          rw [gW_eq_snd hz this, ← hsy']; rfl
        have hw' : w - y.winding = gsum A' := by
          rw [hw, gsum_append, gsum_cons, gsum_nil, hyw]; omega
        have hg1 : gsum (A' ++ sx :: sy :: B) = gsum (sgA a) := by
          rw [hs']; simp only [gsum_append, gsum_cons]; omega
        have hz1 : MZl (A' ++ sx :: sy :: B) := by
          intro z hzm
          apply hz z
          rw [hs']
          simp only [List.mem_append, List.mem_cons] at hzm ⊢
          rcases hzm with h | h | h | h
          · exact Or.inl h
          · exact Or.inr (Or.inr (Or.inl h))
          · exact Or.inr (Or.inl h)
          · exact Or.inr (Or.inr (Or.inr h))
        -- merge vertices strictly before the pair keep their prefixes
        have hk1 : K4upto rule (A' ++ sx :: sy :: B) (idx - 1) := by
          intro p hp z hzp hz1'
          have hpA : p < A'.length := by omega
          rw [List.getElem?_append_left hpA] at hzp
          have := hk p (by omega) z (by rw [hs', List.getElem?_append_left hpA]; exact hzp) hz1'
          rw [hs', List.take_append_of_le_length (by omega)] at this
          rw [List.take_append_of_le_length (by omega)]
          exact this
        -- the element `sy`, if a merge vertex, had an `in` prefix
        have hsyin : sy.1 = true → rule.isIn (gsum A') = true := by
          intro h
          have := hk (idx - 1) (by omega) sy (by
            rw [hs', List.getElem?_append_right (by omega)]
            have e2 : idx - 1 - A'.length = 0 := by omega
            rw [e2]; rfl) h
          rw [hs'] at this
          have e3 : idx - 1 = A'.length := by omega
          rw [e3, List.take_left'] at this
          · exact this
          · rfl
        split at e
        · -- the swap ends the loop
          rename_i hin
          cases e
          rw [hsw]
          refine ⟨by simp, hg1, hz1, ?_, ?_, ?_⟩
          · intro p hp z hzp hz1'
            by_cases hp1 : p < idx - 1
            · exact hk1 p hp1 z hzp hz1'
            · by_cases hp2 : p = idx - 1
              · have e3 : p = A'.length := by omega
                rw [e3, List.take_left']
                · rw [← hw']; exact hin
                · rfl
              · have e3 : p = A'.length + 1 := by omega
                rw [e3] at hzp ⊢
                rw [List.getElem?_append_right (by omega)] at hzp
                have e4 : A'.length + 1 - A'.length = 1 := by omega
                rw [e4] at hzp
                have hzy : z = sy := by simpa using hzp.symm
                have : (A' ++ sx :: sy :: B).take (A'.length + 1) = A' ++ [sx] := by
                  have : A' ++ sx :: sy :: B = (A' ++ [sx]) ++ sy :: B := by simp
                  rw [this, List.take_left']
                  simp
                rw [this, gsum_append, gsum_cons, gsum_nil, gW_merge hsx]
                have := hsyin (hzy ▸ hz1')
                simpa using this
          · have e3 : idx + 1 = (A' ++ [sx, sy]).length := by simp; omega
            have : A' ++ sx :: sy :: B = (A' ++ [sx, sy]) ++ B := by simp
            rw [this, e3, List.drop_left]
          · have e3 : idx + 1 = (A' ++ [sx, sy]).length := by simp; omega
            have : A' ++ sx :: sy :: B = (A' ++ [sx, sy]) ++ B := by simp
            rw [this, e3, List.take_left]
            simp only [gsum_append, gsum_cons, gsum_nil, gW_merge hsx]
            omega
        · -- one more step to the left
          have ih := swapBack_spec rule f _ (idx - 1) _ a' A' (sy :: B) sx e hsw (by omega) hsx
            (by rw [hsw]; exact hz1) hw' (by rw [hsw]; exact hk1)
          obtain ⟨r1, r2, r3, r4, r5, r6⟩ := ih
          have e1 : idx - 1 + 1 = idx := by omega
          rw [e1] at r4 r5 r6
          have hel : (sgA a')[idx]? = some sy := by
            have := congrArg (fun l => l[0]?) r5
            simpa using this
          refine ⟨by rw [r1]; simp, by rw [r2, hsw]; exact hg1, r3, ?_, ?_, ?_⟩
          · intro p hp z hzp hz1'
            by_cases hp1 : p < idx
            · exact r4 p hp1 z hzp hz1'
            · have e3 : p = idx := by omega
              rw [e3] at hzp ⊢
              rw [hel] at hzp
              have hzy : z = sy := (Option.some.inj hzp).symm
              have := hsyin (hzy ▸ hz1')
              have hR : rule.isIn (gsum ((sgA a').take idx)) = rule.isIn (gsum A') := by rw [r6]
              rw [hR]; exact this
          · have : (sgA a').drop (idx + 1) = ((sgA a').drop idx).drop 1 := by simp
            rw [this, r5]; rfl
          · have hlt : idx < (sgA a').length := by
              rcases List.getElem?_eq_some_iff.mp hel with ⟨h, _⟩; exact h
            rw [List.take_succ_eq_append_getElem hlt, gsum_append, gsum_cons, gsum_nil, r6]
            have : (sgA a')[idx] = sy := by
              rcases List.getElem?_eq_some_iff.mp hel with ⟨_, h⟩; exact h
            rw [this, gsum_append, gsum_cons, gsum_nil]
      · cases e

end Lyon.SweepCoh
