/-
  C06b, part 8: reach.  Every emitted triangle stays within `w/2 · √(1 + M²)` of the segment of its edge,
  `M` the largest OUTWARD shift (in half widths) of that edge's quad corners: `0` for bevel-shaped joins
  and butt caps, `1` for a square cap, `|tan(θ/2)|` for a kept miter (`√(1+tan²) = 1/cos(θ/2)`, the
  miter length).

  * `NearSeg X t L r2 p`: `p` is within squared distance `r2` of the segment `X + t·x`, `0 ≤ x ≤ L`.
  * `nearSeg_tri`: the set of such points is convex, so a triangle whose corners are near is near.
  * `near_pt`: a point `X ± perp(t)·hw + t·z` with `−D ≤ z ≤ L + D` is within `hw² + D²`.
-/
import LyonVerif.Lemmas.StrokeCoverAsm

set_option linter.unusedSectionVars false
set_option linter.unusedVariables false

namespace Lyon.C06b
open Lyon Scalar Lyon.Stroke Lyon.Stroke.Full Lyon.C05 Lyon.C05b Lyon.C05c Lyon.C06
open Lyon.StrokeQuad (lineIntersection)

section
variable {K : Type} [Field K] [LinearOrder K] [IsStrictOrderedRing K]

/-- `p` is within squared distance `r2` of the segment `{X + t·x : 0 ≤ x ≤ L}` -/
def NearSeg (X t : P K) (L r2 : K) (p : P K) : Prop :=
  ∃ x, 0 ≤ x ∧ x ≤ L ∧ (p - (X + t.smul x)).sqLen ≤ r2

theorem jensen3 (l m n a1 a2 a3 : K) (hl : 0 ≤ l) (hm : 0 ≤ m) (hn : 0 ≤ n) (hs : l + m + n = 1) :
    (l * a1 + m * a2 + n * a3) * (l * a1 + m * a2 + n * a3) ≤ l * (a1 * a1) + m * (a2 * a2) + n * (a3 * a3) := by
  have h1 : 0 ≤ l * m * ((a1 - a2) * (a1 - a2)) := mul_nonneg (mul_nonneg hl hm) (mul_self_nonneg _)
  have h2 : 0 ≤ l * n * ((a1 - a3) * (a1 - a3)) := mul_nonneg (mul_nonneg hl hn) (mul_self_nonneg _)
  have h3 : 0 ≤ m * n * ((a2 - a3) * (a2 - a3)) := mul_nonneg (mul_nonneg hm hn) (mul_self_nonneg _)
  have key : l * (a1 * a1) + m * (a2 * a2) + n * (a3 * a3) - (l * a1 + m * a2 + n * a3) * (l * a1 + m * a2 + n * a3)
      = l * m * ((a1 - a2) * (a1 - a2)) + l * n * ((a1 - a3) * (a1 - a3)) + m * n * ((a2 - a3) * (a2 - a3)) := by
    have e : n = 1 - l - m := by linarith
    subst e; ring
  linarith

/-- the neighbourhood of a segment is convex: a triangle with near corners is near -/
theorem nearSeg_tri (X t : P K) (L r2 : K) (p1 p2 p3 q : P K)
    (h1 : NearSeg X t L r2 p1) (h2 : NearSeg X t L r2 p2) (h3 : NearSeg X t L r2 p3)
    (hq : InTri q (p1, p2, p3)) : NearSeg X t L r2 q := by
  obtain ⟨x1, a1, b1, c1⟩ := h1
  obtain ⟨x2, a2, b2, c2⟩ := h2
  obtain ⟨x3, a3, b3, c3⟩ := h3
  obtain ⟨l, m, n, hl, hm, hn, hs, hx, hy⟩ := hq
  simp only [] at hx hy
  refine ⟨l * x1 + m * x2 + n * x3, by positivity, ?_, ?_⟩
  · have : l * x1 + m * x2 + n * x3 ≤ l * L + m * L + n * L := by
      have := mul_le_mul_of_nonneg_left b1 hl
      have := mul_le_mul_of_nonneg_left b2 hm
      have := mul_le_mul_of_nonneg_left b3 hn
      linarith
    have e : l * L + m * L + n * L = L := by linear_combination L * hs
    linarith
  · simp only [geom] at c1 c2 c3 ⊢
    have ex : q.x - (X.x + t.x * (l * x1 + m * x2 + n * x3))
        = l * (p1.x - (X.x + t.x * x1)) + m * (p2.x - (X.x + t.x * x2)) + n * (p3.x - (X.x + t.x * x3)) := by
      rw [hx]; linear_combination X.x * hs
    have ey : q.y - (X.y + t.y * (l * x1 + m * x2 + n * x3))
        = l * (p1.y - (X.y + t.y * x1)) + m * (p2.y - (X.y + t.y * x2)) + n * (p3.y - (X.y + t.y * x3)) := by
      rw [hy]; linear_combination X.y * hs
    rw [ex, ey]
    have jx := jensen3 l m n (p1.x - (X.x + t.x * x1)) (p2.x - (X.x + t.x * x2)) (p3.x - (X.x + t.x * x3)) hl hm hn hs
    have jy := jensen3 l m n (p1.y - (X.y + t.y * x1)) (p2.y - (X.y + t.y * x2)) (p3.y - (X.y + t.y * x3)) hl hm hn hs
    have := mul_le_mul_of_nonneg_left c1 hl
    have := mul_le_mul_of_nonneg_left c2 hm
    have := mul_le_mul_of_nonneg_left c3 hn
    have e : l * r2 + m * r2 + n * r2 = r2 := by linear_combination r2 * hs
    linarith

theorem NearSeg.mono {X t : P K} {L r2 r2' : K} {p : P K} (h : NearSeg X t L r2 p) (hr : r2 ≤ r2') :
    NearSeg X t L r2' p := by
  obtain ⟨x, a, b, c⟩ := h
  exact ⟨x, a, b, le_trans c hr⟩

section
variable [Transc K]

/-- a point `X + perp(t)·c + t·z` (`t` a unit vector, `c² = hw²`) at most `D` beyond either end of the
segment is within `hw² + D²` of it -/
theorem near_pt (X t : P K) (L hw c z D : K) (hL : 0 ≤ L) (hunit : t.sqLen = 1) (hc : c * c = hw * hw) (hD : 0 ≤ D)
    (hz0 : -D ≤ z) (hz1 : z ≤ L + D) :
    NearSeg X t L (hw * hw + D * D) (X + (perp t).smul c + t.smul z) := by
  have hsq : ∀ x : K, ((X + (perp t).smul c + t.smul z) - (X + t.smul x)).sqLen = hw * hw + (z - x) * (z - x) := by
    intro x
    simp only [perp, geom] at hunit ⊢
    linear_combination (c * c + (z - x) * (z - x)) * hunit + hc
  by_cases h0 : z < 0
  · refine ⟨0, le_refl _, hL, ?_⟩
    rw [hsq]; nlinarith
  · by_cases h1 : L < z
    · refine ⟨L, hL, le_refl _, ?_⟩
      rw [hsq]; nlinarith
    · refine ⟨z, not_lt.mp h0, not_lt.mp h1, ?_⟩
      rw [hsq]; nlinarith [mul_self_nonneg D]

end

section Asm
variable [Transc K]

/-- the largest OUTWARD shift (half widths) of the corners of edge `k`'s quad: `0` (bevel-shaped joins, butt
caps), `1` (square cap), `|tan(θ/2)|` (kept miter) -/
noncomputable def outK (e : Env K) (pt : Nat → P K) (n k : Nat) : K :=
  Max.max 0 (Max.max (-sA0 e pt k) (Max.max (-sA1 e pt k) (Max.max (sB0 e pt n k) (sB1 e pt n k))))

/-- squared reach of edge `k`: `(w/2)² · (1 + outK²)` -/
noncomputable def reachSq (e : Env K) (pt : Nat → P K) (n k : Nat) : K :=
  e.hwFw * e.hwFw + (e.hwFw * outK e pt n k) * (e.hwFw * outK e pt n k)

/-- the four corners of edge `k`'s quad -/
noncomputable def cornerList (e : Env K) (pt : Nat → P K) (n k : Nat) : List (P K) :=
  [pt k - (perp (eT pt k)).smul e.hwFw + (eT pt k).smul (e.hwFw * sA0 e pt k),
   pt k + (perp (eT pt k)).smul e.hwFw + (eT pt k).smul (e.hwFw * sA1 e pt k),
   pt (k + 1) + (perp (eT pt k)).smul e.hwFw + (eT pt k).smul (e.hwFw * sB1 e pt n k),
   pt (k + 1) - (perp (eT pt k)).smul e.hwFw + (eT pt k).smul (e.hwFw * sB0 e pt n k)]

theorem outK_bounds (e : Env K) (pt : Nat → P K) (n k : Nat) :
    0 ≤ outK e pt n k ∧ -outK e pt n k ≤ sA0 e pt k ∧ -outK e pt n k ≤ sA1 e pt k
    ∧ sB0 e pt n k ≤ outK e pt n k ∧ sB1 e pt n k ≤ outK e pt n k := by
  unfold outK
  refine ⟨le_max_left _ _, ?_, ?_, ?_, ?_⟩
  · have : -sA0 e pt k ≤ Max.max 0 (Max.max (-sA0 e pt k) (Max.max (-sA1 e pt k) (Max.max (sB0 e pt n k) (sB1 e pt n k)))) :=
      le_trans (le_max_left _ _) (le_max_right _ _)
    linarith
  · have : -sA1 e pt k ≤ Max.max 0 (Max.max (-sA0 e pt k) (Max.max (-sA1 e pt k) (Max.max (sB0 e pt n k) (sB1 e pt n k)))) :=
      le_trans (le_trans (le_max_left _ _) (le_max_right _ _)) (le_max_right _ _)
    linarith
  · exact le_trans (le_trans (le_trans (le_max_left _ _) (le_max_right _ _)) (le_max_right _ _)) (le_max_right _ _)
  · exact le_trans (le_trans (le_trans (le_max_right _ _) (le_max_right _ _)) (le_max_right _ _)) (le_max_right _ _)

/-- the four corners of edge `k`'s quad are within the reach of the edge's segment -/
theorem corners_near {e : Env K} {eps : K} (h : CoverHyp e eps) {pt : Nat → P K} {n : Nat} (hr : Regime e eps pt n)
    (k : Nat) (hk : k < n) :
    ∀ p ∈ cornerList e pt n k, NearSeg (pt k) (eT pt k) (eL pt k) (reachSq e pt n k) p := by
  obtain ⟨hL, hunit, hd⟩ := edge_eq h.sqrt_nonneg h.sqrt_sq pt k (regime_sq h hr k hk)
  obtain ⟨o0, o1, o2, o3, o4⟩ := outK_bounds e pt n k
  obtain ⟨b1, b2, b3, b4⟩ := shift_bounds e pt n k hk
  have hreg := hr.2.2.2.2 k hk
  have hw := h.hw
  have t0 := tauAbs_nonneg pt n k
  have t1 := tauAbs_nonneg pt n (k + 1)
  have hD : 0 ≤ e.hwFw * outK e pt n k := mul_nonneg (le_of_lt hw) o0
  have hj : pt (k + 1) = pt k + (eT pt k).smul (eL pt k) := by
    rw [← hd]; apply P.ext' <;> simp only [geom] <;> ring
  have hwT0 : e.hwFw * tauAbs pt n k ≤ eL pt k := by nlinarith [mul_nonneg (le_of_lt hw) t1]
  have hwT1 : e.hwFw * tauAbs pt n (k + 1) ≤ eL pt k := by nlinarith [mul_nonneg (le_of_lt hw) t0]
  intro p hp
  simp only [cornerList, List.mem_cons, List.mem_nil_iff, or_false] at hp
  rcases hp with rfl | rfl | rfl | rfl
  · have e1 : pt k - (perp (eT pt k)).smul e.hwFw + (eT pt k).smul (e.hwFw * sA0 e pt k)
        = pt k + (perp (eT pt k)).smul (-e.hwFw) + (eT pt k).smul (e.hwFw * sA0 e pt k) := by
      apply P.ext' <;> simp only [geom] <;> ring
    rw [e1]
    refine near_pt _ _ _ e.hwFw _ _ _ (le_of_lt hL) hunit (by ring) hD ?_ ?_
    · have := mul_le_mul_of_nonneg_left o1 (le_of_lt hw); linarith
    · have := mul_le_mul_of_nonneg_left b1 (le_of_lt hw); linarith
  · refine near_pt _ _ _ e.hwFw _ _ _ (le_of_lt hL) hunit rfl hD ?_ ?_
    · have := mul_le_mul_of_nonneg_left o2 (le_of_lt hw); linarith
    · have := mul_le_mul_of_nonneg_left b2 (le_of_lt hw); linarith
  · have e1 : pt (k + 1) + (perp (eT pt k)).smul e.hwFw + (eT pt k).smul (e.hwFw * sB1 e pt n k)
        = pt k + (perp (eT pt k)).smul e.hwFw + (eT pt k).smul (eL pt k + e.hwFw * sB1 e pt n k) := by
      rw [hj]; apply P.ext' <;> simp only [geom] <;> ring
    rw [e1]
    refine near_pt _ _ _ e.hwFw _ _ _ (le_of_lt hL) hunit rfl hD ?_ ?_
    · have := mul_le_mul_of_nonneg_left b4 (le_of_lt hw); linarith
    · have := mul_le_mul_of_nonneg_left o4 (le_of_lt hw); linarith
  · have e1 : pt (k + 1) - (perp (eT pt k)).smul e.hwFw + (eT pt k).smul (e.hwFw * sB0 e pt n k)
        = pt k + (perp (eT pt k)).smul (-e.hwFw) + (eT pt k).smul (eL pt k + e.hwFw * sB0 e pt n k) := by
      rw [hj]; apply P.ext' <;> simp only [geom] <;> ring
    rw [e1]
    refine near_pt _ _ _ e.hwFw _ _ _ (le_of_lt hL) hunit (by ring) hD ?_ ?_
    · have := mul_le_mul_of_nonneg_left b3 (le_of_lt hw); linarith
    · have := mul_le_mul_of_nonneg_left o3 (le_of_lt hw); linarith

/-- a triangle all of whose corners are near a segment stays near it -/
theorem triIn_near {o : Out K} {S : List (P K)} {t : Stroke.Tri} (hT : TriIn o S t) (X tv : P K) (L r2 : K)
    (hS : ∀ p ∈ S, NearSeg X tv L r2 p) :
    ∃ v1 v2 v3 : VData K, o.verts[t.1]? = some v1 ∧ o.verts[t.2.1]? = some v2 ∧ o.verts[t.2.2]? = some v3
      ∧ ∀ q, InTri q (v1.read.position, v2.read.position, v3.read.position) → NearSeg X tv L r2 q := by
  obtain ⟨p1, p2, p3, ⟨v1, e1, q1⟩, ⟨v2, e2, q2⟩, ⟨v3, e3, q3⟩, m1, m2, m3⟩ := hT
  refine ⟨v1, v2, v3, e1, e2, e3, ?_⟩
  intro q hq
  have : (v1.read.position, v2.read.position, v3.read.position) = (p1, p2, p3) := by
    show (v1.position, v2.position, v3.position) = _
    rw [q1, q2, q3]
  rw [this] at hq
  exact nearSeg_tri X tv L r2 p1 p2 p3 q (hS _ m1) (hS _ m2) (hS _ m3) hq

/-- the triangles of a round join's fan: vertices of the join or on the circle around the path point -/
theorem triFan_near {o : Out K} {S : List (P K)} {c : P K} {r : K} {t : Stroke.Tri} (hT : TriFan o S c r t)
    (X tv : P K) (L r2 : K) (hS : ∀ p ∈ S, NearSeg X tv L r2 p)
    (hc : ∀ p : P K, (p - c).sqLen = r → NearSeg X tv L r2 p) :
    ∃ v1 v2 v3 : VData K, o.verts[t.1]? = some v1 ∧ o.verts[t.2.1]? = some v2 ∧ o.verts[t.2.2]? = some v3
      ∧ ∀ q, InTri q (v1.read.position, v2.read.position, v3.read.position) → NearSeg X tv L r2 q := by
  obtain ⟨p1, p2, p3, ⟨v1, e1, q1⟩, ⟨v2, e2, q2⟩, ⟨v3, e3, q3⟩, m1, m2, m3⟩ := hT
  refine ⟨v1, v2, v3, e1, e2, e3, ?_⟩
  intro q hq
  have : (v1.read.position, v2.read.position, v3.read.position) = (p1, p2, p3) := by
    show (v1.position, v2.position, v3.position) = _
    rw [q1, q2, q3]
  rw [this] at hq
  have hh : ∀ p : P K, (p ∈ S ∨ (p - c).sqLen = r) → NearSeg X tv L r2 p := by
    intro p hp
    rcases hp with hp | hp
    · exact hS p hp
    · exact hc p hp
  exact nearSeg_tri X tv L r2 p1 p2 p3 q (hh _ m1) (hh _ m2) (hh _ m3) hq

/-- the points of the circle of radius `w/2` around the end point of edge `k` are within the reach of edge `k` -/
theorem circle_near {e : Env K} {eps : K} (h : CoverHyp e eps) {pt : Nat → P K} (n k : Nat)
    (hL : 0 < (pt (k + 1) - pt k).sqLen) :
    ∀ p : P K, (p - pt (k + 1)).sqLen = e.hwFw * e.hwFw → NearSeg (pt k) (eT pt k) (eL pt k) (reachSq e pt n k) p := by
  intro p hp
  obtain ⟨hLe, hunit, hd⟩ := edge_eq h.sqrt_nonneg h.sqrt_sq pt k hL
  have hj : pt (k + 1) = pt k + (eT pt k).smul (eL pt k) := by
    rw [← hd]; apply P.ext' <;> simp only [geom] <;> ring
  refine ⟨eL pt k, le_of_lt hLe, le_refl _, ?_⟩
  rw [← hj, hp]
  unfold reachSq
  have := mul_self_nonneg (e.hwFw * outK e pt n k)
  linarith

/-- … and the points of the circle around the first point are within the reach of edge `0` -/
theorem circle_near_start {e : Env K} {eps : K} (h : CoverHyp e eps) {pt : Nat → P K} (n : Nat)
    (hL : 0 < (pt (0 + 1) - pt 0).sqLen) :
    ∀ p : P K, (p - pt 0).sqLen = e.hwFw * e.hwFw → NearSeg (pt 0) (eT pt 0) (eL pt 0) (reachSq e pt n 0) p := by
  intro p hp
  obtain ⟨hLe, hunit, hd⟩ := edge_eq h.sqrt_nonneg h.sqrt_sq pt 0 hL
  have hj : pt 0 + (eT pt 0).smul 0 = pt 0 := by apply P.ext' <;> simp only [geom] <;> ring
  refine ⟨0, le_refl _, le_of_lt hLe, ?_⟩
  rw [hj, hp]
  unfold reachSq
  have := mul_self_nonneg (e.hwFw * outK e pt n 0)
  linarith

/-- the corner sets of `Emitted.only`, in closed form -/
theorem quadSet_inner {e : Env K} {eps : K} (h : CoverHyp e eps) {pt : Nat → P K} {n : Nat} (hr : Regime e eps pt n)
    (i : Nat) (hi : i + 1 + 1 < n) : quadSet (jEP e pt (i + 1)) (jEP e pt (i + 1 + 1)) = cornerList e pt n (i + 1) := by
  have Ja := regime_jclosed h hr i (by omega)
  have Jb := regime_jclosed h hr (i + 1) hi
  unfold quadSet cornerList
  rw [Ja.sNegNext, Ja.sPosNext, Jb.sPosPrev, Jb.sNegPrev]
  simp only [sA0, sA1, sB0, sB1, if_neg (Nat.succ_ne_zero i), if_neg (show ¬ (i + 1 + 1 = n) by omega), Nat.add_sub_cancel]

theorem quadSet_last {e : Env K} {eps : K} (h : CoverHyp e eps) {pt : Nat → P K} (k : Nat)
    (hr : Regime e eps pt (k + 1 + 1)) :
    [sNext (jEP e pt (k + 1 + 1 - 1)).neg, sNext (jEP e pt (k + 1 + 1 - 1)).pos, endPos e pt (k + 1 + 1), endNeg e pt (k + 1 + 1)]
      = cornerList e pt (k + 1 + 1) (k + 1) := by
  have Ja := regime_jclosed h hr k (by omega)
  have hidx : k + 1 + 1 - 1 = k + 1 := rfl
  rw [hidx]
  have hnp : ∀ b : Bool, e.hwFw * (if b then 0 else -lamAt e pt (k + 1)) ≤ 0 := by
    intro b
    have : (if b then (0 : K) else -lamAt e pt (k + 1)) ≤ 0 := by
      split_ifs
      · exact le_refl _
      · have := lamAt_nonneg e pt (k + 1); linarith
    exact mul_nonpos_of_nonneg_of_nonpos (le_of_lt h.hw) this
  have hprev : prevNext e pt (k + 1 + 1)
      = (pt (k + 1) + (perp (eT pt (k + 1))).smul e.hwFw
          + (eT pt (k + 1)).smul (e.hwFw * (if psAt e pt (k + 1) then 0 else -lamAt e pt (k + 1))),
         pt (k + 1) - (perp (eT pt (k + 1))).smul e.hwFw
          + (eT pt (k + 1)).smul (e.hwFw * (if nsAt e pt (k + 1) then 0 else -lamAt e pt (k + 1)))) := by
    unfold prevNext; rw [if_neg (by omega)]
    show ((jEP e pt (k + 1)).pos.next, (jEP e pt (k + 1)).neg.next) = _
    rw [Ja.posNext, Ja.negNext]
  obtain ⟨c1, c2⟩ := endCap_closedG e eps h.ix_eq h.eps_nonneg h.sqrt_nonneg h.sqrt_sq pt (k + 1)
    (regime_sq h hr _ (by omega)) (hr.2.1 _ (by omega)) _ _ (hnp _) (hnp _) hprev
  unfold cornerList
  rw [Ja.sNegNext, Ja.sPosNext, c1, c2, capShift_eq]
  simp only [sA0, sA1, sB0, sB1, if_true, if_neg (Nat.succ_ne_zero k), Nat.add_sub_cancel]

theorem quadSet_first {e : Env K} {eps : K} (h : CoverHyp e eps) {pt : Nat → P K} {n : Nat} (hr : Regime e eps pt n)
    (hn : 2 ≤ n) :
    [startNeg e pt n, startPos e pt n, sPrev (jEP e pt 1).pos, sPrev (jEP e pt 1).neg] = cornerList e pt n 0 := by
  have J := regime_jclosed h hr 0 (by omega)
  have hnn : ∀ b : Bool, (0 : K) ≤ e.hwFw * (if b then 0 else lamAt e pt (0 + 1)) := by
    intro b; apply mul_nonneg (le_of_lt h.hw); split_ifs
    · exact le_refl _
    · exact lamAt_nonneg _ _ _
  have hsec : secondPrev e pt n = (pt 1 + (perp (eT pt 0)).smul e.hwFw
        + (eT pt 0).smul (e.hwFw * (if psAt e pt (0 + 1) then 0 else lamAt e pt (0 + 1))),
      pt 1 - (perp (eT pt 0)).smul e.hwFw
        + (eT pt 0).smul (e.hwFw * (if nsAt e pt (0 + 1) then 0 else lamAt e pt (0 + 1)))) := by
    unfold secondPrev; rw [if_neg (by omega), J.posPrev, J.negPrev]
  obtain ⟨d1, d2⟩ := startCap_closedG e eps h.ix_eq h.eps_nonneg h.sqrt_nonneg h.sqrt_sq pt n
    (regime_sq h hr 0 (by omega)) (hr.2.1 0 (by omega)) _ _ (hnn _) (hnn _) hsec
  unfold cornerList
  rw [d1, d2, J.sPosPrev, J.sNegPrev, capShift_eq]
  have hb : ¬ (0 + 1 = n) := by omega
  have e1 : e.hwFw * -capU e.o.startCap = -(e.hwFw * capU e.o.startCap) := by ring
  simp only [sA0, sA1, sB0, sB1, if_true, if_neg hb, e1]

theorem quadSet_single {e : Env K} {eps : K} (h : CoverHyp e eps) {pt : Nat → P K} (hr : Regime e eps pt 1) :
    [startNeg e pt 1, startPos e pt 1, endPos e pt 1, endNeg e pt 1] = cornerList e pt 1 0 := by
  have hprev : prevNext e pt (0 + 1) = (pt 0 + (perp (eT pt 0)).smul e.hwFw, pt 0 - (perp (eT pt 0)).smul e.hwFw) := rfl
  obtain ⟨c1, c2⟩ := endCap_closed e eps h.ix_eq h.eps_nonneg h.sqrt_nonneg h.sqrt_sq pt 0
    (regime_sq h hr 0 (by omega)) (hr.2.1 0 (by omega)) hprev
  have hμ : (0 : K) ≤ capShift e.o.endCap e.hwFw := by
    rw [capShift_eq]; exact mul_nonneg (le_of_lt h.hw) (capU_nonneg _)
  have hsec : secondPrev e pt 1 = (pt 1 + (perp (eT pt 0)).smul e.hwFw + (eT pt 0).smul (capShift e.o.endCap e.hwFw),
      pt 1 - (perp (eT pt 0)).smul e.hwFw + (eT pt 0).smul (capShift e.o.endCap e.hwFw)) := by
    unfold secondPrev; rw [if_pos rfl, c1, c2]
  obtain ⟨d1, d2⟩ := startCap_closed e eps h.ix_eq h.eps_nonneg h.sqrt_nonneg h.sqrt_sq pt 1
    (regime_sq h hr 0 (by omega)) (hr.2.1 0 (by omega)) _ hμ hsec
  unfold cornerList
  rw [d1, d2, c1, c2, capShift_eq, capShift_eq]
  have e1 : e.hwFw * -capU e.o.startCap = -(e.hwFw * capU e.o.startCap) := by ring
  simp only [sA0, sA1, sB0, sB1, if_true, e1]

/-- the vertices of the join at `pt (k+1)` are within the reach of the edge `k` that ends there -/
theorem joinSet_near {e : Env K} {eps : K} (h : CoverHyp e eps) {pt : Nat → P K} {n : Nat} (hr : Regime e eps pt n)
    (k : Nat) (hk : k + 1 < n) :
    ∀ p ∈ joinSet (jEP e pt (k + 1)), NearSeg (pt k) (eT pt k) (eL pt k) (reachSq e pt n k) p := by
  have J := regime_jclosed h hr k hk
  have hc := corners_near h hr k (by omega)
  obtain ⟨hL, hunit, hd⟩ := edge_eq h.sqrt_nonneg h.sqrt_sq pt k (regime_sq h hr k (by omega))
  obtain ⟨_, hunit1, _⟩ := edge_eq h.sqrt_nonneg h.sqrt_sq pt (k + 1) (regime_sq h hr (k + 1) hk)
  have hnl : ¬ (k + 1 = n) := by omega
  have hj : pt (k + 1) = pt k + (eT pt k).smul (eL pt k) := by
    rw [← hd]; apply P.ext' <;> simp only [geom] <;> ring
  have hD : 0 ≤ e.hwFw * outK e pt n k := mul_nonneg (le_of_lt h.hw) (outK_bounds e pt n k).1
  -- the two `prev` vertices are the end corners of edge `k`
  have hpn : NearSeg (pt k) (eT pt k) (eL pt k) (reachSq e pt n k) (sPrev (jEP e pt (k + 1)).neg) := by
    apply hc
    rw [J.sNegPrev]
    simp only [cornerList, sB0, if_neg hnl, List.mem_cons, List.mem_nil_iff, or_false]
    right; right; right; trivial
  have hpp : NearSeg (pt k) (eT pt k) (eL pt k) (reachSq e pt n k) (sPrev (jEP e pt (k + 1)).pos) := by
    apply hc
    rw [J.sPosPrev]
    simp only [cornerList, sB1, if_neg hnl, List.mem_cons, List.mem_nil_iff, or_false]
    right; right; left; trivial
  -- a point on an outer offset line of the next edge, at most `hw·outK` before the join
  obtain ⟨o0, _, _, o3, o4⟩ := outK_bounds e pt n k
  have hL0 := lamAt_nonneg e pt (k + 1)
  have hround : ∀ c z : K, c * c = e.hwFw * e.hwFw → z * z ≤ (e.hwFw * outK e pt n k) * (e.hwFw * outK e pt n k) →
      NearSeg (pt k) (eT pt k) (eL pt k) (reachSq e pt n k)
        (pt (k + 1) + (perp (eT pt (k + 1))).smul c + (eT pt (k + 1)).smul z) := by
    intro c z hcc hz
    refine ⟨eL pt k, le_of_lt hL, le_refl _, ?_⟩
    rw [← hj]
    have : ((pt (k + 1) + (perp (eT pt (k + 1))).smul c + (eT pt (k + 1)).smul z) - pt (k + 1)).sqLen
        = e.hwFw * e.hwFw + z * z := by
      simp only [perp, geom] at hunit1 ⊢
      linear_combination (c * c + z * z) * hunit1 + hcc
    rw [this]
    unfold reachSq
    linarith
  have hzb : ∀ L : K, 0 ≤ L → L ≤ outK e pt n k →
      (e.hwFw * -L) * (e.hwFw * -L) ≤ (e.hwFw * outK e pt n k) * (e.hwFw * outK e pt n k) := by
    intro L h0 h1
    have hw := h.hw
    have : e.hwFw * L ≤ e.hwFw * outK e pt n k := mul_le_mul_of_nonneg_left h1 (le_of_lt hw)
    have h2 : 0 ≤ e.hwFw * L := mul_nonneg (le_of_lt hw) h0
    nlinarith
  intro p hp
  simp only [joinSet, List.mem_cons, List.mem_nil_iff, or_false] at hp
  rcases hp with rfl | rfl | rfl | rfl
  · exact hpn
  · cases hns : (jEP e pt (k + 1)).neg.single with
    | some v =>
      have : sNext (jEP e pt (k + 1)).neg = sPrev (jEP e pt (k + 1)).neg := by simp [sNext, sPrev, hns]
      rw [this]; exact hpn
    | none =>
      have hnsf : nsAt e pt (k + 1) = false := by
        have := J.nsingle; rw [hns] at this; exact this.symm
      have hle : lamAt e pt (k + 1) ≤ outK e pt n k := by
        have : sB0 e pt n k = lamAt e pt (k + 1) := by simp only [sB0, if_neg hnl, hnsf, Bool.false_eq_true, if_false]
        rw [← this]; exact o3
      have : sNext (jEP e pt (k + 1)).neg
          = pt (k + 1) + (perp (eT pt (k + 1))).smul (-e.hwFw) + (eT pt (k + 1)).smul (e.hwFw * -lamAt e pt (k + 1)) := by
        simp only [sNext, hns, Option.getD_none, J.negNext, hnsf, Bool.false_eq_true, if_false]
        apply P.ext' <;> simp only [geom] <;> ring
      rw [this]; exact hround _ _ (by ring) (hzb _ hL0 hle)
  · exact hpp
  · cases hps : (jEP e pt (k + 1)).pos.single with
    | some v =>
      have : sNext (jEP e pt (k + 1)).pos = sPrev (jEP e pt (k + 1)).pos := by simp [sNext, sPrev, hps]
      rw [this]; exact hpp
    | none =>
      have hpsf : psAt e pt (k + 1) = false := by
        have := J.psingle; rw [hps] at this; exact this.symm
      have hle : lamAt e pt (k + 1) ≤ outK e pt n k := by
        have : sB1 e pt n k = lamAt e pt (k + 1) := by simp only [sB1, if_neg hnl, hpsf, Bool.false_eq_true, if_false]
        rw [← this]; exact o4
      have : sNext (jEP e pt (k + 1)).pos
          = pt (k + 1) + (perp (eT pt (k + 1))).smul e.hwFw + (eT pt (k + 1)).smul (e.hwFw * -lamAt e pt (k + 1)) := by
        simp only [sNext, hps, Option.getD_none, J.posNext, hpsf, Bool.false_eq_true, if_false]
      rw [this]; exact hround _ _ rfl (hzb _ hL0 hle)

/-- **every emitted triangle stays within the reach of the segment of its edge** -/
theorem tri_reach {e : Env K} {eps : K} (h : CoverHyp e eps) {pt : Nat → P K} {n : Nat} (hr : Regime e eps pt n)
    {o : Out K} (hE : Emitted e pt n o) (t : Stroke.Tri) (ht : t ∈ o.tris) :
    ∃ k, k < n ∧ ∃ v1 v2 v3 : VData K, o.verts[t.1]? = some v1 ∧ o.verts[t.2.1]? = some v2 ∧ o.verts[t.2.2]? = some v3
      ∧ ∀ q, InTri q (v1.read.position, v2.read.position, v3.read.position) →
          NearSeg (pt k) (eT pt k) (eL pt k) (reachSq e pt n k) q := by
  rcases hE.only t ht with ⟨i, h1, h2, hT⟩ | ⟨i, h1, h2, hT⟩ | ⟨i, h1, h2, hT⟩ | ⟨h2, hT⟩ | ⟨h2, hT⟩ | ⟨h1, hT⟩
    | ⟨h1, hT⟩ | ⟨h1, hT⟩
  rotate_right 2
  · -- the fan of a round end cap
    obtain ⟨k, rfl⟩ : ∃ k, n = k + 1 := ⟨n - 1, by omega⟩
    have hmem : ∀ p ∈ [endPos e pt (k + 1), endNeg e pt (k + 1)], p ∈ cornerList e pt (k + 1) k := by
      intro p hp
      rcases Nat.eq_zero_or_pos k with h0 | hpos
      · subst h0
        rw [← quadSet_single h hr]
        simp only [List.mem_cons, List.mem_nil_iff, or_false] at hp ⊢
        tauto
      · obtain ⟨k', rfl⟩ : ∃ k', k = k' + 1 := ⟨k - 1, by omega⟩
        rw [← quadSet_last h k' hr]
        simp only [List.mem_cons, List.mem_nil_iff, or_false] at hp ⊢
        tauto
    exact ⟨k, by omega, triFan_near hT _ _ _ _ (fun p hp => corners_near h hr k (by omega) p (hmem p hp))
      (circle_near h (k + 1) k (regime_sq h hr k (by omega)))⟩
  · -- the fan of a round start cap
    have hmem : ∀ p ∈ [startNeg e pt n, startPos e pt n], p ∈ cornerList e pt n 0 := by
      intro p hp
      by_cases hn1 : n = 1
      · subst hn1
        rw [← quadSet_single h hr]
        simp only [List.mem_cons, List.mem_nil_iff, or_false] at hp ⊢
        tauto
      · rw [← quadSet_first h hr (by omega)]
        simp only [List.mem_cons, List.mem_nil_iff, or_false] at hp ⊢
        tauto
    exact ⟨0, by omega, triFan_near hT _ _ _ _ (fun p hp => corners_near h hr 0 (by omega) p (hmem p hp))
      (circle_near_start h n (regime_sq h hr 0 (by omega)))⟩
  · obtain ⟨i', rfl⟩ : ∃ i', i = i' + 1 := ⟨i - 1, by omega⟩
    rw [quadSet_inner h hr i' h2] at hT
    exact ⟨i' + 1, by omega, triIn_near hT _ _ _ _ (corners_near h hr (i' + 1) (by omega))⟩
  · obtain ⟨i', rfl⟩ : ∃ i', i = i' + 1 := ⟨i - 1, by omega⟩
    exact ⟨i', by omega, triIn_near hT _ _ _ _ (joinSet_near h hr i' h2)⟩
  · obtain ⟨i', rfl⟩ : ∃ i', i = i' + 1 := ⟨i - 1, by omega⟩
    exact ⟨i', by omega, triFan_near hT _ _ _ _ (joinSet_near h hr i' h2)
      (circle_near h n i' (regime_sq h hr i' (by omega)))⟩
  · obtain ⟨k, rfl⟩ : ∃ k, n = k + 1 + 1 := ⟨n - 2, by omega⟩
    rw [quadSet_last h k hr] at hT
    exact ⟨k + 1, by omega, triIn_near hT _ _ _ _ (corners_near h hr (k + 1) (by omega))⟩
  · rw [quadSet_first h hr h2] at hT
    exact ⟨0, by omega, triIn_near hT _ _ _ _ (corners_near h hr 0 (by omega))⟩
  · subst h1
    rw [quadSet_single h hr] at hT
    exact ⟨0, by omega, triIn_near hT _ _ _ _ (corners_near h hr 0 (by omega))⟩

/-- with a Bevel or Round join no corner of a join is shifted outwards -/
theorem bevel_shifts {e : Env K} {pt : Nat → P K} {k : Nat} {ps ns : Bool} {lam : K} (J : JClosed e pt k ps ns lam)
    (hb : e.o.join = .bevel ∨ e.o.join = .round) :
    (if ns then jtau pt k else lam) ≤ 0 ∧ (if ps then -jtau pt k else lam) ≤ 0 := by
  have hnb := J.bevel hb
  have hl0 : lam = 0 := J.bevel0 hb
  subst hl0
  constructor
  · cases hns : ns with
    | false => simp
    | true =>
      simp only [if_true]
      have hps : ps = false := by
        cases hp : ps with
        | false => rfl
        | true => exact absurd ⟨hp, hns⟩ hnb
      have hx : (eT pt k).cross (eT pt (k + 1)) < 0 := by
        by_contra hge
        have := J.inner_pos (not_lt.mp hge)
        rw [hps] at this; cases this
      unfold jtau
      exact le_of_lt (div_neg_of_neg_of_pos hx J.cpos)
  · cases hps : ps with
    | false => simp
    | true =>
      simp only [if_true]
      have hns : ns = false := by
        cases hn : ns with
        | false => rfl
        | true => exact absurd ⟨hps, hn⟩ hnb
      have hx : 0 ≤ (eT pt k).cross (eT pt (k + 1)) := by
        by_contra hlt
        have := J.inner_neg (lt_of_not_ge hlt)
        rw [hns] at this; cases this
      unfold jtau
      have := div_nonneg hx (le_of_lt J.cpos)
      linarith

/-- **Bevel join: reach factor 1** except at a square cap: the only outward shift of an edge's quad is the
cap's (`1` half width for a square cap, `0` for a butt cap) -/
theorem outK_bevel {e : Env K} {eps : K} (h : CoverHyp e eps) {pt : Nat → P K} {n : Nat} (hr : Regime e eps pt n)
    (hb : e.o.join = .bevel ∨ e.o.join = .round) (k : Nat) (hk : k < n) :
    outK e pt n k ≤ Max.max (if k = 0 then capU e.o.startCap else 0) (if k + 1 = n then capU e.o.endCap else 0) := by
  have hs0 : (0 : K) ≤ capU e.o.startCap := capU_nonneg _
  have he0 : (0 : K) ≤ capU e.o.endCap := capU_nonneg _
  have hA : (0 : K) ≤ (if k = 0 then capU e.o.startCap else 0) := by split_ifs <;> simp [hs0]
  have hB : (0 : K) ≤ (if k + 1 = n then capU e.o.endCap else 0) := by split_ifs <;> simp [he0]
  have hstart : -sA0 e pt k ≤ (if k = 0 then capU e.o.startCap else 0) ∧ -sA1 e pt k ≤ (if k = 0 then capU e.o.startCap else 0) := by
    rcases Nat.eq_zero_or_pos k with h0 | hpos
    · subst h0; simp [sA0, sA1]
    · obtain ⟨k', rfl⟩ : ∃ k', k = k' + 1 := ⟨k - 1, by omega⟩
      obtain ⟨b1, b2⟩ := bevel_shifts (regime_jclosed h hr k' hk) hb
      simp only [sA0, sA1, if_neg (Nat.succ_ne_zero k'), Nat.add_sub_cancel]
      constructor
      · have : -(if nsAt e pt (k' + 1) = true then -jtau pt k' else -lamAt e pt (k' + 1)) = (if nsAt e pt (k' + 1) = true then jtau pt k' else lamAt e pt (k' + 1)) := by
          split_ifs <;> simp
        rw [this]; exact b1
      · have : -(if psAt e pt (k' + 1) = true then jtau pt k' else -lamAt e pt (k' + 1)) = (if psAt e pt (k' + 1) = true then -jtau pt k' else lamAt e pt (k' + 1)) := by
          split_ifs <;> simp
        rw [this]; exact b2
  have hend : sB0 e pt n k ≤ (if k + 1 = n then capU e.o.endCap else 0) ∧ sB1 e pt n k ≤ (if k + 1 = n then capU e.o.endCap else 0) := by
    by_cases hl : k + 1 = n
    · simp [sB0, sB1, hl]
    · obtain ⟨b1, b2⟩ := bevel_shifts (regime_jclosed h hr k (by omega)) hb
      simp only [sB0, sB1, if_neg hl]
      exact ⟨b1, b2⟩
  unfold outK
  refine max_le (le_trans hA (le_max_left _ _)) (max_le (le_trans hstart.1 (le_max_left _ _))
    (max_le (le_trans hstart.2 (le_max_left _ _)) (max_le (le_trans hend.1 (le_max_right _ _)) (le_trans hend.2 (le_max_right _ _)))))

/-- in general the outward shift is at most the cap's or the half-turn tangent at that end (`√(1+tan²)` is
the miter length `1/cos(θ/2)`) -/
theorem outK_le (e : Env K) (pt : Nat → P K) (n k : Nat) (hk : k < n) :
    outK e pt n k ≤ Max.max (if k = 0 then capU e.o.startCap else tauAbs pt n k)
      (if k + 1 = n then capU e.o.endCap else tauAbs pt n (k + 1)) := by
  have hs0 : (0 : K) ≤ capU e.o.startCap := capU_nonneg _
  have he0 : (0 : K) ≤ capU e.o.endCap := capU_nonneg _
  have t0 := tauAbs_nonneg pt n k
  have t1 := tauAbs_nonneg pt n (k + 1)
  have hA : (0 : K) ≤ (if k = 0 then capU e.o.startCap else tauAbs pt n k) := by split_ifs <;> assumption
  have hstart : -sA0 e pt k ≤ (if k = 0 then capU e.o.startCap else tauAbs pt n k)
      ∧ -sA1 e pt k ≤ (if k = 0 then capU e.o.startCap else tauAbs pt n k) := by
    rcases Nat.eq_zero_or_pos k with h0 | hpos
    · subst h0; simp [sA0, sA1]
    · obtain ⟨k', rfl⟩ : ∃ k', k = k' + 1 := ⟨k - 1, by omega⟩
      rw [tauAbs_mid pt n k' hk]
      simp only [sA0, sA1, if_neg (Nat.succ_ne_zero k'), Nat.add_sub_cancel]
      have hl := lamAt_le e pt k'
      constructor <;> split_ifs <;> simp [le_abs_self, neg_le_abs, hl]
  have hend : sB0 e pt n k ≤ (if k + 1 = n then capU e.o.endCap else tauAbs pt n (k + 1))
      ∧ sB1 e pt n k ≤ (if k + 1 = n then capU e.o.endCap else tauAbs pt n (k + 1)) := by
    by_cases hl : k + 1 = n
    · simp [sB0, sB1, hl]
    · rw [tauAbs_mid pt n k (by omega)]
      simp only [sB0, sB1, if_neg hl]
      have hl' := lamAt_le e pt k
      constructor <;> split_ifs <;> simp [le_abs_self, neg_le_abs, hl']
  unfold outK
  refine max_le (le_trans hA (le_max_left _ _)) (max_le (le_trans hstart.1 (le_max_left _ _))
    (max_le (le_trans hstart.2 (le_max_left _ _)) (max_le (le_trans hend.1 (le_max_right _ _)) (le_trans hend.2 (le_max_right _ _)))))

end Asm

end

end Lyon.C06b
