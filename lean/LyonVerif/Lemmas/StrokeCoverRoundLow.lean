/-
  C06g: the LOWER half of the round clause for one fan of `tessellate_arc`.

  `arc_covers`: the triangles `tessellate_arc a0 a1 va vb n` emits, together with the triangle
  (centre, start vertex, end vertex), cover the circular sector of radius `w/2 · cos((a1 − a0)/2^(n+1))`
  (= `w/2 −` sagitta of one of the `2^n` chords) around the centre between the directions `a0` and `a1`.
  Laws of `sin` / `cos` used (hypotheses): `cos² + sin² = 1`, the two addition formulas, positivity of `sin`,
  `cos` on `(0, (a1 − a0)/2]` (an arc of less than half a turn).

  Plane geometry: `sector_in_tri` (the sector of radius `R cos h` lies in the triangle of the two radii of length `R`
  enclosing the angle `2h`), `quad_split` (the triangle (centre, a, m) lies in (centre, a, b) ∪ (a, m, b) when `m` is
  the outward-scaled midpoint direction).
-/
import LyonVerif.Lemmas.StrokeCoverShape
import LyonVerif.Lemmas.StrokeCoverGeo
import Mathlib.Tactic.Linarith
import Mathlib.Tactic.FieldSimp
import Mathlib.Tactic.LinearCombination

set_option linter.unusedSectionVars false
set_option linter.unusedVariables false

namespace Lyon.C06b
open Lyon Scalar Lyon.Stroke Lyon.Stroke.Full Lyon.C05 Lyon.C05b Lyon.C05c Lyon.C06

section Geo
variable {K : Type} [Field K] [LinearOrder K] [IsStrictOrderedRing K]

/-- the triangle (centre, a, m), `m = (a + b)·g` beyond the chord (`g > 1/2`), lies in (centre, a, b) ∪ (a, m, b) -/
theorem quad_split (c a b : P K) (g : K) (hg : 1 / 2 < g) (q : P K)
    (h : InTri q (c, c + a, c + (a + b).smul g)) :
    InTri q (c, c + a, c + b) ∨ InTri q (c + a, c + (a + b).smul g, c + b) := by
  obtain ⟨l, m, n, hl, hm, hn, hs, hx, hy⟩ := h
  simp only [geom] at hx hy
  have hg0 : 0 < g := by linarith
  by_cases hAB : m + 2 * n * g ≤ 1
  · left
    refine ⟨1 - m - 2 * n * g, m + n * g, n * g, by linarith, by positivity, by positivity, by ring, ?_, ?_⟩
    · simp only [geom]; rw [hx]; have : l = 1 - m - n := by linarith
      rw [this]; ring
    · simp only [geom]; rw [hy]; have : l = 1 - m - n := by linarith
      rw [this]; ring
  · right
    have hd : 0 < 2 * g - 1 := by linarith
    have hne : 2 * g - 1 ≠ 0 := ne_of_gt hd
    obtain ⟨μ, hμ⟩ : ∃ μ, μ * (2 * g - 1) = m + 2 * n * g - 1 := ⟨(m + 2 * n * g - 1) / (2 * g - 1), by field_simp⟩
    have hμ0 : 0 ≤ μ := by
      by_contra hneg
      push Not at hneg
      have : μ * (2 * g - 1) < 0 := mul_neg_of_neg_of_pos hneg hd
      linarith
    have hν : 0 ≤ n * g - μ * g := by
      have e : (n * g - μ * g) * (2 * g - 1) = g * l := by
        have : l = 1 - m - n := by linarith
        rw [this]; linear_combination (-g) * hμ
      have : 0 ≤ (n * g - μ * g) * (2 * g - 1) := by rw [e]; positivity
      by_contra hneg
      push Not at hneg
      have := mul_neg_of_neg_of_pos hneg hd
      linarith
    refine ⟨m + n * g - μ * g, μ, n * g - μ * g, by linarith, hμ0, hν, by linear_combination (-1 : K) * hμ, ?_, ?_⟩
    · simp only [geom]; rw [hx]; have : l = 1 - m - n := by linarith
      rw [this]; linear_combination (c.x) * hμ
    · simp only [geom]; rw [hy]; have : l = 1 - m - n := by linarith
      rw [this]; linear_combination (c.y) * hμ

/-- the mirror image: (centre, m, b) lies in (centre, a, b) ∪ (a, m, b) -/
theorem quad_split_right (c a b : P K) (g : K) (hg : 1 / 2 < g) (q : P K)
    (h : InTri q (c, c + (a + b).smul g, c + b)) :
    InTri q (c, c + a, c + b) ∨ InTri q (c + a, c + (a + b).smul g, c + b) := by
  have e : a + b = b + a := by apply P.ext' <;> simp only [geom] <;> ring
  have h1 : InTri q (c, c + b, c + (b + a).smul g) := by
    rw [← e]
    obtain ⟨l, m, n, hl, hm, hn, hs, hx, hy⟩ := h
    exact ⟨l, n, m, hl, hn, hm, by linarith, by simp only [] at hx ⊢; linarith, by simp only [] at hy ⊢; linarith⟩
  rcases quad_split c b a g hg q h1 with h2 | h2
  · left
    obtain ⟨l, m, n, hl, hm, hn, hs, hx, hy⟩ := h2
    exact ⟨l, n, m, hl, hn, hm, by linarith, by simp only [] at hx ⊢; linarith, by simp only [] at hy ⊢; linarith⟩
  · right
    rw [← e] at h2
    exact inTri_swap h2

/-- the sector of radius `R·C` between the unit directions `ua`, `ub` (enclosing the angle `2h`, `C = cos h`) lies in
the triangle (centre, centre + R·ua, centre + R·ub) -/
theorem sector_in_tri (c ua ub w : P K) (R C ρ : K) (hua : ua.sqLen = 1) (hub : ub.sqLen = 1) (hw : w.sqLen = 1)
    (hD : 0 < ua.cross ub) (hC : 0 < C) (hE : 1 + ua.dot ub = 2 * C * C) (hR : 0 < R)
    (h1 : 0 ≤ ua.cross w) (h2 : 0 ≤ w.cross ub) (hρ0 : 0 ≤ ρ) (hρ : ρ ≤ R * C) :
    InTri (c + w.smul ρ) (c, c + ua.smul R, c + ub.smul R) := by
  have hDne : ua.cross ub ≠ 0 := ne_of_gt hD
  have hRne : R ≠ 0 := ne_of_gt hR
  -- `D·(w·ua)`, `D·(w·ub)`
  have e1 : ua.cross ub * w.dot ua = w.cross ub * ua.sqLen + ua.cross w * ua.dot ub := by simp only [geom]; ring
  have e2 : ua.cross ub * w.dot ub = w.cross ub * ua.dot ub + ua.cross w * ub.sqLen := by simp only [geom]; ring
  rw [hua] at e1
  rw [hub] at e2
  -- Cauchy–Schwarz for `w·(ua + ub)`
  have cs : (w.dot ua + w.dot ub) * (w.dot ua + w.dot ub) ≤ 4 * C * C := by
    have id : w.sqLen * (ua + ub).sqLen - (w.dot ua + w.dot ub) * (w.dot ua + w.dot ub)
        = (w.cross (ua + ub)) * (w.cross (ua + ub)) := by simp only [geom]; ring
    have sq : (ua + ub).sqLen = ua.sqLen + ub.sqLen + 2 * ua.dot ub := by simp only [geom]; ring
    rw [hw, sq, hua, hub] at id
    have := mul_self_nonneg (w.cross (ua + ub))
    nlinarith
  have hs : w.dot ua + w.dot ub ≤ 2 * C := by
    by_contra hneg
    push Not at hneg
    nlinarith
  -- `T·C ≤ D`
  have hT0 : 0 ≤ w.cross ub + ua.cross w := by linarith
  have hTE : (w.cross ub + ua.cross w) * (2 * C * C) = ua.cross ub * (w.dot ua + w.dot ub) := by
    rw [← hE]; linear_combination (-1 : K) * e1 - e2
  have hTC : (w.cross ub + ua.cross w) * C ≤ ua.cross ub := by
    have h3 : (w.cross ub + ua.cross w) * C * (2 * C) ≤ ua.cross ub * (2 * C) := by
      have : ua.cross ub * (w.dot ua + w.dot ub) ≤ ua.cross ub * (2 * C) := mul_le_mul_of_nonneg_left hs (le_of_lt hD)
      calc (w.cross ub + ua.cross w) * C * (2 * C) = (w.cross ub + ua.cross w) * (2 * C * C) := by ring
        _ = ua.cross ub * (w.dot ua + w.dot ub) := hTE
        _ ≤ _ := this
    exact le_of_mul_le_mul_right h3 (by linarith)
  have hsum : ρ * (w.cross ub + ua.cross w) ≤ R * ua.cross ub := by
    calc ρ * (w.cross ub + ua.cross w) ≤ R * C * (w.cross ub + ua.cross w) := mul_le_mul_of_nonneg_right hρ hT0
      _ = R * ((w.cross ub + ua.cross w) * C) := by ring
      _ ≤ R * ua.cross ub := mul_le_mul_of_nonneg_left hTC (le_of_lt hR)
  have hRD : 0 < R * ua.cross ub := mul_pos hR hD
  have hm1 : ρ * w.cross ub / (R * ua.cross ub) * (R * ua.cross ub) = ρ * w.cross ub := div_mul_cancel₀ _ (ne_of_gt hRD)
  have hm2 : ρ * ua.cross w / (R * ua.cross ub) * (R * ua.cross ub) = ρ * ua.cross w := div_mul_cancel₀ _ (ne_of_gt hRD)
  have hn1 : 0 ≤ ρ * w.cross ub / (R * ua.cross ub) := div_nonneg (mul_nonneg hρ0 h2) (le_of_lt hRD)
  have hn2 : 0 ≤ ρ * ua.cross w / (R * ua.cross ub) := div_nonneg (mul_nonneg hρ0 h1) (le_of_lt hRD)
  have hle : ρ * w.cross ub / (R * ua.cross ub) + ρ * ua.cross w / (R * ua.cross ub) ≤ 1 := by
    rw [← add_div, div_le_one hRD]; linarith
  generalize ρ * w.cross ub / (R * ua.cross ub) = μ1 at hm1 hn1 hle
  generalize ρ * ua.cross w / (R * ua.cross ub) = μ2 at hm2 hn2 hle
  refine ⟨1 - μ1 - μ2, μ1, μ2, by linarith, hn1, hn2, by ring, ?_, ?_⟩
  · apply mul_right_cancel₀ hDne
    simp only [geom] at hm1 hm2 ⊢
    linear_combination (-ua.x) * hm1 + (-ub.x) * hm2
  · apply mul_right_cancel₀ hDne
    simp only [geom] at hm1 hm2 ⊢
    linear_combination (-ua.y) * hm1 + (-ub.y) * hm2

end Geo

section Arc
variable {K : Type} [Field K] [LinearOrder K] [IsStrictOrderedRing K] [Transc K]

/-- the unit vector of angle `x` -/
def uv (x : K) : P K := ⟨Transc.cos x, Transc.sin x⟩

/-- the emitted triangles of `o` cover `q` -/
def CoveredBy (o : Out K) (q : P K) : Prop :=
  ∃ t ∈ o.tris, ∃ p1 p2 p3, PosAt o t.1 p1 ∧ PosAt o t.2.1 p2 ∧ PosAt o t.2.2 p3 ∧ InTri q (p1, p2, p3)

theorem CoveredBy.ext {o o' : Out K} (h : Ext o o') {q : P K} (hc : CoveredBy o q) : CoveredBy o' q := by
  obtain ⟨t, ht, p1, p2, p3, a, b, c, d⟩ := hc
  obtain ⟨_, ts, hts⟩ := h
  exact ⟨t, by rw [hts]; exact List.mem_append_left _ ht, p1, p2, p3, a.ext ⟨‹_›, ts, hts⟩, b.ext ⟨‹_›, ts, hts⟩,
    c.ext ⟨‹_›, ts, hts⟩, d⟩

/-- **the fan of `tessellate_arc` covers the inner sector**: every point `centre + ρ·w`, `w` a unit vector between
the directions `a0` and `a1`, `0 ≤ ρ ≤ w/2·cos((a1 − a0)/2^(n+1))`, lies in the triangle (centre, start, end) or in
a triangle the arc emits -/
theorem arc_covers
    (hpy : ∀ x : K, Transc.cos x * Transc.cos x + Transc.sin x * Transc.sin x = 1)
    (hac : ∀ x y : K, Transc.cos (x + y) = Transc.cos x * Transc.cos y - Transc.sin x * Transc.sin y)
    (has : ∀ x y : K, Transc.sin (x + y) = Transc.sin x * Transc.cos y + Transc.cos x * Transc.sin y)
    (c : P K) (hw : K) (hhw : 0 < hw) (n : Nat) :
    ∀ (a0 a1 : K) (va vb : Nat) (d : VData K) (o : Out K),
      a0 < a1 → (∀ x : K, 0 < x → x ≤ (a1 - a0) * half → 0 < Transc.sin x ∧ 0 < Transc.cos x) →
      d.positionOnPath = c → d.halfWidth = hw → o.nextId = o.verts.length →
      PosAt o va (c + (uv a0).smul hw) → PosAt o vb (c + (uv a1).smul hw) →
      ∀ (w : P K) (ρ : K), w.sqLen = 1 → 0 ≤ (uv a0).cross w → 0 ≤ w.cross (uv a1) → 0 ≤ ρ →
        ρ ≤ hw * Transc.cos ((a1 - a0) * half ^ (n + 1)) →
        InTri (c + w.smul ρ) (c, c + (uv a0).smul hw, c + (uv a1).smul hw)
        ∨ CoveredBy (tessellateArc a0 a1 va vb n d o) (c + w.smul ρ) := by
  have hh : (half : K) = 1 / 2 := sc_half
  have hunit : ∀ x : K, (uv x).sqLen = 1 := by
    intro x; have := hpy x; simp only [uv, geom]; linarith
  have hcirc : ∀ x : K, ((c + (uv x).smul hw) - c).sqLen = hw * hw := by
    intro x; have := hpy x; simp only [uv, geom]; linear_combination (hw * hw) * this
  -- angle `x + y` from angle `x`
  have hdot : ∀ x y : K, (uv x).dot (uv (x + y)) = Transc.cos y := by
    intro x y; simp only [uv, geom]; rw [hac, has]; linear_combination (Transc.cos y) * hpy x
  have hcross : ∀ x y : K, (uv x).cross (uv (x + y)) = Transc.sin y := by
    intro x y; simp only [uv, geom]; rw [hac, has]; linear_combination (Transc.sin y) * hpy x
  induction n with
  | zero =>
    intro a0 a1 va vb d o h01 hpos hc hhd hn hpa hpb w ρ hwu h1 h2 hρ0 hρ
    left
    simp only [Nat.zero_add, pow_one] at hρ
    obtain ⟨hS, hC⟩ := hpos ((a1 - a0) * half) (by rw [hh]; linarith) (le_refl _)
    have ha1 : a1 = a0 + ((a1 - a0) * half + (a1 - a0) * half) := by rw [hh]; ring
    have hD : 0 < (uv a0).cross (uv a1) := by
      rw [ha1, hcross, has]
      nlinarith [mul_pos hS hC]
    have hE : 1 + (uv a0).dot (uv a1) = 2 * Transc.cos ((a1 - a0) * half) * Transc.cos ((a1 - a0) * half) := by
      rw [ha1, hdot, hac, ← ha1]
      linear_combination (-1 : K) * hpy ((a1 - a0) * half)
    exact sector_in_tri c (uv a0) (uv a1) w hw _ ρ (hunit _) (hunit _) hwu hD hC hE hhw h1 h2 hρ0 hρ
  | succ n ih =>
    intro a0 a1 va vb d o h01 hpos hc hhd hn hpa hpb w ρ hwu h1 h2 hρ0 hρ
    simp only [tessellateArc]
    set mid := (a0 + a1) * half with hmid
    set d1 : VData K := { d with normal := ⟨Transc.cos mid, Transc.sin mid⟩ } with hd1
    have hpm : d1.position = c + (uv mid).smul hw := by
      show d.positionOnPath + (⟨Transc.cos mid, Transc.sin mid⟩ : P K).smul d.halfWidth = _
      rw [hc, hhd]; rfl
    set o1 := (o.addVertex d1).addTri (va, o.nextId, vb) with ho1
    have hx1 : Ext o o1 := ⟨⟨[d1], rfl⟩, ⟨[(va, o.nextId, vb)], rfl⟩⟩
    have hn1 : o1.nextId = o1.verts.length := by simp [ho1, Out.addVertex, Out.addTri, hn]
    have hpv : PosAt o1 o.nextId (c + (uv mid).smul hw) := by
      rw [← hpm]
      refine ⟨d1, ?_, rfl⟩
      simp [ho1, Out.addVertex, Out.addTri, hn]
    have hfan : ∀ x : K, FanPt ([] : List (P K)) c (hw * hw) (c + (uv x).smul hw) := fun x => Or.inr (hcirc x)
    obtain ⟨x2, n2, _, _, _⟩ := arc_shape hpy [] c hw n a0 mid va o.nextId d1 o1 _ _ hc hhd hn1
      (hpa.ext hx1) (hfan a0) hpv (hfan mid)
    obtain ⟨x3, _, _, _, _⟩ := arc_shape hpy [] c hw n mid a1 o.nextId vb d1 (tessellateArc a0 mid va o.nextId n d1 o1) _ _
      hc hhd n2 (hpv.ext x2) (hfan mid) ((hpb.ext hx1).ext x2) (hfan a1)
    -- the angles
    set h := (a1 - a0) * half with hhdef
    have hh0 : 0 < h := by rw [hhdef, hh]; linarith
    have hm0 : mid = a0 + h := by rw [hmid, hhdef, hh]; ring
    have hm1 : a1 = mid + h := by rw [hmid, hhdef, hh]; ring
    have ha1 : a1 = a0 + (h + h) := by rw [hhdef, hh]; ring
    obtain ⟨hS, hC⟩ := hpos h hh0 (le_refl _)
    have hC1 : Transc.cos h < 1 := by
      have := hpy h
      by_contra hneg
      push Not at hneg
      nlinarith [mul_pos hS hS]
    have hg : 1 / 2 < 1 / (2 * Transc.cos h) := by
      rw [div_lt_div_iff₀ (by norm_num) (by linarith)]; linarith
    -- `uv a0 + uv a1 = 2 cos h · uv mid`
    have hs2 : (uv a0).smul hw + (uv a1).smul hw = ((uv mid).smul hw).smul (2 * Transc.cos h) := by
      rw [ha1, hm0]
      apply P.ext' <;> simp only [uv, geom, hac, has]
      · linear_combination (-(hw * Transc.cos a0)) * hpy h
      · linear_combination (-(hw * Transc.sin a0)) * hpy h
    have hsumv : (uv mid).smul hw = ((uv a0).smul hw + (uv a1).smul hw).smul (1 / (2 * Transc.cos h)) := by
      have hCne : Transc.cos h ≠ 0 := ne_of_gt hC
      rw [hs2]
      apply P.ext' <;> simp only [geom] <;> field_simp
    -- the middle triangle
    have hmidtri : ∀ q : P K, InTri q (c + (uv a0).smul hw, c + (uv mid).smul hw, c + (uv a1).smul hw) →
        CoveredBy (tessellateArc mid a1 o.nextId vb n d1 (tessellateArc a0 mid va o.nextId n d1 o1)) q := by
      intro q hq
      have hc1 : CoveredBy o1 q :=
        ⟨(va, o.nextId, vb), by simp [ho1, Out.addVertex, Out.addTri], _, _, _, hpa.ext hx1, hpv, hpb.ext hx1, hq⟩
      exact (hc1.ext x2).ext x3
    have hsub : (mid - a0) * half = h * half := by rw [hm0]; ring
    have hsub2 : (a1 - mid) * half = h * half := by rw [hm1]; ring
    have hle : h * half ≤ h := by rw [hh]; linarith
    have hrad1 : (a1 - a0) * half ^ (n + 1 + 1) = (mid - a0) * half ^ (n + 1) := by
      rw [hm0]; rw [hhdef]; ring
    have hrad2 : (a1 - a0) * half ^ (n + 1 + 1) = (a1 - mid) * half ^ (n + 1) := by
      rw [show a1 - mid = h from by rw [hm1]; ring, hhdef]; ring
    by_cases hside : 0 ≤ w.cross (uv mid)
    · -- the first half
      rw [hrad1] at hρ
      rcases ih a0 mid va o.nextId d1 o1 (by rw [hm0]; linarith)
        (fun x hx0 hx => hpos x hx0 (by rw [hsub] at hx; linarith)) hc hhd hn1 (hpa.ext hx1) hpv w ρ hwu h1 hside hρ0 hρ with hin | hcov
      · rw [hsumv] at hin
        rcases quad_split c _ _ _ hg _ hin with h3 | h3
        · exact Or.inl h3
        · rw [← hsumv] at h3
          exact Or.inr (hmidtri _ h3)
      · exact Or.inr (hcov.ext x3)
    · -- the second half
      have hside2 : 0 ≤ (uv mid).cross w := by
        push Not at hside
        have : (uv mid).cross w = -(w.cross (uv mid)) := by simp only [geom]; ring
        rw [this]; linarith
      rw [hrad2] at hρ
      rcases ih mid a1 o.nextId vb d1 (tessellateArc a0 mid va o.nextId n d1 o1) (by rw [hm1]; linarith)
        (fun x hx0 hx => hpos x hx0 (by rw [hsub2] at hx; linarith)) hc hhd n2 (hpv.ext x2) ((hpb.ext hx1).ext x2)
        w ρ hwu hside2 h2 hρ0 hρ with hin | hcov
      · rw [hsumv] at hin
        rcases quad_split_right c _ _ _ hg _ hin with h3 | h3
        · exact Or.inl h3
        · rw [← hsumv] at h3
          exact Or.inr (hmidtri _ h3)
      · exact Or.inr hcov

end Arc

end Lyon.C06b
