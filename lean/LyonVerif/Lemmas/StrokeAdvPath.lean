/-
  Advancement bookkeeping of the complete stroker model, continued: an open sub-path that starts in ANY
  idle state of a tessellation (no point in the window: after `new`, or after any earlier sub-path has
  been ended), all joins and caps (round ones included: arc fans inherit `self.vertex`), and a whole
  path made of such sub-paths.

  What the code does (`StrokeBuilderImpl::begin`, `end_with_caps`): the first point of a sub-path gets
  `sub_path_start_advancement`, which is `0` in a new tessellator and is set to the advancement of the
  last point whenever an OPEN sub-path with at least two kept points ends — the advancement does NOT
  restart at `begin`, it runs on through the path (`pathTable`).
-/
import LyonVerif.Lemmas.StrokeIdxClipAdv

set_option linter.unusedSectionVars false
set_option linter.unusedVariables false

namespace Lyon.C05c
open Lyon Scalar Lyon.Stroke Lyon.Stroke.Full Lyon.C05 Lyon.C05b

section
variable {α : Type} [Scalar α] [Transc α] [Asin α] [FlatConst α]

/-- the first / second point of a sub-path whose first point gets the advancement `a` -/
def firstPtA (e : Env α) (a : α) (i0 i1 : Nat) (p0 p1 : P α) : EP α :=
  (firstEdgeSetup (EP.mk' p0 e.hwFw a e.o.join (.endpoint i0) false) (linePt e (i1, p1))).1
def secondPtA (e : Env α) (a : α) (i0 i1 : Nat) (p0 p1 : P α) : EP α :=
  (firstEdgeSetup (EP.mk' p0 e.hwFw a e.o.join (.endpoint i0) false) (linePt e (i1, p1))).2

/-- a run between two sub-paths: nothing in the window -/
structure Idle (r : Run α) : Prop where
  np : r.panicked = false
  wf : WF r.st.buf
  c0 : r.st.buf.count = 0

/-- continue a run with more events -/
def runFrom (e : Env α) (store : Nat → List α) (r : Run α) (evs : List (IdEv α)) : Run α :=
  evs.foldl (fun r ev => if r.panicked then r else runEvent e store r ev) r

theorem runFrom_append (e : Env α) (store : Nat → List α) (r : Run α) (a b : List (IdEv α)) :
    runFrom e store r (a ++ b) = runFrom e store (runFrom e store r a) b := by
  unfold runFrom; rw [List.foldl_append]

theorem runEvents_eq_runFrom (e : Env α) (store : Nat → List α) (evs : List (IdEv α)) :
    runEvents e store evs = runFrom e store ⟨St.new, unset, nanP, false⟩ evs := rfl

theorem idle_new : Idle (⟨St.new, unset, nanP, false⟩ : Run α) := ⟨rfl, WF.new _, rfl⟩

/-- `begin p0, line_to p1` from an idle run -/
theorem run_two_points_g (e : Env α) (store : Nat → List α) (hfw : e.o.varWidth = false)
    (r0 : Run α) (h0 : Idle r0) (i0 i1 : Nat) (p0 p1 : P α) (hfar : pointsAreTooClose e.thr p0 p1 = false) :
    ∃ st2 : St α,
      runFrom e store r0 [IdEv.begin i0 p0, IdEv.line i1 p1] = ⟨st2, i1, p1, false⟩
      ∧ WF st2.buf
      ∧ st2.buf.lastTwo = some (firstPtA e r0.st.subPathStartAdvancement i0 i1 p0 p1,
          secondPtA e r0.st.subPathStartAdvancement i0 i1 p0 p1)
      ∧ st2.buf.count = 2 ∧ st2.out = r0.st.out := by
  obtain ⟨hp, hwf, hc0⟩ := h0
  unfold runFrom
  simp only [List.foldl_cons, List.foldl_nil]
  set s0 := r0.st.subPathStartAdvancement with hs0
  set st0 : St α := { r0.st with mayNeedEmptyCap := false } with hst0
  have hb : (if r0.panicked = true then r0 else runEvent e store r0 (IdEv.begin i0 p0))
      = ⟨st0.push (EP.mk' p0 e.hwFw s0 e.o.join (.endpoint i0) false), i0, p0, false⟩ := by
    rw [if_neg (by simp [hp])]
    show ({ r0 with st := (e.step st0 _).1, curId := i0, curPos := p0 } : Run α) = _
    rw [step_fixed hfw, hwOf_fw hfw]
    have : fwStep e st0 (EP.mk' p0 e.hwFw r0.st.subPathStartAdvancement e.o.join (Src.endpoint i0) false)
        = (st0.push (EP.mk' p0 e.hwFw s0 e.o.join (.endpoint i0) false), true) :=
      fwStep_eq_zero (tooClose_none (last_none hc0) _ _) (lastTwo_none (by show r0.st.buf.count < 2; omega))
        (last_none hc0)
    rw [this, hp]
  rw [hb]
  obtain ⟨bb, hbb, hwfb, hcb, hlb, _⟩ := hwf.push (EP.mk' p0 e.hwFw s0 e.o.join (.endpoint i0) false)
  have est1 : st0.push (EP.mk' p0 e.hwFw s0 e.o.join (.endpoint i0) false) = { st0 with buf := bb } := by
    show ({ st0 with buf := (st0.buf.push _).getD st0.buf } : St α) = _
    rw [show st0.buf = r0.st.buf from rfl, hbb]; rfl
  rw [est1]
  have hcb1 : bb.count = 1 := by rw [hcb, hc0]; rfl
  have hclose1 : ({ st0 with buf := bb } : St α).tooClose e.thr (linePt e (i1, p1)).position = false := by
    rw [tooClose_eq (st := ({ st0 with buf := bb } : St α)) hlb]; exact hfar
  have hl1 : (if (⟨{ st0 with buf := bb }, i0, p0, false⟩ : Run α).panicked = true
        then (⟨{ st0 with buf := bb }, i0, p0, false⟩ : Run α)
        else runEvent e store ⟨{ st0 with buf := bb }, i0, p0, false⟩ (IdEv.line i1 p1))
      = ⟨(fwStep e { st0 with buf := bb } (linePt e (i1, p1))).1, i1, p1, false⟩ := by
    rw [if_neg (by simp)]
    show ({ (⟨{ st0 with buf := bb }, i0, p0, false⟩ : Run α) with
      st := (e.step _ _).1, curId := i1, curPos := p1 } : Run α) = _
    rw [step_fixed hfw, hwOf_fw hfw]; rfl
  rw [hl1]
  rw [fwStep_eq_first hclose1 (lastTwo_none (by show bb.count < 2; omega)) hlb]
  obtain ⟨b1, hb1, hwf1, hc1, hl1', _⟩ := hwfb.replaceLast (by omega) (firstPtA e s0 i0 i1 p0 p1)
  obtain ⟨b2, hb2, hwf2, hc2, _, hlt2⟩ := hwf1.push (secondPtA e s0 i0 i1 p0 p1)
  have est2 : (({ st0 with buf := bb } : St α).setLast
        (firstEdgeSetup (EP.mk' p0 e.hwFw s0 e.o.join (.endpoint i0) false) (linePt e (i1, p1))).1).push
        (firstEdgeSetup (EP.mk' p0 e.hwFw s0 e.o.join (.endpoint i0) false) (linePt e (i1, p1))).2
      = { st0 with buf := b2 } := by
    show (({ st0 with buf := bb } : St α).setLast (firstPtA e s0 i0 i1 p0 p1)).push (secondPtA e s0 i0 i1 p0 p1) = _
    simp [St.push, St.setLast, hb1, hb2]
  simp only [est2]
  exact ⟨_, rfl, hwf2, hlt2 _ hl1', by show b2.count = 2; rw [hc2, hc1, hcb1]; rfl, rfl⟩

theorem lastEdge_adv (e : Env α) (p0 p1 : EP α) (isFirst : Bool) (o : Out α) :
    (lastEdge e p0 p1 isFirst o).1.advancement = p0.advancement + len (p1.position - p0.position) := rfl

theorem runFrom_lines {e : Env α} (hfw : e.o.varWidth = false) (store : Nat → List α) (rest : List (Nat × P α))
    (r : Run α) (h : r.panicked = false) :
    (runFrom e store r (lineEvs rest)).st = rest.foldl (fun s q => (fwStep e s (linePt e q)).1) r.st
    ∧ (runFrom e store r (lineEvs rest)).panicked = false := runLines hfw store rest r h

/-- the events of an open polyline sub-path -/
def subEvs (i0 i1 : Nat) (p0 p1 : P α) (rest : List (Nat × P α)) : List (IdEv α) :=
  IdEv.begin i0 p0 :: IdEv.line i1 p1 :: (lineEvs rest ++ [IdEv.end_ false])

/-- **one open sub-path, started in any idle state** (fixed width, unmerged points, every join and
cap): its vertices agree with `advTable` started at the current `sub_path_start_advancement`; afterwards
the run is idle again and `sub_path_start_advancement` is the table's last entry (the length so far) -/
theorem subpath_advancement (e : Env α) (store : Nat → List α) (hfw : e.o.varWidth = false)
    (hnan : Transc.isNaN (nan : α) = true) (r0 : Run α) (h0 : Idle r0)
    (i0 i1 : Nat) (p0 p1 : P α) (rest : List (Nat × P α))
    (hm : NoMerge e.thr (p0 :: p1 :: rest.map (·.2))) :
    Idle (runFrom e store r0 (subEvs i0 i1 p0 p1 rest))
    ∧ Emits (AdvOK (advTable r0.st.subPathStartAdvancement ((i0, p0) :: (i1, p1) :: rest)))
        r0.st.out (runFrom e store r0 (subEvs i0 i1 p0 p1 rest)).st.out
    ∧ ((advTable r0.st.subPathStartAdvancement ((i0, p0) :: (i1, p1) :: rest)).getLast?).map (·.2.2)
        = some (runFrom e store r0 (subEvs i0 i1 p0 p1 rest)).st.subPathStartAdvancement := by
  obtain ⟨hfar, hm'⟩ := hm
  obtain ⟨st2, e2, hwf2, hab, hc2, hout⟩ := run_two_points_g e store hfw r0 h0 i0 i1 p0 p1 hfar
  set s0 := r0.st.subPathStartAdvancement with hs0
  have hsplit : subEvs i0 i1 p0 p1 rest = [IdEv.begin i0 p0, IdEv.line i1 p1] ++ (lineEvs rest ++ [IdEv.end_ false]) := rfl
  rw [hsplit, runFrom_append, e2, runFrom_append]
  obtain ⟨r1, r2⟩ := runFrom_lines hfw store rest ⟨st2, i1, p1, false⟩ rfl
  generalize runFrom e store ⟨st2, i1, p1, false⟩ (lineEvs rest) = rr at r1 r2
  have hend : runFrom e store rr [IdEv.end_ false] = { rr with st := endSub e e.step rr.st false } := by
    unfold runFrom
    simp only [List.foldl_cons, List.foldl_nil]
    rw [if_neg (by simp [r2])]; rfl
  rw [hend]
  -- the window after the `line_to` loop
  have hA : (firstPtA e s0 i0 i1 p0 p1).advancement = s0 ∧ (firstPtA e s0 i0 i1 p0 p1).position = p0
      ∧ (firstPtA e s0 i0 i1 p0 p1).src = .endpoint i0 := ⟨rfl, rfl, rfl⟩
  have hBp : (secondPtA e s0 i0 i1 p0 p1).position = p1 := rfl
  have hBadv : (secondPtA e s0 i0 i1 p0 p1).advancement
      = (firstPtA e s0 i0 i1 p0 p1).advancement + len ((secondPtA e s0 i0 i1 p0 p1).position - (firstPtA e s0 i0 i1 p0 p1).position) := by
    show (if Transc.isNaN (nan : α) then s0 + len (p1 - p0) else nan) = s0 + len (p1 - p0)
    rw [hnan]; rfl
  have hBfresh : Fresh e (secondPtA e s0 i0 i1 p0 p1) := ⟨rfl, rfl, rfl, rfl, rfl⟩
  obtain ⟨a', b', il, g1, g2, g3, g4, g4l, g5, g6⟩ := feedFw_advs hnan (firstPtA e s0 i0 i1 p0 p1) rest st2 _ _ i1 hwf2 hab hBfresh rfl
    (Or.inr hBadv) (by rw [hBp]; exact hm') (Or.inl ⟨hc2, rfl⟩)
  rw [hA.1, hA.2.1, hBp] at g2 g4 g4l
  rw [← r1] at g1 g2 g5 g6
  set st' := rr.st with hst'
  have hcount2 : 2 ≤ st'.buf.count := WF.lastTwo_count _ _ g1
  have hcap : (({ st' with mayNeedEmptyCap := st'.mayNeedEmptyCap || (false && st'.buf.count == 1) } : St α).mayNeedEmptyCap
      && ({ st' with mayNeedEmptyCap := st'.mayNeedEmptyCap || (false && st'.buf.count == 1) } : St α).buf.count == 1) = false := by
    have : (st'.buf.count == 1) = false := by simp; omega
    show ((st'.mayNeedEmptyCap || (false && st'.buf.count == 1)) && st'.buf.count == 1) = false
    simp [this]
  have hcaps := endWithCaps_eq_some (e := e) hcap
    (show ({ st' with mayNeedEmptyCap := st'.mayNeedEmptyCap || (false && st'.buf.count == 1) } : St α).buf.lastTwo = some (a', b') from g1)
  have hendsub : endSub e e.step st' false
      = { (endWithCaps e { st' with mayNeedEmptyCap := st'.mayNeedEmptyCap || (false && st'.buf.count == 1) }) with
          buf := (endWithCaps e { st' with mayNeedEmptyCap := st'.mayNeedEmptyCap || (false && st'.buf.count == 1) }).buf.clear,
          firsts := [] } := by
    unfold endSub; simp
  have hT : ∀ t ∈ advTable (s0 + len (p1 - p0)) ((i1, p1) :: rest),
      t ∈ advTable s0 ((i0, p0) :: (i1, p1) :: rest) := advTable_tail s0 (i0, p0) (i1, p1) rest
  have hfirstF : (if st'.buf.count > 2 then st'.firsts.headD a' else a') = firstPtA e s0 i0 i1 p0 p1 := by
    rcases g5 with ⟨hc, rfl⟩ | ⟨hc, hf⟩
    · rw [if_neg (by omega)]
    · rw [if_pos (by omega)]
      cases hfs : st'.firsts with
      | nil => rw [hfs] at hf; simp at hf
      | cons x xs => rw [hfs] at hf; simp at hf; simp [hf]
  have hwfr : WF st'.buf := g6
  refine ⟨⟨r2, ?_, ?_⟩, ?_, ?_⟩
  · show WF (endSub e e.step st' false).buf
    rw [hendsub, hcaps]
    obtain ⟨l, hl⟩ := hwfr
    exact ⟨[], hl.clear⟩
  · show (endSub e e.step st' false).buf.count = 0
    rw [hendsub]; rfl
  · show Emits _ r0.st.out (endSub e e.step st' false).out
    rw [hendsub, hcaps, ← hout]
    have s1 : Emits (AdvOK (advTable s0 ((i0, p0) :: (i1, p1) :: rest))) st2.out st'.out :=
      Emits.mono (fun v ⟨t, ht, hv⟩ => ⟨t, hT t ht, hv⟩) g2
    have s2 : Emits (AdvOK (advTable s0 ((i0, p0) :: (i1, p1) :: rest))) st'.out
        (capsOut e { st' with mayNeedEmptyCap := st'.mayNeedEmptyCap || (false && st'.buf.count == 1) } a' b').2 := by
      show Emits _ st'.out (lastEdge e a' (if e.o.varWidth then b' else lastSidesFw a' b') (st'.buf.count == 2) st'.out).2
      rw [hfw]
      refine Emits.mono ?_ (lastEdge_emits e a' (lastSidesFw a' b') (st'.buf.count == 2) st'.out)
      rintro v ⟨v1, v2, v3⟩
      exact ⟨_, hT _ g4, by rw [v1]; exact g3, v2, v3⟩
    refine s1.trans (s2.trans ?_)
    show Emits _ _ (firstEdge e (if st'.buf.count > 2 then st'.firsts.headD a' else a') _ _)
    rw [hfirstF]
    refine Emits.mono ?_ (firstEdge_emits e _ _ _)
    rintro v ⟨v1, v2, v3⟩
    exact ⟨_, advTable_head s0 (i0, p0) ((i1, p1) :: rest), v1, v2, v3⟩
  · show _ = some (endSub e e.step st' false).subPathStartAdvancement
    rw [hendsub, hcaps]
    show _ = some (lastEdge e a' (if e.o.varWidth then b' else lastSidesFw a' b') (st'.buf.count == 2) st'.out).1.advancement
    rw [hfw, lastEdge_adv]
    rw [advTable_getLast s0 (i0, p0) (i1, p1) rest, g4l]
    rfl

/-! ## a whole path of open polyline sub-paths -/

/-- an open polyline sub-path: two points with their endpoint ids, and the further points -/
structure SubP (α : Type) where
  i0 : Nat
  i1 : Nat
  p0 : P α
  p1 : P α
  rest : List (Nat × P α)

def SubP.pts (s : SubP α) : List (Nat × P α) := (s.i0, s.p0) :: (s.i1, s.p1) :: s.rest
def SubP.evs (s : SubP α) : List (IdEv α) := subEvs s.i0 s.i1 s.p0 s.p1 s.rest

/-- the events of the path -/
def pathEvs (subs : List (SubP α)) : List (IdEv α) := subs.flatMap SubP.evs

/-- the advancement a table ends with (`a` for an empty table) -/
def lastAdv (a : α) (t : List (Nat × P α × α)) : α := (t.getLast?.map (·.2.2)).getD a

/-- the table of a path: every sub-path continues where the one before it ended -/
def pathTable (a : α) : List (SubP α) → List (Nat × P α × α)
  | [] => []
  | s :: r => advTable a s.pts ++ pathTable (lastAdv a (advTable a s.pts)) r

/-- **advancement along a whole path of open polyline sub-paths**, continued from any idle state -/
theorem path_advancement_from (e : Env α) (store : Nat → List α) (hfw : e.o.varWidth = false)
    (hnan : Transc.isNaN (nan : α) = true) :
    ∀ (subs : List (SubP α)) (r0 : Run α), Idle r0 →
      (∀ s ∈ subs, NoMerge e.thr (s.pts.map (·.2))) →
      Idle (runFrom e store r0 (pathEvs subs))
      ∧ Emits (AdvOK (pathTable r0.st.subPathStartAdvancement subs)) r0.st.out
          (runFrom e store r0 (pathEvs subs)).st.out := by
  intro subs
  induction subs with
  | nil => intro r0 h0 _; exact ⟨h0, Emits.refl _ _⟩
  | cons s r ih =>
    intro r0 h0 hm
    obtain ⟨k1, k2, k3⟩ := subpath_advancement e store hfw hnan r0 h0 s.i0 s.i1 s.p0 s.p1 s.rest
      (hm s (by simp))
    have hev : pathEvs (s :: r) = s.evs ++ pathEvs r := by simp [pathEvs]
    rw [hev, runFrom_append]
    obtain ⟨j1, j2⟩ := ih (runFrom e store r0 s.evs) k1 (fun x hx => hm x (by simp [hx]))
    refine ⟨j1, ?_⟩
    have hl : lastAdv r0.st.subPathStartAdvancement (advTable r0.st.subPathStartAdvancement s.pts)
        = (runFrom e store r0 s.evs).st.subPathStartAdvancement := by
      unfold lastAdv
      have : (advTable r0.st.subPathStartAdvancement s.pts).getLast?.map (·.2.2)
          = some (runFrom e store r0 s.evs).st.subPathStartAdvancement := k3
      rw [this]; rfl
    refine Emits.trans (Emits.mono ?_ k2) (Emits.mono ?_ j2)
    · rintro v ⟨t, ht, hv⟩
      exact ⟨t, by simp only [pathTable, List.mem_append]; exact Or.inl ht, hv⟩
    · rintro v ⟨t, ht, hv⟩
      exact ⟨t, by simp only [pathTable, List.mem_append]; rw [hl]; exact Or.inr ht, hv⟩

/-- … for a fresh tessellation: every vertex of the output agrees with the path's table started at `0` -/
theorem path_advancement (e : Env α) (store : Nat → List α) (hfw : e.o.varWidth = false)
    (hnan : Transc.isNaN (nan : α) = true) (subs : List (SubP α))
    (hm : ∀ s ∈ subs, NoMerge e.thr (s.pts.map (·.2))) :
    ∀ v ∈ (runEvents e store (pathEvs subs)).st.out.verts, AdvOK (pathTable zero subs) v := by
  obtain ⟨_, vs, ev, qv⟩ := path_advancement_from e store hfw hnan subs _ idle_new hm
  intro v hv
  rw [runEvents_eq_runFrom] at hv
  have h0 : (⟨St.new, unset, nanP, false⟩ : Run α).st.out.verts = [] := rfl
  rw [h0, List.nil_append] at ev
  exact qv v (ev ▸ hv)

end
end Lyon.C05c
