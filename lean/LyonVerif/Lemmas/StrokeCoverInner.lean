/-
  C06c, part 2: the cover argument for an edge BETWEEN TWO JOINS, from local data only (`Around`): closed
  forms of the joins `k−1 … k+2`, the emitted quads of the edges `k−1, k, k+1`, the join triangles at `k`, `k+1`,
  the length condition of the three edges.  Used for closed polygons (no caps anywhere).
-/
import LyonVerif.Lemmas.StrokeCoverAsm

set_option linter.unusedSectionVars false
set_option linter.unusedVariables false

namespace Lyon.C06b
open Lyon Scalar Lyon.Stroke Lyon.Stroke.Full Lyon.C05 Lyon.C05b Lyon.C05c Lyon.C06
open Lyon.StrokeQuad (lineIntersection)

section
variable {K : Type} [Field K] [LinearOrder K] [IsStrictOrderedRing K] [Transc K]

/-- what is known around the edge `pt k → pt (k+1)`, `k ≥ 2`, both of whose ends are joins -/
structure Around (e : Env K) (eps : K) (pt : Nat → P K) (o : Out K) (k : Nat) : Prop where
  hyp : CoverHyp e eps
  k2 : 2 ≤ k
  sq : ∀ i, k - 1 ≤ i → i ≤ k + 1 → 0 < (pt (i + 1) - pt i).sqLen
  jc : ∀ i, k - 2 ≤ i → i ≤ k + 1 → JClosed e pt i (psAt e pt (i + 1)) (nsAt e pt (i + 1)) (lamAt e pt (i + 1))
  quads : ∀ i, k - 1 ≤ i → i ≤ k + 1 → EmQuadJ o (jEP e pt i) (jEP e pt (i + 1))
  joins : ∀ i, k ≤ i → i ≤ k + 1 → EmJoin o (jEP e pt i)
  len : ∀ i, k - 1 ≤ i → i ≤ k + 1 → e.hwFw * (|jtau pt (i - 1)| + |jtau pt i| + 1) ≤ eL pt i

/-- the quad of an inner edge `i+1`, corners in closed form (`n = 0`: no cap branch is ever taken) -/
theorem inner_quad {e : Env K} {pt : Nat → P K} {o : Out K} (i : Nat)
    (Ja : JClosed e pt i (psAt e pt (i + 1)) (nsAt e pt (i + 1)) (lamAt e pt (i + 1)))
    (Jb : JClosed e pt (i + 1) (psAt e pt (i + 1 + 1)) (nsAt e pt (i + 1 + 1)) (lamAt e pt (i + 1 + 1)))
    (hq : EmQuadJ o (jEP e pt (i + 1)) (jEP e pt (i + 1 + 1))) : EdgeQuad (EmTri o) e pt 0 (i + 1) := by
  obtain ⟨q1, q2⟩ := hq
  rw [Ja.sNegNext, Ja.sPosNext, Jb.sPosPrev] at q1
  rw [Ja.sNegNext, Jb.sPosPrev, Jb.sNegPrev] at q2
  unfold EdgeQuad
  simp only [sA0, sA1, sB0, sB1, if_neg (Nat.succ_ne_zero i), if_neg (Nat.succ_ne_zero (i + 1)), Nat.add_sub_cancel]
  exact ⟨q1, q2⟩

/-- the shifts of an inner edge stay within the half-turn tangents at its ends -/
theorem inner_bounds (e : Env K) (pt : Nat → P K) (i : Nat) :
    sA0 e pt (i + 1) ≤ |jtau pt i| ∧ sA1 e pt (i + 1) ≤ |jtau pt i|
    ∧ -|jtau pt (i + 1)| ≤ sB0 e pt 0 (i + 1) ∧ -|jtau pt (i + 1)| ≤ sB1 e pt 0 (i + 1) := by
  simp only [sA0, sA1, sB0, sB1, if_neg (Nat.succ_ne_zero i), if_neg (Nat.succ_ne_zero (i + 1)), Nat.add_sub_cancel]
  have ha := abs_nonneg (jtau pt i)
  have hb := abs_nonneg (jtau pt (i + 1))
  have hl1 := lamAt_nonneg e pt (i + 1)
  have hl2 := lamAt_nonneg e pt (i + 1 + 1)
  refine ⟨?_, ?_, ?_, ?_⟩
  · split_ifs
    · exact neg_le_abs _
    · linarith
  · split_ifs
    · exact le_abs_self _
    · linarith
  · split_ifs
    · exact neg_abs_le _
    · linarith
  · split_ifs
    · exact neg_le_neg (le_abs_self _)
    · linarith

/-- the quad of the inner edge `i+1` covers its trapezoid -/
theorem trapIn {e : Env K} {eps : K} (h : CoverHyp e eps) {pt : Nat → P K} {o : Out K} (i : Nat)
    (hsq : 0 < (pt (i + 1 + 1) - pt (i + 1)).sqLen)
    (hQ : EdgeQuad (EmTri o) e pt 0 (i + 1))
    (hlen : e.hwFw * (|jtau pt i| + |jtau pt (i + 1)| + 1) ≤ eL pt (i + 1))
    (x y : K) (hy : -1 ≤ y) (hy1 : y ≤ 1)
    (hlo : e.hwFw * ((1 - y) * sA0 e pt (i + 1) + (1 + y) * sA1 e pt (i + 1)) / 2 ≤ x)
    (hhi : x ≤ eL pt (i + 1) + e.hwFw * ((1 - y) * sB0 e pt 0 (i + 1) + (1 + y) * sB1 e pt 0 (i + 1)) / 2) :
    Cov (EmTri o) (pt (i + 1) + (eT pt (i + 1)).smul x + (perp (eT pt (i + 1))).smul (e.hwFw * y)) := by
  obtain ⟨hL, _, hd⟩ := edge_eq h.sqrt_nonneg h.sqrt_sq pt (i + 1) hsq
  obtain ⟨q1, q2⟩ := hQ
  obtain ⟨b1, b2, b3, b4⟩ := inner_bounds e pt i
  have hw := h.hw
  have t0 := abs_nonneg (jtau pt i)
  have t1 := abs_nonneg (jtau pt (i + 1))
  refine trap_cov (EmTri o) (pt (i + 1)) (pt (i + 1 + 1)) (eT pt (i + 1)) (eL pt (i + 1)) e.hwFw _ _ _ _ x y hL hd q1 q2
    ?_ ?_ hy hy1 hlo hhi
  · have := mul_le_mul_of_nonneg_left b1 (le_of_lt hw)
    have := mul_le_mul_of_nonneg_left b3 (le_of_lt hw)
    nlinarith
  · have := mul_le_mul_of_nonneg_left b2 (le_of_lt hw)
    have := mul_le_mul_of_nonneg_left b4 (le_of_lt hw)
    nlinarith

/-- **every point of the rectangle of an edge between two joins lies in an emitted triangle** -/
theorem edge_cover_in {e : Env K} {eps : K} {pt : Nat → P K} {o : Out K} (j : Nat) (A : Around e eps pt o (j + 2))
    (s u : K) (hs : 0 ≤ s) (hs1 : s ≤ 1) (hu : -1 ≤ u) (hu1 : u ≤ 1) :
    Cov (EmTri o) (bandPoint (pt (j + 2)) (pt (j + 2 + 1)) ((perp (eT pt (j + 2))).smul e.hwFw) s u) := by
  have h := A.hyp
  have hw := h.hw
  have hwne : e.hwFw ≠ 0 := ne_of_gt hw
  -- the three quads
  have Q1 := inner_quad j (A.jc j (by omega) (by omega)) (A.jc (j + 1) (by omega) (by omega)) (A.quads (j + 1) (by omega) (by omega))
  have Q2 := inner_quad (j + 1) (A.jc (j + 1) (by omega) (by omega)) (A.jc (j + 2) (by omega) (by omega))
    (A.quads (j + 2) (by omega) (by omega))
  have Q3 := inner_quad (j + 2) (A.jc (j + 2) (by omega) (by omega)) (A.jc (j + 3) (by omega) (by omega))
    (A.quads (j + 3) (by omega) (by omega))
  have l1 : e.hwFw * (|jtau pt j| + |jtau pt (j + 1)| + 1) ≤ eL pt (j + 1) := A.len (j + 1) (by omega) (by omega)
  have l2 : e.hwFw * (|jtau pt (j + 1)| + |jtau pt (j + 2)| + 1) ≤ eL pt (j + 2) := A.len (j + 2) (by omega) (by omega)
  have l3 : e.hwFw * (|jtau pt (j + 2)| + |jtau pt (j + 3)| + 1) ≤ eL pt (j + 3) := A.len (j + 3) (by omega) (by omega)
  have s1 := A.sq (j + 1) (by omega) (by omega)
  have s2 := A.sq (j + 2) (by omega) (by omega)
  have s3 := A.sq (j + 3) (by omega) (by omega)
  obtain ⟨hL, hunit, hd⟩ := edge_eq h.sqrt_nonneg h.sqrt_sq pt (j + 2) s2
  obtain ⟨hL1, hunit1, hd1⟩ := edge_eq h.sqrt_nonneg h.sqrt_sq pt (j + 1) s1
  obtain ⟨hL3, hunit3, hd3⟩ := edge_eq h.sqrt_nonneg h.sqrt_sq pt (j + 3) s3
  have hpt : bandPoint (pt (j + 2)) (pt (j + 2 + 1)) ((perp (eT pt (j + 2))).smul e.hwFw) s u
      = pt (j + 2) + (eT pt (j + 2)).smul (eL pt (j + 2) * s) + (perp (eT pt (j + 2))).smul (e.hwFw * u) := by
    unfold bandPoint; rw [hd]; apply P.ext' <;> simp only [geom] <;> ring
  rw [hpt]
  have hx0 : 0 ≤ eL pt (j + 2) * s := mul_nonneg (le_of_lt hL) hs
  have hxL : eL pt (j + 2) * s ≤ eL pt (j + 2) := by nlinarith
  generalize eL pt (j + 2) * s = x at hx0 hxL
  by_cases hlo : e.hwFw * ((1 - u) * sA0 e pt (j + 1 + 1) + (1 + u) * sA1 e pt (j + 1 + 1)) / 2 ≤ x
  · by_cases hhi : x ≤ eL pt (j + 1 + 1) + e.hwFw * ((1 - u) * sB0 e pt 0 (j + 1 + 1) + (1 + u) * sB1 e pt 0 (j + 1 + 1)) / 2
    · exact trapIn h (j + 1) s2 Q2 l2 x u hu hu1 hlo hhi
    · -- beyond the end line: the join at `pt (j+3)`
      have hhi' := lt_of_not_ge hhi
      obtain ⟨ε, c, σ, τ, κ, D⟩ := joint_data_of (j + 2) (A.jc (j + 2) (by omega) (by omega)) hunit hunit3
        (A.joins (j + 3) (by omega) (by omega))
      obtain ⟨hyb, hyb1⟩ := eps_band D.eps hu hu1
      have hεy : ε * (ε * u) = u := by rw [← mul_assoc, D.eps, one_mul]
      have hj : pt (j + 2 + 1) = pt (j + 2) + (eT pt (j + 2)).smul (eL pt (j + 2)) := by
        rw [← hd]; apply P.ext' <;> simp only [geom] <;> ring
      have hgoal : pt (j + 2 + 1) + (eT pt (j + 2)).smul (e.hwFw * ((x - eL pt (j + 2)) / e.hwFw))
            + (perp (eT pt (j + 2))).smul (ε * e.hwFw * (ε * u))
          = pt (j + 2) + (eT pt (j + 2)).smul x + (perp (eT pt (j + 2))).smul (e.hwFw * u) := by
        rw [hj]
        have e1 : e.hwFw * ((x - eL pt (j + 2)) / e.hwFw) = x - eL pt (j + 2) := by field_simp
        have e2 : ε * e.hwFw * (ε * u) = e.hwFw * u := by linear_combination (e.hwFw * u) * D.eps
        rw [e1, e2]; apply P.ext' <;> simp only [geom] <;> ring
      rw [← hgoal]
      have hhiP := D.hiPrev (ε * u)
      rw [hεy] at hhiP
      simp only [sB0, sB1, if_neg (Nat.succ_ne_zero (j + 1 + 1))] at hhi'
      refine end_corner (EmTri o) (pt (j + 2 + 1)) (eT pt (j + 2)) (eT pt (j + 2 + 1)) e.hwFw ε c σ τ κ D.eps D.hτ D.hcs D.hc
        D.hσ D.hκ D.hrot D.tri ?_ ((x - eL pt (j + 2)) / e.hwFw) (ε * u) hyb hyb1 ?_ ?_
      · intro x' y' h1 h2 h3 h4
        obtain ⟨hzb, hzb1⟩ := eps_band D.eps h1 h2
        have hpt2 : pt (j + 2 + 1) + (eT pt (j + 2 + 1)).smul (e.hwFw * x') + (perp (eT pt (j + 2 + 1))).smul (ε * e.hwFw * y')
            = pt (j + 2 + 1) + (eT pt (j + 2 + 1)).smul (e.hwFw * x') + (perp (eT pt (j + 2 + 1))).smul (e.hwFw * (ε * y')) := by
          apply P.ext' <;> simp only [geom] <;> ring
        rw [hpt2]
        have hloN := D.loNext y'
        obtain ⟨b1, b2, b3, b4⟩ := inner_bounds e pt (j + 2)
        rw [← D.tabs] at l3
        have hT2 := abs_nonneg (jtau pt (j + 3))
        refine trapIn h (j + 2) s3 Q3 (by rw [← D.tabs]; exact l3) (e.hwFw * x') (ε * y') hzb hzb1 ?_ ?_
        · simp only [sA0, sA1, if_neg (Nat.succ_ne_zero (j + 2)), Nat.add_sub_cancel]
          have : e.hwFw * ((1 - ε * y') * (if nsAt e pt (j + 2 + 1) = true then -jtau pt (j + 2) else -lamAt e pt (j + 2 + 1))
              + (1 + ε * y') * (if psAt e pt (j + 2 + 1) = true then jtau pt (j + 2) else -lamAt e pt (j + 2 + 1))) / 2
              = e.hwFw * (τ * ((1 + y') - κ * (1 - y')) / 2) := by rw [← hloN]; ring
          rw [this]
          exact mul_le_mul_of_nonneg_left h3 (le_of_lt hw)
        · have hm := mix_ge (ε * y') _ _ _ hzb hzb1 b3 b4
          have := mul_le_mul_of_nonneg_left hm (le_of_lt hw)
          have := mul_le_mul_of_nonneg_left h4 (le_of_lt hw)
          linarith
      · rw [div_le_iff₀ hw]; linarith
      · rw [le_div_iff₀ hw]
        have : e.hwFw * ((1 - u) * (if nsAt e pt (j + 1 + 1 + 1) = true then jtau pt (j + 1 + 1) else lamAt e pt (j + 1 + 1 + 1))
            + (1 + u) * (if psAt e pt (j + 1 + 1 + 1) = true then -jtau pt (j + 1 + 1) else lamAt e pt (j + 1 + 1 + 1))) / 2
            = -(τ * ((1 + ε * u) - κ * (1 - ε * u)) / 2) * e.hwFw := by rw [← hhiP]; ring
        rw [this] at hhi'
        linarith
  · -- before the start line: the join at `pt (j+2)`
    have hlo' := lt_of_not_ge hlo
    obtain ⟨ε, c, σ, τ, κ, D⟩ := joint_data_of (j + 1) (A.jc (j + 1) (by omega) (by omega)) hunit1 hunit
      (A.joins (j + 2) (by omega) (by omega))
    obtain ⟨hyb, hyb1⟩ := eps_band D.eps hu hu1
    have hεy : ε * (ε * u) = u := by rw [← mul_assoc, D.eps, one_mul]
    have hj : pt (j + 1 + 1) = pt (j + 1) + (eT pt (j + 1)).smul (eL pt (j + 1)) := by
      rw [← hd1]; apply P.ext' <;> simp only [geom] <;> ring
    have hgoal : pt (j + 1 + 1) + (eT pt (j + 1 + 1)).smul (e.hwFw * (x / e.hwFw)) + (perp (eT pt (j + 1 + 1))).smul (ε * e.hwFw * (ε * u))
        = pt (j + 2) + (eT pt (j + 2)).smul x + (perp (eT pt (j + 2))).smul (e.hwFw * u) := by
      have e1 : e.hwFw * (x / e.hwFw) = x := by field_simp
      have e2 : ε * e.hwFw * (ε * u) = e.hwFw * u := by linear_combination (e.hwFw * u) * D.eps
      rw [e1, e2]
    rw [← hgoal]
    have hloN := D.loNext (ε * u)
    rw [hεy] at hloN
    simp only [sA0, sA1, if_neg (Nat.succ_ne_zero (j + 1)), Nat.add_sub_cancel] at hlo'
    refine start_corner (EmTri o) (pt (j + 1 + 1)) (eT pt (j + 1)) (eT pt (j + 1 + 1)) e.hwFw ε c σ τ κ D.eps D.hτ D.hcs D.hc
      D.hσ D.hκ D.hrot D.tri ?_ (x / e.hwFw) (ε * u) hyb hyb1 (div_nonneg hx0 (le_of_lt hw)) ?_
    · intro x' y' h1 h2 h3 h4
      obtain ⟨hzb, hzb1⟩ := eps_band D.eps h1 h2
      have hpt2 : pt (j + 1 + 1) - (eT pt (j + 1)).smul (e.hwFw * x') + (perp (eT pt (j + 1))).smul (ε * e.hwFw * y')
          = pt (j + 1) + (eT pt (j + 1)).smul (eL pt (j + 1) - e.hwFw * x') + (perp (eT pt (j + 1))).smul (e.hwFw * (ε * y')) := by
        rw [hj]; apply P.ext' <;> simp only [geom] <;> ring
      rw [hpt2]
      have hhiP := D.hiPrev y'
      obtain ⟨b1, b2, b3, b4⟩ := inner_bounds e pt j
      have hT0 := abs_nonneg (jtau pt j)
      refine trapIn h j s1 Q1 l1 (eL pt (j + 1) - e.hwFw * x') (ε * y') hzb hzb1 ?_ ?_
      · have hm := mix_le (ε * y') _ _ _ hzb hzb1 b1 b2
        have := mul_le_mul_of_nonneg_left hm (le_of_lt hw)
        have := mul_le_mul_of_nonneg_left h4 (le_of_lt hw)
        rw [← D.tabs] at l1
        linarith
      · simp only [sB0, sB1, if_neg (Nat.succ_ne_zero (j + 1))]
        have : e.hwFw * ((1 - ε * y') * (if nsAt e pt (j + 1 + 1) = true then jtau pt (j + 1) else lamAt e pt (j + 1 + 1))
            + (1 + ε * y') * (if psAt e pt (j + 1 + 1) = true then -jtau pt (j + 1) else lamAt e pt (j + 1 + 1))) / 2
            = -(e.hwFw * (τ * ((1 + y') - κ * (1 - y')) / 2)) := by
          linear_combination e.hwFw * hhiP
        rw [this]
        have := mul_le_mul_of_nonneg_left h3 (le_of_lt hw)
        linarith
    · rw [div_le_iff₀ hw]
      have : e.hwFw * ((1 - u) * (if nsAt e pt (j + 1 + 1) = true then -jtau pt (j + 1) else -lamAt e pt (j + 1 + 1))
          + (1 + u) * (if psAt e pt (j + 1 + 1) = true then jtau pt (j + 1) else -lamAt e pt (j + 1 + 1))) / 2
          = τ * ((1 + ε * u) - κ * (1 - ε * u)) / 2 * e.hwFw := by rw [← hloN]; ring
      rw [this] at hlo'
      linarith

end

end Lyon.C06b
