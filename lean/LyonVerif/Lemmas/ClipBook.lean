/-
  Domain bookkeeping of the clipper model over an ordered field (helper lemmas; the theorems are
  in `Props/C12c.lean`):
  * `split_range` / `split` against `domain_value_at_t` (restriction composes);
  * `Consistent`: the sub-curves of a call are the restrictions of the ORIGINAL curves to the
    call's domains — preserved by every recursive call of `step`;
  * `CrossingAB`: a common point of the two original curves located inside the call's domains —
    every step hands it on to (one of) its recursive calls, unless the step is a leaf
    (`IsLeaf`: point-like sub-curve or converged domains); the two silent exits (bounding boxes
    apart, clip answers `None`) are impossible when a crossing is inside the domains.
-/
import LyonVerif.Lemmas.ClipFat
import LyonVerif.Lemmas.ClipRec

set_option linter.unusedSectionVars false
set_option linter.unusedVariables false
set_option linter.unusedSimpArgs false

namespace Lyon.Clip
open Lyon Scalar
variable {K : Type} [Field K] [LinearOrder K] [IsStrictOrderedRing K]

/-! ### restriction composes -/

theorem splitRange_sample (c : Cubic K) (d : K × K) (u : K) :
    (c.splitRange d.1 d.2).sample u = c.sample (domainValueAtT d u) := by
  apply P.ext' <;>
  · simp only [Cubic.splitRange, Cubic.sample, Quad.sample, domainValueAtT, geom, Nat.cast_ofNat, Nat.cast_one]
    ring

theorem split_left_sample (c : Cubic K) (t u : K) : (c.split t).1.sample u = c.sample (t * u) := by
  apply P.ext' <;>
  · simp only [Cubic.split, Cubic.sample, geom, Nat.cast_ofNat, Nat.cast_one]
    ring

theorem split_right_sample (c : Cubic K) (t u : K) :
    (c.split t).2.sample u = c.sample (t + (1 - t) * u) := by
  apply P.ext' <;>
  · simp only [Cubic.split, Cubic.sample, geom, Nat.cast_ofNat, Nat.cast_one]
    ring

theorem cubic_ext {x y : Cubic K} (h1 : x.a = y.a) (h2 : x.c1 = y.c1) (h3 : x.c2 = y.c2)
    (h4 : x.b = y.b) : x = y := by
  cases x; cases y; simp_all

theorem splitRange_splitRange (c : Cubic K) (a b s t : K) :
    (c.splitRange a b).splitRange s t
      = c.splitRange (domainValueAtT (a, b) s) (domainValueAtT (a, b) t) := by
  apply cubic_ext <;> apply P.ext' <;>
  · simp only [Cubic.splitRange, Cubic.sample, Quad.sample, domainValueAtT, geom, Nat.cast_ofNat, Nat.cast_one]
    ring

theorem half_eq : (half : K) = 1 / 2 := sc_half

/-- the first half of the restriction to `d` is the restriction to `(d.start, mid)` -/
theorem half_left_sample (o : Cubic K) (d : K × K) (u : K) :
    ((o.splitRange d.1 d.2).split half).1.sample u = o.sample (domainValueAtT (d.1, domMid d) u) := by
  rw [split_left_sample, splitRange_sample]
  congr 1
  simp only [domainValueAtT, domMid, half_eq]; ring

/-- the second half of the restriction to `d` is the restriction to `(mid, d.end)` -/
theorem half_right_sample (o : Cubic K) (d : K × K) (u : K) :
    ((o.splitRange d.1 d.2).split half).2.sample u = o.sample (domainValueAtT (domMid d, d.2) u) := by
  rw [split_right_sample, splitRange_sample]
  congr 1
  simp only [domainValueAtT, domMid, half_eq]; ring

/-! ### a curve lies in its fast bounding box -/

theorem bern_le_max (d0 d1 d2 d3 t : K) (h0 : 0 ≤ t) (h1 : t ≤ 1) :
    bern d0 d1 d2 d3 t ≤ Max.max (Max.max (Max.max d0 d1) d2) d3 := by
  set M := Max.max (Max.max (Max.max d0 d1) d2) d3
  have a0 : d0 ≤ M := le_trans (le_trans (le_max_left _ _) (le_max_left _ _)) (le_max_left _ _)
  have a1 : d1 ≤ M := le_trans (le_trans (le_max_right _ _) (le_max_left _ _)) (le_max_left _ _)
  have a2 : d2 ≤ M := le_trans (le_max_right _ _) (le_max_left _ _)
  have a3 : d3 ≤ M := le_max_right _ _
  have h := (edgeAbove_of_ctrl d0 d1 d2 d3 ⟨0, M⟩ ⟨1, M⟩ (by norm_num)
    (by dsimp only; linarith) (by dsimp only; linarith) (by dsimp only; linarith)
    (by dsimp only; linarith)).2 t h0 h1
  dsimp only at h
  linarith

theorem min_le_bern (d0 d1 d2 d3 t : K) (h0 : 0 ≤ t) (h1 : t ≤ 1) :
    Min.min (Min.min (Min.min d0 d1) d2) d3 ≤ bern d0 d1 d2 d3 t := by
  set M := Min.min (Min.min (Min.min d0 d1) d2) d3
  have a0 : M ≤ d0 := le_trans (min_le_left _ _) (le_trans (min_le_left _ _) (min_le_left _ _))
  have a1 : M ≤ d1 := le_trans (min_le_left _ _) (le_trans (min_le_left _ _) (min_le_right _ _))
  have a2 : M ≤ d2 := le_trans (min_le_left _ _) (min_le_right _ _)
  have a3 : M ≤ d3 := min_le_right _ _
  have h := (edgeBelow_of_ctrl d0 d1 d2 d3 ⟨0, M⟩ ⟨1, M⟩ (by norm_num)
    (by dsimp only; linarith) (by dsimp only; linarith) (by dsimp only; linarith)
    (by dsimp only; linarith)).2 t h0 h1
  dsimp only at h
  linarith

theorem sample_x_bern (c : Cubic K) (t : K) : (c.sample t).x = bern c.a.x c.c1.x c.c2.x c.b.x t := by
  simp only [Cubic.sample, bern, geom, Nat.cast_ofNat, Nat.cast_one]; ring
theorem sample_y_bern (c : Cubic K) (t : K) : (c.sample t).y = bern c.a.y c.c1.y c.c2.y c.b.y t := by
  simp only [Cubic.sample, bern, geom, Nat.cast_ofNat, Nat.cast_one]; ring

variable [Transc K] [Eps K]

/-- two cubics with a common point have overlapping (closed) fast bounding boxes -/
theorem boxes_overlap_of_common (c1 c2 : Cubic K) (s u : K) (hs : In01 s) (hu : In01 u)
    (h : c1.sample s = c2.sample u) :
    rectanglesOverlap c1.ixFastBoundingBox c2.ixFastBoundingBox = true := by
  have hx : (c1.sample s).x = (c2.sample u).x := by rw [h]
  have hy : (c1.sample s).y = (c2.sample u).y := by rw [h]
  rw [sample_x_bern, sample_x_bern] at hx
  rw [sample_y_bern, sample_y_bern] at hy
  have x1 := bern_le_max c1.a.x c1.c1.x c1.c2.x c1.b.x s hs.1 hs.2
  have x2 := min_le_bern c1.a.x c1.c1.x c1.c2.x c1.b.x s hs.1 hs.2
  have x3 := bern_le_max c2.a.x c2.c1.x c2.c2.x c2.b.x u hu.1 hu.2
  have x4 := min_le_bern c2.a.x c2.c1.x c2.c2.x c2.b.x u hu.1 hu.2
  have y1 := bern_le_max c1.a.y c1.c1.y c1.c2.y c1.b.y s hs.1 hs.2
  have y2 := min_le_bern c1.a.y c1.c1.y c1.c2.y c1.b.y s hs.1 hs.2
  have y3 := bern_le_max c2.a.y c2.c1.y c2.c2.y c2.b.y u hu.1 hu.2
  have y4 := min_le_bern c2.a.y c2.c1.y c2.c2.y c2.b.y u hu.1 hu.2
  unfold rectanglesOverlap
  simp only [Bool.and_eq_true, decide_eq_true_eq]
  refine ⟨⟨⟨?_, ?_⟩, ?_⟩, ?_⟩ <;> simp only [Cubic.ixFastBoundingBox, sc_min, sc_max] <;> linarith

/-! ### consistency of the sub-curves with the domains -/

/-- the sub-curves of a call are the restrictions of the original curves to the call's domains -/
def Consistent (a : Args K) : Prop :=
  (∀ u, a.c1.sample u = a.o1.sample (domainValueAtT a.d1 u))
  ∧ (∀ u, a.c2.sample u = a.o2.sample (domainValueAtT a.d2 u))

/-- `t` is a parameter of the domain `d` -/
def InDom (d : K × K) (t : K) : Prop := ∃ s, In01 s ∧ t = domainValueAtT d s

/-- a common point `o1(t1) = o2(t2)` of the call's original curves inside the call's domains -/
def Crossing (a : Args K) (t1 t2 : K) : Prop :=
  InDom a.d1 t1 ∧ InDom a.d2 t2 ∧ a.o1.sample t1 = a.o2.sample t2

/-- the same for the top-level curves `A`, `B`: `flip` tells which of them `o1` is -/
def CrossingAB (a : Args K) (tA tB : K) : Prop :=
  if a.flip = true then Crossing a tB tA else Crossing a tA tB

theorem inDom_halves (d : K × K) (t : K) (h : InDom d t) :
    InDom (d.1, domMid d) t ∨ InDom (domMid d, d.2) t := by
  obtain ⟨s, hs, rfl⟩ := h
  rcases le_total s (1 / 2) with h' | h'
  · left
    refine ⟨2 * s, ⟨by linarith [hs.1], by linarith⟩, ?_⟩
    simp only [domainValueAtT, domMid, half_eq]; ring
  · right
    refine ⟨2 * s - 1, ⟨by linarith, by linarith [hs.2]⟩, ?_⟩
    simp only [domainValueAtT, domMid, half_eq]; ring

/-- the clip step refines the first domain without losing the crossing -/
theorem clip_refines (a : Args K) (hc : Consistent a) (t1 t2 : K) (hx : Crossing a t1 t2) :
    rectanglesOverlap a.c1.ixFastBoundingBox a.c2.ixFastBoundingBox = true
    ∧ ∃ clip, restrictCurveToFatLine a.c1 a.c2 = some clip ∧ In01 clip.1 ∧ In01 clip.2
        ∧ InDom (newDomain1 a clip) t1 := by
  obtain ⟨⟨s, hs, h1⟩, ⟨u, hu, h2⟩, hsame⟩ := hx
  have hcommon : a.c1.sample s = a.c2.sample u := by
    rw [hc.1 s, hc.2 u, ← h1, ← h2]; exact hsame
  refine ⟨boxes_overlap_of_common _ _ s u hs hu hcommon, ?_⟩
  have hf := fatLine_contains a.c2 u hu.1 hu.2
  rw [← hcommon, signedDistance_sample] at hf
  obtain ⟨lo, hi, hclip, hlo, hhi⟩ :=
    clipHull_sound (convexHull_ok _ _ _ _) _ _ s hs.1 hs.2 hf.1 hf.2
  have hclip' : restrictCurveToFatLine a.c1 a.c2 = some (lo, hi) := hclip
  obtain ⟨hl01, hh01⟩ := restrict_in01 _ _ _ _ hclip'
  refine ⟨(lo, hi), hclip', hl01, hh01, ?_⟩
  rcases eq_or_lt_of_le (le_trans hlo hhi) with heq | hlt
  · -- lo = hi = s
    have hs' : s = lo := le_antisymm (by rw [heq]; exact hhi) hlo
    refine ⟨0, ⟨le_refl _, zero_le_one⟩, ?_⟩
    rw [h1, hs']
    simp only [newDomain1, domainValueAtT]; ring
  · have hpos : 0 < hi - lo := by linarith
    refine ⟨(s - lo) / (hi - lo), ⟨div_nonneg (by linarith) hpos.le, ?_⟩, ?_⟩
    · rw [div_le_one hpos]; linarith
    · rw [h1]
      simp only [newDomain1, domainValueAtT]
      field_simp
      ring

theorem crossingAB_elim {a : Args K} {tA tB : K} (h : CrossingAB a tA tB) :
    ∃ t1 t2, Crossing a t1 t2 ∧
      ((a.flip = false ∧ t1 = tA ∧ t2 = tB) ∨ (a.flip = true ∧ t1 = tB ∧ t2 = tA)) := by
  unfold CrossingAB at h
  split_ifs at h with hf
  · exact ⟨tB, tA, h, Or.inr ⟨hf, rfl, rfl⟩⟩
  · exact ⟨tA, tB, h, Or.inl ⟨by simpa using hf, rfl, rfl⟩⟩

/-- a child with the same roles -/
theorem crossingAB_same {a a1 : Args K} {tA tB t1 t2 : K} (hf : a1.flip = a.flip)
    (hr : (a.flip = false ∧ t1 = tA ∧ t2 = tB) ∨ (a.flip = true ∧ t1 = tB ∧ t2 = tA))
    (h : Crossing a1 t1 t2) : CrossingAB a1 tA tB := by
  unfold CrossingAB
  rcases hr with ⟨hfl, rfl, rfl⟩ | ⟨hfl, rfl, rfl⟩
  · rw [hf, hfl]; simpa using h
  · rw [hf, hfl]; simpa using h

/-- a child with the roles swapped -/
theorem crossingAB_swapped {a a1 : Args K} {tA tB t1 t2 : K} (hf : a1.flip = !a.flip)
    (hr : (a.flip = false ∧ t1 = tA ∧ t2 = tB) ∨ (a.flip = true ∧ t1 = tB ∧ t2 = tA))
    (h : Crossing a1 t2 t1) : CrossingAB a1 tA tB := by
  unfold CrossingAB
  rcases hr with ⟨hfl, rfl, rfl⟩ | ⟨hfl, rfl, rfl⟩
  · rw [hf, hfl]; simpa using h
  · rw [hf, hfl]; simpa using h

/-- the step is decided at a leaf: a point-like `curve2` / empty `domain2`, or — after a
successful clip — converged domains or a point-like clipped `curve1` -/
def IsLeaf (a : Args K) : Prop :=
  (a.d2.1 == a.d2.2 || isAPoint a.c2 zero) = true
  ∨ ∃ clip, restrictCurveToFatLine a.c1 a.c2 = some clip
      ∧ (Scalar.max (a.d2.2 - a.d2.1) ((newDomain1 a clip).2 - (newDomain1 a clip).1) < (convEps : K)
         ∨ ((newDomain1 a clip).1 == (newDomain1 a clip).2
            || isAPoint (a.o1.splitRange (newDomain1 a clip).1 (newDomain1 a clip).2) zero) = true)

/-- what a step does with a crossing located in its domains -/
def StepTracks (a : Args K) (tA tB : K) : Step K → Prop
  | .done _ => IsLeaf a
  | .one a1 => Consistent a1 ∧ CrossingAB a1 tA tB
  | .two a1 a2 => Consistent a1 ∧ Consistent a2 ∧ (CrossingAB a1 tA tB ∨ CrossingAB a2 tA tB)

theorem stepSubdivide_tracks (a : Args K) (hc : Consistent a) (tA tB t1 t2 : K)
    (hr : (a.flip = false ∧ t1 = tA ∧ t2 = tB) ∨ (a.flip = true ∧ t1 = tB ∧ t2 = tA))
    (hx : Crossing a t1 t2) (nd1 : K × K) (hnd : InDom nd1 t1) :
    StepTracks a tA tB (stepSubdivide a nd1 (a.o1.splitRange nd1.1 nd1.2)) := by
  obtain ⟨hd1, hd2, hsame⟩ := hx
  unfold stepSubdivide
  split_ifs
  · refine ⟨⟨hc.2, fun u => half_left_sample a.o1 nd1 u⟩, ⟨hc.2, fun u => half_right_sample a.o1 nd1 u⟩, ?_⟩
    rcases inDom_halves nd1 t1 hnd with h | h
    · exact Or.inl (crossingAB_swapped (a := a) rfl hr ⟨hd2, h, hsame.symm⟩)
    · exact Or.inr (crossingAB_swapped (a := a) rfl hr ⟨hd2, h, hsame.symm⟩)
  · refine ⟨⟨fun u => half_left_sample a.o2 a.d2 u, fun u => splitRange_sample a.o1 nd1 u⟩,
      ⟨fun u => half_right_sample a.o2 a.d2 u, fun u => splitRange_sample a.o1 nd1 u⟩, ?_⟩
    rcases inDom_halves a.d2 t2 hd2 with h | h
    · exact Or.inl (crossingAB_swapped (a := a) rfl hr ⟨h, hnd, hsame.symm⟩)
    · exact Or.inr (crossingAB_swapped (a := a) rfl hr ⟨h, hnd, hsame.symm⟩)

theorem stepIterate_tracks (a : Args K) (hc : Consistent a) (tA tB t1 t2 : K)
    (hr : (a.flip = false ∧ t1 = tA ∧ t2 = tB) ∨ (a.flip = true ∧ t1 = tB ∧ t2 = tA))
    (hx : Crossing a t1 t2) (nd1 : K × K) (hnd : InDom nd1 t1) :
    StepTracks a tA tB (stepIterate a nd1 (a.o1.splitRange nd1.1 nd1.2)) := by
  obtain ⟨hd1, hd2, hsame⟩ := hx
  unfold stepIterate
  split_ifs
  · exact ⟨⟨hc.2, fun u => splitRange_sample a.o1 nd1 u⟩,
      crossingAB_swapped (a := a) rfl hr ⟨hd2, hnd, hsame.symm⟩⟩
  · exact ⟨⟨fun u => splitRange_sample a.o1 nd1 u, hc.2⟩,
      crossingAB_same (a := a) rfl hr ⟨hnd, hd2, hsame⟩⟩

/-- **one step never drops a crossing**: a common point of the original curves lying inside the
domains of a (consistent) call lies inside the domains of its recursive call / of one of its two
recursive calls, which are consistent again; a step that ends the recursion there is a leaf.
In particular the exits "bounding boxes apart" and "clip = None" are not taken. -/
theorem step_tracks (a : Args K) (st : State K) (hc : Consistent a) (tA tB : K)
    (hx : CrossingAB a tA tB) : StepTracks a tA tB (step a st) := by
  obtain ⟨t1, t2, hx', hr⟩ := crossingAB_elim hx
  obtain ⟨hbox, clip, hclip, _, _, hnd⟩ := clip_refines a hc t1 t2 hx'
  unfold step
  split_ifs with h1 h2 h3
  · exact Or.inl h1
  · -- closed curve2: split it
    obtain ⟨hd1, hd2, hsame⟩ := hx'
    refine ⟨⟨hc.1, fun u => half_left_sample a.o2 a.d2 u⟩, ⟨hc.1, fun u => half_right_sample a.o2 a.d2 u⟩, ?_⟩
    rcases inDom_halves a.d2 t2 hd2 with h | h
    · exact Or.inl (crossingAB_same (a := a) rfl hr ⟨hd1, h, hsame⟩)
    · exact Or.inr (crossingAB_same (a := a) rfl hr ⟨hd1, h, hsame⟩)
  · rw [hbox] at h3; simp at h3
  · rw [hclip]
    show StepTracks a tA tB (stepClipped a clip st)
    unfold stepClipped
    split_ifs with h4 h5 h6
    · exact Or.inr ⟨clip, hclip, Or.inl h4⟩
    · exact Or.inr ⟨clip, hclip, Or.inr h5⟩
    · exact stepSubdivide_tracks a hc tA tB t1 t2 hr hx' _ hnd
    · exact stepIterate_tracks a hc tA tB t1 t2 hr hx' _ hnd

/-- consistency alone (no crossing needed) is handed on to every recursive call -/
def StepConsistent : Step K → Prop
  | .done _ => True
  | .one a1 => Consistent a1
  | .two a1 a2 => Consistent a1 ∧ Consistent a2

theorem step_consistent (a : Args K) (st : State K) (hc : Consistent a) :
    StepConsistent (step a st) := by
  unfold step
  split_ifs
  · trivial
  · exact ⟨⟨hc.1, fun u => half_left_sample a.o2 a.d2 u⟩, ⟨hc.1, fun u => half_right_sample a.o2 a.d2 u⟩⟩
  · trivial
  · split
    · trivial
    · rename_i clip _
      unfold stepClipped
      split_ifs
      · trivial
      · trivial
      · unfold stepSubdivide
        split_ifs
        · exact ⟨⟨hc.2, fun u => half_left_sample a.o1 _ u⟩, ⟨hc.2, fun u => half_right_sample a.o1 _ u⟩⟩
        · exact ⟨⟨fun u => half_left_sample a.o2 a.d2 u, fun u => splitRange_sample a.o1 _ u⟩,
            ⟨fun u => half_right_sample a.o2 a.d2 u, fun u => splitRange_sample a.o1 _ u⟩⟩
      · unfold stepIterate
        split_ifs
        · exact ⟨hc.2, fun u => splitRange_sample a.o1 _ u⟩
        · exact ⟨fun u => splitRange_sample a.o1 _ u, hc.2⟩

/-- the recursive calls carry the (already incremented) recursion count of the call -/
def StepRc (n : Nat) : Step K → Prop
  | .done _ => True
  | .one a1 => a1.rc = n
  | .two a1 a2 => a1.rc = n ∧ a2.rc = n

theorem step_rc (a : Args K) (st : State K) : StepRc a.rc (step a st) := by
  unfold step
  split_ifs
  · trivial
  · exact ⟨rfl, rfl⟩
  · trivial
  · split
    · trivial
    · unfold stepClipped
      split_ifs
      · trivial
      · trivial
      · unfold stepSubdivide; split_ifs <;> exact ⟨rfl, rfl⟩
      · unfold stepIterate; split_ifs <;> rfl

theorem addPointCurveIntersection_fuelOut (pc : Cubic K) (b : Bool) (c : Cubic K) (pd cd : K × K)
    (flip : Bool) (st : State K) :
    (addPointCurveIntersection pc b c pd cd flip st).fuelOut = st.fuelOut := by
  unfold addPointCurveIntersection; split <;> rfl

/-- a step that ends the recursion does not touch the model's `fuelOut` flag -/
def StepFuel (f : Bool) : Step K → Prop
  | .done s => s.fuelOut = f
  | _ => True

theorem step_fuelOut (a : Args K) (st : State K) : StepFuel st.fuelOut (step a st) := by
  unfold step
  split_ifs
  · exact addPointCurveIntersection_fuelOut _ _ _ _ _ _ _
  · trivial
  · rfl
  · split
    · rfl
    · unfold stepClipped
      split_ifs
      · show (stepConverged _ _ st).fuelOut = st.fuelOut
        unfold stepConverged; split_ifs <;> rfl
      · exact addPointCurveIntersection_fuelOut _ _ _ _ _ _ _
      · unfold stepSubdivide; split_ifs <;> trivial
      · unfold stepIterate; split_ifs <;> trivial

/-- **the fuel of the model is never the reason to stop**: with `fuel > 0` and
`fuel + recursion_count ≥ 60` the recursion is always ended by lyon's own budget test or by a
leaf; the model's `fuelOut` flag stays untouched -/
theorem addCurveIx_fuelOut : ∀ (fuel : Nat) (a : Args K) (st : State K), 0 < fuel → 60 ≤ fuel + a.rc →
    (addCurveIx fuel a st).fuelOut = st.fuelOut
  | 0, _, _, h, _ => absurd h (Nat.lt_irrefl 0)
  | fuel + 1, a, st, _, h => by
    unfold addCurveIx
    split_ifs with hb
    · rfl
    · have hrc : ¬ (a.rc + 1 ≥ 60) := fun hh => hb (Or.inr hh)
      have hf : 0 < fuel := by omega
      have hstep := step_fuelOut ({ a with rc := a.rc + 1 } : Args K) ({ st with calls := st.calls + 1 } : State K)
      have hr := step_rc ({ a with rc := a.rc + 1 } : Args K) ({ st with calls := st.calls + 1 } : State K)
      split
      · rename_i s hh; rw [hh] at hstep; exact hstep
      · rename_i a1 hh; rw [hh] at hr
        have h1 : a1.rc = a.rc + 1 := hr
        rw [addCurveIx_fuelOut fuel a1 _ hf (by omega)]
      · rename_i a1 a2 hh; rw [hh] at hr
        have h1 : a1.rc = a.rc + 1 := hr.1
        have h2 : a2.rc = a.rc + 1 := hr.2
        rw [addCurveIx_fuelOut fuel a2 _ hf (by omega), addCurveIx_fuelOut fuel a1 _ hf (by omega)]

/-- the top-level call is consistent -/
theorem consistent_top (c1 c2 : Cubic K) :
    Consistent ({ c1 := c1, c2 := c2, d1 := (zero, one), d2 := (zero, one), flip := false, rc := 0,
                  o1 := c1, o2 := c2 } : Args K) := by
  constructor <;> intro u <;> simp [domainValueAtT]

end Lyon.Clip
