/-
  Slab checker soundness, part 3: the sweep.

  * `sweepGo_ok`     if the sweep records no failure then, for every split of the sorted list into
                     a prefix `L` and a rest `R`, the counters after `L` were tested: against the
                     unbounded right gap if `R = []`, with `gapOk` if the first item of `R` is
                     strictly right of the last item passed
  * `accInv_run`     the counters after passing `L` are `wSum L` and `fCount n L`
                     (sum of `dir`; number of triangle tags occurring an odd number of times)
  * `winding_eq`, `coverage_eq`   `wSum`/`fCount` of the items left of `q` are `winding`/`coverage`
-/
import LyonVerif.Lemmas.SlabList

set_option linter.unusedSectionVars false
set_option linter.unusedVariables false

namespace Lyon.Slab
open Lyon

variable {K : Type} [Field K] [LinearOrder K] [IsStrictOrderedRing K]

/-- counters after passing the items `L` -/
noncomputable def Acc.run (st : Acc) (L : List (Item K)) : Acc := L.foldl Acc.step st

theorem Acc.run_cons (st : Acc) (it : Item K) (L : List (Item K)) :
    st.run (it :: L) = (st.step it).run L := rfl

theorem Acc.run_nil (st : Acc) : st.run ([] : List (Item K)) = st := rfl

theorem Acc.run_append (st : Acc) (L M : List (Item K)) : st.run (L ++ M) = (st.run L).run M := by
  unfold Acc.run; rw [List.foldl_append]

theorem getLastD_mem {β : Type} : ∀ (L : List β) (x : β), L.getLastD x ∈ x :: L
  | [], x => by simp
  | y :: L, x => by
    rw [List.getLastD_cons]
    exact List.mem_cons_of_mem _ (getLastD_mem L y)

/-- **Every boundary of the sorted list is examined by the sweep.** -/
theorem sweepGo_ok (m : Mode) (rule : Rule) (edges : List (P K × P K)) (d2 y0 y1 ym : K) :
    ∀ (L : List (K × Item K)) (st : Acc) (l : Item K) (R : List (K × Item K)),
      (sweepGo m rule edges d2 y0 y1 ym st l (L ++ R)).1 = [] →
      (R = [] → m.holds rule (st.run (L.map Prod.snd)).w (st.run (L.map Prod.snd)).f = true) ∧
      (∀ x r R', R = (x, r) :: R' → ((L.map Prod.snd).getLastD l).xAt ym < x →
        gapOk m rule edges d2 y0 y1 (st.run (L.map Prod.snd)).w (st.run (L.map Prod.snd)).f
          ((L.map Prod.snd).getLastD l) r = true)
  | [], st, l, R, h => by
    simp only [List.nil_append, List.map_nil, List.getLastD_nil, Acc.run_nil] at h ⊢
    constructor
    · intro hR
      subst hR
      simp only [sweepGo] at h
      by_contra hh
      rw [if_neg hh] at h
      exact absurd h (by simp)
    · intro x r R' hR hlt
      subst hR
      simp only [sweepGo, List.append_eq_nil_iff] at h
      have hg := h.2
      unfold gapAt at hg
      rw [if_pos hlt] at hg
      by_contra hh
      simp only [] at hg
      rw [if_neg hh] at hg
      exact absurd hg (by simp)
  | xi :: L, st, l, R, h => by
    simp only [List.cons_append, sweepGo, List.append_eq_nil_iff] at h
    have ih := sweepGo_ok m rule edges d2 y0 y1 ym L (st.step xi.2) xi.2 R h.1
    simp only [List.map_cons, List.getLastD_cons, Acc.run_cons]
    exact ih

/-! ### what the counters are -/

/-- number of items of `L` tagged with triangle index `i` -/
def cnt (L : List (Item K)) (i : Nat) : Nat := L.countP (fun it => it.tri == i + 1)

def oddAt (L : List (Item K)) (i : Nat) : Bool := decide (cnt L i % 2 = 1)

/-- sum of the winding contributions -/
def wSum (L : List (Item K)) : Int := (L.map (fun it => it.dir)).sum

/-- number of triangle indices `< n` whose tag occurs an odd number of times in `L` -/
def fCount (n : Nat) (L : List (Item K)) : Nat := ((List.range n).filter (oddAt L)).length

theorem cnt_perm {L M : List (Item K)} (h : L.Perm M) (i : Nat) : cnt L i = cnt M i :=
  h.countP_eq _

theorem wSum_perm {L M : List (Item K)} (h : L.Perm M) : wSum L = wSum M := by
  unfold wSum
  induction h with
  | nil => rfl
  | cons x _ ih => simp only [List.map_cons, List.sum_cons, ih]
  | swap x y l => simp only [List.map_cons, List.sum_cons]; omega
  | trans _ _ ih1 ih2 => rw [ih1, ih2]

theorem fCount_perm (n : Nat) {L M : List (Item K)} (h : L.Perm M) : fCount n L = fCount n M := by
  unfold fCount
  congr 2
  funext i
  unfold oddAt
  rw [cnt_perm h]

/-- flipping a predicate at one index `k` changes the number of satisfying indices by one -/
theorem filter_flip (p p' : Nat → Bool) (k : Nat) (hne : ∀ i, i ≠ k → p' i = p i) :
    ∀ n, ((List.range n).filter p').length + (if k < n ∧ p k = true then 1 else 0)
        = ((List.range n).filter p).length + (if k < n ∧ p' k = true then 1 else 0)
  | 0 => by simp
  | n + 1 => by
    have ih := filter_flip p p' k hne n
    rw [List.range_succ, List.filter_append, List.filter_append, List.length_append, List.length_append]
    by_cases hk : n = k
    · subst hk
      have e1 : ¬ (n < n ∧ p n = true) := fun h => absurd h.1 (lt_irrefl _)
      have e2 : ¬ (n < n ∧ p' n = true) := fun h => absurd h.1 (lt_irrefl _)
      rw [if_neg e1, if_neg e2] at ih
      cases hp : p n <;> cases hp' : p' n <;> simp [hp, hp'] <;> omega
    · have e : p' n = p n := hne n hk
      have e1 : (k < n + 1 ∧ p k = true) ↔ (k < n ∧ p k = true) := by
        constructor
        · rintro ⟨a, b⟩; exact ⟨by omega, b⟩
        · rintro ⟨a, b⟩; exact ⟨by omega, b⟩
      have e2 : (k < n + 1 ∧ p' k = true) ↔ (k < n ∧ p' k = true) := by
        constructor
        · rintro ⟨a, b⟩; exact ⟨by omega, b⟩
        · rintro ⟨a, b⟩; exact ⟨by omega, b⟩
      have hf : List.filter p' [n] = List.filter p [n] := by simp [List.filter_cons, e]
      have i1 : (if k < n + 1 ∧ p k = true then 1 else 0) = (if k < n ∧ p k = true then 1 else 0) :=
        if_congr e1 rfl rfl
      have i2 : (if k < n + 1 ∧ p' k = true then 1 else 0) = (if k < n ∧ p' k = true then 1 else 0) :=
        if_congr e2 rfl rfl
      rw [hf, i1, i2]
      omega

/-- the sweep counters describe the list `L` of items passed -/
structure AccInv (n : Nat) (st : Acc) (L : List (Item K)) : Prop where
  w : st.w = wSum L
  size : st.par.size = n
  par : ∀ i, i < n → st.par.getD i false = oddAt L i
  f : st.f = fCount n L

theorem oddAt_nil : oddAt ([] : List (Item K)) = fun _ => false := by
  funext i; simp [oddAt, cnt]

theorem accInv_init (n : Nat) : AccInv n (Acc.init n) ([] : List (Item K)) := by
  refine ⟨rfl, by simp [Acc.init], ?_, ?_⟩
  · intro i hi
    simp [Acc.init, oddAt, cnt, hi]
  · simp [Acc.init, fCount, oddAt_nil]

theorem cnt_snoc (L : List (Item K)) (it : Item K) (i : Nat) :
    cnt (L ++ [it]) i = cnt L i + (if it.tri = i + 1 then 1 else 0) := by
  unfold cnt
  rw [List.countP_append]
  congr 1
  by_cases h : it.tri = i + 1 <;> simp [h]

theorem accInv_step (n : Nat) (st : Acc) (L : List (Item K)) (it : Item K) (hinv : AccInv n st L)
    (htri : it.tri ≤ n) : AccInv n (st.step it) (L ++ [it]) := by
  obtain ⟨hw, hsize, hpar, hf⟩ := hinv
  have hw' : (st.step it).w = wSum (L ++ [it]) := by
    show st.w + it.dir = _
    rw [hw]; unfold wSum; simp
  by_cases h0 : it.tri = 0
  · -- an outline edge: no parity changes
    have hc : ∀ i, cnt (L ++ [it]) i = cnt L i := by
      intro i; rw [cnt_snoc, if_neg (by omega)]; rfl
    have ho : oddAt (L ++ [it]) = oddAt L := by funext i; unfold oddAt; rw [hc]
    have hstep : (st.step it).par = st.par ∧ (st.step it).f = st.f := by
      unfold Acc.step toggle; simp [h0]
    refine ⟨hw', by rw [hstep.1]; exact hsize, ?_, ?_⟩
    · intro i hi; rw [hstep.1, ho]; exact hpar i hi
    · rw [hstep.2, hf]; unfold fCount; rw [ho]
  · obtain ⟨k, hk⟩ : ∃ k, it.tri = k + 1 := ⟨it.tri - 1, by omega⟩
    have hkn : k < n := by omega
    have hb : st.par.getD k false = oddAt L k := hpar k hkn
    have hc : ∀ i, cnt (L ++ [it]) i = cnt L i + (if k = i then 1 else 0) := by
      intro i; rw [cnt_snoc, hk]
      by_cases hki : k = i
      · rw [if_pos (by omega), if_pos hki]
      · rw [if_neg (by omega), if_neg hki]
    have hone : ∀ i, i ≠ k → oddAt (L ++ [it]) i = oddAt L i := by
      intro i hi; unfold oddAt; rw [hc, if_neg (Ne.symm hi)]; rfl
    have hkk : oddAt (L ++ [it]) k = !oddAt L k := by
      unfold oddAt; rw [hc, if_pos rfl]
      by_cases hh : cnt L k % 2 = 1
      · have : ¬ (cnt L k + 1) % 2 = 1 := by omega
        simp [hh, this]
      · have : (cnt L k + 1) % 2 = 1 := by omega
        simp [hh, this]
    have hstep : (st.step it).par = st.par.setIfInBounds k (!oddAt L k) ∧
        (st.step it).f = if oddAt L k = true then st.f - 1 else st.f + 1 := by
      unfold Acc.step toggle
      have hne : ¬ ((it.tri == 0) = true) := by simpa using h0
      simp only [hne, if_false, Bool.false_eq_true]
      have hk' : it.tri - 1 = k := by omega
      rw [hk', hb]
      exact ⟨rfl, rfl⟩
    refine ⟨hw', by rw [hstep.1, Array.size_setIfInBounds]; exact hsize, ?_, ?_⟩
    · intro i hi
      rw [hstep.1, Array.getD_eq_getD_getElem?, Array.getElem?_setIfInBounds]
      by_cases hki : k = i
      · subst hki
        rw [if_pos rfl, if_pos (by omega), hkk]; rfl
      · rw [if_neg hki, hone i (Ne.symm hki), ← hpar i hi, Array.getD_eq_getD_getElem?]
    · rw [hstep.2, hf]
      have hflip := filter_flip (oddAt L) (oddAt (L ++ [it])) k hone n
      unfold fCount
      rw [hkk] at hflip
      cases hh : oddAt L k
      · simp only [hh, hkn, true_and, Bool.false_eq_true, if_false, Bool.not_false, if_true] at hflip ⊢
        omega
      · simp only [hh, hkn, true_and, if_true, Bool.not_true, Bool.false_eq_true, if_false] at hflip ⊢
        omega

theorem accInv_run (n : Nat) : ∀ (M : List (Item K)) (st : Acc) (L : List (Item K)),
    AccInv n st L → (∀ it ∈ M, it.tri ≤ n) → AccInv n (st.run M) (L ++ M)
  | [], st, L, h, _ => by simpa [Acc.run] using h
  | it :: M, st, L, h, hM => by
    rw [Acc.run_cons]
    have := accInv_run n M (st.step it) (L ++ [it]) (accInv_step n st L it h (hM it (by simp)))
      (fun it' h' => hM it' (List.mem_cons_of_mem _ h'))
    simpa using this

/-- **The counters after passing `M` from the initial state.** -/
theorem run_init (n : Nat) (M : List (Item K)) (hM : ∀ it ∈ M, it.tri ≤ n) :
    ((Acc.init n).run M).w = wSum M ∧ ((Acc.init n).run M).f = fCount n M := by
  have h := accInv_run n M (Acc.init n) [] (accInv_init n) hM
  rw [List.nil_append] at h
  exact ⟨h.w, h.f⟩

/-! ### link to `winding` and `coverage` -/

theorem foldl_dir (L : List (Item K)) (w : Int) : L.foldl (fun w it => w + it.dir) w = w + wSum L := by
  unfold wSum
  induction L generalizing w with
  | nil => simp
  | cons it r ih => simp only [List.foldl_cons, List.map_cons, List.sum_cons]; rw [ih]; omega

theorem wSum_append (L M : List (Item K)) : wSum (L ++ M) = wSum L + wSum M := by
  unfold wSum; simp

theorem wSum_zero (L : List (Item K)) (h : ∀ it ∈ L, it.dir = 0) : wSum L = 0 := by
  unfold wSum
  induction L with
  | nil => rfl
  | cons it r ih =>
    simp only [List.map_cons, List.sum_cons]
    rw [h it (by simp), ih (fun it' h' => h it' (List.mem_cons_of_mem _ h'))]; rfl

/-- **`winding` is the sum of `dir` over all items (outline and triangle edges) left of `q`.** -/
theorem winding_eq (inp : Input K) (q : P K) :
    winding inp.edges q = wSum ((checkItems inp).filter (fun it => it.leftOf q)) := by
  unfold winding checkItems
  rw [foldl_dir, List.filter_append, wSum_append, wSum_zero (List.filter _ (triItems inp.tris))]
  · omega
  · intro it hit
    exact (mem_triItems (List.mem_filter.mp hit).1).2.2.2

/-- `q` is covered by the triangle: an odd number of its edges are left of `q` -/
noncomputable def covers (q : P K) (t : P K × P K × P K) : Bool :=
  ((triOf t 1).filter (fun it => it.leftOf q)).length % 2 == 1

theorem coverage_eq_covers (tris : List (P K × P K × P K)) (q : P K) :
    coverage tris q = (tris.filter (covers q)).length := rfl

/-- change the triangle tag -/
def retag (tag : Nat) (it : Item K) : Item K := { it with tri := tag }

theorem mkItem_retag (p q : P K) (e : Bool) (tag : Nat) :
    mkItem p q e tag = (mkItem p q e 1).map (retag tag) := by
  unfold mkItem
  by_cases h1 : p.y < q.y
  · rw [if_pos h1, if_pos h1]; rfl
  · rw [if_neg h1, if_neg h1]
    by_cases h2 : q.y < p.y
    · rw [if_pos h2, if_pos h2]; rfl
    · rw [if_neg h2, if_neg h2]; rfl

theorem triOf_retag (t : P K × P K × P K) (tag : Nat) : triOf t tag = (triOf t 1).map (retag tag) := by
  unfold triOf
  rw [mkItem_retag t.1 t.2.1 false tag, mkItem_retag t.2.1 t.2.2 false tag, mkItem_retag t.2.2 t.1 false tag]
  cases mkItem t.1 t.2.1 false 1 <;> cases mkItem t.2.1 t.2.2 false 1 <;> cases mkItem t.2.2 t.1 false 1 <;> rfl

theorem triOf_leftOf_length (t : P K × P K × P K) (tag : Nat) (q : P K) :
    ((triOf t tag).filter (fun it => it.leftOf q)).length
      = ((triOf t 1).filter (fun it => it.leftOf q)).length := by
  rw [triOf_retag, List.filter_map, List.length_map]
  rfl

theorem mem_triFlat {ts : List (P K × P K × P K)} {k : Nat} {it : Item K}
    (h : it ∈ (ts.zipIdx k).flatMap (fun ti => triOf ti.1 (ti.2 + 1))) : k + 1 ≤ it.tri := by
  obtain ⟨ti, hti, hit⟩ := List.mem_flatMap.mp h
  have h1 := List.le_snd_of_mem_zipIdx hti
  have h2 := (mem_triOf hit).2.1
  omega

theorem fCount_link (q : P K) : ∀ (tris : List (P K × P K × P K)) (k : Nat) (pre : List (Item K)),
    (∀ it ∈ pre, it.tri ≤ k) →
    ((List.range' k tris.length).filter
        (oddAt ((pre ++ (tris.zipIdx k).flatMap (fun ti => triOf ti.1 (ti.2 + 1))).filter
          (fun it => it.leftOf q)))).length
      = (tris.filter (covers q)).length
  | [], k, pre, _ => by simp
  | t :: ts, k, pre, hpre => by
    have hpre' : ∀ it ∈ pre ++ triOf t (k + 1), it.tri ≤ k + 1 := by
      intro it hit
      rcases List.mem_append.mp hit with h | h
      · have := hpre it h; omega
      · have := (mem_triOf h).2.1; omega
    have ih := fCount_link q ts (k + 1) (pre ++ triOf t (k + 1)) hpre'
    have elist : pre ++ ((t :: ts).zipIdx k).flatMap (fun ti => triOf ti.1 (ti.2 + 1))
        = (pre ++ triOf t (k + 1)) ++ (ts.zipIdx (k + 1)).flatMap (fun ti => triOf ti.1 (ti.2 + 1)) := by
      rw [List.zipIdx_cons, List.flatMap_cons, List.append_assoc]
    rw [elist, List.length_cons, List.range'_succ, List.filter_cons, List.filter_cons]
    have hhead : oddAt (((pre ++ triOf t (k + 1)) ++ (ts.zipIdx (k + 1)).flatMap
        (fun ti => triOf ti.1 (ti.2 + 1))).filter (fun it => it.leftOf q)) k = covers q t := by
      unfold oddAt cnt covers
      rw [List.filter_append, List.filter_append, List.countP_append, List.countP_append]
      have z1 : List.countP (fun it : Item K => it.tri == k + 1) (pre.filter (fun it => it.leftOf q)) = 0 := by
        rw [List.countP_eq_zero]
        intro it hit
        have := hpre it (List.mem_filter.mp hit).1
        simp only [beq_iff_eq]; omega
      have z2 : List.countP (fun it : Item K => it.tri == k + 1)
          (((ts.zipIdx (k + 1)).flatMap (fun ti => triOf ti.1 (ti.2 + 1))).filter (fun it => it.leftOf q)) = 0 := by
        rw [List.countP_eq_zero]
        intro it hit
        have := mem_triFlat (List.mem_filter.mp hit).1
        simp only [beq_iff_eq]; omega
      have z3 : List.countP (fun it : Item K => it.tri == k + 1)
          ((triOf t (k + 1)).filter (fun it => it.leftOf q))
          = ((triOf t 1).filter (fun it => it.leftOf q)).length := by
        rw [← triOf_leftOf_length t (k + 1) q, List.countP_eq_length]
        intro it hit
        have := (mem_triOf (List.mem_filter.mp hit).1).2.1
        simp only [beq_iff_eq]; exact this
      rw [z1, z2, z3]
      simp only [Nat.zero_add, Nat.add_zero]
      by_cases hh : ((triOf t 1).filter (fun it => it.leftOf q)).length % 2 = 1 <;> simp [hh]
    rw [hhead]
    by_cases hc : covers q t = true
    · rw [if_pos hc, if_pos hc, List.length_cons, List.length_cons, ih]
    · rw [if_neg hc, if_neg hc, ih]

/-- **`coverage` is the number of triangle tags occurring an odd number of times among the items
left of `q`.** -/
theorem coverage_eq (inp : Input K) (q : P K) :
    coverage inp.tris q = fCount inp.tris.length ((checkItems inp).filter (fun it => it.leftOf q)) := by
  rw [coverage_eq_covers]
  unfold fCount checkItems
  rw [triItems_eq, List.range_eq_range']
  have := fCount_link q inp.tris 0 (edgeItems inp.edges)
    (fun it hit => by rw [(mem_edgeItems hit).2])
  rw [← this]

theorem fCount_nil (n : Nat) : fCount n ([] : List (Item K)) = 0 := by
  simp [fCount, oddAt_nil]

end Lyon.Slab
