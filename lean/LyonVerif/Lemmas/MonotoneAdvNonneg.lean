/-
  C02 growth (`Props/C02c.lean`), part 12: no triangle of the ADVANCED monotone tessellator is
  flipped on a sorted sequence.

  Invariant `CInv` of a side's buffered chain: consistent bookkeeping (`prev`, `last` are the
  positions of the last two buffered ids), strictly sorted in sweep order, locally convex at every
  interior vertex.  It is what lyon's `outward_turn` test maintains: a vertex is buffered on a chain
  of ≥ 2 ids without a flush only when `(prev − last) × (pos − last) · sign ≥ 0`
  (`stepSides_n`).  With `convex_global` every triangle `flush_side` emits has `wind ≥ 0`; the inner
  basic tessellator's triangles always have (`vertex_gInv`).  Hence `adv_run_nonneg`.
-/
import LyonVerif.Lemmas.MonotoneAdvConvex
import LyonVerif.Lemmas.MonotoneAdvRun

set_option linter.unusedSectionVars false
set_option linter.unusedVariables false
set_option linter.unusedSimpArgs false

namespace Lyon.C02c
open Lyon Lyon.Mono Lyon.C02

section Geometry
variable {K : Type} [Field K] [LinearOrder K] [IsStrictOrderedRing K]

structure CInv (pos : Nat → P K) (c : Bool) (s : SideEv K) : Prop where
  ne : s.events ≠ []
  last : s.events.getLast? = some s.last.id
  good : Good pos s.last
  prev : 2 ≤ s.events.length → s.prev = evPos pos s.events (s.events.length - 2)
  sorted : ∀ i, i + 1 < s.events.length → After (evPos pos s.events (i + 1)) (evPos pos s.events i)
  conv : ∀ i, i + 2 < s.events.length →
    0 ≤ sg c * wind (evPos pos s.events i) (evPos pos s.events (i + 1)) (evPos pos s.events (i + 2))

theorem CInv.congr {pos : Nat → P K} {c : Bool} {s s' : SideEv K} (h : CInv pos c s)
    (he : s'.events = s.events) (hp : s'.prev = s.prev) (hl : s'.last = s.last) : CInv pos c s' :=
  { ne := he ▸ h.ne, last := by rw [he, hl]; exact h.last, good := hl ▸ h.good,
    prev := by rw [he, hp]; exact h.prev, sorted := by rw [he]; exact h.sorted, conv := by rw [he]; exact h.conv }

/-- a chain of one id (a fresh or a restarted chain) -/
theorem CInv.single {pos : Nat → P K} {c : Bool} {s : SideEv K} (he : s.events = [s.last.id])
    (hg : Good pos s.last) : CInv pos c s :=
  { ne := by rw [he]; simp, last := by rw [he]; rfl, good := hg,
    prev := by rw [he]; intro h; simp at h, sorted := by rw [he]; intro i h; simp at h,
    conv := by rw [he]; intro i h; simp at h }

theorem CInv.push {pos : Nat → P K} {c : Bool} {s : SideEv K} (h : CInv pos c s) (v : MV K) (hv : Good pos v)
    (haft : After v.pos s.last.pos) (hturn : 2 ≤ s.events.length → 0 ≤ sg c * wind s.prev s.last.pos v.pos) :
    CInv pos c (s.push v) := by
  have hlen : 1 ≤ s.events.length := by
    cases hs : s.events with
    | nil => exact absurd hs h.ne
    | cons a r => simp
  have hq : ∀ i, i < s.events.length → evPos pos (s.events ++ [v.id]) i = evPos pos s.events i := by
    intro i hi
    simp [evPos, List.getD_eq_getElem?_getD, List.getElem?_append_left hi]
  have hx : evPos pos (s.events ++ [v.id]) s.events.length = v.pos := by
    simp [evPos, List.getD_eq_getElem?_getD]; exact hv.symm
  have hla : evPos pos s.events (s.events.length - 1) = s.last.pos := by
    rw [evPos_last pos s.events s.last.id h.last]; exact h.good.symm
  refine { ne := by simp [SideEv.push], last := by simp [SideEv.push], good := hv, prev := ?_, sorted := ?_, conv := ?_ }
  · intro _
    simp only [SideEv.push, List.length_append, List.length_cons, List.length_nil]
    rw [show s.events.length + (0 + 1) - 2 = s.events.length - 1 by omega, hq _ (by omega), hla]
  · intro i hi
    simp only [SideEv.push, List.length_append, List.length_cons, List.length_nil] at hi ⊢
    by_cases e : i + 1 = s.events.length
    · rw [e, hx, hq i (by omega), show i = s.events.length - 1 by omega, hla]; exact haft
    · rw [hq i (by omega), hq (i + 1) (by omega)]; exact h.sorted i (by omega)
  · intro i hi
    simp only [SideEv.push, List.length_append, List.length_cons, List.length_nil] at hi ⊢
    by_cases e : i + 2 = s.events.length
    · rw [e, hx, hq i (by omega), hq (i + 1) (by omega)]
      have h2 : 2 ≤ s.events.length := by omega
      rw [show i = s.events.length - 2 by omega, ← h.prev h2,
        show s.events.length - 2 + 1 = s.events.length - 1 by omega, hla]
      exact hturn h2
    · rw [hq i (by omega), hq (i + 1) (by omega), hq (i + 2) (by omega)]; exact h.conv i (by omega)

/-- the triangles `flush_side` emits for such a chain (its `right` flag is `!c`) -/
theorem flush_tris_nonneg {pos : Nat → P K} {c : Bool} {s : SideEv K} (h : CInv pos c s) :
    ∀ t ∈ flushLevels s.events.toArray s.events.length (!c) (s.events.length + 1) 1, TriWind pos t := by
  intro t ht
  have := chainTri_nonneg pos s.events (!c) h.sorted (by rw [Bool.not_not]; exact h.conv) t
    (flushLevels_ids _ _ _ t ht)
  exact this

theorem pushTris_gInv {pos : Nat → P K} {s : Basic K} (h : GInv pos s) (tr : List Tri)
    (htr : ∀ t ∈ tr, TriWind pos t) : GInv pos (s.pushTris tr) := by
  refine ⟨h.1, h.2.1, ?_⟩
  intro t ht
  rcases List.mem_append.mp ht with g | g
  · exact h.2.2 t g
  · exact htr t g

/-- invariant on a triple (inner tessellator, side `l`, the other side) -/
def N3 (pos : Nat → P K) (l : Bool) (x : Trip K) : Prop :=
  GInv pos x.1 ∧ CInv pos l x.2.1 ∧ CInv pos (!l) x.2.2

theorem flushOwn_n (pos : Nat → P K) (tess : Basic K) (a b : SideEv K) (p : P K) (l : Bool)
    (h : N3 pos l (tess, a, b)) :
    N3 pos l (flushOwn tess a b p l) ∧ (flushOwn tess a b p l).2.1.events.length < 2 ∧
      (flushOwn tess a b p l).2.1.last = a.last ∧ (flushOwn tess a b p l).2.2.last = b.last := by
  obtain ⟨hg, ha, hb⟩ := h
  unfold flushOwn
  rcases flushSide_cases a (!l) with ⟨hl, e⟩ | ⟨hl, e1, e2, e3, e4⟩
  · rw [e]; exact ⟨⟨hg, ha, hb⟩, hl, rfl, rfl⟩
  · rw [e4]
    have r1 : (reRef (flushSide a !l).1 p l).events = [a.last.id] := e1
    have r2 : (reRef (flushSide a !l).1 p l).last = a.last := e2
    refine ⟨⟨?_, ?_, ?_⟩, ?_, r2, rfl⟩
    · apply vertex_gInv pos _ _ _ ha.good
      apply pushTris_gInv hg
      rw [e3]; exact flush_tris_nonneg ha
    · exact CInv.single (by rw [r1, r2]) (r2 ▸ ha.good)
    · exact hb.congr rfl rfl rfl
    · show (reRef (flushSide a !l).1 p l).events.length < 2
      rw [r1]; simp

theorem flushOpp_n (pos : Nat → P K) (tess : Basic K) (a b : SideEv K) (l : Bool)
    (h : N3 pos l (tess, a, b)) :
    N3 pos l (flushOpp tess a b l) ∧ (flushOpp tess a b l).2.1.events = a.events ∧
      (flushOpp tess a b l).2.1.prev = a.prev ∧
      (flushOpp tess a b l).2.1.last = a.last ∧ (flushOpp tess a b l).2.2.last = b.last := by
  obtain ⟨hg, ha, hb⟩ := h
  unfold flushOpp
  rcases flushSide_cases b l with ⟨hl, e⟩ | ⟨hl, e1, e2, e3, e4⟩
  · rw [e]; exact ⟨⟨hg, ha, hb⟩, rfl, rfl, rfl, rfl⟩
  · rw [e4]
    refine ⟨⟨?_, ha.congr rfl rfl rfl, ?_⟩, rfl, rfl, rfl, e2⟩
    · apply vertex_gInv pos _ _ _ hb.good
      apply pushTris_gInv hg
      rw [e3]
      have := flush_tris_nonneg hb
      rwa [Bool.not_not] at this
    · exact CInv.single (by rw [e1, e2]) (e2 ▸ hb.good)

theorem outwardTurn_false {a : SideEv K} {p : P K} {l : Bool} (h : outwardTurn a p l false = false)
    (h2 : 2 ≤ a.events.length) : 0 ≤ sg l * wind a.prev a.last.pos p := by
  unfold outwardTurn at h
  have hd : decide (a.events.length ≥ 2) = true := by simpa using h2
  simp only [Bool.not_false, hd, Bool.and_self, if_true, decide_eq_false_iff_not] at h
  have e : (a.prev - a.last.pos).cross (p - a.last.pos) = wind a.prev a.last.pos p := rfl
  rw [e] at h
  cases l
  · simp only [Bool.false_eq_true, if_false, sg, neg_one_mul] at h ⊢
    have h' : ¬ (wind a.prev a.last.pos p * (-1 : K) < 0) := by simpa [geom] using h
    linarith [not_lt.mp h']
  · simp only [if_true, sg, one_mul] at h ⊢
    have h' : ¬ (wind a.prev a.last.pos p * (1 : K) < 0) := by simpa [geom] using h
    linarith [not_lt.mp h']

theorem stepSides_n (pos : Nat → P K) (tess : Basic K) (a b : SideEv K) (dx : K) (p : P K) (id : Nat) (l : Bool)
    (h : N3 pos l (tess, a, b)) (hp : pos id = p) (haft : After p a.last.pos) :
    N3 pos l (stepSides tess a b dx p id l) ∧ (stepSides tess a b dx p id l).2.1.last.id = id ∧
      (stepSides tess a b dx p id l).2.2.last = b.last := by
  dsimp only [stepSides]
  have hv : Good pos (⟨p, id, l⟩ : MV K) := hp.symm
  by_cases hcond : (outwardTurn a p l (decide (dx < (p.y - a.refPt.y) * Scalar.ofSci 1 1)) ||
        decide (dx < (p.y - a.refPt.y) * Scalar.ofSci 1 1)) = true
  · rw [if_pos hcond]
    have h1 : N3 pos l (if isAfter a.last.pos b.last.pos then flushOpp tess a b l else (tess, a, b)) ∧
        (if isAfter a.last.pos b.last.pos then flushOpp tess a b l else (tess, a, b)).2.1.last = a.last ∧
        (if isAfter a.last.pos b.last.pos then flushOpp tess a b l else (tess, a, b)).2.2.last = b.last := by
      split
      · obtain ⟨g1, _, _, g4, g5⟩ := flushOpp_n pos tess a b l h
        exact ⟨g1, g4, g5⟩
      · exact ⟨h, rfl, rfl⟩
    generalize (if isAfter a.last.pos b.last.pos then flushOpp tess a b l else (tess, a, b)) = r1 at h1 ⊢
    obtain ⟨h1a, h1c, h1d⟩ := h1
    obtain ⟨⟨g1, g2, g3⟩, gl, gc, gd⟩ := flushOwn_n pos r1.1 r1.2.1 r1.2.2 p l h1a
    refine ⟨⟨g1, ?_, g3⟩, rfl, gd.trans h1d⟩
    apply g2.push _ hv
    · show After p _
      rw [gc, h1c]; exact haft
    · intro h2; omega
  · rw [if_neg hcond]
    have hcl : decide (dx < (p.y - a.refPt.y) * Scalar.ofSci 1 1) = false := by
      cases hd : decide (dx < (p.y - a.refPt.y) * Scalar.ofSci 1 1)
      · rfl
      · rw [hd] at hcond; simp at hcond
    have hot : outwardTurn a p l false = false := by
      rw [hcl] at hcond
      simpa using hcond
    obtain ⟨hg, ha, hb⟩ := h
    refine ⟨⟨hg, ?_, hb⟩, rfl, rfl⟩
    exact ha.push _ hv haft (fun h2 => outwardTurn_false hot h2)

/-- invariant on a whole `Adv` state with `k` vertices fed -/
def NInv (pos : Nat → P K) (k : Nat) (st : Adv K) : Prop :=
  N3 pos true (st.tess, st.left, st.right) ∧ st.left.last.id < k ∧ st.right.last.id < k

theorem begin_n (pos : Nat → P K) (old : Adv K) (p0 : P K) (h0 : pos 0 = p0) : NInv pos 1 (Adv.begin old p0 0) := by
  refine ⟨⟨?_, ?_, ?_⟩, Nat.zero_lt_one, Nat.zero_lt_one⟩
  · refine ⟨?_, h0.symm, by simp [Adv.begin, Basic.begin]⟩
    intro v hv
    simp only [Adv.begin, Basic.begin, List.mem_singleton] at hv
    subst hv; exact h0.symm
  · exact CInv.single rfl h0.symm
  · exact CInv.single rfl h0.symm

theorem vertex_n (pos : Nat → P K) (st : Adv K) (p : P K) (k : Nat) (l : Bool) (h : NInv pos k st)
    (hp : pos k = p) (hsorted : ∀ j, j < k → After (pos k) (pos j)) : NInv pos (k + 1) (st.vertex p k l) := by
  obtain ⟨⟨hg, hl, hr⟩, il, ir⟩ := h
  rw [vertex_eq]
  cases l
  · have hu : N3 pos false ((updRef st p false).tess, (updRef st p false).right, (updRef st p false).left) :=
      ⟨hg, hr.congr rfl rfl rfl, hl.congr rfl rfl rfl⟩
    have haft : After p (updRef st p false).right.last.pos := by
      show After p st.right.last.pos
      rw [hr.good, ← hp]; exact hsorted _ ir
    obtain ⟨⟨s1, s2, s3⟩, s4, s5⟩ := stepSides_n pos _ _ _
      ((updRef st p false).right.consRefX - (updRef st p false).left.consRefX) p k false hu hp haft
    refine ⟨⟨s1, s3, s2⟩, ?_, ?_⟩
    · simp only [vertex', Bool.false_eq_true, if_false]
      rw [s5]; show st.left.last.id < k + 1; omega
    · simp only [vertex', Bool.false_eq_true, if_false]
      rw [s4]; omega
  · have hu : N3 pos true ((updRef st p true).tess, (updRef st p true).left, (updRef st p true).right) :=
      ⟨hg, hl.congr rfl rfl rfl, hr.congr rfl rfl rfl⟩
    have haft : After p (updRef st p true).left.last.pos := by
      show After p st.left.last.pos
      rw [hl.good, ← hp]; exact hsorted _ il
    obtain ⟨⟨s1, s2, s3⟩, s4, s5⟩ := stepSides_n pos _ _ _
      ((updRef st p true).right.consRefX - (updRef st p true).left.consRefX) p k true hu hp haft
    refine ⟨⟨s1, s2, s3⟩, ?_, ?_⟩
    · simp only [vertex', if_true]
      rw [s4]; omega
    · simp only [vertex', if_true]
      rw [s5]; show st.right.last.id < k + 1; omega

theorem end_n (pos : Nat → P K) (st : Adv K) (k : Nat) (pe : P K) (ide : Nat) (h : NInv pos k st) (hpe : pos ide = pe) :
    ∀ t ∈ (st.end_ pe ide).tris, TriWind pos t := by
  obtain ⟨⟨hg, hl, hr⟩, _, _⟩ := h
  have hfin : ∀ tess : Basic K, GInv pos tess → ∀ t ∈ (tess.end_ pe ide).tris, TriWind pos t := by
    intro tess hgt t ht
    simp only [Basic.end_] at ht
    exact (vertex_gInv pos tess ⟨pe, ide, !tess.previous.left⟩ hgt hpe.symm).2.2 t ht
  rw [end_eq]
  unfold endCore
  have tl := flush_tris_nonneg hl
  have tr := flush_tris_nonneg hr
  simp only [Bool.not_true, Bool.not_false] at tl tr
  rcases flushSide_cases st.left false with ⟨ha, ea⟩ | ⟨ha, _, _, a3, a4⟩ <;>
  rcases flushSide_cases st.right true with ⟨hb, eb⟩ | ⟨hb, _, _, b3, b4⟩
  · simp only [ea, eb, Option.isSome_none, Bool.false_eq_true, if_false, pushTris_nil]
    exact hfin _ hg
  · simp only [ea, b3, b4, Option.isSome_none, Option.isSome_some, Bool.false_eq_true, if_false, if_true, pushTris_nil]
    exact hfin _ (vertex_gInv pos _ _ (pushTris_gInv hg _ tr) hr.good)
  · simp only [eb, a3, a4, Option.isSome_none, Option.isSome_some, Bool.false_eq_true, if_false, if_true, pushTris_nil]
    exact hfin _ (vertex_gInv pos _ _ (pushTris_gInv hg _ tl) hl.good)
  · simp only [a3, a4, b3, b4, Option.isSome_some, if_true]
    have h2 := pushTris_gInv (pushTris_gInv hg _ tl) _ tr
    split
    · exact hfin _ (vertex_gInv pos _ _ (vertex_gInv pos _ _ h2 hr.good) hl.good)
    · exact hfin _ (vertex_gInv pos _ _ (vertex_gInv pos _ _ h2 hl.good) hr.good)

theorem afeed_n (pos : Nat → P K) (vs : List (P K × Bool)) (st : Adv K) (k : Nat)
    (hpos : ∀ i (h : i < vs.length), pos (k + i) = vs[i].1)
    (hsorted : ∀ i j, j < i → i < k + vs.length → After (pos i) (pos j)) (h : NInv pos k st) :
    NInv pos (k + vs.length) (afeed st k vs) := by
  induction vs generalizing st k with
  | nil => simpa [afeed] using h
  | cons v r ih =>
    obtain ⟨p, l⟩ := v
    have hp : pos k = p := by
      have := hpos 0 (by simp)
      simp only [Nat.add_zero, List.getElem_cons_zero] at this
      exact this
    have hv := vertex_n pos st p k l h hp (fun j hj => hsorted k j hj (by simp))
    have := ih (st.vertex p k l) (k + 1) (by
      intro i hi
      have := hpos (i + 1) (by simp only [List.length_cons]; omega)
      simp only [List.getElem_cons_succ] at this
      rw [← this]; congr 1; omega)
      (fun i j hj hi => hsorted i j hj (by simp only [List.length_cons]; omega)) hv
    simp only [afeed, List.length_cons]
    rwa [show k + (r.length + 1) = k + 1 + r.length by omega]

/-- positions strictly increasing in the sweep order `(y, x)` -/
def SweepSorted (seq : List (P K × Bool)) : Prop :=
  ∀ i, i < seq.length - 1 → After (posOf seq (i + 1)) (posOf seq i)

noncomputable instance (seq : List (P K × Bool)) : Decidable (SweepSorted seq) := by
  unfold SweepSorted; infer_instance

theorem sorted_after {seq : List (P K × Bool)} (h : SweepSorted seq) {i j : Nat} (hij : i < j) (hj : j < seq.length) :
    After (posOf seq j) (posOf seq i) := by
  induction j with
  | zero => omega
  | succ j ih =>
    have h1 := h j (by omega)
    by_cases e : i = j
    · rw [e]; exact h1
    · exact after_trans h1 (ih (by omega) (by omega))

/-- **no triangle of the advanced tessellator is flipped** on a sorted sequence -/
theorem adv_run_nonneg (seq : List (P K × Bool)) (hs : SweepSorted seq) :
    ∀ t ∈ Adv.run seq, TriWind (posOf seq) t := by
  match seq with
  | [] => intro t ht; simp [Adv.run] at ht
  | [_] => intro t ht; simp [Adv.run] at ht
  | (p0, b0) :: v1 :: rest =>
    have hlen : 0 + 1 + (List.take ((v1 :: rest).length - 1) (v1 :: rest)).length = (v1 :: rest).length := by
      simp only [List.length_take, List.length_cons]; omega
    have hpe : posOf ((p0, b0) :: v1 :: rest) (v1 :: rest).length = ((v1 :: rest).getLast?.map (·.1)).getD p0 := by
      simp only [posOf, List.length_cons, List.getElem?_cons_succ]
      rw [List.getLast?_eq_getElem?]
      simp only [List.length_cons, Nat.add_sub_cancel]
      rw [List.getElem?_eq_getElem (by simp only [List.length_cons]; omega)]
      rfl
    have hn := afeed_n (posOf ((p0, b0) :: v1 :: rest)) (List.take ((v1 :: rest).length - 1) (v1 :: rest))
      (Adv.begin Adv.new p0 0) (0 + 1)
      (by
        intro i hi
        simp only [List.length_take, List.length_cons] at hi
        simp only [posOf, List.getElem_take]
        rw [show 0 + 1 + i = i + 1 by omega, List.getElem?_cons_succ,
          List.getElem?_eq_getElem (by simp only [List.length_cons]; omega)])
      (by
        intro i j hj hi
        rw [hlen] at hi
        exact sorted_after hs hj (by simp only [List.length_cons] at hi ⊢; omega))
      (begin_n _ Adv.new p0 (by simp [posOf]))
    simp only [Adv.run, foldl_zipIdx_eq_afeed]
    exact end_n _ _ _ _ _ hn hpe

end Geometry

end Lyon.C02c
