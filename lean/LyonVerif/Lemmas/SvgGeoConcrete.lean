/-
  C15b, generic part (any scalar type; core Lean only): what the calls of `WithSvg` mean
  geometrically once the arc geometry keeps the START point of every piece.

  * `lastPoint`     the wrapped builder's own current point after a list of calls;
  * `edgeStarts`    the builder's current point in front of every edge call (where the edge
                    really starts in the path that is built);
  * `Run p qs e`    a connected run of quadratic pieces from `p` to `e`;
  * `GeoQ`          arc geometry whose pieces carry their start point; `GeoQ.erase` is the `Geo` of
                    `Model/Path/Svg.lean` (`concreteGeo conv = (concreteGeoQ conv).erase` by `rfl`);
  * `froms`         for every command, the point at which the ADAPTER means each edge it emits to
                    start: its `current_position` when it issues a line / curve, the piece's own
                    start point for the pieces of an arc;
  * `Synced s p`    inside a sub-path the adapter's `current_position` is the builder's point `p`;
  * `StepOk g s c`  the law of the geometry used at one command: pieces form a `Run` from the
                    arc's start point, and inside a sub-path, when no connecting line is drawn,
                    that start point is the current position;
  * `step_synced`, `run_synced`  for EVERY geometry (no law): `Synced` is kept by every command
                    (since lyon commit 250152af, repair of C15-arc-zero-sweep-stale-position);
  * `step_connected`, `run_connected`  under these laws, for EVERY command sequence: every edge
                    starts (in the built path) exactly where the adapter means it to start, and
                    `Synced` is kept.
-/
import LyonVerif.Model.Path.SvgConcrete
import LyonVerif.Lemmas.Svg

namespace Lyon.Svg
open Lyon Lyon.Path

variable {α ρ : Type}

/-! ### the builder's side -/

/-- the wrapped builder's current point after the calls (`none`: no sub-path open) -/
def lastPoint : Option (Pt α) → Calls α → Option (Pt α)
  | p, [] => p
  | _, .begin q _ :: r => lastPoint (some q) r
  | _, .line q _ :: r => lastPoint (some q) r
  | _, .quad _ q _ :: r => lastPoint (some q) r
  | _, .cubic _ _ q _ :: r => lastPoint (some q) r
  | _, .end_ _ :: r => lastPoint none r

/-- the builder's current point in front of every edge call: where that edge starts in the path -/
def edgeStarts : Option (Pt α) → Calls α → List (Option (Pt α))
  | _, [] => []
  | _, .begin q _ :: r => edgeStarts (some q) r
  | p, .line q _ :: r => p :: edgeStarts (some q) r
  | p, .quad _ q _ :: r => p :: edgeStarts (some q) r
  | p, .cubic _ _ q _ :: r => p :: edgeStarts (some q) r
  | _, .end_ _ :: r => edgeStarts none r

theorem lastPoint_append (p : Option (Pt α)) (a b : Calls α) :
    lastPoint p (a ++ b) = lastPoint (lastPoint p a) b := by
  induction a generalizing p with
  | nil => rfl
  | cons c r ih => cases c <;> simp [lastPoint, ih]

theorem edgeStarts_append (p : Option (Pt α)) (a b : Calls α) :
    edgeStarts p (a ++ b) = edgeStarts p a ++ edgeStarts (lastPoint p a) b := by
  induction a generalizing p with
  | nil => rfl
  | cons c r ih => cases c <;> simp [edgeStarts, lastPoint, ih]

theorem lastPoint_endIfNeeded_begin (p : Option (Pt α)) (s : St α) (q : Pt α) :
    lastPoint p (endIfNeeded s ++ [.begin q ()]) = some q := by
  unfold endIfNeeded; split <;> simp [lastPoint]

theorem edgeStarts_endIfNeeded_begin (p : Option (Pt α)) (s : St α) (q : Pt α) :
    edgeStarts p (endIfNeeded s ++ [.begin q ()]) = [] := by
  unfold endIfNeeded; split <;> simp [edgeStarts]

/-! ### pieces with their start points -/

/-- a connected run of quadratic pieces: the first starts at `p`, each starts where the previous
one ended, the last ends at `e` (`p = e` for no piece) -/
def Run (p : P α) : List (Quad α) → P α → Prop
  | [], e => p = e
  | q :: r, e => q.a = p ∧ Run q.b r e

/-- the end of a run as a function: the last piece's end point, `p` for no piece -/
def runEnd (p : P α) : List (Quad α) → P α
  | [] => p
  | q :: r => runEnd q.b r

theorem Run.end_eq {p e : P α} {qs : List (Quad α)} (h : Run p qs e) : runEnd p qs = e := by
  induction qs generalizing p with
  | nil => exact h
  | cons q r ih => exact ih h.2

theorem ofP_toP (p : Pt α) : ofP (toP p) = p := rfl
theorem toP_ofP (p : P α) : toP (ofP p) = p := rfl

theorem lastTo_pieces (d : Pt α) (qs : List (Quad α)) :
    lastTo d (qs.map pieceCall) = ofP (runEnd (toP d) qs) := by
  induction qs generalizing d with
  | nil => rfl
  | cons q r ih => simp only [List.map_cons, pieceCall, lastTo, runEnd]; exact ih (ofP q.b)

theorem lastPoint_quadCalls (p : Pt α) (qs : List (Pt α × Pt α)) :
    lastPoint (some p) (quadCalls qs) = some (lastTo p qs) := by
  induction qs generalizing p with
  | nil => rfl
  | cons q r ih => obtain ⟨c, t⟩ := q; simpa [quadCalls, lastPoint, lastTo] using ih t

/-- the builder's point in front of each piece of a run is that piece's own start point -/
theorem edgeStarts_pieces {p e : P α} {qs : List (Quad α)} (h : Run p qs e) :
    edgeStarts (some (ofP p)) (quadCalls (qs.map pieceCall)) =
      (qs.map (fun q => ofP q.a)).map some := by
  induction qs generalizing p with
  | nil => rfl
  | cons q r ih =>
    obtain ⟨h1, h2⟩ := h
    simp only [List.map_cons, quadCalls, pieceCall, edgeStarts, h1]
    exact congrArg _ (ih h2)

/-- arc geometry whose pieces keep their start point -/
structure GeoQ (α ρ : Type) where
  center : ρ → (cur : Pt α) → ArcOutQ α
  endpoint : ρ → (cur to : Pt α) → SvgArcOutQ α

/-- forget the start points: the `Geo` the model of `WithSvg` is run with -/
def GeoQ.erase (g : GeoQ α ρ) : Geo α ρ where
  center r cur := (g.center r cur).erase
  endpoint r cur to := (g.endpoint r cur to).erase

/-- the concrete geometry, pieces with start points -/
def concreteGeoQ [Scalar α] [Transc α] [ArcConv.Eps α] (conv : Arc α → List (Quad α)) :
    GeoQ α (ArcArgs α) where
  center r cur := centerOutQ conv r cur
  endpoint r cur to := svgArcOutQ conv r cur to

theorem concreteGeo_eq_erase [Scalar α] [Transc α] [ArcConv.Eps α] (conv : Arc α → List (Quad α)) :
    concreteGeo conv = (concreteGeoQ conv).erase := rfl

/-! ### closed forms of the arc commands -/

theorem endIfNeeded_lastCtrl (s : St α) (c : Pt α) :
    endIfNeeded { s with lastCtrl := c } = endIfNeeded s := rfl

/-- `WithSvg::arc` past the early return, in one equation -/
theorem arc_curve_eq (s : St α) (start : Pt α) (near : Bool) (quads : List (Pt α × Pt α)) :
    arc s (.curve start near quads) =
      if s.needMoveTo then
        ({ s with isEmpty := false, needMoveTo := false, first := start, cur := lastTo start quads,
                  lastCmd := .begin, lastCtrl := lastTo start quads },
         endIfNeeded s ++ [.begin start ()] ++ quadCalls quads)
      else
        ({ s with cur := lastTo (if near then start else s.cur) quads,
                  lastCtrl := lastTo (if near then start else s.cur) quads },
         (if near then [.line start ()] else []) ++ quadCalls quads) := by
  cases hn : s.needMoveTo <;> cases near <;>
    simp [arc, arcCurve, hn, emitQuads_eq, moveTo, endIfNeeded]

/-! ### the adapter's side: where it means each edge to start -/

/-- a drawing command with target `to` (`line_to`, `quadratic_bezier_to`, `cubic_bezier_to` and
all their relative / smooth / H / V forms): the edge — if one is emitted — is meant to start at
the adapter's `current_position` after the implicit move-to -/
def drawFroms (s : St α) (to : Pt α) : List (Pt α) :=
  if (beginIfNeeded s to).2.2 then [] else [(beginIfNeeded s to).1.cur]

/-- `arc`: the connecting `line_to(arc_start)` starts at the current position, every piece at its
own start point -/
def arcFroms (s : St α) : ArcOutQ α → List (Pt α)
  | .skip => []
  | .curve _ near pieces =>
    (if s.needMoveTo then [] else if near then [s.cur] else []) ++ pieces.map (fun q => ofP q.a)

def arcToFroms (s : St α) (to : Pt α) : SvgArcOutQ α → List (Pt α)
  | .straight => drawFroms s to
  | .arc o => arcFroms s o

section
variable [Add α] [Sub α]

/-- for every command: the intended start point of each edge call it emits, in order -/
def froms (g : GeoQ α ρ) (s : St α) : Cmd α ρ → List (Pt α)
  | .moveTo _ => []
  | .close => []
  | .lineTo to => drawFroms s to
  | .quadTo _ to => drawFroms s to
  | .cubicTo _ _ to => drawFroms s to
  | .relMoveTo _ => []
  | .relLineTo v => drawFroms s (relToAbs s v)
  | .relQuadTo _ v => drawFroms s (relToAbs s v)
  | .relCubicTo _ _ v => drawFroms s (relToAbs s v)
  | .smoothCubicTo _ to => drawFroms s to
  | .smoothRelCubicTo _ v => drawFroms s (relToAbs s v)
  | .smoothQuadTo to => drawFroms s to
  | .smoothRelQuadTo v => drawFroms s (relToAbs s v)
  | .hLineTo x => drawFroms s ⟨x, s.cur.y⟩
  | .relHLineTo dx => drawFroms s ⟨s.cur.x + dx, s.cur.y⟩
  | .vLineTo y => drawFroms s ⟨s.cur.x, y⟩
  | .relVLineTo dy => drawFroms s ⟨s.cur.x, s.cur.y + dy⟩
  | .arcTo r to => arcToFroms s to (g.endpoint r s.cur to)
  | .relArcTo r v => arcToFroms s (relToAbs s v) (g.endpoint r s.cur (relToAbs s v))
  | .arc r => arcFroms s (g.center r s.cur)

/-- … along a command sequence -/
def runFroms (g : GeoQ α ρ) (s : St α) : List (Cmd α ρ) → List (Pt α)
  | [] => []
  | c :: r => froms g s c ++ runFroms g (step g.erase s c).1 r

end

/-! ### the invariant and the laws of the geometry -/

/-- inside a sub-path, the adapter's `current_position` is the wrapped builder's current point -/
def Synced (s : St α) (p : Option (Pt α)) : Prop := s.needMoveTo = false → p = some s.cur

/-- what one arc output must satisfy at a state with current position `cur`: the pieces form a
connected run from the arc's start point; inside a sub-path (`inSub`), when no connecting line is
drawn (`near = false`) and there is a piece, the start point is the current position -/
def OutOk (inSub : Bool) (cur : Pt α) : ArcOutQ α → Prop
  | .skip => True
  | .curve start near pieces =>
    (inSub = true → near = false → pieces ≠ [] → start = cur) ∧ ∃ e, Run (toP start) pieces e

def SvgOutOk (inSub : Bool) (cur : Pt α) : SvgArcOutQ α → Prop
  | .straight => True
  | .arc o => OutOk inSub cur o

section
variable [Add α] [Sub α]

/-- the law used at one command (trivially true for the 17 non-arc commands) -/
def StepOk (g : GeoQ α ρ) (s : St α) : Cmd α ρ → Prop
  | .arcTo r to => SvgOutOk (!s.needMoveTo) s.cur (g.endpoint r s.cur to)
  | .relArcTo r v => SvgOutOk (!s.needMoveTo) s.cur (g.endpoint r s.cur (relToAbs s v))
  | .arc r => OutOk (!s.needMoveTo) s.cur (g.center r s.cur)
  | _ => True

/-- … at every command of a sequence, each at the state in which it is issued -/
def RunOk (g : GeoQ α ρ) (s : St α) : List (Cmd α ρ) → Prop
  | [] => True
  | c :: r => StepOk g s c ∧ RunOk g (step g.erase s c).1 r

end

/-! ### one command -/

theorem synced_init (zero : α) : Synced (St.init zero) none := by simp [Synced, St.init]

theorem moveTo_connected (s : St α) (to : Pt α) (p : Option (Pt α)) :
    edgeStarts p (moveTo s to).2 = [] ∧ Synced (moveTo s to).1 (lastPoint p (moveTo s to).2) := by
  refine ⟨edgeStarts_endIfNeeded_begin p s to, fun _ => ?_⟩
  simpa [moveTo] using lastPoint_endIfNeeded_begin p s to

theorem close_connected (s : St α) (p : Option (Pt α)) :
    edgeStarts p (close s).2 = [] ∧ Synced (close s).1 (lastPoint p (close s).2) := by
  cases hn : s.needMoveTo
  · simp [close, hn, edgeStarts, Synced]
  · simp [close, hn, edgeStarts, Synced]

/-- what `begin_if_needed` leaves: an open sub-path whose current position is the builder's -/
theorem beginIfNeeded_synced (s : St α) (d : Pt α) (p : Option (Pt α)) (h : Synced s p) :
    edgeStarts p (beginIfNeeded s d).2.1 = [] ∧
      lastPoint p (beginIfNeeded s d).2.1 = some (beginIfNeeded s d).1.cur ∧
      (beginIfNeeded s d).1.needMoveTo = false := by
  unfold beginIfNeeded
  cases hn : s.needMoveTo
  · simpa [edgeStarts, lastPoint, hn] using h hn
  · cases he : s.isEmpty
    · simp only [if_true, Bool.false_eq_true, if_false]
      exact ⟨edgeStarts_endIfNeeded_begin p s _, by simpa [moveTo] using lastPoint_endIfNeeded_begin p s _,
        by simp [moveTo]⟩
    · simp only [if_true]
      exact ⟨edgeStarts_endIfNeeded_begin p s _, by simpa [moveTo] using lastPoint_endIfNeeded_begin p s _,
        by simp [moveTo]⟩

theorem lineTo_connected (s : St α) (to : Pt α) (p : Option (Pt α)) (h : Synced s p) :
    edgeStarts p (lineTo s to).2 = (drawFroms s to).map some ∧
      Synced (lineTo s to).1 (lastPoint p (lineTo s to).2) := by
  obtain ⟨b1, b2, b3⟩ := beginIfNeeded_synced s to p h
  rw [lineTo_eq]
  unfold drawFroms
  cases hk : (beginIfNeeded s to).2.2
  · simp only [Bool.false_eq_true, if_false, edgeStarts_append, lastPoint_append, b1, b2]
    exact ⟨by simp [edgeStarts], fun _ => by simp [lastPoint]⟩
  · simp only [if_true]
    exact ⟨by simpa using b1, fun _ => b2⟩

theorem quadTo_connected (s : St α) (c to : Pt α) (p : Option (Pt α)) (h : Synced s p) :
    edgeStarts p (quadTo s c to).2 = (drawFroms s to).map some ∧
      Synced (quadTo s c to).1 (lastPoint p (quadTo s c to).2) := by
  obtain ⟨b1, b2, b3⟩ := beginIfNeeded_synced s to p h
  rw [quadTo_eq]
  unfold drawFroms
  cases hk : (beginIfNeeded s to).2.2
  · simp only [Bool.false_eq_true, if_false, edgeStarts_append, lastPoint_append, b1, b2]
    exact ⟨by simp [edgeStarts], fun _ => by simp [lastPoint]⟩
  · simp only [if_true]
    exact ⟨by simpa using b1, fun _ => b2⟩

theorem cubicTo_connected (s : St α) (c1 c2 to : Pt α) (p : Option (Pt α)) (h : Synced s p) :
    edgeStarts p (cubicTo s c1 c2 to).2 = (drawFroms s to).map some ∧
      Synced (cubicTo s c1 c2 to).1 (lastPoint p (cubicTo s c1 c2 to).2) := by
  obtain ⟨b1, b2, b3⟩ := beginIfNeeded_synced s to p h
  rw [cubicTo_eq]
  unfold drawFroms
  cases hk : (beginIfNeeded s to).2.2
  · simp only [Bool.false_eq_true, if_false, edgeStarts_append, lastPoint_append, b1, b2]
    exact ⟨by simp [edgeStarts], fun _ => by simp [lastPoint]⟩
  · simp only [if_true]
    exact ⟨by simpa using b1, fun _ => b2⟩

theorem arc_connected (s : St α) (o : ArcOutQ α) (p : Option (Pt α)) (h : Synced s p)
    (ho : OutOk (!s.needMoveTo) s.cur o) :
    edgeStarts p (arc s o.erase).2 = (arcFroms s o).map some ∧
      Synced (arc s o.erase).1 (lastPoint p (arc s o.erase).2) := by
  cases o with
  | skip => exact ⟨rfl, fun hn => h hn⟩
  | curve start near pieces =>
    obtain ⟨hs, e, hr⟩ := ho
    simp only [ArcOutQ.erase, arc_curve_eq, arcFroms]
    cases hn : s.needMoveTo
    · have hp := h hn
      subst hp
      simp only [Bool.false_eq_true, if_false, edgeStarts_append, lastPoint_append]
      cases near
      · simp only [Bool.false_eq_true, if_false, edgeStarts, lastPoint, List.nil_append]
        refine ⟨?_, fun _ => lastPoint_quadCalls _ _⟩
        cases hq : pieces with
        | nil => rfl
        | cons q rest =>
          have hst : start = s.cur := hs (by simp [hn]) rfl (by simp [hq])
          rw [hst, hq] at hr
          have he := edgeStarts_pieces hr
          rw [ofP_toP] at he
          exact he
      · have he := edgeStarts_pieces hr
        rw [ofP_toP] at he
        simp only [if_true, edgeStarts, lastPoint, List.map_append, List.map_cons, List.map_nil]
        exact ⟨by simpa using he, fun _ => lastPoint_quadCalls _ _⟩
    · simp only [if_true]
      rw [edgeStarts_append p (endIfNeeded s ++ ([Call.begin start ()] : Calls α)),
        lastPoint_append p (endIfNeeded s ++ ([Call.begin start ()] : Calls α)),
        edgeStarts_endIfNeeded_begin, lastPoint_endIfNeeded_begin, List.nil_append]
      have he := edgeStarts_pieces hr
      rw [ofP_toP] at he
      exact ⟨he, fun _ => lastPoint_quadCalls _ _⟩

/-- `current_position` stays the builder's current point through `arc`, for EVERY arc output (no
law of the geometry is needed since lyon commit 250152af) -/
theorem arc_synced (s : St α) (o : ArcOut α) (p : Option (Pt α)) (h : Synced s p) :
    Synced (arc s o).1 (lastPoint p (arc s o).2) := by
  cases o with
  | skip => exact fun hn => h hn
  | curve start near quads =>
    simp only [arc_curve_eq]
    cases hn : s.needMoveTo
    · have hp := h hn
      subst hp
      cases near
      · simp only [Bool.false_eq_true, if_false, List.nil_append]
        exact fun _ => lastPoint_quadCalls _ _
      · simp only [Bool.false_eq_true, if_false, if_true, lastPoint_append, lastPoint]
        exact fun _ => lastPoint_quadCalls _ _
    · simp only [if_true]
      rw [lastPoint_append p (endIfNeeded s ++ ([Call.begin start ()] : Calls α)),
        lastPoint_endIfNeeded_begin]
      exact fun _ => lastPoint_quadCalls _ _

theorem arcTo_synced (s : St α) (to : Pt α) (o : SvgArcOut α) (p : Option (Pt α))
    (h : Synced s p) : Synced (arcTo s to o).1 (lastPoint p (arcTo s to o).2) := by
  cases o with
  | straight => exact (lineTo_connected s to p h).2
  | arc o => exact arc_synced s o p h

theorem arcTo_connected (s : St α) (to : Pt α) (o : SvgArcOutQ α) (p : Option (Pt α))
    (h : Synced s p) (ho : SvgOutOk (!s.needMoveTo) s.cur o) :
    edgeStarts p (arcTo s to o.erase).2 = (arcToFroms s to o).map some ∧
      Synced (arcTo s to o.erase).1 (lastPoint p (arcTo s to o.erase).2) := by
  cases o with
  | straight => exact lineTo_connected s to p h
  | arc o => exact arc_connected s o p h ho

section
variable [Add α] [Sub α]

/-- **one command**: every edge it emits starts, in the path the wrapped builder is building,
exactly at the point the adapter means it to start; and afterwards the adapter's
`current_position` is again the builder's current point. -/
theorem step_connected (g : GeoQ α ρ) (s : St α) (c : Cmd α ρ) (p : Option (Pt α))
    (h : Synced s p) (ho : StepOk g s c) :
    edgeStarts p (step g.erase s c).2 = (froms g s c).map some ∧
      Synced (step g.erase s c).1 (lastPoint p (step g.erase s c).2) := by
  cases c with
  | moveTo to => exact moveTo_connected s to p
  | relMoveTo v => exact moveTo_connected s _ p
  | close => exact close_connected s p
  | lineTo to => exact lineTo_connected s to p h
  | relLineTo v => exact lineTo_connected s _ p h
  | hLineTo x => exact lineTo_connected s _ p h
  | relHLineTo x => exact lineTo_connected s _ p h
  | vLineTo x => exact lineTo_connected s _ p h
  | relVLineTo x => exact lineTo_connected s _ p h
  | quadTo c to => exact quadTo_connected s _ to p h
  | relQuadTo c v => exact quadTo_connected s _ _ p h
  | smoothQuadTo to => exact quadTo_connected s _ to p h
  | smoothRelQuadTo v => exact quadTo_connected s _ _ p h
  | cubicTo c1 c2 to => exact cubicTo_connected s _ _ to p h
  | relCubicTo c1 c2 v => exact cubicTo_connected s _ _ _ p h
  | smoothCubicTo c2 to => exact cubicTo_connected s _ _ to p h
  | smoothRelCubicTo c2 v => exact cubicTo_connected s _ _ _ p h
  | arcTo r to => exact arcTo_connected s to _ p h ho
  | relArcTo r v => exact arcTo_connected s _ _ p h ho
  | arc r => exact arc_connected s _ p h ho

/-- **every command sequence** -/
theorem run_connected (g : GeoQ α ρ) (cmds : List (Cmd α ρ)) (s : St α) (p : Option (Pt α))
    (h : Synced s p) (ho : RunOk g s cmds) :
    edgeStarts p (run g.erase s cmds).2 = (runFroms g s cmds).map some ∧
      Synced (run g.erase s cmds).1 (lastPoint p (run g.erase s cmds).2) := by
  induction cmds generalizing s p with
  | nil => exact ⟨rfl, h⟩
  | cons c r ih =>
    obtain ⟨e1, s1⟩ := step_connected g s c p h ho.1
    obtain ⟨e2, s2⟩ := ih _ _ s1 ho.2
    refine ⟨?_, ?_⟩
    · simp only [run, runFroms, edgeStarts_append, List.map_append, e1, e2]
    · simpa only [run, lastPoint_append] using s2

/-- **one command, any geometry**: afterwards the adapter's `current_position` is the wrapped
builder's current point whenever a sub-path is open -/
theorem step_synced (g : Geo α ρ) (s : St α) (c : Cmd α ρ) (p : Option (Pt α)) (h : Synced s p) :
    Synced (step g s c).1 (lastPoint p (step g s c).2) := by
  cases c with
  | moveTo to => exact (moveTo_connected s to p).2
  | relMoveTo v => exact (moveTo_connected s _ p).2
  | close => exact (close_connected s p).2
  | lineTo to => exact (lineTo_connected s to p h).2
  | relLineTo v => exact (lineTo_connected s _ p h).2
  | hLineTo x => exact (lineTo_connected s _ p h).2
  | relHLineTo x => exact (lineTo_connected s _ p h).2
  | vLineTo x => exact (lineTo_connected s _ p h).2
  | relVLineTo x => exact (lineTo_connected s _ p h).2
  | quadTo c to => exact (quadTo_connected s _ to p h).2
  | relQuadTo c v => exact (quadTo_connected s _ _ p h).2
  | smoothQuadTo to => exact (quadTo_connected s _ to p h).2
  | smoothRelQuadTo v => exact (quadTo_connected s _ _ p h).2
  | cubicTo c1 c2 to => exact (cubicTo_connected s _ _ to p h).2
  | relCubicTo c1 c2 v => exact (cubicTo_connected s _ _ _ p h).2
  | smoothCubicTo c2 to => exact (cubicTo_connected s _ _ to p h).2
  | smoothRelCubicTo c2 v => exact (cubicTo_connected s _ _ _ p h).2
  | arcTo r to => exact arcTo_synced s to _ p h
  | relArcTo r v => exact arcTo_synced s _ _ p h
  | arc r => exact arc_synced s _ p h

/-- **every command sequence, any geometry** -/
theorem run_synced (g : Geo α ρ) (cmds : List (Cmd α ρ)) (s : St α) (p : Option (Pt α))
    (h : Synced s p) : Synced (run g s cmds).1 (lastPoint p (run g s cmds).2) := by
  induction cmds generalizing s p with
  | nil => exact h
  | cons c r ih =>
    have s2 := ih _ _ (step_synced g s c p h)
    simpa only [run, lastPoint_append] using s2

/-- sequences without the centre-form `arc` need the law for `arc_to` only -/
def NoCenterArc : List (Cmd α ρ) → Prop
  | [] => True
  | .arc _ :: _ => False
  | _ :: r => NoCenterArc r

theorem runOk_of_endpoint (g : GeoQ α ρ)
    (hend : ∀ r cur to b, SvgOutOk b cur (g.endpoint r cur to)) (cmds : List (Cmd α ρ)) (s : St α)
    (hc : NoCenterArc cmds) : RunOk g s cmds := by
  induction cmds generalizing s with
  | nil => trivial
  | cons c r ih =>
    cases c <;> first
      | exact hc.elim
      | exact ⟨hend _ _ _ _, ih _ hc⟩
      | exact ⟨trivial, ih _ hc⟩

end

end Lyon.Svg
