/-
  NO-PANIC, part 4: `update_active_edges` (`handle_intersections`, `process_intersection`, the splice).

  * the active-edge index handed to `process_intersection` comes from enumerating the active list:
    always in range (`mEdgeIdx` unreachable here), for every scalar type;
  * `assert!(is_after(intersection_position, current_position))`: after the fix-up
    `intersection_position.y = current_position.y.next_after(INFINITY)` the assertion holds whenever
    `y < next_after(y)` - true for every finite `f32` and `-inf`, for the successor on an ordered
    field; it can fail only for `y = +inf` / NaN.  Stated as `hUp`;
  * the splice range `above_start..above_end` is well-formed (`mSplice` unreachable) when the two
    on-edge tests agree (`HorizAgree`, see `SweepSafeScan.lean`).
-/
import LyonVerif.Lemmas.SweepSafeBelow

set_option linter.unusedSectionVars false
set_option linter.unusedVariables false
set_option linter.unusedSimpArgs false
set_option mvcgen.warning false

namespace Lyon.SweepSafe
open Lyon Lyon.Scalar Lyon.Mono Lyon.Sweep Lyon.EQ
open Std.Do

variable {α : Type} [Scalar α] [Wide α]
variable {tol : α} {n : Nat} {A : List String}

/-- `y < y.next_after(INFINITY)` -/
def NextUpOk (α : Type) [Scalar α] [Wide α] : Prop := ∀ y : α, y < Wide.nextUp y

theorem isAfter_nextUp (h : NextUpOk α) (x : α) (cur : P α) :
    Sweep.isAfter (⟨x, Wide.nextUp cur.y⟩ : P α) cur = true := by
  simp [Sweep.isAfter, Sources.isAfter, h cur.y]

theorem assert_ok (h : NextUpOk α) (ip0 cur : P α) :
    Sweep.isAfter (if !Sweep.isAfter ip0 cur then (⟨ip0.x, Wide.nextUp cur.y⟩ : P α) else ip0) cur = true := by
  by_cases h0 : Sweep.isAfter ip0 cur = true
  · simp [h0]
  · simp [h0]
    exact isAfter_nextUp h _ _

theorem processIntersection_safe (hUp : NextUpOk α ∨ mAssert ∈ A) (ta tb : Wide.W α) (aei : Nat) (haei : aei < n)
    (eb0 : PendingEdge α) (belowSeg : Seg (Wide.W α)) :
    ⦃fun s => ⌜Core tol n [] s⌝⦄ (processIntersection ta tb aei eb0 belowSeg : SM α (PendingEdge α))
    ⦃safePost A fun _ s => Core tol n [] s⦄ := by
  unfold processIntersection
  mvcgen
  case vc1 =>
    rename_i s h hx
    exfalso
    have : aei < s.active.size := h.2.2 ▸ haei
    simp [this] at hx
  case vc3 =>
    rcases hUp with hUp | hUp
    · exfalso
      rename_i hna
      have h1 := assert_ok hUp (narrowP (belowSeg.sample tb)) ‹St α›.curPos
      have h2 : (!Sweep.isAfter (if !Sweep.isAfter (narrowP (belowSeg.sample tb)) ‹St α›.curPos
          then (⟨(narrowP (belowSeg.sample tb)).x, Wide.nextUp ‹St α›.curPos.y⟩ : P α)
          else narrowP (belowSeg.sample tb)) ‹St α›.curPos) = true := hna
      rw [h1] at h2
      cases h2
    · exact allowed_panic hUp
  all_goals (have h := ‹Core tol n [] _›; exact h.frame rfl rfl (by simp))


/-- between events: every span live, the tolerance is the call's -/
def Safe (tol : α) (s : St α) : Prop := ∃ n, Core tol n [] s

theorem handleIntersectionsStep_safe (hUp : NextUpOk α ∨ mAssert ∈ A) (skipS skipE : Nat) :
    ⦃fun s => ⌜Core tol n [] s⌝⦄ (handleIntersectionsStep skipS skipE : SM α Unit)
    ⦃safePost A fun _ s => Core tol n [] s⦄ := by
  unfold handleIntersectionsStep
  have h1 := fun ta tb aei haei => processIntersection_safe (α := α) (tol := tol) (n := n) (A := A) hUp ta tb aei haei
  mvcgen [h1] invariants
  · post⟨fun _ s => ⌜Core tol n [] s⌝, fun f _ => ⌜Allowed A f⌝⟩
  · post⟨fun r s => ⌜Core tol n [] s ∧ r.2.2.2 = r.1.prefix.length ∧
        ∀ x, r.2.2.1 = some x → x.2.2 < r.1.prefix.length⌝, fun f _ => ⌜Allowed A f⌝⟩
  with skip
  case vc9 =>
    rename_i r1 r hx s h
    have hh := h.2.2 r hx
    have key : ∀ s' : St α, Core tol n [] s' → s'.active.toList.length = n := fun s' h' => by
      simpa using h'.2.2
    have e1 := key _ ‹Core tol n [] _›
    omega
  all_goals first
    | (intro _ h; exact h)
    | exact (‹Core tol n [] _ ∧ _›).1
    | (rename_i h
       obtain ⟨ha, hb, hc⟩ := h
       refine ⟨ha, ?_, ?_⟩
       · simp only [List.length_append, List.length_cons, List.length_nil]
         exact congrArg (· + 1) hb
       · intro x hx
         simp only [List.length_append, List.length_cons, List.length_nil]
         first
           | (have := hc x hx; omega)
           | (have e : x.2.2 = _ := (congrArg (fun y => y.2.2) (Option.some.inj hx)).symm.trans hb
              omega))
    | (refine ⟨by assumption, rfl, ?_⟩; intro x hx; have hx' : (none : Option _) = some x := hx; cases hx')


/-- `update_active_edges`: the splice range is well-formed -/
theorem updateActiveEdges_safe (hUp : NextUpOk α ∨ mAssert ∈ A) (hH : HorizAgree tol ∨ mSplice ∈ A) (scan : Scan)
    (hend : scan.aboveEnd ≤ n) (hstart : HorizAgree tol → scan.aboveStart ≤ scan.aboveEnd) :
    ⦃fun s => ⌜Core tol n [] s⌝⦄ (updateActiveEdges scan : SM α Unit)
    ⦃safePost A fun _ s => Safe tol s⦄ := by
  unfold updateActiveEdges
  have h1 := handleIntersectionsStep_safe (α := α) (tol := tol) (n := n) (A := A) hUp
  mvcgen [h1]
  all_goals first
    | (have hc := ‹Core tol n [] _›
       exact ⟨_, ⟨hc.1, hc.2.1, rfl⟩⟩)
    | (have hc := ‹Core tol n [] _›
       have hor := ‹_ ∨ _›
       rcases hH with hH | hH
       · exfalso
         have := hstart hH
         have := hc.2.2
         omega
       · exact allowed_panic hH)

end Lyon.SweepSafe
