/-
  C03c — `fill_circle` covers the polygon of its border vertices: the combinatorial part.

  No trigonometry here.  `fillBorderRadius c a0 a1 r va vb n m` (model of `fill_border_radius`,
  `Model/Tess/BasicShapes.lean`) is analysed as a recursive subdivision of the cap between the chord
  `A → B` (the positions of the vertices `va`, `vb`) and the polyline through the mid-angle vertices:

  * `border_extends`      the call only appends vertices and triangles
  * `leafEdges`           the `2ⁿ` edges of the finest polyline (the leaves of the recursion)
  * `border_covers_cap`   a point strictly beyond the chord `A → B` and on the inner side of every
                          leaf edge lies in one of the triangles the call emits
  * `circle_covers_edges` `fill_circle`: a point on the inner side of all `4·2ⁿ` leaf edges lies in an
                          emitted triangle (the two triangles of the square, or one of the caps)
  * `border_leaf_verts`, `circle_edge_verts`  the end points of the leaf edges are emitted vertices

  "Inner side" of an edge `e = (U, V)` is `0 ≤ (V − U) × (p − U)`; these statements hold for every
  choice of the functions `cos`, `sin` (they are statements about half-planes); that the leaf edges
  are the sides of the inscribed regular `4·2ⁿ`-gon and what the half-planes contain is
  `Lemmas/CircleCoverTrig.lean`.
-/
import LyonVerif.Props.C03

set_option linter.unusedSectionVars false
set_option linter.unusedVariables false

namespace Lyon.C03c
open Lyon Lyon.Shapes Lyon.C03

variable {K : Type} [Field K] [LinearOrder K] [IsStrictOrderedRing K] [Transc K]

noncomputable section

/-- the point of the circle at angle `a`, exactly the expression of `fill_border_radius`:
`center + vector(a.cos(), a.sin()) * radius` -/
def pos (c : P K) (r a : K) : P K := c + (⟨Transc.cos a, Transc.sin a⟩ : P K).smul r

/-- `p` lies in (the closed triangle of) some triangle of the mesh -/
def Covered (m : Mesh K) (p : P K) : Prop :=
  ∃ t ∈ m.tris, ∃ A B C : P K, m.verts[t.1]? = some A ∧ m.verts[t.2.1]? = some B ∧
    m.verts[t.2.2]? = some C ∧ inTri A B C p

/-- `m'` has `m`'s vertices and triangles as prefixes -/
def Extends (m m' : Mesh K) : Prop :=
  (∃ ev, m'.verts = m.verts ++ ev) ∧ (∃ et, m'.tris = m.tris ++ et)

theorem Extends.refl (m : Mesh K) : Extends m m := ⟨⟨[], by simp⟩, ⟨[], by simp⟩⟩

theorem Extends.trans {m1 m2 m3 : Mesh K} (h12 : Extends m1 m2) (h23 : Extends m2 m3) : Extends m1 m3 := by
  obtain ⟨⟨ev, hv⟩, ⟨et, ht⟩⟩ := h12
  obtain ⟨⟨ev', hv'⟩, ⟨et', ht'⟩⟩ := h23
  exact ⟨⟨ev ++ ev', by rw [hv', hv, List.append_assoc]⟩, ⟨et ++ et', by rw [ht', ht, List.append_assoc]⟩⟩

theorem Extends.vert {m m' : Mesh K} (h : Extends m m') {i : Nat} {A : P K}
    (hi : m.verts[i]? = some A) : m'.verts[i]? = some A := by
  obtain ⟨⟨ev, hv⟩, _⟩ := h
  have hlt : i < m.verts.length := by
    by_contra hc
    rw [List.getElem?_eq_none (not_lt.1 hc)] at hi
    exact absurd hi (by simp)
  rw [hv, List.getElem?_append_left hlt]
  exact hi

theorem Extends.covered {m m' : Mesh K} (h : Extends m m') {p : P K} (hc : Covered m p) : Covered m' p := by
  obtain ⟨t, ht, A, B, C, hA, hB, hC, hin⟩ := hc
  obtain ⟨_, ⟨et, hte⟩⟩ := id h
  exact ⟨t, by rw [hte]; exact List.mem_append_left _ ht, A, B, C, h.vert hA, h.vert hB, h.vert hC, hin⟩

/-- **`fill_border_radius` only appends** to the vertex and index buffers -/
theorem border_extends (c : P K) (a0 a1 r : K) (va vb n : Nat) (m : Mesh K) :
    Extends m (fillBorderRadius c a0 a1 r va vb n m) := by
  induction n generalizing a0 a1 va vb m with
  | zero => exact Extends.refl m
  | succ n ih =>
    simp only [fillBorderRadius]
    refine Extends.trans (Extends.trans ?_ (ih _ _ _ _ _)) (ih _ _ _ _ _)
    exact ⟨⟨[_], rfl⟩, ⟨[_], rfl⟩⟩

/-- the edges of the finest polyline of a `fill_border_radius` call of depth `n` between the
points `A` (at angle `a0`) and `B` (at angle `a1`), in order from `A` to `B` -/
def leafEdges (c : P K) (r : K) : Nat → K → K → P K → P K → List (P K × P K)
  | 0, _, _, A, B => [(A, B)]
  | n+1, a0, a1, A, B =>
    leafEdges c r n a0 ((a0 + a1) * Scalar.half) A (pos c r ((a0 + a1) * Scalar.half)) ++
    leafEdges c r n ((a0 + a1) * Scalar.half) a1 (pos c r ((a0 + a1) * Scalar.half)) B

/-- `p` is on the inner (left) side of the directed edge `e`, boundary included -/
def Inner (e : P K × P K) (p : P K) : Prop := 0 ≤ (e.2 - e.1).cross (p - e.1)

theorem leafEdges_length (c : P K) (r : K) (n : Nat) (a0 a1 : K) (A B : P K) :
    (leafEdges c r n a0 a1 A B).length = 2 ^ n := by
  induction n generalizing a0 a1 A B with
  | zero => rfl
  | succ n ih => simp only [leafEdges, List.length_append, ih]; rw [pow_succ]; ring

/-- the triangle `(vb, mid, va)` emitted by one step: a point on the inner side of `A → M` and of
`M → B` and not on the inner side of `A → B` is in it -/
theorem step_tri (A M B p : P K) (h1 : 0 ≤ (M - A).cross (p - A)) (h2 : 0 ≤ (B - M).cross (p - M))
    (h3 : (B - A).cross (p - A) ≤ 0) : inTri B M A p := by
  right
  simp only [geom] at h1 h2 h3 ⊢
  refine ⟨?_, ?_, ?_⟩ <;> linarith

/-- **One border call covers its cap.**  `A`, `B` are the positions of `va`, `vb`.  A point strictly
beyond the chord `A → B` (seen from the inner side) and on the inner side of all `2ⁿ` leaf edges of
the call lies in one of the triangles the call emits. -/
theorem border_covers_cap (c : P K) (r : K) (n : Nat) (a0 a1 : K) (va vb : Nat) (m : Mesh K)
    (A B p : P K) (hA : m.verts[va]? = some A) (hB : m.verts[vb]? = some B)
    (hout : (B - A).cross (p - A) < 0)
    (hin : ∀ e ∈ leafEdges c r n a0 a1 A B, Inner e p) :
    Covered (fillBorderRadius c a0 a1 r va vb n m) p := by
  induction n generalizing a0 a1 va vb m A B with
  | zero =>
    have := hin (A, B) (by simp [leafEdges])
    simp only [Inner] at this
    exact absurd hout (not_lt.2 this)
  | succ n ih =>
    simp only [fillBorderRadius]
    set mid := (a0 + a1) * Scalar.half with hmid
    set M : P K := c + (⟨Transc.cos mid, Transc.sin mid⟩ : P K).smul r with hM
    set m1 : Mesh K := ⟨m.verts ++ [M], m.tris ++ [(vb, m.verts.length, va)]⟩ with hm1
    have hA' : m.verts[va]? = some A := hA
    have hB' : m.verts[vb]? = some B := hB
    have e1 : Extends m m1 := ⟨⟨[M], rfl⟩, ⟨[_], rfl⟩⟩
    have hMv : m1.verts[m.verts.length]? = some M := by simp [hm1]
    have hin1 : ∀ e ∈ leafEdges c r n a0 mid A M, Inner e p := fun e he =>
      hin e (by simp only [leafEdges]; exact List.mem_append_left _ he)
    have hin2 : ∀ e ∈ leafEdges c r n mid a1 M B, Inner e p := fun e he =>
      hin e (by simp only [leafEdges]; exact List.mem_append_right _ he)
    set m2 := fillBorderRadius c a0 mid r va m.verts.length n m1 with hm2
    have e2 : Extends m1 m2 := border_extends ..
    by_cases h1 : (M - A).cross (p - A) < 0
    · -- in the first sub-cap
      exact (border_extends ..).covered (ih a0 mid va m.verts.length m1 A M (e1.vert hA) hMv h1 hin1)
    · by_cases h2 : (B - M).cross (p - M) < 0
      · exact ih mid a1 m.verts.length vb m2 M B (e2.vert hMv) ((e1.trans e2).vert hB) h2 hin2
      · -- in the triangle of this step
        have hc1 : Covered m1 p :=
          ⟨(vb, m.verts.length, va), by simp [hm1], B, M, A, e1.vert hB, hMv, e1.vert hA,
            step_tri A M B p (not_lt.1 h1) (not_lt.1 h2) (le_of_lt hout)⟩
        exact (border_extends ..).covered (e2.covered hc1)

/-! ### the whole circle -/

/-- the four axis vertices `fill_circle` adds first: left, up, right, down -/
def axisVerts (c : P K) (r : K) : List (P K) :=
  [c + (⟨-Scalar.one, Scalar.zero⟩ : P K).smul r, c + (⟨Scalar.zero, -Scalar.one⟩ : P K).smul r,
   c + (⟨Scalar.one, Scalar.zero⟩ : P K).smul r, c + (⟨Scalar.zero, Scalar.one⟩ : P K).smul r]

/-- the boundary edges of the mesh `fill_circle` builds with recursion depth `n`: the leaf edges
of its four `fill_border_radius` calls, with the angles the code passes -/
def circleEdges (c : P K) (r : K) (n : Nat) : List (P K × P K) :=
  let pi := (Transc.pi : K)
  leafEdges c r n pi (Scalar.ofSci 15 1 * pi) ((axisVerts c r).getD 0 c) ((axisVerts c r).getD 1 c) ++
  leafEdges c r n (Scalar.ofSci 15 1 * pi) (Scalar.two * pi) ((axisVerts c r).getD 1 c) ((axisVerts c r).getD 2 c) ++
  leafEdges c r n Scalar.zero (pi * Scalar.half) ((axisVerts c r).getD 2 c) ((axisVerts c r).getD 3 c) ++
  leafEdges c r n (pi * Scalar.half) pi ((axisVerts c r).getD 3 c) ((axisVerts c r).getD 0 c)

theorem circleEdges_length (c : P K) (r : K) (n : Nat) : (circleEdges c r n).length = 4 * 2 ^ n := by
  simp only [circleEdges, List.length_append, leafEdges_length]; ring

/-- the square of the axis vertices is covered by the two triangles `(0,3,1)`, `(1,3,2)` -/
theorem square_covered (c : P K) (r : K) (p : P K)
    (h01 : 0 ≤ ((axisVerts c r).getD 1 c - (axisVerts c r).getD 0 c).cross (p - (axisVerts c r).getD 0 c))
    (h12 : 0 ≤ ((axisVerts c r).getD 2 c - (axisVerts c r).getD 1 c).cross (p - (axisVerts c r).getD 1 c))
    (h23 : 0 ≤ ((axisVerts c r).getD 3 c - (axisVerts c r).getD 2 c).cross (p - (axisVerts c r).getD 2 c))
    (h30 : 0 ≤ ((axisVerts c r).getD 0 c - (axisVerts c r).getD 3 c).cross (p - (axisVerts c r).getD 3 c)) :
    inTri ((axisVerts c r).getD 0 c) ((axisVerts c r).getD 3 c) ((axisVerts c r).getD 1 c) p ∨
    inTri ((axisVerts c r).getD 1 c) ((axisVerts c r).getD 3 c) ((axisVerts c r).getD 2 c) p := by
  simp only [axisVerts, List.getD_cons_zero, List.getD_cons_succ] at h01 h12 h23 h30 ⊢
  by_cases hd : ((c + (⟨Scalar.zero, -Scalar.one⟩ : P K).smul r) - (c + (⟨Scalar.zero, Scalar.one⟩ : P K).smul r)).cross
      (p - (c + (⟨Scalar.zero, Scalar.one⟩ : P K).smul r)) ≤ 0
  · left; right
    simp only [geom, Nat.cast_zero, Nat.cast_one] at h01 h12 h23 h30 hd ⊢
    refine ⟨?_, ?_, ?_⟩ <;> linarith
  · right; right
    simp only [geom, Nat.cast_zero, Nat.cast_one, not_le] at h01 h12 h23 h30 hd ⊢
    refine ⟨?_, ?_, ?_⟩ <;> linarith

/-- **`fill_circle` covers the polygon of its boundary edges.**  A point on the inner side of each of
the `4·2ⁿ` boundary edges of the mesh lies in one of its triangles.  (For every `cos`/`sin`.) -/
theorem circle_covers_edges (c : P K) (r tol : K) (m : Mesh K) (h : fillCircle c r tol = some m)
    (p : P K)
    (hp : ∀ e ∈ circleEdges c (Scalar.abs r) (circleRecursions (Scalar.abs r) tol), Inner e p) :
    Covered m p := by
  unfold fillCircle at h
  simp only [] at h
  split at h
  · exact absurd h (by simp)
  · injection h with h
    subst h
    set R := Scalar.abs r with hR
    set n := circleRecursions R tol with hn
    set pi := (Transc.pi : K) with hpi
    set V := axisVerts c R with hV
    have hVd : V = [c + (⟨-Scalar.one, Scalar.zero⟩ : P K).smul R, c + (⟨Scalar.zero, -Scalar.one⟩ : P K).smul R,
      c + (⟨Scalar.one, Scalar.zero⟩ : P K).smul R, c + (⟨Scalar.zero, Scalar.one⟩ : P K).smul R] := rfl
    set m0 : Mesh K := ⟨V, [(0, 3, 1), (1, 3, 2)]⟩ with hm0
    have g0 : m0.verts[0]? = some (V.getD 0 c) := by simp [hm0, hVd]
    have g1 : m0.verts[1]? = some (V.getD 1 c) := by simp [hm0, hVd]
    have g2 : m0.verts[2]? = some (V.getD 2 c) := by simp [hm0, hVd]
    have g3 : m0.verts[3]? = some (V.getD 3 c) := by simp [hm0, hVd]
    simp only [circleEdges, List.mem_append] at hp
    set m1 := fillBorderRadius c pi (Scalar.ofSci 15 1 * pi) R 0 1 n m0 with hm1
    set m2 := fillBorderRadius c (Scalar.ofSci 15 1 * pi) (Scalar.two * pi) R 1 2 n m1 with hm2
    set m3 := fillBorderRadius c Scalar.zero (pi * Scalar.half) R 2 3 n m2 with hm3
    have e1 : Extends m0 m1 := border_extends ..
    have e2 : Extends m1 m2 := border_extends ..
    have e3 : Extends m2 m3 := border_extends ..
    have e4 : Extends m3 (fillBorderRadius c (pi * Scalar.half) pi R 3 0 n m3) := border_extends ..
    by_cases c1 : ((V.getD 1 c) - (V.getD 0 c)).cross (p - V.getD 0 c) < 0
    · exact (e2.trans (e3.trans e4)).covered
        (border_covers_cap c R n _ _ 0 1 m0 _ _ p g0 g1 c1 (fun e he => hp e (Or.inl (Or.inl (Or.inl he)))))
    by_cases c2 : ((V.getD 2 c) - (V.getD 1 c)).cross (p - V.getD 1 c) < 0
    · exact (e3.trans e4).covered
        (border_covers_cap c R n _ _ 1 2 m1 _ _ p (e1.vert g1) (e1.vert g2) c2
          (fun e he => hp e (Or.inl (Or.inl (Or.inr he)))))
    by_cases c3 : ((V.getD 3 c) - (V.getD 2 c)).cross (p - V.getD 2 c) < 0
    · exact e4.covered
        (border_covers_cap c R n _ _ 2 3 m2 _ _ p ((e1.trans e2).vert g2) ((e1.trans e2).vert g3) c3
          (fun e he => hp e (Or.inl (Or.inr he))))
    by_cases c4 : ((V.getD 0 c) - (V.getD 3 c)).cross (p - V.getD 3 c) < 0
    · exact border_covers_cap c R n _ _ 3 0 m3 _ _ p ((e1.trans (e2.trans e3)).vert g3)
        ((e1.trans (e2.trans e3)).vert g0) c4 (fun e he => hp e (Or.inr he))
    -- inside the square
    have hsq := square_covered c R p (not_lt.1 c1) (not_lt.1 c2) (not_lt.1 c3) (not_lt.1 c4)
    refine (e1.trans (e2.trans (e3.trans e4))).covered ?_
    rcases hsq with hs | hs
    · exact ⟨(0, 3, 1), by simp [hm0], _, _, _, g0, g3, g1, hs⟩
    · exact ⟨(1, 3, 2), by simp [hm0], _, _, _, g1, g3, g2, hs⟩

/-! ### the end points of the boundary edges are emitted vertices -/

theorem Extends.mem {m m' : Mesh K} (h : Extends m m') {x : P K} (hx : x ∈ m.verts) : x ∈ m'.verts := by
  obtain ⟨⟨ev, hv⟩, _⟩ := h
  rw [hv]; exact List.mem_append_left _ hx

/-- the end points of the leaf edges of a border call are vertices of the mesh it returns -/
theorem border_leaf_verts (c : P K) (r : K) (n : Nat) (a0 a1 : K) (va vb : Nat) (m : Mesh K) (A B : P K)
    (hA : A ∈ m.verts) (hB : B ∈ m.verts) :
    ∀ e ∈ leafEdges c r n a0 a1 A B,
      e.1 ∈ (fillBorderRadius c a0 a1 r va vb n m).verts ∧ e.2 ∈ (fillBorderRadius c a0 a1 r va vb n m).verts := by
  induction n generalizing a0 a1 va vb m A B with
  | zero =>
    intro e he
    simp only [leafEdges, List.mem_cons, List.not_mem_nil, or_false] at he
    subst he
    exact ⟨hA, hB⟩
  | succ n ih =>
    intro e he
    simp only [fillBorderRadius]
    set mid := (a0 + a1) * Scalar.half with hmid
    set M : P K := c + (⟨Transc.cos mid, Transc.sin mid⟩ : P K).smul r with hM
    set m1 : Mesh K := ⟨m.verts ++ [M], m.tris ++ [(vb, m.verts.length, va)]⟩ with hm1
    have e1 : Extends m m1 := ⟨⟨[M], rfl⟩, ⟨[_], rfl⟩⟩
    have hM1 : M ∈ m1.verts := by simp [hm1]
    set m2 := fillBorderRadius c a0 mid r va m.verts.length n m1 with hm2
    have e2 : Extends m1 m2 := border_extends ..
    have e3 : Extends m2 (fillBorderRadius c mid a1 r m.verts.length vb n m2) := border_extends ..
    simp only [leafEdges, List.mem_append] at he
    rcases he with he | he
    · obtain ⟨h1, h2⟩ := ih a0 mid va m.verts.length m1 A M (e1.mem hA) hM1 e he
      exact ⟨e3.mem h1, e3.mem h2⟩
    · exact ih mid a1 m.verts.length vb m2 M B (e2.mem hM1) ((e1.trans e2).mem hB) e he

/-- **the end points of all boundary edges of the circle mesh are emitted vertices** -/
theorem circle_edge_verts (c : P K) (r tol : K) (m : Mesh K) (h : fillCircle c r tol = some m) :
    ∀ e ∈ circleEdges c (Scalar.abs r) (circleRecursions (Scalar.abs r) tol), e.1 ∈ m.verts ∧ e.2 ∈ m.verts := by
  unfold fillCircle at h
  simp only [] at h
  split at h
  · exact absurd h (by simp)
  · injection h with h
    subst h
    set R := Scalar.abs r with hR
    set n := circleRecursions R tol with hn
    set pi := (Transc.pi : K) with hpi
    have hVd : axisVerts c R = [c + (⟨-Scalar.one, Scalar.zero⟩ : P K).smul R, c + (⟨Scalar.zero, -Scalar.one⟩ : P K).smul R,
      c + (⟨Scalar.one, Scalar.zero⟩ : P K).smul R, c + (⟨Scalar.zero, Scalar.one⟩ : P K).smul R] := rfl
    set m0 : Mesh K := ⟨axisVerts c R, [(0, 3, 1), (1, 3, 2)]⟩ with hm0
    have g0 : (axisVerts c R).getD 0 c ∈ m0.verts := by simp [hm0, hVd]
    have g1 : (axisVerts c R).getD 1 c ∈ m0.verts := by simp [hm0, hVd]
    have g2 : (axisVerts c R).getD 2 c ∈ m0.verts := by simp [hm0, hVd]
    have g3 : (axisVerts c R).getD 3 c ∈ m0.verts := by simp [hm0, hVd]
    set m1 := fillBorderRadius c pi (Scalar.ofSci 15 1 * pi) R 0 1 n m0 with hm1
    set m2 := fillBorderRadius c (Scalar.ofSci 15 1 * pi) (Scalar.two * pi) R 1 2 n m1 with hm2
    set m3 := fillBorderRadius c Scalar.zero (pi * Scalar.half) R 2 3 n m2 with hm3
    have e1 : Extends m0 m1 := border_extends ..
    have e2 : Extends m1 m2 := border_extends ..
    have e3 : Extends m2 m3 := border_extends ..
    have e4 : Extends m3 (fillBorderRadius c (pi * Scalar.half) pi R 3 0 n m3) := border_extends ..
    intro e he
    simp only [circleEdges, List.mem_append] at he
    rcases he with ((he | he) | he) | he
    · obtain ⟨h1, h2⟩ := border_leaf_verts c R n _ _ 0 1 m0 _ _ g0 g1 e he
      exact ⟨(e2.trans (e3.trans e4)).mem h1, (e2.trans (e3.trans e4)).mem h2⟩
    · obtain ⟨h1, h2⟩ := border_leaf_verts c R n _ _ 1 2 m1 _ _ (e1.mem g1) (e1.mem g2) e he
      exact ⟨(e3.trans e4).mem h1, (e3.trans e4).mem h2⟩
    · obtain ⟨h1, h2⟩ := border_leaf_verts c R n _ _ 2 3 m2 _ _ ((e1.trans e2).mem g2) ((e1.trans e2).mem g3) e he
      exact ⟨e4.mem h1, e4.mem h2⟩
    · exact border_leaf_verts c R n _ _ 3 0 m3 _ _ ((e1.trans (e2.trans e3)).mem g3)
        ((e1.trans (e2.trans e3)).mem g0) e he

end

end Lyon.C03c
