/-
  Helper definitions and lemmas for `Props/SweepCurves.lean`: the edge records a curve leaves in
  the event-queue builder (`edgesOf`, `flatRange`, `storedRange`), one flattening callback, the
  flattening loop, the tail; `Tiles` and the tiling of `[0,1]` by the quadratic / cubic flattening
  (from `Lemmas/Flatten.lean`).
-/
import LyonVerif.Model.Tess.SweepCurves
import LyonVerif.Lemmas.Flatten
import LyonVerif.Props.C07

set_option linter.unusedSectionVars false
set_option linter.unusedVariables false
set_option linter.unusedSimpArgs false

namespace Lyon.SweepCurvesProps
open Lyon Lyon.Scalar Lyon.Sources Lyon.SweepCurves Lyon.Flat

variable {K : Type} [Field K] [LinearOrder K] [IsStrictOrderedRing K]

/-! ### the stored edge records and their ranges -/

/-- the edge records among stored records (vertex events dropped), newest first -/
noncomputable def edgesOf (recs : List (EdgeRec K)) : List (EdgeRec K) := recs.filter (·.isEdge)

/-- the range of an edge record read in the direction of the flattening that produced it:
`add_edge` stores a downward piece as it is (winding `w` of the curve) and an upward piece with
ends and range swapped and winding `-w` -/
noncomputable def flatRange (w : Int) (r : EdgeRec K) : K × K := if r.winding = w then (r.t0, r.t1) else (r.t1, r.t0)

/-- the range stored for a piece: the flattening's own, or `1 - t` when flattened from the end -/
noncomputable def storedRange (ns : Bool) (l : Piece K) : K × K := (pieceT ns l.t0, pieceT ns l.t1)

noncomputable def nondeg (l : Piece K) : Bool := !(l.a == l.b)

theorem edgesOf_pushRec_vertex (b : Builder K) (r : EdgeRec K) (h : r.isEdge = false) :
    edgesOf (b.pushRec r).recs = edgesOf b.recs := by
  simp [edgesOf, Builder.pushRec, List.filter_cons, h]

theorem addEdge_range (a b : P K) (w : Int) (hw : w ≠ 0) (f t : Nat) (t0 t1 : K) (hne : (a == b) = false) :
    ∃ r, addEdge a b w f t t0 t1 = some r ∧ r.isEdge = true ∧ flatRange w r = (t0, t1) := by
  unfold addEdge
  rw [if_neg (by simp [hne])]
  by_cases hu : isAfter a b = true
  · refine ⟨_, by rw [if_pos hu], rfl, ?_⟩
    have : ¬ (-w = w) := by omega
    simp [flatRange, this]
  · refine ⟨_, by rw [if_neg hu], rfl, ?_⟩
    simp [flatRange]

/-- one callback: a degenerate piece stores nothing, any other piece exactly one edge record
carrying its (possibly `1 - t`) range in flattening direction -/
theorem curveStep_edges (ns : Bool) (w : Int) (hw : w ≠ 0) (toId : Nat) (s : CurveLoop K) (l : Piece K) :
    (edgesOf (curveStep ns w toId s l).bld.recs).map (flatRange w)
      = (if nondeg l then [storedRange ns l] else []) ++ (edgesOf s.bld.recs).map (flatRange w) := by
  unfold curveStep nondeg
  by_cases hd : (l.a == l.b) = true
  · simp [hd]
  · have hd' : (l.a == l.b) = false := by simpa using hd
    simp only [hd', Bool.false_eq_true, ↓reduceIte, Bool.not_false]
    -- the optional vertex event does not change the edges
    have hv : ∀ b1 : Builder K,
        (b1 = s.bld ∨ b1 = s.bld.pushRec (vertexEventOnCurve l.a (pieceT ns l.t0) s.bld.prevId toId)) →
        edgesOf b1.recs = edgesOf s.bld.recs := by
      rintro b1 (rfl | rfl)
      · rfl
      · exact edgesOf_pushRec_vertex _ _ rfl
    set b1 := (if (s.first.isSome && isAfter l.a l.b && isAfter l.a s.prev) = true
      then s.bld.pushRec (vertexEventOnCurve l.a (pieceT ns l.t0) s.bld.prevId toId) else s.bld) with hb1
    have hb1e : edgesOf b1.recs = edgesOf s.bld.recs := by
      apply hv
      rw [hb1]; split <;> simp
    obtain ⟨r, hr, hre, hrr⟩ := addEdge_range l.a l.b w hw b1.prevId toId (pieceT ns l.t0) (pieceT ns l.t1) hd'
    rw [hr]
    simp only [Builder.pushEdge, edgesOf, List.filter_cons, hre, ↓reduceIte, List.map_cons, hrr, storedRange,
      List.singleton_append]
    rw [show List.filter (fun x => x.isEdge) b1.recs = edgesOf b1.recs from rfl, hb1e]
    rfl

/-- the flattening loop: the new edge records carry, newest first, the stored ranges of the
non-degenerate pieces -/
theorem curve_edges_fold (ns : Bool) (w : Int) (hw : w ≠ 0) (toId : Nat) (flat : List (Piece K)) (s : CurveLoop K) :
    (edgesOf (flat.foldl (curveStep ns w toId) s).bld.recs).map (flatRange w)
      = ((flat.filter nondeg).map (storedRange ns)).reverse ++ (edgesOf s.bld.recs).map (flatRange w) := by
  induction flat generalizing s with
  | nil => simp
  | cons l ls ih =>
    rw [List.foldl_cons, ih, curveStep_edges ns w hw]
    by_cases hn : nondeg l = true
    · simp [List.filter_cons, hn]
    · simp [List.filter_cons, hn]

theorem curveTail_edges (b0 : Builder K) (s : CurveLoop K) (a dest : P K) (toId : Nat) (ns : Bool) :
    edgesOf (curveTail b0 s a dest toId ns).recs = edgesOf s.bld.recs := by
  unfold curveTail
  cases hf : s.first with
  | none => rfl
  | some first =>
    simp only
    by_cases hn : b0.nth = 0
    · simp [hn]
    · by_cases hc : (isAfter a s.bld.prev && isAfter a (if ns = true then s.prev else first)) = true
      · simp only [hn, hc, ↓reduceIte]
        exact edgesOf_pushRec_vertex _ _ rfl
      · simp [hn, hc]

/-! ### the flattenings tile `[0,1]` -/

section flat
variable [Transc K] [FlatConst K]

/-- the pieces of a flattening form a chain in points and parameters from `(p, 0)` to `(q, 1)`:
they tile `[0,1]` in order -/
def Tiles (p q : P K) (l : List (FlatSeg K)) : Prop :=
  l ≠ [] ∧ Chain p 0 l ∧ lastPt p l = q ∧ lastT 0 l = 1

theorem quad_tiles (q : Quad K) (tol : K) (l : List (FlatSeg K)) (h : q.forEachFlattenedWithT tol = some l) :
    Tiles q.a q.b l := by
  obtain ⟨h1, h2, h3, h4, _⟩ := quad_flat_structure q tol l h
  have z : (zero : K) = 0 := sc_zero
  have o : (one : K) = 1 := sc_one
  rw [z] at h2 h4
  rw [o] at h4
  exact ⟨h1, h2, h3, h4⟩

theorem cubic_tiles (c : Cubic K) (tol : K) (l : List (FlatSeg K)) (h : c.forEachFlattenedWithT tol = some l) :
    Tiles c.a c.b l := by
  simp only [Cubic.forEachFlattenedWithT, Cubic.forEachQuadraticWithT] at h
  obtain ⟨s1, s2, s3⟩ := cubic_quads_structure c
    (one / c.numQuadraticsImpl (tol * FlatConst.value 4 1))
    ((toU32 (c.numQuadraticsImpl (tol * FlatConst.value 4 1))).getD 1 - 1) zero
  have hne : c.quadsLoop (one / c.numQuadraticsImpl (tol * FlatConst.value 4 1))
      ((toU32 (c.numQuadraticsImpl (tol * FlatConst.value 4 1))).getD 1 - 1) zero ≠ [] := by
    intro hh; rw [hh] at s3; simp at s3
  obtain ⟨r1, r2, r3, r4⟩ := cubic_flat_structure c _ _ zero zero s1 hne s2 l h
  have z : (zero : K) = 0 := sc_zero
  have o : (one : K) = 1 := sc_one
  rw [z, cubic_sample_zero] at r2 r3
  rw [o, cubic_sample_one] at r3
  rw [z] at r4
  rw [o] at r4
  exact ⟨r1, r2, r3, r4⟩

/-- the ranges of `toPieces l` are those of `l` -/
theorem toPieces_filter_map (ns : Bool) (l : List (FlatSeg K)) :
    ((toPieces l).filter nondeg).map (storedRange ns)
      = (l.filter (fun s => !(s.a == s.b))).map (fun s => (pieceT ns s.t0, pieceT ns s.t1)) := by
  induction l with
  | nil => rfl
  | cons s r ih =>
    have ih' : ((toPieces r).filter nondeg).map (storedRange ns)
      = (r.filter (fun s => !(s.a == s.b))).map (fun s => (pieceT ns s.t0, pieceT ns s.t1)) := ih
    show (((⟨s.a, s.b, s.t0, s.t1⟩ : Piece K) :: toPieces r).filter nondeg).map (storedRange ns) = _
    by_cases hd : (s.a == s.b) = true
    · rw [List.filter_cons, List.filter_cons]
      simp only [nondeg, hd, Bool.not_true, Bool.false_eq_true, ↓reduceIte]
      exact ih'
    · have hd' : (s.a == s.b) = false := by simpa using hd
      rw [List.filter_cons, List.filter_cons]
      simp only [nondeg, hd', Bool.not_false, ↓reduceIte, List.map_cons, storedRange]
      rw [← ih']

end flat

end Lyon.SweepCurvesProps
