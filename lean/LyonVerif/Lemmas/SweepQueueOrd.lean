/-
  The queue-order invariant `QOrd` of the index-linked event queue (pointer level, ordered fields) and what it
  gives: `AdvOK` at `initialize_events` (`advOK_of_qord`).

  * `SortedFrom evs i`: following the `next_event` links from `i` the positions strictly increase in sweep order
    (`compare_positions = Less`); an inductive predicate, so the list is finite and acyclic;
  * `InChain evs i p`: `p` is the position of an event reachable from `i` along `next_event`;
  * `QOrd s` (at the head of the loop): the list from the current event is sorted, the previous vertex is not
    below the current event, the far end of every active edge that is no merge vertex is the position of an event
    of that list (`ToQueued`), no pending edges are left over, the edge records of the sibling events of the
    current event point down the sweep.
  That `sort` establishes `SortedFrom` and that `insert_sorted` / the sweep's re-queueing keep `QOrd` is NOT
  proved here (interface: `SweepSpan.QOrdHyp`).
-/
import LyonVerif.Lemmas.SweepSpanLoop

set_option linter.unusedSectionVars false
set_option linter.unusedVariables false

namespace Lyon.SweepSpan
open Lyon Lyon.Scalar Lyon.Sweep Lyon.EQ Lyon.SweepPos

section field
variable {K : Type} [Field K] [LinearOrder K] [IsStrictOrderedRing K]

/-- position / next event of an index of the raw event array -/
noncomputable def epos (evs : Array (Event K)) (i : Nat) : P K := (evs.getD i Event.dflt).pos
noncomputable def enext (evs : Array (Event K)) (i : Nat) : Nat := (evs.getD i Event.dflt).nextEvent

/-- the `next_event` list from `i` is finite and strictly increasing in sweep order -/
inductive SortedFrom (evs : Array (Event K)) : Nat → Prop
  | nil : SortedFrom evs INVALID
  | cons (i : Nat) (hi : i ≠ INVALID) (hs : SortedFrom evs (enext evs i))
      (hlt : enext evs i ≠ INVALID → comparePositions (epos evs i) (epos evs (enext evs i)) = .lt) :
      SortedFrom evs i

/-- `p` is the position of an event of the `next_event` list from `i` -/
inductive InChain (evs : Array (Event K)) : Nat → P K → Prop
  | here (i : Nat) (hi : i ≠ INVALID) : InChain evs i (epos evs i)
  | next (i : Nat) (p : P K) (hi : i ≠ INVALID) (h : InChain evs (enext evs i) p) : InChain evs i p

theorem InChain.valid {evs : Array (Event K)} {i : Nat} {p : P K} (h : InChain evs i p) : i ≠ INVALID := by
  cases h <;> assumption

/-- **the head of a sorted list is not below any of its events** -/
theorem chain_le {evs : Array (Event K)} {i : Nat} {p : P K} (hs : SortedFrom evs i) (hc : InChain evs i p) :
    (epos evs i).y ≤ p.y := by
  induction hc with
  | here i hi => exact le_refl _
  | next i p hi h ih =>
    cases hs with
    | nil => exact absurd rfl hi
    | cons _ _ hs' hlt =>
      exact le_trans (cmp_lt_y (hlt h.valid)) (ih hs')

theorem SortedFrom.tail {evs : Array (Event K)} {i : Nat} (hs : SortedFrom evs i) (hi : i ≠ INVALID) :
    SortedFrom evs (enext evs i) := by
  cases hs with
  | nil => exact absurd rfl hi
  | cons _ _ hs' _ => exact hs'

variable [w : Wide K]

/-- the far end of every active edge that is no merge vertex is the position of an event still in the queue -/
def ToQueued (s : St K) : Prop :=
  ∀ e ∈ s.active, e.isMerge = false → InChain s.q.events s.curEvent e.to

/-- **the queue-order invariant at the head of the loop** -/
structure QOrd (s : St K) : Prop where
  sorted : SortedFrom s.q.events s.curEvent
  curLe : s.active.size = 0 ∨ s.curPos.y ≤ (s.q.position s.curEvent).y
  toQueued : ToQueued s
  noBelow : s.below = #[]
  down : ∀ i ∈ s.q.siblings s.q.fuel s.curEvent, (s.q.ed i).isEdge = true →
    (s.q.position s.curEvent).y ≤ (s.q.ed i).to.y

theorem position_eq (q : Queue K) (i : Nat) : q.position i = epos q.events i := rfl

/-- **`QOrd` gives `AdvOK`**: the next vertex is spanned by every active edge -/
theorem advOK_of_qord {s : St K} (hI : Inv s) (hq : QOrd s) : AdvOK s := by
  refine ⟨?_, ?_, hq.down⟩
  · intro e he hm
    have hsp := hI.1.1 e he hm
    have hcl : s.curPos.y ≤ (s.q.position s.curEvent).y := by
      rcases hq.curLe with h0 | h0
      · have := Array.size_pos_of_mem he
        omega
      · exact h0
    refine ⟨le_trans hsp.1 hcl, ?_⟩
    rw [position_eq]
    exact chain_le hq.sorted (hq.toQueued e he hm)
  · rw [hq.noBelow]
    intro b hb
    simp at hb

end field

end Lyon.SweepSpan
