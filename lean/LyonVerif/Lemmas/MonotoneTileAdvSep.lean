/-
  C02 growth 3 (`Props/C02f.lean`), part 15: WHY the buffered chains of the advanced monotone
  tessellator are chord-clear — what `sides_are_close`, `reference_point` and
  `conservative_reference_x` guarantee in exact arithmetic.

  `Z3 seq l k a b` (side `a` on side `l`, `b` on the other side; `⊑` = "not further inside than",
  i.e. `≤` for the left side's x coordinates, `≥` for the right side's):
  * every buffered vertex of a chain has `x ⊑ refPt.x ⊑ consRefX`; `refPt.y` is the head's `y`;
  * every vertex of the OTHER side fed after a chain's head has `x` beyond (`⊒`) that other side's
    `consRefX` — the resets `consRefX := refPt.x` keep this because they happen exactly when the
    opposite chain restarts and every later vertex of this side is still buffered (`d5a`, `d5b`);
  * hence a vertex that is buffered WITHOUT a flush on a chain of ≥ 2 ids (sides not close:
    `left.consRefX ≤ right.consRefX`) leaves the chain chord-clear: a vertical line separates the
    chain from every opposite vertex fed since the chain's head (`chord_clear_of_sep`).
-/
import LyonVerif.Lemmas.MonotoneTileAdvRun

set_option linter.unusedSectionVars false
set_option linter.unusedVariables false
set_option linter.unusedSimpArgs false

namespace Lyon.C02f
open Lyon Lyon.Mono Lyon.C02 Lyon.C02c

section Geometry
variable {K : Type} [Field K] [LinearOrder K] [IsStrictOrderedRing K]

/-- `u` is not further inside than `v` for a chain on side `l` (left: `u ≤ v`, right: `v ≤ u`) -/
def leS (l : Bool) (u v : K) : Prop := if l then u ≤ v else v ≤ u

/-- the more inside of two x coordinates (left: `max`, right: `min`) -/
def mxS (l : Bool) (u v : K) : K := if l then max u v else min u v

theorem leS_refl (l : Bool) (u : K) : leS l u u := by cases l <;> simp [leS]
theorem leS_trans {l : Bool} {u v w : K} (h1 : leS l u v) (h2 : leS l v w) : leS l u w := by
  cases l <;> simp only [leS, if_true, Bool.false_eq_true, if_false] at * <;> linarith
theorem leS_not {l : Bool} {u v : K} : leS (!l) u v ↔ leS l v u := by cases l <;> simp [leS]
theorem leS_mx_left (l : Bool) (u v : K) : leS l u (mxS l u v) := by
  cases l <;> simp [leS, mxS]
theorem leS_mx_right (l : Bool) (u v : K) : leS l v (mxS l u v) := by
  cases l <;> simp [leS, mxS]
theorem mx_leS {l : Bool} {u v w : K} (h1 : leS l u w) (h2 : leS l v w) : leS l (mxS l u v) w := by
  cases l <;> simp only [leS, mxS, if_true, Bool.false_eq_true, if_false] at *
  · exact le_min h1 h2
  · exact max_le h1 h2

/-- a vertical line `x = M` between the two chain ends `h`, `v` and an opposite vertex `y` that
lies between them in sweep order: `y` is weakly on its own side of the chord `h → v` -/
theorem chord_clear_of_sep (l : Bool) {h y v : P K} {M : K} (hy1 : After y h) (hy2 : After v y)
    (hh : leS l h.x M) (hv : leS l v.x M) (hy : leS l M y.x) : 0 ≤ sg (!l) * wind h y v := by
  have e : wind h y v = (h.x - y.x) * (v.y - y.y) - (h.y - y.y) * (v.x - y.x) := by
    simp only [wind]; geom_ring
  have h1 : h.y ≤ y.y := by rcases hy1 with g | ⟨g, _⟩; exact g.le; exact g.ge
  have h2 : y.y ≤ v.y := by rcases hy2 with g | ⟨g, _⟩; exact g.le; exact g.ge
  rw [e]
  cases l
  · simp only [leS, Bool.false_eq_true, if_false] at hh hv hy
    simp only [sg, Bool.not_false, if_true, one_mul]
    have a1 : 0 ≤ (h.x - y.x) * (v.y - y.y) := mul_nonneg (by linarith) (by linarith)
    have a2 : (h.y - y.y) * (v.x - y.x) ≤ 0 := mul_nonpos_of_nonpos_of_nonneg (by linarith) (by linarith)
    linarith
  · simp only [leS, if_true] at hh hv hy
    simp only [sg, Bool.not_true, Bool.false_eq_true, if_false, neg_one_mul]
    have a1 : (h.x - y.x) * (v.y - y.y) ≤ 0 := mul_nonpos_of_nonpos_of_nonneg (by linarith) (by linarith)
    have a2 : 0 ≤ (h.y - y.y) * (v.x - y.x) := mul_nonneg_of_nonpos_of_nonpos (by linarith) (by linarith)
    linarith

theorem flushSide_some {α : Type} [Scalar α] (s : SideEv α) (r : Bool) (h : 2 ≤ s.events.length) :
    (flushSide s r).1 = { s with events := [s.last.id], prev := s.last.pos, refPt := s.last.pos } := by
  unfold flushSide
  have : ¬ s.events.length < 2 := by omega
  simp [this]

variable (seq : List (P K × Bool))

structure Z3 (l : Bool) (k : Nat) (a b : SideEv K) : Prop where
  ca : SideChain seq l k a
  cb : SideChain seq (!l) k b
  g1a : ∀ x ∈ a.events, leS l (posOf seq x).x a.refPt.x
  g1ac : leS l a.refPt.x a.consRefX
  g1b : ∀ x ∈ b.events, leS (!l) (posOf seq x).x b.refPt.x
  g1bc : leS (!l) b.refPt.x b.consRefX
  g2a : ∀ j, headId a < j → j < k → sideAt seq j = !l → leS (!l) (posOf seq j).x b.consRefX
  g2b : ∀ j, headId b < j → j < k → sideAt seq j = l → leS l (posOf seq j).x a.consRefX
  g5a : a.refPt.y = (posOf seq (headId a)).y
  g5b : b.refPt.y = (posOf seq (headId b)).y
  d5a : 2 ≤ a.events.length → ∀ j, a.last.id < j → j < k → sideAt seq j = !l → j ∈ b.events
  d5b : 2 ≤ b.events.length → ∀ j, b.last.id < j → j < k → sideAt seq j = l → j ∈ a.events
  ha : ChordClear seq l a
  hb : ChordClear seq (!l) b

theorem Z3.symm {l : Bool} {k : Nat} {a b : SideEv K} (h : Z3 seq l k a b) : Z3 seq (!l) k b a :=
  { ca := h.cb, cb := by rw [Bool.not_not]; exact h.ca, g1a := h.g1b, g1ac := h.g1bc,
    g1b := by rw [Bool.not_not]; exact h.g1a, g1bc := by rw [Bool.not_not]; exact h.g1ac,
    g2a := by rw [Bool.not_not]; exact h.g2b, g2b := h.g2a, g5a := h.g5b, g5b := h.g5a,
    d5a := by rw [Bool.not_not]; exact h.d5b, d5b := h.d5a, ha := h.hb, hb := by rw [Bool.not_not]; exact h.ha }

/-- the other side `b` is flushed (its end comes before the end of side `a`) -/
theorem flushOpp_z (hval : SweepValid seq) (tess : Basic K) (a b : SideEv K) (l : Bool) (k : Nat)
    (hk : k ≤ seq.length) (h : Z3 seq l k a b) (haft : After a.last.pos b.last.pos) :
    Z3 seq l k (flushOpp tess a b l).2.1 (flushOpp tess a b l).2.2 ∧
      (flushOpp tess a b l).2.1.events = a.events ∧ (flushOpp tess a b l).2.1.last = a.last ∧
      (flushOpp tess a b l).2.1.refPt = a.refPt ∧
      (flushOpp tess a b l).2.2.last = b.last ∧ (flushOpp tess a b l).2.2.events.length < 2 := by
  unfold flushOpp
  rcases flushSide_cases b l with ⟨hl, e⟩ | ⟨hl, e1, e2, e3, e4⟩
  · rw [e]; exact ⟨h, rfl, rfl, rfl, rfl, hl⟩
  · rw [e4]
    have hfs := flushSide_some b l hl
    obtain ⟨hm, hhl⟩ := h.cb.last_tail seq hl
    have hbn : b.last.id < seq.length := by have := h.cb.lt _ (h.cb.last_mem seq); omega
    have han : a.last.id < seq.length := by have := h.ca.lt _ (h.ca.last_mem seq); omega
    have hlt : b.last.id < a.last.id := by
      have ha := h.ca.good
      have hb := h.cb.good
      unfold Good at ha hb
      rw [ha, hb] at haft
      exact id_lt_of_after seq hval han hbn haft
    have hhb : headId (flushSide b l).1 = b.last.id := by simp [headId, e1]
    have hbg : b.last.pos = posOf seq b.last.id := h.cb.good
    have hz : Z3 seq l k { a with consRefX := a.refPt.x } (flushSide b l).1 :=
      { ca := h.ca.congr seq rfl rfl
        cb := h.cb.restart seq hl e1 e2
        g1a := h.g1a
        g1ac := leS_refl _ _
        g1b := by
          intro x hx
          rw [e1, List.mem_singleton] at hx
          rw [hx, hfs, ← hbg]
          exact leS_refl _ _
        g1bc := by
          rw [hfs]
          show leS (!l) b.last.pos.x b.consRefX
          rw [hbg]
          exact leS_trans (h.g1b _ (h.cb.last_mem seq)) h.g1bc
        g2a := by
          rw [hfs]
          exact h.g2a
        g2b := by
          intro j hj1 hj2 hjs
          rw [hhb] at hj1
          exact h.g1a j (h.d5b hl j hj1 hj2 hjs)
        g5a := h.g5a
        g5b := by
          rw [hhb, hfs, ← hbg]
        d5a := by
          intro h2 j hj1 hj2 hjs
          exfalso
          have := h.cb.le_last seq j (h.d5a h2 j hj1 hj2 hjs)
          have hj1' : a.last.id < j := hj1
          omega
        d5b := by
          intro h2
          rw [e1] at h2
          simp at h2
        ha := h.ha.congr seq rfl rfl
        hb := ChordClear.short seq (by rw [e1]; simp) }
    exact ⟨hz, rfl, rfl, rfl, e2, by show (flushSide b l).1.events.length < 2; rw [e1]; simp⟩

/-- the side `a` that receives the next vertex `p` is flushed -/
theorem flushOwn_z (tess : Basic K) (a b : SideEv K) (p : P K) (l : Bool) (k : Nat)
    (h : Z3 seq l k a b) (hpx : leS l p.x a.refPt.x)
    (hord : 2 ≤ b.events.length → a.last.id < b.last.id) :
    Z3 seq l k (flushOwn tess a b p l).2.1 (flushOwn tess a b p l).2.2 ∧
      (flushOwn tess a b p l).2.1.events.length < 2 ∧ (flushOwn tess a b p l).2.1.last = a.last ∧
      leS l p.x (flushOwn tess a b p l).2.1.refPt.x := by
  unfold flushOwn
  rcases flushSide_cases a (!l) with ⟨hl, e⟩ | ⟨hl, e1, e2, e3, e4⟩
  · rw [e]; exact ⟨h, hl, rfl, hpx⟩
  · rw [e4]
    have hfs := flushSide_some a (!l) hl
    obtain ⟨hm, hhl⟩ := h.ca.last_tail seq hl
    have r1 : (reRef (flushSide a !l).1 p l).events = [a.last.id] := e1
    have r2 : (reRef (flushSide a !l).1 p l).last = a.last := e2
    have hha : headId (reRef (flushSide a !l).1 p l) = a.last.id := by simp [headId, r1]
    have hag : a.last.pos = posOf seq a.last.id := h.ca.good
    have hrx : (reRef (flushSide a !l).1 p l).refPt.x = mxS l a.last.pos.x p.x := by
      rw [hfs]; cases l <;> simp [reRef, mxS, geom]
    have hry : (reRef (flushSide a !l).1 p l).refPt.y = a.last.pos.y := by
      rw [hfs]; rfl
    have hrc : (reRef (flushSide a !l).1 p l).consRefX = a.consRefX := by
      rw [hfs]; rfl
    have hz : Z3 seq l k (reRef (flushSide a !l).1 p l) { b with consRefX := b.refPt.x } :=
      { ca := h.ca.restart seq hl r1 r2
        cb := h.cb.congr seq rfl rfl
        g1a := by
          intro x hx
          rw [r1, List.mem_singleton] at hx
          rw [hx, hrx, ← hag]
          exact leS_mx_left _ _ _
        g1ac := by
          rw [hrx, hrc]
          refine mx_leS ?_ (leS_trans hpx h.g1ac)
          rw [hag]
          exact leS_trans (h.g1a _ (h.ca.last_mem seq)) h.g1ac
        g1b := h.g1b
        g1bc := leS_refl _ _
        g2a := by
          intro j hj1 hj2 hjs
          rw [hha] at hj1
          exact h.g1b j (h.d5a hl j hj1 hj2 hjs)
        g2b := by
          intro j hj1 hj2 hjs
          rw [hrc]
          exact h.g2b j hj1 hj2 hjs
        g5a := by rw [hha, hry, ← hag]
        g5b := h.g5b
        d5a := by
          intro h2
          rw [r1] at h2
          simp at h2
        d5b := by
          intro h2 j hj1 hj2 hjs
          exfalso
          have := h.ca.le_last seq j (h.d5b h2 j hj1 hj2 hjs)
          have := hord h2
          have hj1' : b.last.id < j := hj1
          omega
        ha := ChordClear.short seq (by rw [r1]; simp)
        hb := h.hb.congr seq rfl rfl }
    refine ⟨hz, by show (reRef (flushSide a !l).1 p l).events.length < 2; rw [r1]; simp, r2, ?_⟩
    show leS l p.x (reRef (flushSide a !l).1 p l).refPt.x
    rw [hrx]; exact leS_mx_right _ _ _

/-- buffering the vertex `k` on side `a` -/
theorem push_z (a b : SideEv K) (p : P K) (l : Bool) (k : Nat) (h : Z3 seq l k a b) (hp : posOf seq k = p)
    (hs : sideAt seq k = l) (hpx : leS l p.x a.refPt.x) (hch : ChordClear seq l (a.push ⟨p, k, l⟩)) :
    Z3 seq l (k + 1) (a.push ⟨p, k, l⟩) b := by
  have hnl : sideAt seq k ≠ !l := by rw [hs]; cases l <;> simp
  have hhead := headId_push a ⟨p, k, l⟩ h.ca.ne
  exact
    { ca := h.ca.push seq p hp hs
      cb := h.cb.mono seq hnl
      g1a := by
        intro x hx
        simp only [SideEv.push, List.mem_append, List.mem_singleton] at hx
        rcases hx with g | g
        · exact h.g1a x g
        · rw [g, hp]; exact hpx
      g1ac := h.g1ac
      g1b := h.g1b
      g1bc := h.g1bc
      g2a := by
        intro j hj1 hj2 hjs
        rw [hhead] at hj1
        have : j ≠ k := fun e => hnl (e ▸ hjs)
        exact h.g2a j hj1 (by omega) hjs
      g2b := by
        intro j hj1 hj2 hjs
        by_cases e : j = k
        · rw [e, hp]; exact leS_trans hpx h.g1ac
        · exact h.g2b j hj1 (by omega) hjs
      g5a := by rw [hhead]; exact h.g5a
      g5b := h.g5b
      d5a := by
        intro _ j hj1 hj2 _
        have hj1' : k < j := hj1
        omega
      d5b := by
        intro h2 j hj1 hj2 hjs
        simp only [SideEv.push, List.mem_append, List.mem_singleton]
        by_cases e : j = k
        · exact Or.inr e
        · exact Or.inl (h.d5b h2 j hj1 (by omega) hjs)
      ha := hch
      hb := h.hb }

end Geometry

end Lyon.C02f
