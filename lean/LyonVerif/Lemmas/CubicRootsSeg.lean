/-
  `CubicBezierSegment::line_segment_intersections_t` after the root finder: the bounding-box
  early-out and the filter `segFilter` (major-axis range test, second parameter
  `|p − from| / |to − from|`, end-point rejection), over an ordered field.  Helper lemmas; the
  theorems are in `Props/C12d.lean`.

  * `range1d`                 `a + u(b−a) ∈ [min a b, max a b] ⟺ u ∈ [0,1]`           (a ≠ b)
  * `cubic_in_fastBox`        `t ∈ [0,1]`: the curve point is inside `fast_bounding_box`
  * `seg_in_box`              `u ∈ [0,1]`: the segment point is inside `bounding_box`
  * `boxes_intersect_of_common_point`   the inflated boxes intersect (strictly) when there is a
                              common point and `EPSILON > 0`: the early-out is not taken
  * `carrier_param`           a point on the carrier line of a non-degenerate segment is
                              `from + u·(to − from)` for `u = (p − from)·(to − from)/|to − from|²`
  * `seg_range_iff`           … and passes the major-axis range test iff `u ∈ [0,1]`
  * `seg_t2_eq`               … and the second parameter the code computes is `u` (for `u ≥ 0`)
  * `mem_segFilter`           membership in the filter's result
-/
import LyonVerif.Props.C12

set_option linter.unusedSectionVars false
set_option linter.unusedVariables false

namespace Lyon.CubicRoots
open Lyon Scalar Lyon.Ix Lyon.C12
variable {K : Type} [Field K] [LinearOrder K] [IsStrictOrderedRing K]

theorem range1d (a b u : K) (hab : a ≠ b) :
    (a + u * (b - a) ≥ (ixMinMax a b).1 ∧ a + u * (b - a) ≤ (ixMinMax a b).2) ↔ (0 ≤ u ∧ u ≤ 1) := by
  unfold ixMinMax
  rcases lt_or_gt_of_ne hab with h | h
  · rw [if_pos h]
    have hp : 0 < b - a := sub_pos.mpr h
    constructor
    · rintro ⟨h1, h2⟩
      constructor
      · by_contra hn; rw [not_le] at hn
        have := mul_neg_of_neg_of_pos hn hp
        simp only [ge_iff_le] at h1; linarith
      · by_contra hn; rw [not_le] at hn
        have := mul_pos (sub_pos.mpr hn) hp
        simp only at h2; nlinarith
    · rintro ⟨h1, h2⟩
      have := mul_nonneg h1 hp.le
      have := mul_nonneg (sub_nonneg.mpr h2) hp.le
      constructor
      · simp only [ge_iff_le]; linarith
      · simp only; nlinarith
  · rw [if_neg (not_lt.mpr h.le)]
    have hp : 0 < a - b := sub_pos.mpr h
    constructor
    · rintro ⟨h1, h2⟩
      constructor
      · by_contra hn; rw [not_le] at hn
        have := mul_neg_of_neg_of_pos hn hp
        simp only at h2; nlinarith
      · by_contra hn; rw [not_le] at hn
        have := mul_pos (sub_pos.mpr hn) hp
        simp only [ge_iff_le] at h1; nlinarith
    · rintro ⟨h1, h2⟩
      have := mul_nonneg h1 hp.le
      have := mul_nonneg (sub_nonneg.mpr h2) hp.le
      constructor
      · simp only [ge_iff_le]; nlinarith
      · simp only; nlinarith

/-- without the hypothesis `a ≠ b`: parameters in `[0,1]` stay in the range -/
theorem range1d_of_unit (a b u : K) (h0 : 0 ≤ u) (h1 : u ≤ 1) :
    (ixMinMax a b).1 ≤ a + u * (b - a) ∧ a + u * (b - a) ≤ (ixMinMax a b).2 := by
  by_cases hab : a = b
  · subst hab
    unfold ixMinMax
    rw [if_neg (lt_irrefl a), sub_self, mul_zero, add_zero]
    exact ⟨le_refl _, le_refl _⟩
  · exact (range1d a b u hab).mpr ⟨h0, h1⟩

/-- a Bernstein combination lies between any bounds of its four coefficients -/
theorem bernstein_between (x0 x1 x2 x3 t lo hi : K) (h0 : 0 ≤ t) (h1 : t ≤ 1)
    (l0 : lo ≤ x0) (l1 : lo ≤ x1) (l2 : lo ≤ x2) (l3 : lo ≤ x3)
    (u0 : x0 ≤ hi) (u1 : x1 ≤ hi) (u2 : x2 ≤ hi) (u3 : x3 ≤ hi) :
    lo ≤ x0 * ((1 - t) * (1 - t) * (1 - t)) + x1 * 3 * ((1 - t) * (1 - t)) * t + x2 * 3 * (1 - t) * (t * t)
        + x3 * (t * t * t)
    ∧ x0 * ((1 - t) * (1 - t) * (1 - t)) + x1 * 3 * ((1 - t) * (1 - t)) * t + x2 * 3 * (1 - t) * (t * t)
        + x3 * (t * t * t) ≤ hi := by
  have hs : 0 ≤ 1 - t := sub_nonneg.mpr h1
  have b0 : 0 ≤ (1 - t) * (1 - t) * (1 - t) := mul_nonneg (mul_nonneg hs hs) hs
  have b1 : 0 ≤ 3 * ((1 - t) * (1 - t)) * t := mul_nonneg (mul_nonneg (by norm_num) (mul_nonneg hs hs)) h0
  have b2 : 0 ≤ 3 * (1 - t) * (t * t) := mul_nonneg (mul_nonneg (by norm_num) hs) (mul_nonneg h0 h0)
  have b3 : 0 ≤ t * t * t := mul_nonneg (mul_nonneg h0 h0) h0
  constructor
  · have := mul_nonneg b0 (sub_nonneg.mpr l0)
    have := mul_nonneg b1 (sub_nonneg.mpr l1)
    have := mul_nonneg b2 (sub_nonneg.mpr l2)
    have := mul_nonneg b3 (sub_nonneg.mpr l3)
    nlinarith
  · have := mul_nonneg b0 (sub_nonneg.mpr u0)
    have := mul_nonneg b1 (sub_nonneg.mpr u1)
    have := mul_nonneg b2 (sub_nonneg.mpr u2)
    have := mul_nonneg b3 (sub_nonneg.mpr u3)
    nlinarith

theorem cubic_x_eq (c : Cubic K) (t : K) : c.x t = (c.sample t).x := by
  simp only [geom, Nat.cast_one, Nat.cast_ofNat]

theorem cubic_y_eq (c : Cubic K) (t : K) : c.y t = (c.sample t).y := by
  simp only [geom, Nat.cast_one, Nat.cast_ofNat]

/-- `t ∈ [0,1]`: the curve point is in the box of the control points -/
theorem cubic_in_fastBox (c : Cubic K) (t : K) (h0 : 0 ≤ t) (h1 : t ≤ 1) :
    c.ixFastBoundingBox.min.x ≤ (c.sample t).x ∧ (c.sample t).x ≤ c.ixFastBoundingBox.max.x
    ∧ c.ixFastBoundingBox.min.y ≤ (c.sample t).y ∧ (c.sample t).y ≤ c.ixFastBoundingBox.max.y := by
  have ex : (c.sample t).x = c.a.x * ((1 - t) * (1 - t) * (1 - t)) + c.c1.x * 3 * ((1 - t) * (1 - t)) * t
      + c.c2.x * 3 * (1 - t) * (t * t) + c.b.x * (t * t * t) := by
    simp only [geom, Nat.cast_one, Nat.cast_ofNat]
  have ey : (c.sample t).y = c.a.y * ((1 - t) * (1 - t) * (1 - t)) + c.c1.y * 3 * ((1 - t) * (1 - t)) * t
      + c.c2.y * 3 * (1 - t) * (t * t) + c.b.y * (t * t * t) := by
    simp only [geom, Nat.cast_one, Nat.cast_ofNat]
  unfold Cubic.ixFastBoundingBox
  simp only [sc_min, sc_max]
  rw [ex, ey]
  obtain ⟨hx1, hx2⟩ := bernstein_between c.a.x c.c1.x c.c2.x c.b.x t
    _ _ h0 h1
    (le_trans (min_le_left _ _) (le_trans (min_le_left _ _) (min_le_left _ _)))
    (le_trans (min_le_left _ _) (le_trans (min_le_left _ _) (min_le_right _ _)))
    (le_trans (min_le_left _ _) (min_le_right _ _)) (min_le_right _ _)
    (le_trans (le_trans (le_max_left _ _) (le_max_left _ _)) (le_max_left _ _))
    (le_trans (le_trans (le_max_right _ _) (le_max_left _ _)) (le_max_left _ _))
    (le_trans (le_max_right _ _) (le_max_left _ _)) (le_max_right _ _)
  obtain ⟨hy1, hy2⟩ := bernstein_between c.a.y c.c1.y c.c2.y c.b.y t
    _ _ h0 h1
    (le_trans (min_le_left _ _) (le_trans (min_le_left _ _) (min_le_left _ _)))
    (le_trans (min_le_left _ _) (le_trans (min_le_left _ _) (min_le_right _ _)))
    (le_trans (min_le_left _ _) (min_le_right _ _)) (min_le_right _ _)
    (le_trans (le_trans (le_max_left _ _) (le_max_left _ _)) (le_max_left _ _))
    (le_trans (le_trans (le_max_right _ _) (le_max_left _ _)) (le_max_left _ _))
    (le_trans (le_max_right _ _) (le_max_left _ _)) (le_max_right _ _)
  exact ⟨hx1, hx2, hy1, hy2⟩

theorem seg_sample_x (s : Seg K) (u : K) : (s.sample u).x = s.a.x + u * (s.b.x - s.a.x) := by
  simp only [geom, Nat.cast_one]; ring

theorem seg_sample_y (s : Seg K) (u : K) : (s.sample u).y = s.a.y + u * (s.b.y - s.a.y) := by
  simp only [geom, Nat.cast_one]; ring

/-- `u ∈ [0,1]`: the segment point is in the segment's bounding box -/
theorem seg_in_box (s : Seg K) (u : K) (h0 : 0 ≤ u) (h1 : u ≤ 1) :
    s.ixBoundingBox.min.x ≤ (s.sample u).x ∧ (s.sample u).x ≤ s.ixBoundingBox.max.x
    ∧ s.ixBoundingBox.min.y ≤ (s.sample u).y ∧ (s.sample u).y ≤ s.ixBoundingBox.max.y := by
  rw [seg_sample_x, seg_sample_y]
  obtain ⟨a1, a2⟩ := range1d_of_unit s.a.x s.b.x u h0 h1
  obtain ⟨b1, b2⟩ := range1d_of_unit s.a.y s.b.y u h0 h1
  exact ⟨a1, a2, b1, b2⟩

/-- the early-out of `line_segment_intersections_t` is not taken when the curve (at a parameter of
`[0,1]`) and the segment (at a parameter of `[0,1]`) have a common point and `EPSILON > 0` -/
theorem boxes_intersect_of_common_point (ε : K) (hε : 0 < ε) (c : Cubic K) (s : Seg K) (t u : K)
    (ht0 : 0 ≤ t) (ht1 : t ≤ 1) (hu0 : 0 ≤ u) (hu1 : u ≤ 1) (hp : c.sample t = s.sample u) :
    (c.ixFastBoundingBox.inflate ε ε).intersects (s.ixBoundingBox.inflate ε ε) = true := by
  obtain ⟨c1, c2, c3, c4⟩ := cubic_in_fastBox c t ht0 ht1
  obtain ⟨s1, s2, s3, s4⟩ := seg_in_box s u hu0 hu1
  rw [hp] at c1 c2 c3 c4
  unfold IxBox.intersects IxBox.inflate
  simp only [Bool.and_eq_true, decide_eq_true_eq]
  refine ⟨⟨⟨?_, ?_⟩, ?_⟩, ?_⟩
  · show c.ixFastBoundingBox.min.x - ε < s.ixBoundingBox.max.x + ε
    linarith
  · show c.ixFastBoundingBox.max.x + ε > s.ixBoundingBox.min.x - ε
    linarith
  · show c.ixFastBoundingBox.min.y - ε < s.ixBoundingBox.max.y + ε
    linarith
  · show c.ixFastBoundingBox.max.y + ε > s.ixBoundingBox.min.y - ε
    linarith

/-- a point on the carrier line of a non-degenerate segment, written with its parameter -/
theorem carrier_param (s : Seg K) (p : P K) (hab : s.a ≠ s.b)
    (hon : s.toVector.cross (p - s.a) = 0) :
    p = s.sample ((p - s.a).dot s.toVector / s.toVector.sqLen) := by
  have hL : s.toVector.sqLen ≠ 0 := by
    intro h
    apply hab
    have e : (s.b.x - s.a.x) * (s.b.x - s.a.x) + (s.b.y - s.a.y) * (s.b.y - s.a.y) = 0 := by
      simpa only [geom] using h
    have hx : s.b.x - s.a.x = 0 := by
      have := mul_self_nonneg (s.b.y - s.a.y); have h2 := mul_self_nonneg (s.b.x - s.a.x)
      exact mul_self_eq_zero.mp (by linarith)
    have hy : s.b.y - s.a.y = 0 := by
      have := mul_self_nonneg (s.b.x - s.a.x); have h2 := mul_self_nonneg (s.b.y - s.a.y)
      exact mul_self_eq_zero.mp (by linarith)
    exact P.ext' (by linarith) (by linarith)
  have hon' : (s.b.x - s.a.x) * (p.y - s.a.y) - (s.b.y - s.a.y) * (p.x - s.a.x) = 0 := by
    simpa only [geom] using hon
  have hL' : (s.b.x - s.a.x) * (s.b.x - s.a.x) + (s.b.y - s.a.y) * (s.b.y - s.a.y) ≠ 0 := by
    simpa only [geom] using hL
  have hu : (p - s.a).dot s.toVector / s.toVector.sqLen * s.toVector.sqLen = (p - s.a).dot s.toVector :=
    div_mul_cancel₀ _ hL
  set u := (p - s.a).dot s.toVector / s.toVector.sqLen
  have hu' : u * ((s.b.x - s.a.x) * (s.b.x - s.a.x) + (s.b.y - s.a.y) * (s.b.y - s.a.y))
      = (p.x - s.a.x) * (s.b.x - s.a.x) + (p.y - s.a.y) * (s.b.y - s.a.y) := by
    simpa only [geom] using hu
  apply P.ext'
  · rw [seg_sample_x]
    apply mul_right_cancel₀ hL'
    linear_combination (-(s.b.y - s.a.y)) * hon' - (s.b.x - s.a.x) * hu'
  · rw [seg_sample_y]
    apply mul_right_cancel₀ hL'
    linear_combination (s.b.x - s.a.x) * hon' - (s.b.y - s.a.y) * hu'

section filter
variable [Transc K]

/-- membership in the result of the filter, spelled out -/
theorem mem_segFilter (cx cy : K → K) (cs : K → P K) (s : Seg K) (ts : List K) (t u : K) :
    (t, u) ∈ segFilter cx cy cs s ts ↔
      t ∈ ts
      ∧ ((if |s.a.y - s.b.y| ≥ |s.a.x - s.b.x| then cy t else cx t)
            ≥ (if |s.a.y - s.b.y| ≥ |s.a.x - s.b.x| then s.ixBoundingRangeY else s.ixBoundingRangeX).1
          ∧ (if |s.a.y - s.b.y| ≥ |s.a.x - s.b.x| then cy t else cx t)
            ≤ (if |s.a.y - s.b.y| ≥ |s.a.x - s.b.x| then s.ixBoundingRangeY else s.ixBoundingRangeX).2)
      ∧ u = Transc.sqrt (cs t - s.a).sqLen / s.length
      ∧ ((t ≠ 0 ∧ t ≠ 1) ∨ (u ≠ 0 ∧ u ≠ 1)) := by
  unfold segFilter
  simp only [List.mem_filterMap, sc_abs]
  by_cases hv : |s.a.y - s.b.y| ≥ |s.a.x - s.b.x|
  · simp only [hv, decide_true, if_true]
    constructor
    · rintro ⟨t', ht', h⟩
      split at h
      next hr =>
        split at h
        next he =>
          simp only [Option.some.injEq, Prod.mk.injEq] at h
          obtain ⟨rfl, rfl⟩ := h
          refine ⟨ht', hr, rfl, ?_⟩
          simpa [sc_beq, Scalar.zero, Scalar.one] using he
        next => cases h
      next => cases h
    · rintro ⟨ht, hr, hu, he⟩
      refine ⟨t, ht, ?_⟩
      rw [if_pos hr, if_pos]
      · rw [hu]
      · rw [← hu]; simpa [sc_beq, Scalar.zero, Scalar.one] using he
  · simp only [hv, decide_false, if_false, Bool.false_eq_true]
    constructor
    · rintro ⟨t', ht', h⟩
      split at h
      next hr =>
        split at h
        next he =>
          simp only [Option.some.injEq, Prod.mk.injEq] at h
          obtain ⟨rfl, rfl⟩ := h
          refine ⟨ht', hr, rfl, ?_⟩
          simpa [sc_beq, Scalar.zero, Scalar.one] using he
        next => cases h
      next => cases h
    · rintro ⟨ht, hr, hu, he⟩
      refine ⟨t, ht, ?_⟩
      rw [if_pos hr, if_pos]
      · rw [hu]
      · rw [← hu]; simpa [sc_beq, Scalar.zero, Scalar.one] using he

/-- a point `from + u·(to − from)` of the carrier line passes the major-axis range test iff
`u ∈ [0,1]` -/
theorem seg_range_iff (s : Seg K) (hab : s.a ≠ s.b) (p : P K) (u : K) (hp : p = s.sample u) :
    ((if |s.a.y - s.b.y| ≥ |s.a.x - s.b.x| then p.y else p.x)
        ≥ (if |s.a.y - s.b.y| ≥ |s.a.x - s.b.x| then s.ixBoundingRangeY else s.ixBoundingRangeX).1
      ∧ (if |s.a.y - s.b.y| ≥ |s.a.x - s.b.x| then p.y else p.x)
        ≤ (if |s.a.y - s.b.y| ≥ |s.a.x - s.b.x| then s.ixBoundingRangeY else s.ixBoundingRangeX).2)
    ↔ (0 ≤ u ∧ u ≤ 1) := by
  by_cases hv : |s.a.y - s.b.y| ≥ |s.a.x - s.b.x|
  · simp only [hv, if_true]
    have hy : s.a.y ≠ s.b.y := by
      intro h
      rw [h, sub_self, abs_zero] at hv
      have hx : s.a.x = s.b.x := sub_eq_zero.mp (abs_eq_zero.mp (le_antisymm hv (abs_nonneg _)))
      exact hab (P.ext' hx h)
    rw [hp, seg_sample_y]
    exact range1d s.a.y s.b.y u hy
  · simp only [hv, if_false]
    have hx : s.a.x ≠ s.b.x := by
      intro h
      apply hv
      rw [h, sub_self, abs_zero]
      exact abs_nonneg _
    rw [hp, seg_sample_x]
    exact range1d s.a.x s.b.x u hx

/-- `sqrt(k²·L) = k·sqrt L` for `k, L ≥ 0` (as `C12.sqrt_mul_sq`, without its `Eps` parameter) -/
theorem sqrt_mul_sq_of (hs0 : ∀ x : K, 0 ≤ x → 0 ≤ Transc.sqrt x)
    (hsq : ∀ x : K, 0 ≤ x → Transc.sqrt x * Transc.sqrt x = x) (k L : K) (hk : 0 ≤ k) (hL : 0 ≤ L) :
    Transc.sqrt (k * k * L) = k * Transc.sqrt L := by
  have hkL : 0 ≤ k * k * L := mul_nonneg (mul_nonneg hk hk) hL
  have h1 := hsq _ hkL
  have h2 := hsq _ hL
  have ha := hs0 _ hkL
  have hb : 0 ≤ k * Transc.sqrt L := mul_nonneg hk (hs0 _ hL)
  have : (Transc.sqrt (k * k * L)) ^ 2 = (k * Transc.sqrt L) ^ 2 := by
    rw [pow_two, h1, mul_pow, pow_two (Transc.sqrt L), h2]; ring
  exact (sq_eq_sq₀ ha hb).mp this

/-- the second parameter the code computes, `|p − from| / |to − from|`, is the carrier parameter
`u` of `p` when `u ≥ 0` -/
theorem seg_t2_eq (hs0 : ∀ x : K, 0 ≤ x → 0 ≤ Transc.sqrt x)
    (hsq : ∀ x : K, 0 ≤ x → Transc.sqrt x * Transc.sqrt x = x)
    (s : Seg K) (hab : s.a ≠ s.b) (p : P K) (u : K) (hp : p = s.sample u) (hu : 0 ≤ u) :
    Transc.sqrt (p - s.a).sqLen / s.length = u := by
  have hL0 : 0 ≤ s.toVector.sqLen := by
    simp only [P.sqLen]; exact add_nonneg (mul_self_nonneg _) (mul_self_nonneg _)
  have e : (p - s.a).sqLen = u * u * s.toVector.sqLen := by
    rw [hp]; simp only [geom, Nat.cast_one]; ring
  have hlen : s.length ≠ 0 := by
    intro h
    unfold Seg.length at h
    have h2 := hsq _ hL0
    rw [h, mul_zero] at h2
    apply hab
    have e' : (s.b.x - s.a.x) * (s.b.x - s.a.x) + (s.b.y - s.a.y) * (s.b.y - s.a.y) = 0 := by
      simpa only [geom] using h2.symm
    have hx : s.b.x - s.a.x = 0 := by
      have := mul_self_nonneg (s.b.y - s.a.y); have h3 := mul_self_nonneg (s.b.x - s.a.x)
      exact mul_self_eq_zero.mp (by linarith)
    have hy : s.b.y - s.a.y = 0 := by
      have := mul_self_nonneg (s.b.x - s.a.x); have h3 := mul_self_nonneg (s.b.y - s.a.y)
      exact mul_self_eq_zero.mp (by linarith)
    exact P.ext' (by linarith) (by linarith)
  rw [e, sqrt_mul_sq_of hs0 hsq u _ hu hL0]
  unfold Seg.length at hlen ⊢
  exact mul_div_cancel_right₀ u hlen

end filter

end Lyon.CubicRoots
