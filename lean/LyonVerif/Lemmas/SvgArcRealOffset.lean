/-
  C13 — the numeric step of the angular-offset bound for quadratic pieces (helper lemmas for
  `Props/C13e.lean`): `tan x ≤ 1.06·x` on `[0, π/8]` (`sin_le_mul_cos_real`, from Mathlib's
  `Real.sin_bound` and `1 − x²/2 ≤ cos x`), `4 sin δ ≥ 0.94·δ·(3 + cos δ)` on `[0, π/4]`
  (`rate_lower_real`, from `sin_gt_sub_cube` and `Real.cos_bound`), and hence
  `|θ'(t) − δ| ≤ 0.06·δ` for the angular velocity of `Props/C13d.lean` (`quad_rate_bounds_real`).
-/
import LyonVerif.Props.C13d

set_option linter.unusedSectionVars false
set_option linter.unusedVariables false
set_option linter.unusedSimpArgs false

namespace Lyon.C13
open Lyon Scalar ArcConv

theorem pi_div_eight_le : Real.pi / 8 ≤ 3927 / 10000 := by
  have := Real.pi_lt_d4
  norm_num at this ⊢
  linarith

/-- `sin x ≤ 1.06·x·cos x` (i.e. `tan x ≤ 1.06 x`) for `0 ≤ x ≤ π/8` -/
theorem sin_le_mul_cos_real (x : ℝ) (h0 : 0 ≤ x) (h1 : x ≤ Real.pi / 8) :
    Real.sin x ≤ 106 / 100 * x * Real.cos x := by
  have hx : x ≤ 3927 / 10000 := le_trans h1 pi_div_eight_le
  have hab : |x| ≤ 1 := by rw [abs_of_nonneg h0]; linarith
  have hs := (abs_le.mp (Real.sin_bound hab)).2
  rw [abs_of_nonneg h0] at hs
  have hc := Real.one_sub_sq_div_two_le_cos (x := x)
  have hx2 : x ^ 2 ≤ 15422 / 100000 := by nlinarith
  have hx4 : x ^ 4 ≤ 15422 / 100000 := by
    have : x ^ 4 = x ^ 2 * x ^ 2 := by ring
    rw [this]; nlinarith [sq_nonneg x]
  -- sin x ≤ x − x³/6 + x⁵/100 ≤ 1.06·x·(1 − x²/2) ≤ 1.06·x·cos x
  have key : x - x ^ 3 / 6 + x ^ 5 / 100 ≤ 106 / 100 * x * (1 - x ^ 2 / 2) := by
    have e : 106 / 100 * x * (1 - x ^ 2 / 2) - (x - x ^ 3 / 6 + x ^ 5 / 100)
        = x * (6 / 100 - (53 / 100 - 1 / 6) * x ^ 2 - x ^ 4 / 100) := by ring
    have hp : 0 ≤ 6 / 100 - (53 / 100 - 1 / 6) * x ^ 2 - x ^ 4 / 100 := by nlinarith
    nlinarith [mul_nonneg h0 hp]
  have hmono : 106 / 100 * x * (1 - x ^ 2 / 2) ≤ 106 / 100 * x * Real.cos x :=
    mul_le_mul_of_nonneg_left hc (by positivity)
  linarith

/-- `0.94·δ·(3 + cos δ) ≤ 4 sin δ` for `0 ≤ δ ≤ π/4` -/
theorem rate_lower_real (d : ℝ) (h0 : 0 ≤ d) (h1 : d ≤ Real.pi / 4) :
    94 / 100 * d * (3 + Real.cos d) ≤ 4 * Real.sin d := by
  rcases eq_or_lt_of_le h0 with h | hpos
  · rw [← h]; simp
  have hd : d ≤ 7854 / 10000 := by
    have := pi_div_eight_le; linarith
  have hab : |d| ≤ 1 := by rw [abs_of_pos hpos]; linarith
  have hs := Real.sin_gt_sub_cube hpos
  have hc := (abs_le.mp (Real.cos_bound hab)).2
  rw [abs_of_pos hpos] at hc
  have hd2 : d ^ 2 ≤ 6169 / 10000 := by nlinarith
  have hd4 : d ^ 4 ≤ 6169 / 10000 := by
    have : d ^ 4 = d ^ 2 * d ^ 2 := by ring
    rw [this]; nlinarith [sq_nonneg d]
  have hcos : 3 + Real.cos d ≤ 4 - d ^ 2 / 2 + d ^ 4 * (5 / 96) := by linarith
  have step1 : 94 / 100 * d * (3 + Real.cos d) ≤ 94 / 100 * d * (4 - d ^ 2 / 2 + d ^ 4 * (5 / 96)) :=
    mul_le_mul_of_nonneg_left hcos (by positivity)
  have key : 94 / 100 * d * (4 - d ^ 2 / 2 + d ^ 4 * (5 / 96)) ≤ 4 * (d - d ^ 3 / 6) := by
    have e : 4 * (d - d ^ 3 / 6) - 94 / 100 * d * (4 - d ^ 2 / 2 + d ^ 4 * (5 / 96))
        = d * (24 / 100 - (2 / 3 - 47 / 100) * d ^ 2 - (94 / 100 * (5 / 96)) * d ^ 4) := by ring
    have hp : 0 ≤ 24 / 100 - (2 / 3 - 47 / 100) * d ^ 2 - (94 / 100 * (5 / 96)) * d ^ 4 := by nlinarith
    nlinarith [mul_nonneg h0 hp]
  linarith

/-- **the angular velocity of a quadratic piece stays within 6 % of the arc's**: for `0 ≤ δ ≤ π/4`,
`t ∈ [0,1]`: `|θ'(t) − δ| ≤ 0.06·δ` -/
theorem quad_rate_bounds_real (d t : ℝ) (h0 : 0 ≤ d) (h1 : d ≤ Real.pi / 4) (ht0 : 0 ≤ t) (ht1 : t ≤ 1) :
    |2 * Real.tan (d * Scalar.half) * (1 - 2 * (Real.sin (d / 2) * Real.sin (d / 2)) * (t * (1 - t)))
        / (1 + (2 * Real.sin (d / 2) * Real.tan (d * Scalar.half) * (t * (1 - t))) ^ 2) - d|
      ≤ 6 / 100 * d := by
  have hpi := Real.pi_pos
  have hdabs : |d| ≤ Real.pi / 4 := by rw [abs_of_nonneg h0]; exact h1
  obtain ⟨hu, hcos, hsin, htan, hcp, _⟩ := half_angle_real d hdabs
  have hU := sin_le_mul_cos_real (d / 2) (by linarith) (by linarith)
  have hL := rate_lower_real d h0 h1
  have hs0 : 0 ≤ Real.sin (d / 2) := Real.sin_nonneg_of_nonneg_of_le_pi (by linarith) (by linarith)
  generalize Real.tan (d * Scalar.half) = τ at htan ⊢
  generalize Real.cos (d / 2) = c at hu hcos hsin htan hcp hU
  generalize Real.sin (d / 2) = s at hu hcos hsin htan hU hs0
  rw [hcos, hsin] at hL
  have hτ0 : 0 ≤ τ := by
    by_contra hneg
    rw [not_le] at hneg
    have := mul_neg_of_neg_of_pos hneg hcp
    linarith
  have hs1 : s * s ≤ 1 := by nlinarith [mul_self_nonneg c]
  have hw0 : 0 ≤ t * (1 - t) := mul_nonneg ht0 (by linarith)
  have hw1 : t * (1 - t) ≤ 1 / 4 := by nlinarith [mul_self_nonneg (t - 1 / 2)]
  generalize t * (1 - t) = w at hw0 hw1 ⊢
  have hcc : 0 < c * c := mul_pos hcp hcp
  -- τ ≤ 0.53·d
  have hτU : 2 * τ ≤ 106 / 100 * d := by
    have : τ * c ≤ (53 / 100 * d) * c := by rw [htan]; linarith
    have := le_of_mul_le_mul_right this hcp
    linarith
  set D := 1 + (2 * s * τ * w) ^ 2 with hD
  have hD1 : 1 ≤ D := by rw [hD]; nlinarith [sq_nonneg (2 * s * τ * w)]
  have hDpos : 0 < D := by linarith
  have hq0 : 0 ≤ 1 - s * s / 2 := by linarith
  have hN1 : 2 * τ * (1 - 2 * (s * s) * w) ≤ 2 * τ := by
    have : 0 ≤ 2 * τ * (2 * (s * s) * w) := by positivity
    nlinarith
  have hN2 : 2 * τ * (1 - s * s / 2) ≤ 2 * τ * (1 - 2 * (s * s) * w) := by
    apply mul_le_mul_of_nonneg_left _ (by positivity)
    nlinarith [mul_self_nonneg s]
  have hD2 : D ≤ 1 + s * s * (τ * τ) / 4 := by
    rw [hD]
    have : (2 * s * τ * w) ^ 2 = 4 * (s * s * (τ * τ)) * (w * w) := by ring
    rw [this]
    have hww : w * w ≤ 1 / 16 := by nlinarith
    nlinarith [mul_nonneg (mul_self_nonneg s) (mul_self_nonneg τ)]
  -- the lower bound, multiplied by c²
  have e1 : c * c * (1 + s * s * (τ * τ) / 4) = (1 - s * s / 2) * (1 - s * s / 2) := by
    have : (τ * c) * (τ * c) = s * s := by rw [htan]
    linear_combination (s * s / 4) * this + hu
  have e2 : c * c * (2 * τ * (1 - s * s / 2)) = 2 * (s * c) * (1 - s * s / 2) := by
    linear_combination (2 * c * (1 - s * s / 2)) * htan
  have hLq : 94 / 100 * d * (1 - s * s / 2) ≤ 2 * (s * c) := by linarith
  have hlow : 94 / 100 * d * (1 + s * s * (τ * τ) / 4) ≤ 2 * τ * (1 - s * s / 2) := by
    apply le_of_mul_le_mul_left _ hcc
    have : c * c * (94 / 100 * d * (1 + s * s * (τ * τ) / 4))
        = 94 / 100 * d * ((1 - s * s / 2) * (1 - s * s / 2)) := by rw [← e1]; ring
    rw [this, e2]
    have := mul_le_mul_of_nonneg_right hLq hq0
    linarith
  -- assemble
  have hup : 2 * τ * (1 - 2 * (s * s) * w) ≤ 106 / 100 * d * D := by
    have : 106 / 100 * d ≤ 106 / 100 * d * D := by
      have h : 0 ≤ 106 / 100 * d := by positivity
      nlinarith
    linarith
  have hdn : 94 / 100 * d * D ≤ 2 * τ * (1 - 2 * (s * s) * w) := by
    have : 94 / 100 * d * D ≤ 94 / 100 * d * (1 + s * s * (τ * τ) / 4) :=
      mul_le_mul_of_nonneg_left hD2 (by positivity)
    linarith
  rw [abs_le]
  constructor
  · rw [le_sub_iff_add_le, le_div_iff₀ hDpos]; linarith
  · rw [sub_le_iff_le_add, div_le_iff₀ hDpos]; linarith

end Lyon.C13
