/-
  C02 growth 3 (`Props/C02f.lean`), part 5: the SAME-SIDE step of the basic monotone tessellator
  (`popLoop`: cut ears `(top, lastPopped, cur)` while the ear test passes) as a `Tiles` step.
-/
import LyonVerif.Lemmas.MonotoneTileSplit
import LyonVerif.Lemmas.MonotoneTileFlat

set_option linter.unusedSectionVars false
set_option linter.unusedVariables false
set_option linter.unusedSimpArgs false

namespace Lyon.C02f
open Lyon Lyon.Mono Lyon.C02 Lyon.C02c

section Geometry
variable {K : Type} [Field K] [LinearOrder K] [IsStrictOrderedRing K]

theorem sg_ne_zero (c : Bool) : (sg c : K) ≠ 0 := by cases c <;> simp [sg]

/-- a passed ear test is a weakly convex turn on the current side -/
theorem earConvex_true (cur lp top : MV K) (h : earConvex cur lp top = true) :
    0 ≤ sg cur.left * wind top.pos lp.pos cur.pos := by
  rcases earTri_cases cur lp top h with ⟨hl, _, g⟩ | ⟨hl, _, g⟩
  · rw [hl]; simpa [sg] using g
  · rw [hl]; simp only [sg, Bool.false_eq_true, if_false, neg_one_mul]
    rw [wind_swap] at g; linarith

/-- **the same-side step**: `lp :: st` the stack (top first) on the side of `cur`, `B` the future
part of that chain, `o₁ → o₂` the edge of the opposite chain that spans the stack and `cur`.  The
ears cut by `popLoop` tile the part of the remaining polygon that disappears. -/
theorem pop_tiles (pos : Nat → P K) (cur : MV K) (B : List (P K)) (o1 o2 : P K) (O : List (P K))
    (hcur : Good pos cur) (hB : SortedP (cur.pos :: B)) (hhi : AfterEq o2 cur.pos)
    (hsidec : 0 ≤ sg (!cur.left) * wind o1 o2 cur.pos) (st : List (MV K)) (lp : MV K)
    (hgood : ∀ v ∈ lp :: st, Good pos v)
    (hsort : ((lp :: st).map (·.pos)).Pairwise (fun a b => After a b))
    (hcs : ∀ v ∈ lp :: st, After cur.pos v.pos)
    (hlo : ∀ v ∈ lp :: st, AfterEq v.pos o1)
    (hside : ∀ v ∈ lp :: st, v.pos = o1 ∨ 0 < sg (!cur.left) * wind o1 o2 v.pos) :
    Tiles (InPoly cur.left (((lp :: st).map (·.pos)).reverse ++ cur.pos :: B) (o1 :: o2 :: O))
      (TriIn pos) (TriInC pos) (popLoop cur lp st).2
      (InPoly cur.left (((popLoop cur lp st).1.map (·.pos)).reverse ++ cur.pos :: B) (o1 :: o2 :: O)) := by
  induction st generalizing lp with
  | nil =>
    simp only [popLoop]
    exact Tiles.refl _ _ _
  | cons top rest ih =>
    simp only [popLoop]
    split
    · rename_i hconvb
      have hsort' := List.Pairwise.of_cons hsort
      have ih' := ih top (fun v hv => hgood v (List.mem_cons_of_mem _ hv)) hsort'
        (fun v hv => hcs v (List.mem_cons_of_mem _ hv)) (fun v hv => hlo v (List.mem_cons_of_mem _ hv))
        (fun v hv => hside v (List.mem_cons_of_mem _ hv))
      have hyx : After lp.pos top.pos := List.rel_of_pairwise_cons hsort (by simp)
      have hzy : After cur.pos lp.pos := hcs lp (by simp)
      have hA : SortedP ((rest.map (·.pos)).reverse ++ [top.pos]) := by
        have := sortedP_reverse _ hsort'
        simpa using this
      have step' : Tiles (InPoly cur.left ((rest.map (·.pos)).reverse ++ top.pos :: lp.pos :: cur.pos :: B) (o1 :: o2 :: O))
          (TriIn pos) (TriInC pos) [earTri cur lp top]
          (InPoly cur.left ((rest.map (·.pos)).reverse ++ top.pos :: cur.pos :: B) (o1 :: o2 :: O)) := by
        by_cases hne : wind top.pos lp.pos cur.pos = 0
        · -- three collinear chain vertices: a zero-area triangle, the region does not change
          have step := flat_tiles cur.left ((rest.map (·.pos)).reverse) B (o1 :: o2 :: O) hyx hzy hne
          exact step.map (fun _ => earTri cur lp top)
            (fun _ _ q => (earTri_in pos cur lp top hcur (hgood lp (by simp)) (hgood top (by simp)) q).1)
            (fun _ _ q => (earTri_in pos cur lp top hcur (hgood lp (by simp)) (hgood top (by simp)) q).2)
        · have hconv : 0 < sg cur.left * wind top.pos lp.pos cur.pos := by
            refine lt_of_le_of_ne (earConvex_true cur lp top hconvb) ?_
            intro e
            rcases mul_eq_zero.mp e.symm with z | z
            · exact sg_ne_zero _ z
            · exact hne z
          have hxo : AfterEq top.pos o1 := hlo top (by simp)
          have hx0 : 0 ≤ sg (!cur.left) * wind o1 o2 top.pos := by
            rcases hside top (by simp) with e | e
            · rw [e, wind_self_left]; simp
            · exact e.le
          have hy0 : 0 < sg (!cur.left) * wind o1 o2 lp.pos := by
            rcases hside lp (by simp) with e | e
            · exfalso
              exact after_ne (after_trans_afterEq hyx hxo) e
            · exact e
          have step := ear_tiles cur.left ((rest.map (·.pos)).reverse) B O hyx hzy hconv hA hB hxo hhi hx0 hy0 hsidec
          exact step.map (fun _ => earTri cur lp top)
            (fun _ _ q => (earTri_in pos cur lp top hcur (hgood lp (by simp)) (hgood top (by simp)) q).1)
            (fun _ _ q => (earTri_in pos cur lp top hcur (hgood lp (by simp)) (hgood top (by simp)) q).2)
      have e1 : ((lp :: top :: rest).map (·.pos)).reverse ++ cur.pos :: B =
          (rest.map (·.pos)).reverse ++ top.pos :: lp.pos :: cur.pos :: B := by simp
      have e2 : ((top :: rest).map (·.pos)).reverse ++ cur.pos :: B =
          (rest.map (·.pos)).reverse ++ top.pos :: cur.pos :: B := by simp
      rw [e1]
      rw [e2] at ih'
      exact step'.trans ih'
    · exact Tiles.refl _ _ _

end Geometry

end Lyon.C02f
