/-
  C06b, part 3: the emission shape of the `line_to` loop of the complete stroker model on an open
  fixed-width polyline `pt 0, pt 1, …` without merged points and without folding joins.

  `jEP e pt i` is the endpoint record `compute_join_side_positions_fixed_width` produces for the join
  at `pt i` (the model function itself, applied to fresh endpoints at `pt (i-1)`, `pt i`, `pt (i+1)`);
  only its geometry (`geo`: `prev`, `next`, `single` of both sides) is used.
  `CInv e pt k st a b`: after `line_to (pt k)` the window holds the point `k-1` (a join, or the first
  point) and the fresh point `k`; the output contains, with their positions, the edge quads between
  the joins `1 … k-1` and their join triangles; the vertices the NEXT edge quad will use are known.
-/
import LyonVerif.Lemmas.StrokeCoverShape

set_option linter.unusedSectionVars false
set_option linter.unusedVariables false

namespace Lyon.C06b
open Lyon Scalar Lyon.Stroke Lyon.Stroke.Full Lyon.C05 Lyon.C05b Lyon.C05c

section
variable {K : Type} [Field K] [LinearOrder K] [IsStrictOrderedRing K] [Transc K]

/-- the geometry of a side: `SidePoints` without the vertex ids -/
def sgeo (s : SideGeom K) : P K × P K × Option (P K) := (s.prev, s.next, s.single)
/-- the geometry of both sides of an endpoint -/
def EP.geo (j : EP K) : (P K × P K × Option (P K)) × (P K × P K × Option (P K)) := (sgeo j.pos, sgeo j.neg)

theorem geo_pos {x y : EP K} (h : EP.geo x = EP.geo y) :
    x.pos.prev = y.pos.prev ∧ x.pos.next = y.pos.next ∧ x.pos.single = y.pos.single := by
  simp only [EP.geo, sgeo, Prod.mk.injEq] at h; exact ⟨h.1.1, h.1.2.1, h.1.2.2⟩
theorem geo_neg {x y : EP K} (h : EP.geo x = EP.geo y) :
    x.neg.prev = y.neg.prev ∧ x.neg.next = y.neg.next ∧ x.neg.single = y.neg.single := by
  simp only [EP.geo, sgeo, Prod.mk.injEq] at h; exact ⟨h.2.1, h.2.2.1, h.2.2.2⟩

theorem geo_sPrev_pos {x y : EP K} (h : EP.geo x = EP.geo y) : sPrev x.pos = sPrev y.pos := by
  obtain ⟨a, b, c⟩ := geo_pos h; simp [sPrev, a, c]
theorem geo_sNext_pos {x y : EP K} (h : EP.geo x = EP.geo y) : sNext x.pos = sNext y.pos := by
  obtain ⟨a, b, c⟩ := geo_pos h; simp [sNext, b, c]
theorem geo_sPrev_neg {x y : EP K} (h : EP.geo x = EP.geo y) : sPrev x.neg = sPrev y.neg := by
  obtain ⟨a, b, c⟩ := geo_neg h; simp [sPrev, a, c]
theorem geo_sNext_neg {x y : EP K} (h : EP.geo x = EP.geo y) : sNext x.neg = sNext y.neg := by
  obtain ⟨a, b, c⟩ := geo_neg h; simp [sNext, b, c]

/-- the geometry `compute_join_side_positions_fixed_width` leaves depends on the three positions, the
join kind and the `single` fields it started from only -/
theorem joinSidesFw_geo_congr (ix : Lyon.StrokeQuad.Ix K) {prev join next prev' join' next' : EP K} (ml vhw : K)
    (h1 : prev.position = prev'.position) (h2 : join.position = join'.position)
    (h3 : join.lineJoin = join'.lineJoin) (h4 : next.position = next'.position)
    (h5 : join.pos.single = join'.pos.single) (h6 : join.neg.single = join'.neg.single) :
    EP.geo (joinSidesFw ix prev join next ml vhw) = EP.geo (joinSidesFw ix prev' join' next' ml vhw) := by
  have hg := fwGeo_congr (prev := prev) (join := join) (next := next) (prev' := prev') (join' := join')
    (next' := next') ml vhw h1 h2 h3 h4
  unfold joinSidesFw frontFix
  simp only [hg, h2, h3, h5, h6]
  split_ifs <;> simp [EP.geo, sgeo, h5, h6]

/-- the join at `pt i` as the model computes it from fresh endpoints -/
noncomputable def jEP (e : Env K) (pt : Nat → P K) (i : Nat) : EP K :=
  joinSidesFw e.ix (linePt e (i - 1, pt (i - 1))) (linePt e (i, pt i)) (linePt e (i + 1, pt (i + 1)))
    e.o.miterLimit e.hwFw

/-- the two triangles of `add_edge_triangles` between two joins, as positions -/
def EmQuadJ (o : Out K) (J J' : EP K) : Prop :=
  EmTri o (sNext J.neg, sNext J.pos, sPrev J'.pos) ∧ EmTri o (sNext J.neg, sPrev J'.pos, sPrev J'.neg)

/-- the triangle of `tessellate_join` on the side that has two vertices, as positions -/
def EmJoin (o : Out K) (J : EP K) : Prop :=
  (J.pos.single.isSome = true → J.neg.single = none → EmTri o (J.neg.prev, sPrev J.pos, J.neg.next))
  ∧ (J.neg.single.isSome = true → J.pos.single = none → EmTri o (sPrev J.neg, J.pos.prev, J.pos.next))

theorem EmQuadJ.ext {o o' : Out K} (h : Ext o o') {J J' : EP K} (hq : EmQuadJ o J J') : EmQuadJ o' J J' :=
  ⟨hq.1.ext h, hq.2.ext h⟩
theorem EmJoin.ext {o o' : Out K} (h : Ext o o') {J : EP K} (hq : EmJoin o J) : EmJoin o' J :=
  ⟨fun a b => (hq.1 a b).ext h, fun a b => (hq.2 a b).ext h⟩

/-- the corners of the edge quad between two joins -/
def quadSet (J J' : EP K) : List (P K) := [sNext J.neg, sNext J.pos, sPrev J'.pos, sPrev J'.neg]
/-- the vertices of a join -/
def joinSet (J : EP K) : List (P K) := [sPrev J.neg, sNext J.neg, sPrev J.pos, sNext J.pos]

/-- the first point of the sub-path after `line_to (pt 1)` -/
noncomputable def fPt (e : Env K) (pt : Nat → P K) : EP K := firstPt e 0 1 (pt 0) (pt 1)

/-- the window part of the invariant (`TInv` of `Lemmas/StrokeIdxTris.lean` without the vertex / triangle count, which
does not hold with round joins) -/
structure TInvR (e : Env K) (st : St K) (a b : EP K) : Prop where
  wf : WF st.buf
  two : st.buf.lastTwo = some (a, b)
  fresh : Fresh e b
  bfp : b.foldPos = false
  bfn : b.foldNeg = false
  first : st.buf.count = 2 → a.foldPos = false ∧ a.foldNeg = false
  full : st.buf.count > 2 → Sides2 st.out.nextId a.ids
    ∧ ∃ f0 f1, st.firsts = [f0, f1] ∧ f0.foldPos = false ∧ f0.foldNeg = false ∧ Sides2 st.out.nextId f1.ids

/-- the loop invariant (see the header) -/
structure CInv (e : Env K) (pt : Nat → P K) (k : Nat) (st : St K) (a b : EP K) : Prop where
  t : TInvR e st a b
  next : st.out.nextId = st.out.verts.length
  apos : a.position = pt (k - 1)
  bpos : b.position = pt k
  k1 : 1 ≤ k
  cnt : st.buf.count = if k = 1 then 2 else 3
  first1 : k = 1 → a = fPt e pt
  first2 : 2 ≤ k → ∃ f1, st.firsts = [fPt e pt, f1] ∧ EP.geo f1 = EP.geo (jEP e pt 1) ∧ f1.position = pt 1
    ∧ PosAt st.out f1.pos.prevVertex (sPrev (jEP e pt 1).pos) ∧ PosAt st.out f1.neg.prevVertex (sPrev (jEP e pt 1).neg)
  ageo : 2 ≤ k → EP.geo a = EP.geo (jEP e pt (k - 1))
    ∧ PosAt st.out a.neg.nextVertex (sNext (jEP e pt (k - 1)).neg)
    ∧ PosAt st.out a.pos.nextVertex (sNext (jEP e pt (k - 1)).pos)
  quads : ∀ i, 1 ≤ i → i + 1 < k → EmQuadJ st.out (jEP e pt i) (jEP e pt (i + 1))
  joins : ∀ i, 1 ≤ i → i < k → EmJoin st.out (jEP e pt i)
  only : ∀ t ∈ st.out.tris, (∃ i, 1 ≤ i ∧ i + 1 < k ∧ TriIn st.out (quadSet (jEP e pt i) (jEP e pt (i + 1))) t)
    ∨ (∃ i, 1 ≤ i ∧ i < k ∧ TriIn st.out (joinSet (jEP e pt i)) t)
    ∨ (∃ i, 1 ≤ i ∧ i < k ∧ TriFan st.out (joinSet (jEP e pt i)) (pt i) (e.hwFw * e.hwFw) t)

/-- one `line_to` keeps the invariant -/
theorem fwStep_cinv_gen {e : Env K} (hj : RoundOK e) (hw0 : e.hwFw ≠ 0) {pt : Nat → P K} {k : Nat}
    {st : St K} {a b : EP K} (hI : CInv e pt k st a b)
    (next : EP K) (hnp : next.position = pt (k + 1)) (hnfresh : Fresh e next)
    (hnfp : next.foldPos = false) (hnfn : next.foldNeg = false)
    (hfar : pointsAreTooClose e.thr (pt k) (pt (k + 1)) = false)
    (hnf : noFoldAt e (pt (k - 1)) (pt k) (pt (k + 1))) :
    ∃ b', CInv e pt (k + 1) (fwStep e st next).1 b' next
      ∧ (st.buf.count = 3 → (fwStep e st next).1.firsts = st.firsts)
      ∧ Ext st.out (fwStep e st next).1.out ∧ (fwStep e st next).2 = true := by
  have hk1 := hI.k1
  have hfar' : pointsAreTooClose e.thr b.position next.position = false := by rw [hI.bpos, hnp]; exact hfar
  have hnf' : noFoldAt e a.position b.position next.position := by rw [hI.apos, hI.bpos, hnp]; exact hnf
  -- the shape of the join
  have hlast := hI.t.wf.lastTwo_last _ _ hI.t.two
  have hclose : st.tooClose e.thr next.position = false := by rw [tooClose_eq hlast]; exact hfar'
  have hprev : st.buf.count > 2 → Sides2 st.out.nextId a.ids
      ∧ PosAt st.out a.neg.nextVertex (sNext a.neg) ∧ PosAt st.out a.pos.nextVertex (sNext a.pos) := by
    intro h3
    have hk2 : 2 ≤ k := by
      by_contra hlt
      have : k = 1 := by omega
      rw [hI.cnt, if_pos this] at h3; omega
    obtain ⟨g, p1, p2⟩ := hI.ageo hk2
    exact ⟨(hI.t.full h3).1, by rw [geo_sNext_neg g]; exact p1, by rw [geo_sNext_pos g]; exact p2⟩
  obtain ⟨j2, o', ej, hS⟩ := fwJoin_shape hj st a b next hI.t.fresh hI.t.bfp hI.t.bfn hnf' hw0 hI.next hprev
  have hstate : (fwStep e st next).1
      = { st with buf := ((st.setLast j2).push next).buf, out := o',
                  firsts := if st.buf.count == 2 then [a, j2] else st.firsts } := by
    rw [fwStep_eq_join hclose hI.t.two, ej]
    simp [commitSt, St.push, St.setLast]
  -- the join record is the one of `jEP`
  have hgeo1 : EP.geo (joinSidesFw e.ix a b next e.o.miterLimit e.hwFw) = EP.geo (jEP e pt k) := by
    unfold jEP
    exact joinSidesFw_geo_congr e.ix _ _ (by rw [hI.apos]; rfl) (by rw [hI.bpos]; rfl) (by rw [hI.t.fresh.lj]; rfl) (by rw [hnp]; rfl)
      (by rw [hI.t.fresh.ps]; rfl) (by rw [hI.t.fresh.ns]; rfl)
  generalize hj1 : joinSidesFw e.ix a b next e.o.miterLimit e.hwFw = j1 at hS hgeo1
  have hgeo2 : EP.geo j2 = EP.geo (jEP e pt k) := by
    rw [← hgeo1]
    simp only [EP.geo, sgeo, hS.gPos.1, hS.gPos.2.1, hS.gPos.2.2, hS.gNeg.1, hS.gNeg.2.1, hS.gNeg.2.2]
  -- the window after the step
  have hc2 := WF.lastTwo_count _ _ hI.t.two
  have hle3 := hI.t.wf.count_le
  obtain ⟨bb1, hb1, hwf1, hc1, hl1, _⟩ := hI.t.wf.replaceLast (by omega) j2
  obtain ⟨bb2, hb2, hwf2, hcnt2, _, hlt2⟩ := hwf1.push next
  have hbuf : (fwStep e st next).1.buf = bb2 := by rw [hstate]; simp [St.push, St.setLast, hb1, hb2]
  have hout : (fwStep e st next).1.out = o' := by rw [hstate]
  have hfirsts : (fwStep e st next).1.firsts = if st.buf.count == 2 then [a, j2] else st.firsts := by rw [hstate]
  have hcnt : (fwStep e st next).1.buf.count = 3 := by rw [hbuf, hcnt2, hc1]; omega
  have hle : st.out.nextId ≤ o'.nextId := by rw [hI.next, hS.next]; exact hS.ext.len_le
  have hbp : j2.position = b.position := by
    rw [hS.pos, ← hj1]; exact (joinSidesFw_singles e.ix a b next e.o.miterLimit e.hwFw hI.t.fresh.ps hI.t.fresh.ns).2.1
  have hT : TInvR e (fwStep e st next).1 j2 next := by
    refine ⟨by rw [hbuf]; exact hwf2, by rw [hbuf]; exact hlt2 _ hl1, hnfresh, hnfp, hnfn, fun h => by omega, fun _ => ?_⟩
    rw [hout, hfirsts]
    refine ⟨hS.sides, ?_⟩
    by_cases h2 : st.buf.count = 2
    · obtain ⟨r1, r2⟩ := hI.t.first h2
      simp only [h2, beq_self_eq_true, if_true]
      exact ⟨a, j2, rfl, r1, r2, hS.sides⟩
    · have hne : (st.buf.count == 2) = false := by simpa using h2
      obtain ⟨_, f0, f1, ef, g1, g2, g3⟩ := hI.t.full (by omega)
      simp only [hne, Bool.false_eq_true, if_false]
      exact ⟨f0, f1, ef, g1, g2, g3.mono hle⟩
  obtain ⟨b', hb'⟩ : ∃ b', b' = j2 := ⟨_, rfl⟩
  rw [← hb'] at hT hfirsts hbp hgeo2 hS
  refine ⟨b', ⟨hT, by rw [hout]; exact hS.next, by rw [hbp, hI.bpos]; rfl, hnp, by omega, ?_, ?_, ?_, ?_, ?_, ?_, ?_⟩,
    fun h3 => by rw [hfirsts, h3]; rfl, by rw [hout]; exact hS.ext, by rw [fwStep_eq_join hclose hI.t.two]⟩
  · rw [hcnt, if_neg (by omega)]
  · intro h; omega
  · intro _
    rw [hfirsts, hout]
    by_cases hk : k = 1
    · have hc2 : st.buf.count = 2 := by rw [hI.cnt, if_pos hk]
      simp only [hc2, beq_self_eq_true, if_true]
      refine ⟨b', by rw [hI.first1 hk], by rw [hgeo2, hk], by rw [hbp, hI.bpos, hk], ?_, ?_⟩
      · have := hS.pPosPrev; rw [geo_sPrev_pos hgeo1, hk] at this; exact this
      · have := hS.pNegPrev; rw [geo_sPrev_neg hgeo1, hk] at this; exact this
    · have hc3 : st.buf.count = 3 := by rw [hI.cnt, if_neg hk]
      obtain ⟨f1, hf, g, gp, p1, p2⟩ := hI.first2 (by omega)
      simp only [hc3]
      exact ⟨f1, hf, g, gp, p1.ext hS.ext, p2.ext hS.ext⟩
  · intro _
    rw [hout]
    simp only [Nat.add_sub_cancel]
    refine ⟨hgeo2, ?_, ?_⟩
    · have := hS.pNegNext; rw [geo_sNext_neg hgeo1] at this; exact this
    · have := hS.pPosNext; rw [geo_sNext_pos hgeo1] at this; exact this
  · intro i hi1 hi2
    rw [hout]
    by_cases hik : i + 1 < k
    · exact (hI.quads i hi1 hik).ext hS.ext
    · have hik' : i + 1 = k := by omega
      have hk2 : 2 ≤ k := by omega
      have hc3 : st.buf.count > 2 := by rw [hI.cnt, if_neg (by omega)]; omega
      obtain ⟨g, _, _⟩ := hI.ageo hk2
      obtain ⟨q1, q2⟩ := hS.edge hc3
      have hi : k - 1 = i := by omega
      rw [hi] at g
      rw [hik']
      unfold EmQuadJ
      rw [← geo_sNext_neg g, ← geo_sNext_pos g, ← geo_sPrev_pos hgeo1, ← geo_sPrev_neg hgeo1]
      exact ⟨q1, q2⟩
  · intro i hi1 hi2
    rw [hout]
    by_cases hik : i < k
    · exact (hI.joins i hi1 hik).ext hS.ext
    · have hik' : i = k := by omega
      subst hik'
      obtain ⟨g1, g2, g3⟩ := geo_pos hgeo1
      obtain ⟨g4, g5, g6⟩ := geo_neg hgeo1
      refine ⟨fun h1 h2 => ?_, fun h1 h2 => ?_⟩
      · have := hS.joinNeg (by rw [g3]; exact h1) (by rw [g6]; exact h2)
        rw [g4, g5, geo_sPrev_pos hgeo1] at this; exact this
      · have := hS.joinPos (by rw [g6]; exact h1) (by rw [g3]; exact h2)
        rw [g1, g2, geo_sPrev_neg hgeo1] at this; exact this
  · intro t ht
    rw [hout] at ht ⊢
    obtain ⟨ts, ets, hts⟩ := hS.trisNew
    rw [ets] at ht
    rcases List.mem_append.mp ht with ht | ht
    · rcases hI.only t ht with ⟨i, a1, a2, a3⟩ | ⟨i, a1, a2, a3⟩ | ⟨i, a1, a2, a3⟩
      · exact Or.inl ⟨i, a1, by omega, a3.ext hS.ext⟩
      · exact Or.inr (Or.inl ⟨i, a1, by omega, a3.ext hS.ext⟩)
      · exact Or.inr (Or.inr ⟨i, a1, by omega, a3.ext hS.ext⟩)
    · rcases hts t ht with ⟨h3, hq⟩ | hq | hq
      · left
        have hk2 : 2 ≤ k := by
          by_contra hlt
          have : k = 1 := by omega
          rw [hI.cnt, if_pos this] at h3; omega
        obtain ⟨g, _, _⟩ := hI.ageo hk2
        refine ⟨k - 1, by omega, by omega, ?_⟩
        have hkk : k - 1 + 1 = k := by omega
        rw [hkk]
        unfold quadSet
        rw [← geo_sNext_neg g, ← geo_sNext_pos g, ← geo_sPrev_pos hgeo1, ← geo_sPrev_neg hgeo1]
        exact hq
      · right; left
        refine ⟨k, hk1, by omega, ?_⟩
        unfold joinSet
        rw [← geo_sPrev_neg hgeo1, ← geo_sNext_neg hgeo1, ← geo_sPrev_pos hgeo1, ← geo_sNext_pos hgeo1]
        exact hq
      · right; right
        refine ⟨k, hk1, by omega, ?_⟩
        unfold joinSet
        rw [← geo_sPrev_neg hgeo1, ← geo_sNext_neg hgeo1, ← geo_sPrev_pos hgeo1, ← geo_sNext_pos hgeo1]
        have hpj : j1.position = pt k := by
          rw [← hj1]
          rw [(joinSidesFw_singles e.ix a b next e.o.miterLimit e.hwFw hI.t.fresh.ps hI.t.fresh.ns).2.1]; exact hI.bpos
        have hwj : j1.halfWidth = e.hwFw := by
          rw [← hj1, joinSidesFw_hw]; exact hI.t.fresh.hw
        rw [hpj, hwj] at hq
        exact hq

theorem fwStep_cinv {e : Env K} (hj : RoundOK e) (hw0 : e.hwFw ≠ 0) {pt : Nat → P K} {k : Nat}
    {st : St K} {a b : EP K} (hI : CInv e pt k st a b)
    (hfar : pointsAreTooClose e.thr (pt k) (pt (k + 1)) = false)
    (hnf : noFoldAt e (pt (k - 1)) (pt k) (pt (k + 1))) :
    ∃ b', CInv e pt (k + 1) (fwStep e st (linePt e (k + 1, pt (k + 1)))).1 b' (linePt e (k + 1, pt (k + 1))) := by
  obtain ⟨b', h, _⟩ := fwStep_cinv_gen hj hw0 hI _ rfl (fresh_mk' e _ _ _) rfl rfl hfar hnf
  exact ⟨b', h⟩

/-- `(i, pt i)` for `i = k, …, k + m - 1`: the points the `line_to` events carry -/
def restPts (pt : Nat → P K) (k m : Nat) : List (Nat × P K) := (List.range' k m).map (fun i => (i, pt i))

theorem restPts_succ (pt : Nat → P K) (k m : Nat) : restPts pt k (m + 1) = (k, pt k) :: restPts pt (k + 1) m := by
  simp [restPts, List.range'_succ]

/-- the `line_to` loop keeps the invariant -/
theorem feed_cinv {e : Env K} (hj : RoundOK e) (hw0 : e.hwFw ≠ 0) {pt : Nat → P K} (m : Nat) :
    ∀ (k : Nat) (st : St K) (a b : EP K), CInv e pt k st a b →
      (∀ i, k ≤ i → i < k + m → pointsAreTooClose e.thr (pt i) (pt (i + 1)) = false) →
      (∀ i, k ≤ i → i < k + m → noFoldAt e (pt (i - 1)) (pt i) (pt (i + 1))) →
      ∃ a' b', CInv e pt (k + m) ((restPts pt (k + 1) m).foldl (fun s q => (fwStep e s (linePt e q)).1) st) a' b' := by
  induction m with
  | zero => intro k st a b hI _ _; exact ⟨a, b, by simpa [restPts] using hI⟩
  | succ m ih =>
    intro k st a b hI hfar hnf
    obtain ⟨b', h1⟩ := fwStep_cinv hj hw0 hI (hfar k (le_refl _) (by omega)) (hnf k (le_refl _) (by omega))
    obtain ⟨a'', b'', h2⟩ := ih (k + 1) _ _ _ h1 (fun i h1 h2 => hfar i (by omega) (by omega))
      (fun i h1 h2 => hnf i (by omega) (by omega))
    refine ⟨a'', b'', ?_⟩
    rw [restPts_succ, List.foldl_cons]
    have : k + (m + 1) = k + 1 + m := by omega
    rw [this]; exact h2

end

end Lyon.C06b
