/-
  Index validity for the COMPLETE stroker model `Lyon.Stroke.Full` (`Model/Tess/StrokeFull.lean`),
  part 1: the emission relation and the specifications of the emitting components.

  * `VSteps C o o'`: `o'` is reached from `o` by a sequence of `add_stroke_vertex` / `add_triangle`
    calls such that (a) every triangle, AT THE MOMENT IT IS EMITTED, has three pairwise distinct ids
    that have all been returned by an earlier `add_stroke_vertex` (`< nextId` at that moment), and
    (b) every vertex carries a `(source, half width)` pair of the class `C`.
    `VSteps.outSteps` forgets (b) and gives `Lyon.C05b.OutSteps` of `Lemmas/StrokeFull.lean`.
  * `Upd e e'`: `e'` is the endpoint `e` after a step function rewrote side points, vertex ids,
    fold flags, advancement (and possibly forced `line_join = Miter`): what the class predicates of
    the invariant read is unchanged.
  * specifications of `tessellateArc`, round / empty caps, `baseVertices`, `edgeAndJoin`,
    `flattenedStep`, `lastEdge`, `firstEdge`, `closeVertices`, `emptyCap`.

  Everything here is discrete: it holds for every scalar type (`[Scalar α] [Transc α]`, floats
  included); all geometry is opaque.
-/
import LyonVerif.Lemmas.StrokeFull
import Mathlib.Tactic.SplitIfs

set_option linter.unusedSectionVars false
set_option linter.unusedVariables false

namespace Lyon.C05c
open Lyon Scalar Lyon.Stroke Lyon.Stroke.Full Lyon.C05 Lyon.C05b

/-! ## the emission relation -/

section VSteps
variable {α : Type}

/-- call-level validity: a sequence of `add_stroke_vertex` / `add_triangle(s)` calls in which every
vertex has a `(source, half width)` pair of the class `C` and every triangle is proper and only
references ids handed out BEFORE it is emitted -/
inductive VSteps (C : Src α → α → Prop) : Out α → Out α → Prop
  | refl (o : Out α) : VSteps C o o
  | vert {o o' : Out α} (d : VData α) : VSteps C o o' → C d.src d.halfWidth → VSteps C o (o'.addVertex d)
  | tris {o o' : Out α} (ts : List Stroke.Tri) : VSteps C o o' →
      (∀ t ∈ ts, Tri.Distinct t ∧ Tri.Below t o'.nextId) → VSteps C o (o'.addTris ts)

variable {C : Src α → α → Prop}

theorem VSteps.tri {o o' : Out α} (t : Stroke.Tri) (h : VSteps C o o')
    (ht : Tri.Distinct t ∧ Tri.Below t o'.nextId) : VSteps C o (o'.addTri t) := by
  have : o'.addTri t = o'.addTris [t] := rfl
  rw [this]
  exact VSteps.tris [t] h (by simpa using ht)

theorem VSteps.trans {a b c : Out α} (h1 : VSteps C a b) (h2 : VSteps C b c) : VSteps C a c := by
  induction h2 with
  | refl => exact h1
  | vert d _ hd ih => exact VSteps.vert d ih hd
  | tris ts _ ht ih => exact VSteps.tris ts ih ht

theorem VSteps.next_le {o o' : Out α} (h : VSteps C o o') : o.nextId ≤ o'.nextId := by
  induction h with
  | refl => exact Nat.le_refl _
  | vert d _ _ ih => exact Nat.le_succ_of_le ih
  | tris ts _ _ ih => exact ih

theorem VSteps.outSteps {o o' : Out α} (h : VSteps C o o') : OutSteps o o' := by
  induction h with
  | refl => exact OutSteps.refl _
  | vert d _ _ ih => exact OutSteps.vert d ih
  | tris ts _ ht ih => exact OutSteps.tris ts ih ht

theorem VSteps.mono {C' : Src α → α → Prop} (hC : ∀ s w, C s w → C' s w) {o o' : Out α}
    (h : VSteps C o o') : VSteps C' o o' := by
  induction h with
  | refl => exact VSteps.refl _
  | vert d _ hd ih => exact VSteps.vert d ih (hC _ _ hd)
  | tris ts _ ht ih => exact VSteps.tris ts ih ht

/-- every vertex appended along the way is of the class -/
theorem VSteps.verts {o o' : Out α} (h : VSteps C o o') :
    ∃ vs : List (VData α), o'.verts = o.verts ++ vs ∧ o'.nextId = o.nextId + vs.length
      ∧ ∀ d ∈ vs, C d.src d.halfWidth := by
  induction h with
  | refl => exact ⟨[], by simp, by simp, by simp⟩
  | vert d _ hd ih =>
    obtain ⟨vs, e1, e2, hv⟩ := ih
    refine ⟨vs ++ [d], by simp [Out.addVertex, e1], by simp [Out.addVertex, e2]; omega, ?_⟩
    intro x hx
    rcases List.mem_append.mp hx with hx | hx
    · exact hv x hx
    · simp at hx; subst hx; exact hd
  | tris ts _ _ ih =>
    obtain ⟨vs, e1, e2, hv⟩ := ih
    exact ⟨vs, by simp [Out.addTris, e1], by simp [Out.addTris, e2], hv⟩

theorem VSteps.vert1 (o : Out α) (d : VData α) (hd : C d.src d.halfWidth) : VSteps C o (o.addVertex d) :=
  VSteps.vert d (VSteps.refl o) hd

theorem VSteps.tris1 (o : Out α) (ts : List Stroke.Tri)
    (ht : ∀ t ∈ ts, Tri.Distinct t ∧ Tri.Below t o.nextId) : VSteps C o (o.addTris ts) :=
  VSteps.tris ts (VSteps.refl o) ht

theorem VSteps.nil_tris (o : Out α) : VSteps C o (o.addTris []) :=
  VSteps.tris1 o [] (by simp)

end VSteps

/-! ## arcs, round caps, empty caps -/

section Arc
variable {α : Type} [Scalar α] [Transc α] {C : Src α → α → Prop}

/-- `tessellate_arc` between two distinct existing vertices (any angles, any depth) -/
theorem arc_vsteps (n : Nat) : ∀ (a0 a1 : α) (va vb : Nat) (d : VData α) (o : Out α),
    va ≠ vb → va < o.nextId → vb < o.nextId → C d.src d.halfWidth →
    VSteps C o (tessellateArc a0 a1 va vb n d o) := by
  induction n with
  | zero => intro a0 a1 va vb d o _ _ _ _; exact VSteps.refl o
  | succ n ih =>
    intro a0 a1 va vb d o hab ha hb hd
    let d1 : VData α := { d with normal := ⟨Transc.cos ((a0 + a1) * half), Transc.sin ((a0 + a1) * half)⟩ }
    let o1 : Out α := (o.addVertex d1).addTri (va, o.nextId, vb)
    have hn1 : o1.nextId = o.nextId + 1 := rfl
    have s1 : VSteps C o o1 := by
      refine VSteps.tri _ (VSteps.vert1 o d1 hd) ?_
      simp only [Tri.Distinct, Tri.Below, addVertex_nextId]
      omega
    have s2 := ih a0 ((a0 + a1) * half) va o.nextId d1 o1 (by omega) (by omega) (by omega) hd
    have hle := s2.next_le
    have s3 := ih ((a0 + a1) * half) a1 o.nextId vb d1 (tessellateArc a0 ((a0 + a1) * half) va o.nextId n d1 o1)
      (by omega) (by omega) (by omega) hd
    exact (s1.trans s2).trans s3

/-- `tessellate_round_cap` between two distinct existing vertices; its vertices carry the radius
as half width -/
theorem roundCap_vsteps (center : P α) (radius : α) (startNormal : P α) (sv ev : Nat)
    (edgeNormal : P α) (tolerance : α) (isStart : Bool) (d : VData α) (o : Out α)
    (hne : sv ≠ ev) (hs : sv < o.nextId) (he : ev < o.nextId) (hd : C d.src radius) :
    VSteps C o (tessellateRoundCap center radius startNormal sv ev edgeNormal tolerance isStart d o) := by
  unfold tessellateRoundCap
  split_ifs
  · exact VSteps.refl o
  · have key : ∀ (d1 d2 : VData α) (a b c : α) (n : Nat), C d1.src d1.halfWidth → C d2.src d2.halfWidth →
        VSteps C o (tessellateArc b c o.nextId ev n d2
          (tessellateArc a b sv o.nextId n d1 ((o.addVertex d1).addTri (sv, o.nextId, ev)))) := by
      intro d1 d2 a b c n h1 h2
      let o1 : Out α := (o.addVertex d1).addTri (sv, o.nextId, ev)
      have hn1 : o1.nextId = o.nextId + 1 := rfl
      have s1 : VSteps C o o1 := by
        refine VSteps.tri _ (VSteps.vert1 o d1 h1) ?_
        simp only [Tri.Distinct, Tri.Below, addVertex_nextId]
        omega
      have s2 := arc_vsteps (C := C) n a b sv o.nextId d1 o1 (by omega) (by omega) (by omega) h1
      have hle := s2.next_le
      have s3 := arc_vsteps (C := C) n b c o.nextId ev d2 (tessellateArc a b sv o.nextId n d1 o1)
        (by omega) (by omega) (by omega) h2
      exact (s1.trans s2).trans s3
    exact key _ _ _ _ _ _ hd hd

theorem emptySquareCap_vsteps (position : P α) (d : VData α) (o : Out α) (hd : C d.src d.halfWidth) :
    VSteps C o (tessellateEmptySquareCap position d o) := by
  simp only [tessellateEmptySquareCap]
  refine VSteps.tri _ (VSteps.tri _ (VSteps.vert _ (VSteps.vert _ (VSteps.vert _
    (VSteps.vert _ (VSteps.refl o) hd) hd) hd) hd) ?_) ?_ <;>
  · simp only [Tri.Distinct, Tri.Below, addVertex_nextId, addTri_nextId]; omega

theorem emptyRoundCap_vsteps (center : P α) (tolerance : α) (d : VData α) (o : Out α)
    (hd : C d.src d.halfWidth) :
    VSteps C o (tessellateEmptyRoundCap center tolerance d o) := by
  let dl : VData α := { d with positionOnPath := center, normal := ⟨-one, zero⟩, side := .positive }
  let dr : VData α := { dl with normal := ⟨one, zero⟩, side := .negative }
  let o2 : Out α := (o.addVertex dl).addVertex dr
  have hn2 : o2.nextId = o.nextId + 2 := rfl
  have s0 : VSteps C o o2 := VSteps.vert _ (VSteps.vert1 o dl hd) hd
  have s1 := roundCap_vsteps (C := C) center d.halfWidth ⟨-one, zero⟩ o.nextId (o.nextId + 1) ⟨zero, one⟩ tolerance true
    dr o2 (by omega) (by omega) (by omega) hd
  have hle := s1.next_le
  have s2 := roundCap_vsteps (C := C) center d.halfWidth ⟨one, zero⟩ (o.nextId + 1) o.nextId ⟨zero, -one⟩ tolerance false
    dr (tessellateRoundCap center d.halfWidth ⟨-one, zero⟩ o.nextId (o.nextId + 1) ⟨zero, one⟩ tolerance true dr o2)
    (by omega) (by omega) (by omega) hd
  exact (s0.trans s1).trans s2

end Arc

/-! ## endpoints: what a step function keeps -/

section Ep
variable {α : Type} [Scalar α]

/-- `e'` is the endpoint `e` after a step function rewrote side points, vertex ids, fold flags,
the advancement, and possibly forced `line_join = Miter` (fast path of a flattened curve) -/
structure Upd (e e' : EP α) : Prop where
  pos : e'.position = e.position
  src : e'.src = e.src
  hw : e'.halfWidth = e.halfWidth
  flat : e'.isFlat = e.isFlat
  lj : e'.lineJoin = e.lineJoin ∨ e'.lineJoin = .miter

theorem Upd.refl (e : EP α) : Upd e e := ⟨rfl, rfl, rfl, rfl, Or.inl rfl⟩

theorem Upd.trans {a b c : EP α} (h1 : Upd a b) (h2 : Upd b c) : Upd a c :=
  ⟨h2.pos.trans h1.pos, h2.src.trans h1.src, h2.hw.trans h1.hw, h2.flat.trans h1.flat, by
    rcases h2.lj with h | h
    · rcases h1.lj with g | g
      · exact Or.inl (h.trans g)
      · exact Or.inr (h.trans g)
    · exact Or.inr h⟩

/-- the geometry of an endpoint that `flattened_step` reads from its `prev` argument -/
def GE (G : P α → P α → P α → Prop) (e : EP α) : Prop := G e.position e.pos.next e.neg.next

@[simp] theorem toJoin_ids (e : EP α) : e.toJoin.ids = e.ids := rfl

end Ep

/-! ## the join: base vertices, edge triangles, interior, round joins -/

section Join
variable {α : Type} [Scalar α] [Transc α] {C : Src α → α → Prop}

theorem baseVerticesSide_vsteps (j : Join α) (s : SideGeom α) (d : VData α) (o : Out α)
    (hd : C d.src d.halfWidth) : VSteps C o (baseVerticesSide j s d o).2 := by
  unfold baseVerticesSide
  cases s.single with
  | some p => exact VSteps.vert1 o _ hd
  | none => exact VSteps.vert _ (VSteps.vert1 o _ hd) hd

/-- `add_join_base_vertices` (negative side, then positive side): fresh vertices of the class of
`d`; afterwards all four ids of the join are valid, the interior triangles of `tessellate_join`
over them are proper and valid, a side that gets a round join has two distinct anchors; only
vertex ids changed -/
theorem baseVertices_spec (j : EP α) (d : VData α) (o : Out α) (hd : C d.src d.halfWidth) :
    VSteps C o (baseVertices j d o).2
    ∧ Good (baseVertices j d o).2.nextId (baseVertices j d o).1.ids
    ∧ Upd j (baseVertices j d o).1
    ∧ (baseVertices j d o).1.pos.next = j.pos.next ∧ (baseVertices j d o).1.neg.next = j.neg.next
    ∧ (∀ t ∈ joinInterior (baseVertices j d o).1.ids (needsJoinPos (baseVertices j d o).1.toJoin)
          (needsJoinNeg (baseVertices j d o).1.toJoin),
        Tri.Distinct t ∧ Tri.Below t (baseVertices j d o).2.nextId)
    ∧ (needsJoinPos (baseVertices j d o).1.toJoin = true →
        (baseVertices j d o).1.pos.prevVertex ≠ (baseVertices j d o).1.pos.nextVertex)
    ∧ (needsJoinNeg (baseVertices j d o).1.toJoin = true →
        (baseVertices j d o).1.neg.prevVertex ≠ (baseVertices j d o).1.neg.nextVertex) := by
  refine ⟨?_, ?_⟩
  · have e : (baseVertices j d o).2 = (baseVerticesSide j.toJoin j.toJoin.pos { d with side := .positive }
        (baseVerticesSide j.toJoin j.toJoin.neg { d with side := .negative } o).2).2 := rfl
    rw [e]
    exact (baseVerticesSide_vsteps j.toJoin j.toJoin.neg { d with side := .negative } o hd).trans
      (baseVerticesSide_vsteps j.toJoin j.toJoin.pos { d with side := .positive } _ hd)
  · rcases j with ⟨p, hw, adv, lj, src, ⟨pp, pn, ps, pi, pj⟩, ⟨np, nn, ns, ni, nj⟩, fp, fn, fl⟩
    cases ps <;> cases ns <;> cases fp <;> cases fn <;>
      (refine ⟨?_, ⟨rfl, rfl, rfl, rfl, Or.inl rfl⟩, rfl, rfl, ?_⟩ <;>
        simp [baseVertices, EP.withSides, EP.toJoin, EP.ids, addJoinBaseVertices, baseVerticesSide, Out.addVertex,
          joinInterior, needsJoinPos, needsJoinNeg, Tri.Distinct, Tri.Below, Good] <;> omega)

/-- `if count > 2 { add_edge_triangles(prev, join) }  tessellate_join(join)` over a join whose ids
have just been handed out -/
theorem edgeAndJoin_vsteps (tol : α) (count : Nat) (prev j : EP α) (d : VData α) (o : Out α)
    (hd : C d.src d.halfWidth)
    (hp : count > 2 → Out0 o.nextId prev.ids) (hj : Good o.nextId j.ids)
    (hint : ∀ t ∈ joinInterior j.ids (needsJoinPos j.toJoin) (needsJoinNeg j.toJoin),
        Tri.Distinct t ∧ Tri.Below t o.nextId)
    (hpos : needsJoinPos j.toJoin = true → j.pos.prevVertex ≠ j.pos.nextVertex)
    (hneg : needsJoinNeg j.toJoin = true → j.neg.prevVertex ≠ j.neg.nextVertex) :
    VSteps C o (edgeAndJoin tol count prev j d o) := by
  unfold edgeAndJoin
  -- the edge towards the previous join
  have s1 : VSteps C o (if count > 2 then o.addTris (addEdgeTriangles prev.ids j.ids) else o) := by
    split_ifs with h
    · exact VSteps.tris1 o _ (edge_tris_ok _ _ _ (hp h) hj.in1)
    · exact VSteps.refl o
  have hn1 : (if count > 2 then o.addTris (addEdgeTriangles prev.ids j.ids) else o).nextId = o.nextId := by
    split_ifs <;> rfl
  generalize (if count > 2 then o.addTris (addEdgeTriangles prev.ids j.ids) else o) = o1 at s1 hn1
  unfold tessellateJoin
  simp only [toJoin_ids]
  have s2 : VSteps C o1 (o1.addTris (joinInterior j.ids (needsJoinPos j.toJoin) (needsJoinNeg j.toJoin))) :=
    VSteps.tris1 o1 _ (by rw [hn1]; exact hint)
  have hn2 : (o1.addTris (joinInterior j.ids (needsJoinPos j.toJoin) (needsJoinNeg j.toJoin))).nextId
      = o.nextId := hn1
  generalize (o1.addTris (joinInterior j.ids (needsJoinPos j.toJoin) (needsJoinNeg j.toJoin))) = o2 at s2 hn2
  obtain ⟨g1, g2, g3, g4⟩ := hj
  have g1' : j.pos.prevVertex < o.nextId := g1
  have g2' : j.pos.nextVertex < o.nextId := g2
  have g3' : j.neg.prevVertex < o.nextId := g3
  have g4' : j.neg.nextVertex < o.nextId := g4
  -- the round join of the positive side
  have s3 : VSteps C o2 (roundJoinIf (needsJoinPos j.toJoin && j.toJoin.round) j.toJoin false tol d o2) := by
    unfold roundJoinIf
    split_ifs with h
    · have hnp : needsJoinPos j.toJoin = true := by
        cases hh : needsJoinPos j.toJoin <;> simp [hh] at h ⊢
      unfold tessellateRoundJoin
      simp only [Bool.false_eq_true, if_false]
      exact arc_vsteps _ _ _ _ _ _ _ (hpos hnp) (by show j.pos.prevVertex < _; omega)
        (by show j.pos.nextVertex < _; omega) hd
    · exact VSteps.refl o2
  have hn3 := s3.next_le
  generalize (roundJoinIf (needsJoinPos j.toJoin && j.toJoin.round) j.toJoin false tol d o2) = o3 at s3 hn3
  have s4 : VSteps C o3 (roundJoinIf (needsJoinNeg j.toJoin && j.toJoin.round) j.toJoin true tol d o3) := by
    unfold roundJoinIf
    split_ifs with h
    · have hnn : needsJoinNeg j.toJoin = true := by
        cases hh : needsJoinNeg j.toJoin <;> simp [hh] at h ⊢
      unfold tessellateRoundJoin
      simp only [if_true]
      exact arc_vsteps _ _ _ _ _ _ _ (fun e => hneg hnn e.symm) (by show j.neg.nextVertex < _; omega)
        (by show j.neg.prevVertex < _; omega) hd
    · exact VSteps.refl o3
  exact ((s1.trans s2).trans s3).trans s4

end Join

/-! ## flattened_step, last / first edge, close, empty caps -/

section Edges
variable {α : Type} [Scalar α] [Transc α] {C : Src α → α → Prop}

/-- the shape of `flattened_step`'s result, with the geometry abstracted -/
theorem flattenedStep_shape (prev join next : EP α) (d : VData α) (o : Out α) :
    ∃ (jAdv nAdv : α) (p0 p1 nrm : P α) (c : Prop) (_ : Decidable c),
      flattenedStep prev join next d o =
        if c then
          ⟨{ join with advancement := jAdv,
                       pos := { join.pos with prev := p0, next := p0, single := some p0 },
                       neg := { join.neg with prev := p1, next := p1, single := some p1 } },
           { next with advancement := nAdv }, true, o⟩
        else
          ⟨{ join with advancement := jAdv,
                       pos := { join.pos with prev := p0, next := p0, single := some p0,
                                              prevVertex := o.nextId, nextVertex := o.nextId },
                       neg := { join.neg with prev := p1, next := p1, single := some p1,
                                              prevVertex := o.nextId + 1, nextVertex := o.nextId + 1 } },
           { next with advancement := nAdv }, false,
           (o.addVertex { d with advancement := jAdv, normal := nrm, side := .positive }).addVertex
             { d with advancement := jAdv, normal := -nrm, side := .negative }⟩ :=
  ⟨_, _, _, _, _, _, _, rfl⟩

/-- `flattened_step`: either skips (no output) or emits the join's two vertices, which become all
four ids of the join; both sides get a single vertex, so `tessellate_join` adds nothing -/
theorem flattenedStep_spec (prev join next : EP α) (d : VData α) (o : Out α) (hd : C d.src d.halfWidth) :
    Upd join (flattenedStep prev join next d o).join
    ∧ Upd next (flattenedStep prev join next d o).next
    ∧ (flattenedStep prev join next d o).next.ids = next.ids
    ∧ needsJoinPos (flattenedStep prev join next d o).join.toJoin = false
    ∧ needsJoinNeg (flattenedStep prev join next d o).join.toJoin = false
    ∧ ((flattenedStep prev join next d o).skip = true → (flattenedStep prev join next d o).out = o)
    ∧ ((flattenedStep prev join next d o).skip = false →
        VSteps C o (flattenedStep prev join next d o).out
        ∧ Good (flattenedStep prev join next d o).out.nextId (flattenedStep prev join next d o).join.ids) := by
  obtain ⟨jAdv, nAdv, p0, p1, nrm, c, dc, e⟩ := flattenedStep_shape prev join next d o
  rw [e]
  by_cases h : c
  · rw [if_pos h]
    refine ⟨⟨rfl, rfl, rfl, rfl, Or.inl rfl⟩, ⟨rfl, rfl, rfl, rfl, Or.inl rfl⟩, rfl, ?_, ?_, fun _ => rfl, fun h => ?_⟩
    · simp [needsJoinPos, EP.toJoin]
    · simp [needsJoinNeg, EP.toJoin]
    · simp at h
  · rw [if_neg h]
    refine ⟨⟨rfl, rfl, rfl, rfl, Or.inl rfl⟩, ⟨rfl, rfl, rfl, rfl, Or.inl rfl⟩, rfl, ?_, ?_, fun h => ?_, fun _ => ⟨?_, ?_⟩⟩
    · simp [needsJoinPos, EP.toJoin]
    · simp [needsJoinNeg, EP.toJoin]
    · simp at h
    · exact VSteps.vert _ (VSteps.vert1 o _ hd) hd
    · simp only [Good, EP.ids, Out.addVertex]; omega

/-- the shape of `tessellate_last_edge`'s result, with the geometry abstracted -/
theorem lastEdge_shape (e : Env α) (p0 p1 : EP α) (isFirst : Bool) (o : Out α) :
    ∃ (adv : α) (pp np n1 n2 sn v : P α) (c : Bool),
      lastEdge e p0 p1 isFirst o =
        (({ p1 with advancement := adv,
                    pos := { p1.pos with prev := pp, prevVertex := o.nextId },
                    neg := { p1.neg with prev := np, prevVertex := o.nextId + 1 } } : EP α),
         if c then
           tessellateRoundCap p1.position p1.halfWidth sn o.nextId (o.nextId + 1) v e.o.tolerance false
             (baseVertex p1.src p1.position p1.halfWidth adv)
             (if isFirst then
                (o.addVertex { baseVertex p1.src p1.position p1.halfWidth adv with side := .positive, normal := n1 }).addVertex
                  { baseVertex p1.src p1.position p1.halfWidth adv with side := .negative, normal := n2 }
              else
                ((o.addVertex { baseVertex p1.src p1.position p1.halfWidth adv with side := .positive, normal := n1 }).addVertex
                  { baseVertex p1.src p1.position p1.halfWidth adv with side := .negative, normal := n2 }).addTris
                  (addEdgeTriangles p0.ids { p1.ids with posPrev := o.nextId, negPrev := o.nextId + 1 }))
         else
           (if isFirst then
              (o.addVertex { baseVertex p1.src p1.position p1.halfWidth adv with side := .positive, normal := n1 }).addVertex
                { baseVertex p1.src p1.position p1.halfWidth adv with side := .negative, normal := n2 }
            else
              ((o.addVertex { baseVertex p1.src p1.position p1.halfWidth adv with side := .positive, normal := n1 }).addVertex
                { baseVertex p1.src p1.position p1.halfWidth adv with side := .negative, normal := n2 }).addTris
                (addEdgeTriangles p0.ids { p1.ids with posPrev := o.nextId, negPrev := o.nextId + 1 }))) :=
  ⟨_, _, _, _, _, _, _, e.o.endCap == .round, rfl⟩

/-- `tessellate_last_edge`: two fresh vertices at `p1` (they become its `prev` ids), the edge
triangles towards `p0` unless this is the first edge, the round end cap -/
theorem lastEdge_spec (e : Env α) (p0 p1 : EP α) (isFirst : Bool) (o : Out α)
    (hd : C p1.src p1.halfWidth)
    (h0 : isFirst = false → Out0 (o.nextId + 2) p0.ids)
    (h1 : Raw p1.ids ∨ Good o.nextId p1.ids) :
    VSteps C o (lastEdge e p0 p1 isFirst o).2
    ∧ Upd p1 (lastEdge e p0 p1 isFirst o).1
    ∧ In1 (lastEdge e p0 p1 isFirst o).2.nextId (lastEdge e p0 p1 isFirst o).1.ids := by
  have hin : In1 (o.nextId + 2) { p1.ids with posPrev := o.nextId, negPrev := o.nextId + 1 } := by
    rcases h1 with h | h
    · exact h.in1 _ (by omega)
    · exact ((h.mono (by omega : o.nextId ≤ o.nextId + 2)).setPrev _ (by omega)).in1
  obtain ⟨adv, pp, np, n1, n2, sn, v, c, e1⟩ := lastEdge_shape e p0 p1 isFirst o
  rw [e1]
  generalize hd1 : ({ baseVertex p1.src p1.position p1.halfWidth adv with side := Side.positive, normal := n1 } : VData α) = d1
  generalize hd2 : ({ baseVertex p1.src p1.position p1.halfWidth adv with side := Side.negative, normal := n2 } : VData α) = d2
  have c1 : C d1.src d1.halfWidth := by subst hd1; exact hd
  have c2 : C d2.src d2.halfWidth := by subst hd2; exact hd
  have s12 : VSteps C o ((o.addVertex d1).addVertex d2) := VSteps.vert _ (VSteps.vert1 o _ c1) c2
  have hn2 : ((o.addVertex d1).addVertex d2).nextId = o.nextId + 2 := rfl
  generalize ((o.addVertex d1).addVertex d2) = o2 at s12 hn2
  have s3 : VSteps C o2 (if isFirst = true then o2 else o2.addTris (addEdgeTriangles p0.ids
        { p1.ids with posPrev := o.nextId, negPrev := o.nextId + 1 }))
      ∧ (if isFirst = true then o2 else o2.addTris (addEdgeTriangles p0.ids
        { p1.ids with posPrev := o.nextId, negPrev := o.nextId + 1 })).nextId = o.nextId + 2 := by
    split_ifs with hf
    · exact ⟨VSteps.refl _, hn2⟩
    · refine ⟨VSteps.tris1 o2 _ ?_, hn2⟩
      rw [hn2]
      exact edge_tris_ok _ _ _ (h0 (by simpa using hf)) hin
  obtain ⟨s3a, s3b⟩ := s3
  generalize (if isFirst = true then o2 else o2.addTris (addEdgeTriangles p0.ids
        { p1.ids with posPrev := o.nextId, negPrev := o.nextId + 1 })) = o3 at s3a s3b
  have s4 : VSteps C o3 (if c = true then
      tessellateRoundCap p1.position p1.halfWidth sn o.nextId (o.nextId + 1) v e.o.tolerance false
        (baseVertex p1.src p1.position p1.halfWidth adv) o3 else o3) := by
    split_ifs
    · exact roundCap_vsteps _ _ _ _ _ _ _ _ _ _ (by omega) (by omega) (by omega) hd
    · exact VSteps.refl _
  have hle := s4.next_le
  generalize (if c = true then
      tessellateRoundCap p1.position p1.halfWidth sn o.nextId (o.nextId + 1) v e.o.tolerance false
        (baseVertex p1.src p1.position p1.halfWidth adv) o3 else o3) = o4 at s4 hle
  refine ⟨s12.trans (s3a.trans s4), ⟨rfl, rfl, rfl, rfl, Or.inl rfl⟩, ?_⟩
  obtain ⟨i1, i2⟩ := hin
  have hle' : o.nextId + 2 ≤ o4.nextId := by omega
  exact ⟨Nat.lt_of_lt_of_le i1 hle', Nat.lt_of_lt_of_le i2 hle'⟩

/-- the shape of `tessellate_first_edge`'s result -/
theorem firstEdge_shape (e : Env α) (first second : EP α) (o : Out α) :
    ∃ (n1 n2 sn v : P α) (c : Bool),
      firstEdge e first second o =
        if c then
          tessellateRoundCap first.position first.halfWidth sn (o.nextId + 1) o.nextId v e.o.tolerance true
            (baseVertex first.src first.position first.halfWidth first.advancement)
            (((o.addVertex { baseVertex first.src first.position first.halfWidth first.advancement with
                  side := .positive, normal := n1 }).addVertex
                { baseVertex first.src first.position first.halfWidth first.advancement with
                  side := .negative, normal := n2 }).addTris
              (addEdgeTriangles { first.ids with posNext := o.nextId, negNext := o.nextId + 1 } second.ids))
        else
          (((o.addVertex { baseVertex first.src first.position first.halfWidth first.advancement with
                  side := .positive, normal := n1 }).addVertex
                { baseVertex first.src first.position first.halfWidth first.advancement with
                  side := .negative, normal := n2 }).addTris
              (addEdgeTriangles { first.ids with posNext := o.nextId, negNext := o.nextId + 1 } second.ids)) :=
  ⟨_, _, _, _, e.o.startCap == .round, rfl⟩

/-- `tessellate_first_edge`: two fresh vertices at the first point (its `next` ids), the first
edge's triangles, the round start cap -/
theorem firstEdge_spec (e : Env α) (first second : EP α) (o : Out α)
    (hd : C first.src first.halfWidth) (h0 : Raw first.ids)
    (h1 : In1 (o.nextId + 2) second.ids) :
    VSteps C o (firstEdge e first second o) := by
  obtain ⟨n1, n2, sn, v, c, e1⟩ := firstEdge_shape e first second o
  rw [e1]
  generalize hd1 : ({ baseVertex first.src first.position first.halfWidth first.advancement with
      side := Side.positive, normal := n1 } : VData α) = d1
  generalize hd2 : ({ baseVertex first.src first.position first.halfWidth first.advancement with
      side := Side.negative, normal := n2 } : VData α) = d2
  have c1 : C d1.src d1.halfWidth := by subst hd1; exact hd
  have c2 : C d2.src d2.halfWidth := by subst hd2; exact hd
  have s12 : VSteps C o ((o.addVertex d1).addVertex d2) := VSteps.vert _ (VSteps.vert1 o _ c1) c2
  have hn2 : ((o.addVertex d1).addVertex d2).nextId = o.nextId + 2 := rfl
  generalize ((o.addVertex d1).addVertex d2) = o2 at s12 hn2
  have s3 : VSteps C o2 (o2.addTris (addEdgeTriangles { first.ids with posNext := o.nextId, negNext := o.nextId + 1 }
      second.ids)) := by
    refine VSteps.tris1 o2 _ ?_
    rw [hn2]
    exact edge_tris_ok _ _ _ (h0.out0 _ (by omega)) h1
  have hn3 : (o2.addTris (addEdgeTriangles { first.ids with posNext := o.nextId, negNext := o.nextId + 1 }
      second.ids)).nextId = o.nextId + 2 := hn2
  generalize (o2.addTris (addEdgeTriangles { first.ids with posNext := o.nextId, negNext := o.nextId + 1 }
      second.ids)) = o3 at s3 hn3
  refine s12.trans (s3.trans ?_)
  split_ifs
  · exact roundCap_vsteps _ _ _ _ _ _ _ _ _ _ (by omega) (by omega) (by omega) hd
  · exact VSteps.refl _

/-- the end of `close`: two fresh vertices at `q0` (its `next` ids) and the closing edge -/
theorem closeVertices_spec (q0 q1 : EP α) (adv : α) (o : Out α)
    (hd : C q0.src q0.halfWidth) (h0 : Good o.nextId q0.ids) (h1 : Good o.nextId q1.ids) :
    VSteps C o ((closeVertices q0 adv o).2.addTris (addEdgeTriangles (closeVertices q0 adv o).1.ids q1.ids)) := by
  have e1 : (closeVertices q0 adv o).1.ids = { q0.ids with posNext := o.nextId, negNext := o.nextId + 1 } := rfl
  have hn : (closeVertices q0 adv o).2.nextId = o.nextId + 2 := rfl
  have s12 : VSteps C o (closeVertices q0 adv o).2 := by
    unfold closeVertices
    exact VSteps.vert _ (VSteps.vert1 o _ hd) hd
  refine s12.trans (VSteps.tris1 _ _ ?_)
  rw [hn, e1]
  exact edge_tris_ok _ _ _ ((h0.mono (by omega : o.nextId ≤ o.nextId + 2)).setNext _ (by omega)).out0
    (h1.mono (by omega)).in1

/-- `tessellate_empty_cap` -/
theorem emptyCap_spec (e : Env α) (st : St α)
    (hd : ∀ point, st.buf.get 0 = some point → C point.src point.halfWidth) :
    VSteps C st.out (emptyCap e st) := by
  unfold emptyCap
  cases hg : st.buf.get 0 with
  | none => exact VSteps.refl _
  | some point =>
    simp only []
    cases e.o.startCap with
    | square => exact emptySquareCap_vsteps _ _ _ (hd point hg)
    | round => exact emptyRoundCap_vsteps _ _ _ _ (hd point hg)
    | butt => exact VSteps.refl _

end Edges

end Lyon.C05c
