/-
  The theorem-side instance of `Scalar`: any linearly ordered field.
  The model `def`s are the same ones the executable driver runs at `Float32`/`Float`.
-/
import LyonVerif.Model.Scalar
import LyonVerif.Lemmas.Attr
import Mathlib.Algebra.Order.Field.Basic
import Mathlib.Tactic.Ring
import Mathlib.Tactic.Linarith
import Mathlib.Tactic.FieldSimp
import Mathlib.Tactic.LinearCombination

set_option linter.unusedSectionVars false

geom_all Lyon.P
geom_all Lyon.Scalar

namespace Lyon

section
variable {K : Type} [Field K] [LinearOrder K] [IsStrictOrderedRing K]

noncomputable instance fieldScalar : Scalar K where
  add := (· + ·)
  sub := (· - ·)
  mul := (· * ·)
  div := (· / ·)
  neg := fun a => -a
  lt := (· < ·)
  le := (· ≤ ·)
  beq := fun a b => decide (a = b)
  ofNat := fun n => (n : K)
  ofSci := fun m e => (m : K) / (10 : K) ^ e
  dlt := fun a b => inferInstanceAs (Decidable (a < b))
  dle := fun a b => inferInstanceAs (Decidable (a ≤ b))
  abs := fun a => |a|
  min := fun a b => Min.min a b
  max := fun a b => Max.max a b

@[simp] theorem sc_zero : (Scalar.ofNat 0 : K) = 0 := by simp [Scalar.ofNat]
@[simp] theorem sc_one : (Scalar.ofNat 1 : K) = 1 := by simp [Scalar.ofNat]
@[simp] theorem sc_two : (Scalar.ofNat 2 : K) = 2 := by simp [Scalar.ofNat]
@[simp] theorem sc_three : (Scalar.ofNat 3 : K) = 3 := by simp [Scalar.ofNat]
@[simp] theorem sc_four : (Scalar.ofNat 4 : K) = 4 := by simp [Scalar.ofNat]
@[simp] theorem sc_six : (Scalar.ofNat 6 : K) = 6 := by simp [Scalar.ofNat]
@[simp] theorem sc_half : (Scalar.ofSci 5 1 : K) = 1/2 := by simp [Scalar.ofSci]; norm_num
theorem sc_beq (a b : K) : ((a == b) = true) ↔ a = b := by
  show (decide (a = b) = true) ↔ a = b
  simp

@[geom] theorem ofNat_eq (n : Nat) : (Scalar.ofNat n : K) = (n : K) := rfl
@[geom] theorem ofSci_eq (m e : Nat) : (Scalar.ofSci m e : K) = (m : K) / (10 : K) ^ e := rfl
@[geom] theorem sc_add (a b : K) : Add.add a b = a + b := rfl
@[geom] theorem sc_abs (a : K) : Scalar.abs a = |a| := rfl
@[geom] theorem sc_min (a b : K) : Scalar.min a b = min a b := rfl
@[geom] theorem sc_max (a b : K) : Scalar.max a b = max a b := rfl

theorem P.ext' {a b : P K} (hx : a.x = b.x) (hy : a.y = b.y) : a = b := by
  cases a; cases b; simp_all

@[geom] theorem P.add_def (a b : P K) : a + b = ⟨a.x + b.x, a.y + b.y⟩ := rfl
@[geom] theorem P.sub_def (a b : P K) : a - b = ⟨a.x - b.x, a.y - b.y⟩ := rfl
@[geom] theorem P.neg_def (a : P K) : -a = ⟨-a.x, -a.y⟩ := rfl

end

/-- unfold the model down to field arithmetic and close the goal with `ring`
(point equalities are split into coordinates first) -/
macro "geom_ring" : tactic => `(tactic|
  (first
    | (apply P.ext' <;> (simp only [geom, Nat.cast_ofNat, Nat.cast_one, Nat.cast_zero, pow_one]) <;> ring)
    | ((simp only [geom, Nat.cast_ofNat, Nat.cast_one, Nat.cast_zero, pow_one]) <;> ring)))

end Lyon
