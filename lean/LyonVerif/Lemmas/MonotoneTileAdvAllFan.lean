/-
  C02 growth 5 (`Props/C02h.lean`), part 1: `flush_side`'s fan WITHOUT general position.  A buffered
  chain is only WEAKLY convex (`ConvexChainW`: what `outward_turn` maintains, collinear triples
  allowed): a collinear ear is a zero-area triangle, an empty open tile that leaves the chain polygon
  unchanged (`flat_tiles_op`, `flat_tail`), a non-degenerate ear may have vertices ON the chord
  (`inTriS_side_le`, `inTriS_side_weak`: three points on a line are collinear, `wind_of_on_line`).
  The closed tiles of the covering clause are the NON-degenerate ones (`TriInCN`), which is what
  lets a covered point inherit strict half-plane tests from the tile's vertices.
  `flush_fan_tilesW`: the doubling loop tiles the chain polygon (closed on its chord side).
-/
import LyonVerif.Lemmas.MonotoneTileAdvSetCov3

set_option linter.unusedSectionVars false
set_option linter.unusedVariables false
set_option linter.unusedSimpArgs false

namespace Lyon.C02f
open Lyon Lyon.Mono Lyon.C02 Lyon.C02c

section Geometry
variable {K : Type} [Field K] [LinearOrder K] [IsStrictOrderedRing K]

/-- two vectors parallel to a third (non-zero) one are parallel -/
theorem cross_par {a b D : P K} (hD : Hv D) (h1 : a.cross D = 0) (h2 : b.cross D = 0) : a.cross b = 0 := by
  simp only [geom] at h1 h2 ⊢
  have ix : (a.x * b.y - a.y * b.x) * D.x = (a.x * D.y - a.y * D.x) * b.x - (b.x * D.y - b.y * D.x) * a.x := by ring
  have iy : (a.x * b.y - a.y * b.x) * D.y = (a.x * D.y - a.y * D.x) * b.y - (b.x * D.y - b.y * D.x) * a.y := by ring
  rw [h1, h2] at ix iy
  rcases hD with g | ⟨_, g⟩
  · rcases mul_eq_zero.mp (by linarith : (a.x * b.y - a.y * b.x) * D.y = 0) with z | z
    · exact z
    · linarith
  · rcases mul_eq_zero.mp (by linarith : (a.x * b.y - a.y * b.x) * D.x = 0) with z | z
    · exact z
    · linarith

/-- three points on the line `o₁ o₂` are collinear -/
theorem wind_of_on_line {o1 o2 x y z : P K} (ho : After o2 o1) (hx : wind o1 o2 x = 0) (hy : wind o1 o2 y = 0)
    (hz : wind o1 o2 z = 0) : wind x y z = 0 := by
  have hD := after_hv ho
  have e : ∀ p r : P K, (p - r).cross (o2 - o1) = wind o1 o2 p - wind o1 o2 r := by
    intro p r; simp only [wind]; geom_ring
  have h1 : (x - y).cross (o2 - o1) = 0 := by rw [e, hx, hy]; ring
  have h2 : (z - y).cross (o2 - o1) = 0 := by rw [e, hz, hy]; ring
  exact cross_par hD h1 h2

/-- weak version of `inTriS_side`: the three vertices weakly on a side ⟹ the point weakly on it -/
theorem inTriS_side_le {σ τ : Bool} {x y z q o1 o2 : P K} (h : InTriS σ x y z q)
    (hx : 0 ≤ sg τ * wind o1 o2 x) (hy : 0 ≤ sg τ * wind o1 o2 y) (hz : 0 ≤ sg τ * wind o1 o2 z) :
    0 ≤ sg τ * wind o1 o2 q := by
  have hW := inTriS_pos h
  obtain ⟨hc, ha, hb⟩ := h
  have e := bary_wind x y z q o1 o2
  have : 0 ≤ (sg σ * wind x y z) * (sg τ * wind o1 o2 q) := by
    have e' : (sg σ * wind x y z) * (sg τ * wind o1 o2 q) =
        (sg σ * wind y z q) * (sg τ * wind o1 o2 x) + (sg σ * wind z x q) * (sg τ * wind o1 o2 y)
          + (sg σ * wind x y q) * (sg τ * wind o1 o2 z) := by
      linear_combination (sg σ * sg τ) * e
    rw [e']
    have := mul_nonneg ha.le hx
    have := mul_nonneg hb.le hy
    have := mul_nonneg hc.le hz
    linarith
  by_contra hn
  have := mul_neg_of_pos_of_neg hW (not_le.mp hn)
  linarith

/-- a point strictly inside a (non-degenerate) triangle whose vertices lie weakly on a side of the
line `o₁ o₂` lies STRICTLY on that side -/
theorem inTriS_side_weak {σ τ : Bool} {x y z q o1 o2 : P K} (ho : After o2 o1) (h : InTriS σ x y z q)
    (hx : 0 ≤ sg τ * wind o1 o2 x) (hy : 0 ≤ sg τ * wind o1 o2 y) (hz : 0 ≤ sg τ * wind o1 o2 z) :
    0 < sg τ * wind o1 o2 q := by
  have hW := inTriS_pos h
  have hle := inTriS_side_le h hx hy hz
  refine lt_of_le_of_ne hle (Ne.symm ?_)
  intro e0
  obtain ⟨hc, ha, hb⟩ := h
  have e := bary_wind x y z q o1 o2
  have e' : (sg σ * wind x y z) * (sg τ * wind o1 o2 q) =
      (sg σ * wind y z q) * (sg τ * wind o1 o2 x) + (sg σ * wind z x q) * (sg τ * wind o1 o2 y)
        + (sg σ * wind x y q) * (sg τ * wind o1 o2 z) := by
    linear_combination (sg σ * sg τ) * e
  rw [e0, mul_zero] at e'
  have m1 := mul_nonneg ha.le hx
  have m2 := mul_nonneg hb.le hy
  have m3 := mul_nonneg hc.le hz
  have z1 : sg τ * wind o1 o2 x = 0 := by
    rcases mul_eq_zero.mp (by linarith : (sg σ * wind y z q) * (sg τ * wind o1 o2 x) = 0) with g | g
    · linarith
    · exact g
  have z2 : sg τ * wind o1 o2 y = 0 := by
    rcases mul_eq_zero.mp (by linarith : (sg σ * wind z x q) * (sg τ * wind o1 o2 y) = 0) with g | g
    · linarith
    · exact g
  have z3 : sg τ * wind o1 o2 z = 0 := by
    rcases mul_eq_zero.mp (by linarith : (sg σ * wind x y q) * (sg τ * wind o1 o2 z) = 0) with g | g
    · linarith
    · exact g
  have w0 : ∀ {p : P K}, sg τ * wind o1 o2 p = 0 → wind o1 o2 p = 0 := by
    intro p hp
    rcases mul_eq_zero.mp hp with g | g
    · exact absurd g (sg_ne_zero _)
    · exact g
  have := wind_of_on_line ho (w0 z1) (w0 z2) (w0 z3)
  rw [this] at hW; simp at hW

/-- a degenerate ear with an arbitrary opposite side: the region does not change -/
theorem flat_tiles_op (c : Bool) (A B : List (P K)) {x y z : P K} (Op : P K → Prop) (Ic : Unit → P K → Prop)
    (hyx : After y x) (hzy : After z y) (h0 : wind x y z = 0) :
    Tiles (fun q => ChainIn c (A ++ x :: y :: z :: B) q ∧ Op q) (fun (_ : Unit) => InTriS c x y z) Ic [()]
      (fun q => ChainIn c (A ++ x :: z :: B) q ∧ Op q) := by
  have hempty : ∀ q, ¬ InTriS c x y z q := by
    intro q hq
    have := inTriS_pos hq
    rw [h0] at this; simp at this
  refine ⟨fun _ _ q hq => absurd hq (hempty q), ?_, fun _ _ q hq => absurd hq (hempty q), by simp, ?_⟩
  · rintro q ⟨h1, h2⟩
    exact ⟨(flat_chain c A B hyx hzy h0 q).mpr h1, h2⟩
  · rintro q ⟨h1, h2⟩
    exact Or.inl ⟨(flat_chain c A B hyx hzy h0 q).mp h1, h2⟩

/-- `ear_tiles_op` with the closed tile marked non-degenerate -/
theorem ear_tiles_opN (c : Bool) (A B : List (P K)) {x y z : P K} (Op : P K → Prop) (hyx : After y x) (hzy : After z y)
    (hconv : 0 < sg c * wind x y z) (hA : SortedP (A ++ [x])) (hB : SortedP (z :: B))
    (hO : ∀ q, InTriS c x y z q → Op q) :
    Tiles (fun q => ChainIn c (A ++ x :: y :: z :: B) q ∧ Op q) (fun (_ : Unit) => InTriS c x y z)
      (fun _ q => InTriSC c x y z q ∧ 0 < sg c * wind x y z) [()] (fun q => ChainIn c (A ++ x :: z :: B) q ∧ Op q) := by
  have t := ear_tiles_op c A B Op hyx hzy hconv hA hB hO
  refine ⟨t.inside, t.sub, t.apart, t.disj, ?_⟩
  intro q hq
  rcases t.cover q hq with g | ⟨u, hu, g⟩
  · exact Or.inl g
  · exact Or.inr ⟨u, hu, g, hconv⟩

/-- the left-over triangle of a level, degenerate or not -/
theorem tail_stepW (c : Bool) (C : List (P K)) {o b z : P K} (hC : (C ++ [b]).head? = some o)
    (hs : SortedP (C ++ [b])) (hbo : After b o) (hzb : After z b)
    (hconvw : 0 ≤ sg c * wind o b z) (hv : ∀ v ∈ C ++ [b], 0 ≤ sg c * wind o v b) :
    Tiles (fun q => ChainIn c (C ++ [b, z]) q ∧ CSide c o z q) (fun (_ : Unit) => InTriS c o b z)
      (fun _ q => InTriSC c o b z q ∧ 0 < sg c * wind o b z) [()] (fun q => ChainIn c (C ++ [b]) q ∧ CSide c o b q) := by
  by_cases hflat : wind o b z = 0
  · -- `o, b, z` on a line: the chord `o → z` runs through `b`; nothing is cut
    have hzo := after_trans hzb hbo
    have hempty : ∀ q, ¬ InTriS c o b z q := by
      intro q hq
      have := inTriS_pos hq
      rw [hflat] at this; simp at this
    have hlastb : (C ++ [b]).getLast? = some b := by simp
    have hsame : ∀ q, (0 ≤ sg (!c) * wind o b q ↔ 0 ≤ sg (!c) * wind o z q) := by
      intro q
      have := flat_from_x c (q := q) hbo hzo hflat
      rw [sg_not]
      constructor
      · intro g; by_contra hn
        have := this.mpr (by linarith [not_le.mp hn]); linarith
      · intro g; by_contra hn
        have := this.mp (by linarith [not_le.mp hn]); linarith
    refine ⟨fun _ _ q hq => absurd hq (hempty q), ?_, fun _ _ q hq => absurd hq (hempty q), by simp, ?_⟩
    · rintro q ⟨h1, ⟨hqo, hbq⟩, hin⟩
      refine ⟨(chainIn_append c C b [z] q).mpr (Or.inl h1), ⟨hqo, after_trans hzb hbq⟩, (hsame q).mp hin⟩
    · rintro q ⟨h1, ⟨hqo, hzq⟩, hin⟩
      left
      rcases (chainIn_append c C b [z] q).mp h1 with g | ⟨⟨hqb, _⟩, g⟩ | g
      · exact ⟨g, ⟨hqo, chainIn_upper c (C ++ [b]) q b hs hlastb g⟩, (hsame q).mpr hin⟩
      · exfalso
        have := (flat_to_z c (q := q) hzb hzo hflat).mp g
        rw [sg_not] at hin; linarith
      · exact absurd g (chainIn_single c z q)
  · have hconv : 0 < sg c * wind o b z := by
      refine lt_of_le_of_ne hconvw (Ne.symm ?_)
      intro e
      rcases mul_eq_zero.mp e with g | g
      · exact sg_ne_zero _ g
      · exact hflat g
    have t := tail_ear_tilesC c C hC hs hbo hzb hconv hv
    refine ⟨t.inside, t.sub, t.apart, t.disj, ?_⟩
    intro q hq
    rcases t.cover q hq with g | ⟨u, hu, g⟩
    · exact Or.inl g
    · exact Or.inr ⟨u, hu, g, hconv⟩

/-- a chain that is strictly sorted and WEAKLY convex to side `c` -/
structure ConvexChainW (q : Nat → P K) (c : Bool) (len : Nat) : Prop where
  sort : ∀ a b, a < b → b < len → After (q b) (q a)
  conv : ∀ a b d, a < b → b < d → d < len → 0 ≤ sg c * wind (q a) (q b) (q d)

variable {q : Nat → P K} {c : Bool} {len : Nat}

theorem ConvexChainW.sorted_pts (h : ConvexChainW q c len) (s : Nat) (hs : 1 ≤ s) (l : List Nat)
    (hl : l.Pairwise (· < ·)) (hb : ∀ j ∈ l, j * s < len) : SortedP (pts q s l) := by
  unfold SortedP pts
  rw [List.pairwise_map]
  refine hl.imp_of_mem ?_
  intro a b ha hb' hab
  exact h.sort _ _ (Nat.mul_lt_mul_of_pos_right hab (by omega)) (hb b hb')

theorem ConvexChainW.mid_side (h : ConvexChainW q c len) {p t : Nat} (hp : p ≤ t) (ht : t < len) :
    0 ≤ sg c * wind (q 0) (q p) (q t) := by
  by_cases h0 : p = 0
  · subst h0; rw [wind_self_mid]; simp
  by_cases h1 : p = t
  · subst h1; rw [wind_self_right]; simp
  · exact h.conv 0 p t (by omega) (by omega) ht

theorem ConvexChainW.chord_side (h : ConvexChainW q c len) {p t : Nat} (hp : p ≤ t) (ht : t < len) :
    0 ≤ sg (!c) * wind (q 0) (q t) (q p) := by
  have e : sg (!c) * wind (q 0) (q t) (q p) = sg c * wind (q 0) (q p) (q t) := by
    rw [sg_not, wind_swap_bc]; ring
  rw [e]; exact h.mid_side hp ht

/-- **the ears at the odd multiples** -/
theorem mains_tilesW (h : ConvexChainW q c len) (s m : Nat) (hs : 1 ≤ s) (hm : m * s < len) (n : Nat)
    (hn : 2 * n ≤ m) :
    Tiles (fun x => ChainIn c (pts q s (List.range (m + 1))) x ∧ CSide c (q 0) (q (m * s)) x)
      (fun t : Nat × Nat × Nat => InTriS c (q t.1) (q t.2.1) (q t.2.2))
      (fun t x => InTriSC c (q t.1) (q t.2.1) (q t.2.2) x ∧ 0 < sg c * wind (q t.1) (q t.2.1) (q t.2.2))
      ((List.range n).map (triS s)) (fun x => ChainIn c (chainN q s m n) x ∧ CSide c (q 0) (q (m * s)) x) := by
  induction n with
  | zero =>
    rw [chainN_zero]
    exact Tiles.refl _ _ _
  | succ n ih =>
    have ih' := ih (by omega)
    obtain ⟨e1, e2⟩ := chainN_step (q := q) s m n (by omega)
    rw [List.range_succ (n := n), List.map_append]
    refine ih'.trans ?_
    rw [e1, e2]
    have hms : ∀ j, j ≤ m → j * s < len := fun j hj => lt_of_le_of_lt (Nat.mul_le_mul_right s hj) hm
    have hx : n * 2 * s < n * 2 * s + s := by omega
    have hz : n * 2 * s + s + s ≤ m * s := by
      have : (2 * n + 2) * s ≤ m * s := Nat.mul_le_mul_right s (by omega)
      have e : (2 * n + 2) * s = n * 2 * s + s + s := by ring
      omega
    have hyx : After (q (n * 2 * s + s)) (q (n * 2 * s)) := h.sort _ _ (by omega) (by omega)
    have hzy : After (q (n * 2 * s + s + s)) (q (n * 2 * s + s)) := h.sort _ _ (by omega) (by omega)
    have hconvw := h.conv (n * 2 * s) (n * 2 * s + s) (n * 2 * s + s + s) (by omega) (by omega) (by omega)
    have hA : SortedP (pts q (2 * s) (List.range n) ++ [q (n * 2 * s)]) := by
      have := h.sorted_pts (2 * s) (by omega) (List.range (n + 1)) (by
        rw [List.range_eq_range']; exact List.pairwise_lt_range') (by
        intro j hj
        have : j ≤ n := by have := List.mem_range.mp hj; omega
        have : j * (2 * s) ≤ n * (2 * s) := Nat.mul_le_mul_right _ this
        have e : n * (2 * s) = n * 2 * s := by ring
        omega)
      rw [List.range_succ] at this
      simpa [pts, Nat.mul_assoc] using this
    have hB : SortedP (q (n * 2 * s + s + s) :: pts q s (List.range' (2 * n + 3) (m - 2 * n - 2))) := by
      have := h.sorted_pts s hs (List.range' (2 * n + 2) (m - 2 * n - 2 + 1)) List.pairwise_lt_range' (by
        intro j hj
        have := List.mem_range'_1.mp hj
        exact hms j (by omega))
      rw [List.range'_succ] at this
      have e : (2 * n + 2) * s = n * 2 * s + s + s := by ring
      simpa [pts, e] using this
    have hxo : AfterEq (q (n * 2 * s)) (q 0) := by
      by_cases h0 : n * 2 * s = 0
      · rw [h0]; exact Or.inl rfl
      · exact Or.inr (h.sort _ _ (by omega) (by omega))
    have hzo : AfterEq (q (m * s)) (q (n * 2 * s + s + s)) := by
      by_cases h0 : n * 2 * s + s + s = m * s
      · rw [h0]; exact Or.inl rfl
      · exact Or.inr (h.sort _ _ (by omega) hm)
    have hO : ∀ x, InTriS c (q (n * 2 * s)) (q (n * 2 * s + s)) (q (n * 2 * s + s + s)) x → CSide c (q 0) (q (m * s)) x := by
      intro x hx'
      refine ⟨⟨Or.inr (after_trans_afterEq (inTriS_after hyx hzy hx').1 hxo),
        afterEq_trans_after hzo (inTriS_after hyx hzy hx').2⟩, ?_⟩
      exact inTriS_side_le hx' (h.chord_side (by omega) hm) (h.chord_side (p := n * 2 * s + s) (by omega) hm)
        (h.chord_side hz hm)
    by_cases hflat : wind (q (n * 2 * s)) (q (n * 2 * s + s)) (q (n * 2 * s + s + s)) = 0
    · have step := flat_tiles_op c (pts q (2 * s) (List.range n)) (pts q s (List.range' (2 * n + 3) (m - 2 * n - 2)))
        (CSide c (q 0) (q (m * s)))
        (fun (_ : Unit) x => InTriSC c (q (n * 2 * s)) (q (n * 2 * s + s)) (q (n * 2 * s + s + s)) x ∧
          0 < sg c * wind (q (n * 2 * s)) (q (n * 2 * s + s)) (q (n * 2 * s + s + s))) hyx hzy hflat
      exact step.map (fun _ => triS s n) (fun _ _ _ => Iff.rfl) (fun _ _ _ g => g)
    · have hconv : 0 < sg c * wind (q (n * 2 * s)) (q (n * 2 * s + s)) (q (n * 2 * s + s + s)) := by
        refine lt_of_le_of_ne hconvw (Ne.symm ?_)
        intro e
        rcases mul_eq_zero.mp e with z | z
        · exact sg_ne_zero _ z
        · exact hflat z
      have step := ear_tiles_opN c (pts q (2 * s) (List.range n)) (pts q s (List.range' (2 * n + 3) (m - 2 * n - 2)))
        (CSide c (q 0) (q (m * s))) hyx hzy hconv hA hB hO
      exact step.map (fun _ => triS s n) (fun _ _ _ => Iff.rfl) (fun _ _ _ g => g)


/-- closed and non-degenerate emitted triangle -/
def TriInCN (pos : Nat → P K) (t : Tri) (q : P K) : Prop := TriInC pos t q ∧ 0 < triW pos t

variable (pos : Nat → P K) (ev : Array Nat)

theorem posTriN_in (right : Bool) (t : Nat × Nat × Nat) (x : P K) :
    (InTriSC (!right) (pos (ev.getD t.1 0)) (pos (ev.getD t.2.1 0)) (pos (ev.getD t.2.2 0)) x ∧
      0 < sg (!right) * wind (pos (ev.getD t.1 0)) (pos (ev.getD t.2.1 0)) (pos (ev.getD t.2.2 0))) →
      TriInCN pos (posTri ev right t) x := by
  rintro ⟨h1, h2⟩
  refine ⟨(posTri_in pos ev right t x).2 h1, ?_⟩
  cases right
  · simpa [posTri, triW, sg] using h2
  · simp only [posTri, if_true, triW]
    rw [wind_swap]
    simpa [sg] using h2

theorem posTriXN_in (right : Bool) (t : Nat × Nat × Nat) (x : P K) :
    (InTriSC (!right) (pos (ev.getD t.1 0)) (pos (ev.getD t.2.1 0)) (pos (ev.getD t.2.2 0)) x ∧
      0 < sg (!right) * wind (pos (ev.getD t.1 0)) (pos (ev.getD t.2.1 0)) (pos (ev.getD t.2.2 0))) →
      TriInCN pos (posTriX ev right t) x := by
  rintro ⟨h1, h2⟩
  refine ⟨(posTriX_in pos ev right t x).2 h1, ?_⟩
  cases right
  · simpa [posTriX, triW, sg] using h2
  · simp only [posTriX, if_true, triW]
    rw [wind_swap_bc]
    simpa [sg] using h2

/-- **one level of the doubling loop** -/
theorem level_tilesW (right : Bool) (len step : Nat)
    (h : ConvexChainW (fun i => pos (ev.getD i 0)) (!right) len) (hs : 1 ≤ step) (hlt : step * 2 < len) :
    Tiles (polyAtC (fun i => pos (ev.getD i 0)) (!right) len step) (TriIn pos) (TriInCN pos)
      (flushLevel ev len step right) (polyAtC (fun i => pos (ev.getD i 0)) (!right) len (2 * step)) := by
  generalize hq : (fun i => pos (ev.getD i 0)) = q at h ⊢
  have hqa : ∀ i, pos (ev.getD i 0) = q i := fun i => by rw [← hq]
  have hq2 : (len - 1) / (2 * step) = (len - 1) / step / 2 := by
    rw [Nat.div_div_eq_div_mul, Nat.mul_comm]
  have hm1 : 1 ≤ (len - 1) / (2 * step) := by
    rw [Nat.le_div_iff_mul_le (by omega)]; omega
  have hmul : (len - 1) / step * step ≤ len - 1 := Nat.div_mul_le_self _ _
  have hm : (len - 1) / step * step < len := by omega
  obtain ⟨m', hm'⟩ : ∃ m', (len - 1) / (2 * step) = m' + 1 := ⟨(len - 1) / (2 * step) - 1, by omega⟩
  have hm2 : (len - 1) / step = 2 * (m' + 1) ∨ (len - 1) / step = 2 * (m' + 1) + 1 := by omega
  -- the ears at the odd multiples
  have T1 := (mains_tilesW h step ((len - 1) / step) hs hm (m' + 1) (by omega)).map (posTri ev right)
    (fun t _ x => by have := (posTri_in pos ev right t x).1; simpa only [hqa] using this)
    (fun t _ x => by have := posTriN_in pos ev right t x; simpa only [hqa] using this)
  have hmain : ((List.range (m' + 1)).map (triS step)).map (posTri ev right) =
      (List.range (m' + 1)).map (fun i =>
        if right then (ev.getD (i * 2 * step + step) 0, ev.getD (i * 2 * step) 0, ev.getD (i * 2 * step + step + step) 0)
        else (ev.getD (i * 2 * step) 0, ev.getD (i * 2 * step + step) 0, ev.getD (i * 2 * step + step + step) 0)) := by
    rw [List.map_map]
    apply List.map_congr_left
    intro i _
    simp only [Function.comp, triS, posTri]
  rw [hmain] at T1
  unfold flushLevel
  simp only [hm']
  have h0 : (m' + 1 == 0) = false := by simp
  simp only [h0, Bool.false_eq_true, if_false, Nat.add_sub_cancel]
  have e1 : m' * 2 * step + step + step = (m' + 1) * (2 * step) := by ring
  unfold polyAtC
  rw [hm']
  rcases hm2 with hm2 | hm2
  · -- even number of live steps: no left-over triangle
    have hno : ¬ (m' * 2 * step + step + step + step < len) := by
      intro hh
      have : (2 * (m' + 1) + 1) * step ≤ len - 1 := by
        have : (2 * (m' + 1) + 1) * step = m' * 2 * step + step + step + step := by ring
        omega
      have := (Nat.le_div_iff_mul_le (by omega : 0 < step)).mpr this
      omega
    rw [if_neg hno, List.append_nil]
    have ec : chainN q step ((len - 1) / step) (m' + 1) = pts q (2 * step) (List.range (m' + 1 + 1)) := by
      simp only [chainN, hm2, Nat.sub_self, List.range'_zero, pts, List.map_nil, List.append_nil]
    have et : (len - 1) / step * step = (m' + 1) * (2 * step) := by rw [hm2]; ring
    rw [ec, et] at T1
    rw [et]
    exact T1
  · -- odd: the left-over triangle cuts the last live vertex off across the chord
    have hyes : m' * 2 * step + step + step + step < len := by
      have h1 : (2 * (m' + 1) + 1) * step ≤ len - 1 := by rw [← hm2]; exact hmul
      have : (2 * (m' + 1) + 1) * step = m' * 2 * step + step + step + step := by ring
      omega
    rw [if_pos hyes]
    have et : (len - 1) / step * step = (m' + 1) * (2 * step) + step := by rw [hm2]; ring
    have ec : chainN q step ((len - 1) / step) (m' + 1) =
        pts q (2 * step) (List.range (m' + 1)) ++ [q ((m' + 1) * (2 * step)), q ((m' + 1) * (2 * step) + step)] := by
      simp only [chainN, hm2, pts]
      rw [show 2 * (m' + 1) + 1 - 2 * (m' + 1) = 1 by omega, List.range_succ (n := m' + 1), List.map_append]
      simp only [List.range'_one, List.map_cons, List.map_nil, List.append_assoc, List.singleton_append]
      congr 3
      ring_nf
    rw [ec, et] at T1
    rw [et]
    refine T1.trans ?_
    have hb : (m' + 1) * (2 * step) < len := by omega
    have hz : (m' + 1) * (2 * step) + step < len := by omega
    have hCb : pts q (2 * step) (List.range (m' + 1)) ++ [q ((m' + 1) * (2 * step))] =
        pts q (2 * step) (List.range (m' + 1 + 1)) := by
      simp only [pts]
      rw [List.range_succ (n := m' + 1), List.map_append]
      rfl
    have hsort : SortedP (pts q (2 * step) (List.range (m' + 1 + 1))) :=
      h.sorted_pts (2 * step) (by omega) _ (by rw [List.range_eq_range']; exact List.pairwise_lt_range') (by
        intro j hj
        have : j ≤ m' + 1 := by have := List.mem_range.mp hj; omega
        have : j * (2 * step) ≤ (m' + 1) * (2 * step) := Nat.mul_le_mul_right _ this
        omega)
    have tail := tail_stepW (!right) (pts q (2 * step) (List.range (m' + 1))) (o := q 0)
      (b := q ((m' + 1) * (2 * step))) (z := q ((m' + 1) * (2 * step) + step))
      (by rw [hCb]; simp [pts, List.range_succ_eq_map])
      (by rw [hCb]; exact hsort)
      (h.sort _ _ (by
        have : 0 < (m' + 1) * (2 * step) := Nat.mul_pos (by omega) (by omega)
        exact this) hb)
      (h.sort _ _ (by omega) hz)
      (h.conv 0 _ _ (Nat.mul_pos (by omega) (by omega)) (by omega) hz)
      (by
        rw [hCb]
        intro v hv
        simp only [pts, List.mem_map, List.mem_range] at hv
        obtain ⟨j, hj, rfl⟩ := hv
        exact h.mid_side (Nat.mul_le_mul_right _ (by omega)) hb)
    have tail' := tail.map (fun _ => posTriX ev right (0, (m' + 1) * (2 * step), (m' + 1) * (2 * step) + step))
      (fun _ _ x => by have := (posTriX_in pos ev right (0, (m' + 1) * (2 * step), (m' + 1) * (2 * step) + step) x).1
                       simpa only [hqa] using this)
      (fun _ _ x => by have := posTriXN_in pos ev right (0, (m' + 1) * (2 * step), (m' + 1) * (2 * step) + step) x
                       simpa only [hqa] using this)
    rw [hCb] at tail'
    have ex : [()].map (fun _ => posTriX ev right (0, (m' + 1) * (2 * step), (m' + 1) * (2 * step) + step)) =
        [if right = true then (ev.getD 0 0, ev.getD (m' * 2 * step + step + step + step) 0, ev.getD (m' * 2 * step + step + step) 0)
         else (ev.getD 0 0, ev.getD (m' * 2 * step + step + step) 0, ev.getD (m' * 2 * step + step + step + step) 0)] := by
      simp only [List.map_cons, List.map_nil, posTriX, e1]
    rw [ex] at tail'
    exact tail'

/-- **the whole doubling loop** from level `step` on -/
theorem levels_tilesW (right : Bool) (len : Nat) (h : ConvexChainW (fun i => pos (ev.getD i 0)) (!right) len)
    (fuel step : Nat) (hs : 1 ≤ step) (hf : len ≤ step + fuel) :
    Tiles (polyAtC (fun i => pos (ev.getD i 0)) (!right) len step) (TriIn pos) (TriInCN pos)
      (flushLevels ev len right fuel step) (fun _ => False) := by
  induction fuel generalizing step with
  | zero =>
    have hm : (len - 1) / step = 0 := Nat.div_eq_of_lt (by omega)
    simp only [flushLevels]
    exact (Tiles.refl _ _ _).rebase (fun _ g => g) (fun _ g => Or.inl g)
      (fun x => ⟨False.elim, fun g => polyAtC_empty _ _ len step (by omega) x g⟩)
  | succ fuel ih =>
    simp only [flushLevels]
    split
    · rename_i hlt
      have t1 := level_tilesW pos ev right len step h hs hlt
      have t2 := ih (step * 2) (by omega) (by omega)
      rw [Nat.mul_comm 2 step] at t1
      exact t1.trans t2
    · rename_i hge
      have hlt2 : (len - 1) / step < 2 := by
        rw [Nat.div_lt_iff_lt_mul (by omega)]; omega
      exact (Tiles.refl _ _ _).rebase (fun _ g => g) (fun _ g => Or.inl g)
        (fun x => ⟨False.elim, fun g => polyAtC_empty _ _ len step (by omega) x g⟩)

/-- **`flush_side`'s fan is a triangulation of the chain polygon**: for a chain of `len` ids
(`ev`), strictly sorted and strictly convex to its side, the triangles of the doubling loop lie in
the region between the chain and its chord `first → last`, are pairwise interior-disjoint, and
their closures cover that region. -/
theorem flush_fan_tilesW (right : Bool) (len : Nat) (hl : 1 ≤ len)
    (h : ConvexChainW (fun i => pos (ev.getD i 0)) (!right) len) :
    Tiles (fun x => ChainIn (!right) ((List.range len).map (fun i => pos (ev.getD i 0))) x ∧
        CSide (!right) (pos (ev.getD 0 0)) (pos (ev.getD (len - 1) 0)) x)
      (TriIn pos) (TriInCN pos) (flushLevels ev len right (len + 1) 1) (fun _ => False) := by
  have := levels_tilesW pos ev right len h (len + 1) 1 (by omega) (by omega)
  rw [polyAtC_one _ _ _ hl] at this
  exact this



end Geometry

end Lyon.C02f
