/-
  C02 growth (`Props/C02c.lean`), part 3: geometry of the BASIC monotone tessellator over an
  ordered field.

  * `wind a b c = (a − b) × (c − b)` — the quantity of lyon's own (commented-out) assertion in
    `push_triangle(a, b, c)`; twice the signed area of `(a, b, c)` in the emitted order.
  * orientation, for EVERY sequence: every emitted triangle has `wind ≥ 0` (`run_gInv`).
  * edge terms `E a b = b × a` (`wind a b c = E a b + E b c + E c a`), open-chain sums `chainE`,
    and the telescoping identities of the fan (`fanC_telescope`) and of the ear-cutting loop
    (`popLoop_area`).
-/
import LyonVerif.Props.C02
import LyonVerif.Lemmas.Field

set_option linter.unusedSectionVars false
set_option linter.unusedVariables false
set_option linter.unusedSimpArgs false

namespace Lyon.C02c
open Lyon Lyon.Mono Lyon.C02

/-! ## orientation of the basic tessellator's triangles (ordered field) -/

section Geometry
variable {K : Type} [Field K] [LinearOrder K] [IsStrictOrderedRing K]

/-- the quantity of lyon's own (commented-out) assertion in `push_triangle(a, b, c)`:
`(a − b) × (c − b)`, twice the signed area of `(a, b, c)` in the emitted order (positive =
counter-clockwise on a y-down screen). -/
noncomputable def wind (a b c : P K) : K := (a - b).cross (c - b)

theorem wind_swap (a b c : P K) : wind b a c = -wind a b c := by
  simp only [wind]; geom_ring

/-- the vertex record carries the position registered for its id -/
def Good (pos : Nat → P K) (v : MV K) : Prop := v.pos = pos v.id

/-- triangle `t` (ids) is non-negatively oriented in its emitted order -/
def TriWind (pos : Nat → P K) (t : Tri) : Prop := 0 ≤ wind (pos t.1) (pos t.2.1) (pos t.2.2)

theorem fanTri_cases (cur a b : MV K) :
    (fanTri cur a b = (a.id, b.id, cur.id) ∧ 0 ≤ wind a.pos b.pos cur.pos) ∨
    (fanTri cur a b = (b.id, a.id, cur.id) ∧ 0 < wind b.pos a.pos cur.pos) := by
  unfold fanTri
  by_cases h : Scalar.zero ≤ (a.pos - b.pos).cross (cur.pos - b.pos)
  · left
    rw [if_pos h]
    exact ⟨rfl, by simpa [wind, geom] using h⟩
  · right
    rw [if_neg h]
    refine ⟨rfl, ?_⟩
    rw [wind_swap]
    have : ¬ (0 ≤ wind a.pos b.pos cur.pos) := by simpa [wind, geom] using h
    linarith [not_le.mp this]

theorem earTri_cases (cur lp top : MV K) (h : earConvex cur lp top = true) :
    (cur.left = true ∧ earTri cur lp top = (top.id, lp.id, cur.id) ∧ 0 ≤ wind top.pos lp.pos cur.pos) ∨
    (cur.left = false ∧ earTri cur lp top = (lp.id, top.id, cur.id) ∧ 0 ≤ wind lp.pos top.pos cur.pos) := by
  unfold earConvex at h
  unfold earTri
  cases hl : cur.left
  · right
    simp only [hl, Bool.false_eq_true, if_false, decide_eq_true_eq, true_and] at h ⊢
    have e : wind lp.pos top.pos cur.pos = (cur.pos - lp.pos).cross (top.pos - lp.pos) := by
      simp only [wind]; geom_ring
    rw [e]; simpa [geom] using h
  · left
    simp only [hl, if_true, decide_eq_true_eq, true_and] at h ⊢
    have e : wind top.pos lp.pos cur.pos = (cur.pos - top.pos).cross (lp.pos - top.pos) := by
      simp only [wind]; geom_ring
    rw [e]; simpa [geom] using h


theorem fanTri_wind (pos : Nat → P K) (cur a b : MV K) (hc : Good pos cur) (ha : Good pos a) (hb : Good pos b) :
    TriWind pos (fanTri cur a b) := by
  unfold Good at hc ha hb
  rcases fanTri_cases cur a b with ⟨e, h⟩ | ⟨e, h⟩
  · rw [e]; simp only [TriWind]; rw [← hc, ← ha, ← hb]; exact h
  · rw [e]; simp only [TriWind]; rw [← hc, ← ha, ← hb]; exact le_of_lt h

theorem fanTris_wind (pos : Nat → P K) (cur : MV K) (l : List (MV K)) (hc : Good pos cur)
    (hl : ∀ v ∈ l, Good pos v) : ∀ t ∈ fanTris cur l, TriWind pos t := by
  induction l with
  | nil => intro t ht; simp [fanTris] at ht
  | cons a r ih =>
    cases r with
    | nil => intro t ht; simp [fanTris] at ht
    | cons b r' =>
      intro t ht
      simp only [fanTris, List.mem_cons] at ht
      rcases ht with ht | ht
      · subst ht
        exact fanTri_wind pos cur a b hc (hl a (by simp)) (hl b (by simp))
      · exact ih (fun v hv => hl v (List.mem_cons_of_mem _ hv)) t ht

theorem earTri_wind (pos : Nat → P K) (cur lp top : MV K) (hc : Good pos cur) (hlp : Good pos lp)
    (ht : Good pos top) (h : earConvex cur lp top = true) : TriWind pos (earTri cur lp top) := by
  unfold Good at hc hlp ht
  rcases earTri_cases cur lp top h with ⟨_, e, g⟩ | ⟨_, e, g⟩
  · rw [e]; simp only [TriWind]; rw [← hc, ← hlp, ← ht]; exact g
  · rw [e]; simp only [TriWind]; rw [← hc, ← hlp, ← ht]; exact g

theorem popLoop_wind (pos : Nat → P K) (cur lp : MV K) (st : List (MV K)) (hc : Good pos cur)
    (hlp : Good pos lp) (hst : ∀ v ∈ st, Good pos v) :
    (∀ v ∈ (popLoop cur lp st).1, Good pos v) ∧ ∀ t ∈ (popLoop cur lp st).2, TriWind pos t := by
  induction st generalizing lp with
  | nil => simp [popLoop, hlp]
  | cons top rest ih =>
    have htop := hst top (by simp)
    have hrest : ∀ v ∈ rest, Good pos v := fun v hv => hst v (List.mem_cons_of_mem _ hv)
    simp only [popLoop]
    split
    · rename_i hconv
      have := ih top htop hrest
      refine ⟨this.1, ?_⟩
      intro t ht
      simp only [List.mem_cons] at ht
      rcases ht with ht | ht
      · subst ht; exact earTri_wind pos cur lp top hc hlp htop hconv
      · exact this.2 t ht
    · refine ⟨?_, by simp⟩
      intro v hv
      simp only [List.mem_cons] at hv
      rcases hv with hv | hv | hv
      · subst hv; exact hlp
      · subst hv; exact htop
      · exact hrest v hv

/-- positions consistent with ids, all triangles so far non-negatively oriented -/
def GInv (pos : Nat → P K) (s : Basic K) : Prop :=
  (∀ v ∈ s.stack, Good pos v) ∧ Good pos s.previous ∧ ∀ t ∈ s.tris, TriWind pos t

theorem vertex_gInv (pos : Nat → P K) (s : Basic K) (cur : MV K) (h : GInv pos s) (hc : Good pos cur) :
    GInv pos (s.vertex cur) := by
  obtain ⟨hs, hp, ht⟩ := h
  unfold Basic.vertex
  split
  · refine ⟨?_, hc, ?_⟩
    · intro v hv
      simp only [List.mem_cons, List.not_mem_nil, or_false] at hv
      rcases hv with hv | hv <;> subst hv <;> assumption
    · intro t h
      rcases List.mem_append.mp h with g | g
      · exact ht t g
      · exact fanTris_wind pos cur _ hc (fun v hv => hs v (List.mem_reverse.mp hv)) t g
  · cases hst : s.stack with
    | nil =>
      refine ⟨?_, hc, ht⟩
      intro v hv
      simp only [List.mem_cons, List.not_mem_nil, or_false] at hv
      subst hv; exact hc
    | cons top rest =>
      rw [hst] at hs
      have sp := popLoop_wind pos cur top rest hc (hs top (by simp)) (fun v hv => hs v (List.mem_cons_of_mem _ hv))
      refine ⟨?_, hc, ?_⟩
      · intro v hv
        simp only [List.mem_cons] at hv
        rcases hv with hv | hv
        · subst hv; exact hc
        · exact sp.1 v hv
      · intro t h
        rcases List.mem_append.mp h with g | g
        · exact ht t g
        · exact sp.2 t g

theorem feed_gInv (pos : Nat → P K) (vs : List (P K × Bool)) (s : Basic K) (k : Nat)
    (hpos : ∀ i (h : i < vs.length), pos (k + i) = vs[i].1) (h : GInv pos s) : GInv pos (feed s k vs) := by
  induction vs generalizing s k with
  | nil => simpa [feed] using h
  | cons v r ih =>
    obtain ⟨p, l⟩ := v
    simp only [feed]
    apply ih
    · intro i hi
      have := hpos (i + 1) (by simp only [List.length_cons]; omega)
      simp only [List.getElem_cons_succ] at this
      rw [← this]; congr 1; omega
    · apply vertex_gInv pos s _ h
      have := hpos 0 (by simp)
      simpa [Good] using this.symm

/-- position of vertex `i` of a fed sequence -/
def posOf (seq : List (P K × Bool)) (i : Nat) : P K :=
  match seq[i]? with
  | some v => v.1
  | none => ⟨0, 0⟩

theorem run_gInv (seq : List (P K × Bool)) : ∀ t ∈ Basic.run seq, TriWind (posOf seq) t := by
  match seq with
  | [] => intro t ht; simp [Basic.run] at ht
  | [_] => intro t ht; simp [Basic.run] at ht
  | (p0, b0) :: v1 :: rest =>
    simp only [Basic.run, foldl_zipIdx_eq_feed]
    intro t ht
    have h0 : GInv (posOf ((p0, b0) :: v1 :: rest)) (Basic.begin p0 0) := by
      simp [GInv, Basic.begin, Good, posOf]
    have h := feed_gInv (posOf ((p0, b0) :: v1 :: rest)) (List.take ((v1 :: rest).length - 1) (v1 :: rest))
      (Basic.begin p0 0) (0 + 1) (by
        intro i hi
        simp only [List.length_take, List.length_cons] at hi
        simp only [posOf, List.getElem_take]
        rw [show 0 + 1 + i = i + 1 by omega, List.getElem?_cons_succ,
          List.getElem?_eq_getElem (by simp only [List.length_cons]; omega)]) h0
    simp only [Basic.end_] at ht
    refine (vertex_gInv _ _ _ h ?_).2.2 t ht
    simp only [Good, posOf, List.length_cons, List.getElem?_cons_succ]
    rw [List.getLast?_eq_getElem?]
    simp only [List.length_cons, Nat.add_sub_cancel]
    rw [List.getElem?_eq_getElem (by simp only [List.length_cons]; omega)]
    rfl

/-! ## edge terms and chain sums -/

/-- edge term: `wind a b c = E a b + E b c + E c a`; a closed polygon's `wind`-area is the cyclic
sum of `E` over its edges (`= −Σ (x_i y_{i+1} − x_{i+1} y_i)`: lyon's y axis points down) -/
noncomputable def E (a b : P K) : K := b.cross a

theorem wind_eq (a b c : P K) : wind a b c = E a b + E b c + E c a := by
  simp only [wind, E]; geom_ring

theorem E_self (a : P K) : E a a = 0 := by simp only [E]; geom_ring
theorem E_anti (a b : P K) : E b a = -E a b := by simp only [E]; geom_ring

theorem wind_cyc (a b c : P K) : wind b c a = wind a b c := by rw [wind_eq, wind_eq]; ring
theorem wind_rev (a b c : P K) : wind c b a = -wind a b c := by
  rw [wind_eq, wind_eq, E_anti b c, E_anti a b, E_anti c a]; ring

/-- sum of the edge terms along an open chain, in list order -/
noncomputable def chainE : List (P K) → K
  | a :: b :: r => E a b + chainE (b :: r)
  | _ => 0

@[simp] theorem chainE_nil : chainE ([] : List (P K)) = 0 := rfl
@[simp] theorem chainE_single (a : P K) : chainE [a] = 0 := rfl
theorem chainE_cons2 (a b : P K) (r : List (P K)) : chainE (a :: b :: r) = E a b + chainE (b :: r) := rfl

theorem chainE_snoc2 (l : List (P K)) (a b : P K) : chainE (l ++ [a, b]) = chainE (l ++ [a]) + E a b := by
  induction l with
  | nil => simp [chainE]
  | cons x r ih =>
    cases r with
    | nil => simp [chainE]
    | cons y r' =>
      simp only [List.cons_append, chainE_cons2] at ih ⊢
      rw [ih]; ring

/-- joining two chains at a common vertex -/
theorem chainE_append (l1 : List (P K)) (x : P K) (l2 : List (P K)) :
    chainE (l1 ++ x :: l2) = chainE (l1 ++ [x]) + chainE (x :: l2) := by
  induction l1 with
  | nil => simp
  | cons a r ih =>
    cases r with
    | nil => simp [chainE]
    | cons b r' =>
      simp only [List.cons_append, chainE_cons2] at ih ⊢
      rw [ih]; ring

theorem chainE_reverse (l : List (P K)) : chainE l.reverse = -chainE l := by
  induction l with
  | nil => simp
  | cons a r ih =>
    cases r with
    | nil => simp
    | cons b r' =>
      rw [List.reverse_cons, List.reverse_cons, List.append_assoc]
      show chainE (r'.reverse ++ [b, a]) = _
      rw [chainE_snoc2, ← List.reverse_cons, ih, chainE_cons2, E_anti a b]; ring

/-- chain sum of a TOP-FIRST list (the model's stack order), taken bottom to top -/
noncomputable def chainT (l : List (P K)) : K := chainE l.reverse

@[simp] theorem chainT_nil : chainT ([] : List (P K)) = 0 := rfl
@[simp] theorem chainT_single (a : P K) : chainT [a] = 0 := rfl
theorem chainT_cons2 (x y : P K) (r : List (P K)) : chainT (x :: y :: r) = chainT (y :: r) + E y x := by
  simp only [chainT, List.reverse_cons, List.append_assoc]
  exact chainE_snoc2 _ _ _

/-! ## signed-area bookkeeping -/

/-- `wind` of an emitted triangle at the registered positions -/
noncomputable def triW (pos : Nat → P K) (t : Tri) : K := wind (pos t.1) (pos t.2.1) (pos t.2.2)

/-- sum of the `wind`s of a triangle list, each in its EMITTED vertex order -/
noncomputable def sumW (pos : Nat → P K) (l : List Tri) : K := (l.map (triW pos)).sum

@[simp] theorem sumW_nil (pos : Nat → P K) : sumW pos [] = 0 := rfl
@[simp] theorem sumW_cons (pos : Nat → P K) (t : Tri) (l : List Tri) : sumW pos (t :: l) = triW pos t + sumW pos l := by
  simp [sumW]
@[simp] theorem sumW_append (pos : Nat → P K) (a b : List Tri) : sumW pos (a ++ b) = sumW pos a + sumW pos b := by
  simp [sumW]

/-- `+1` for a left chain, `−1` for a right chain -/
def sg (c : Bool) : K := if c then 1 else -1

/-- canonical (side-determined) fan sum over a BOTTOM-FIRST stack: chain on the left → `(a, b, cur)`,
chain on the right → `(b, a, cur)` -/
noncomputable def fanC (cur : P K) : List (P K) → K
  | a :: b :: r => wind a b cur + fanC cur (b :: r)
  | _ => 0

/-- the fan telescopes: `Σ wind(a_i, a_{i+1}, cur) = chain + E(last, cur) + E(cur, first)` -/
theorem fanC_telescope (cur a : P K) (l : List (P K)) :
    fanC cur (a :: l) = chainE (a :: l) + E ((a :: l).getLast (by simp)) cur + E cur a := by
  induction l generalizing a with
  | nil => simp [fanC, E_anti cur a]
  | cons b r ih =>
    simp only [fanC, chainE_cons2, ih b, List.getLast_cons_cons, wind_eq]
    rw [E_anti cur b]; ring

/-- every pair of the fan passes lyon's winding test in the canonical (side-determined) order -/
def FanCanon (c : Bool) (cur : P K) : List (P K) → Prop
  | a :: b :: r => 0 ≤ sg c * wind a b cur ∧ FanCanon c cur (b :: r)
  | _ => True

theorem fanTri_triW (pos : Nat → P K) (cur a b : MV K) (hc : Good pos cur) (ha : Good pos a) (hb : Good pos b) :
    triW pos (fanTri cur a b) = |wind a.pos b.pos cur.pos| := by
  unfold Good at hc ha hb
  rcases fanTri_cases cur a b with ⟨e, h⟩ | ⟨e, h⟩
  · rw [e]; simp only [triW]; rw [← hc, ← ha, ← hb, abs_of_nonneg h]
  · rw [e]; simp only [triW]; rw [← hc, ← ha, ← hb]
    rw [wind_swap] at h ⊢
    rw [abs_of_neg (by linarith)]

/-- emitted fan sum `≥` canonical fan sum (either side); equal when no pair is flipped -/
theorem fanTris_sumW (pos : Nat → P K) (c : Bool) (cur : MV K) (l : List (MV K)) (hc : Good pos cur)
    (hl : ∀ v ∈ l, Good pos v) :
    sg c * fanC cur.pos (l.map (·.pos)) ≤ sumW pos (fanTris cur l) ∧
      (FanCanon c cur.pos (l.map (·.pos)) → sumW pos (fanTris cur l) = sg c * fanC cur.pos (l.map (·.pos))) := by
  induction l with
  | nil => simp [fanTris, fanC]
  | cons a r ih =>
    cases r with
    | nil => simp [fanTris, fanC]
    | cons b r' =>
      have ih' := ih (fun v hv => hl v (List.mem_cons_of_mem _ hv))
      have e := fanTri_triW pos cur a b hc (hl a (by simp)) (hl b (by simp))
      simp only [fanTris, List.map_cons, fanC, sumW_cons, FanCanon] at ih' ⊢
      rw [e]
      have habs : sg c * wind a.pos b.pos cur.pos ≤ |wind a.pos b.pos cur.pos| := by
        unfold sg; split
        · rw [one_mul]; exact le_abs_self _
        · rw [neg_one_mul]; exact neg_le_abs _
      constructor
      · rw [mul_add]; linarith [ih'.1]
      · rintro ⟨h1, h2⟩
        rw [ih'.2 h2, mul_add]
        congr 1
        have : |wind a.pos b.pos cur.pos| = |sg c * wind a.pos b.pos cur.pos| := by
          unfold sg; split
          · rw [one_mul]
          · rw [neg_one_mul, abs_neg]
        rw [this, abs_of_nonneg h1]

theorem earTri_triW (pos : Nat → P K) (cur lp top : MV K) (hc : Good pos cur) (hlp : Good pos lp)
    (ht : Good pos top) : triW pos (earTri cur lp top) = sg cur.left * wind top.pos lp.pos cur.pos := by
  unfold Good at hc hlp ht
  unfold earTri sg
  cases cur.left
  · simp only [Bool.false_eq_true, if_false, triW]
    rw [← hc, ← hlp, ← ht, wind_swap]; ring
  · simp only [if_true, triW]
    rw [← hc, ← hlp, ← ht]; ring

/-- the ear-cutting loop telescopes: each cut ear `(top, lp, cur)` is exactly what the stack chain
loses — for EVERY input (the convexity test only decides how many ears are cut) -/
theorem popLoop_area (pos : Nat → P K) (cur lp : MV K) (st : List (MV K)) (hc : Good pos cur)
    (hlp : Good pos lp) (hst : ∀ v ∈ st, Good pos v) :
    sg cur.left * chainT (cur.pos :: lp.pos :: st.map (·.pos)) =
      sumW pos (popLoop cur lp st).2 + sg cur.left * chainT (cur.pos :: (popLoop cur lp st).1.map (·.pos)) := by
  induction st generalizing lp with
  | nil => simp [popLoop]
  | cons top rest ih =>
    have htop := hst top (by simp)
    have hrest : ∀ v ∈ rest, Good pos v := fun v hv => hst v (List.mem_cons_of_mem _ hv)
    simp only [popLoop]
    split
    · have := ih top htop hrest
      simp only [sumW_cons, earTri_triW pos cur lp top hc hlp htop]
      rw [add_assoc, ← this]
      simp only [List.map_cons, chainT_cons2, wind_eq]
      rw [E_anti cur.pos top.pos]; ring
    · simp

theorem popLoop_getLast (cur lp : MV K) (st : List (MV K)) :
    (popLoop cur lp st).1.getLast? = (lp :: st).getLast? := by
  induction st generalizing lp with
  | nil => simp [popLoop]
  | cons top rest ih =>
    simp only [popLoop]
    split
    · rw [ih top, List.getLast?_cons_cons]
    · rfl

end Geometry

end Lyon.C02c
