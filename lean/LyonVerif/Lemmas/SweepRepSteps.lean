/-
  C07b - every step function of the modelled sweep preserves the record invariant `SInv IdP U`
  (`Lemmas/SweepRepInv.lean`), on success AND on failure (Hoare triples in `Std.Do`, one per
  function of `Model/Tess/Sweep.lean`).

  Where records are created or rewritten:
  * `split_edge` (vertex on an active edge): a copy of the source record with a new `range.start`;
    the state becomes tainted (bit 5) - the id pair is copied, so `IdP` is kept unconditionally;
  * `merge_coincident_edges`: a new record from the longer pending edge (tainted, bit 7);
  * `process_intersection`: all branches - intersection at the current position (`range.start` of
    the source record rewritten), the `next_after` fix-up, both `is_near` snaps, the two cut-off
    parts (straight or flipped), `insert_sibling`, the double-flip vertex event - create records
    whose id pair is copied from the source record of the edge and whose new range end is
    `remap_t_in_range(t, range.start .. range_end)` for the cut parameter `t` handed in by
    `handle_intersections`: `Closure U V` (the parameter satisfies `V` ⇒ the remapped value stays in
    `U`) is all that is needed, and `handle_intersections` itself guarantees `V` (`0 < t ≤ 1`) by
    its own filter (`handleIntersectionsStep_spec`, hypotheses `WClosure` about the wide type).
-/
import LyonVerif.Lemmas.SweepRepInv

set_option linter.unusedSectionVars false
set_option linter.unusedVariables false
set_option linter.unusedSimpArgs false
set_option mvcgen.warning false

namespace Lyon.SweepRep
open Lyon Lyon.Scalar Lyon.Mono Lyon.Sweep Lyon.EQ
open Std.Do

variable {α : Type} [Scalar α] [Wide α]
variable (IdP : Nat → Nat → Prop) (U : α → Prop)

theorem mark_spec (b : Nat) : ⦃fun s => ⌜SInv IdP U s⌝⦄ (mark b : SM α Unit) ⦃keepsR IdP U⦄ := by
  unfold mark
  mvcgen
  sinv0

theorem emitTris_spec (tris : List Mono.Tri) :
    ⦃fun s => ⌜SInv IdP U s⌝⦄ (emitTris tris : SM α Unit) ⦃keepsR IdP U⦄ := by
  unfold emitTris
  mvcgen
  rename_i s h _
  exact h.frame rfl rfl (by cov_le) h.active h.below (fun _ _ hm => tris_vertex_mem tris hm)

theorem spanVertex_spec (i : Int) (pos : P α) (id : Nat) (l : Bool) :
    ⦃fun s => ⌜SInv IdP U s⌝⦄ (spanVertex i pos id l : SM α Unit) ⦃keepsR IdP U⦄ := by
  unfold spanVertex
  mvcgen
  all_goals sinv0

theorem beginSpan_spec (i : Int) (pos : P α) (id : Nat) :
    ⦃fun s => ⌜SInv IdP U s⌝⦄ (beginSpan i pos id : SM α Unit) ⦃keepsR IdP U⦄ := by
  unfold beginSpan
  mvcgen
  all_goals sinv0

theorem endSpan_spec (i : Int) (pos : P α) (id : Nat) :
    ⦃fun s => ⌜SInv IdP U s⌝⦄ (endSpan i pos id : SM α Unit) ⦃keepsR IdP U⦄ := by
  unfold endSpan
  have h1 := emitTris_spec (α := α) IdP U
  mvcgen [h1]
  all_goals sinv0

/-- `split_edge`: the lower part of an active edge split at the current vertex gets its own record,
a copy of the source record (same id pair) with a new `range.start`; the run is tainted from here on -/
theorem splitEdge_spec (ei : Nat) :
    ⦃fun s => ⌜SInv IdP U s⌝⦄ (splitEdge ei : SM α Unit) ⦃keepsR IdP U⦄ := by
  unfold splitEdge
  mvcgen
  rename_i s h hlt _ _ _ _ _ _ _
  have hT : Tnt (s.cov ||| 32) := tnt_bit5 s.cov
  have hsrc : s.active[ei].srcEdge < s.q.edgeData.size := (h.active _ (Array.getElem_mem hlt)).1
  have hD := h.data.ed hsrc
  have hle : ∀ d : EdgeData α, s.q.edgeData.size ≤ (s.q.edgeData.push d).size := by intro d; simp
  apply h.grow
  · exact qok_pushUnsorted h.qok _ _
  · exact hle _
  · rfl
  · cov_le
  · apply QData.push (h.data.mono (CovLe.or_right _ _)) rfl
    exact ⟨hD.1, Uc.tnt hT _, Uc.tnt hT _⟩
  · apply all_set
    · intro e he; exact (h.active e he).mono (fun _ _ => Uc.tnt hT _) (hle _)
    · exact ⟨Nat.lt_of_lt_of_le hsrc (hle _), Uc.tnt hT _⟩
  · apply all_push
    · intro e he; exact (h.below e he).mono (fun _ _ => Uc.tnt hT _) (hle _)
    · refine ⟨?_, Uc.tnt hT _⟩
      show s.q.events.size < (s.q.edgeData.push _).size
      rw [Array.size_push, h.qok.size]; exact Nat.lt_succ_self _
  · intro _ _ hm; exact hm

theorem processEdgesAbove_spec (scan : Scan) :
    ⦃fun s => ⌜SInv IdP U s⌝⦄ (processEdgesAbove scan : SM α Scan) ⦃keepsR IdP U⦄ := by
  unfold processEdgesAbove
  have h1 := spanVertex_spec (α := α) IdP U
  have h2 := endSpan_spec (α := α) IdP U
  have h3 := splitEdge_spec (α := α) IdP U
  mvcgen [h1, h2, h3] invariants
  · post⟨fun _ s => ⌜SInv IdP U s⌝, fun _ s => ⌜SInv IdP U s⌝⟩
  · post⟨fun _ s => ⌜SInv IdP U s⌝, fun _ s => ⌜SInv IdP U s⌝⟩
  · post⟨fun _ s => ⌜SInv IdP U s⌝, fun _ s => ⌜SInv IdP U s⌝⟩
  with skip
  all_goals first
    | sinv0
    | try_sinv (
        refine SInv.frame hS rfl rfl (by cov_le) ?_ hS.below (fun _ _ x => x)
        apply all_set hS.active
        have := hS.active _ (Array.getElem_mem ‹scan.aboveStart < _›)
        exact this)

theorem sortEdgesBelow_spec :
    ⦃fun s => ⌜SInv IdP U s⌝⦄ (sortEdgesBelow : SM α Unit) ⦃keepsR IdP U⦄ := by
  unfold sortEdgesBelow
  strip_mdata
  mvcgen
  all_goals first
    | sinv0
    | try_sinv (
        refine SInv.frame hS rfl rfl (by cov_le) hS.active ?_ (fun _ _ x => x)
        exact all_insertionSort hS.below _)

variable {IdP U}

theorem bok_ite {V : α → Prop} {n : Nat} {x y : PendingEdge α} {c : Prop} [Decidable c] (hx : BOk V n x) (hy : BOk V n y) :
    BOk V n (if c then x else y) := by split <;> assumption

theorem merge_below_ok {V : α → Prop} {n : Nat} {below : Array (PendingEdge α)} (h : ∀ e ∈ below, BOk V n e)
    {upper : PendingEdge α} (hu : BOk V n upper) (i j : Nat) (w : Int) :
    ∀ e ∈ (below.setIfInBounds i { upper with winding := w }).eraseIdxIfInBounds j, BOk V n e :=
  all_erase (all_set h _ _ (show BOk V n { upper with winding := w } from hu)) _

theorem merge_split_final {s s' : St α} (h : SInv IdP U s) {lower : PendingEdge α}
    (hl : BOk (Uc U s.cov) s.q.edgeData.size lower) {below' : Array (PendingEdge α)}
    (hb : ∀ e ∈ below', BOk (Uc U s.cov) s.q.edgeData.size e) (sp to : P α) (t0 : α) (w : Int)
    (e1 : s'.q = (s.q.insertSorted sp ⟨to, t0, lower.rangeEnd, w, true, (s.q.ed lower.srcEdge).fromId,
      (s.q.ed lower.srcEdge).toId⟩ s.curEvent).1)
    (e2 : s'.active = s.active) (e3 : s'.below = below') (e4 : s'.out = s.out) (e5 : s'.cov = s.cov ||| 128)
    (e6 : s'.curEvent = s.curEvent) : SInv IdP U s' := by
  have hT : Tnt (s.cov ||| 128) := tnt_bit7 s.cov
  have hq := qok_insertSorted h.qok sp ⟨to, t0, lower.rangeEnd, w, true, (s.q.ed lower.srcEdge).fromId,
      (s.q.ed lower.srcEdge).toId⟩ s.curEvent h.cur
  have hle : s.q.edgeData.size ≤ s'.q.edgeData.size := by rw [e1, hq.2.2.1]; simp
  have hD := h.data.ed hl.1
  apply h.grow (e1 ▸ hq.1) hle e6 (e5 ▸ CovLe.or_right _ _)
  · rw [e1, e5]
    apply QData.push (h.data.mono (CovLe.or_right _ _)) hq.2.2.1
    exact ⟨hD.1, Uc.tnt hT _, Uc.tnt hT _⟩
  · rw [e2, e5]
    intro e he; exact (h.active e he).mono (fun _ _ => Uc.tnt hT _) hle
  · rw [e3, e5]
    intro e he; exact (hb e he).mono (fun _ _ => Uc.tnt hT _) hle
  · rw [e4]; exact fun _ _ x => x

variable (IdP U)

/-- `merge_coincident_edges`: the part of the longer pending edge beyond the shorter one's end becomes
a new record with the longer edge's id pair; the run is tainted from here on (bit 7) when a split
happens -/
theorem mergeCoincidentEdges_spec (a b : Nat) :
    ⦃fun s => ⌜SInv IdP U s⌝⦄ (mergeCoincidentEdges a b : SM α Unit) ⦃keepsR IdP U⦄ := by
  unfold mergeCoincidentEdges
  mvcgen
  all_goals first | sinv0 | skip
  all_goals
    have hS := ‹SInv IdP U _›
    have ha := all_getElem? hS.below ‹_[a]? = some _›
    have hb := all_getElem? hS.below ‹_[b]? = some _›
  · refine SInv.frame hS rfl rfl (by cov_le) hS.active ?_ (fun _ _ x => x)
    exact merge_below_ok hS.below (bok_ite ha hb) _ _ _
  · refine merge_split_final hS (bok_ite ha hb) ?_ _ _ _ _ rfl rfl rfl rfl rfl rfl
    exact merge_below_ok hS.below (bok_ite ha hb) _ _ _

theorem handleCoincidentEdgesBelow_spec :
    ⦃fun s => ⌜SInv IdP U s⌝⦄ (handleCoincidentEdgesBelow : SM α Unit) ⦃keepsR IdP U⦄ := by
  unfold handleCoincidentEdgesBelow
  have h1 := mergeCoincidentEdges_spec (α := α) IdP U
  mvcgen [h1] invariants
  · post⟨fun _ s => ⌜SInv IdP U s⌝, fun _ s => ⌜SInv IdP U s⌝⟩
  with skip

theorem splitEvent_spec (leftEdge : Nat) (leftSpan : Int) :
    ⦃fun s => ⌜SInv IdP U s⌝⦄ (splitEvent leftEdge leftSpan : SM α Unit) ⦃keepsR IdP U⦄ := by
  unfold splitEvent
  have h1 := spanVertex_spec (α := α) IdP U
  have h2 := beginSpan_spec (α := α) IdP U
  mvcgen [h1, h2]

theorem processEdgesBelow_spec (scan : Scan) :
    ⦃fun s => ⌜SInv IdP U s⌝⦄ (processEdgesBelow scan : SM α Unit) ⦃keepsR IdP U⦄ := by
  unfold processEdgesBelow
  have h1 := sortEdgesBelow_spec (α := α) IdP U
  have h2 := handleCoincidentEdgesBelow_spec (α := α) IdP U
  have h3 := splitEvent_spec (α := α) IdP U
  have h4 := beginSpan_spec (α := α) IdP U
  mvcgen [h1, h2, h3, h4] invariants
  · post⟨fun _ s => ⌜SInv IdP U s⌝, fun _ s => ⌜SInv IdP U s⌝⟩
  · post⟨fun _ s => ⌜SInv IdP U s⌝, fun _ s => ⌜SInv IdP U s⌝⟩
  with skip

end Lyon.SweepRep
