/-
  Index validity for the complete stroker model, part 5: the standard endpoint classes (sources
  that name endpoints / edges of the input, the fixed half width) and the discharge of the event
  hypotheses `EvOK` for them; the discrete instance of `Reg` for polylines.
-/
import LyonVerif.Lemmas.StrokeIdxRun

set_option linter.unusedSectionVars false
set_option linter.unusedVariables false

namespace Lyon.C05c
open Lyon Scalar Lyon.Stroke Lyon.Stroke.Full Lyon.C05 Lyon.C05b

section
variable {α : Type} [Scalar α]

/-- the endpoint id an event introduces -/
def evId : IdEv α → List Nat
  | .begin id _ => [id]
  | .line id _ => [id]
  | .quad _ id _ => [id]
  | .cubic _ _ id _ => [id]
  | .end_ _ => []

/-- all endpoint ids of an event list -/
def evIds (evs : List (IdEv α)) : List Nat := evs.flatMap evId

theorem evId_mem {evs : List (IdEv α)} {ev : IdEv α} (h : ev ∈ evs) {id : Nat} (hid : id ∈ evId ev) :
    id ∈ evIds evs := List.mem_flatMap.mpr ⟨ev, h, hid⟩

/-- no curve events -/
def IsPolyline (evs : List (IdEv α)) : Prop :=
  ∀ ev ∈ evs, match ev with
    | .quad _ _ _ => False
    | .cubic _ _ _ _ => False
    | _ => True

/-- a vertex source that names an endpoint of the input, or an edge between two of them (`from`
is the id of the event before the curve; `unset` = `EndpointId::INVALID` only if the event list
starts with a curve) -/
def SrcOK (ids : List Nat) : Src α → Prop
  | .endpoint id => id ∈ ids
  | .edge a b _ => (a ∈ ids ∨ a = unset) ∧ b ∈ ids

end

section
variable {α : Type} [Scalar α] [Transc α]

/-- `base_width * attributes.get(id)[attrib_index]` … as in `Env.widthOf` / `hwOf` / `hwAt`, without
the `Asin` / `FlatConst` classes those carry along -/
def hwOfId (e : Env α) (store : Nat → List α) (id : Nat) : α :=
  if e.o.varWidth then (e.o.lineWidth * (store id).getD e.o.varIdx nan) * half else e.o.lineWidth * half
def hwAtT (e : Env α) (store : Nat → List α) (a b : Nat) (t : α) : α :=
  if e.o.varWidth then
    ((e.o.lineWidth * (store a).getD e.o.varIdx nan) * (one - t) + (e.o.lineWidth * (store b).getD e.o.varIdx nan) * t) * half
  else e.o.lineWidth * half

/-- the half width a vertex carries is the one its source has in the input: an endpoint's own width
(`line_width * attribute * 0.5`, or `line_width * 0.5`), or the interpolated width
`(w_from * (1 - t) + w_to * t) * 0.5` of a point of a curve (the end point of a curve gets the
value interpolated at the last flattening parameter) -/
def HwOK (e : Env α) (store : Nat → List α) : Src α → α → Prop
  | .endpoint id, hw => hw = hwOfId e store id ∨ ∃ a t, hw = hwAtT e store a id t
  | .edge a b t, hw => hw = hwAtT e store a b t

/-- what every emitted vertex satisfies: its source names an endpoint / an edge of the input, its
half width is the source's, and is `line_width * 0.5` when the line width is fixed -/
def VertexOK (e : Env α) (store : Nat → List α) (ids : List Nat) (s : Src α) (hw : α) : Prop :=
  SrcOK ids s ∧ (e.o.varWidth = false → hw = e.o.lineWidth * half) ∧ HwOK e store s hw

/-- the standard class: `VertexOK`; `D` constrains `(is_flattening_step, line_join)` -/
def stdCls (e : Env α) (store : Nat → List α) (ids : List Nat) (D : Bool → LineJoin → Prop)
    (hD : ∀ f lj, D f lj → D f .miter) : Cls α where
  C := VertexOK e store ids
  D := D
  miter := hD

variable [Asin α] [FlatConst α]

theorem hwOf_eq (e : Env α) (store : Nat → List α) (id : Nat) : e.hwOf store id = hwOfId e store id := rfl

theorem hwAt_eq (e : Env α) (store : Nat → List α) (a b : Nat) (t : α) :
    e.hwAt store a b t = hwAtT e store a b t := rfl

theorem hwOfId_fixed (e : Env α) (store : Nat → List α) (id : Nat) (h : e.o.varWidth = false) :
    hwOfId e store id = e.o.lineWidth * half := by
  unfold hwOfId; simp [h]

theorem hwAtT_fixed (e : Env α) (store : Nat → List α) (a b : Nat) (t : α) (h : e.o.varWidth = false) :
    hwAtT e store a b t = e.o.lineWidth * half := by
  unfold hwAtT; simp [h]

/-- every event of `evs` feeds endpoints of the standard class -/
theorem evOK_std (e : Env α) (store : Nat → List α) (evs : List (IdEv α))
    (D : Bool → LineJoin → Prop) (hD : ∀ f lj, D f lj → D f .miter)
    (hD0 : D false e.o.join) (hD1 : (∀ f, D f e.o.join) ∨ IsPolyline evs) :
    ∀ ev ∈ evs, EvOK e store (stdCls e store (evIds evs) D hD) (fun id => id ∈ evIds evs ∨ id = unset) ev := by
  intro ev hev
  cases ev with
  | begin id p =>
    have hid : id ∈ evIds evs := evId_mem hev (by simp [evId])
    exact ⟨fun adv => ⟨⟨hid, fun h => by rw [hwOf_eq]; exact hwOfId_fixed e store id h, Or.inl (hwOf_eq e store id)⟩, hD0⟩, Or.inl hid⟩
  | line id p =>
    have hid : id ∈ evIds evs := evId_mem hev (by simp [evId])
    exact ⟨⟨⟨hid, fun h => by rw [hwOf_eq]; exact hwOfId_fixed e store id h, Or.inl (hwOf_eq e store id)⟩, hD0⟩, Or.inl hid⟩
  | quad ctrl id p =>
    have hid : id ∈ evIds evs := evId_mem hev (by simp [evId])
    rcases hD1 with hD1 | hp
    · refine ⟨?_, Or.inl hid⟩
      intro cur curPos l hk hq q hql
      unfold quadPoints at hq
      cases hf : flattenQuad (⟨curPos, ctrl, p⟩ : Quad α) e.o.tolerance with
      | none => rw [hf] at hq; simp at hq
      | some l0 =>
        rw [hf] at hq
        simp only [Option.map_some, Option.some.injEq] at hq
        subst hq
        simp only [List.mem_map] at hql
        obtain ⟨f, _, rfl⟩ := hql
        refine ⟨⟨?_, fun h => by rw [hwAt_eq]; exact hwAtT_fixed e store cur id f.t h, ?_⟩, hD1 _⟩
        · show SrcOK (evIds evs) (if f.t == one then Src.endpoint id else Src.edge cur id f.t)
          split_ifs
          · exact hid
          · exact ⟨hk, hid⟩
        · show HwOK e store (if f.t == one then Src.endpoint id else Src.edge cur id f.t) (e.hwAt store cur id f.t)
          split_ifs
          · exact Or.inr ⟨cur, f.t, hwAt_eq e store cur id f.t⟩
          · exact hwAt_eq e store cur id f.t
    · exact absurd (hp _ hev) (by simp)
  | cubic c1 c2 id p =>
    have hid : id ∈ evIds evs := evId_mem hev (by simp [evId])
    rcases hD1 with hD1 | hp
    · refine ⟨?_, Or.inl hid⟩
      intro cur curPos l hk hq q hql
      unfold cubicPoints at hq
      cases hf : (⟨curPos, c1, c2, p⟩ : Cubic α).forEachFlattenedWithT e.o.tolerance with
      | none => rw [hf] at hq; simp at hq
      | some l0 =>
        rw [hf] at hq
        simp only [Option.map_some, Option.some.injEq] at hq
        subst hq
        simp only [List.mem_map] at hql
        obtain ⟨f, _, rfl⟩ := hql
        refine ⟨⟨?_, fun h => by rw [hwAt_eq]; exact hwAtT_fixed e store cur id f.t1 h, ?_⟩, hD1 _⟩
        · show SrcOK (evIds evs) (if f.t1 == one then Src.endpoint id else Src.edge cur id f.t1)
          split_ifs
          · exact hid
          · exact ⟨hk, hid⟩
        · show HwOK e store (if f.t1 == one then Src.endpoint id else Src.edge cur id f.t1) (e.hwAt store cur id f.t1)
          split_ifs
          · exact Or.inr ⟨cur, f.t1, hwAt_eq e store cur id f.t1⟩
          · exact hwAt_eq e store cur id f.t1
    · exact absurd (hp _ hev) (by simp)
  | end_ cl => trivial

/-- polylines: no endpoint is a flattening step, so `flattened_step` is never called: the discrete
instance of `Reg` (any scalar type, fixed or variable width) -/
theorem reg_polyline (e : Env α) (store : Nat → List α) (ids : List Nat) :
    Reg e (stdCls e store ids (fun f _ => f = false) (fun _ _ h => h)) (fun _ _ _ => True) where
  first := fun _ _ => trivial
  joinFw := fun _ _ _ _ _ => trivial
  flat := fun _ _ _ _ _ => trivial
  noskip := by
    intro _ prev join next d o _ hF hfp
    have h1 : join.isFlat = false := hF.2
    have h2 := fastPath_flat hfp
    rw [h1] at h2; cases h2
  vw := by
    intro _
    refine ⟨fun _ _ _ => trivial, ?_⟩
    intro prev join next hF hfp
    have h1 : join.isFlat = false := hF.2
    have h2 := fastPath_flat hfp
    rw [h1] at h2; cases h2

/-- variable width with curves: `SkipApart` is the only arithmetic fact needed -/
theorem reg_variable (e : Env α) (store : Nat → List α) (ids : List Nat) (hvw : e.o.varWidth = true) (hap : SkipApart e.thr) :
    Reg e (stdCls e store ids (fun _ _ => True) (fun _ _ h => h)) (fun _ _ _ => True) where
  first := fun _ _ => trivial
  joinFw := fun _ _ _ _ _ => trivial
  flat := fun _ _ _ _ _ => trivial
  noskip := by intro h; rw [hvw] at h; cases h
  vw := fun _ => ⟨fun _ _ _ => trivial, fun prev join next _ hfp t1 t2 => skipApart_vw hap prev join next hfp t1 t2⟩

end

end Lyon.C05c
