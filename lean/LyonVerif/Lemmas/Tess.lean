/-
  Helper lemmas for C04 (geometry-builder protocol): invariants of `BuffersBuilder` under
  `add_*_vertex` / `add_triangle`, and their transport through the request runners
  `runQ` / `strokeEvents` and the sink wrappers `invert` / `refuseAt`.
-/
import LyonVerif.Model.Tess.Skeleton

namespace Lyon.Tess

/-! ### Sink invariants -/

/-- `P` is kept by the two calls a tessellator may issue between `begin` and the terminator. -/
structure Sink.Preserves {σ : Type} (S : Sink σ) (P : σ → Prop) : Prop where
  vertex : ∀ s p, P s → P (S.vertex s p).1
  tri : ∀ s a b c, P s → P (S.tri s a b c)

theorem Sink.Preserves.invert {σ : Type} {S : Sink σ} {P : σ → Prop} (h : S.Preserves P) :
    S.invert.Preserves P :=
  ⟨fun s p hp => h.vertex s p hp, fun s a b c hp => h.tri s a c b hp⟩

theorem Sink.Preserves.refuseAt {σ : Type} {S : Sink σ} {P : σ → Prop} (h : S.Preserves P)
    (k : Nat) (e : GErr) : (S.refuseAt k e).Preserves (fun s => P s.1) := by
  refine ⟨fun s p hp => ?_, fun s a b c hp => h.tri s.1 a b c hp⟩
  simp only [Sink.refuseAt]
  split
  · exact hp
  · exact h.vertex s.1 p hp

theorem runQ_preserves {σ : Type} {S : Sink σ} {P : σ → Prop} (h : S.Preserves P) :
    ∀ (core : List CReq) (s : σ) (ids : List Nat), P s → P (runQ S core s ids).st := by
  intro core
  induction core with
  | nil => intro s ids hp; simpa [runQ] using hp
  | cons r rest ih =>
    intro s ids hp
    cases r with
    | v p =>
      have hv := h.vertex s p hp
      unfold runQ
      split
      · next s' i heq => rw [heq] at hv; exact ih _ _ hv
      · next s' e heq => rw [heq] at hv; exact hv
    | t a b c =>
      unfold runQ
      exact ih _ _ (h.tri _ _ _ _ hp)

theorem strokeEvents_preserves {σ : Type} {S : Sink σ} {P : σ → Prop} (h : S.Preserves P) :
    ∀ (evs : List (List CReq)) (s : σ) (ids : List Nat), P s → P (strokeEvents S evs s ids).st := by
  intro evs
  induction evs with
  | nil => intro s ids hp; simpa [strokeEvents] using hp
  | cons ev rest ih =>
    intro s ids hp
    have hx := runQ_preserves h ev s ids hp
    unfold strokeEvents
    dsimp only
    split
    · exact hx
    · exact ih _ _ hx

/-! ### Shape of what the runners record -/

/-- `body` calls only, with at most one refusal, which is then the last call. -/
def QCalls (calls : List Call) (err : Option GErr) : Prop :=
  match err with
  | none => ∀ c ∈ calls, (∃ i, c = .vertex (.ok i)) ∨ (∃ a b d, c = .tri a b d)
  | some e => ∃ pre, calls = pre ++ [.vertex (.error e)] ∧
      ∀ c ∈ pre, (∃ i, c = .vertex (.ok i)) ∨ (∃ a b d, c = .tri a b d)

theorem runQ_calls {σ : Type} (S : Sink σ) :
    ∀ (core : List CReq) (s : σ) (ids : List Nat),
      QCalls (runQ S core s ids).calls (runQ S core s ids).err := by
  intro core
  induction core with
  | nil => intro s ids; simp [runQ, QCalls]
  | cons r rest ih =>
    intro s ids
    cases r with
    | v p =>
      unfold runQ
      split
      · next s' i heq =>
        have := ih s' (ids ++ [i])
        revert this
        generalize runQ S rest s' (ids ++ [i]) = x
        intro hx
        cases hxe : x.err with
        | none =>
          simp only [QCalls, hxe] at hx ⊢
          intro c hc
          simp only [List.mem_cons] at hc
          rcases hc with rfl | hc
          · exact Or.inl ⟨i, rfl⟩
          · exact hx c hc
        | some e =>
          simp only [QCalls, hxe] at hx ⊢
          obtain ⟨pre, hpre, hall⟩ := hx
          refine ⟨.vertex (.ok i) :: pre, by simp [hpre], ?_⟩
          intro c hc
          simp only [List.mem_cons] at hc
          rcases hc with rfl | hc
          · exact Or.inl ⟨i, rfl⟩
          · exact hall c hc
      · next s' e heq =>
        simp only [QCalls]
        exact ⟨[], by simp, by simp⟩
    | t a b c =>
      unfold runQ
      have := ih (S.tri s (resolve ids a) (resolve ids b) (resolve ids c)) ids
      revert this
      generalize runQ S rest (S.tri s (resolve ids a) (resolve ids b) (resolve ids c)) ids = x
      intro hx
      cases hxe : x.err with
      | none =>
        simp only [QCalls, hxe] at hx ⊢
        intro c' hc
        simp only [List.mem_cons] at hc
        rcases hc with rfl | hc
        · exact Or.inr ⟨_, _, _, rfl⟩
        · exact hx c' hc
      | some e =>
        simp only [QCalls, hxe] at hx ⊢
        obtain ⟨pre, hpre, hall⟩ := hx
        refine ⟨.tri (resolve ids a) (resolve ids b) (resolve ids c) :: pre, by simp [hpre], ?_⟩
        intro c' hc
        simp only [List.mem_cons] at hc
        rcases hc with rfl | hc
        · exact Or.inr ⟨_, _, _, rfl⟩
        · exact hall c' hc

theorem strokeEvents_calls {σ : Type} (S : Sink σ) :
    ∀ (evs : List (List CReq)) (s : σ) (ids : List Nat),
      QCalls (strokeEvents S evs s ids).calls (strokeEvents S evs s ids).err := by
  intro evs
  induction evs with
  | nil => intro s ids; simp [strokeEvents, QCalls]
  | cons ev rest ih =>
    intro s ids
    have hx := runQ_calls S ev s ids
    unfold strokeEvents
    dsimp only
    revert hx
    generalize runQ S ev s ids = x
    intro hx
    cases hxe : x.err with
    | some e => simpa [hxe] using hx
    | none =>
      simp only [hxe]
      have hy := ih x.st x.ids
      revert hy
      generalize strokeEvents S rest x.st x.ids = y
      intro hy
      simp only [QCalls, hxe] at hx
      cases hye : y.err with
      | none =>
        simp only [QCalls, hye] at hy ⊢
        intro c hc
        rcases List.mem_append.mp hc with h | h
        · exact hx c h
        · exact hy c h
      | some e =>
        simp only [QCalls, hye] at hy ⊢
        obtain ⟨pre, hpre, hall⟩ := hy
        refine ⟨x.calls ++ pre, by simp [hpre], ?_⟩
        intro c hc
        rcases List.mem_append.mp hc with h | h
        · exact hx c h
        · exact hall c h

/-! ### `BuffersBuilder` between `begin_geometry` and the terminator -/

/-- `b` is what `begin_geometry` on buffers `b0` followed by vertex / triangle calls leads to:
the bookkeeping points at the end of `b0` and `b0` is still a prefix of both vectors. -/
structure Ext (b0 : Buffers) (b : BB) : Prop where
  fv : b.firstVertex = b0.vertices.length
  fi : b.firstIndex = b0.indices.length
  vs : ∃ l, b.buf.vertices = b0.vertices ++ l
  is : ∃ l, b.buf.indices = b0.indices ++ l

theorem Ext.ofBegin (b : BB) (hv : b.buf.vertices.length < idxMod) (hi : b.buf.indices.length < idxMod) :
    Ext b.buf b.begin :=
  ⟨by simp [BB.begin, Nat.mod_eq_of_lt hv], by simp [BB.begin, Nat.mod_eq_of_lt hi],
   ⟨[], by simp [BB.begin]⟩, ⟨[], by simp [BB.begin]⟩⟩

theorem bbSink_preserves_ext (b0 : Buffers) : bbSink.Preserves (Ext b0) := by
  refine ⟨fun b p h => ?_, fun b x y z h => ?_⟩
  · obtain ⟨fv, fi, ⟨l, hl⟩, is⟩ := h
    simp only [bbSink, BB.addVertex]
    split <;> exact ⟨fv, fi, ⟨l ++ [p], by simp [hl]⟩, is⟩
  · obtain ⟨fv, fi, vs, ⟨l, hl⟩⟩ := h
    exact ⟨fv, fi, vs, ⟨l ++ [b.conv x, b.conv y, b.conv z], by simp [bbSink, BB.addTriangle, hl]⟩⟩

theorem Ext.abort {b0 : Buffers} {b : BB} (h : Ext b0 b) : b.abort.buf = b0 := by
  obtain ⟨fv, fi, ⟨l, hl⟩, ⟨m, hm⟩⟩ := h
  cases b0 with
  | mk v i =>
    simp only [BB.abort, fv, fi, hl, hm]
    simp

end Lyon.Tess
