/-
  Real-analysis core of the quadratic arclength closed form (used by `Props/C10b.lean`).

  For `qP(t) = P(t) = a t² + b t + c` with `a > 0` and `b² ≤ 4ac` (a squared norm `|d1 + t·d2|²`), the
  function `qF` below — the primitive that `QuadraticBezierSegment::length` evaluates at 1 and 0 —
  satisfies `F' = 2·√P` wherever `G = 2√a√P + P' > 0`, which holds on `[0, ∞)` as soon as it holds
  at `0` (the code's "not a sharp turn" test); hence `∫ₓʸ 2√P = F(y) − F(x)`.
-/
import Mathlib.Analysis.SpecialFunctions.Integrals.Basic
import Mathlib.Analysis.SpecialFunctions.Sqrt
import Mathlib.Analysis.SpecialFunctions.Pow.Real

namespace Lyon.ArcLen
open Real

/-- squared half-speed `a t² + b t + c` -/
def qP (a b c t : ℝ) : ℝ := a * t * t + b * t + c
def qdP (a b t : ℝ) : ℝ := 2 * a * t + b
noncomputable def qG (a b c t : ℝ) : ℝ := 2 * √a * √(qP a b c t) + qdP a b t
/-- the primitive of `2·√P` used by the closed form -/
noncomputable def qF (a b c t : ℝ) : ℝ :=
  qdP a b t / (2 * a) * √(qP a b c t) + (4 * a * c - b * b) / (4 * a * √a) * Real.log (qG a b c t)

theorem disc_id (a b c t : ℝ) : 4 * a * qP a b c t = qdP a b t * qdP a b t + (4 * a * c - b * b) := by
  unfold qP qdP; ring

theorem P_nonneg {a b c : ℝ} (ha : 0 < a) (hD : b * b ≤ 4 * a * c) (t : ℝ) : 0 ≤ qP a b c t := by
  have h := disc_id a b c t
  have : 0 ≤ 4 * a * qP a b c t := by rw [h]; nlinarith [mul_self_nonneg (qdP a b t)]
  have h4 : 0 < 4 * a := by linarith
  exact nonneg_of_mul_nonneg_right this h4

theorem G_pos {a b c : ℝ} (ha : 0 < a) (hD : b * b ≤ 4 * a * c) (h0 : 0 < qG a b c 0) {t : ℝ} (ht : 0 ≤ t) :
    0 < qG a b c t := by
  have hr : 0 < √a := Real.sqrt_pos.mpr ha
  have hrr : √a * √a = a := Real.mul_self_sqrt ha.le
  have hPt := P_nonneg ha hD t
  have huu : √(qP a b c t) * √(qP a b c t) = qP a b c t := Real.mul_self_sqrt hPt
  have hu : 0 ≤ √(qP a b c t) := Real.sqrt_nonneg _
  have hid := disc_id a b c t
  unfold qG
  rcases lt_or_eq_of_le hD with hlt | heq
  · -- strictly positive discriminant gap
    by_contra hcon
    have hle : 2 * √a * √(qP a b c t) ≤ - qdP a b t := by linarith
    have h0' : 0 ≤ 2 * √a * √(qP a b c t) := by positivity
    have hsq : (2 * √a * √(qP a b c t)) * (2 * √a * √(qP a b c t)) ≤ (- qdP a b t) * (- qdP a b t) :=
      mul_self_le_mul_self h0' hle
    have e : (2 * √a * √(qP a b c t)) * (2 * √a * √(qP a b c t)) = 4 * a * qP a b c t := by
      calc _ = 4 * (√a * √a) * (√(qP a b c t) * √(qP a b c t)) := by ring
        _ = _ := by rw [hrr, huu]
    rw [e, hid] at hsq
    nlinarith
  · -- degenerate: P = dP²/(4a); then b > 0
    have hc : 0 ≤ c := by
      have := P_nonneg ha hD 0
      simpa [qP] using this
    have hb : 0 < b := by
      by_contra hb
      have hb' : b ≤ 0 := not_lt.mp hb
      have hG0 : qG a b c 0 = 2 * √a * √c + b := by simp [qG, qP, qdP]
      have hcc : √c * √c = c := Real.mul_self_sqrt hc
      have e : (2 * √a * √c) * (2 * √a * √c) = (-b) * (-b) := by
        calc _ = 4 * (√a * √a) * (√c * √c) := by ring
          _ = 4 * a * c := by rw [hrr, hcc]
          _ = _ := by rw [← heq]; ring
      have hnn : 0 ≤ 2 * √a * √c := by positivity
      have : 2 * √a * √c = -b := (mul_self_inj hnn (by linarith)).mp e
      rw [hG0, this] at h0
      linarith
    have : 0 < qdP a b t := by unfold qdP; nlinarith
    have h0' : 0 ≤ 2 * √a * √(qP a b c t) := by positivity
    linarith

theorem P_pos_of_G_pos {a b c t : ℝ} (ha : 0 < a) (hD : b * b ≤ 4 * a * c) (hG : 0 < qG a b c t) :
    0 < qP a b c t := by
  rcases (P_nonneg ha hD t).lt_or_eq with h | h
  · exact h
  · exfalso
    have hid := disc_id a b c t
    rw [← h] at hid
    have hd : qdP a b t = 0 := by
      have : qdP a b t * qdP a b t ≤ 0 := by nlinarith
      exact mul_self_eq_zero.mp (le_antisymm this (mul_self_nonneg _))
    unfold qG at hG
    rw [← h, hd] at hG
    simp at hG


theorem hasDerivAt_P (a b c t : ℝ) : HasDerivAt (qP a b c) (qdP a b t) t := by
  have h1 : HasDerivAt (fun s : ℝ => s) 1 t := hasDerivAt_id t
  have h := ((((h1.const_mul a).fun_mul h1).fun_add (h1.const_mul b)).add_const c)
  refine h.congr_deriv ?_
  unfold qdP; ring

theorem hasDerivAt_dP (a b t : ℝ) : HasDerivAt (qdP a b) (2 * a) t := by
  have h1 : HasDerivAt (fun s : ℝ => s) 1 t := hasDerivAt_id t
  have h := ((h1.const_mul (2 * a)).add_const b)
  refine h.congr_deriv ?_
  ring

/-- `F' = 2·√P` wherever `G > 0` (the code's primitive differentiates to the speed) -/
theorem hasDerivAt_F {a b c t : ℝ} (ha : 0 < a) (hD : b * b ≤ 4 * a * c) (hG : 0 < qG a b c t) :
    HasDerivAt (qF a b c) (2 * √(qP a b c t)) t := by
  have hP := P_pos_of_G_pos ha hD hG
  have hr : 0 < √a := Real.sqrt_pos.mpr ha
  have hrr : √a * √a = a := Real.mul_self_sqrt ha.le
  have hu : 0 < √(qP a b c t) := Real.sqrt_pos.mpr hP
  have huu : √(qP a b c t) * √(qP a b c t) = qP a b c t := Real.mul_self_sqrt hP.le
  have hid := disc_id a b c t
  have hs : HasDerivAt (fun s => √(qP a b c s)) (qdP a b t / (2 * √(qP a b c t))) t :=
    (hasDerivAt_P a b c t).sqrt hP.ne'
  have hd := hasDerivAt_dP a b t
  have hGd : HasDerivAt (qG a b c) (2 * √a * (qdP a b t / (2 * √(qP a b c t))) + 2 * a) t :=
    (hs.const_mul (2 * √a)).fun_add hd
  have hlog : HasDerivAt (fun s => Real.log (qG a b c s))
      ((2 * √a * (qdP a b t / (2 * √(qP a b c t))) + 2 * a) / qG a b c t) t := hGd.log hG.ne'
  have hF := ((hd.div_const (2 * a)).fun_mul hs).fun_add (hlog.const_mul ((4 * a * c - b * b) / (4 * a * √a)))
  refine hF.congr_deriv ?_
  have hG' : qG a b c t = 2 * √a * √(qP a b c t) + qdP a b t := rfl
  have hGne : 2 * √a * √(qP a b c t) + qdP a b t ≠ 0 := by rw [← hG']; exact hG.ne'
  rw [hG']
  set u := √(qP a b c t) with hudef
  set r := √a with hrdef
  set d := qdP a b t with hddef
  have hD' : 4 * a * c - b * b = 4 * a * (u * u) - d * d := by rw [huu]; linarith
  rw [hD']
  have ha' : a = r * r := hrr.symm
  rw [ha']
  field_simp
  ring


theorem continuous_speed (a b c : ℝ) : Continuous fun t => 2 * √(qP a b c t) := by
  unfold qP; fun_prop

/-- the arclength integral over `[x, y] ⊆ [0, ∞)` is the difference of the primitive -/
theorem integral_speed {a b c : ℝ} (ha : 0 < a) (hD : b * b ≤ 4 * a * c) (h0 : 0 < qG a b c 0)
    {x y : ℝ} (hx : 0 ≤ x) (hy : 0 ≤ y) :
    ∫ t in x..y, 2 * √(qP a b c t) = qF a b c y - qF a b c x := by
  refine intervalIntegral.integral_eq_sub_of_hasDerivAt (fun t ht => ?_) ((continuous_speed a b c).intervalIntegrable _ _)
  have ht0 : 0 ≤ t := by
    rcases Set.mem_uIcc.mp ht with h | h <;> linarith [h.1, h.2]
  exact hasDerivAt_F ha hD (G_pos ha hD h0 ht0)


/-- A real function that agrees with a Taylor polynomial around `t` (constant term `A`, linear
coefficient `D`, remainder `(c₀ + c₁ h)·h²`) has derivative `D` at `t`. -/
theorem hasDerivAt_of_taylor (f : ℝ → ℝ) (t A D c₀ c₁ : ℝ)
    (hf : ∀ h, f (t + h) = A + D * h + (c₀ + c₁ * h) * (h * h)) : HasDerivAt f D t := by
  have e : f = fun s => A + D * (s - t) + (c₀ + c₁ * (s - t)) * ((s - t) * (s - t)) := by
    funext s
    have := hf (s - t)
    rwa [add_sub_cancel] at this
  rw [e]
  have h1 : HasDerivAt (fun s : ℝ => s - t) 1 t := (hasDerivAt_id t).sub_const t
  have h2 := (((h1.const_mul D).const_add A).fun_add
    (((h1.const_mul c₁).const_add c₀).fun_mul (h1.fun_mul h1)))
  refine h2.congr_deriv ?_
  simp


theorem rpow_neg_half {a : ℝ} (ha : 0 < a) : a ^ (-(1/2 : ℝ)) = (√a)⁻¹ := by
  rw [Real.rpow_neg ha.le, Real.sqrt_eq_rpow]


end Lyon.ArcLen
