/-
  The recursion of `add_curve_intersections` (`Clip.step`, `Clip.addCurveIx`) keeps every domain
  end and every reported pair inside [0,1]: invariant of one step, then induction on the fuel.
-/
import LyonVerif.Lemmas.ClipRange

set_option linter.unusedSectionVars false
set_option linter.unusedVariables false
set_option linter.unusedSimpArgs false

namespace Lyon.Clip
open Lyon Scalar
variable {K : Type} [Field K] [LinearOrder K] [IsStrictOrderedRing K] [Transc K] [Eps K]

/-- both parameter domains of a call lie in [0,1] -/
def ArgsOK (a : Args K) : Prop := In01 a.d1.1 ∧ In01 a.d1.2 ∧ In01 a.d2.1 ∧ In01 a.d2.2

/-- the outcome of one step respects the invariant -/
def StepOK : Step K → Prop
  | .done s => PairsIn01 s.ixs
  | .one a => ArgsOK a
  | .two a b => ArgsOK a ∧ ArgsOK b

theorem newDomain1_in01 (a : Args K) (clip : K × K) (ha : ArgsOK a) (h1 : In01 clip.1)
    (h2 : In01 clip.2) : In01 (newDomain1 a clip).1 ∧ In01 (newDomain1 a clip).2 :=
  ⟨domainValueAtT_in01 ha.1 ha.2.1 h1, domainValueAtT_in01 ha.1 ha.2.1 h2⟩

theorem stepConverged_ok (a : Args K) (nd1 : K × K) (st : State K) (ha : ArgsOK a)
    (hn1 : In01 nd1.1) (hn2 : In01 nd1.2) (hs : PairsIn01 st.ixs) :
    PairsIn01 (stepConverged a nd1 st).ixs := by
  unfold stepConverged
  split_ifs
  · exact hs
  · exact addIntersection_in01 _ _ _ _ _ _ (domMid_in01 hn1 hn2) (domMid_in01 ha.2.2.1 ha.2.2.2) hs

theorem stepSubdivide_ok (a : Args K) (nd1 : K × K) (c1' : Cubic K) (ha : ArgsOK a)
    (hn1 : In01 nd1.1) (hn2 : In01 nd1.2) : StepOK (stepSubdivide a nd1 c1') := by
  unfold stepSubdivide
  have hm1 := domMid_in01 hn1 hn2
  have hm2 := domMid_in01 ha.2.2.1 ha.2.2.2
  split_ifs
  · exact ⟨⟨ha.2.2.1, ha.2.2.2, hn1, hm1⟩, ⟨ha.2.2.1, ha.2.2.2, hm1, hn2⟩⟩
  · exact ⟨⟨ha.2.2.1, hm2, hn1, hn2⟩, ⟨hm2, ha.2.2.2, hn1, hn2⟩⟩

theorem stepIterate_ok (a : Args K) (nd1 : K × K) (c1' : Cubic K) (ha : ArgsOK a)
    (hn1 : In01 nd1.1) (hn2 : In01 nd1.2) : StepOK (stepIterate a nd1 c1') := by
  unfold stepIterate
  split_ifs
  · exact ⟨ha.2.2.1, ha.2.2.2, hn1, hn2⟩
  · exact ⟨hn1, hn2, ha.2.2.1, ha.2.2.2⟩

theorem stepClipped_ok (a : Args K) (clip : K × K) (st : State K) (ha : ArgsOK a)
    (h1 : In01 clip.1) (h2 : In01 clip.2) (hs : PairsIn01 st.ixs) : StepOK (stepClipped a clip st) := by
  obtain ⟨hn1, hn2⟩ := newDomain1_in01 a clip ha h1 h2
  unfold stepClipped
  split_ifs
  · exact stepConverged_ok a _ st ha hn1 hn2 hs
  · exact addPointCurveIntersection_in01 _ _ _ _ _ _ _ hn1 hn2 ha.2.2.1 ha.2.2.2 hs
  · exact stepSubdivide_ok a _ _ ha hn1 hn2
  · exact stepIterate_ok a _ _ ha hn1 hn2

/-- **one step keeps the invariant** -/
theorem step_ok (a : Args K) (st : State K) (ha : ArgsOK a) (hs : PairsIn01 st.ixs) :
    StepOK (step a st) := by
  unfold step
  have hm2 := domMid_in01 ha.2.2.1 ha.2.2.2
  split_ifs
  · exact addPointCurveIntersection_in01 _ _ _ _ _ _ _ ha.2.2.1 ha.2.2.2 ha.1 ha.2.1 hs
  · exact ⟨⟨ha.1, ha.2.1, ha.2.2.1, hm2⟩, ⟨ha.1, ha.2.1, hm2, ha.2.2.2⟩⟩
  · exact hs
  · split
    · exact hs
    · rename_i clip hc
      obtain ⟨h1, h2⟩ := restrict_in01 a.c1 a.c2 clip.1 clip.2 hc
      exact stepClipped_ok a clip st ha h1 h2 hs

/-- **the whole recursion keeps the invariant**, for every fuel -/
theorem addCurveIx_in01 : ∀ (fuel : Nat) (a : Args K) (st : State K), ArgsOK a → PairsIn01 st.ixs →
    PairsIn01 (addCurveIx fuel a st).ixs
  | 0, a, st, _, hs => by unfold addCurveIx; exact hs
  | fuel + 1, a, st, ha, hs => by
    unfold addCurveIx
    split_ifs
    · exact hs
    · have hs' : PairsIn01 ({ st with calls := st.calls + 1 } : State K).ixs := hs
      have ha' : ArgsOK ({ a with rc := a.rc + 1 } : Args K) := ha
      have hstep := step_ok _ _ ha' hs'
      split
      · rename_i s hh; rw [hh] at hstep; exact hstep
      · rename_i a1 hh; rw [hh] at hstep
        exact addCurveIx_in01 fuel a1 _ hstep hs'
      · rename_i a1 a2 hh; rw [hh] at hstep
        exact addCurveIx_in01 fuel a2 _ hstep.2 (addCurveIx_in01 fuel a1 _ hstep.1 hs')

end Lyon.Clip
