/-
  Helper lemmas about the parser model (`Model/Parser.lean`) used by `Props/C17.lean`.
  Core Lean only (no Mathlib).
-/
import LyonVerif.Model.Parser

namespace Lyon.Parser
open Lyon.Path

variable {ν : Type}

/-! ### A. How much input each piece consumes -/

abbrev Src.len (s : Src) : Nat := s.inp.length

theorem adv_inp (s : Src) : s.adv.inp = s.inp.tail := by
  unfold Src.adv; cases h : s.inp <;> simp [h]

theorem adv_len_le (s : Src) : s.adv.len ≤ s.len := by
  simp [Src.len, adv_inp]

theorem adv_len_lt (s : Src) (h : s.inp ≠ []) : s.adv.len < s.len := by
  simp only [Src.len, adv_inp]; cases hs : s.inp with
  | nil => exact absurd hs h
  | cons a r => simp

theorem advWhileL_inp (p : Char → Bool) (l : List Char) (a b : Int) :
    (advWhileL p l a b).inp = l.dropWhile p := by
  induction l generalizing a b with
  | nil => simp [advWhileL]
  | cons c r ih =>
    unfold advWhileL
    by_cases hp : p c <;> simp [hp, ih]

theorem advWhile_inp (p : Char → Bool) (s : Src) : (s.advWhile p).inp = s.inp.dropWhile p := by
  simp [Src.advWhile, advWhileL_inp]

theorem dropWhile_len_le (p : Char → Bool) (l : List Char) : (l.dropWhile p).length ≤ l.length := by
  induction l with
  | nil => simp
  | cons c r ih => simp only [List.dropWhile_cons]; split <;> simp <;> omega

theorem take_drop_len (p : Char → Bool) (l : List Char) :
    (l.takeWhile p).length + (l.dropWhile p).length = l.length := by
  induction l with
  | nil => simp
  | cons c r ih => simp only [List.takeWhile_cons, List.dropWhile_cons]; split <;> simp <;> omega

theorem skipWs_len_le (s : Src) : s.skipWs.len ≤ s.len := by
  simp [Src.len, Src.skipWs, advWhile_inp, dropWhile_len_le]

theorem optChar_len (p : Char → Bool) (s : Src) :
    (optChar p s).1.length + (optChar p s).2.len = s.len := by
  unfold optChar
  cases h : s.inp with
  | nil => simp [Src.len, h]
  | cons c r =>
    by_cases hp : p c
    · simp [hp, Src.len, adv_inp, h]; omega
    · simp [hp, Src.len, h]

theorem digitsOf_len (s : Src) : (digitsOf s).1.length + (digitsOf s).2.len = s.len := by
  simp [digitsOf, Src.len, advWhile_inp, take_drop_len]

theorem lexMant_len (s : Src) : (lexMant s).1.length + (lexMant s).2.len = s.len := by
  have h1 := optChar_len (· == '-') s
  have h2 := digitsOf_len (optChar (· == '-') s).2
  simp only [lexMant, List.length_append]; omega

theorem lexExpTail_len (s : Src) : (lexExpTail s).1.length + (lexExpTail s).2.len = s.len :=
  lexMant_len s

theorem lexFrac_len (s : Src) : (lexFrac s).1.length + (lexFrac s).2.len = s.len := by
  unfold lexFrac
  cases h : s.inp with
  | nil => simp [Src.len, h]
  | cons c r =>
    have h2 := digitsOf_len s.adv
    have h3 : s.adv.len + 1 = s.len := by simp [Src.len, adv_inp, h]
    by_cases hc : c = '.'
    · simp [hc]; omega
    · simp [hc, Src.len, h]

theorem lexExp_len (s : Src) : (lexExp s).1.length + (lexExp s).2.len = s.len := by
  unfold lexExp
  cases h : s.inp with
  | nil => simp [Src.len, h]
  | cons c r =>
    have h2 := lexExpTail_len s.adv
    have h3 : s.adv.len + 1 = s.len := by simp [Src.len, adv_inp, h]
    by_cases hc : (c == 'e' || c == 'E') = true
    · simp [hc]; omega
    · simp [hc, Src.len, h]

theorem lexNum_len (s : Src) : (lexNum s).1.length + (lexNum s).2.len = s.len := by
  have h1 := lexMant_len s
  have h2 := lexFrac_len (lexMant s).2
  have h3 := lexExp_len (lexFrac (lexMant s).2).2
  simp only [lexNum, List.length_append]; omega

theorem validF32_nil : validF32 [] = false := by decide

theorem validF32_ne_nil {l : List Char} (h : validF32 l = true) : 0 < l.length := by
  cases l with
  | nil => simp [validF32_nil] at h
  | cons a r => simp

/-! ### B. Sub-parsers never give input back; numbers and flags consume at least one character -/

/-- on success the source is not longer than before -/
def Mono {α} (m : PM α) : Prop := ∀ s a s', m s = .ok a s' → s'.len ≤ s.len
/-- on success the source is strictly shorter than before -/
def Strict {α} (m : PM α) : Prop := ∀ s a s', m s = .ok a s' → s'.len < s.len

theorem Strict.mono {α} {m : PM α} (h : Strict m) : Mono m := fun s a s' e => Nat.le_of_lt (h s a s' e)

theorem pure_mono {α} (a : α) : Mono (pure a : PM α) := by
  intro s b s' h
  simp only [pure, PM.pure, R.ok.injEq] at h
  simp [h.2]

theorem bind_ok {α β} {m : PM α} {f : α → PM β} {s : Src} {b : β} {s' : Src}
    (h : (m >>= f) s = .ok b s') : ∃ a s1, m s = .ok a s1 ∧ f a s1 = .ok b s' := by
  simp only [bind, PM.bind] at h
  cases hm : m s with
  | ok a s1 => rw [hm] at h; exact ⟨a, s1, rfl, h⟩
  | err e s1 => rw [hm] at h; cases h

theorem bind_mono {α β} {m : PM α} {f : α → PM β} (hm : Mono m) (hf : ∀ a, Mono (f a)) :
    Mono (m >>= f) := by
  intro s b s' h
  obtain ⟨a, s1, h1, h2⟩ := bind_ok h
  exact Nat.le_trans (hf a s1 b s' h2) (hm s a s1 h1)

theorem bind_strict_left {α β} {m : PM α} {f : α → PM β} (hm : Strict m) (hf : ∀ a, Mono (f a)) :
    Strict (m >>= f) := by
  intro s b s' h
  obtain ⟨a, s1, h1, h2⟩ := bind_ok h
  exact Nat.lt_of_le_of_lt (hf a s1 b s' h2) (hm s a s1 h1)

theorem bind_strict_right {α β} {m : PM α} {f : α → PM β} (hm : Mono m) (hf : ∀ a, Strict (f a)) :
    Strict (m >>= f) := by
  intro s b s' h
  obtain ⟨a, s1, h1, h2⟩ := bind_ok h
  exact Nat.lt_of_lt_of_le (hf a s1 b s' h2) (hm s a s1 h1)

theorem parseNumber_strict (N : Num ν) : Strict (parseNumber N) := by
  intro s a s' h
  unfold parseNumber at h
  by_cases hv : validF32 (lexNum s.skipWs).1 = true
  · simp only [hv, if_true, R.ok.injEq] at h
    have h1 := lexNum_len s.skipWs
    have h2 := validF32_ne_nil hv
    have h3 := skipWs_len_le s
    rw [← h.2]; omega
  · simp [hv] at h

theorem cur_eq_of_nil {s : Src} (h : s.inp = []) : s.cur = '~' := by simp [Src.cur, h]

theorem parseFlag_strict : Strict parseFlag := by
  intro s a s' h
  unfold parseFlag at h
  have h3 := skipWs_len_le s
  have key : ∀ c : Char, c ≠ '~' → s.skipWs.cur = c → s.skipWs.adv.len < s.len := by
    intro c hc he
    have hne : s.skipWs.inp ≠ [] := fun hn => hc (by rw [← he, cur_eq_of_nil hn])
    have := adv_len_lt _ hne
    omega
  by_cases h1 : s.skipWs.cur = '1'
  · simp only [h1, beq_self_eq_true, if_true, R.ok.injEq] at h
    rw [← h.2]; exact key '1' (by decide) h1
  · by_cases h0 : s.skipWs.cur = '0'
    · simp only [h0, beq_self_eq_true, if_true] at h
      have : ('0' == '1') = false := by decide
      simp only [this] at h
      simp only [Bool.false_eq_true, if_false, R.ok.injEq] at h
      rw [← h.2]; exact key '0' (by decide) h0
    · simp [h1, h0] at h

theorem parsePoint_strict (N : Num ν) (rel : Bool) (cur : Pt ν) : Strict (parsePoint N rel cur) :=
  bind_strict_left (parseNumber_strict N) fun _ =>
    bind_mono (parseNumber_strict N).mono fun _ => pure_mono _

theorem parseAttrs_mono (N : Num ν) (n : Nat) : Mono (parseAttrs N n) := by
  induction n with
  | zero => exact pure_mono _
  | succ n ih =>
    exact bind_mono (parseNumber_strict N).mono fun _ => bind_mono ih fun _ => pure_mono _

theorem parseEndpoint_strict (N : Num ν) (na : Nat) (rel : Bool) (cur : Pt ν) :
    Strict (parseEndpoint N na rel cur) :=
  bind_strict_left (parsePoint_strict N rel cur) fun _ =>
    bind_mono (parseAttrs_mono N na) fun _ => pure_mono _

theorem cmdL_strict (N : Num ν) (na rel) (st : St ν) : Strict (cmdL N na rel st) :=
  bind_strict_left (parseEndpoint_strict N na rel st.cur) fun _ => pure_mono _
theorem cmdH_strict (N : Num ν) (na rel) (st : St ν) : Strict (cmdH N na rel st) :=
  bind_strict_left (parseNumber_strict N) fun _ => bind_mono (parseAttrs_mono N na) fun _ => pure_mono _
theorem cmdV_strict (N : Num ν) (na rel) (st : St ν) : Strict (cmdV N na rel st) :=
  bind_strict_left (parseNumber_strict N) fun _ => bind_mono (parseAttrs_mono N na) fun _ => pure_mono _
theorem cmdQ_strict (N : Num ν) (na rel) (st : St ν) : Strict (cmdQ N na rel st) :=
  bind_strict_left (parsePoint_strict N rel st.cur) fun _ =>
    bind_mono (parseEndpoint_strict N na rel st.cur).mono fun _ => pure_mono _
theorem cmdT_strict (N : Num ν) (na rel) (st : St ν) : Strict (cmdT N na rel st) :=
  bind_strict_left (parseEndpoint_strict N na rel st.cur) fun _ => pure_mono _
theorem cmdC_strict (N : Num ν) (na rel) (st : St ν) : Strict (cmdC N na rel st) :=
  bind_strict_left (parsePoint_strict N rel st.cur) fun _ =>
    bind_mono (parsePoint_strict N rel st.cur).mono fun _ =>
      bind_mono (parseEndpoint_strict N na rel st.cur).mono fun _ => pure_mono _
theorem cmdS_strict (N : Num ν) (na rel) (st : St ν) : Strict (cmdS N na rel st) :=
  bind_strict_left (parsePoint_strict N rel st.cur) fun _ =>
    bind_mono (parseEndpoint_strict N na rel st.cur).mono fun _ => pure_mono _
theorem cmdAArgs_strict (N : Num ν) (na rel) (st : St ν) : Strict (cmdAArgs N na rel st) :=
  bind_strict_left (parseNumber_strict N) fun _ =>
    bind_mono (parseNumber_strict N).mono fun _ =>
      bind_mono (parseNumber_strict N).mono fun _ =>
        bind_mono parseFlag_strict.mono fun _ =>
          bind_mono parseFlag_strict.mono fun _ =>
            bind_mono (parseEndpoint_strict N na rel st.cur).mono fun _ => pure_mono _

theorem edgeCmd_strict (N : Num ν) (na : Nat) (cmd : Char) (st : St ν) (m : PM (EdgeOut ν))
    (h : edgeCmd N na cmd st = some m) : Strict m := by
  unfold edgeCmd at h
  split at h
  · cases h; exact cmdL_strict _ _ _ _
  split at h
  · cases h; exact cmdH_strict _ _ _ _
  split at h
  · cases h; exact cmdV_strict _ _ _ _
  split at h
  · cases h; exact cmdQ_strict _ _ _ _
  split at h
  · cases h; exact cmdT_strict _ _ _ _
  split at h
  · cases h; exact cmdC_strict _ _ _ _
  split at h
  · cases h; exact cmdS_strict _ _ _ _
  · cases h

/-! ### C. What one command does: calls, flags, attribute buffer, progress -/

def isEdge : PCall ν → Bool
  | .line _ _ => true
  | .quad _ _ _ => true
  | .cubic _ _ _ _ => true
  | _ => false

theorem pure_ok {α} {a b : α} {s s' : Src} (h : (pure a : PM α) s = .ok b s') : b = a ∧ s' = s := by
  simp only [pure, PM.pure, R.ok.injEq] at h; exact ⟨h.1.symm, h.2.symm⟩

theorem parseAttrs_length (N : Num ν) (n : Nat) (s : Src) (a : List ν) (s' : Src)
    (h : parseAttrs N n s = .ok a s') : a.length = n := by
  induction n generalizing s a s' with
  | zero => have := pure_ok h; simp [this.1]
  | succ n ih =>
    unfold parseAttrs at h
    obtain ⟨v, s1, _, h⟩ := bind_ok h
    obtain ⟨r, s2, h2, h⟩ := bind_ok h
    have := pure_ok h
    simp [this.1, ih s1 r s2 h2]

theorem parseEndpoint_length (N : Num ν) (na : Nat) (rel : Bool) (cur : Pt ν) (s : Src)
    (e : Pt ν × List ν) (s' : Src) (h : parseEndpoint N na rel cur s = .ok e s') :
    e.2.length = na := by
  unfold parseEndpoint at h
  obtain ⟨p, s1, _, h⟩ := bind_ok h
  obtain ⟨a, s2, h2, h⟩ := bind_ok h
  have := pure_ok h
  simp [this.1, parseAttrs_length N na s1 a s2 h2]

/-- what an edge command guarantees about its result -/
structure EdgeSpec (na : Nat) (st : St ν) (o : EdgeOut ν) : Prop where
  needEnd : o.2.needEnd = st.needEnd
  needStart : o.2.needStart = st.needStart
  attrs : o.2.attrs.length = na
  edges : ∀ c ∈ o.1, isEdge c = true

theorem cmdL_spec (N : Num ν) (na rel) (st : St ν) (s o s') (h : cmdL N na rel st s = .ok o s') :
    EdgeSpec na st o := by
  unfold cmdL at h
  obtain ⟨e, s1, h1, h⟩ := bind_ok h
  have hp := pure_ok h
  have hl := parseEndpoint_length _ _ _ _ _ _ _ h1
  rw [hp.1]; exact ⟨rfl, rfl, hl, by simp [isEdge]⟩

theorem cmdH_spec (N : Num ν) (na rel) (st : St ν) (s o s') (h : cmdH N na rel st s = .ok o s') :
    EdgeSpec na st o := by
  unfold cmdH at h
  obtain ⟨x, s1, _, h⟩ := bind_ok h
  obtain ⟨a, s2, h2, h⟩ := bind_ok h
  have hp := pure_ok h
  have hl := parseAttrs_length _ _ _ _ _ h2
  rw [hp.1]; exact ⟨rfl, rfl, hl, by simp [isEdge]⟩

theorem cmdV_spec (N : Num ν) (na rel) (st : St ν) (s o s') (h : cmdV N na rel st s = .ok o s') :
    EdgeSpec na st o := by
  unfold cmdV at h
  obtain ⟨x, s1, _, h⟩ := bind_ok h
  obtain ⟨a, s2, h2, h⟩ := bind_ok h
  have hp := pure_ok h
  have hl := parseAttrs_length _ _ _ _ _ h2
  rw [hp.1]; exact ⟨rfl, rfl, hl, by simp [isEdge]⟩

theorem cmdQ_spec (N : Num ν) (na rel) (st : St ν) (s o s') (h : cmdQ N na rel st s = .ok o s') :
    EdgeSpec na st o := by
  unfold cmdQ at h
  obtain ⟨c, s1, _, h⟩ := bind_ok h
  obtain ⟨e, s2, h2, h⟩ := bind_ok h
  have hp := pure_ok h
  have hl := parseEndpoint_length _ _ _ _ _ _ _ h2
  rw [hp.1]; exact ⟨rfl, rfl, hl, by simp [isEdge]⟩

theorem cmdT_spec (N : Num ν) (na rel) (st : St ν) (s o s') (h : cmdT N na rel st s = .ok o s') :
    EdgeSpec na st o := by
  unfold cmdT at h
  obtain ⟨e, s2, h2, h⟩ := bind_ok h
  have hp := pure_ok h
  have hl := parseEndpoint_length _ _ _ _ _ _ _ h2
  rw [hp.1]; exact ⟨rfl, rfl, hl, by simp [isEdge]⟩

theorem cmdC_spec (N : Num ν) (na rel) (st : St ν) (s o s') (h : cmdC N na rel st s = .ok o s') :
    EdgeSpec na st o := by
  unfold cmdC at h
  obtain ⟨c1, s1, _, h⟩ := bind_ok h
  obtain ⟨c2, s2, _, h⟩ := bind_ok h
  obtain ⟨e, s3, h3, h⟩ := bind_ok h
  have hp := pure_ok h
  have hl := parseEndpoint_length _ _ _ _ _ _ _ h3
  rw [hp.1]; exact ⟨rfl, rfl, hl, by simp [isEdge]⟩

theorem cmdS_spec (N : Num ν) (na rel) (st : St ν) (s o s') (h : cmdS N na rel st s = .ok o s') :
    EdgeSpec na st o := by
  unfold cmdS at h
  obtain ⟨c2, s2, _, h⟩ := bind_ok h
  obtain ⟨e, s3, h3, h⟩ := bind_ok h
  have hp := pure_ok h
  have hl := parseEndpoint_length _ _ _ _ _ _ _ h3
  rw [hp.1]; exact ⟨rfl, rfl, hl, by simp [isEdge]⟩

theorem edgeCmd_spec (N : Num ν) (na : Nat) (cmd : Char) (st : St ν) (m : PM (EdgeOut ν))
    (h : edgeCmd N na cmd st = some m) (s o s') (hm : m s = .ok o s') : EdgeSpec na st o := by
  unfold edgeCmd at h
  split at h
  · cases h; exact cmdL_spec _ _ _ _ _ _ _ hm
  split at h
  · cases h; exact cmdH_spec _ _ _ _ _ _ _ hm
  split at h
  · cases h; exact cmdV_spec _ _ _ _ _ _ _ hm
  split at h
  · cases h; exact cmdQ_spec _ _ _ _ _ _ _ hm
  split at h
  · cases h; exact cmdT_spec _ _ _ _ _ _ _ hm
  split at h
  · cases h; exact cmdC_spec _ _ _ _ _ _ _ hm
  split at h
  · cases h; exact cmdS_spec _ _ _ _ _ _ _ hm
  · cases h

theorem edgeCmd_not_close (N : Num ν) (na : Nat) (cmd : Char) (st : St ν) (m : PM (EdgeOut ν))
    (h : edgeCmd N na cmd st = some m) : cmd ≠ 'm' ∧ cmd ≠ 'M' := by
  unfold edgeCmd at h
  constructor <;> (intro hc; subst hc; simp at h)

theorem cmdAArgs_spec (N : Num ν) (na rel) (st : St ν) (s a s')
    (h : cmdAArgs N na rel st s = .ok a s') : a.prevAttrs = st.attrs ∧ a.attrs.length = na := by
  unfold cmdAArgs at h
  obtain ⟨_, _, _, h⟩ := bind_ok h
  obtain ⟨_, _, _, h⟩ := bind_ok h
  obtain ⟨_, _, _, h⟩ := bind_ok h
  obtain ⟨_, _, _, h⟩ := bind_ok h
  obtain ⟨_, _, _, h⟩ := bind_ok h
  obtain ⟨e, s3, h3, h⟩ := bind_ok h
  have hp := pure_ok h
  have hl := parseEndpoint_length _ _ _ _ _ _ _ h3
  rw [hp.1]; exact ⟨rfl, hl⟩

theorem nextImplicit_ne (cmd : Char) : nextImplicit cmd ≠ 'z' ∧ nextImplicit cmd ≠ 'Z' := by
  unfold nextImplicit
  split
  · decide
  split
  · decide
  split
  · decide
  split
  · decide
  rename_i h1 h2 h3 h4
  simp only [beq_iff_eq] at h3 h4
  exact ⟨h3, h4⟩

/-! ### D. One loop iteration -/

theorem emitAt_snd (s : Src) (l : List (PCall ν)) : (emitAt s l).map Prod.snd = l := by
  induction l with
  | nil => rfl
  | cons c r ih => simp only [emitAt, List.map_cons, List.map_map] at ih ⊢; simp [ih]

theorem afterCmd_len_le (s : Src) : (afterCmd s).len ≤ s.len := by
  unfold afterCmd; split
  · exact adv_len_le s
  · exact Nat.le_refl _

/-- the calls of one successful iteration, and what it does to `need_end` / `need_start` -/
inductive StepCalls (st st' : St ν) : List (PCall ν) → Prop
  | edges (tr : List (PCall ν)) : st.needStart = false → st'.needEnd = st.needEnd →
      st'.needStart = false → (∀ c ∈ tr, isEdge c = true) → StepCalls st st' tr
  | move (p : Pt ν) (a : List ν) : st'.needEnd = true → st'.needStart = false →
      StepCalls st st' ((if st.needEnd then [.end_ false] else []) ++ [.begin p a])
  | close : st.needStart = false → st'.needEnd = false → st'.needStart = true →
      StepCalls st st' [.end_ true]

/-- the calls of an iteration that returns an error, and `need_end` at that moment -/
inductive FailCalls (st : St ν) : Bool → List (PCall ν) → Prop
  | plain : FailCalls st st.needEnd []
  | inMove : FailCalls st false (if st.needEnd then [.end_ false] else [])

def StepSpec (N : Num ν) (na : Nat) (st : St ν) (bound : Nat) : StepOut ν → Prop
  | .cont st' s' em =>
      s'.len < bound ∧ st'.implicit ≠ 'z' ∧ st'.implicit ≠ 'Z' ∧
      (st'.needStart = false → st'.attrs.length = na) ∧ StepCalls st st' (em.map Prod.snd)
  | .fail _ ne _ em => FailCalls st ne (em.map Prod.snd)
  | .panic _ em => em = [] ∧ st.needStart = false ∧
      ((∃ pos a, N.arc pos a = none) ∨ st.attrs.length < na)

theorem runEdge_spec (N : Num ν) (na : Nat) (cmd : Char) (st : St ν) (m : PM (EdgeOut ν))
    (hm : edgeCmd N na cmd st = some m) (s1 : Src) (bound : Nat) (hb : s1.len ≤ bound)
    (hns : st.needStart = false) : StepSpec N na st bound (runEdge m cmd st s1) := by
  unfold runEdge
  split
  · rename_i o s' heq
    have sp := edgeCmd_spec N na cmd st m hm _ _ _ heq
    have lt := edgeCmd_strict N na cmd st m hm _ _ _ heq
    have ni := nextImplicit_ne cmd
    simp only [StepSpec, emitAt_snd]
    refine ⟨by omega, ni.1, ni.2, fun _ => sp.attrs, ?_⟩
    exact .edges _ hns sp.needEnd (by simp [St.after, sp.needStart, hns]) sp.edges
  · simp only [StepSpec, List.map_nil]; exact .plain

theorem map_quad_edges {β : Type} (qs : List β) (f g : β → Pt ν) (h : β → List ν) :
    ∀ c ∈ qs.map (fun q => (Call.quad (f q) (g q) (h q) : PCall ν)), isEdge c = true := by
  intro c hc
  simp only [List.mem_map] at hc
  obtain ⟨q, _, rfl⟩ := hc
  rfl

theorem runArc_spec (N : Num ν) (na : Nat) (cmd : Char) (st : St ν) (s1 : Src) (bound : Nat)
    (hb : s1.len ≤ bound) (hns : st.needStart = false) :
    StepSpec N na st bound (runArc N na cmd st s1) := by
  unfold runArc
  split
  · rename_i a s' heq
    have sp := cmdAArgs_spec N na _ st _ _ _ heq
    have lt := cmdAArgs_strict N na _ st _ _ _ heq
    have ni := nextImplicit_ne cmd
    unfold arcEmit
    split
    · simp only [StepSpec, emitAt_snd]
      refine ⟨by omega, ni.1, ni.2, fun _ => sp.2, ?_⟩
      exact .edges _ hns rfl hns (by simp [isEdge])
    · split
      · rename_i hnone
        simp only [StepSpec]
        exact ⟨trivial, hns, Or.inl ⟨_, _, hnone⟩⟩
      · split
        · rename_i hoob
          simp only [StepSpec]
          refine ⟨trivial, hns, Or.inr ?_⟩
          simp only [Bool.and_eq_true, decide_eq_true_eq] at hoob
          rw [← sp.1]; exact hoob.2
        · simp only [StepSpec, emitAt_snd]
          refine ⟨by omega, ni.1, ni.2, fun _ => sp.2, ?_⟩
          exact .edges _ hns rfl hns (map_quad_edges _ _ _ _)
  · simp only [StepSpec, List.map_nil]; exact .plain

theorem runMove_spec (N : Num ν) (na : Nat) (cmd : Char) (st : St ν) (s1 : Src) (bound : Nat)
    (hb : s1.len ≤ bound) : StepSpec N na st bound (runMove N na cmd st s1) := by
  unfold runMove
  split
  · rename_i e s' heq
    have lt := parseEndpoint_strict N na _ _ _ _ _ heq
    have hl := parseEndpoint_length N na _ _ _ _ _ heq
    have ni := nextImplicit_ne cmd
    simp only [StepSpec, List.map_append, emitAt_snd]
    refine ⟨by omega, ni.1, ni.2, fun _ => hl, ?_⟩
    have : (List.map Prod.snd (if st.needEnd = true then emitAt s1 [Call.end_ false] else []) :
        List (PCall ν)) = (if st.needEnd then [.end_ false] else []) := by
      split <;> simp [emitAt]
    rw [this]
    exact .move _ _ rfl rfl
  · simp only [StepSpec]
    have : (List.map Prod.snd (if st.needEnd = true then emitAt s1 [Call.end_ false] else []) :
        List (PCall ν)) = (if st.needEnd then [.end_ false] else []) := by
      split <;> simp [emitAt]
    rw [this]
    exact .inMove

theorem runClose_spec (N : Num ν) (na : Nat) (cmd : Char) (st : St ν) (s1 : Src) (bound : Nat)
    (hb : s1.len < bound) (hns : st.needStart = false) :
    StepSpec N na st bound (runClose cmd st s1) := by
  have ni := nextImplicit_ne cmd
  simp only [runClose, StepSpec, emitAt_snd]
  refine ⟨hb, ni.1, ni.2, fun h => by simp [St.after] at h, ?_⟩
  exact .close hns rfl rfl

theorem edgeCmd_drawing (N : Num ν) (na : Nat) (cmd : Char) (st : St ν) (m : PM (EdgeOut ν))
    (h : edgeCmd N na cmd st = some m) : isDrawingCmd cmd = true := by
  unfold edgeCmd at h
  simp only [isDrawingCmd, Bool.or_eq_true, beq_iff_eq]
  split at h
  · rename_i hc; simp only [Bool.or_eq_true, beq_iff_eq] at hc; rcases hc with hc | hc <;> simp [hc]
  split at h
  · rename_i hc; simp only [Bool.or_eq_true, beq_iff_eq] at hc; rcases hc with hc | hc <;> simp [hc]
  split at h
  · rename_i hc; simp only [Bool.or_eq_true, beq_iff_eq] at hc; rcases hc with hc | hc <;> simp [hc]
  split at h
  · rename_i hc; simp only [Bool.or_eq_true, beq_iff_eq] at hc; rcases hc with hc | hc <;> simp [hc]
  split at h
  · rename_i hc; simp only [Bool.or_eq_true, beq_iff_eq] at hc; rcases hc with hc | hc <;> simp [hc]
  split at h
  · rename_i hc; simp only [Bool.or_eq_true, beq_iff_eq] at hc; rcases hc with hc | hc <;> simp [hc]
  split at h
  · rename_i hc; simp only [Bool.or_eq_true, beq_iff_eq] at hc; rcases hc with hc | hc <;> simp [hc]
  · cases h

theorem step_spec (N : Num ν) (na : Nat) (st : St ν) (s : Src) (hs : s.inp ≠ [])
    (hz : st.implicit ≠ 'z') (hZ : st.implicit ≠ 'Z') :
    StepSpec N na st s.len (step N na st s) := by
  unfold step
  split
  · simp only [StepSpec, List.map_nil]; exact .plain
  · rename_i hchk
    have hle := afterCmd_len_le s
    unfold dispatchCmd
    split
    · rename_i m hm
      have hbl := edgeCmd_drawing N na _ st m hm
      have hns : st.needStart = false := by
        cases h : st.needStart
        · rfl
        · simp [h, hbl] at hchk
      exact runEdge_spec N na _ st m hm _ _ hle hns
    · split
      · rename_i ha
        have hns : st.needStart = false := by
          cases h : st.needStart
          · rfl
          · have hbl : isDrawingCmd (cmdOf st s) = true := by
              rcases (by simpa using ha : cmdOf st s = 'a' ∨ cmdOf st s = 'A') with h' | h' <;>
                (rw [h']; decide)
            simp [h, hbl] at hchk
        exact runArc_spec N na _ st _ _ hle hns
      · split
        · exact runMove_spec N na _ st _ _ hle
        · split
          · rename_i hzz
            have hzz' : cmdOf st s = 'z' ∨ cmdOf st s = 'Z' := by simpa using hzz
            have hns : st.needStart = false := by
              cases h : st.needStart
              · rfl
              · have hbl : isDrawingCmd (cmdOf st s) = true := by
                  rcases hzz' with h' | h' <;> (rw [h']; decide)
                simp [h, hbl] at hchk
            have halpha : s.cur.isAlpha = true := by
              cases h : s.cur.isAlpha
              · simp only [cmdOf, h] at hzz'
                rcases hzz' with h' | h'
                · exact absurd h' hz
                · exact absurd h' hZ
              · rfl
            have : (afterCmd s).len < s.len := by
              simp only [afterCmd, halpha, if_true]; exact adv_len_lt s hs
            exact runClose_spec N na _ st _ _ this hns
          · simp only [StepSpec, List.map_nil]; exact .plain

/-! ### E. The loop -/

theorem nestState_append (b : Bool) (l1 l2 : List (PCall ν)) :
    nestState b (l1 ++ l2) = (nestState b l1).bind (fun b' => nestState b' l2) := by
  induction l1 generalizing b with
  | nil => cases b <;> simp [nestState]
  | cons c r ih => cases b <;> cases c <;> simp [nestState, ih]

theorem nestState_edges (l : List (PCall ν)) (h : ∀ c ∈ l, isEdge c = true) :
    nestState true l = some true := by
  induction l with
  | nil => simp [nestState]
  | cons c r ih =>
    have hc := h c (by simp)
    have hr := ih (fun d hd => h d (by simp [hd]))
    cases c <;> simp_all [nestState, isEdge]

/-- the state is not the defective one (no sub-path open and no move-to demanded) -/
def Good (st : St ν) : Prop := st.needEnd = true ∨ st.needStart = true

theorem stepCalls_nest {st st' : St ν} {tr : List (PCall ν)} (hg : Good st)
    (h : StepCalls st st' tr) : nestState st.needEnd tr = some st'.needEnd ∧ Good st' := by
  cases h with
  | edges _ hns hne hns' hed =>
    have : st.needEnd = true := by rcases hg with h | h; exact h; simp [hns] at h
    rw [hne, this]; exact ⟨nestState_edges _ hed, Or.inl (by rw [hne, this])⟩
  | move p a hne hns =>
    refine ⟨?_, Or.inl hne⟩
    cases hh : st.needEnd <;> simp [nestState, hne]
  | close hns hne hns' =>
    have : st.needEnd = true := by rcases hg with h | h; exact h; simp [hns] at h
    rw [this, hne]; exact ⟨by simp [nestState], Or.inr hns'⟩

theorem closing_snd (b : Bool) (s : Src) :
    ((closing b s : List (Emit ν)).map Prod.snd) = if b then [.end_ false] else [] := by
  unfold closing; split <;> simp [emitAt]

theorem failCalls_nest {st : St ν} {ne : Bool} {tr : List (PCall ν)} (h : FailCalls st ne tr) :
    nestState st.needEnd (tr ++ (if ne then [.end_ false] else [])) = some false := by
  cases h with
  | plain => cases hh : st.needEnd <;> simp [nestState]
  | inMove => cases hh : st.needEnd <;> simp [nestState]

theorem loop_succ (N : Num ν) (na : Nat) (stop : Option Char) (fuel : Nat) (st : St ν) (s : Src) :
    loop N na stop (fuel + 1) st s =
      if s.fin then ⟨closing st.needEnd s, .ok, s⟩
      else if stop == some s.cur then ⟨closing st.needEnd s, .ok, s⟩
      else
        match step N na st s with
        | .cont st' s' em => (loop N na stop fuel st' s'.skipWs).cons em
        | .fail e ne s' em => ⟨em ++ closing ne s', .err e, s'⟩
        | .panic s' em => ⟨em, .panic, s'⟩ := rfl

theorem inp_ne_of_not_fin {s : Src} (h : ¬ s.fin = true) : s.inp ≠ [] := by
  intro hn; apply h; simp [Src.fin, hn]

/-- the fuel `length + 1` never runs out -/
theorem loop_not_stuck (N : Num ν) (na : Nat) (stop : Option Char) (fuel : Nat) :
    ∀ (st : St ν) (s : Src), s.len < fuel → st.implicit ≠ 'z' → st.implicit ≠ 'Z' →
      (loop N na stop fuel st s).outcome ≠ .stuck := by
  induction fuel with
  | zero => intro st s h; omega
  | succ fuel ih =>
    intro st s hlen hz hZ
    rw [loop_succ]
    by_cases hf : s.fin = true
    · simp [hf]
    by_cases hstop : (stop == some s.cur) = true
    · simp [hf, hstop]
    simp only [hf, hstop, if_false, Bool.false_eq_true]
    have sp := step_spec N na st s (inp_ne_of_not_fin hf) hz hZ
    cases hstep : step N na st s with
    | cont st' s' em =>
      rw [hstep] at sp
      simp only [StepSpec] at sp
      simp only [Result.cons]
      have := skipWs_len_le s'
      exact ih st' s'.skipWs (by omega) sp.2.1 sp.2.2.1
    | fail e ne s' em => simp
    | panic s' em => simp

/-- result is `Ok` or `Err` (neither panic nor out of fuel) -/
def Result.closed (r : Result ν) : Prop := r.outcome = .ok ∨ ∃ e, r.outcome = .err e

theorem trace_cons (em : List (Emit ν)) (r : Result ν) :
    (r.cons em).trace = em.map Prod.snd ++ r.trace := by
  simp [Result.cons, Result.trace]

/-- from a non-defective state the calls are prefix-safe, and properly closed when the parser
returns -/
theorem loop_nest (N : Num ν) (na : Nat) (stop : Option Char) (fuel : Nat) :
    ∀ (st : St ν) (s : Src), Good st → st.implicit ≠ 'z' → st.implicit ≠ 'Z' →
      ∃ b, nestState st.needEnd (loop N na stop fuel st s).trace = some b ∧
        ((loop N na stop fuel st s).closed → b = false) := by
  induction fuel with
  | zero =>
    intro st s _ _ _
    refine ⟨st.needEnd, by cases h : st.needEnd <;> simp [loop, Result.trace, nestState], ?_⟩
    intro hc; rcases hc with h | ⟨e, h⟩ <;> simp [loop] at h
  | succ fuel ih =>
    intro st s hg hz hZ
    rw [loop_succ]
    have fin_case : ∃ b, nestState st.needEnd
        (⟨closing st.needEnd s, Outcome.ok, s⟩ : Result ν).trace = some b ∧
        ((⟨closing st.needEnd s, Outcome.ok, s⟩ : Result ν).closed → b = false) := by
      refine ⟨false, ?_, fun _ => rfl⟩
      simp only [Result.trace, closing_snd]
      cases h : st.needEnd <;> simp [nestState]
    by_cases hf : s.fin = true
    · simpa [hf] using fin_case
    by_cases hstop : (stop == some s.cur) = true
    · simpa [hf, hstop] using fin_case
    simp only [hf, hstop, if_false, Bool.false_eq_true]
    have sp := step_spec N na st s (inp_ne_of_not_fin hf) hz hZ
    cases hstep : step N na st s with
    | cont st' s' em =>
      rw [hstep] at sp
      simp only [StepSpec] at sp
      obtain ⟨_, hz', hZ', _, hcalls⟩ := sp
      obtain ⟨hn, hg'⟩ := stepCalls_nest hg hcalls
      obtain ⟨b, hb, hcl⟩ := ih st' s'.skipWs hg' hz' hZ'
      refine ⟨b, ?_, ?_⟩
      · simp only [trace_cons, nestState_append, hn, Option.bind_some, hb]
      · intro hc; apply hcl
        simpa [Result.closed, Result.cons] using hc
    | fail e ne s' em =>
      rw [hstep] at sp
      simp only [StepSpec] at sp
      refine ⟨false, ?_, fun _ => rfl⟩
      simp only [Result.trace, List.map_append, closing_snd]
      exact failCalls_nest sp
    | panic s' em =>
      rw [hstep] at sp
      simp only [StepSpec] at sp
      refine ⟨st.needEnd, ?_, ?_⟩
      · simp only [Result.trace, sp.1, List.map_nil]
        cases h : st.needEnd <;> simp [nestState]
      · intro hc; rcases hc with h | ⟨e, h⟩ <;> simp at h

/-- no panic: the arc conversion does not panic, and either there are no custom attributes or
the attribute buffer has been filled (always the case after a move-to) -/
theorem loop_no_panic (N : Num ν) (na : Nat) (stop : Option Char)
    (harc : ∀ pos a, N.arc pos a ≠ none) (fuel : Nat) :
    ∀ (st : St ν) (s : Src), st.implicit ≠ 'z' → st.implicit ≠ 'Z' →
      (na = 0 ∨ (st.needStart = false → st.attrs.length = na)) →
      (loop N na stop fuel st s).outcome ≠ .panic := by
  induction fuel with
  | zero => intro st s _ _ _; simp [loop]
  | succ fuel ih =>
    intro st s hz hZ hJ
    rw [loop_succ]
    by_cases hf : s.fin = true
    · simp [hf]
    by_cases hstop : (stop == some s.cur) = true
    · simp [hf, hstop]
    simp only [hf, hstop, if_false, Bool.false_eq_true]
    have sp := step_spec N na st s (inp_ne_of_not_fin hf) hz hZ
    cases hstep : step N na st s with
    | cont st' s' em =>
      rw [hstep] at sp
      simp only [StepSpec] at sp
      simp only [Result.cons]
      exact ih st' s'.skipWs sp.2.1 sp.2.2.1 (Or.inr sp.2.2.2.1)
    | fail e ne s' em => simp
    | panic s' em =>
      rw [hstep] at sp
      simp only [StepSpec] at sp
      exfalso
      rcases sp.2.2 with ⟨pos, a, h⟩ | h
      · exact harc pos a h
      · rcases hJ with h0 | hJ
        · omega
        · have := hJ sp.2.1; omega

/-! ### F. Positions: every source the parser reaches is the initial one advanced `n` times -/

/-- `advance_one` applied `n` times -/
def advN : Nat → Src → Src
  | 0, s => s
  | n + 1, s => advN n s.adv

def Reach (s0 s : Src) : Prop := ∃ n, s = advN n s0

theorem advN_add (a b : Nat) (s : Src) : advN (a + b) s = advN b (advN a s) := by
  induction a generalizing s with
  | zero => simp [advN]
  | succ a ih => rw [Nat.succ_add]; simp [advN, ih]

theorem Reach.refl (s : Src) : Reach s s := ⟨0, rfl⟩
theorem Reach.trans {a b c : Src} (h1 : Reach a b) (h2 : Reach b c) : Reach a c := by
  obtain ⟨n, rfl⟩ := h1; obtain ⟨m, rfl⟩ := h2; exact ⟨n + m, (advN_add n m a).symm⟩
theorem Reach.adv (s : Src) : Reach s s.adv := ⟨1, rfl⟩

theorem advWhileL_reach (p : Char → Bool) (l : List Char) (a b : Int) :
    Reach ⟨l, a, b⟩ (advWhileL p l a b) := by
  induction l generalizing a b with
  | nil => exact Reach.refl _
  | cons c r ih =>
    unfold advWhileL
    split
    · exact Reach.trans (Reach.adv ⟨c :: r, a, b⟩) (ih _ _)
    · exact Reach.refl _

theorem advWhile_reach (p : Char → Bool) (s : Src) : Reach s (s.advWhile p) :=
  advWhileL_reach p s.inp s.line s.col

theorem skipWs_reach (s : Src) : Reach s s.skipWs := advWhile_reach _ s

theorem optChar_reach (p : Char → Bool) (s : Src) : Reach s (optChar p s).2 := by
  unfold optChar
  split
  · exact Reach.refl _
  · split
    · exact Reach.adv s
    · exact Reach.refl _

theorem digitsOf_reach (s : Src) : Reach s (digitsOf s).2 := advWhile_reach _ s

theorem lexMant_reach (s : Src) : Reach s (lexMant s).2 :=
  Reach.trans (optChar_reach _ s) (digitsOf_reach _)

theorem lexFrac_reach (s : Src) : Reach s (lexFrac s).2 := by
  unfold lexFrac
  split
  · exact Reach.refl _
  · split
    · exact Reach.trans (Reach.adv s) (digitsOf_reach _)
    · exact Reach.refl _

theorem lexExp_reach (s : Src) : Reach s (lexExp s).2 := by
  unfold lexExp
  split
  · exact Reach.refl _
  · split
    · exact Reach.trans (Reach.adv s) (lexMant_reach _)
    · exact Reach.refl _

theorem lexNum_reach (s : Src) : Reach s (lexNum s).2 :=
  Reach.trans (lexMant_reach s) (Reach.trans (lexFrac_reach _) (lexExp_reach _))

/-- an error's position is that of a source reached from `s` -/
def ErrAt (s : Src) (e : Err) : Prop := ∃ t, Reach s t ∧ e.line = t.line ∧ e.col = t.col

theorem ErrAt.mono {s0 s : Src} {e : Err} (h : Reach s0 s) (he : ErrAt s e) : ErrAt s0 e := by
  obtain ⟨t, ht, hl, hc⟩ := he; exact ⟨t, Reach.trans h ht, hl, hc⟩

structure Tracks {α} (m : PM α) : Prop where
  ok : ∀ s a s', m s = .ok a s' → Reach s s'
  err : ∀ s e s', m s = .err e s' → Reach s s' ∧ ErrAt s e

theorem pure_tracks {α} (a : α) : Tracks (pure a : PM α) := by
  constructor
  · intro s b s' h; rw [(pure_ok h).2]; exact Reach.refl _
  · intro s e s' h; simp [pure, PM.pure] at h

theorem bind_tracks {α β} {m : PM α} {f : α → PM β} (hm : Tracks m) (hf : ∀ a, Tracks (f a)) :
    Tracks (m >>= f) := by
  constructor
  · intro s b s' h
    obtain ⟨a, s1, h1, h2⟩ := bind_ok h
    exact Reach.trans (hm.ok _ _ _ h1) ((hf a).ok _ _ _ h2)
  · intro s e s' h
    simp only [bind, PM.bind] at h
    cases h1 : m s with
    | ok a s1 =>
      rw [h1] at h
      have r1 := hm.ok _ _ _ h1
      obtain ⟨r2, e2⟩ := (hf a).err _ _ _ h
      exact ⟨Reach.trans r1 r2, ErrAt.mono r1 e2⟩
    | err e1 s1 =>
      rw [h1] at h
      cases h
      exact hm.err _ _ _ h1

theorem parseNumber_tracks (N : Num ν) : Tracks (parseNumber N) := by
  constructor
  · intro s a s' h
    unfold parseNumber at h
    split at h
    · cases h; exact Reach.trans (skipWs_reach s) (lexNum_reach _)
    · cases h
  · intro s e s' h
    unfold parseNumber at h
    split at h
    · cases h
    · cases h
      exact ⟨Reach.trans (skipWs_reach s) (lexNum_reach _), s.skipWs, skipWs_reach s, rfl, rfl⟩

theorem parseFlag_tracks : Tracks parseFlag := by
  constructor
  · intro s a s' h
    unfold parseFlag at h
    split at h
    · cases h; exact Reach.trans (skipWs_reach s) (Reach.adv _)
    · split at h
      · cases h; exact Reach.trans (skipWs_reach s) (Reach.adv _)
      · cases h
  · intro s e s' h
    unfold parseFlag at h
    split at h
    · cases h
    · split at h
      · cases h
      · cases h; exact ⟨skipWs_reach s, s.skipWs, skipWs_reach s, rfl, rfl⟩

theorem parsePoint_tracks (N : Num ν) (rel : Bool) (cur : Pt ν) : Tracks (parsePoint N rel cur) :=
  bind_tracks (parseNumber_tracks N) fun _ => bind_tracks (parseNumber_tracks N) fun _ => pure_tracks _

theorem parseAttrs_tracks (N : Num ν) (n : Nat) : Tracks (parseAttrs N n) := by
  induction n with
  | zero => exact pure_tracks _
  | succ n ih =>
    exact bind_tracks (parseNumber_tracks N) fun _ => bind_tracks ih fun _ => pure_tracks _

theorem parseEndpoint_tracks (N : Num ν) (na : Nat) (rel : Bool) (cur : Pt ν) :
    Tracks (parseEndpoint N na rel cur) :=
  bind_tracks (parsePoint_tracks N rel cur) fun _ =>
    bind_tracks (parseAttrs_tracks N na) fun _ => pure_tracks _

theorem edgeCmd_tracks (N : Num ν) (na : Nat) (cmd : Char) (st : St ν) (m : PM (EdgeOut ν))
    (h : edgeCmd N na cmd st = some m) : Tracks m := by
  have pe := fun rel => parseEndpoint_tracks N na rel st.cur
  have pp := fun rel => parsePoint_tracks N rel st.cur
  have pn := parseNumber_tracks N
  have pa := parseAttrs_tracks N na
  unfold edgeCmd at h
  split at h
  · cases h; exact bind_tracks (pe _) fun _ => pure_tracks _
  split at h
  · cases h; exact bind_tracks pn fun _ => bind_tracks pa fun _ => pure_tracks _
  split at h
  · cases h; exact bind_tracks pn fun _ => bind_tracks pa fun _ => pure_tracks _
  split at h
  · cases h; exact bind_tracks (pp _) fun _ => bind_tracks (pe _) fun _ => pure_tracks _
  split at h
  · cases h; exact bind_tracks (pe _) fun _ => pure_tracks _
  split at h
  · cases h
    exact bind_tracks (pp _) fun _ => bind_tracks (pp _) fun _ => bind_tracks (pe _) fun _ => pure_tracks _
  split at h
  · cases h; exact bind_tracks (pp _) fun _ => bind_tracks (pe _) fun _ => pure_tracks _
  · cases h

theorem cmdAArgs_tracks (N : Num ν) (na rel) (st : St ν) : Tracks (cmdAArgs N na rel st) :=
  bind_tracks (parseNumber_tracks N) fun _ =>
    bind_tracks (parseNumber_tracks N) fun _ =>
      bind_tracks (parseNumber_tracks N) fun _ =>
        bind_tracks parseFlag_tracks fun _ =>
          bind_tracks parseFlag_tracks fun _ =>
            bind_tracks (parseEndpoint_tracks N na rel st.cur) fun _ => pure_tracks _

/-- where one iteration leaves the source, and where its error (if any) points -/
def StepPos (s0 : Src) : StepOut ν → Prop
  | .cont _ s' _ => Reach s0 s'
  | .fail e _ s' _ => Reach s0 s' ∧ ErrAt s0 e
  | .panic s' _ => Reach s0 s'

theorem afterCmd_reach (s : Src) : Reach s (afterCmd s) := by
  unfold afterCmd; split
  · exact Reach.adv s
  · exact Reach.refl _

theorem step_pos (N : Num ν) (na : Nat) (st : St ν) (s : Src) :
    StepPos s (step N na st s) := by
  have ha := afterCmd_reach s
  have here : ErrAt s (.missingMoveTo (cmdOf st s) s.line s.col) := ⟨s, Reach.refl _, rfl, rfl⟩
  have here' : ErrAt s (.command (cmdOf st s) s.line s.col) := ⟨s, Reach.refl _, rfl, rfl⟩
  unfold step
  split
  · exact ⟨ha, here⟩
  · unfold dispatchCmd
    split
    · rename_i m hm
      have tr := edgeCmd_tracks N na _ st m hm
      unfold runEdge
      split
      · rename_i heq; exact Reach.trans ha (tr.ok _ _ _ heq)
      · rename_i heq
        obtain ⟨r, e⟩ := tr.err _ _ _ heq
        exact ⟨Reach.trans ha r, ErrAt.mono ha e⟩
    · split
      · have tr := cmdAArgs_tracks N na (cmdOf st s).isLower st
        unfold runArc
        split
        · rename_i heq
          have r := Reach.trans ha (tr.ok _ _ _ heq)
          unfold arcEmit
          split
          · exact r
          · split
            · exact r
            · split
              · exact r
              · exact r
        · rename_i heq
          obtain ⟨r, e⟩ := tr.err _ _ _ heq
          exact ⟨Reach.trans ha r, ErrAt.mono ha e⟩
      · split
        · have tr := parseEndpoint_tracks N na (cmdOf st s).isLower st.cur
          unfold runMove
          split
          · rename_i heq; exact Reach.trans ha (tr.ok _ _ _ heq)
          · rename_i heq
            obtain ⟨r, e⟩ := tr.err _ _ _ heq
            exact ⟨Reach.trans ha r, ErrAt.mono ha e⟩
        · split
          · exact ha
          · exact ⟨ha, here'⟩

/-- an error returned by the loop points at a source reached from where the loop started, and
so does the final source -/
theorem loop_pos (N : Num ν) (na : Nat) (stop : Option Char) (fuel : Nat) :
    ∀ (st : St ν) (s : Src),
      Reach s (loop N na stop fuel st s).final ∧
      ∀ e, (loop N na stop fuel st s).outcome = .err e → ErrAt s e := by
  induction fuel with
  | zero => intro st s; exact ⟨Reach.refl _, fun e h => by simp [loop] at h⟩
  | succ fuel ih =>
    intro st s
    rw [loop_succ]
    by_cases hf : s.fin = true
    · simp only [hf, if_true]; exact ⟨Reach.refl _, fun e h => by simp at h⟩
    by_cases hstop : (stop == some s.cur) = true
    · simp only [hf, hstop, if_true, if_false, Bool.false_eq_true]
      exact ⟨Reach.refl _, fun e h => by simp at h⟩
    simp only [hf, hstop, if_false, Bool.false_eq_true]
    have sp := step_pos N na st s
    cases hstep : step N na st s with
    | cont st' s' em =>
      rw [hstep] at sp
      simp only [StepPos] at sp
      have r := Reach.trans sp (skipWs_reach s')
      obtain ⟨h1, h2⟩ := ih st' s'.skipWs
      exact ⟨Reach.trans r h1, fun e h => ErrAt.mono r (h2 e (by simpa [Result.cons] using h))⟩
    | fail e ne s' em =>
      rw [hstep] at sp
      simp only [StepPos] at sp
      exact ⟨sp.1, fun e' h => by simp at h; rw [← h]; exact sp.2⟩
    | panic s' em =>
      rw [hstep] at sp
      simp only [StepPos] at sp
      exact ⟨sp, fun e' h => by simp at h⟩

/-! closed forms for the position after `n` × `advance_one` -/

theorem advN_inp (n : Nat) (s : Src) : (advN n s).inp = s.inp.drop n := by
  induction n generalizing s with
  | zero => simp [advN]
  | succ n ih =>
    simp only [advN, ih, adv_inp]
    cases s.inp <;> simp

def nlCount (l : List Char) : Int := (l.count '\n' : Nat)

theorem nextLine_eq (r : List Char) (l : Int) : nextLine r l = l + nlCount (r.take 1) := by
  cases r with
  | nil => simp [nextLine, nlCount]
  | cons c t =>
    by_cases h : c = '\n'
    · subst h; simp [nextLine, nlCount]
    · have : ('\n' == c) = false := by simp [Ne.symm h]
      simp [nextLine, nlCount, h, List.count_cons, this]

theorem nlCount_take_succ (r : List Char) (n : Nat) :
    nlCount (r.take (n + 1)) = nlCount (r.take 1) + nlCount (r.tail.take n) := by
  cases r with
  | nil => simp [nlCount]
  | cons c t => simp [nlCount, List.count_cons]; omega

/-- line after `n` steps: the newlines among the `n` characters stepped onto -/
theorem advN_line (n : Nat) (s : Src) (hn : n < s.inp.length) :
    (advN n s).line = s.line + nlCount (s.inp.tail.take n) := by
  induction n generalizing s with
  | zero => simp [advN, nlCount]
  | succ n ih =>
    cases hs : s.inp with
    | nil => simp [hs] at hn
    | cons c r =>
      have hadv : s.adv = ⟨r, nextLine r s.line, nextCol r s.col⟩ := by simp [Src.adv, hs]
      have hn' : n < (s.adv).inp.length := by simp [hadv]; simp [hs] at hn; omega
      rw [advN, ih s.adv hn', hadv]
      simp only [List.tail_cons, nextLine_eq, nlCount_take_succ r n]
      omega

/-- column after `n` steps none of which lands on a newline -/
theorem advN_col_plain (n : Nat) (s : Src) (hn : n < s.inp.length)
    (hnl : ∀ c ∈ s.inp.tail.take n, c ≠ '\n') : (advN n s).col = s.col + n := by
  induction n generalizing s with
  | zero => simp [advN]
  | succ n ih =>
    cases hs : s.inp with
    | nil => simp [hs] at hn
    | cons c r =>
      simp only [hs, List.tail_cons] at hnl
      cases hr : r with
      | nil => simp [hs, hr] at hn
      | cons d t =>
        have hd : d ≠ '\n' := hnl d (by simp [hr])
        have hadv : s.adv = ⟨d :: t, nextLine (d :: t) s.line, s.col + 1⟩ := by
          simp [Src.adv, hs, hr, nextCol, hd]
        have hn' : n < (s.adv).inp.length := by
          simp [hadv]; simp [hs, hr] at hn; omega
        have := ih s.adv hn' (by
          intro x hx; apply hnl x
          rw [hadv] at hx; simp only [List.tail_cons] at hx
          rw [hr]; simp only [List.take_succ_cons]; exact List.mem_cons_of_mem _ hx)
        rw [advN, this, hadv]; simp only []; omega

/-- stepping onto a newline sets the column to -1 -/
theorem adv_col_newline (s : Src) (c : Char) (t : List Char) (hs : s.inp = c :: '\n' :: t) :
    s.adv.col = -1 := by
  simp [Src.adv, hs, nextCol]

/-! ### G. Round trip: the lexer on lists, printed numbers parse back -/

def optL (p : Char → Bool) : List Char → List Char × List Char
  | [] => ([], [])
  | c :: r => if p c then ([c], r) else ([], c :: r)

def digitsL (l : List Char) : List Char × List Char := (l.takeWhile isNumeric, l.dropWhile isNumeric)

def lexMantL (l : List Char) : List Char × List Char :=
  ((optL (· == '-') l).1 ++ (digitsL (optL (· == '-') l).2).1, (digitsL (optL (· == '-') l).2).2)

def lexFracL : List Char → List Char × List Char
  | [] => ([], [])
  | c :: r => if c == '.' then ('.' :: (digitsL r).1, (digitsL r).2) else ([], c :: r)

def lexExpL : List Char → List Char × List Char
  | [] => ([], [])
  | c :: r => if c == 'e' || c == 'E' then (c :: (lexMantL r).1, (lexMantL r).2) else ([], c :: r)

/-- `lexNum` on the character list alone: (collected lexeme, remaining input) -/
def lexNumL (l : List Char) : List Char × List Char :=
  ((lexMantL l).1 ++ (lexFracL (lexMantL l).2).1 ++ (lexExpL (lexFracL (lexMantL l).2).2).1,
   (lexExpL (lexFracL (lexMantL l).2).2).2)

theorem optChar_list (p : Char → Bool) (s : Src) :
    (optChar p s).1 = (optL p s.inp).1 ∧ (optChar p s).2.inp = (optL p s.inp).2 := by
  unfold optChar
  cases h : s.inp with
  | nil => simp [optL, h]
  | cons c r => by_cases hp : p c <;> simp [optL, hp, adv_inp, h]

theorem digitsOf_list (s : Src) :
    (digitsOf s).1 = (digitsL s.inp).1 ∧ (digitsOf s).2.inp = (digitsL s.inp).2 := by
  simp [digitsOf, digitsL, advWhile_inp]

theorem lexMant_list (s : Src) :
    (lexMant s).1 = (lexMantL s.inp).1 ∧ (lexMant s).2.inp = (lexMantL s.inp).2 := by
  have h1 := optChar_list (· == '-') s
  have h2 := digitsOf_list (optChar (· == '-') s).2
  simp only [lexMant, lexMantL, h1.1, h2.1, h2.2, h1.2, and_self]

theorem lexFrac_list (s : Src) :
    (lexFrac s).1 = (lexFracL s.inp).1 ∧ (lexFrac s).2.inp = (lexFracL s.inp).2 := by
  unfold lexFrac
  cases h : s.inp with
  | nil => simp [lexFracL, h]
  | cons c r =>
    have h2 := digitsOf_list s.adv
    have h3 : s.adv.inp = r := by simp [adv_inp, h]
    by_cases hc : c = '.'
    · simp [lexFracL, hc, h2.1, h2.2, h3]
    · simp [lexFracL, hc, h]

theorem lexExp_list (s : Src) :
    (lexExp s).1 = (lexExpL s.inp).1 ∧ (lexExp s).2.inp = (lexExpL s.inp).2 := by
  unfold lexExp
  cases h : s.inp with
  | nil => simp [lexExpL, h]
  | cons c r =>
    have h2 := lexMant_list s.adv
    have h3 : s.adv.inp = r := by simp [adv_inp, h]
    by_cases hc : (c == 'e' || c == 'E') = true
    · have e1 : (lexExpTail s.adv).1 = (lexMantL r).1 := by rw [← h3]; exact h2.1
      have e2 : (lexExpTail s.adv).2.inp = (lexMantL r).2 := by rw [← h3]; exact h2.2
      simp only [lexExpL, hc, if_true, e1, e2, and_self]
    · simp [lexExpL, hc, h]

theorem lexNum_list (s : Src) :
    (lexNum s).1 = (lexNumL s.inp).1 ∧ (lexNum s).2.inp = (lexNumL s.inp).2 := by
  have h1 := lexMant_list s
  have h2 := lexFrac_list (lexMant s).2
  have h3 := lexExp_list (lexFrac (lexMant s).2).2
  simp only [lexNum, lexNumL, h1.1, h2.1, h3.1, h3.2, h2.2, h1.2, and_self]

/-- the lexical half of what the round trip needs from the number printer `pn`
(`<f32 as Debug>::fmt`): printed numbers are tokens the parser accepts -/
structure TokenOK (pn : ν → List Char) : Prop where
  /-- a printed number is accepted by `f32::from_str` -/
  valid : ∀ x, validF32 (pn x) = true
  /-- it does not start with a separator -/
  head : ∀ x, ∃ c l, pn x = c :: l ∧ isSep c = false
  /-- followed by a space or the end of the text it is exactly one lexer token -/
  token : ∀ x rest, (rest = [] ∨ ∃ r, rest = ' ' :: r) → lexNumL (pn x ++ rest) = (pn x, rest)

/-- … and the numeric half: a printed number reads back as the same value -/
structure PrintOK (N : Num ν) (pn : ν → List Char) : Prop extends TokenOK pn where
  value : ∀ x, N.ofLexeme (pn x) = x

/-- the value read back from a printed number, and its action on points and calls -/
def rv (N : Num ν) (pn : ν → List Char) (x : ν) : ν := N.ofLexeme (pn x)
def rvPt (N : Num ν) (pn : ν → List Char) (p : Pt ν) : Pt ν := (rv N pn p.1, rv N pn p.2)
def rvCall (N : Num ν) (pn : ν → List Char) : PCall ν → PCall ν
  | Call.begin p a => Call.begin (rvPt N pn p) (a.map (rv N pn))
  | Call.line p a => Call.line (rvPt N pn p) (a.map (rv N pn))
  | Call.quad c p a => Call.quad (rvPt N pn c) (rvPt N pn p) (a.map (rv N pn))
  | Call.cubic c1 c2 p a =>
    Call.cubic (rvPt N pn c1) (rvPt N pn c2) (rvPt N pn p) (a.map (rv N pn))
  | Call.end_ b => Call.end_ b

/-- text that can follow a printed number: nothing, or something starting with a space -/
def Boundary (rest : List Char) : Prop := rest = [] ∨ ∃ r, rest = ' ' :: r

theorem parseNumber_print (N : Num ν) (pn : ν → List Char) (hp : TokenOK pn) (x : ν)
    (rest : List Char) (hb : Boundary rest) (s : Src) (hs : s.inp = ' ' :: (pn x ++ rest)) :
    ∃ s', parseNumber N s = .ok (rv N pn x) s' ∧ s'.inp = rest := by
  obtain ⟨c, l, hcl, hsep⟩ := hp.head x
  have hskip : s.skipWs.inp = pn x ++ rest := by
    have : isSep ' ' = true := by decide
    simp [Src.skipWs, advWhile_inp, hs, hcl, this, hsep]
  have hl := lexNum_list s.skipWs
  rw [hskip, hp.token x rest hb] at hl
  refine ⟨(lexNum s.skipWs).2, ?_, hl.2⟩
  unfold parseNumber
  simp only [hl.1, hp.valid x, if_true, rv]

theorem bind_of_ok {α β} {m : PM α} {f : α → PM β} {s s1 : Src} {a : α} (h : m s = .ok a s1) :
    (m >>= f) s = f a s1 := by
  simp only [bind, PM.bind, h]

theorem boundary_cons (r : List Char) : Boundary (' ' :: r) := Or.inr ⟨r, rfl⟩

theorem printAttrs_boundary (pn : ν → List Char) (a : List ν) (rest : List Char)
    (hb : Boundary rest) : Boundary (printAttrs pn a ++ rest) := by
  cases a with
  | nil => simpa [printAttrs] using hb
  | cons x r => exact Or.inr ⟨_, by simp [printAttrs]; rfl⟩

theorem parsePoint_print (N : Num ν) (pn : ν → List Char) (hp : TokenOK pn) (p cur : Pt ν)
    (rest : List Char) (hb : Boundary rest) (s : Src) (hs : s.inp = printPt pn p ++ rest) :
    ∃ s', parsePoint N false cur s = .ok (rvPt N pn p) s' ∧ s'.inp = rest := by
  have hs' : s.inp = ' ' :: (pn p.1 ++ (' ' :: (pn p.2 ++ rest))) := by
    simp [hs, printPt]
  obtain ⟨s1, h1, hi1⟩ := parseNumber_print N pn hp p.1 _ (boundary_cons _) s hs'
  obtain ⟨s2, h2, hi2⟩ := parseNumber_print N pn hp p.2 rest hb s1 hi1
  refine ⟨s2, ?_, hi2⟩
  unfold parsePoint
  rw [bind_of_ok h1, bind_of_ok h2]
  simp [pure, PM.pure, relX, relY, rvPt]

theorem parseAttrs_print (N : Num ν) (pn : ν → List Char) (hp : TokenOK pn) (a : List ν)
    (rest : List Char) (hb : Boundary rest) (s : Src) (hs : s.inp = printAttrs pn a ++ rest) :
    ∃ s', parseAttrs N a.length s = .ok (a.map (rv N pn)) s' ∧ s'.inp = rest := by
  induction a generalizing s with
  | nil => exact ⟨s, rfl, by simpa [printAttrs] using hs⟩
  | cons x r ih =>
    have hs' : s.inp = ' ' :: (pn x ++ (printAttrs pn r ++ rest)) := by simp [hs, printAttrs]
    obtain ⟨s1, h1, hi1⟩ :=
      parseNumber_print N pn hp x _ (printAttrs_boundary pn r rest hb) s hs'
    obtain ⟨s2, h2, hi2⟩ := ih s1 hi1
    refine ⟨s2, ?_, hi2⟩
    simp only [List.length_cons, parseAttrs]
    rw [bind_of_ok h1, bind_of_ok h2]
    rfl

theorem parseEndpoint_print (N : Num ν) (pn : ν → List Char) (hp : TokenOK pn) (p cur : Pt ν)
    (a : List ν) (rest : List Char) (hb : Boundary rest) (s : Src)
    (hs : s.inp = printPt pn p ++ (printAttrs pn a ++ rest)) :
    ∃ s', parseEndpoint N a.length false cur s = .ok (rvPt N pn p, a.map (rv N pn)) s' ∧ s'.inp = rest := by
  obtain ⟨s1, h1, hi1⟩ :=
    parsePoint_print N pn hp p cur _ (printAttrs_boundary pn a rest hb) s hs
  obtain ⟨s2, h2, hi2⟩ := parseAttrs_print N pn hp a rest hb s1 hi1
  refine ⟨s2, ?_, hi2⟩
  unfold parseEndpoint
  rw [bind_of_ok h1, bind_of_ok h2]
  rfl


/-! one loop iteration on a printed command -/

theorem cur_of_inp {s : Src} {c : Char} {r : List Char} (h : s.inp = c :: r) : s.cur = c := by
  simp [Src.cur, h]

theorem step_move_print (N : Num ν) (pn : ν → List Char) (hp : TokenOK pn) (st : St ν) (p : Pt ν)
    (a : List ν) (rest : List Char) (hb : Boundary rest) (s : Src)
    (hs : s.inp = 'M' :: (printPt pn p ++ (printAttrs pn a ++ rest))) :
    ∃ st' s' em, step N a.length st s = .cont st' s' em ∧ s'.inp = rest ∧
      em.map Prod.snd = (if st.needEnd then [.end_ false] else []) ++ [.begin (rvPt N pn p) (a.map (rv N pn))] ∧
      st'.needEnd = true ∧ st'.needStart = false := by
  have hc := cur_of_inp hs
  have hadv : s.adv.inp = printPt pn p ++ (printAttrs pn a ++ rest) := by simp [adv_inp, hs]
  obtain ⟨s', h1, hi⟩ := parseEndpoint_print N pn hp p st.cur a rest hb s.adv hadv
  have hal : Char.isAlpha 'M' = true := by decide
  have hlow : Char.isLower 'M' = false := by decide
  have hstep : step N a.length st s =
      .cont ({ st with cur := rvPt N pn p, attrs := a.map (rv N pn), first := rvPt N pn p, needEnd := true,
                       needStart := false }.after 'M') s'
        ((if st.needEnd then emitAt s.adv [.end_ false] else []) ++ emitAt s' [.begin (rvPt N pn p) (a.map (rv N pn))]) := by
    have hblk : isDrawingCmd 'M' = false := by decide
    simp only [step, cmdOf, afterCmd, hc, hal, if_true, hblk, Bool.and_false, Bool.false_eq_true, if_false]
    simp [dispatchCmd, edgeCmd, runMove, hlow, h1]
  refine ⟨_, s', _, hstep, hi, ?_, rfl, rfl⟩
  cases st.needEnd <;> simp [emitAt]

theorem step_line_print (N : Num ν) (pn : ν → List Char) (hp : TokenOK pn) (st : St ν) (p : Pt ν)
    (a : List ν) (rest : List Char) (hb : Boundary rest) (s : Src) (hns : st.needStart = false)
    (hs : s.inp = 'L' :: (printPt pn p ++ (printAttrs pn a ++ rest))) :
    ∃ st' s' em, step N a.length st s = .cont st' s' em ∧ s'.inp = rest ∧
      em.map Prod.snd = [.line (rvPt N pn p) (a.map (rv N pn))] ∧ st'.needEnd = st.needEnd ∧ st'.needStart = false := by
  have hc := cur_of_inp hs
  have hadv : s.adv.inp = printPt pn p ++ (printAttrs pn a ++ rest) := by simp [adv_inp, hs]
  obtain ⟨s', h1, hi⟩ := parseEndpoint_print N pn hp p st.cur a rest hb s.adv hadv
  have hal : Char.isAlpha 'L' = true := by decide
  have hlow : Char.isLower 'L' = false := by decide
  have hcmd : cmdL N a.length false st s.adv =
      .ok ([.line (rvPt N pn p) (a.map (rv N pn))], { st with cur := rvPt N pn p, attrs := a.map (rv N pn) }) s' := by
    unfold cmdL; rw [bind_of_ok h1]; rfl
  have hstep : step N a.length st s =
      .cont (({ st with cur := rvPt N pn p, attrs := a.map (rv N pn) } : St ν).after 'L') s' (emitAt s' [.line (rvPt N pn p) (a.map (rv N pn))]) := by
    simp only [step, cmdOf, afterCmd, hc, hal, if_true, hns, Bool.false_and, Bool.false_eq_true, if_false]
    simp [dispatchCmd, edgeCmd, runEdge, hlow, hcmd]
    try simp [hns]
  exact ⟨_, s', _, hstep, hi, by simp [emitAt], rfl, by simp [St.after, hns]⟩

theorem step_quad_print (N : Num ν) (pn : ν → List Char) (hp : TokenOK pn) (st : St ν)
    (c p : Pt ν) (a : List ν) (rest : List Char) (hb : Boundary rest) (s : Src)
    (hns : st.needStart = false)
    (hs : s.inp = 'Q' :: (printPt pn c ++ (printPt pn p ++ (printAttrs pn a ++ rest)))) :
    ∃ st' s' em, step N a.length st s = .cont st' s' em ∧ s'.inp = rest ∧
      em.map Prod.snd = [.quad (rvPt N pn c) (rvPt N pn p) (a.map (rv N pn))] ∧ st'.needEnd = st.needEnd ∧ st'.needStart = false := by
  have hc := cur_of_inp hs
  have hadv : s.adv.inp = printPt pn c ++ (printPt pn p ++ (printAttrs pn a ++ rest)) := by
    simp [adv_inp, hs]
  obtain ⟨s1, h1, hi1⟩ := parsePoint_print N pn hp c st.cur _
    (Or.inr ⟨_, by simp [printPt]; rfl⟩) s.adv hadv
  obtain ⟨s', h2, hi⟩ := parseEndpoint_print N pn hp p st.cur a rest hb s1 hi1
  have hal : Char.isAlpha 'Q' = true := by decide
  have hlow : Char.isLower 'Q' = false := by decide
  have hcmd : cmdQ N a.length false st s.adv =
      .ok ([.quad (rvPt N pn c) (rvPt N pn p) (a.map (rv N pn))], { st with cur := rvPt N pn p, attrs := a.map (rv N pn), prevQuad := some (rvPt N pn c) }) s' := by
    unfold cmdQ; rw [bind_of_ok h1, bind_of_ok h2]; rfl
  have hstep : step N a.length st s =
      .cont (({ st with cur := rvPt N pn p, attrs := a.map (rv N pn), prevQuad := some (rvPt N pn c) } : St ν).after 'Q') s'
        (emitAt s' [.quad (rvPt N pn c) (rvPt N pn p) (a.map (rv N pn))]) := by
    simp only [step, cmdOf, afterCmd, hc, hal, if_true, hns, Bool.false_and, Bool.false_eq_true, if_false]
    simp [dispatchCmd, edgeCmd, runEdge, hlow, hcmd]
    try simp [hns]
  exact ⟨_, s', _, hstep, hi, by simp [emitAt], rfl, by simp [St.after, hns]⟩

theorem step_cubic_print (N : Num ν) (pn : ν → List Char) (hp : TokenOK pn) (st : St ν)
    (c1 c2 p : Pt ν) (a : List ν) (rest : List Char) (hb : Boundary rest) (s : Src)
    (hns : st.needStart = false)
    (hs : s.inp = 'C' :: (printPt pn c1 ++ (printPt pn c2 ++
      (printPt pn p ++ (printAttrs pn a ++ rest))))) :
    ∃ st' s' em, step N a.length st s = .cont st' s' em ∧ s'.inp = rest ∧
      em.map Prod.snd = [.cubic (rvPt N pn c1) (rvPt N pn c2) (rvPt N pn p) (a.map (rv N pn))] ∧ st'.needEnd = st.needEnd ∧
      st'.needStart = false := by
  have hc := cur_of_inp hs
  have hadv : s.adv.inp = printPt pn c1 ++ (printPt pn c2 ++
      (printPt pn p ++ (printAttrs pn a ++ rest))) := by simp [adv_inp, hs]
  obtain ⟨s1, h1, hi1⟩ := parsePoint_print N pn hp c1 st.cur _
    (Or.inr ⟨_, by simp [printPt]; rfl⟩) s.adv hadv
  obtain ⟨s2, h2, hi2⟩ := parsePoint_print N pn hp c2 st.cur _
    (Or.inr ⟨_, by simp [printPt]; rfl⟩) s1 hi1
  obtain ⟨s', h3, hi⟩ := parseEndpoint_print N pn hp p st.cur a rest hb s2 hi2
  have hal : Char.isAlpha 'C' = true := by decide
  have hlow : Char.isLower 'C' = false := by decide
  have hcmd : cmdC N a.length false st s.adv =
      .ok ([.cubic (rvPt N pn c1) (rvPt N pn c2) (rvPt N pn p) (a.map (rv N pn))], { st with cur := rvPt N pn p, attrs := a.map (rv N pn), prevCubic := some (rvPt N pn c2) }) s' := by
    unfold cmdC; rw [bind_of_ok h1, bind_of_ok h2, bind_of_ok h3]; rfl
  have hstep : step N a.length st s =
      .cont (({ st with cur := rvPt N pn p, attrs := a.map (rv N pn), prevCubic := some (rvPt N pn c2) } : St ν).after 'C') s'
        (emitAt s' [.cubic (rvPt N pn c1) (rvPt N pn c2) (rvPt N pn p) (a.map (rv N pn))]) := by
    simp only [step, cmdOf, afterCmd, hc, hal, if_true, hns, Bool.false_and, Bool.false_eq_true, if_false]
    simp [dispatchCmd, edgeCmd, runEdge, hlow, hcmd]
    try simp [hns]
  exact ⟨_, s', _, hstep, hi, by simp [emitAt], rfl, by simp [St.after, hns]⟩

theorem step_close_print (N : Num ν) (na : Nat) (st : St ν) (rest : List Char) (s : Src)
    (hns : st.needStart = false) (hs : s.inp = 'Z' :: rest) :
    ∃ st' s' em, step N na st s = .cont st' s' em ∧ s'.inp = rest ∧
      em.map Prod.snd = [.end_ true] ∧ st'.needEnd = false ∧ st'.needStart = true := by
  have hc := cur_of_inp hs
  have hadv : s.adv.inp = rest := by simp [adv_inp, hs]
  have hal : Char.isAlpha 'Z' = true := by decide
  have hstep : step N na st s =
      .cont (({ st with cur := st.first, needEnd := false, needStart := true } : St ν).after 'Z')
        s.adv (emitAt s.adv [.end_ true]) := by
    simp only [step, cmdOf, afterCmd, hc, hal, if_true, hns, Bool.false_and, Bool.false_eq_true, if_false]
    simp [dispatchCmd, edgeCmd, runClose]
  exact ⟨_, s.adv, _, hstep, hadv, by simp [emitAt], rfl, rfl⟩

/-! the whole printed path -/

/-- every endpoint of the trace carries `na` attributes -/
def callAttrsOK (na : Nat) : PCall ν → Prop
  | .begin _ a => a.length = na
  | .line _ a => a.length = na
  | .quad _ _ a => a.length = na
  | .cubic _ _ _ a => a.length = na
  | .end_ _ => True

def AttrsLen (na : Nat) (tr : List (PCall ν)) : Prop := ∀ c ∈ tr, callAttrsOK na c

theorem printCalls_boundary (pn : ν → List Char) (tr : List (PCall ν)) :
    Boundary (printCalls pn tr) := by
  induction tr with
  | nil => exact Or.inl rfl
  | cons c r ih =>
    cases c with
    | end_ b => cases b
                · simpa [printCalls, printCall] using ih
                · exact Or.inr ⟨_, by simp [printCalls, printCall]; rfl⟩
    | _ => exact Or.inr ⟨_, by simp [printCalls, printCall]; rfl⟩

theorem skipWs_space_letter (X : Src) (c : Char) (r : List Char) (hc : isSep c = false)
    (hX : X.inp = ' ' :: c :: r) : X.skipWs.inp = c :: r := by
  have : isSep ' ' = true := by decide
  simp [Src.skipWs, advWhile_inp, hX, this, hc]

theorem loop_print_parse (N : Num ν) (pn : ν → List Char) (hp : TokenOK pn) (na : Nat) :
    ∀ (tr : List (PCall ν)) (inSub : Bool), wellNestedFrom inSub tr = true → AttrsLen na tr →
    ∀ (fuel : Nat) (st : St ν) (X : Src), X.inp = printCalls pn tr → X.inp.length < fuel →
      (inSub = true → st.needEnd = true) →
      (st.needStart = true → st.needEnd = false ∧ inSub = false) →
      (loop N na none fuel st X.skipWs).trace =
        (if !inSub && st.needEnd then [.end_ false] else []) ++ tr.map (rvCall N pn) ∧
      (loop N na none fuel st X.skipWs).outcome = .ok := by
  intro tr
  induction tr with
  | nil =>
    intro inSub hwn _ fuel st X hX hfuel h1 h2
    have hin : inSub = false := by cases inSub <;> simp [wellNestedFrom] at hwn ⊢
    subst hin
    cases fuel with
    | zero => omega
    | succ fuel =>
      have hfin : X.skipWs.fin = true := by
        simp [Src.fin, Src.skipWs, advWhile_inp, hX, printCalls]
      rw [loop_succ]
      simp only [hfin, if_true]
      refine ⟨?_, trivial⟩
      simp only [Result.trace, closing_snd]
      cases st.needEnd <;> simp
  | cons c r ih =>
    intro inSub hwn hal fuel st X hX hfuel h1 h2
    have halr : AttrsLen na r := fun d hd => hal d (List.mem_cons_of_mem _ hd)
    have hc := hal c (by simp)
    have hbr := printCalls_boundary pn r
    cases fuel with
    | zero => omega
    | succ fuel =>
    -- common: run one iteration given the step result
    have run : ∀ (s : Src) (st' : St ν) (s' : Src) (em : List (Emit ν)) (l : Char) (t : List Char),
        X.skipWs = s → s.inp = l :: t → step N na st s = .cont st' s' em →
        (loop N na none (fuel + 1) st X.skipWs) =
          (loop N na none fuel st' s'.skipWs).cons em := by
      intro s st' s' em l t hs hinp hstep
      rw [loop_succ, hs]
      have hf : s.fin = false := by simp [Src.fin, hinp]
      simp [hf, hstep]
    cases c with
    | begin p a =>
      cases inSub with
      | true => simp [wellNestedFrom] at hwn
      | false =>
        simp only [wellNestedFrom] at hwn
        simp only [callAttrsOK] at hc
        subst hc
        have hX' : X.inp = ' ' :: 'M' :: (printPt pn p ++ (printAttrs pn a ++ printCalls pn r)) := by
          simp [hX, printCalls, printCall]
        have hsk := skipWs_space_letter X 'M' _ (by decide) hX'
        obtain ⟨st', s', em, hstep, hi, hem, hne, hns⟩ :=
          step_move_print N pn hp st p a _ hbr X.skipWs hsk
        rw [run _ _ _ _ _ _ rfl hsk hstep]
        have hlen : s'.inp.length < fuel := by
          rw [hi]; simp [hX'] at hfuel; omega
        obtain ⟨ht, ho⟩ := ih true hwn halr fuel st' s' hi hlen (fun _ => hne)
          (fun h => by rw [hns] at h; cases h)
        refine ⟨?_, by simpa [Result.cons] using ho⟩
        rw [trace_cons, ht, hem]
        simp [rvCall]
    | line p a =>
      cases inSub with
      | false => simp [wellNestedFrom] at hwn
      | true =>
        simp only [wellNestedFrom] at hwn
        simp only [callAttrsOK] at hc
        subst hc
        have hne0 := h1 rfl
        have hns0 : st.needStart = false := by
          cases h : st.needStart
          · rfl
          · have := (h2 h).2; cases this
        have hX' : X.inp = ' ' :: 'L' :: (printPt pn p ++ (printAttrs pn a ++ printCalls pn r)) := by
          simp [hX, printCalls, printCall]
        have hsk := skipWs_space_letter X 'L' _ (by decide) hX'
        obtain ⟨st', s', em, hstep, hi, hem, hne, hns⟩ :=
          step_line_print N pn hp st p a _ hbr X.skipWs hns0 hsk
        rw [run _ _ _ _ _ _ rfl hsk hstep]
        have hlen : s'.inp.length < fuel := by
          rw [hi]; simp [hX'] at hfuel; omega
        obtain ⟨ht, ho⟩ := ih true hwn halr fuel st' s' hi hlen (fun _ => by rw [hne, hne0])
          (fun h => by rw [hns] at h; cases h)
        refine ⟨?_, by simpa [Result.cons] using ho⟩
        rw [trace_cons, ht, hem]
        simp [rvCall]
    | quad k p a =>
      cases inSub with
      | false => simp [wellNestedFrom] at hwn
      | true =>
        simp only [wellNestedFrom] at hwn
        simp only [callAttrsOK] at hc
        subst hc
        have hne0 := h1 rfl
        have hns0 : st.needStart = false := by
          cases h : st.needStart
          · rfl
          · have := (h2 h).2; cases this
        have hX' : X.inp = ' ' :: 'Q' :: (printPt pn k ++ (printPt pn p ++
            (printAttrs pn a ++ printCalls pn r))) := by
          simp [hX, printCalls, printCall]
        have hsk := skipWs_space_letter X 'Q' _ (by decide) hX'
        obtain ⟨st', s', em, hstep, hi, hem, hne, hns⟩ :=
          step_quad_print N pn hp st k p a _ hbr X.skipWs hns0 hsk
        rw [run _ _ _ _ _ _ rfl hsk hstep]
        have hlen : s'.inp.length < fuel := by
          rw [hi]; simp [hX'] at hfuel; omega
        obtain ⟨ht, ho⟩ := ih true hwn halr fuel st' s' hi hlen (fun _ => by rw [hne, hne0])
          (fun h => by rw [hns] at h; cases h)
        refine ⟨?_, by simpa [Result.cons] using ho⟩
        rw [trace_cons, ht, hem]
        simp [rvCall]
    | cubic k1 k2 p a =>
      cases inSub with
      | false => simp [wellNestedFrom] at hwn
      | true =>
        simp only [wellNestedFrom] at hwn
        simp only [callAttrsOK] at hc
        subst hc
        have hne0 := h1 rfl
        have hns0 : st.needStart = false := by
          cases h : st.needStart
          · rfl
          · have := (h2 h).2; cases this
        have hX' : X.inp = ' ' :: 'C' :: (printPt pn k1 ++ (printPt pn k2 ++ (printPt pn p ++
            (printAttrs pn a ++ printCalls pn r)))) := by
          simp [hX, printCalls, printCall]
        have hsk := skipWs_space_letter X 'C' _ (by decide) hX'
        obtain ⟨st', s', em, hstep, hi, hem, hne, hns⟩ :=
          step_cubic_print N pn hp st k1 k2 p a _ hbr X.skipWs hns0 hsk
        rw [run _ _ _ _ _ _ rfl hsk hstep]
        have hlen : s'.inp.length < fuel := by
          rw [hi]; simp [hX'] at hfuel; omega
        obtain ⟨ht, ho⟩ := ih true hwn halr fuel st' s' hi hlen (fun _ => by rw [hne, hne0])
          (fun h => by rw [hns] at h; cases h)
        refine ⟨?_, by simpa [Result.cons] using ho⟩
        rw [trace_cons, ht, hem]
        simp [rvCall]
    | end_ close =>
      cases inSub with
      | false => simp [wellNestedFrom] at hwn
      | true =>
        simp only [wellNestedFrom] at hwn
        have hne0 := h1 rfl
        have hns0 : st.needStart = false := by
          cases h : st.needStart
          · rfl
          · have := (h2 h).2; cases this
        cases close with
        | false =>
          have hX' : X.inp = printCalls pn r := by simpa [printCalls, printCall] using hX
          obtain ⟨ht, ho⟩ := ih false hwn halr (fuel + 1) st X hX' hfuel (fun h => by cases h)
            (fun h => by rw [hns0] at h; cases h)
          refine ⟨?_, ho⟩
          rw [ht]; simp [hne0, rvCall]
        | true =>
          have hX' : X.inp = ' ' :: 'Z' :: printCalls pn r := by
            simp [hX, printCalls, printCall]
          have hsk := skipWs_space_letter X 'Z' _ (by decide) hX'
          obtain ⟨st', s', em, hstep, hi, hem, hne, hns⟩ :=
            step_close_print N na st _ X.skipWs hns0 hsk
          rw [run _ _ _ _ _ _ rfl hsk hstep]
          have hlen : s'.inp.length < fuel := by
            rw [hi]; simp [hX'] at hfuel; omega
          obtain ⟨ht, ho⟩ := ih false hwn halr fuel st' s' hi hlen (fun h => by cases h)
            (fun _ => ⟨hne, rfl⟩)
          refine ⟨?_, by simpa [Result.cons] using ho⟩
          rw [trace_cons, ht, hem]
          simp [hne, rvCall]



theorem rvCall_id (N : Num ν) (pn : ν → List Char) (hv : ∀ x, N.ofLexeme (pn x) = x)
    (c : PCall ν) : rvCall N pn c = c := by
  have h : rv N pn = id := funext hv
  cases c <;> simp [rvCall, rvPt, h]

/-- the round trip with values: if printed numbers read back as themselves the trace is `tr` -/
theorem loop_roundtrip (N : Num ν) (pn : ν → List Char) (hp : PrintOK N pn) (na : Nat)
    (tr : List (PCall ν)) (inSub : Bool) (hwn : wellNestedFrom inSub tr = true)
    (hal : AttrsLen na tr) (fuel : Nat) (st : St ν) (X : Src) (hX : X.inp = printCalls pn tr)
    (hf : X.inp.length < fuel) (h1 : inSub = true → st.needEnd = true)
    (h2 : st.needStart = true → st.needEnd = false ∧ inSub = false) :
    (loop N na none fuel st X.skipWs).trace =
      (if !inSub && st.needEnd then [.end_ false] else []) ++ tr ∧
    (loop N na none fuel st X.skipWs).outcome = .ok := by
  have h := loop_print_parse N pn hp.toTokenOK na tr inSub hwn hal fuel st X hX hf h1 h2
  have hm : tr.map (rvCall N pn) = tr := by
    rw [List.map_congr_left (fun c _ => rvCall_id N pn hp.value c)]; simp
  rw [hm] at h; exact h

set_option linter.unusedSimpArgs false

/-! ### H. The shapes `<f32 as Debug>::fmt` prints for finite values are single valid tokens -/

theorem digit_range {c : Char} (h : c.isDigit = true) : 48 ≤ c.toNat ∧ c.toNat ≤ 57 := by
  simp only [Char.isDigit, Bool.and_eq_true, decide_eq_true_eq] at h
  exact ⟨UInt32.le_iff_toNat_le.mp h.1, UInt32.le_iff_toNat_le.mp h.2⟩

theorem digit_numeric {c : Char} (h : c.isDigit = true) : isNumeric c = true := by
  simp [isNumeric, h]

theorem digit_not_sep {c : Char} (h : c.isDigit = true) : isSep c = false := by
  have r := digit_range h
  have hc : c ≠ ',' := by intro e; subst e; revert h; decide
  simp only [isSep, isWhite, isWhiteN, Bool.or_eq_false_iff, beq_eq_false_iff_ne, ne_eq]
  refine ⟨?_, hc⟩
  simp only [Bool.or_eq_false_iff, Bool.and_eq_false_iff, decide_eq_false_iff_not,
    beq_eq_false_iff_ne]
  omega

/-- a non-empty run of ASCII digits -/
def Digits (d : List Char) : Prop := d ≠ [] ∧ ∀ c ∈ d, c.isDigit = true

/-- the list is empty or starts with a character failing `p` -/
def StopsAt (p : Char → Bool) : List Char → Prop
  | [] => True
  | c :: _ => p c = false

theorem takeWhile_app (p : Char → Bool) (a b : List Char) (ha : ∀ c ∈ a, p c = true)
    (hb : StopsAt p b) : (a ++ b).takeWhile p = a ∧ (a ++ b).dropWhile p = b := by
  induction a with
  | nil =>
    cases b with
    | nil => simp
    | cons c r => simp only [StopsAt] at hb; simp [List.takeWhile, List.dropWhile, hb]
  | cons x r ih =>
    have hx := ha x (by simp)
    have := ih (fun c hc => ha c (by simp [hc]))
    simp [List.takeWhile, List.dropWhile, hx, this.1, this.2]

def signL (neg : Bool) : List Char := if neg then ['-'] else []
def fracL : Option (List Char) → List Char
  | none => []
  | some d => '.' :: d
def expL : Option (Bool × List Char) → List Char
  | none => []
  | some (n, d) => 'e' :: (signL n ++ d)

/-- `-? D+ (. D+)? (e -? D+)?` — covers everything `{:?}` prints for a finite `f32`
(`-? D+ . D+` and `-? D (. D+)? e -? D+`) -/
def debugText (neg : Bool) (d1 : List Char) (f : Option (List Char))
    (e : Option (Bool × List Char)) : List Char :=
  signL neg ++ (d1 ++ (fracL f ++ expL e))

structure ShapeOK (d1 : List Char) (f : Option (List Char)) (e : Option (Bool × List Char)) :
    Prop where
  int : Digits d1
  frac : ∀ d, f = some d → Digits d
  exp : ∀ n d, e = some (n, d) → Digits d

theorem digits_head {d : List Char} (h : Digits d) : ∃ c r, d = c :: r ∧ c.isDigit = true := by
  cases d with
  | nil => exact absurd rfl h.1
  | cons c r => exact ⟨c, r, rfl, h.2 c (by simp)⟩

theorem boundary_stops {rest : List Char} (hb : Boundary rest) (p : Char → Bool)
    (hp : p ' ' = false) : StopsAt p rest := by
  rcases hb with rfl | ⟨r, rfl⟩
  · trivial
  · exact hp

/-- sign and digits followed by something that is not numeric: `lexMantL` takes exactly them -/
theorem lexMantL_sign_digits (neg : Bool) (d tail : List Char) (hd : Digits d)
    (ht : StopsAt isNumeric tail) :
    lexMantL (signL neg ++ (d ++ tail)) = (signL neg ++ d, tail) := by
  obtain ⟨c, r, rfl, hc⟩ := digits_head hd
  have hcm : (c == '-') = false := by
    cases h : (c == '-')
    · rfl
    · have : c = '-' := by simpa using h
      subst this; revert hc; decide
  have tw := takeWhile_app isNumeric (c :: r) tail (fun x hx => digit_numeric (hd.2 x hx)) ht
  cases neg
  · simp only [lexMantL, signL, Bool.false_eq_true, if_false, List.nil_append, List.cons_append,
      optL, hcm, digitsL]
    rw [← List.cons_append, tw.1, tw.2]
  · simp only [lexMantL, signL, if_true, List.cons_append, List.nil_append, optL,
      beq_self_eq_true, digitsL]
    rw [← List.cons_append, tw.1, tw.2]

theorem stops_frac_exp (f : Option (List Char)) (e : Option (Bool × List Char)) (rest : List Char)
    (hb : Boundary rest) : StopsAt isNumeric (fracL f ++ (expL e ++ rest)) := by
  cases f with
  | some d => simp only [fracL, List.cons_append, StopsAt]; decide
  | none =>
    cases e with
    | some nd => obtain ⟨n, d⟩ := nd; simp only [fracL, expL, List.nil_append, List.cons_append, StopsAt]; decide
    | none => simpa [fracL, expL] using boundary_stops hb isNumeric (by decide)

theorem stops_exp (e : Option (Bool × List Char)) (rest : List Char) (hb : Boundary rest) :
    StopsAt isNumeric (expL e ++ rest) := by
  cases e with
  | some nd => obtain ⟨n, d⟩ := nd; simp only [expL, List.cons_append, StopsAt]; decide
  | none => simpa [expL] using boundary_stops hb isNumeric (by decide)

theorem lexFracL_frac (f : Option (List Char)) (e : Option (Bool × List Char)) (rest : List Char)
    (hf : ∀ d, f = some d → Digits d) (hb : Boundary rest) :
    lexFracL (fracL f ++ (expL e ++ rest)) = (fracL f, expL e ++ rest) := by
  cases f with
  | some d =>
    have hd := hf d rfl
    have tw := takeWhile_app isNumeric d (expL e ++ rest)
      (fun x hx => digit_numeric (hd.2 x hx)) (stops_exp e rest hb)
    simp only [fracL, List.cons_append, lexFracL, beq_self_eq_true, if_true, digitsL, tw.1, tw.2]
  | none =>
    cases e with
    | some nd =>
      obtain ⟨n, d⟩ := nd
      have : ('e' == '.') = false := by decide
      simp [fracL, expL, lexFracL, this]
    | none =>
      rcases hb with rfl | ⟨r, rfl⟩
      · simp [fracL, expL, lexFracL]
      · have : (' ' == '.') = false := by decide
        simp [fracL, expL, lexFracL, this]

theorem lexExpL_exp (e : Option (Bool × List Char)) (rest : List Char)
    (he : ∀ n d, e = some (n, d) → Digits d) (hb : Boundary rest) :
    lexExpL (expL e ++ rest) = (expL e, rest) := by
  cases e with
  | some nd =>
    obtain ⟨n, d⟩ := nd
    have hd := he n d rfl
    have hm := lexMantL_sign_digits n d rest hd (boundary_stops hb isNumeric (by decide))
    have : ('e' == 'e' || 'e' == 'E') = true := by decide
    simp only [expL, List.cons_append, lexExpL, this, if_true, List.append_assoc, hm]
  | none =>
    rcases hb with rfl | ⟨r, rfl⟩
    · simp [expL, lexExpL]
    · have : (' ' == 'e' || ' ' == 'E') = false := by decide
      simp [expL, lexExpL, this]

/-- a number of the printed shape, followed by a space or nothing, is exactly one lexer token -/
theorem lexNumL_debugText (neg : Bool) (d1 : List Char) (f : Option (List Char))
    (e : Option (Bool × List Char)) (h : ShapeOK d1 f e) (rest : List Char) (hb : Boundary rest) :
    lexNumL (debugText neg d1 f e ++ rest) = (debugText neg d1 f e, rest) := by
  have e1 : debugText neg d1 f e ++ rest = signL neg ++ (d1 ++ (fracL f ++ (expL e ++ rest))) := by
    simp [debugText, List.append_assoc]
  have hm := lexMantL_sign_digits neg d1 _ h.int (stops_frac_exp f e rest hb)
  have hf := lexFracL_frac f e rest h.frac hb
  have he := lexExpL_exp e rest h.exp hb
  rw [e1]
  simp only [lexNumL, hm, hf, he, debugText, List.append_assoc]


theorem stopsDigit_exp (e : Option (Bool × List Char)) : StopsAt Char.isDigit (expL e) := by
  cases e with
  | some nd => obtain ⟨n, d⟩ := nd; simp only [expL, StopsAt]; decide
  | none => trivial

theorem digit_not_sign {c : Char} (h : c.isDigit = true) : (c == '-' || c == '+') = false := by
  cases hc : (c == '-' || c == '+')
  · rfl
  · rcases (by simpa using hc : c = '-' ∨ c = '+') with e | e <;> (subst e; revert h; decide)

theorem validExp_expL (e : Option (Bool × List Char))
    (he : ∀ n d, e = some (n, d) → Digits d) : validExp (expL e) = true := by
  cases e with
  | none => rfl
  | some nd =>
    obtain ⟨n, d⟩ := nd
    have hd := he n d rfl
    obtain ⟨c, r, rfl, hc⟩ := digits_head hd
    have hall : (c :: r).all Char.isDigit = true := by
      simp only [List.all_eq_true]; exact hd.2
    have e1 : ('e' == 'e' || 'e' == 'E') = true := by decide
    cases n
    · simp only [expL, signL, Bool.false_eq_true, if_false, List.nil_append, validExp, e1,
        Bool.true_and, digit_not_sign hc]
      exact hall
    · have e2 : ('-' == '-' || '-' == '+') = true := by decide
      simp only [expL, signL, if_true, List.cons_append, List.nil_append, validExp, e1,
        Bool.true_and, e2]
      simp [hall]

theorem validF32_debugText (neg : Bool) (d1 : List Char) (f : Option (List Char))
    (e : Option (Bool × List Char)) (h : ShapeOK d1 f e) :
    validF32 (debugText neg d1 f e) = true := by
  obtain ⟨c, r, rfl, hc⟩ := digits_head h.int
  have hds : dropSign (debugText neg (c :: r) f e) = (c :: r) ++ (fracL f ++ expL e) := by
    cases neg
    · simp [debugText, signL, dropSign, digit_not_sign hc]
    · have : ('-' == '-' || '-' == '+') = true := by decide
      simp [debugText, signL, dropSign, this]
  have hdig : ∀ x ∈ c :: r, Char.isDigit x = true := h.int.2
  have hsm : splitMant ((c :: r) ++ (fracL f ++ expL e)) =
      (c :: r, (f.getD []), expL e) := by
    cases f with
    | some d =>
      have hd := h.frac d rfl
      have tw1 := takeWhile_app Char.isDigit (c :: r) ('.' :: (d ++ expL e)) hdig (by
        simp only [StopsAt]; decide)
      have tw2 := takeWhile_app Char.isDigit d (expL e) hd.2 (stopsDigit_exp e)
      simp only [splitMant, fracL, List.cons_append] at tw1 ⊢
      rw [tw1.1, tw1.2]
      simp [tw2.1, tw2.2, Option.getD]
    | none =>
      have tw1 := takeWhile_app Char.isDigit (c :: r) (expL e) hdig (stopsDigit_exp e)
      simp only [splitMant, fracL, List.nil_append] at tw1 ⊢
      rw [tw1.1, tw1.2]
      cases e with
      | none => simp [expL, Option.getD]
      | some nd =>
        obtain ⟨n, d⟩ := nd
        have : ('e' == '.') = false := by decide
        simp [expL, this, Option.getD]
  unfold validF32
  rw [hds, hsm]
  simp only [validExp_expL e h.exp, Bool.and_true, List.length_cons, decide_eq_true_eq]
  omega

theorem head_debugText (neg : Bool) (d1 : List Char) (f : Option (List Char))
    (e : Option (Bool × List Char)) (h : ShapeOK d1 f e) :
    ∃ c l, debugText neg d1 f e = c :: l ∧ isSep c = false := by
  obtain ⟨c, r, rfl, hc⟩ := digits_head h.int
  cases neg
  · exact ⟨c, r ++ (fracL f ++ expL e), by simp [debugText, signL], digit_not_sep hc⟩
  · exact ⟨'-', c :: r ++ (fracL f ++ expL e), by simp [debugText, signL], by decide⟩

/-- every printer whose output has the shape `-? D+ (. D+)? (e -? D+)?` is `TokenOK` -/
theorem tokenOK_of_debugShape (pn : ν → List Char)
    (hshape : ∀ x, ∃ neg d1 f e, pn x = debugText neg d1 f e ∧ ShapeOK d1 f e) : TokenOK pn := by
  constructor
  · intro x; obtain ⟨neg, d1, f, e, hx, hs⟩ := hshape x; rw [hx]; exact validF32_debugText _ _ _ _ hs
  · intro x; obtain ⟨neg, d1, f, e, hx, hs⟩ := hshape x; rw [hx]; exact head_debugText _ _ _ _ hs
  · intro x rest hb
    obtain ⟨neg, d1, f, e, hx, hs⟩ := hshape x; rw [hx]
    exact lexNumL_debugText _ _ _ _ hs rest hb

/-- `PrintOK` reduces to: every printed number has the shape `-? D+ (. D+)? (e -? D+)?` and reads
back as the same value. -/
theorem printOK_of_debugShape (N : Num ν) (pn : ν → List Char)
    (hshape : ∀ x, ∃ neg d1 f e, pn x = debugText neg d1 f e ∧ ShapeOK d1 f e)
    (hval : ∀ x, N.ofLexeme (pn x) = x) : PrintOK N pn :=
  { toTokenOK := tokenOK_of_debugShape pn hshape, value := hval }


/-! ### I. The command automaton: implicit repetition, remembered control points -/

/-- what a completed iteration with command `cmd` leaves in the state -/
def StepKeeps (cmd : Char) : StepOut ν → Prop
  | .cont st' _ _ =>
      st'.implicit = nextImplicit cmd ∧ (isCubicCmd cmd = false → st'.prevCubic = none) ∧
      (isQuadCmd cmd = false → st'.prevQuad = none)
  | _ => True

theorem after_keeps (st : St ν) (cmd : Char) :
    (st.after cmd).implicit = nextImplicit cmd ∧
    (isCubicCmd cmd = false → (st.after cmd).prevCubic = none) ∧
    (isQuadCmd cmd = false → (st.after cmd).prevQuad = none) := by
  refine ⟨rfl, ?_, ?_⟩ <;> (intro h; simp [St.after, h])

theorem step_keeps (N : Num ν) (na : Nat) (st : St ν) (s : Src) :
    StepKeeps (cmdOf st s) (step N na st s) := by
  unfold step
  split
  · trivial
  · unfold dispatchCmd
    split
    · unfold runEdge; split
      · exact after_keeps _ _
      · trivial
    · split
      · unfold runArc; split
        · unfold arcEmit; split
          · exact after_keeps _ _
          · split
            · trivial
            · split
              · trivial
              · exact after_keeps _ _
        · trivial
      · split
        · unfold runMove; split
          · exact after_keeps _ _
          · trivial
        · split
          · exact after_keeps _ _
          · trivial

/-- an edge command that completes: its parser succeeded, the calls are its calls, the new state
is its state followed by the bookkeeping `after` -/
theorem step_edge_inv (N : Num ν) (na : Nat) (st st' : St ν) (s s' : Src) (em : List (Emit ν))
    (m : PM (EdgeOut ν)) (hm : edgeCmd N na (cmdOf st s) st = some m)
    (h : step N na st s = .cont st' s' em) :
    ∃ o, m (afterCmd s) = .ok o s' ∧ em.map Prod.snd = o.1 ∧ st' = o.2.after (cmdOf st s) := by
  unfold step at h
  split at h
  · cases h
  · unfold dispatchCmd at h
    rw [hm] at h
    simp only [runEdge] at h
    split at h
    · rename_i o s1 heq
      cases h
      exact ⟨o, heq, emitAt_snd _ _, rfl⟩
    · cases h

theorem cmdS_inv (N : Num ν) (na rel) (st : St ν) (s o s') (h : cmdS N na rel st s = .ok o s') :
    ∃ c2 p a, o.1 = [.cubic (smoothCtrl N st.cur st.prevCubic) c2 p a] ∧
      o.2.prevCubic = some c2 ∧ o.2.cur = p := by
  unfold cmdS at h
  obtain ⟨c2, s2, _, h⟩ := bind_ok h
  obtain ⟨e, s3, _, h⟩ := bind_ok h
  have hp := pure_ok h
  rw [hp.1]; exact ⟨c2, e.1, e.2, rfl, rfl, rfl⟩

theorem cmdC_inv (N : Num ν) (na rel) (st : St ν) (s o s') (h : cmdC N na rel st s = .ok o s') :
    ∃ c1 c2 p a, o.1 = [.cubic c1 c2 p a] ∧ o.2.prevCubic = some c2 ∧ o.2.cur = p := by
  unfold cmdC at h
  obtain ⟨c1, s1, _, h⟩ := bind_ok h
  obtain ⟨c2, s2, _, h⟩ := bind_ok h
  obtain ⟨e, s3, _, h⟩ := bind_ok h
  have hp := pure_ok h
  rw [hp.1]; exact ⟨c1, c2, e.1, e.2, rfl, rfl, rfl⟩

theorem cmdT_inv (N : Num ν) (na rel) (st : St ν) (s o s') (h : cmdT N na rel st s = .ok o s') :
    ∃ p a, o.1 = [.quad (smoothCtrl N st.cur st.prevQuad) p a] ∧
      o.2.prevQuad = some (smoothCtrl N st.cur st.prevQuad) ∧ o.2.cur = p := by
  unfold cmdT at h
  obtain ⟨e, s3, _, h⟩ := bind_ok h
  have hp := pure_ok h
  rw [hp.1]; exact ⟨e.1, e.2, rfl, rfl, rfl⟩

theorem cmdQ_inv (N : Num ν) (na rel) (st : St ν) (s o s') (h : cmdQ N na rel st s = .ok o s') :
    ∃ c p a, o.1 = [.quad c p a] ∧ o.2.prevQuad = some c ∧ o.2.cur = p := by
  unfold cmdQ at h
  obtain ⟨c, s1, _, h⟩ := bind_ok h
  obtain ⟨e, s3, _, h⟩ := bind_ok h
  have hp := pure_ok h
  rw [hp.1]; exact ⟨c, e.1, e.2, rfl, rfl, rfl⟩

end Lyon.Parser
