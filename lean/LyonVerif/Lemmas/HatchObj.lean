/-
  Simulation between the OBJECT model of the Hatcher (`Model/Algo/HatchObj.lean`: every function
  reads `self`'s fields) and the one-call model (`Model/Algo/Hatch.lean`), for C20b.

  `ObjInv cfg h`: what the prologue of `Hatcher::hatch` establishes on ANY object and every later
  step of the call keeps: the object's `transform`, `uv_origin`, `compute_tangents` are the call's,
  and — when tangents are off, so that `hatch_line` never writes them — `segment.{a,b}.tangent`
  still hold the NaN vector the prologue stored.  `active_edges` and `segment.row` are not part of
  the invariant: they are *equated* with the one-call model's state through `OSt.toSt`, starting
  from the prologue's `clear()` / `row = 0`.

  No arithmetic law is used: the lemmas hold over every `[Scalar α] [Transc α]`, `Float32` included.
-/
import LyonVerif.Model.Algo.HatchObj

set_option linter.unusedSectionVars false
set_option linter.unusedVariables false
set_option linter.unusedSimpArgs false

namespace Lyon.Hatch
open Lyon Scalar

variable {α : Type} [Scalar α] [Transc α] {σ : Type}

structure ObjInv (cfg : Cfg α) (h : Obj α) : Prop where
  ci : Transc.cos h.tr = cfg.ci
  si : Transc.sin h.tr = cfg.si
  uvo : h.uvo = cfg.uvo
  ct : h.ct = cfg.ct
  ta : cfg.ct = false → h.seg.ta = cfg.nan
  tb : cfg.ct = false → h.seg.tb = cfg.nan

theorem objTangent_eq (cfg : Cfg α) (e : Seg α) (t : P α) (h : cfg.ct = false → t = cfg.nan) :
    objTangent cfg.ci cfg.si cfg.ct e t = tangentOf cfg e := by
  unfold objTangent tangentOf
  cases hc : cfg.ct
  · simp [h hc]
  · simp

theorem tangentOf_off (cfg : Cfg α) (e : Seg α) (h : cfg.ct = false) : tangentOf cfg e = cfg.nan := by
  unfold tangentOf; simp [h]

theorem writeSeg_eq (cfg : Cfg α) (y px x : α) (pt t : P α) (sg : HSeg α)
    (hv : sg.v = y - cfg.uvo.y)
    (h : cfg.ct = false → pt = cfg.nan ∧ t = cfg.nan ∧ sg.ta = cfg.nan ∧ sg.tb = cfg.nan) :
    writeSeg cfg.ci cfg.si cfg.uvo cfg.ct y px x pt t sg = mkSeg cfg y sg.row px x pt t := by
  cases sg
  simp only [writeSeg, mkSeg] at *
  cases hc : cfg.ct
  · obtain ⟨h1, h2, h3, h4⟩ := h hc
    simp [h1, h2, h3, h4, hv]
  · simp [hv]

theorem writeSeg_row (ci si : α) (uvo : P α) (ct : Bool) (y px x : α) (pt t : P α) (sg : HSeg α) :
    (writeSeg ci si uvo ct y px x pt t sg).row = sg.row := rfl

theorem writeSeg_v (ci si : α) (uvo : P α) (ct : Bool) (y px x : α) (pt t : P α) (sg : HSeg α) :
    (writeSeg ci si uvo ct y px x pt t sg).v = sg.v := rfl

/-- the `hatch_line` loop on the object's fields emits exactly what the one-call model's loop
emits, leaves `segment.row` alone and keeps the NaN tangents when tangents are off -/
theorem objLineLoop_sim (cfg : Cfg α) (y : α) :
    ∀ (es : List (Seg α)) (inside : Bool) (px : α) (pt t : P α) (sg : HSeg α),
      sg.v = y - cfg.uvo.y →
      (cfg.ct = false → pt = cfg.nan ∧ t = cfg.nan ∧ sg.ta = cfg.nan ∧ sg.tb = cfg.nan) →
      (objLineLoop cfg.ci cfg.si cfg.uvo cfg.ct y es inside px pt t sg).1
          = lineLoop cfg y sg.row es inside px pt
      ∧ (objLineLoop cfg.ci cfg.si cfg.uvo cfg.ct y es inside px pt t sg).2.row = sg.row
      ∧ (cfg.ct = false →
          (objLineLoop cfg.ci cfg.si cfg.uvo cfg.ct y es inside px pt t sg).2.ta = cfg.nan
          ∧ (objLineLoop cfg.ci cfg.si cfg.uvo cfg.ct y es inside px pt t sg).2.tb = cfg.nan) := by
  intro es
  induction es with
  | nil =>
    intro inside px pt t sg hv h
    refine ⟨by simp [objLineLoop, lineLoop], by simp [objLineLoop], ?_⟩
    intro hc
    obtain ⟨_, _, h3, h4⟩ := h hc
    simp [objLineLoop, h3, h4]
  | cons e es ih =>
    intro inside px pt t sg hv h
    have ht : objTangent cfg.ci cfg.si cfg.ct e t = tangentOf cfg e :=
      objTangent_eq cfg e t (fun hc => (h hc).2.1)
    have hT : cfg.ct = false → tangentOf cfg e = cfg.nan := tangentOf_off cfg e
    unfold objLineLoop lineLoop
    by_cases hy : e.b.y ≤ y
    · simp only [hy, if_true]
      exact ih inside px pt t sg hv h
    · simp only [hy, if_false]
      cases inside
      · simp only [Bool.false_eq_true, if_false, ht]
        exact ih true (solveX e y) (tangentOf cfg e) (tangentOf cfg e) sg hv
          (fun hc => ⟨hT hc, hT hc, (h hc).2.2.1, (h hc).2.2.2⟩)
      · simp only [if_true, ht]
        have hw : writeSeg cfg.ci cfg.si cfg.uvo cfg.ct y px (solveX e y) pt (tangentOf cfg e) sg
            = mkSeg cfg y sg.row px (solveX e y) pt (tangentOf cfg e) :=
          writeSeg_eq cfg y px (solveX e y) pt (tangentOf cfg e) sg hv
            (fun hc => ⟨(h hc).1, hT hc, (h hc).2.2.1, (h hc).2.2.2⟩)
        have hrec := ih false (solveX e y) (tangentOf cfg e) (tangentOf cfg e)
          (writeSeg cfg.ci cfg.si cfg.uvo cfg.ct y px (solveX e y) pt (tangentOf cfg e) sg)
          (by rw [writeSeg_v]; exact hv)
          (fun hc => by
            refine ⟨hT hc, hT hc, ?_, ?_⟩
            · simp [writeSeg, hc, (h hc).2.2.1]
            · simp [writeSeg, hc, (h hc).2.2.2])
        rw [writeSeg_row] at hrec
        refine ⟨?_, ?_, ?_⟩
        · simp only [consFst]
          rw [hrec.1, hw]
        · simp only [consFst]; exact hrec.2.1
        · simp only [consFst]; exact hrec.2.2

/-- the same with the four fields read from an object that satisfies the invariant -/
theorem objLineLoop_sim_of (cfg : Cfg α) (y : α) (ci si : α) (uvo : P α) (ct : Bool)
    (h1 : ci = cfg.ci) (h2 : si = cfg.si) (h3 : uvo = cfg.uvo) (h4 : ct = cfg.ct)
    (es : List (Seg α)) (inside : Bool) (px : α) (pt t : P α) (sg : HSeg α)
    (hv : sg.v = y - uvo.y)
    (h : cfg.ct = false → pt = cfg.nan ∧ t = cfg.nan ∧ sg.ta = cfg.nan ∧ sg.tb = cfg.nan) :
    (objLineLoop ci si uvo ct y es inside px pt t sg).1 = lineLoop cfg y sg.row es inside px pt
    ∧ (objLineLoop ci si uvo ct y es inside px pt t sg).2.row = sg.row
    ∧ (cfg.ct = false →
        (objLineLoop ci si uvo ct y es inside px pt t sg).2.ta = cfg.nan
        ∧ (objLineLoop ci si uvo ct y es inside px pt t sg).2.tb = cfg.nan) := by
  subst h1 h2 h3 h4
  exact objLineLoop_sim cfg y es inside px pt t sg hv h

/-- `hatch_line` on an object that satisfies the invariant -/
theorem objHatchLine_sim (cfg : Cfg α) (h : Obj α) (y : α) (hi : ObjInv cfg h) :
    (objHatchLine cfg.nan h y).1
        = lineLoop cfg y h.seg.row (sortActive y h.active) false cfg.nan.x cfg.nan
    ∧ (objHatchLine cfg.nan h y).2.active = sortActive y h.active
    ∧ (objHatchLine cfg.nan h y).2.seg.row = h.seg.row + 1
    ∧ ObjInv cfg (objHatchLine cfg.nan h y).2 := by
  have hs := objLineLoop_sim_of cfg y (Transc.cos h.tr) (Transc.sin h.tr) h.uvo h.ct
    hi.ci hi.si hi.uvo hi.ct (sortActive y h.active) false cfg.nan.x cfg.nan cfg.nan
    { h.seg with v := y - h.uvo.y } rfl
    (fun hc => ⟨rfl, rfl, hi.ta hc, hi.tb hc⟩)
  refine ⟨hs.1, rfl, ?_, ?_⟩
  · show (bumpRow _).row = _
    simp only [bumpRow]; rw [hs.2.1]
  · exact ⟨hi.ci, hi.si, hi.uvo, hi.ct, fun hc => (hs.2.2 hc).1, fun hc => (hs.2.2 hc).2⟩

theorem objRowStep_sim (cfg : Cfg α) (B : Builder σ α) (st : OSt σ α) (hi : ObjInv cfg st.h) :
    (objRowStep cfg.nan B st).toSt = rowStep cfg B st.toSt
    ∧ ObjInv cfg (objRowStep cfg.nan B st).h := by
  obtain ⟨h1, h2, h3, h4⟩ := objHatchLine_sim cfg st.h st.y hi
  refine ⟨?_, h4⟩
  simp only [objRowStep, rowStep, OSt.toSt, h1, h2, h3]
  rfl

theorem objRowsWhile_sim (cfg : Cfg α) (B : Builder σ α) :
    ∀ (f : Nat) (bound : α) (st : OSt σ α), ObjInv cfg st.h →
      (objRowsWhile cfg.nan B f bound st).toSt = rowsWhile cfg B f bound st.toSt
      ∧ ObjInv cfg (objRowsWhile cfg.nan B f bound st).h := by
  intro f
  induction f with
  | zero =>
    intro bound st hi
    unfold objRowsWhile rowsWhile
    have hy : st.toSt.y = st.y := rfl
    rw [hy]
    by_cases h : st.y < bound
    · rw [if_pos h, if_pos h]; exact ⟨rfl, hi⟩
    · rw [if_neg h, if_neg h]; exact ⟨rfl, hi⟩
  | succ f ih =>
    intro bound st hi
    obtain ⟨hs, hi'⟩ := objRowStep_sim cfg B st hi
    unfold objRowsWhile rowsWhile
    have hy : st.toSt.y = st.y := rfl
    have hstop : (objRowStep cfg.nan B st).stop = (rowStep cfg B st.toSt).stop := by
      rw [← hs]; rfl
    rw [hy]
    by_cases h : st.y < bound
    · rw [if_pos h, if_pos h]
      cases hc : (rowStep cfg B st.toSt).stop
      · rw [hstop, hc]
        rw [if_neg (by simp), if_neg (by simp)]
        rw [← hs]
        exact ih bound _ hi'
      · rw [hstop, hc]
        rw [if_pos rfl, if_pos rfl]
        exact ⟨hs, hi'⟩
    · rw [if_neg h, if_neg h]; exact ⟨rfl, hi⟩

theorem objSweep_sim (cfg : Cfg α) (st : OSt σ α) (e : Seg α) (hi : ObjInv cfg st.h) :
    (objSweep st e).toSt
        = { st.toSt with ymax := Scalar.max st.toSt.ymax e.b.y,
                         active := updateSweep st.toSt.active e }
    ∧ ObjInv cfg (objSweep st e).h :=
  ⟨rfl, ⟨hi.ci, hi.si, hi.uvo, hi.ct, hi.ta, hi.tb⟩⟩

theorem objHatchEdges_sim (cfg : Cfg α) (B : Builder σ α) (fuel : Nat) :
    ∀ (es : List (Seg α)) (st : OSt σ α), ObjInv cfg st.h →
      (objHatchEdges cfg.nan B fuel es st).toSt = hatchEdges cfg B fuel es st.toSt
      ∧ ObjInv cfg (objHatchEdges cfg.nan B fuel es st).h := by
  intro es
  induction es with
  | nil => intro st hi; exact ⟨rfl, hi⟩
  | cons e es ih =>
    intro st hi
    obtain ⟨hs, hi'⟩ := objRowsWhile_sim cfg B fuel e.a.y st hi
    unfold objHatchEdges hatchEdges
    have h1 : (objRowsWhile cfg.nan B fuel e.a.y st).stop = (rowsWhile cfg B fuel e.a.y st.toSt).stop := by
      rw [← hs]; rfl
    have h2 : (objRowsWhile cfg.nan B fuel e.a.y st).fuelOut
        = (rowsWhile cfg B fuel e.a.y st.toSt).fuelOut := by
      rw [← hs]; rfl
    rw [h1, h2]
    cases hc : ((rowsWhile cfg B fuel e.a.y st.toSt).stop || (rowsWhile cfg B fuel e.a.y st.toSt).fuelOut)
    · rw [if_neg (by simp), if_neg (by simp)]
      obtain ⟨hw, hiw⟩ := objSweep_sim cfg (objRowsWhile cfg.nan B fuel e.a.y st) e hi'
      have := ih (objSweep (objRowsWhile cfg.nan B fuel e.a.y st) e) hiw
      rw [hw, hs] at this
      exact this
    · rw [if_pos rfl, if_pos rfl]
      exact ⟨hs, hi'⟩

theorem objFinish_sim (cfg : Cfg α) (B : Builder σ α) (fuel : Nat) (st : OSt σ α)
    (hi : ObjInv cfg st.h) :
    (objFinish cfg.nan B fuel st).toSt = finish cfg B fuel st.toSt
    ∧ ObjInv cfg (objFinish cfg.nan B fuel st).h := by
  unfold objFinish finish
  have h1 : st.toSt.stop = st.stop := rfl
  have h2 : st.toSt.fuelOut = st.fuelOut := rfl
  have h3 : st.toSt.ymax = st.ymax := rfl
  rw [h1, h2, h3]
  cases hc : (st.stop || st.fuelOut)
  · rw [if_neg (by simp), if_neg (by simp)]
    exact objRowsWhile_sim cfg B fuel st.ymax st hi
  · rw [if_pos rfl, if_pos rfl]; exact ⟨rfl, hi⟩

/-- the prologue of `hatch` establishes the invariant on EVERY object -/
theorem objPrologue_inv (h : Obj α) (o : Options α) (nan : P α) :
    ObjInv (mkCfg o nan) (objPrologue h o nan) :=
  ⟨rfl, rfl, rfl, rfl, fun _ => rfl, fun _ => rfl⟩

theorem objPrologue_active (h : Obj α) (o : Options α) (nan : P α) :
    (objPrologue h o nan).active = [] := rfl

theorem objPrologue_row (h : Obj α) (o : Options α) (nan : P α) :
    (objPrologue h o nan).seg.row = 0 := rfl

/-- `Hatcher::hatch` on ANY object runs exactly as the one-call model does -/
theorem objHatch_sim (h : Obj α) (o : Options α) (nan : P α) (B : Builder σ α) (fuel : Nat)
    (edges : List (Seg α)) (b0 : σ) :
    (objHatch h o nan B fuel edges b0).map OSt.toSt = hatch (mkCfg o nan) B fuel edges b0 := by
  unfold objHatch hatch
  cases edges with
  | nil => simp [objEmpty, emptySt, OSt.toSt, objPrologue_active, objPrologue_row]
  | cons e0 es =>
    simp only [List.isEmpty_cons, Bool.false_eq_true, if_false, List.head?_cons, Option.map_some]
    have hi : ObjInv (mkCfg o nan)
        (objInit (objPrologue h o nan) (B.nextOff b0 0).2 (e0.a.y + (B.nextOff b0 0).1)
          (B.nextOff b0 0).1).h := objPrologue_inv h o nan
    obtain ⟨h1, hi1⟩ := objHatchEdges_sim (mkCfg o nan) B fuel (e0 :: es) _ hi
    obtain ⟨h2, _⟩ := objFinish_sim (mkCfg o nan) B fuel _ hi1
    have hnan : (mkCfg o nan).nan = nan := rfl
    rw [hnan] at h1 h2
    rw [h2, h1]
    rfl

/-- `set_path` clears the vector it is handed before anything is pushed -/
theorem setPath_eq (old : List (Seg α)) (c s : α) (evs : List (PEv α)) :
    setPath old c s evs = buildEvents c s evs := rfl

end Lyon.Hatch
