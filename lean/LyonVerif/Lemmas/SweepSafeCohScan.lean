/-
  SPAN / WINDING COHERENCE, part 1: what a successful `scan_active_edges` computes, in terms of the
  winding fold over the active list.

  `wstep` / `Wf rule l` : `WindingState` after the edges `l` (a merge vertex counts one span, an
  edge updates the winding).  `ScanSem s scan`: the scan's `winding_before` is the fold over the
  edges before `above_start`, every span index it hands to `process_edges_above` is the index of an
  `in` gap of the fold, etc.
-/
import LyonVerif.Lemmas.SweepSafeScan
import LyonVerif.Model.Tess.SweepCert

set_option linter.unusedSectionVars false
set_option linter.unusedVariables false
set_option linter.unusedSimpArgs false
set_option mvcgen.warning false

namespace Lyon.SweepCoh
open Lyon Lyon.Scalar Lyon.Mono Lyon.Sweep Lyon.EQ Lyon.SweepSafe
open Std.Do

variable {α : Type} [Scalar α] [Wide α]

theorem wfold_append (rule : Slab.Rule) (w : WindingState) (l m : List (ActiveEdge α)) :
    wfold rule w (l ++ m) = wfold rule (wfold rule w l) m := by simp [wfold, List.foldl_append]

theorem Wat_succ (s : St α) (k : Nat) (e : ActiveEdge α) (h : s.active[k]? = some e) :
    Wat s (k + 1) = wstep s.rule (Wat s k) e := by
  unfold Wat
  have hk : k < s.active.toList.length := by
    rcases Array.getElem?_eq_some_iff.mp h with ⟨hh, _⟩; simpa using hh
  have he : s.active.toList[k] = e := by
    rcases Array.getElem?_eq_some_iff.mp h with ⟨hh, e'⟩; simpa using e'
  rw [List.take_succ_eq_append_getElem hk, wfold_append, he]
  simp [wfold]

theorem Wat_zero (s : St α) : Wat s 0 = WindingState.new := by simp [Wat, wfold]


/-- number of `in` gaps strictly between positions `a` and `i` of the active list -/
def cntIn (s : St α) (a i : Nat) : Nat :=
  ((List.range i).filter (fun k => decide (a < k) && (Wat s k).isIn)).length

theorem cntIn_succ (s : St α) (a i : Nat) :
    cntIn s a (i + 1) = cntIn s a i + (if a < i ∧ (Wat s i).isIn = true then 1 else 0) := by
  unfold cntIn
  rw [List.range_succ, List.filter_append, List.length_append]
  congr 1
  by_cases h : a < i ∧ (Wat s i).isIn = true
  · simp [h]
  · simp only [h, if_false]
    have : (decide (a < i) && (Wat s i).isIn) = false := by
      rcases Classical.not_and_iff_not_or_not.mp h with h' | h'
      · simp [h']
      · simp [h']
    simp [List.filter, this]

theorem cntIn_self (s : St α) (a : Nat) : cntIn s a (a + 1) = 0 := by
  unfold cntIn
  rw [List.length_eq_zero_iff, List.filter_eq_nil_iff]
  intro k hk
  have : k < a + 1 := by simpa using hk
  have : ¬ a < k := by omega
  simp [this]

theorem cntIn_le (s : St α) (a i : Nat) (h : i ≤ a + 1) : cntIn s a i = 0 := by
  unfold cntIn
  rw [List.length_eq_zero_iff, List.filter_eq_nil_iff]
  intro k hk
  have : k < i := by simpa using hk
  have : ¬ a < k := by omega
  simp [this]

/-- what a successful scan computes, in terms of the winding fold `Wat s` -/
structure ScanSem (s : St α) (scan : Scan) : Prop where
  wb : scan.windingBefore = Wat s scan.aboveStart
  ve : ∀ x ∈ scan.vertexEvents,
    (x.1 = (Wat s scan.aboveStart).spanIndex ∧ (Wat s scan.aboveStart).isIn = true) ∨
    (x.1 = (Wat s scan.aboveEnd).spanIndex ∧ (Wat s scan.aboveEnd).isIn = true) ∨
    (scan.mergeSplitEvent = true ∧
      (x.1 = (Wat s scan.aboveEnd).spanIndex - 1 ∨ x.1 = (Wat s scan.aboveEnd).spanIndex))
  se : ∀ x ∈ scan.spansToEnd, ∃ k, scan.aboveStart < k ∧ k < scan.aboveEnd ∧
    x = (Wat s k).spanIndex ∧ (Wat s k).isIn = true
  se_count : scan.spansToEnd.size = cntIn s scan.aboveStart scan.aboveEnd
  split : scan.splitEvent = true →
    scan.aboveStart = scan.aboveEnd ∧ (Wat s scan.aboveStart).isIn = true ∧ scan.mergeSplitEvent = false
  /-- a vertex inside the filled region that connects to no edge is a split event -/
  split_of_in : HorizAgree s.tolerance → scan.aboveStart = scan.aboveEnd →
    (Wat s scan.aboveStart).isIn = true → scan.splitEvent = true
  ms : scan.mergeSplitEvent = true → scan.aboveEnd = scan.aboveStart + 1 ∧
    ∃ e, s.active[scan.aboveStart]? = some e ∧ e.isMerge = true
  merge : scan.mergeEvent = true → (Wat s scan.aboveStart).isIn = true ∧ (Wat s scan.aboveEnd).isIn = true ∧
    s.below.isEmpty = true ∧ scan.edgesToSplit.isEmpty = true
  mid_merge : ∀ k e, scan.aboveStart < k → k < scan.aboveEnd → s.active[k]? = some e → e.isMerge = true →
    (Wat s k).isIn = true
  /-- an event that connects to no edge: nothing is split, no merge event -/
  empty : HorizAgree s.tolerance → scan.aboveStart = scan.aboveEnd →
    scan.edgesToSplit = #[] ∧ scan.mergeEvent = false
  /-- every edge to split lies in the `above` range and is not a merge vertex -/
  splits : ∀ ei ∈ scan.edgesToSplit, scan.aboveStart ≤ ei ∧ ei < scan.aboveEnd


theorem isEdgeConnecting_snd {cur : P α} {t : α} {e : ActiveEdge α} {c : Bool × Bool}
    (h : isEdgeConnecting cur t e = .ok c) (h2 : c.2 = true) : c.1 = true := by
  unfold isEdgeConnecting at h
  dsimp only at h
  repeat' (first | (cases h; first | rfl | (cases h2) | done) | split at h)

variable {s : St α} {pref suff : List (ActiveEdge α)} {cur : ActiveEdge α}

/-- first pass: the loop state is `(connecting, idx, w, prevWasMerge)` -/
def J1 (s : St α) (pref suff : List (ActiveEdge α)) (b : Bool × Nat × WindingState × Bool) : Prop :=
  b.2.2.1 = Wat s b.2.1 ∧
  (suff ≠ [] → b.2.1 = pref.length ∧ b.1 = false) ∧
  (b.2.2.2 = true → 1 ≤ b.2.1 ∧ ∃ e, s.active[b.2.1 - 1]? = some e ∧ e.isMerge = true) ∧
  (b.1 = true → ∃ e0, s.active[b.2.1]? = some e0 ∧ e0.isMerge = false)

theorem J1_init : J1 s [] s.active.toList (false, 0, WindingState.new, false) := by
  refine ⟨(Wat_zero s).symm, fun _ => ⟨rfl, rfl⟩, (by intro h; simp at h), (by intro h; simp at h)⟩

theorem J1_merge {b : Bool × Nat × WindingState × Bool} (h : s.active.toList = pref ++ cur :: suff)
    (hm : cur.isMerge = true) (hJ : J1 s pref (cur :: suff) b) :
    J1 s (pref ++ [cur]) suff (b.1, b.2.1 + 1,
      { spanIndex := b.2.2.1.spanIndex + 1, number := b.2.2.1.number, isIn := b.2.2.1.isIn }, true) := by
  obtain ⟨h1, h2, h3, h4⟩ := hJ
  have h2' := h2 (by simp)
  have hc : s.active[b.2.1]? = some cur := by rw [h2'.1]; exact getElem?_of_split h
  refine ⟨?_, fun _ => ⟨by simp [h2'.1], h2'.2⟩, fun _ => ⟨by simp, cur, by simpa using hc, hm⟩, ?_⟩
  · rw [Wat_succ s _ cur hc, ← h1]
    simp [wstep, hm]
  · intro hcn; simp [h2'.2] at hcn

theorem J1_step {b : Bool × Nat × WindingState × Bool} (h : s.active.toList = pref ++ cur :: suff)
    (hm : ¬cur.isMerge = true) (hJ : J1 s pref (cur :: suff) b) :
    J1 s (pref ++ [cur]) suff (b.1, b.2.1 + 1, b.2.2.1.update s.rule cur.winding, false) := by
  obtain ⟨h1, h2, h3, h4⟩ := hJ
  have h2' := h2 (by simp)
  have hc : s.active[b.2.1]? = some cur := by rw [h2'.1]; exact getElem?_of_split h
  refine ⟨?_, fun _ => ⟨by simp [h2'.1], h2'.2⟩, (by intro h; simp at h), ?_⟩
  · rw [Wat_succ s _ cur hc, ← h1]
    simp [wstep, hm]
  · intro hcn; simp [h2'.2] at hcn

theorem J1_done {b : Bool × Nat × WindingState × Bool} (h : s.active.toList = pref ++ cur :: suff)
    (hJ : J1 s pref (cur :: suff) b) : J1 s s.active.toList [] b := by
  obtain ⟨h1, h2, h3, h4⟩ := hJ
  have h2' := h2 (by simp)
  exact ⟨h1, fun h => absurd rfl h, h3, fun hcn => by simp [h2'.2] at hcn⟩

theorem J1_done_conn {b : Bool × Nat × WindingState × Bool} (h : s.active.toList = pref ++ cur :: suff)
    (hm : ¬cur.isMerge = true) (hJ : J1 s pref (cur :: suff) b) :
    J1 s s.active.toList [] (true, b.2.1, b.2.2.1, b.2.2.2) := by
  obtain ⟨h1, h2, h3, h4⟩ := hJ
  have h2' := h2 (by simp)
  refine ⟨h1, fun h => absurd rfl h, h3, fun _ => ⟨cur, ?_, by simpa using hm⟩⟩
  dsimp only
  rw [h2'.1]; exact getElem?_of_split h

/-- `above_start` as a function of the first pass's result -/
def a0of (r : Bool × Nat × WindingState × Bool) : Nat := if r.2.2.2 then r.2.1 - 1 else r.2.1

/-- second pass: the loop state is `(idx, w, scan, firstConnecting)`; `r` = result of the first pass -/
def J2 (s : St α) (r : Bool × Nat × WindingState × Bool) (pref suff : List (ActiveEdge α))
    (b : Nat × WindingState × Scan × Bool) : Prop :=
  b.2.1 = Wat s b.1 ∧ r.2.1 ≤ b.1 ∧ (suff ≠ [] → b.1 = r.2.1 + pref.length) ∧
  b.2.2.1.windingBefore = Wat s (a0of r) ∧ b.2.2.1.vertexEvents = #[] ∧ b.2.2.1.mergeSplitEvent = false ∧
  b.2.2.1.aboveStart = a0of r ∧ b.2.2.1.mergeEvent = false ∧ b.2.2.1.splitEvent = false ∧
  (b.2.2.2 = true ↔ b.1 = a0of r) ∧
  (∀ x ∈ b.2.2.1.spansToEnd, ∃ k, a0of r < k ∧ k < b.1 ∧ x = (Wat s k).spanIndex ∧ (Wat s k).isIn = true) ∧
  b.2.2.1.spansToEnd.size = cntIn s (a0of r) b.1 ∧
  (∀ k e, a0of r < k → k < b.1 → s.active[k]? = some e → e.isMerge = true → (Wat s k).isIn = true) ∧
  (∀ ei ∈ b.2.2.1.edgesToSplit, a0of r ≤ ei ∧ ei < b.1) ∧
  (HorizAgree s.tolerance → r.2.2.2 = false → pref ≠ [] → r.2.1 < b.1)

def invJ2 (s : St α) (r : Bool × Nat × WindingState × Bool) :
    Invariant (s.active.extract r.2.1).toList (Nat × WindingState × Scan × Bool) (.except IErr .pure) :=
  post⟨fun c => ⌜J2 s r c.1.prefix c.1.suffix c.2⌝, fun _ => ⌜True⌝⟩

theorem a0of_le (r : Bool × Nat × WindingState × Bool) : a0of r ≤ r.2.1 := by
  unfold a0of; split <;> omega

theorem Wat_a0 {r : Bool × Nat × WindingState × Bool} (hJ : J1 s s.active.toList [] r) :
    (Wat s (a0of r)).isIn = r.2.2.1.isIn ∧ (Wat s (a0of r)).number = r.2.2.1.number ∧
    (Wat s (a0of r)).spanIndex = (if r.2.2.2 then r.2.2.1.spanIndex - 1 else r.2.2.1.spanIndex) := by
  obtain ⟨h1, h2, h3, h4⟩ := hJ
  unfold a0of
  by_cases hp : r.2.2.2 = true
  · obtain ⟨hge, e, he, hme⟩ := h3 hp
    have : Wat s r.2.1 = wstep s.rule (Wat s (r.2.1 - 1)) e := by
      have := Wat_succ s (r.2.1 - 1) e he
      rwa [Nat.sub_add_cancel hge] at this
    simp only [hp, if_true]
    rw [h1, this]
    simp [wstep, hme]
  · simp only [hp]
    simp [h1]


theorem ws_ext {a b : WindingState} (h1 : a.spanIndex = b.spanIndex) (h2 : a.number = b.number)
    (h3 : a.isIn = b.isIn) : a = b := by
  cases a; cases b; simp_all

theorem a0of_cases (r : Bool × Nat × WindingState × Bool) (hJ : J1 s s.active.toList [] r) :
    (r.2.2.2 = true ∧ a0of r + 1 = r.2.1) ∨ (r.2.2.2 = false ∧ a0of r = r.2.1) := by
  unfold a0of
  by_cases hp : r.2.2.2 = true
  · left
    have := (hJ.2.2.1 hp).1
    simp only [hp, if_true]
    exact ⟨trivial, by omega⟩
  · right
    simp only [hp]
    simp [hp]

theorem J2_init {r : Bool × Nat × WindingState × Bool} {sc : Scan} (hJ : J1 s s.active.toList [] r)
    (hwb : sc.windingBefore =
      (if r.2.2.2 then ⟨r.2.2.1.spanIndex - 1, r.2.2.1.number, r.2.2.1.isIn⟩ else r.2.2.1))
    (ha : sc.aboveStart = (if r.2.2.2 then r.2.1 - 1 else r.2.1)) (hve : sc.vertexEvents = #[])
    (hms : sc.mergeSplitEvent = false) (hme : sc.mergeEvent = false) (hsp : sc.splitEvent = false)
    (hes : sc.edgesToSplit = #[]) (hse : sc.spansToEnd = #[]) :
    J2 s r [] (s.active.extract r.2.1).toList (r.2.1, r.2.2.1, sc, !r.2.2.2) := by
  have hw := Wat_a0 hJ
  have hc := a0of_cases r hJ
  refine ⟨hJ.1, Nat.le_refl _, fun _ => by simp, ?_, hve, hms, ha, hme, hsp, ?_, ?_, ?_, ?_, ?_, ?_⟩
  · rw [hwb]
    apply ws_ext
    · rw [hw.2.2]; split <;> rfl
    · rw [hw.2.1]; split <;> rfl
    · rw [hw.1]; split <;> rfl
  · rcases hc with ⟨hp, h⟩ | ⟨hp, h⟩
    · simp only [hp]
      constructor
      · intro h'; cases h'
      · intro h'; have h'' : r.2.1 = a0of r := h'; omega
    · simp only [hp]
      constructor
      · intro _; exact h.symm
      · intro _; rfl
  · intro x hx; simp [hse] at hx
  · rw [hse]
    symm
    apply cntIn_le
    dsimp only
    rcases hc with ⟨_, h⟩ | ⟨_, h⟩ <;> omega
  · intro k e h1 h2
    dsimp only at h2
    rcases hc with ⟨_, h⟩ | ⟨_, h⟩ <;> omega
  · intro ei he; simp [hes] at he
  · intro _ _ h; exact absurd rfl h

/-- the edge of the second pass at cursor position `pref.length` -/
theorem J2_cur {r : Bool × Nat × WindingState × Bool} {b : Nat × WindingState × Scan × Bool}
    (h : (s.active.extract r.2.1).toList = pref ++ cur :: suff) (hJ : J2 s r pref (cur :: suff) b) :
    s.active[b.1]? = some cur ∧ b.1 < s.active.size := by
  have hx := extract_split h
  have := hJ.2.2.1 (by simp)
  rw [this]
  exact ⟨hx.2, hx.1⟩

theorem J2_yield_merge {r : Bool × Nat × WindingState × Bool} {b : Nat × WindingState × Scan × Bool}
    {sc' : Scan} (hJ1 : J1 s s.active.toList [] r) (hconn : r.1 = true)
    (h : (s.active.extract r.2.1).toList = pref ++ cur :: suff) (hm : cur.isMerge = true)
    (hin : ¬(!b.2.1.isIn) = true) (hJ : J2 s r pref (cur :: suff) b)
    (e1 : sc'.windingBefore = b.2.2.1.windingBefore) (e2 : sc'.vertexEvents = b.2.2.1.vertexEvents)
    (e3 : sc'.mergeSplitEvent = b.2.2.1.mergeSplitEvent) (e4 : sc'.aboveStart = b.2.2.1.aboveStart)
    (e5 : sc'.mergeEvent = b.2.2.1.mergeEvent) (e6 : sc'.splitEvent = b.2.2.1.splitEvent)
    (e7 : sc'.edgesToSplit = b.2.2.1.edgesToSplit)
    (e8 : sc'.spansToEnd = b.2.2.1.spansToEnd.push b.2.1.spanIndex) :
    J2 s r (pref ++ [cur]) suff (b.1 + 1,
      { spanIndex := b.2.1.spanIndex + 1, number := b.2.1.number, isIn := b.2.1.isIn }, sc', false) := by
  have hcur := J2_cur h hJ
  obtain ⟨j1, j2, j3, j4, j5, j6, j7, j8, j9, j10, j11, j12, j13, j14, j15⟩ := hJ
  have j3' := j3 (by simp)
  have ha := a0of_le r
  have hisin : b.2.1.isIn = true := by simpa using hin
  -- the merge edge is not the edge the first pass stopped at
  have hlt : a0of r < b.1 := by
    rcases a0of_cases r hJ1 with ⟨hp, h'⟩ | ⟨hp, h'⟩
    · omega
    · by_cases hb : b.1 = r.2.1
      · exfalso
        obtain ⟨e0, he0, hne⟩ := hJ1.2.2.2 hconn
        rw [hb, he0] at hcur
        have := Option.some.inj hcur.1
        rw [this] at hne
        rw [hm] at hne; cases hne
      · omega
  refine ⟨?_, by dsimp only; omega, fun _ => by simp; omega, e1.trans j4, e2.trans j5, e3.trans j6,
    e4.trans j7, e5.trans j8, e6.trans j9, ?_, ?_, ?_, ?_, ?_, ?_⟩
  · dsimp only
    rw [Wat_succ s _ cur hcur.1, ← j1]
    simp [wstep, hm]
  · dsimp only
    constructor
    · intro h'; cases h'
    · intro h'; omega
  · intro x hx
    rw [e8] at hx
    rcases Array.mem_push.mp hx with hx | hx
    · obtain ⟨k, hk1, hk2, hk3⟩ := j11 x hx
      exact ⟨k, hk1, by dsimp only; omega, hk3⟩
    · exact ⟨b.1, hlt, by dsimp only; omega, by rw [hx, j1], by rw [← j1]; exact hisin⟩
  · rw [e8, Array.size_push, j12, cntIn_succ]
    have : a0of r < b.1 ∧ (Wat s b.1).isIn = true := ⟨hlt, by rw [← j1]; exact hisin⟩
    simp [this]
  · intro k e hk1 hk2 hke hkm
    dsimp only at hk2
    by_cases hkb : k = b.1
    · rw [hkb, ← j1]; exact hisin
    · exact j13 k e hk1 (by omega) hke hkm
  · intro ei he
    rw [e7] at he
    have := j14 ei he
    exact ⟨this.1, by dsimp only; omega⟩
  · intro _ _ _; dsimp only; omega

theorem not_and2' {a b : Bool} (h : ¬(!a && b) = true) : a = true ∨ b = false := not_and2 h

theorem J2_yield {r : Bool × Nat × WindingState × Bool} {b : Nat × WindingState × Scan × Bool}
    {sc' : Scan} (h : (s.active.extract r.2.1).toList = pref ++ cur :: suff) (hm : ¬cur.isMerge = true)
    (hJ : J2 s r pref (cur :: suff) b)
    (e1 : sc'.windingBefore = b.2.2.1.windingBefore) (e2 : sc'.vertexEvents = b.2.2.1.vertexEvents)
    (e3 : sc'.mergeSplitEvent = b.2.2.1.mergeSplitEvent) (e4 : sc'.aboveStart = b.2.2.1.aboveStart)
    (e5 : sc'.mergeEvent = b.2.2.1.mergeEvent) (e6 : sc'.splitEvent = b.2.2.1.splitEvent)
    (e7 : sc'.edgesToSplit = b.2.2.1.edgesToSplit ∨ sc'.edgesToSplit = b.2.2.1.edgesToSplit.push b.1)
    (e8 : (sc'.spansToEnd = b.2.2.1.spansToEnd ∧ (b.2.2.2 = true ∨ b.2.1.isIn = false)) ∨
          (sc'.spansToEnd = b.2.2.1.spansToEnd.push b.2.1.spanIndex ∧ (!b.2.2.2 && b.2.1.isIn) = true)) :
    J2 s r (pref ++ [cur]) suff (b.1 + 1, b.2.1.update s.rule cur.winding, sc', false) := by
  have hcur := J2_cur h hJ
  obtain ⟨j1, j2, j3, j4, j5, j6, j7, j8, j9, j10, j11, j12, j13, j14, j15⟩ := hJ
  have j3' := j3 (by simp)
  have ha := a0of_le r
  refine ⟨?_, by dsimp only; omega, fun _ => by simp; omega, e1.trans j4, e2.trans j5, e3.trans j6,
    e4.trans j7, e5.trans j8, e6.trans j9, ?_, ?_, ?_, ?_, ?_, ?_⟩
  · dsimp only
    rw [Wat_succ s _ cur hcur.1, ← j1]
    simp [wstep, hm]
  · dsimp only
    constructor
    · intro h'; cases h'
    · intro h'; omega
  · intro x hx
    rcases e8 with ⟨e8, _⟩ | ⟨e8, hp⟩
    · rw [e8] at hx
      obtain ⟨k, hk1, hk2, hk3⟩ := j11 x hx
      exact ⟨k, hk1, by dsimp only; omega, hk3⟩
    · rw [e8] at hx
      have hfc : b.2.2.2 = false := by
        cases hb : b.2.2.2 <;> simp [hb] at hp ⊢
      have hin : b.2.1.isIn = true := and2_right hp
      have hne : b.1 ≠ a0of r := fun e => by
        have := j10.mpr e; rw [hfc] at this; cases this
      rcases Array.mem_push.mp hx with hx | hx
      · obtain ⟨k, hk1, hk2, hk3⟩ := j11 x hx
        exact ⟨k, hk1, by dsimp only; omega, hk3⟩
      · exact ⟨b.1, by omega, by dsimp only; omega, by rw [hx, j1], by rw [← j1]; exact hin⟩
  · rcases e8 with ⟨e8, hor⟩ | ⟨e8, hp⟩
    · rw [e8, j12, cntIn_succ]
      have : ¬(a0of r < b.1 ∧ (Wat s b.1).isIn = true) := by
        rintro ⟨h1, h2⟩
        rcases hor with hfc | hout
        · have := j10.mp hfc; omega
        · rw [← j1, hout] at h2; cases h2
      simp [this]
    · have hfc : b.2.2.2 = false := by
        cases hb : b.2.2.2 <;> simp [hb] at hp ⊢
      have hin : b.2.1.isIn = true := and2_right hp
      have hne : b.1 ≠ a0of r := fun e => by
        have := j10.mpr e; rw [hfc] at this; cases this
      rw [e8, Array.size_push, j12, cntIn_succ]
      have : a0of r < b.1 ∧ (Wat s b.1).isIn = true := ⟨by omega, by rw [← j1]; exact hin⟩
      simp [this]
  · intro k e hk1 hk2 hke hkm
    dsimp only at hk2
    by_cases hkb : k = b.1
    · exfalso
      rw [hkb, hcur.1] at hke
      have := Option.some.inj hke
      rw [← this] at hkm
      exact hm hkm
    · exact j13 k e hk1 (by omega) hke hkm
  · intro ei he
    rcases e7 with e7 | e7
    · rw [e7] at he
      have := j14 ei he
      exact ⟨this.1, by dsimp only; omega⟩
    · rw [e7] at he
      rcases Array.mem_push.mp he with he | he
      · have := j14 ei he
        exact ⟨this.1, by dsimp only; omega⟩
      · rw [he]; exact ⟨by omega, by dsimp only; omega⟩
  · intro _ _ _; dsimp only; omega

/-- `break` of the second pass (nothing pushed) -/
theorem J2_done {r : Bool × Nat × WindingState × Bool} {b : Nat × WindingState × Scan × Bool}
    (h : (s.active.extract r.2.1).toList = pref ++ cur :: suff) (hJ : J2 s r pref (cur :: suff) b)
    (hfirst : HorizAgree s.tolerance → r.2.2.2 = false → pref = [] → False) :
    J2 s r (s.active.extract r.2.1).toList [] b := by
  obtain ⟨j1, j2, j3, j4, j5, j6, j7, j8, j9, j10, j11, j12, j13, j14, j15⟩ := hJ
  refine ⟨j1, j2, fun h => absurd rfl h, j4, j5, j6, j7, j8, j9, j10, j11, j12, j13, j14, ?_⟩
  intro hH hp _
  by_cases hp0 : pref = []
  · exact (hfirst hH hp hp0).elim
  · exact j15 hH hp hp0

theorem conn_done_absurd {Q : Prop} {cp : P α} {t : α} {e : ActiveEdge α} {c : Bool × Bool}
    (hc : isEdgeConnecting cp t e = .ok c) (h2 : c.2 = true) (h1 : (!c.1) = true) : Q := by
  have := isEdgeConnecting_snd hc h2
  simp [this] at h1


theorem ScanSem_of_J1 {r : Bool × Nat × WindingState × Bool} {sc : Scan} (hJ : J1 s s.active.toList [] r)
    (hwb : sc.windingBefore =
      (if r.2.2.2 then ⟨r.2.2.1.spanIndex - 1, r.2.2.1.number, r.2.2.1.isIn⟩ else r.2.2.1))
    (ha : sc.aboveStart = (if r.2.2.2 then r.2.1 - 1 else r.2.1)) (he : sc.aboveEnd = r.2.1)
    (hve : (sc.mergeSplitEvent = true ∧ r.2.2.2 = true ∧
              ∀ x ∈ sc.vertexEvents, x.1 = r.2.2.1.spanIndex - 1 ∨ x.1 = r.2.2.1.spanIndex) ∨
           (sc.mergeSplitEvent = false ∧ sc.vertexEvents = #[]))
    (hsp : sc.splitEvent = true → r.2.2.1.isIn = true ∧ sc.mergeSplitEvent = false ∧ r.2.2.2 = false)
    (hsp2 : r.2.2.2 = false → r.2.2.1.isIn = true → sc.splitEvent = true)
    (hme : sc.mergeEvent = false) (hes : sc.edgesToSplit = #[]) (hse : sc.spansToEnd = #[]) :
    ScanSem s sc := by
  have hw := Wat_a0 hJ
  have hc := a0of_cases r hJ
  have ha' : sc.aboveStart = a0of r := ha
  refine ⟨?_, ?_, ?_, ?_, ?_, ?_, ?_, ?_, ?_, ?_, ?_⟩
  · rw [hwb, ha']
    apply ws_ext
    · rw [hw.2.2]; split <;> rfl
    · rw [hw.2.1]; split <;> rfl
    · rw [hw.1]; split <;> rfl
  · intro x hx
    rcases hve with ⟨h1, h2, h3⟩ | ⟨h1, h2⟩
    · right; right
      refine ⟨h1, ?_⟩
      rw [he, ← hJ.1]
      exact h3 x hx
    · rw [h2] at hx; simp at hx
  · intro x hx; simp [hse] at hx
  · rw [hse, ha', he]
    symm; apply cntIn_le
    rcases hc with ⟨_, h⟩ | ⟨_, h⟩ <;> omega
  · intro h
    obtain ⟨h1, h2, h3⟩ := hsp h
    rcases hc with ⟨hp, h'⟩ | ⟨hp, h'⟩
    · rw [hp] at h3; cases h3
    · exact ⟨by rw [ha', he, h'], by rw [ha', hw.1]; exact h1, h2⟩
  · intro _ hab hin
    rcases hc with ⟨hp, h'⟩ | ⟨hp, h'⟩
    · rw [ha', he] at hab; omega
    · rw [ha', hw.1] at hin
      exact hsp2 hp hin
  · intro h
    rcases hve with ⟨_, h2, _⟩ | ⟨h1, _⟩
    · obtain ⟨hge, e, hee, hem⟩ := hJ.2.2.1 h2
      rcases hc with ⟨hp, h'⟩ | ⟨hp, h'⟩
      · refine ⟨by rw [ha', he]; omega, e, ?_, hem⟩
        rw [ha']
        have : a0of r = r.2.1 - 1 := by omega
        rw [this]; exact hee
      · rw [hp] at h2; cases h2
    · rw [h1] at h; cases h
  · intro h; rw [hme] at h; cases h
  · intro k e h1 h2
    rw [ha'] at h1; rw [he] at h2
    rcases hc with ⟨_, h⟩ | ⟨_, h⟩ <;> omega
  · intro _ _; exact ⟨hes, hme⟩
  · intro ei hei; simp [hes] at hei

theorem ScanSem_of_J2 {r : Bool × Nat × WindingState × Bool} {b : Nat × WindingState × Scan × Bool}
    {sc : Scan} (hJ1 : J1 s s.active.toList [] r) (hconn : r.1 = true)
    (hJ : J2 s r (s.active.extract r.2.1).toList [] b)
    (e1 : sc.windingBefore = b.2.2.1.windingBefore) (e4 : sc.aboveStart = b.2.2.1.aboveStart)
    (hend : sc.aboveEnd = b.1) (e3 : sc.mergeSplitEvent = b.2.2.1.mergeSplitEvent)
    (e6 : sc.splitEvent = b.2.2.1.splitEvent) (e7 : sc.edgesToSplit = b.2.2.1.edgesToSplit)
    (e8 : sc.spansToEnd = b.2.2.1.spansToEnd)
    (hve : ∀ x ∈ sc.vertexEvents, x ∈ b.2.2.1.vertexEvents ∨
      (x.1 = b.2.2.1.windingBefore.spanIndex ∧ r.2.2.1.isIn = true) ∨
      (x.1 = b.2.1.spanIndex ∧ b.2.1.isIn = true))
    (hme : sc.mergeEvent = b.2.2.1.mergeEvent ∨
      (r.2.2.1.isIn && b.2.1.isIn && s.below.isEmpty && b.2.2.1.edgesToSplit.isEmpty) = true) :
    ScanSem s sc := by
  obtain ⟨j1, j2, j3, j4, j5, j6, j7, j8, j9, j10, j11, j12, j13, j14, j15⟩ := hJ
  have hw := Wat_a0 hJ1
  have hc := a0of_cases r hJ1
  have ha' : sc.aboveStart = a0of r := e4.trans j7
  have hne : (s.active.extract r.2.1).toList ≠ [] := by
    obtain ⟨e0, he0, _⟩ := hJ1.2.2.2 hconn
    have hlt : r.2.1 < s.active.size := by
      rcases Array.getElem?_eq_some_iff.mp he0 with ⟨hh, _⟩; exact hh
    intro h0
    have := congrArg List.length h0
    simp at this
    omega
  have hprog : HorizAgree s.tolerance → sc.aboveStart = sc.aboveEnd → False := by
    intro hH heq
    rw [ha', hend] at heq
    rcases hc with ⟨hp, h'⟩ | ⟨hp, h'⟩
    · omega
    · have := j15 hH hp hne
      omega
  refine ⟨by rw [e1, j4, ha'], ?_, ?_, ?_, ?_, ?_, ?_, ?_, ?_, ?_, ?_⟩
  · intro x hx
    rcases hve x hx with h | ⟨h1, h2⟩ | ⟨h1, h2⟩
    · rw [j5] at h; simp at h
    · left
      rw [ha']
      exact ⟨by rw [h1, j4], by rw [hw.1]; exact h2⟩
    · right; left
      rw [hend, ← j1]
      exact ⟨h1, h2⟩
  · intro x hx
    rw [e8] at hx
    obtain ⟨k, hk1, hk2, hk3⟩ := j11 x hx
    exact ⟨k, by rw [ha']; exact hk1, by rw [hend]; exact hk2, hk3⟩
  · rw [e8, j12, ha', hend]
  · intro h; rw [e6, j9] at h; cases h
  · intro hH hab _; exact (hprog hH hab).elim
  · intro h; rw [e3, j6] at h; cases h
  · intro h
    rcases hme with h' | h'
    · rw [h', j8] at h; cases h
    · simp only [Bool.and_eq_true] at h'
      obtain ⟨⟨⟨h1, h2⟩, h3⟩, h4⟩ := h'
      refine ⟨by rw [ha', hw.1]; exact h1, by rw [hend, ← j1]; exact h2, h3, by rw [e7]; exact h4⟩
  · intro k e hk1 hk2
    rw [ha'] at hk1; rw [hend] at hk2
    exact j13 k e hk1 hk2
  · intro hH heq
    exact (hprog hH heq).elim
  · intro ei hei
    rw [e7] at hei
    have := j14 ei hei
    exact ⟨by rw [ha']; exact this.1, by rw [hend]; exact this.2⟩

/-! ### the combined invariants and the specification -/

def L1 (s : St α) (pref suff : List (ActiveEdge α)) (b : Bool × Nat × WindingState × Bool) : Prop :=
  I1 s pref suff b ∧ J1 s pref suff b

def L2 (s : St α) (r : Bool × Nat × WindingState × Bool) (pref suff : List (ActiveEdge α))
    (b : Nat × WindingState × Scan × Bool) : Prop :=
  I2 s r.2.1 r.2.2.2 pref suff b ∧ J2 s r pref suff b

def invL2 (s : St α) (r : Bool × Nat × WindingState × Bool) :
    Invariant (s.active.extract r.2.1).toList (Nat × WindingState × Scan × Bool) (.except IErr .pure) :=
  post⟨fun c => ⌜L2 s r c.1.prefix c.1.suffix c.2⌝, fun _ => ⌜True⌝⟩

end Lyon.SweepCoh
