/-
  C13 — direction of the Bézier pieces over ℝ, and the radial-hit lemma (intermediate value theorem)
  used for the second Hausdorff direction.  Helper lemmas for `Props/C13c.lean`.

  * `step_sign_real`: lyon's step is `σ·m` with `σ = signum sweep = ±1`, `m ≥ 0`.
  * `quad_unit_dir_real`, `cubic_unit_dir_real`: for the pieces of the unit circle with a step of at
    most 45° / 90° in direction `σ`: `σ·(B(t₁) × B(t₂)) ≥ 0` for `0 ≤ t₁ ≤ t₂ ≤ 1`.
  * `pointAt_eq_ellMap`, unit piece end points, continuity of `Quad.sample` / `Cubic.sample`.
  * `radial_hit`: a continuous curve from the ray at angle `a₁` to the ray at `a₁ + δ` (`|δ| ≤ π/2`)
    that stays in the sector between them and at radius in `[lo, hi]` meets every ray in between,
    at a radius in `[lo, hi]`.
-/
import LyonVerif.Lemmas.SvgArcRealDir
import LyonVerif.Lemmas.SvgArcRealDev
import Mathlib.Topology.Order.IntermediateValue

set_option linter.unusedSectionVars false
set_option linter.unusedVariables false
set_option linter.unusedSimpArgs false

namespace Lyon.C13
open Lyon Scalar ArcConv

theorem signum_real (x : ℝ) : (signum x : ℝ) = 1 ∨ (signum x : ℝ) = -1 := by
  unfold signum; simp only [sc_zero, sc_one]; split_ifs <;> simp

/-- lyon's steps point in the direction of the sweep -/
theorem step_sign_real (arc : Arc ℝ) :
    0 ≤ signum arc.sweep * stepQ arc ∧ 0 ≤ signum arc.sweep * stepC arc := by
  have he := effSweep_nonneg_real arc
  have hσ : signum arc.sweep * signum arc.sweep = (1 : ℝ) := by
    rcases signum_real arc.sweep with h | h <;> rw [h] <;> norm_num
  have hq : 0 ≤ nStepsQ arc := by
    rw [nStepsQ_real]
    exact_mod_cast Int.ceil_nonneg (div_nonneg he (by have := Real.pi_pos; positivity))
  have hc : 0 ≤ nStepsC arc := by
    rw [nStepsC_real]
    exact_mod_cast Int.ceil_nonneg (div_nonneg he (by have := Real.pi_pos; positivity))
  constructor
  · have : signum arc.sweep * stepQ arc = effSweep arc / nStepsQ arc * (signum arc.sweep * signum arc.sweep) := by
      simp only [stepQ, stepOf]; ring
    rw [this, hσ, mul_one]; exact div_nonneg he hq
  · have : signum arc.sweep * stepC arc = effSweep arc / nStepsC arc * (signum arc.sweep * signum arc.sweep) := by
      simp only [stepC, stepOf]; ring
    rw [this, hσ, mul_one]; exact div_nonneg he hc

/-- `σ·sin(x) ≥ 0` when `σ = ±1`, `σ·x ≥ 0`, `|x| ≤ π` -/
theorem sign_mul_sin_nonneg (σ x : ℝ) (hσ : σ = 1 ∨ σ = -1) (h0 : 0 ≤ σ * x) (hx : |x| ≤ Real.pi) :
    0 ≤ σ * Real.sin x := by
  obtain ⟨l, u⟩ := abs_le.mp hx
  rcases hσ with h | h
  · rw [h] at h0 ⊢
    have := Real.sin_nonneg_of_nonneg_of_le_pi (by linarith : 0 ≤ x) u
    linarith
  · rw [h] at h0 ⊢
    have := Real.sin_nonpos_of_nonpos_of_neg_pi_le (by linarith : x ≤ 0) l
    linarith

/-- strict version -/
theorem sign_mul_sin_pos (σ x : ℝ) (hσ : σ = 1 ∨ σ = -1) (h0 : 0 < σ * x) (hx : |x| < Real.pi) :
    0 < σ * Real.sin x := by
  obtain ⟨l, u⟩ := abs_lt.mp hx
  rcases hσ with h | h
  · rw [h] at h0 ⊢
    have := Real.sin_pos_of_pos_of_lt_pi (by linarith : 0 < x) u
    linarith
  · rw [h] at h0 ⊢
    have := Real.sin_neg_of_neg_of_neg_pi_lt (by linarith : x < 0) l
    linarith

/-- quadratic piece of the unit circle, step at most 45° in direction `σ`: the polar angle moves in
direction `σ` -/
theorem quad_unit_dir_real (arc : Arc ℝ) (a1 d σ t1 t2 : ℝ) (hσ : σ = 1 ∨ σ = -1)
    (hd : |d| ≤ Real.pi / 4) (hσd : 0 ≤ σ * d)
    (ht0 : 0 ≤ t1) (ht : t1 ≤ t2) (ht1 : t2 ≤ 1) :
    0 ≤ σ * ((quadAt (unitArc arc) a1 d).sample t1).cross ((quadAt (unitArc arc) a1 d).sample t2) := by
  have hpi := Real.pi_pos
  obtain ⟨hu, hcos, hsin, htan, hcp, _⟩ := half_angle_real d hd
  rw [quad_unit_cross arc a1 d t1 t2 Real.cos_zero Real.sin_zero
    (exactTrig_real.cos_sq_add_sin_sq _) (Real.cos_add a1 d) (Real.sin_add a1 d)]
  have hs : 0 ≤ σ * Real.sin (d / 2) :=
    sign_mul_sin_nonneg σ (d / 2) hσ (by linarith) (by rw [abs_le] at hd ⊢; constructor <;> linarith)
  have := quad_dir_nonneg (Real.cos (d / 2)) (Real.sin (d / 2)) σ (Transc.tan (d * Scalar.half))
    (Transc.cos d) (Transc.sin d) t1 t2 hu hcp hs hcos (by rw [transc_sin_real, hsin])
    htan ht0 (by linarith) (by linarith) ht1
  have h21 : 0 ≤ t2 - t1 := by linarith
  calc (0 : ℝ) ≤ (t2 - t1) * (σ * quadW (Transc.tan (d * Scalar.half)) (Transc.sin d)
          (Transc.sin d - Transc.tan (d * Scalar.half) * Transc.cos d) t1 t2) := mul_nonneg h21 this
    _ = _ := by ring

/-- cubic piece of the unit circle, step at most 90° in direction `σ` -/
theorem cubic_unit_dir_real (arc : Arc ℝ) (a1 d σ t1 t2 : ℝ) (hσ : σ = 1 ∨ σ = -1)
    (hd : |d| ≤ Real.pi / 2) (hσd : 0 ≤ σ * d)
    (ht0 : 0 ≤ t1) (ht : t1 ≤ t2) (ht1 : t2 ≤ 1) :
    0 ≤ σ * ((cubicAt (unitArc arc) a1 d).sample t1).cross ((cubicAt (unitArc arc) a1 d).sample t2) := by
  have hpi := Real.pi_pos
  obtain ⟨l, u⟩ := abs_le.mp hd
  obtain ⟨hu, hcos, hsin, hal, _⟩ := cubic_half_angle_real d hd
  rw [cubic_unit_cross arc a1 d t1 t2 Real.cos_zero Real.sin_zero
    (exactTrig_real.cos_sq_add_sin_sq _) (Real.cos_add a1 d) (Real.sin_add a1 d)
    (exactTrig_real.cos_sq_add_sin_sq _)]
  have hσ2 : σ * σ = 1 := by rcases hσ with h | h <;> rw [h] <;> norm_num
  have hcp : 0 < Real.cos (d / 2) := Real.cos_pos_of_mem_Ioo ⟨by linarith, by linarith⟩
  have hs : 0 ≤ σ * Real.sin (d / 2) :=
    sign_mul_sin_nonneg σ (d / 2) hσ (by linarith) (by rw [abs_le]; constructor <;> linarith)
  have hcd : 0 ≤ Transc.cos d := Real.cos_nonneg_of_mem_Icc ⟨by linarith, by linarith⟩
  -- σ·α ≥ 0
  have hal0 : 0 ≤ σ * cubicAlpha d := by
    have hh : (Scalar.half : ℝ) = 1 / 2 := sc_half
    have hA2 : (2 : ℝ) ≤ Transc.sqrt (4 + 3 * Transc.tan (d * Scalar.half) * Transc.tan (d * Scalar.half)) := by
      rw [transc_sqrt_real, Real.le_sqrt' (by norm_num)]
      nlinarith [mul_self_nonneg (Transc.tan (d * Scalar.half) : ℝ)]
    have e : cubicAlpha d = Real.sin d
        * (Transc.sqrt (4 + 3 * Transc.tan (d * Scalar.half) * Transc.tan (d * Scalar.half)) - 1) / 3 := by
      simp only [cubicAlpha, geom, Nat.cast_ofNat, Nat.cast_one, transc_sin_real]
    have hsd : 0 ≤ σ * Real.sin d :=
      sign_mul_sin_nonneg σ d hσ hσd (by rw [abs_le]; constructor <;> linarith)
    rw [e]
    have : σ * (Real.sin d * (Transc.sqrt (4 + 3 * Transc.tan (d * Scalar.half) * Transc.tan (d * Scalar.half)) - 1) / 3)
        = (σ * Real.sin d) * ((Transc.sqrt (4 + 3 * Transc.tan (d * Scalar.half) * Transc.tan (d * Scalar.half)) - 1) / 3) := by ring
    rw [this]
    exact mul_nonneg hsd (by linarith)
  have := cubic_dir_nonneg (Real.cos (d / 2)) (Real.sin (d / 2)) σ (cubicAlpha d)
    (Transc.cos d) (Transc.sin d) t1 t2 hσ2 hu hcp hs hcos (by rw [transc_sin_real, hsin]) hcd hal hal0
    ht0 (by linarith) (by linarith) ht1
  have h21 : 0 ≤ t2 - t1 := by linarith
  calc (0 : ℝ) ≤ (t2 - t1) * (σ * cubicW (cubicAlpha d) (Transc.sin d - cubicAlpha d * Transc.cos d) (Transc.sin d)
          (Transc.sin d - 2 * cubicAlpha d * Transc.cos d - cubicAlpha d * cubicAlpha d * Transc.sin d)
          (Transc.sin d - cubicAlpha d * Transc.cos d) (cubicAlpha d) t1 t2) := mul_nonneg h21 this
    _ = _ := by ring

/-! ### points of the arc and of the unit pieces -/

/-- the arc's point at angle `θ` is the `ellMap` image of `(cos θ, sin θ)` -/
theorem pointAt_eq_ellMap (arc : Arc ℝ) (θ : ℝ) :
    pointAt arc θ = ellMap arc ⟨Real.cos θ, Real.sin θ⟩ := rfl

theorem unit_point_real (arc : Arc ℝ) (θ : ℝ) : pointAt (unitArc arc) θ = ⟨Real.cos θ, Real.sin θ⟩ := by
  apply P.ext' <;>
  · simp only [pointAt, unitArc, Arc.sampleEllipse, Arc.rotate, geom, transc_cos_real, transc_sin_real,
      Real.cos_zero, Real.sin_zero]
    ring

theorem quad_unit_ends_real (arc : Arc ℝ) (a1 d : ℝ) :
    (quadAt (unitArc arc) a1 d).sample 0 = ⟨Real.cos a1, Real.sin a1⟩
    ∧ (quadAt (unitArc arc) a1 d).sample 1 = ⟨Real.cos (a1 + d), Real.sin (a1 + d)⟩ := by
  constructor
  · rw [← unit_point_real arc a1]
    apply P.ext' <;> · simp only [quadAt, Quad.sample, geom, Nat.cast_ofNat, Nat.cast_one]; ring
  · rw [← unit_point_real arc (a1 + d)]
    apply P.ext' <;> · simp only [quadAt, Quad.sample, geom, Nat.cast_ofNat, Nat.cast_one]; ring

theorem cubic_unit_ends_real (arc : Arc ℝ) (a1 d : ℝ) :
    (cubicAt (unitArc arc) a1 d).sample 0 = ⟨Real.cos a1, Real.sin a1⟩
    ∧ (cubicAt (unitArc arc) a1 d).sample 1 = ⟨Real.cos (a1 + d), Real.sin (a1 + d)⟩ := by
  constructor
  · rw [← unit_point_real arc a1]
    apply P.ext' <;> · simp only [cubicAt, Cubic.sample, geom, Nat.cast_ofNat, Nat.cast_one]; ring
  · rw [← unit_point_real arc (a1 + d)]
    apply P.ext' <;> · simp only [cubicAt, Cubic.sample, geom, Nat.cast_ofNat, Nat.cast_one]; ring

theorem quad_sample_continuous (q : Quad ℝ) :
    Continuous (fun t : ℝ => (q.sample t).x) ∧ Continuous (fun t : ℝ => (q.sample t).y) := by
  constructor <;>
  · simp only [Quad.sample, geom, Nat.cast_ofNat, Nat.cast_one]
    fun_prop

theorem cubic_sample_continuous (q : Cubic ℝ) :
    Continuous (fun t : ℝ => (q.sample t).x) ∧ Continuous (fun t : ℝ => (q.sample t).y) := by
  constructor <;>
  · simp only [Cubic.sample, geom, Nat.cast_ofNat, Nat.cast_one]
    fun_prop

/-! ### the radial-hit lemma -/

/-- **`radial_hit`** (intermediate value theorem).  A continuous plane curve `(fx, fy)` on `[0,1]` that
starts on the unit circle at angle `a₁`, ends on it at angle `a₁ + δ` (`|δ| ≤ π/2`, direction `σ`),
stays in the sector between the two rays (`σ·(f(0) × f(t)) ≥ 0`, `σ·(f(t) × f(1)) ≥ 0`) and at a
distance in `[lo, hi]` from the origin (`0 < lo ≤ 1 ≤ hi`) meets the ray at every angle
`a₁ + u·δ`, `u ∈ [0,1]`, at a distance `λ ∈ [lo, hi]`. -/
theorem radial_hit (fx fy : ℝ → ℝ) (hfx : Continuous fx) (hfy : Continuous fy)
    (a1 d σ lo hi u : ℝ) (hσ : σ = 1 ∨ σ = -1) (hd : |d| ≤ Real.pi / 2) (hσd : 0 ≤ σ * d)
    (hlo : 0 < lo) (hlo1 : lo ≤ 1) (hhi : 1 ≤ hi)
    (h0 : fx 0 = Real.cos a1 ∧ fy 0 = Real.sin a1)
    (h1 : fx 1 = Real.cos (a1 + d) ∧ fy 1 = Real.sin (a1 + d))
    (hrad : ∀ t, 0 ≤ t → t ≤ 1 → lo ^ 2 ≤ fx t * fx t + fy t * fy t ∧ fx t * fx t + fy t * fy t ≤ hi ^ 2)
    (hsec : ∀ t, 0 ≤ t → t ≤ 1 → 0 ≤ σ * (fx 0 * fy t - fy 0 * fx t) ∧ 0 ≤ σ * (fx t * fy 1 - fy t * fx 1))
    (hu0 : 0 ≤ u) (hu1 : u ≤ 1) :
    ∃ t l : ℝ, 0 ≤ t ∧ t ≤ 1 ∧ fx t = l * Real.cos (a1 + u * d) ∧ fy t = l * Real.sin (a1 + u * d)
      ∧ lo ≤ l ∧ l ≤ hi := by
  have hpi := Real.pi_pos
  obtain ⟨dl, du⟩ := abs_le.mp hd
  by_cases htriv : u * d = 0
  · -- the start ray itself
    refine ⟨0, 1, le_refl _, zero_le_one, ?_, ?_, hlo1, hhi⟩
    · rw [htriv, add_zero, one_mul]; exact h0.1
    · rw [htriv, add_zero, one_mul]; exact h0.2
  have hune : u ≠ 0 := fun h => htriv (by rw [h, zero_mul])
  have hdne : d ≠ 0 := fun h => htriv (by rw [h, mul_zero])
  have hupos : 0 < u := lt_of_le_of_ne hu0 (Ne.symm hune)
  have hσ2 : σ * σ = 1 := by rcases hσ with h | h <;> rw [h] <;> norm_num
  have hσdpos : 0 < σ * d := by
    rcases lt_or_eq_of_le hσd with h | h
    · exact h
    · exfalso
      rcases hσ with h' | h' <;> rw [h'] at h <;> apply hdne <;> linarith
  have habsd : |d| = σ * d := by
    rcases hσ with h | h
    · rw [h] at hσdpos ⊢; rw [abs_of_pos (by linarith)]; ring
    · rw [h] at hσdpos ⊢; rw [abs_of_neg (by linarith)]; ring
  obtain ⟨θ, hθ⟩ : ∃ θ : ℝ, θ = a1 + u * d := ⟨_, rfl⟩
  rw [← hθ]
  have hcs : Real.cos θ * Real.cos θ + Real.sin θ * Real.sin θ = 1 := by
    have := Real.cos_sq_add_sin_sq θ
    nlinarith
  have hsub1 : Real.cos θ * Real.sin a1 - Real.sin θ * Real.cos a1 = -Real.sin (u * d) := by
    have := Real.sin_sub θ a1
    rw [show θ - a1 = u * d by rw [hθ]; ring] at this
    rw [this]; ring
  have hsub2 : Real.cos θ * Real.sin (a1 + d) - Real.sin θ * Real.cos (a1 + d) = Real.sin ((1 - u) * d) := by
    have := Real.sin_sub (a1 + d) θ
    rw [show a1 + d - θ = (1 - u) * d by rw [hθ]; ring] at this
    rw [this]; ring
  generalize Real.cos θ = cθ at hcs hsub1 hsub2 ⊢
  generalize Real.sin θ = sθ at hcs hsub1 hsub2 ⊢
  -- g(t) = σ · (e × f(t))
  let g : ℝ → ℝ := fun t => σ * (cθ * fy t - sθ * fx t)
  have hg : ContinuousOn g (Set.Icc 0 1) := by
    apply Continuous.continuousOn
    show Continuous fun t => σ * (cθ * fy t - sθ * fx t)
    fun_prop
  have hud : |u * d| ≤ Real.pi / 2 := by
    rw [abs_mul, abs_of_nonneg hu0]; nlinarith [abs_nonneg d]
  have hvd : |(1 - u) * d| ≤ Real.pi / 2 := by
    rw [abs_mul, abs_of_nonneg (by linarith : 0 ≤ 1 - u)]; nlinarith [abs_nonneg d]
  have hs1 : 0 < σ * Real.sin (u * d) :=
    sign_mul_sin_pos σ (u * d) hσ (by have := mul_pos hupos hσdpos; nlinarith) (by linarith)
  have hs2 : 0 ≤ σ * Real.sin ((1 - u) * d) :=
    sign_mul_sin_nonneg σ ((1 - u) * d) hσ
      (by have := mul_nonneg (by linarith : 0 ≤ 1 - u) hσd; nlinarith) (by linarith)
  have hg0 : g 0 ≤ 0 := by
    show σ * (cθ * fy 0 - sθ * fx 0) ≤ 0
    rw [h0.1, h0.2, hsub1]; linarith
  have hg1 : 0 ≤ g 1 := by
    show 0 ≤ σ * (cθ * fy 1 - sθ * fx 1)
    rw [h1.1, h1.2, hsub2]; exact hs2
  obtain ⟨t0, ⟨ht0, ht1⟩, hgt⟩ := intermediate_value_Icc zero_le_one hg ⟨hg0, hg1⟩
  have hcross : cθ * fy t0 - sθ * fx t0 = 0 := by
    have : σ * (cθ * fy t0 - sθ * fx t0) = 0 := hgt
    rcases mul_eq_zero.mp this with h | h
    · exfalso; rcases hσ with h' | h' <;> rw [h'] at h <;> norm_num at h
    · exact h
  -- f(t0) = l·e with l = e · f(t0)
  obtain ⟨l, hl⟩ : ∃ l : ℝ, l = cθ * fx t0 + sθ * fy t0 := ⟨_, rfl⟩
  have hfx0 : fx t0 = l * cθ := by
    rw [hl]; linear_combination (-(fx t0)) * hcs + (-sθ) * hcross
  have hfy0 : fy t0 = l * sθ := by
    rw [hl]; linear_combination (-(fy t0)) * hcs + cθ * hcross
  obtain ⟨r1, r2⟩ := hrad t0 ht0 ht1
  have hl2 : fx t0 * fx t0 + fy t0 * fy t0 = l * l := by
    rw [hfx0, hfy0]; linear_combination (l * l) * hcs
  rw [hl2] at r1 r2
  -- l ≥ 0 from the sector condition at the start ray
  have hsec0 := (hsec t0 ht0 ht1).1
  rw [h0.1, h0.2, hfx0, hfy0] at hsec0
  have e0 : Real.cos a1 * (l * sθ) - Real.sin a1 * (l * cθ) = l * Real.sin (u * d) := by
    linear_combination (-l) * hsub1
  rw [e0] at hsec0
  have hl0 : 0 ≤ l := by
    by_contra hneg
    rw [not_le] at hneg
    have : σ * (l * Real.sin (u * d)) = l * (σ * Real.sin (u * d)) := by ring
    rw [this] at hsec0
    have hn := mul_neg_of_neg_of_pos hneg hs1
    linarith
  refine ⟨t0, l, ht0, ht1, hfx0, hfy0, ?_, ?_⟩
  · by_contra hlt
    rw [not_le] at hlt
    have : l * l < lo * lo := mul_self_lt_mul_self hl0 hlt
    have e := sq lo
    linarith
  · by_contra hlt
    rw [not_le] at hlt
    have : hi * hi < l * l := mul_self_lt_mul_self (by linarith) hlt
    have e := sq hi
    linarith

end Lyon.C13
