/-
  C08, stroke tessellator: the length-driven model of `interpolated_attributes`
  (`Model/Tess/StrokeAttrBuffer.lean`, `BufCache.readB` / `attrsSeqB`) on a buffer and a store of the
  same attribute count is the tied model of `Model/Tess/StrokeAttrs.lean` (`AttrCache.read` /
  `attrsSeq`), which reads every vertex's own source.
-/
import LyonVerif.Model.Tess.ResetStrokeAttrs

set_option linter.unusedSectionVars false
set_option linter.unusedVariables false
set_option linter.unusedSimpArgs false

namespace Lyon.C08
open Lyon Lyon.Stroke Lyon.Stroke.Full

variable {α : Type} [Scalar α]

/-- the cache of `StrokeAttrs.lean` (tied by `fulle:32`) seen as a `BufCache` -/
def toBuf (c : AttrCache α) : BufCache α := ⟨c.valid, c.buf⟩

theorem readB_sized (c : AttrCache α) (store : Nat → List α) (n : Nat) (hs : ∀ id, (store id).length = n)
    (hc : c.buf.length = n) (s : Stroke.Src α) :
    (toBuf c).readB store true s = (some (c.read store true s).1, toBuf (c.read store true s).2) ∧
    (c.read store true s).2.buf.length = n := by
  unfold BufCache.readB AttrCache.read toBuf
  cases s with
  | endpoint id => simp [hc]
  | edge f t u =>
    have hl : (lerpAttributes (store f) (store t) u).length = n := by
      simp [lerpAttributes, hs]
    have ht : (lerpAttributes (store f) (store t) u).take n = lerpAttributes (store f) (store t) u :=
      List.take_of_length_le (by omega)
    simp [hc, hs, ht, hl]

theorem attrsSeqB_sized (store : Nat → List α) (n : Nat) (hs : ∀ id, (store id).length = n) :
    ∀ (verts : List (VData α)) (c : AttrCache α), c.buf.length = n →
      (attrsSeqB store (verts.map (·.src)) (toBuf c)).1 = some (attrsSeq store verts c) := by
  intro verts
  induction verts with
  | nil => intro c _; rfl
  | cons d ds ih =>
    intro c hc
    obtain ⟨h1, h2⟩ := readB_sized c store n hs hc d.src
    simp only [List.map_cons, attrsSeqB, attrsSeq, h1, ih _ h2, Option.map_some]

/-- (`C05c.stroke_attributes_consistent`, reproved here to keep the import small) every site resets
the cache, so every vertex reads the attributes of its own source -/
theorem attrsSeq_eq_map (store : Nat → List α) :
    ∀ (verts : List (VData α)) (c : AttrCache α),
      attrsSeq store verts c = verts.map (fun d => interpolatedAttributes store d.src) := by
  intro verts
  induction verts with
  | nil => intro c; rfl
  | cons v vs ih =>
    intro c
    simp only [attrsSeq, List.map_cons, ih]
    congr 1
    unfold AttrCache.read
    cases v.src <;> simp [interpolatedAttributes]

end Lyon.C08
