/-
  The advancement bookkeeping of the complete stroker model on an open fixed-width polyline without
  merged points (ALL joins and caps: the arc fans of round joins / caps inherit `self.vertex`): every vertex emitted for the `k`-th endpoint carries the
  source `Endpoint(id k)`, the position of that endpoint as `position_on_path`, and as advancement
  the left fold `a_0 = 0, a_k = a_{k-1} + |p_k - p_{k-1}|` of the edge lengths (`advTable`).

  Everything here is structural and holds for every scalar type (the additions are the model's own,
  in the model's order: the statement is bit-exact for floats), given only `is_nan(NaN) = true`.
  `Emits Q o o'`: `o'` extends the vertex list of `o` by vertices that all satisfy `Q`.
-/
import LyonVerif.Lemmas.StrokeIdxCount

set_option linter.unusedSectionVars false
set_option linter.unusedVariables false

namespace Lyon.C05c
open Lyon Scalar Lyon.Stroke Lyon.Stroke.Full Lyon.C05 Lyon.C05b

section
variable {α : Type} [Scalar α] [Transc α]

/-- `o'` extends the vertex list of `o` by vertices satisfying `Q` -/
def Emits (Q : VData α → Prop) (o o' : Out α) : Prop :=
  ∃ vs : List (VData α), o'.verts = o.verts ++ vs ∧ ∀ v ∈ vs, Q v

theorem Emits.refl (Q : VData α → Prop) (o : Out α) : Emits Q o o := ⟨[], by simp, by simp⟩

theorem Emits.of_verts_eq {Q : VData α → Prop} {o o' : Out α} (h : o'.verts = o.verts) : Emits Q o o' :=
  ⟨[], by simp [h], by simp⟩

theorem Emits.trans {Q : VData α → Prop} {a b c : Out α} (h1 : Emits Q a b) (h2 : Emits Q b c) : Emits Q a c := by
  obtain ⟨v1, e1, q1⟩ := h1
  obtain ⟨v2, e2, q2⟩ := h2
  refine ⟨v1 ++ v2, by rw [e2, e1, List.append_assoc], ?_⟩
  intro v hv
  rcases List.mem_append.mp hv with h | h
  · exact q1 v h
  · exact q2 v h

theorem Emits.mono {Q Q' : VData α → Prop} (hQ : ∀ v, Q v → Q' v) {a b : Out α} (h : Emits Q a b) : Emits Q' a b := by
  obtain ⟨vs, e, q⟩ := h
  exact ⟨vs, e, fun v hv => hQ v (q v hv)⟩

/-- what the vertices of one emission site share -/
def SiteOK (src : Src α) (pop : P α) (adv : α) (v : VData α) : Prop :=
  v.src = src ∧ v.positionOnPath = pop ∧ v.advancement = adv

theorem baseVertices_emits (j : EP α) (d : VData α) (o : Out α) :
    Emits (SiteOK d.src d.positionOnPath d.advancement) o (baseVertices j d o).2
      ∧ (baseVertices j d o).1.advancement = j.advancement ∧ (baseVertices j d o).1.src = j.src := by
  rcases j with ⟨p, hw, adv, lj, src, ⟨pp, pn, ps, pi, pj⟩, ⟨np, nn, ns, ni, nj⟩, fp, fn, fl⟩
  cases ps <;> cases ns <;>
    (refine ⟨⟨_, by simp [baseVertices, EP.withSides, EP.toJoin, addJoinBaseVertices, baseVerticesSide, Out.addVertex]; rfl, ?_⟩, rfl, rfl⟩
     intro v hv
     simp at hv
     rcases hv with rfl | rfl | rfl | rfl <;> exact ⟨rfl, rfl, rfl⟩)

theorem Emits.vert {Q : VData α → Prop} {a b : Out α} (h : Emits Q a b) {v : VData α} (hv : Q v) :
    Emits Q a (b.addVertex v) := by
  obtain ⟨vs, e, q⟩ := h
  refine ⟨vs ++ [v], by simp [Out.addVertex, e], ?_⟩
  intro x hx
  rcases List.mem_append.mp hx with h | h
  · exact q x h
  · simp at h; subst h; exact hv

theorem Emits.tris {Q : VData α → Prop} {a b : Out α} (h : Emits Q a b) (t : List Stroke.Tri) :
    Emits Q a (b.addTris t) := by
  obtain ⟨vs, e, q⟩ := h
  exact ⟨vs, by simp [Out.addTris, e], q⟩

theorem Emits.tri {Q : VData α → Prop} {a b : Out α} (h : Emits Q a b) (t : Stroke.Tri) :
    Emits Q a (b.addTri t) := by
  obtain ⟨vs, e, q⟩ := h
  exact ⟨vs, by simp [Out.addTri, e], q⟩

/-- `tessellate_arc`: the fan vertices inherit source, position on path and advancement -/
theorem arc_emits (n : Nat) : ∀ (a0 a1 : α) (va vb : Nat) (d : VData α) (o : Out α),
    Emits (SiteOK d.src d.positionOnPath d.advancement) o (tessellateArc a0 a1 va vb n d o) := by
  induction n with
  | zero => intro a0 a1 va vb d o; exact Emits.refl _ _
  | succ n ih =>
    intro a0 a1 va vb d o
    have s1 : Emits (SiteOK d.src d.positionOnPath d.advancement) o
        ((o.addVertex { d with normal := ⟨Transc.cos ((a0 + a1) * half), Transc.sin ((a0 + a1) * half)⟩ }).addTri
          (va, o.nextId, vb)) := ((Emits.refl _ _).vert ⟨rfl, rfl, rfl⟩).tri _
    exact (s1.trans (ih a0 ((a0 + a1) * half) va o.nextId
      { d with normal := ⟨Transc.cos ((a0 + a1) * half), Transc.sin ((a0 + a1) * half)⟩ } _)).trans
      (ih ((a0 + a1) * half) a1 o.nextId vb
        { d with normal := ⟨Transc.cos ((a0 + a1) * half), Transc.sin ((a0 + a1) * half)⟩ } _)

theorem arc_emits_eq (n : Nat) (a0 a1 : α) (va vb : Nat) (d : VData α) (o : Out α)
    {s : Src α} {p : P α} {a : α} (hs : d.src = s) (hp : d.positionOnPath = p) (ha : d.advancement = a) :
    Emits (SiteOK s p a) o (tessellateArc a0 a1 va vb n d o) := by
  subst hs hp ha; exact arc_emits n a0 a1 va vb d o

/-- `tessellate_round_cap`: its vertices sit on `center` and inherit source and advancement -/
theorem roundCap_emits (center : P α) (radius : α) (startNormal : P α) (sv ev : Nat)
    (edgeNormal : P α) (tolerance : α) (isStart : Bool) (d : VData α) (o : Out α)
    {s : Src α} {a : α} (hs : d.src = s) (ha : d.advancement = a) :
    Emits (SiteOK s center a) o
      (tessellateRoundCap center radius startNormal sv ev edgeNormal tolerance isStart d o) := by
  subst hs ha
  unfold tessellateRoundCap
  split_ifs
  · exact Emits.refl _ _
  · unfold roundCapBody
    simp only []
    have s0 : Emits (SiteOK d.src center d.advancement) o
        ((o.addVertex (⟨center, radius, normalize edgeNormal, d.advancement,
            capFirstSide isStart edgeNormal startNormal, d.src⟩ : VData α)).addTri (sv, o.nextId, ev)) :=
      ((Emits.refl _ _).vert ⟨rfl, rfl, rfl⟩).tri _
    exact (s0.trans (arc_emits _ _ _ _ _ (⟨center, radius, normalize edgeNormal, d.advancement,
        capFirstSide isStart edgeNormal startNormal, d.src⟩ : VData α) _)).trans
      (arc_emits _ _ _ _ _ (⟨center, radius, normalize edgeNormal, d.advancement,
        (capFirstSide isStart edgeNormal startNormal).opposite, d.src⟩ : VData α) _)

/-- `if count > 2 { add_edge_triangles }  tessellate_join(join)`: round joins included -/
theorem edgeAndJoin_emits (tol : α) (count : Nat) (prev j : EP α) (d : VData α) (o : Out α) :
    Emits (SiteOK d.src d.positionOnPath d.advancement) o (edgeAndJoin tol count prev j d o) := by
  unfold edgeAndJoin tessellateJoin
  have s1 : Emits (SiteOK d.src d.positionOnPath d.advancement) o
      (if count > 2 then o.addTris (addEdgeTriangles prev.ids j.ids) else o) := by
    split_ifs
    · exact (Emits.refl _ _).tris _
    · exact Emits.refl _ _
  have hr : ∀ (c isNeg : Bool) (o' : Out α),
      Emits (SiteOK d.src d.positionOnPath d.advancement) o' (roundJoinIf c j.toJoin isNeg tol d o') := by
    intro c isNeg o'
    unfold roundJoinIf
    split_ifs
    · unfold tessellateRoundJoin
      simp only []
      split_ifs <;> exact arc_emits_eq _ _ _ _ _ _ _ rfl rfl rfl
    · exact Emits.refl _ _
  exact ((s1.tris _).trans (hr _ _ _)).trans (hr _ _ _)

theorem lastEdge_emits (e : Env α) (p0 p1 : EP α) (isFirst : Bool) (o : Out α) :
    Emits (SiteOK p1.src p1.position (p0.advancement + len (p1.position - p0.position))) o (lastEdge e p0 p1 isFirst o).2 := by
  unfold lastEdge
  simp only []
  split_ifs <;>
    first
    | exact ((Emits.refl _ _).vert ⟨rfl, rfl, rfl⟩).vert ⟨rfl, rfl, rfl⟩
    | exact (((Emits.refl _ _).vert ⟨rfl, rfl, rfl⟩).vert ⟨rfl, rfl, rfl⟩).tris _
    | exact (((Emits.refl _ _).vert ⟨rfl, rfl, rfl⟩).vert ⟨rfl, rfl, rfl⟩).trans
        (roundCap_emits _ _ _ _ _ _ _ _ _ _ rfl rfl)

theorem firstEdge_emits (e : Env α) (f s : EP α) (o : Out α) :
    Emits (SiteOK f.src f.position f.advancement) o (firstEdge e f s o) := by
  unfold firstEdge
  simp only []
  split_ifs <;>
    first
    | exact (((Emits.refl _ _).vert ⟨rfl, rfl, rfl⟩).vert ⟨rfl, rfl, rfl⟩).tris _
    | exact ((((Emits.refl _ _).vert ⟨rfl, rfl, rfl⟩).vert ⟨rfl, rfl, rfl⟩).tris _).trans
        (roundCap_emits _ _ _ _ _ _ _ _ _ _ rfl rfl)

/-- the advancement `compute_join_side_positions_fixed_width` leaves in the join -/
theorem joinSidesFw_adv (ix : Lyon.StrokeQuad.Ix α) (prev join next : EP α) (ml vhw : α) :
    (joinSidesFw ix prev join next ml vhw).advancement
      = (if Transc.isNaN join.advancement then prev.advancement + len (join.position - prev.position)
         else join.advancement)
    ∧ (joinSidesFw ix prev join next ml vhw).src = join.src := by
  unfold joinSidesFw
  simp only []
  split_ifs <;> exact ⟨rfl, rfl⟩

/-- the advancement of `b` once it is the middle point of a join after `a` -/
def joinAdv (a b : EP α) : α :=
  if Transc.isNaN b.advancement then a.advancement + len (b.position - a.position) else b.advancement

/-- a fixed-width join of a fresh endpoint: what it emits -/
theorem fwJoin_advs {e : Env α} (st : St α) (prev join next : EP α) (hf : Fresh e join) :
    ∃ j2 o', fwJoin e st prev join next = (commitSt st prev j2 o', next)
      ∧ j2.position = join.position ∧ j2.src = join.src ∧ j2.advancement = joinAdv prev join
      ∧ Emits (SiteOK join.src join.position (joinAdv prev join)) st.out o' := by
  obtain ⟨_, s2, s3⟩ := joinSidesFw_singles e.ix prev join next e.o.miterLimit join.halfWidth hf.ps hf.ns
  obtain ⟨a1, a2⟩ := joinSidesFw_adv e.ix prev join next e.o.miterLimit join.halfWidth
  generalize hj1 : joinSidesFw e.ix prev join next e.o.miterLimit join.halfWidth = j1 at s2 s3 a1 a2
  have hdd : ∃ dd : VData α, dd = { baseVertex join.src join.position join.halfWidth nan with
      advancement := j1.advancement } := ⟨_, rfl⟩
  obtain ⟨dd, edd⟩ := hdd
  obtain ⟨_, b2, b3⟩ := baseVertices_verts j1 dd st.out
  obtain ⟨c1, c2, c3⟩ := baseVertices_emits j1 dd st.out
  refine ⟨(baseVertices j1 dd st.out).1,
    edgeAndJoin e.o.tolerance st.buf.count prev (baseVertices j1 dd st.out).1 dd (baseVertices j1 dd st.out).2,
    ?_, by rw [b2, s2], by rw [c3, a2], by rw [c2, a1]; rfl, ?_⟩
  · unfold fwJoin; simp only []; rw [if_neg (by rw [fastPath_fresh hf]; simp)]
    show _ = _
    simp only [show (baseVertex join.src join.position join.halfWidth nan : VData α).halfWidth = join.halfWidth from rfl, hj1]
    rw [edd]; rfl
  · have : SiteOK dd.src dd.positionOnPath dd.advancement = SiteOK join.src join.position (joinAdv prev join) := by
      rw [edd]; show SiteOK join.src join.position j1.advancement = _; rw [a1]; rfl
    rw [← this]
    exact c1.trans (edgeAndJoin_emits _ _ _ _ dd _)

theorem fwStep_join_advs {e : Env α} {st : St α} (hwf : WF st.buf) {a b : EP α}
    (hab : st.buf.lastTwo = some (a, b)) (hb : Fresh e b) (next : EP α)
    (hfar : pointsAreTooClose e.thr b.position next.position = false) :
    ∃ b', (fwStep e st next).1.buf.lastTwo = some (b', next) ∧ WF (fwStep e st next).1.buf
      ∧ b'.position = b.position ∧ b'.src = b.src ∧ b'.advancement = joinAdv a b
      ∧ Emits (SiteOK b.src b.position (joinAdv a b)) st.out (fwStep e st next).1.out
      ∧ (fwStep e st next).1.buf.count = 3
      ∧ (fwStep e st next).1.firsts = (if st.buf.count == 2 then [a, b'] else st.firsts) := by
  have hlast := hwf.lastTwo_last _ _ hab
  have hclose : st.tooClose e.thr next.position = false := by rw [tooClose_eq hlast]; exact hfar
  obtain ⟨j2, o', ej, hp, hs, ha, hv⟩ := fwJoin_advs st a b next hb
  rw [fwStep_eq_join hclose hab, ej]
  have hc2 := WF.lastTwo_count _ _ hab
  have hle := hwf.count_le
  obtain ⟨b1, hb1, hwf1, hc1, hl1, _⟩ := hwf.replaceLast (by omega) j2
  obtain ⟨b2, hb2, hwf2, hc2', _, hlt2⟩ := hwf1.push next
  have e2 : (commitSt st a j2 o').push next
      = { st with buf := b2, out := o', firsts := if st.buf.count == 2 then [a, j2] else st.firsts } := by
    simp [commitSt, St.push, St.setLast, hb1, hb2]
  simp only [e2]
  exact ⟨j2, hlt2 _ hl1, hwf2, hp, hs, ha, hv, by rw [hc2', hc1]; omega, rfl⟩

/-! ## the table of advancements -/

/-- `(endpoint id, position, advancement)` along a polyline: the advancement of a point is the
advancement of the point before it plus the length of the edge between them, starting at `a` -/
def advTable (a : α) : List (Nat × P α) → List (Nat × P α × α)
  | [] => []
  | [q] => [(q.1, q.2, a)]
  | q :: q' :: r => (q.1, q.2, a) :: advTable (a + len (q'.2 - q.2)) (q' :: r)

/-- a vertex agrees with an entry of the table -/
def AdvOK (tbl : List (Nat × P α × α)) (v : VData α) : Prop :=
  ∃ t ∈ tbl, v.src = .endpoint t.1 ∧ v.positionOnPath = t.2.1 ∧ v.advancement = t.2.2

theorem advTable_head (a : α) (q : Nat × P α) (r : List (Nat × P α)) :
    (q.1, q.2, a) ∈ advTable a (q :: r) := by
  cases r <;> simp [advTable]

theorem advTable_tail (a : α) (q q' : Nat × P α) (r : List (Nat × P α)) :
    ∀ t ∈ advTable (a + len (q'.2 - q.2)) (q' :: r), t ∈ advTable a (q :: q' :: r) := by
  intro t ht; simp only [advTable, List.mem_cons]; exact Or.inr ht

theorem advTable_getLast (a : α) (q q' : Nat × P α) (r : List (Nat × P α)) :
    (advTable a (q :: q' :: r)).getLast? = (advTable (a + len (q'.2 - q.2)) (q' :: r)).getLast? := by
  cases r with
  | nil => simp [advTable]
  | cons x xs => simp [advTable]

theorem joinAdv_eq (hnan : Transc.isNaN (nan : α) = true) {a b : EP α}
    (h : b.advancement = nan ∨ b.advancement = a.advancement + len (b.position - a.position)) :
    joinAdv a b = a.advancement + len (b.position - a.position) := by
  unfold joinAdv
  rcases h with h | h
  · rw [h, hnan]; rfl
  · split_ifs
    · rfl
    · exact h

/-- the `line_to` loop: every join emits vertices that agree with the table; at the end the last two
entries of the window are the last two points, the newest one waiting for its advancement -/
theorem feedFw_advs {e : Env α} (hnan : Transc.isNaN (nan : α) = true)
    (f0 : EP α) (rest : List (Nat × P α)) :
    ∀ (st : St α) (a b : EP α) (ib : Nat), WF st.buf → st.buf.lastTwo = some (a, b) → Fresh e b →
      b.src = .endpoint ib →
      (b.advancement = nan ∨ b.advancement = a.advancement + len (b.position - a.position)) →
      NoMerge e.thr (b.position :: rest.map (·.2)) →
      ((st.buf.count = 2 ∧ a = f0) ∨ (st.buf.count = 3 ∧ st.firsts.head? = some f0)) →
      ∃ a' b' il, (rest.foldl (fun s q => (fwStep e s (linePt e q)).1) st).buf.lastTwo = some (a', b')
        ∧ Emits (AdvOK (advTable (a.advancement + len (b.position - a.position)) ((ib, b.position) :: rest)))
            st.out (rest.foldl (fun s q => (fwStep e s (linePt e q)).1) st).out
        ∧ b'.src = .endpoint il
        ∧ (il, b'.position, a'.advancement + len (b'.position - a'.position))
            ∈ advTable (a.advancement + len (b.position - a.position)) ((ib, b.position) :: rest)
        ∧ (advTable (a.advancement + len (b.position - a.position)) ((ib, b.position) :: rest)).getLast?
            = some (il, b'.position, a'.advancement + len (b'.position - a'.position))
        ∧ (((rest.foldl (fun s q => (fwStep e s (linePt e q)).1) st).buf.count = 2 ∧ a' = f0)
          ∨ ((rest.foldl (fun s q => (fwStep e s (linePt e q)).1) st).buf.count = 3
              ∧ (rest.foldl (fun s q => (fwStep e s (linePt e q)).1) st).firsts.head? = some f0))
        ∧ WF (rest.foldl (fun s q => (fwStep e s (linePt e q)).1) st).buf := by
  induction rest with
  | nil =>
    intro st a b ib hwf hab _ hsrc _ _ hfirst
    exact ⟨a, b, ib, hab, Emits.refl _ _, hsrc, by simp [advTable], by simp [advTable], hfirst, hwf⟩
  | cons q rest ih =>
    intro st a b ib hwf hab hb hsrc hadv hm hfirst
    obtain ⟨hfar, hm'⟩ := hm
    obtain ⟨b1, h1, h2, h3, h4, h5, h6, h7, h8⟩ := fwStep_join_advs hwf hab hb (linePt e q) hfar
    have hA := joinAdv_eq hnan hadv
    rw [hA] at h5 h6
    have hfirst' : ((fwStep e st (linePt e q)).1.buf.count = 2 ∧ b1 = f0)
        ∨ ((fwStep e st (linePt e q)).1.buf.count = 3 ∧ (fwStep e st (linePt e q)).1.firsts.head? = some f0) := by
      right
      refine ⟨h7, ?_⟩
      rw [h8]
      rcases hfirst with ⟨hc, rfl⟩ | ⟨hc, hf⟩
      · simp [hc]
      · have : (st.buf.count == 2) = false := by simp [hc]
        rw [this]; exact hf
    obtain ⟨a'', b'', il, g1, g2, g3, g4, g4l, g5, g6⟩ := ih _ b1 (linePt e q) q.1 h2 h1 (fresh_mk' e _ _ _) rfl (Or.inl rfl)
      hm' hfirst'
    have hpos : (linePt e q).position = q.2 := rfl
    rw [h5, h3, hpos] at g2 g4 g4l
    refine ⟨a'', b'', il, g1, ?_, g3, advTable_tail _ (ib, b.position) q rest _ g4,
      by rw [advTable_getLast _ (ib, b.position) q rest]; exact g4l, g5, g6⟩
    rw [List.foldl_cons]
    refine Emits.trans (Emits.mono ?_ h6) (Emits.mono ?_ g2)
    · rintro v ⟨v1, v2, v3⟩
      exact ⟨_, advTable_head _ (ib, b.position) (q :: rest), by rw [v1, hsrc], v2, v3⟩
    · rintro v ⟨t, ht, hv⟩
      exact ⟨t, advTable_tail _ (ib, b.position) q rest t ht, hv⟩

end

/-! ## the event loop on `begin, line_to*, end(false)` -/

section Loop
variable {α : Type} [Scalar α] [Transc α] [Asin α] [FlatConst α]

/-- the first point as `begin` creates it at the start of a tessellation (advancement 0) and the
second point, after `fixed_width_step_impl` saw the second point -/
def firstPt (e : Env α) (i0 i1 : Nat) (p0 p1 : P α) : EP α :=
  (firstEdgeSetup (EP.mk' p0 e.hwFw zero e.o.join (.endpoint i0) false) (linePt e (i1, p1))).1
def secondPt (e : Env α) (i0 i1 : Nat) (p0 p1 : P α) : EP α :=
  (firstEdgeSetup (EP.mk' p0 e.hwFw zero e.o.join (.endpoint i0) false) (linePt e (i1, p1))).2

/-- `run_two_points` with the two window entries made explicit -/
theorem run_two_points_x (e : Env α) (store : Nat → List α) (hfw : e.o.varWidth = false)
    (i0 i1 : Nat) (p0 p1 : P α) (hfar : pointsAreTooClose e.thr p0 p1 = false) :
    ∃ st2 : St α,
      [IdEv.begin i0 p0, IdEv.line i1 p1].foldl (fun r ev => if r.panicked then r else runEvent e store r ev)
          (⟨St.new, unset, nanP, false⟩ : Run α) = ⟨st2, i1, p1, false⟩
      ∧ WF st2.buf ∧ st2.buf.lastTwo = some (firstPt e i0 i1 p0 p1, secondPt e i0 i1 p0 p1)
      ∧ st2.buf.count = 2 ∧ st2.out = Out.empty 0 := by
  simp only [List.foldl_cons, List.foldl_nil]
  have hb : (if (⟨St.new, unset, nanP, false⟩ : Run α).panicked = true then (⟨St.new, unset, nanP, false⟩ : Run α)
        else runEvent e store ⟨St.new, unset, nanP, false⟩ (IdEv.begin i0 p0))
      = ⟨(St.new : St α).push (EP.mk' p0 e.hwFw zero e.o.join (.endpoint i0) false), i0, p0, false⟩ := by
    rw [if_neg (by simp)]
    show ({ (⟨St.new, unset, nanP, false⟩ : Run α) with
      st := (e.step { (St.new : St α) with mayNeedEmptyCap := false } _).1, curId := i0, curPos := p0 } : Run α) = _
    rw [step_fixed hfw, hwOf_fw hfw]
    have : fwStep e ({ (St.new : St α) with mayNeedEmptyCap := false })
        (EP.mk' p0 e.hwFw (St.new : St α).subPathStartAdvancement e.o.join (Src.endpoint i0) false)
        = ((St.new : St α).push (EP.mk' p0 e.hwFw zero e.o.join (.endpoint i0) false), true) :=
      fwStep_eq_zero (by simp [St.tooClose, St.new, PointBuffer.new, PointBuffer.last])
        (by simp [St.new, PointBuffer.new, PointBuffer.lastTwo]) (by simp [St.new, PointBuffer.new, PointBuffer.last])
    rw [this]
  rw [hb]
  obtain ⟨bb, hbb, hwfb, hcb, hlb, _⟩ := (WF.new (EP.default : EP α)).push (EP.mk' p0 e.hwFw zero e.o.join (.endpoint i0) false)
  have est1 : (St.new : St α).push (EP.mk' p0 e.hwFw zero e.o.join (.endpoint i0) false)
      = { (St.new : St α) with buf := bb } := by
    simp only [St.push, St.new] at hbb ⊢
    rw [hbb]; rfl
  rw [est1]
  have hcb1 : bb.count = 1 := by rw [hcb]; rfl
  have hclose1 : ({ (St.new : St α) with buf := bb } : St α).tooClose e.thr (linePt e (i1, p1)).position = false := by
    rw [tooClose_eq (st := ({ (St.new : St α) with buf := bb } : St α)) hlb]; exact hfar
  have hl1 : (if (⟨{ (St.new : St α) with buf := bb }, i0, p0, false⟩ : Run α).panicked = true
        then (⟨{ (St.new : St α) with buf := bb }, i0, p0, false⟩ : Run α)
        else runEvent e store ⟨{ (St.new : St α) with buf := bb }, i0, p0, false⟩ (IdEv.line i1 p1))
      = ⟨(fwStep e { (St.new : St α) with buf := bb } (linePt e (i1, p1))).1, i1, p1, false⟩ := by
    rw [if_neg (by simp)]
    show ({ (⟨{ (St.new : St α) with buf := bb }, i0, p0, false⟩ : Run α) with
      st := (e.step _ _).1, curId := i1, curPos := p1 } : Run α) = _
    rw [step_fixed hfw, hwOf_fw hfw]; rfl
  rw [hl1]
  rw [fwStep_eq_first hclose1 (lastTwo_none (by show bb.count < 2; omega)) hlb]
  obtain ⟨b1, hb1, hwf1, hc1, hl1', _⟩ := hwfb.replaceLast (by omega) (firstPt e i0 i1 p0 p1)
  obtain ⟨b2, hb2, hwf2, hc2, _, hlt2⟩ := hwf1.push (secondPt e i0 i1 p0 p1)
  have est2 : (({ (St.new : St α) with buf := bb } : St α).setLast
        (firstEdgeSetup (EP.mk' p0 e.hwFw zero e.o.join (.endpoint i0) false) (linePt e (i1, p1))).1).push
        (firstEdgeSetup (EP.mk' p0 e.hwFw zero e.o.join (.endpoint i0) false) (linePt e (i1, p1))).2
      = { (St.new : St α) with buf := b2 } := by
    show (({ (St.new : St α) with buf := bb } : St α).setLast (firstPt e i0 i1 p0 p1)).push (secondPt e i0 i1 p0 p1) = _
    simp [St.push, St.setLast, hb1, hb2]
  simp only [est2]
  exact ⟨_, rfl, hwf2, hlt2 _ hl1', by show b2.count = 2; rw [hc2, hc1, hcb1]; rfl, rfl⟩

/-- the run of a whole open sub-path at the start of a tessellation, split at the second point and at
`end` (as `run_open_subpath`, with the state after the second point made explicit) -/
theorem run_open_subpath_x (e : Env α) (store : Nat → List α) (hfw : e.o.varWidth = false)
    (i0 i1 : Nat) (p0 p1 : P α) (rest : List (Nat × P α)) (hfar : pointsAreTooClose e.thr p0 p1 = false) :
    ∃ st2 : St α, WF st2.buf ∧ st2.buf.lastTwo = some (firstPt e i0 i1 p0 p1, secondPt e i0 i1 p0 p1)
      ∧ st2.buf.count = 2 ∧ st2.out = Out.empty 0
      ∧ (runEvents e store (IdEv.begin i0 p0 :: IdEv.line i1 p1 :: (lineEvs rest ++ [IdEv.end_ false]))).st.out
        = (endWithCaps e { (rest.foldl (fun s q => (fwStep e s (linePt e q)).1) st2) with
            mayNeedEmptyCap := (rest.foldl (fun s q => (fwStep e s (linePt e q)).1) st2).mayNeedEmptyCap
              || (false && (rest.foldl (fun s q => (fwStep e s (linePt e q)).1) st2).buf.count == 1) }).out := by
  obtain ⟨st2, e2, hwf2, hab, hc2, hout⟩ := run_two_points_x e store hfw i0 i1 p0 p1 hfar
  refine ⟨st2, hwf2, hab, hc2, hout, ?_⟩
  unfold runEvents
  have hsplit : (IdEv.begin i0 p0 :: IdEv.line i1 p1 :: (lineEvs rest ++ [IdEv.end_ false]))
      = [IdEv.begin i0 p0, IdEv.line i1 p1] ++ (lineEvs rest ++ [IdEv.end_ false]) := rfl
  rw [hsplit, List.foldl_append, e2, List.foldl_append]
  obtain ⟨r1, r2⟩ := runLines hfw store rest ⟨st2, i1, p1, false⟩ rfl
  generalize (lineEvs rest).foldl (fun r ev => if r.panicked then r else runEvent e store r ev)
    ⟨st2, i1, p1, false⟩ = rr at r1 r2
  simp only [List.foldl_cons, List.foldl_nil]
  rw [if_neg (by simp [r2])]
  show (endSub e e.step rr.st false).out = _
  rw [← r1]
  unfold endSub; simp

/-- **advancement of a fixed-width polyline** (any scalar type).  Fixed line width, a sub-path
`begin p0, line_to p1, line_to …, end(false)` at the start of a tessellation, none of whose points is
merged (`NoMerge`), every join kind and cap, `is_nan(NaN) = true`:
every emitted vertex names an endpoint `k` of the input as its source, has that endpoint's position
as `position_on_path`, and its advancement is entry `k` of `advTable`: `0` for the first point,
`a_{k-1} + |p_k − p_{k-1}|` (`Vector::length`, the model's own additions in the model's order) for
the `k`-th — the sum of the lengths of the first `k` edges. -/
theorem polyline_advancement (e : Env α) (store : Nat → List α) (hfw : e.o.varWidth = false)
    (hnan : Transc.isNaN (nan : α) = true)
    (i0 i1 : Nat) (p0 p1 : P α) (rest : List (Nat × P α))
    (hm : NoMerge e.thr (p0 :: p1 :: rest.map (·.2))) :
    ∀ v ∈ (runEvents e store (IdEv.begin i0 p0 :: IdEv.line i1 p1 :: (lineEvs rest ++ [IdEv.end_ false]))).st.out.verts,
      AdvOK (advTable zero ((i0, p0) :: (i1, p1) :: rest)) v := by
  obtain ⟨hfar, hm'⟩ := hm
  obtain ⟨st2, hwf2, hab, hc2, hout, hrun⟩ := run_open_subpath_x e store hfw i0 i1 p0 p1 rest hfar
  rw [hrun]
  -- the two explicit window entries
  have hA : (firstPt e i0 i1 p0 p1).advancement = zero ∧ (firstPt e i0 i1 p0 p1).position = p0
      ∧ (firstPt e i0 i1 p0 p1).src = .endpoint i0 := ⟨rfl, rfl, rfl⟩
  have hBp : (secondPt e i0 i1 p0 p1).position = p1 := rfl
  have hBadv : (secondPt e i0 i1 p0 p1).advancement
      = (firstPt e i0 i1 p0 p1).advancement + len ((secondPt e i0 i1 p0 p1).position - (firstPt e i0 i1 p0 p1).position) := by
    show (if Transc.isNaN (nan : α) then zero + len (p1 - p0) else nan) = zero + len (p1 - p0)
    rw [hnan]; rfl
  have hBfresh : Fresh e (secondPt e i0 i1 p0 p1) := ⟨rfl, rfl, rfl, rfl, rfl⟩
  obtain ⟨a', b', il, g1, g2, g3, g4, _, g5, _⟩ := feedFw_advs hnan (firstPt e i0 i1 p0 p1) rest st2 _ _ i1 hwf2 hab hBfresh rfl
    (Or.inr hBadv) (by rw [hBp]; exact hm') (Or.inl ⟨hc2, rfl⟩)
  rw [hA.1, hA.2.1, hBp] at g2 g4
  set st' := rest.foldl (fun s q => (fwStep e s (linePt e q)).1) st2 with hst'
  have hcount2 : 2 ≤ st'.buf.count := WF.lastTwo_count _ _ g1
  have hcap : (({ st' with mayNeedEmptyCap := st'.mayNeedEmptyCap || (false && st'.buf.count == 1) } : St α).mayNeedEmptyCap
      && ({ st' with mayNeedEmptyCap := st'.mayNeedEmptyCap || (false && st'.buf.count == 1) } : St α).buf.count == 1) = false := by
    have : (st'.buf.count == 1) = false := by simp; omega
    show ((st'.mayNeedEmptyCap || (false && st'.buf.count == 1)) && st'.buf.count == 1) = false
    simp [this]
  rw [endWithCaps_eq_some hcap (show ({ st' with mayNeedEmptyCap := _ } : St α).buf.lastTwo = some (a', b') from g1)]
  -- everything emitted agrees with the table
  have hT : ∀ t ∈ advTable (zero + len (p1 - p0)) ((i1, p1) :: rest),
      t ∈ advTable (zero : α) ((i0, p0) :: (i1, p1) :: rest) := advTable_tail zero (i0, p0) (i1, p1) rest
  have hfirstF : (if st'.buf.count > 2 then st'.firsts.headD a' else a') = firstPt e i0 i1 p0 p1 := by
    rcases g5 with ⟨hc, rfl⟩ | ⟨hc, hf⟩
    · rw [if_neg (by omega)]
    · rw [if_pos (by omega)]
      cases hfs : st'.firsts with
      | nil => rw [hfs] at hf; simp at hf
      | cons x xs => rw [hfs] at hf; simp at hf; simp [hf]
  have hall : Emits (AdvOK (advTable (zero : α) ((i0, p0) :: (i1, p1) :: rest))) (Out.empty 0)
      (firstEdge e (if st'.buf.count > 2 then st'.firsts.headD a' else a')
        (if st'.buf.count > 2 then (st'.firsts.drop 1).headD
            (capsOut e { st' with mayNeedEmptyCap := st'.mayNeedEmptyCap || (false && st'.buf.count == 1) } a' b').1
          else (capsOut e { st' with mayNeedEmptyCap := st'.mayNeedEmptyCap || (false && st'.buf.count == 1) } a' b').1)
        (capsOut e { st' with mayNeedEmptyCap := st'.mayNeedEmptyCap || (false && st'.buf.count == 1) } a' b').2) := by
    rw [← hout]
    have s1 : Emits (AdvOK (advTable (zero : α) ((i0, p0) :: (i1, p1) :: rest))) st2.out st'.out :=
      Emits.mono (fun v ⟨t, ht, hv⟩ => ⟨t, hT t ht, hv⟩) g2
    have s2 : Emits (AdvOK (advTable (zero : α) ((i0, p0) :: (i1, p1) :: rest))) st'.out
        (capsOut e { st' with mayNeedEmptyCap := st'.mayNeedEmptyCap || (false && st'.buf.count == 1) } a' b').2 := by
      show Emits _ st'.out (lastEdge e a' (if e.o.varWidth then b' else lastSidesFw a' b') (st'.buf.count == 2) st'.out).2
      rw [hfw]
      refine Emits.mono ?_ (lastEdge_emits e a' (lastSidesFw a' b') (st'.buf.count == 2) st'.out)
      rintro v ⟨v1, v2, v3⟩
      exact ⟨_, hT _ g4, by rw [v1]; exact g3, v2, v3⟩
    refine s1.trans (s2.trans ?_)
    rw [hfirstF]
    refine Emits.mono ?_ (firstEdge_emits e _ _ _)
    rintro v ⟨v1, v2, v3⟩
    exact ⟨_, advTable_head zero (i0, p0) ((i1, p1) :: rest), v1, v2, v3⟩
  obtain ⟨vs, ev, qv⟩ := hall
  intro v hv
  have : v ∈ vs := by
    have h0 : (Out.empty 0 : Out α).verts = [] := rfl
    rw [h0, List.nil_append] at ev
    exact ev ▸ hv
  exact qv v this

end Loop

end Lyon.C05c
