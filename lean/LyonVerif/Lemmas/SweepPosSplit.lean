/-
  The split parameter `Sources.splitT` of `split_edge` (`process_edges_above`, `edges_to_split`) and of
  `merge_coincident_edges`, over a linearly ordered field: what the tests of the code (`is_edge_connecting`,
  the sweep order of the two pending ends) DO and DO NOT confine.

  * `splitT_x_overshoot` / `splitT_bound`: on the x-branch (edge flatter than 45 degrees) a point whose x is
    within `thr` beyond the larger x of the edge gets a parameter in `[-thr/|dx|, 1 + thr/|dx|]`, and nothing
    better holds (`Props/C07c.lean` has complete runs reaching `32/25` and `1250375/1249749`);
  * `isEdgeConnecting_split_facts`: what `is_edge_connecting` guarantees when it pushes an edge to
    `edges_to_split`: `min_x ≤ x ≤ max_x + threshold`, `y ≤ to.y`;
  * `splitEdge_parameter_bound`: the two combined, for an active edge that starts at or above the current
    vertex (`from.y ≤ y`: an active edge starts at an earlier event);
  * the REPAIR (lyon 96af7b62, mirrored in the model): `Sources.splitTAtVertex` (fall back to the y-parameter when the
    x-parameter leaves `[0,1]`) and the guard `endsWithin` of `handleCoincidentEdgesBelow` (`endsWithin_iff_model`):
    `splitTAtVertex_unit`, `splitTAtVertex_unit_flat`, `merge_guard_unit` - the parameters of the repaired code are in `[0,1]`.
-/
import LyonVerif.Props.C07b
import Mathlib.Tactic.Linarith
import Mathlib.Tactic.FieldSimp

set_option linter.unusedSectionVars false
set_option linter.unusedVariables false
set_option linter.unusedSimpArgs false

namespace Lyon.SweepPos
open Lyon Lyon.Scalar Lyon.Sweep

section field
variable {K : Type} [Field K] [LinearOrder K] [IsStrictOrderedRing K]

theorem solveTForX_eq (a b : P K) (x : K) (hd : b.x - a.x ≠ 0) :
    Sources.solveTForX a b x = (x - a.x) / (b.x - a.x) := by
  unfold Sources.solveTForX
  have hz : ¬ ((b.x - a.x == (Scalar.zero : K)) = true) := by
    rw [C07.zero_K]; intro hh; exact hd ((sc_beq _ _).mp hh)
  rw [if_neg hz]

theorem solveTForY_eq (a b : P K) (y : K) (hd : b.y - a.y ≠ 0) :
    Sources.solveTForY a b y = (y - a.y) / (b.y - a.y) := by
  unfold Sources.solveTForY
  have hz : ¬ ((b.y - a.y == (Scalar.zero : K)) = true) := by
    rw [C07.zero_K]; intro hh; exact hd ((sc_beq _ _).mp hh)
  rw [if_neg hz]

theorem splitT_x (a b c : P K) (h : |b.y - a.y| < |b.x - a.x|) :
    Sources.splitT a b c = (c.x - a.x) / (b.x - a.x) := by
  have hd : b.x - a.x ≠ 0 := by
    intro h0; rw [h0, abs_zero] at h; exact absurd h (not_lt.mpr (abs_nonneg _))
  unfold Sources.splitT
  rw [if_pos (show Scalar.abs (b.y - a.y) < Scalar.abs (b.x - a.x) from h)]
  exact solveTForX_eq a b c.x hd

/-- **the x-branch overshoot**: for an edge flatter than 45 degrees, a point whose x lies between the smaller
x of the edge and `thr` beyond the larger one has its split parameter in `[-thr/|dx|, 1 + thr/|dx|]` -/
theorem splitT_x_overshoot (a b c : P K) (thr : K) (h : |b.y - a.y| < |b.x - a.x|)
    (hmin : Min.min a.x b.x ≤ c.x) (hmax : c.x ≤ Max.max a.x b.x + thr) (hthr : 0 ≤ thr) :
    -(thr / |b.x - a.x|) ≤ Sources.splitT a b c ∧ Sources.splitT a b c ≤ 1 + thr / |b.x - a.x| := by
  rw [splitT_x a b c h]
  have hpos : 0 < |b.x - a.x| := lt_of_le_of_lt (abs_nonneg _) h
  have hne : b.x - a.x ≠ 0 := fun h0 => by rw [h0, abs_zero] at hpos; exact lt_irrefl _ hpos
  rcases lt_or_gt_of_ne hne with hn | hp
  · -- the edge goes left: `a.x` is the larger x
    have hab : b.x ≤ a.x := by linarith
    rw [min_eq_right hab] at hmin
    rw [max_eq_left hab] at hmax
    rw [abs_of_neg hn, div_neg, neg_neg]
    have h1 : (c.x - a.x) / (b.x - a.x) ≤ 1 := by rw [div_le_one_of_neg hn]; linarith
    have h2 : thr / (b.x - a.x) ≤ 0 := div_nonpos_of_nonneg_of_nonpos hthr hn.le
    exact ⟨div_le_div_of_nonpos_of_le hn.le (by linarith), by linarith⟩
  · have hab : a.x ≤ b.x := by linarith
    rw [min_eq_left hab] at hmin
    rw [max_eq_right hab] at hmax
    rw [abs_of_pos hp]
    have h0 : 0 ≤ (c.x - a.x) / (b.x - a.x) := div_nonneg (by linarith) hp.le
    have h2 : 0 ≤ thr / (b.x - a.x) := div_nonneg hthr hp.le
    have h3 : (c.x - a.x) / (b.x - a.x) ≤ ((b.x - a.x) + thr) / (b.x - a.x) :=
      div_le_div_of_nonneg_right (by linarith) hp.le
    rw [add_div, div_self hne] at h3
    exact ⟨by linarith, h3⟩

/-- the split parameter of a point that lies between the ends of the edge IN SWEEP ORDER ONLY (`a.y ≤ c.y ≤ b.y`)
and within `thr` beyond the x-extent: in `[0,1]` on the y-branch, in `[-thr/|dx|, 1 + thr/|dx|]` on the x-branch -/
theorem splitT_bound (a b c : P K) (thr : K) (hne : a ≠ b) (hya : a.y ≤ c.y) (hyb : c.y ≤ b.y)
    (hmin : Min.min a.x b.x ≤ c.x) (hmax : c.x ≤ Max.max a.x b.x + thr) (hthr : 0 ≤ thr) :
    (¬ |b.y - a.y| < |b.x - a.x| → 0 ≤ Sources.splitT a b c ∧ Sources.splitT a b c ≤ 1) ∧
    (|b.y - a.y| < |b.x - a.x| →
      -(thr / |b.x - a.x|) ≤ Sources.splitT a b c ∧ Sources.splitT a b c ≤ 1 + thr / |b.x - a.x|) := by
  refine ⟨fun h => ?_, fun h => splitT_x_overshoot a b c thr h hmin hmax hthr⟩
  exact C07b.splitT_unit a b c hne (fun h2 => absurd h2 h) (fun _ => Or.inl ⟨hya, hyb⟩)

/-! ### what `is_edge_connecting` guarantees for an edge it pushes to `edges_to_split` -/

variable [w : Wide K]

theorem maxX_eq (e : ActiveEdge K) : e.maxX = Max.max e.from_.x e.to.x := by
  unfold ActiveEdge.maxX fmax
  split
  · rename_i h; exact (max_eq_left (le_of_lt h)).symm
  · rename_i h; exact (max_eq_right (not_lt.mp h)).symm

theorem minX_eq (e : ActiveEdge K) : e.minX = Min.min e.from_.x e.to.x := rfl

/-- `is_edge_connecting` returning `Ok(true)` WITH the edge pushed to `edges_to_split`: the current vertex
satisfies `min_x ≤ x ≤ max_x + threshold` and `y ≤ to.y` - and nothing confines `x` to
`max_x` -/
theorem isEdgeConnecting_split_facts (cur : P K) (tol : K) (e : ActiveEdge K) (c : Bool)
    (h : isEdgeConnecting cur tol e = .ok (c, true)) :
    Min.min e.from_.x e.to.x ≤ cur.x ∧ cur.x ≤ Max.max e.from_.x e.to.x + onEdgeThreshold tol cur.x ∧ cur.y ≤ e.to.y := by
  unfold isEdgeConnecting at h
  dsimp only at h
  split at h
  · cases h
  · split at h
    · cases h
    · rename_i h2
      split at h
      · cases h
      · rename_i h3
        have h2' : ¬ (e.maxX + onEdgeThreshold tol cur.x < cur.x ∨ e.to.y < cur.y) := h2
        have h3' : ¬ (cur.x < e.minX) := h3
        rw [maxX_eq] at h2'
        rw [minX_eq] at h3'
        push_neg at h2'
        exact ⟨not_lt.mp h3', h2'.1, h2'.2⟩

/-- **the parameter `split_edge` computes for an edge accepted by `is_edge_connecting`**, for an active edge
that starts at or above the current vertex (`from.y ≤ y`; an active edge starts at an earlier event) and is not
degenerate: in `[0,1]` when the edge is at least as steep as 45 degrees, within `threshold/|dx|` of `[0,1]`
otherwise.  The x-branch bound is attained up to the choice of the input (`Props/C07c.lean`). -/
theorem splitEdge_parameter_bound (cur : P K) (tol : K) (e : ActiveEdge K) (c : Bool)
    (h : isEdgeConnecting cur tol e = .ok (c, true)) (hne : e.from_ ≠ e.to) (hfrom : e.from_.y ≤ cur.y)
    (hthr : 0 ≤ onEdgeThreshold tol cur.x) :
    (¬ |e.to.y - e.from_.y| < |e.to.x - e.from_.x| →
      0 ≤ Sources.splitT e.from_ e.to cur ∧ Sources.splitT e.from_ e.to cur ≤ 1) ∧
    (|e.to.y - e.from_.y| < |e.to.x - e.from_.x| →
      -(onEdgeThreshold tol cur.x / |e.to.x - e.from_.x|) ≤ Sources.splitT e.from_ e.to cur ∧
      Sources.splitT e.from_ e.to cur ≤ 1 + onEdgeThreshold tol cur.x / |e.to.x - e.from_.x|) := by
  obtain ⟨h1, h2, h3⟩ := isEdgeConnecting_split_facts cur tol e c h
  exact splitT_bound e.from_ e.to cur _ hne hfrom h3 h1 h2 hthr

omit w

/-! ### the repair (lyon 96af7b62, mirrored in the model: `Sources.splitTAtVertex`, used by `Sweep.splitEdge`) -/

/-- `Sources.splitTAtVertex` over an ordered field, in Mathlib's vocabulary -/
theorem splitTAtVertex_def (a b c : P K) :
    Sources.splitTAtVertex a b c =
      if |b.y - a.y| < |b.x - a.x| then
        (if 0 ≤ Sources.solveTForX a b c.x ∧ Sources.solveTForX a b c.x ≤ 1 then Sources.solveTForX a b c.x
         else Min.min (Max.max (Sources.solveTForY a b c.y) 0) 1)
      else Sources.solveTForY a b c.y := by
  unfold Sources.splitTAtVertex
  rw [C07.zero_K, C07.one_K]
  rfl

/-- the repaired parameter agrees with the former one (`Sources.splitT`) whenever that is in `[0,1]` -/
theorem splitTAtVertex_eq (a b c : P K) (h : 0 ≤ Sources.splitT a b c ∧ Sources.splitT a b c ≤ 1) :
    Sources.splitTAtVertex a b c = Sources.splitT a b c := by
  rw [splitTAtVertex_def]
  unfold Sources.splitT at h ⊢
  by_cases hb : |b.y - a.y| < |b.x - a.x|
  · have hb' : Scalar.abs (b.y - a.y) < Scalar.abs (b.x - a.x) := hb
    rw [if_pos hb'] at h ⊢
    rw [if_pos hb, if_pos h]
  · have hb' : ¬ Scalar.abs (b.y - a.y) < Scalar.abs (b.x - a.x) := hb
    rw [if_neg hb'] at h ⊢
    rw [if_neg hb]

/-- on the x-branch (edge flatter than 45 degrees) the repaired parameter is in `[0,1]` UNCONDITIONALLY -/
theorem splitTAtVertex_unit_flat (a b c : P K) (hb : |b.y - a.y| < |b.x - a.x|) :
    0 ≤ Sources.splitTAtVertex a b c ∧ Sources.splitTAtVertex a b c ≤ 1 := by
  rw [splitTAtVertex_def, if_pos hb]
  split
  · rename_i h; exact h
  · exact ⟨le_min (le_max_right _ _) zero_le_one, min_le_right _ _⟩

/-- **the parameter of the repaired `split_edge` is in `[0,1]`** for every non-degenerate active edge that spans
the current vertex in sweep order (`from.y ≤ y ≤ to.y`), whatever its x -/
theorem splitTAtVertex_unit (a b c : P K) (hne : a ≠ b) (hya : a.y ≤ c.y) (hyb : c.y ≤ b.y) :
    0 ≤ Sources.splitTAtVertex a b c ∧ Sources.splitTAtVertex a b c ≤ 1 := by
  by_cases hb : |b.y - a.y| < |b.x - a.x|
  · exact splitTAtVertex_unit_flat a b c hb
  · rw [splitTAtVertex_def, if_neg hb]
    have := C07b.splitT_unit a b c hne (fun h2 => absurd h2 hb) (fun _ => Or.inl ⟨hya, hyb⟩)
    unfold Sources.splitT at this
    have hb' : ¬ Scalar.abs (b.y - a.y) < Scalar.abs (b.x - a.x) := hb
    rwa [if_neg hb'] at this

/-- the guard lyon 96af7b62 added to `handle_coincident_edges_below` (`v = long_to - from`, `s = short_to - from`) -/
def endsWithin (v s : P K) : Prop := |v.x| ≤ |v.y| ∨ (0 ≤ s.x * v.x ∧ |s.x| ≤ |v.x|)

/-- `endsWithin` IS the Boolean the model's `handleCoincidentEdgesBelow` computes (`let endsWithin : Bool := ..`) -/
theorem endsWithin_iff_model (v sv : P K) :
    (decide (Scalar.abs v.x ≤ Scalar.abs v.y) || (decide (sv.x * v.x ≥ (Scalar.zero : K)) && decide (Scalar.abs sv.x ≤ Scalar.abs v.x)))
      = true ↔ endsWithin v sv := by
  rw [C07.zero_K]
  simp only [Bool.or_eq_true, Bool.and_eq_true, decide_eq_true_eq, endsWithin, ge_iff_le]
  rfl

/-- **under the guard the split parameter of `merge_coincident_edges` is in `[0,1]`**: `cur` the current
position, `long` the end of the edge that ends later in sweep order, `short` the other end (both below `cur`) -/
theorem merge_guard_unit (cur long short : P K) (hne : cur ≠ long)
    (hg : endsWithin (long - cur) (short - cur)) (hy0 : cur.y ≤ short.y) (hy1 : short.y ≤ long.y) :
    0 ≤ Sources.splitT cur long short ∧ Sources.splitT cur long short ≤ 1 := by
  apply C07b.splitT_unit cur long short hne
  · intro hb
    have hx : (long - cur).x = long.x - cur.x := rfl
    have hsx : (short - cur).x = short.x - cur.x := rfl
    have hvy : (long - cur).y = long.y - cur.y := rfl
    rcases hg with hg | ⟨hs, ha⟩
    · rw [hx, hvy] at hg; exact absurd hb (not_lt.mpr hg)
    · rw [hx, hsx] at hs ha
      rcases le_total 0 (long.x - cur.x) with hp | hn
      · rw [abs_of_nonneg hp] at ha
        have hpos : 0 < long.x - cur.x := by
          rcases hp.lt_or_eq with h | h
          · exact h
          · rw [← h, abs_zero] at hb; exact absurd hb (not_lt.mpr (abs_nonneg _))
        have hs0 : 0 ≤ short.x - cur.x := by
          by_contra hc
          push_neg at hc
          have := mul_neg_of_neg_of_pos hc hpos
          linarith
        rw [abs_of_nonneg hs0] at ha
        exact Or.inl ⟨by linarith, by linarith⟩
      · rw [abs_of_nonpos hn] at ha
        have hneg : long.x - cur.x < 0 := by
          rcases hn.lt_or_eq with h | h
          · exact h
          · rw [h, abs_zero] at hb; exact absurd hb (not_lt.mpr (abs_nonneg _))
        have hs0 : short.x - cur.x ≤ 0 := by
          by_contra hc
          push_neg at hc
          have := mul_neg_of_pos_of_neg hc hneg
          linarith
        rw [abs_of_nonpos hs0] at ha
        exact Or.inr ⟨by linarith, by linarith⟩
  · intro _
    exact Or.inl ⟨hy0, hy1⟩

end field

end Lyon.SweepPos
