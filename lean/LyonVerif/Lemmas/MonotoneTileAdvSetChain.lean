/-
  C02 growth 4 (`Props/C02g.lean`), part 4: the buffered chains of the advanced monotone
  tessellator satisfy the hypotheses of `flush_fan_tiles`: the chain invariant `CInv`
  (`Lemmas/MonotoneAdvNonneg.lean`: sorted, locally convex — what `outward_turn` maintains) plus
  "no three chain vertices collinear" give a strictly sorted, strictly convex chain
  (`convexChain_of_cinv`); hence `flush_side_fan_tiles`.
-/
import LyonVerif.Lemmas.MonotoneTileAdvSetLevels

set_option linter.unusedSectionVars false
set_option linter.unusedVariables false
set_option linter.unusedSimpArgs false

namespace Lyon.C02f
open Lyon Lyon.Mono Lyon.C02 Lyon.C02c

section Geometry
variable {K : Type} [Field K] [LinearOrder K] [IsStrictOrderedRing K]

theorem sorted_all (q : Nat → P K) (len : Nat) (hsort : ∀ i, i + 1 < len → After (q (i + 1)) (q i)) :
    ∀ a b, a < b → b < len → After (q b) (q a) := by
  intro a b hab hb
  induction b with
  | zero => omega
  | succ b ih =>
    have h1 := hsort b hb
    by_cases e : a = b
    · rw [e]; exact h1
    · exact after_trans h1 (ih (by omega) (by omega))

/-- no three vertices of the buffered chain on a line -/
def ChainGeneral (pos : Nat → P K) (ev : List Nat) : Prop :=
  ∀ a b d, a < b → b < d → d < ev.length → wind (evPos pos ev a) (evPos pos ev b) (evPos pos ev d) ≠ 0

theorem toArray_getD (pos : Nat → P K) (ev : List Nat) :
    (fun i => pos (ev.toArray.getD i 0)) = evPos pos ev := by
  funext i; simp [evPos, List.getD_eq_getElem?_getD]

theorem convexChain_of_cinv {pos : Nat → P K} {c : Bool} {s : SideEv K} (h : CInv pos c s)
    (hg : ChainGeneral pos s.events) :
    ConvexChain (fun i => pos (s.events.toArray.getD i 0)) c s.events.length := by
  rw [toArray_getD]
  refine ⟨sorted_all _ _ h.sorted, ?_⟩
  intro a b d hab hbd hd
  have := convex_global c (evPos pos s.events) s.events.length h.sorted h.conv a b d (by omega) (by omega) hd
  refine lt_of_le_of_ne this ?_
  intro e
  rcases mul_eq_zero.mp e.symm with z | z
  · exact sg_ne_zero _ z
  · exact hg a b d hab hbd hd z

/-- **`flush_side` on a buffered chain**: its triangles tile the chain polygon, the region between
the chain and its chord -/
theorem flush_side_fan_tiles {pos : Nat → P K} {c : Bool} {s : SideEv K} (h : CInv pos c s)
    (hg : ChainGeneral pos s.events) :
    Tiles (InPoly c ((List.range s.events.length).map (evPos pos s.events))
        [evPos pos s.events 0, evPos pos s.events (s.events.length - 1)])
      (TriIn pos) (TriInC pos) (flushLevels s.events.toArray s.events.length (!c) (s.events.length + 1) 1)
      (fun _ => False) := by
  have hl : 1 ≤ s.events.length := by
    cases hs : s.events with
    | nil => exact absurd hs h.ne
    | cons a r => simp
  have hc := convexChain_of_cinv h hg
  have := flush_fan_tiles pos s.events.toArray (!c) s.events.length hl (by rw [Bool.not_not]; exact hc)
  rw [Bool.not_not, toArray_getD] at this
  have ge : ∀ i, pos (s.events.toArray.getD i 0) = evPos pos s.events i := by
    intro i; simp [evPos, List.getD_eq_getElem?_getD]
  rw [ge, ge] at this
  exact this

end Geometry

end Lyon.C02f
