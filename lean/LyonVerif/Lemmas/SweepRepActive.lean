/-
  C07b - `update_active_edges` preserves the record invariant: `process_intersection` (every
  branch), `handle_intersections` (whose own filter `0 < ta ≤ 1`, `0 < tb < tb_min ≤ 1` is what
  bounds the cut parameters - no hypothesis about `LineSegment::intersection_t` is needed), and the
  splice of the pending edges into the active list.
-/
import LyonVerif.Lemmas.SweepRepSteps

set_option linter.unusedSectionVars false
set_option linter.unusedVariables false
set_option linter.unusedSimpArgs false
set_option mvcgen.warning false

namespace Lyon.SweepRep
open Lyon Lyon.Scalar Lyon.Mono Lyon.Sweep Lyon.EQ
open Std.Do

variable {α : Type} [Scalar α] [Wide α]
variable (IdP : Nat → Nat → Prop) (U : α → Prop)

variable {IdP U}

/-- the parameter predicate `V` of the cut parameters makes `remap_t_in_range` stay inside `U` -/
structure Closure (U V : α → Prop) : Prop where
  remap : ∀ v s e, V v → U s → U e → U (Sources.remapT v s e)

theorem uc_remap {V : α → Prop} (hcl : Closure U V) {c : Nat} {v s e : α} (hv : V v) (hs : Uc U c s) (he : Uc U c e) :
    Uc U c (Sources.remapT v s e) := by
  rcases hs with t | hs
  · exact Or.inl t
  · rcases he with t | he
    · exact Or.inl t
    · exact Or.inr (hcl.remap v s e hv hs he)

variable (IdP U)
/-- `q'` is `q` after well-formed insertions of records satisfying `DOk` (at coverage `c`) -/
structure QExt (c : Nat) (q q' : Queue α) : Prop where
  qok : QOk q'
  le : q.edgeData.size ≤ q'.edgeData.size
  data : QData IdP U c q'
variable {IdP U}

theorem QExt.refl {c : Nat} {q : Queue α} (h : QOk q) (hd : QData IdP U c q) : QExt IdP U c q q := ⟨h, Nat.le_refl _, hd⟩

theorem QExt.link {c : Nat} {q q' : Queue α} (h : QExt IdP U c q q') (hq : QOk q) {x : Nat} (hx : Link q.events.size x) :
    Link q'.events.size x := by
  apply hx.mono
  rw [← hq.size, ← h.qok.size]; exact h.le

theorem QExt.insertSorted {c : Nat} {q q' : Queue α} (h : QExt IdP U c q q') (hq : QOk q) (p : P α) {d : EdgeData α}
    {after : Nat} (hd : DOk IdP (Uc U c) d) (ha : Link q.events.size after) :
    QExt IdP U c q (q'.insertSorted p d after).1 := by
  have := qok_insertSorted h.qok p d after (h.link hq ha)
  refine ⟨this.1, ?_, QData.push h.data this.2.2.1 hd⟩
  rw [this.2.2.1]; simp; exact Nat.le_succ_of_le h.le

theorem QExt.insertSibling {c : Nat} {q q' : Queue α} (h : QExt IdP U c q q') (sib : Nat) (p : P α) {d : EdgeData α}
    (hd : DOk IdP (Uc U c) d) : QExt IdP U c q (q'.insertSibling sib p d) := by
  have := qok_insertSibling h.qok sib p d
  refine ⟨this.1, ?_, QData.push h.data this.2.2 hd⟩
  rw [this.2.2]; simp; exact Nat.le_succ_of_le h.le

theorem QExt.vertexEvent {c : Nat} {q q' : Queue α} (h : QExt IdP U c q q') (hq : QOk q) (p : P α) {t : α} {f g after : Nat}
    (hd : DOk IdP (Uc U c) ⟨Sources.nanPoint, t, t, 0, false, f, g⟩) (ha : Link q.events.size after) :
    QExt IdP U c q (q'.vertexEventOnEdgeSorted p t f g after) := by
  have := qok_vertexEventOnEdgeSorted h.qok p t f g after (h.link hq ha)
  refine ⟨this.1, ?_, QData.push h.data this.2.2 hd⟩
  rw [this.2.2]; simp; exact Nat.le_succ_of_le h.le

theorem QExt.modifyT0 {c : Nat} {q q' : Queue α} (h : QExt IdP U c q q') (i : Nat) {r : α} (hr : Uc U c r) :
    QExt IdP U c q { q' with edgeData := q'.edgeData.modify i (fun d => { d with t0 := r }) } := by
  refine ⟨⟨by simp [h.qok.size], h.qok.links, h.qok.first⟩, by simpa using h.le, ?_⟩
  intro j hj
  have hj' : j < q'.edgeData.size := by simpa using hj
  simp only [Array.getElem_modify]
  split
  · exact ⟨(h.data j hj').1, hr, (h.data j hj').2.2⟩
  · exact h.data j hj'

/-- what `process_intersection` knows about its two edges (at any later coverage `c`) -/
structure PIFacts (IdP : Nat → Nat → Prop) (U : α → Prop) (s : St α) (ae0 : ActiveEdge α) (eb0 : PendingEdge α) (ra rb : α) (c : Nat) : Prop where
  A : AOk (Uc U c) s.q.edgeData.size ae0
  B : BOk (Uc U c) s.q.edgeData.size eb0
  Da : DOk IdP (Uc U c) (s.q.ed ae0.srcEdge)
  Db : DOk IdP (Uc U c) (s.q.ed eb0.srcEdge)
  ra : Uc U c ra
  rb : Uc U c rb
  cur : Link s.q.events.size s.curEvent
  q0 : QExt IdP U c s.q s.q
  qok : QOk s.q

theorem pi_facts {V : α → Prop} (hcl : Closure U V) {s : St α} (h : SInv IdP U s) {aei : Nat} {ae0 : ActiveEdge α}
    (hget : s.active[aei]? = some ae0) {eb0 : PendingEdge α} (hB : BOk (Uc U s.cov) s.q.edgeData.size eb0)
    {ta tb : α} (hta : V ta) (htb : V tb) (c : Nat) (hc : CovLe s.cov c) :
    PIFacts IdP U s ae0 eb0 (Sources.remapT ta (s.q.ed ae0.srcEdge).t0 ae0.rangeEnd)
      (Sources.remapT tb (s.q.ed eb0.srcEdge).t0 eb0.rangeEnd) c := by
  have hA := all_getElem? h.active hget
  have m : ∀ t, Uc U s.cov t → Uc U c t := fun _ => Uc.mono hc
  have hDa := (h.data.ed hA.1).mono m
  have hDb := (h.data.ed hB.1).mono m
  exact ⟨hA.mono m (Nat.le_refl _), hB.mono m (Nat.le_refl _), hDa, hDb,
    uc_remap hcl hta hDa.2.1 (m _ hA.2), uc_remap hcl htb hDb.2.1 (m _ hB.2), h.cur,
    QExt.refl h.qok (h.data.mono hc), h.qok⟩

theorem pi_final {s s' : St α} (h : SInv IdP U s) {Q : Queue α} {c aei : Nat} {ae0 AE : ActiveEdge α} {eb0 EB : PendingEdge α}
    {ra rb : α} (F : ∀ c, CovLe s.cov c → PIFacts IdP U s ae0 eb0 ra rb c)
    (hcov : CovLe s.cov c) (hQ : PIFacts IdP U s ae0 eb0 ra rb c → QExt IdP U c s.q Q)
    (hAE : PIFacts IdP U s ae0 eb0 ra rb c → AOk (Uc U c) s.q.edgeData.size AE)
    (hEB : PIFacts IdP U s ae0 eb0 ra rb c → BOk (Uc U c) s.q.edgeData.size EB)
    (e1 : s'.q = Q) (e2 : s'.active = s.active.setIfInBounds aei AE) (e3 : s'.below = s.below) (e4 : s'.out = s.out)
    (e5 : s'.cov = c) (e6 : s'.curEvent = s.curEvent) :
    SInv IdP U s' ∧ BOk (Uc U c) Q.edgeData.size EB := by
  have f := F c hcov
  have hQ := hQ f
  have hAE := hAE f
  have hEB := hEB f
  have m : ∀ t, Uc U s.cov t → Uc U c t := fun _ => Uc.mono hcov
  refine ⟨?_, hEB.mono (fun _ x => x) hQ.le⟩
  apply h.grow (e1 ▸ hQ.qok) (e1 ▸ hQ.le) e6 (e5 ▸ hcov) (by rw [e1, e5]; exact hQ.data)
  · rw [e2, e1, e5]
    apply all_set
    · intro e he; exact (h.active e he).mono m hQ.le
    · exact hAE.mono (fun _ x => x) hQ.le
  · rw [e3, e1, e5]
    intro e he; exact (h.below e he).mono m hQ.le
  · rw [e4]; exact fun _ _ x => x

macro "pi_q" : tactic => `(tactic| (
  intro f
  repeat' (first
    | exact f.q0
    | refine QExt.insertSorted ?_ f.qok _ ?_ f.cur
    | refine QExt.insertSibling ?_ _ _ ?_
    | refine QExt.vertexEvent ?_ f.qok _ ?_ f.cur
    | refine QExt.modifyT0 ?_ _ f.ra
    | exact ⟨f.Da.1, f.ra, f.A.2⟩
    | exact ⟨f.Da.1, f.A.2, f.ra⟩
    | exact ⟨f.Db.1, f.rb, f.B.2⟩
    | exact ⟨f.Db.1, f.B.2, f.rb⟩
    | exact ⟨f.Db.1, f.rb, f.rb⟩)))

variable (IdP U)

theorem processIntersection_spec {V : α → Prop} (hcl : Closure U V) (ta tb : Wide.W α) (aei : Nat) (eb0 : PendingEdge α) (belowSeg : Seg (Wide.W α)) :
    ⦃fun s => ⌜SInv IdP U s ∧ BOk (Uc U s.cov) s.q.edgeData.size eb0 ∧ V (Wide.narrow ta) ∧ V (Wide.narrow tb)⌝⦄
    (processIntersection ta tb aei eb0 belowSeg : SM α (PendingEdge α))
    ⦃post⟨fun r s => ⌜SInv IdP U s ∧ BOk (Uc U s.cov) s.q.edgeData.size r⌝, fun _ s => ⌜SInv IdP U s⌝⟩⦄ := by
  unfold processIntersection
  mvcgen
  all_goals
    have hpre := ‹SInv IdP U _ ∧ BOk _ _ eb0 ∧ _›
  all_goals first
    | exact hpre.1
    | skip
  all_goals
    have hget := ‹_[aei]? = some _›
    have F := pi_facts hcl hpre.1 hget hpre.2.1 hpre.2.2.1 hpre.2.2.2
  all_goals first
    | (refine pi_final hpre.1 F ?hcov ?hQ ?hAE ?hEB rfl rfl rfl rfl rfl rfl
       case hcov => cov_le
       case hQ => pi_q
       case hAE => intro f; first | exact f.A | exact ⟨f.A.1, f.ra⟩
       case hEB => intro f; first | exact f.B | exact ⟨f.B.1, f.rb⟩)
    | skip

/-- what the theorems need to know about the wide type (`f64`) of `handle_intersections`:
`M` = "at most one" is inherited downwards along `<`, and a parameter in `(0, 1]` narrows to a
parameter satisfying `V` -/
structure WClosure (V : α → Prop) (M : Wide.W α → Prop) : Prop where
  mOne : M (Scalar.one : Wide.W α)
  mLt : ∀ a b : Wide.W α, a < b → M b → M a
  mLe : ∀ a : Wide.W α, a ≤ Scalar.one → M a
  nar : ∀ w : Wide.W α, Scalar.zero < w → M w → V (Wide.narrow w)

theorem handleIntersectionsStep_spec {V : α → Prop} {M : Wide.W α → Prop} (hcl : Closure U V) (hw : WClosure V M)
    (skipS skipE : Nat) :
    ⦃fun s => ⌜SInv IdP U s⌝⦄ (handleIntersectionsStep skipS skipE : SM α Unit) ⦃keepsR IdP U⦄ := by
  unfold handleIntersectionsStep
  have h1 := processIntersection_spec (α := α) IdP U hcl
  mvcgen [h1] invariants
  · post⟨fun _ s => ⌜SInv IdP U s⌝, fun _ s => ⌜SInv IdP U s⌝⟩
  · post⟨fun r s => ⌜SInv IdP U s ∧ BOk (Uc U s.cov) s.q.edgeData.size ‹PendingEdge α› ∧ M r.2.1 ∧
        ∀ x, r.2.2.1 = some x → V (Wide.narrow x.1) ∧ V (Wide.narrow x.2.1)⌝, fun _ s => ⌜SInv IdP U s⌝⟩
  with skip
  · -- a closer intersection is recorded: the filter of the code bounds both parameters
    have hI := ‹SInv IdP U _ ∧ BOk _ _ _ ∧ M _ ∧ _›
    have hg := ‹_ < _ ∧ _ > zero ∧ _ > zero ∧ _ ≤ one›
    have hM2 := hw.mLt _ _ hg.1 hI.2.2.1
    refine ⟨hI.1, hI.2.1, hM2, ?_⟩
    intro x hx
    cases hx
    exact ⟨hw.nar _ hg.2.2.1 (hw.mLe _ hg.2.2.2), hw.nar _ hg.2.1 hM2⟩
  · -- entry of the inner loop
    have hS := ‹SInv IdP U _›
    refine ⟨hS, all_getElem? hS.below ‹_[_]? = some _›, hw.mOne, ?_⟩
    intro x hx
    exact nomatch (hx : (none : Option _) = some x)
  · -- the call of `process_intersection`
    have hI := ‹SInv IdP U _ ∧ BOk _ _ _ ∧ M _ ∧ _›
    have hx := hI.2.2.2 _ ‹_ = some _›
    exact ⟨hI.1, hI.2.1, hx.1, hx.2⟩
  · -- the updated pending edge is stored
    have hI := ‹SInv IdP U _ ∧ BOk _ _ _›
    exact hI.1.frame rfl rfl (by cov_le) hI.1.active (all_set hI.1.below _ _ hI.2) (fun _ _ x => x)
  · exact (‹SInv IdP U _ ∧ BOk _ _ _ ∧ M _ ∧ _›).1

variable {IdP U}
theorem splice_okR {V : α → Prop} {n : Nat} {a : Array (ActiveEdge α)} (ha : ∀ e ∈ a, AOk V n e)
    {below : Array (PendingEdge α)} (hb : ∀ e ∈ below, BOk V n e) (f : PendingEdge α → ActiveEdge α)
    (hf : ∀ b, (f b).srcEdge = b.srcEdge ∧ (f b).rangeEnd = b.rangeEnd) (i j k : Nat) :
    ∀ e ∈ a.extract 0 i ++ below.map f ++ a.extract j k, AOk V n e := by
  intro e he
  simp only [Array.mem_append, Array.mem_map] at he
  rcases he with (he | ⟨b, hbm, rfl⟩) | he
  · exact ha e (SweepIdx.mem_of_mem_extract he)
  · have := hb b hbm
    exact ⟨(hf b).1 ▸ this.1, (hf b).2 ▸ this.2⟩
  · exact ha e (SweepIdx.mem_of_mem_extract he)
variable (IdP U)

theorem updateActiveEdges_spec {V : α → Prop} {M : Wide.W α → Prop} (hcl : Closure U V) (hw : WClosure V M)
    (scan : Scan) :
    ⦃fun s => ⌜SInv IdP U s⌝⦄ (updateActiveEdges scan : SM α Unit) ⦃keepsR IdP U⦄ := by
  unfold updateActiveEdges
  have h1 := handleIntersectionsStep_spec (α := α) IdP U hcl hw
  mvcgen [h1]
  all_goals first
    | sinv0
    | try_sinv (
        refine SInv.frame hS rfl rfl (by cov_le) ?_ all_empty (fun _ _ x => x)
        exact splice_okR hS.active hS.below _ (fun _ => ⟨rfl, rfl⟩) _ _ _)

end Lyon.SweepRep
