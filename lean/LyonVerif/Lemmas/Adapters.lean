/-
  Helper lemmas for C16 (`Model/Path/Adapters.lean`): how the adapters act on the protocol
  state, on the endpoint list and on the specification events.  Core Lean only.
-/
import LyonVerif.Model.Path.Adapters
import LyonVerif.Lemmas.Trace

namespace Lyon.Adapt
open Lyon Lyon.Path

/-! ### point maps -/

section Maps
variable {π π' A : Type}

theorem nestState_map (f : π → π') (b : Bool) (prog : List (Call π A)) :
    nestState b (prog.map (mapCall f)) = nestState b prog := by
  induction prog generalizing b with
  | nil => rfl
  | cons c r ih => cases b <;> cases c <;> simp [nestState, mapCall, ih]

theorem nestState_noAttr {B : Type} (b : Bool) (prog : List (Call π A)) :
    nestState b (prog.map (noAttrCall (B := B))) = nestState b prog := by
  induction prog generalizing b with
  | nil => rfl
  | cons c r ih => cases b <;> cases c <;> simp [nestState, noAttrCall, ih]

/-- the events denoted by a transformed program are the transformed events (any state) -/
theorem specFrom_map (f : π → π') (st : Option (π × π)) (prog : List (Call π A)) :
    specFrom (st.map fun s => (f s.1, f s.2)) (prog.map (mapCall f))
      = (specFrom st prog).map (mapEvent f) := by
  induction prog generalizing st with
  | nil => cases st <;> simp [specFrom]
  | cons c r ih =>
    cases st with
    | none =>
      cases c with
      | begin p a => simpa [specFrom, mapCall, mapEvent] using ih (some (p, p))
      | line p a => simpa [specFrom, mapCall] using ih none
      | quad k p a => simpa [specFrom, mapCall] using ih none
      | cubic k1 k2 p a => simpa [specFrom, mapCall] using ih none
      | end_ cl => simpa [specFrom, mapCall] using ih none
    | some fc =>
      obtain ⟨fst, cur⟩ := fc
      cases c with
      | begin p a => simpa [specFrom, mapCall] using ih (some (fst, cur))
      | line p a => simpa [specFrom, mapCall, mapEvent] using ih (some (fst, p))
      | quad k p a => simpa [specFrom, mapCall, mapEvent] using ih (some (fst, p))
      | cubic k1 k2 p a => simpa [specFrom, mapCall, mapEvent] using ih (some (fst, p))
      | end_ cl => simpa [specFrom, mapCall, mapEvent] using ih none

theorem endpoints_map (f : π → π') (prog : List (Call π A)) :
    endpoints (prog.map (mapCall f)) = (endpoints prog).map fun e => (f e.1, e.2) := by
  induction prog with
  | nil => rfl
  | cons c r ih => cases c <;> simp [endpoints, mapCall, ih]

theorem endpoints_append (l1 l2 : List (Call π A)) :
    endpoints (l1 ++ l2) = endpoints l1 ++ endpoints l2 := by
  induction l1 with
  | nil => rfl
  | cons c r ih => cases c <;> simp [endpoints, ih]

theorem eventEndpoints_append (l1 l2 : List (Event π)) :
    eventEndpoints (l1 ++ l2) = eventEndpoints l1 ++ eventEndpoints l2 := by
  induction l1 with
  | nil => rfl
  | cons c r ih => cases c <;> simp [eventEndpoints, ih]

theorem eventEndpoints_map (f : π → π') (l : List (Event π)) :
    eventEndpoints (l.map (mapEvent f)) = (eventEndpoints l).map f := by
  induction l with
  | nil => rfl
  | cons c r ih => cases c <;> simp [eventEndpoints, mapEvent, ih]

end Maps

/-! ### builder-side `Flattened` -/

section Flat
variable {π α : Type} [Scalar α]

theorem nestState_emitLines (segs : List (FSeg π α)) (prev a : List α) :
    nestState true (emitLines segs prev a) = some true := by
  induction segs with
  | nil => rfl
  | cons s r ih => simpa [emitLines, nestState] using ih

theorem nestState_specLines (segs : List (FSeg π α)) (prev a : List α) :
    nestState true (specLines segs prev a) = some true := by
  induction segs with
  | nil => rfl
  | cons s r ih => simpa [specLines, nestState] using ih

/-- the flattening builder never sends a call out of place when it receives none out of place,
and leaves the wrapped builder in the same protocol state -/
theorem nestState_flatRun (F : Flattener π α) (s : FlatB π α) (b b' : Bool)
    (prog : List (Call π (List α))) (h : nestState b prog = some b') :
    nestState b (FlatB.run F s prog) = some b' := by
  induction prog generalizing s b with
  | nil => simpa [FlatB.run] using h
  | cons c r ih =>
    cases b <;> cases c <;> simp only [nestState] at h <;> try (exact absurd h (by simp))
    · simpa [FlatB.run, FlatB.step, nestState] using ih _ _ h
    · simpa [FlatB.run, FlatB.step, nestState] using ih _ _ h
    · simp only [FlatB.run, FlatB.step]
      exact nestState_append_of (nestState_emitLines _ _ _) (ih _ _ h)
    · simp only [FlatB.run, FlatB.step]
      exact nestState_append_of (nestState_emitLines _ _ _) (ih _ _ h)
    · simpa [FlatB.run, FlatB.step, nestState] using ih _ _ h

theorem isFlat_emitLines (segs : List (FSeg π α)) (prev a : List α) :
    ∀ c ∈ emitLines segs prev a, Call.isFlat c = true := by
  intro c hc
  simp only [emitLines, List.mem_map] at hc
  obtain ⟨s, _, rfl⟩ := hc
  rfl

theorem isFlat_flatRun (F : Flattener π α) (s : FlatB π α) (prog : List (Call π (List α))) :
    ∀ c ∈ FlatB.run F s prog, Call.isFlat c = true := by
  induction prog generalizing s with
  | nil => simp [FlatB.run]
  | cons c r ih =>
    intro x hx
    simp only [FlatB.run, List.mem_append] at hx
    rcases hx with hx | hx
    · cases c <;> simp only [FlatB.step, List.mem_singleton] at hx
      · subst hx; rfl
      · subst hx; rfl
      · exact isFlat_emitLines _ _ _ x hx
      · exact isFlat_emitLines _ _ _ x hx
      · subst hx; rfl
    · exact ih _ x hx

/-- the `begin` / `end` calls go through unchanged and in order -/
theorem marks_flatRun (F : Flattener π α) (s : FlatB π α) (prog : List (Call π (List α))) :
    (FlatB.run F s prog).filter Call.isMark = prog.filter Call.isMark := by
  induction prog generalizing s with
  | nil => rfl
  | cons c r ih =>
    have hl : ∀ segs (prev a : List α), (emitLines (π := π) segs prev a).filter Call.isMark = [] := by
      intro segs prev a
      induction segs with
      | nil => rfl
      | cons s r ih => simp [emitLines, Call.isMark]
    cases c <;> simp [FlatB.run, FlatB.step, Call.isMark, List.filter_cons, ih, hl]

theorem endpoints_emitLines_snoc (l : List (FSeg π α)) (x : FSeg π α) (prev a : List α) :
    endpoints (emitLines (l ++ [x]) prev a)
      = endpoints (emitLines l prev a) ++ [(x.b, emitAttr prev a x.t)] := by
  simp [emitLines, endpoints_append, endpoints]

end Flat

/-! ### iterator-side `Flattened` -/

section Iter
variable {π : Type}

theorem eventEndpoints_chain (a : π) (pts : List π) : eventEndpoints (chain a pts) = pts := by
  induction pts generalizing a with
  | nil => rfl
  | cons p r ih => simp [chain, eventEndpoints, ih]

theorem isFlat_chain (a : π) (pts : List π) : ∀ e ∈ chain a pts, Event.isFlat e = true := by
  induction pts generalizing a with
  | nil => simp [chain]
  | cons p r ih =>
    intro e he
    simp only [chain, List.mem_cons] at he
    rcases he with rfl | he
    · rfl
    · exact ih _ e he

theorem isFlat_flatIter (G : IterFlattener π) (evs : List (Event π)) :
    ∀ e ∈ flatIter G evs, Event.isFlat e = true := by
  induction evs with
  | nil => simp [flatIter]
  | cons c r ih =>
    intro e he
    cases c <;> simp only [flatIter, List.mem_cons, List.mem_append] at he
    · rcases he with rfl | he
      · rfl
      · exact ih e he
    · rcases he with rfl | he
      · rfl
      · exact ih e he
    · rcases he with he | he
      · exact isFlat_chain _ _ e he
      · exact ih e he
    · rcases he with he | he
      · exact isFlat_chain _ _ e he
      · exact ih e he
    · rcases he with rfl | he
      · rfl
      · exact ih e he

end Iter

/-! ### `for_each_flattened` -/

section AttrIter
variable {π α : Type} [Scalar α]

/-- the `to` side of the lines emitted for one curve: the flattener's points, each with the
interpolation at its `t` -/
theorem eventEndpoints_linesA (fa ta : List α) (ca : List α) (segs : List (FSeg π α)) :
    eventEndpoints (linesA fa ta ca segs) = segs.map fun s => (s.b, interpI fa ta s.t) := by
  induction segs generalizing ca with
  | nil => rfl
  | cons s r ih => simp [linesA, eventEndpoints, ih]

theorem isFlat_linesA (fa ta : List α) (ca : List α) (segs : List (FSeg π α)) :
    ∀ e ∈ linesA fa ta ca segs, Event.isFlat e = true := by
  induction segs generalizing ca with
  | nil => simp [linesA]
  | cons s r ih =>
    intro e he
    simp only [linesA, List.mem_cons] at he
    rcases he with rfl | he
    · rfl
    · exact ih _ e he

theorem isFlat_flatAttrIter (F : Flattener π α) (evs : List (Event (AP π α))) :
    ∀ e ∈ flatAttrIter F evs, Event.isFlat e = true := by
  induction evs with
  | nil => simp [flatAttrIter]
  | cons c r ih =>
    intro e he
    cases c <;> simp only [flatAttrIter, List.mem_cons, List.mem_append] at he
    · rcases he with rfl | he
      · rfl
      · exact ih e he
    · rcases he with rfl | he
      · rfl
      · exact ih e he
    · rcases he with he | he
      · exact isFlat_linesA _ _ _ _ e he
      · exact ih e he
    · rcases he with he | he
      · exact isFlat_linesA _ _ _ _ e he
      · exact ih e he
    · rcases he with rfl | he
      · rfl
      · exact ih e he

end AttrIter

/-! ### builder-side flattening seen through the events it denotes -/

section FlatEvents
variable {π α : Type} [Scalar α]

/-- the events denoted by the lines emitted for one curve: the chain through the flattener's
points, after which the sub-path continues from the last of them -/
theorem specFrom_emitLines_snoc (f c : π) (l : List (FSeg π α)) (x : FSeg π α) (prev a : List α)
    (rest : List (Call π (List α))) :
    specFrom (some (f, c)) (emitLines (l ++ [x]) prev a ++ rest)
      = chain c ((l ++ [x]).map (·.b)) ++ specFrom (some (f, x.b)) rest := by
  induction l generalizing c with
  | nil => simp [emitLines, specFrom, chain]
  | cons s r ih =>
    have := ih s.b
    simp only [emitLines, List.map_append, List.map_cons, List.map_nil, List.cons_append,
      specFrom, chain] at this ⊢
    rw [this]

end FlatEvents

end Lyon.Adapt
