/-
  C04: specification vocabulary (`Protocol`, `firstRefusal`, `idsFresh`, `wellScoped`, `beforeKth`,
  `tieSink`) and the helper lemmas behind the theorems of `Props/C04.lean`.
-/
import LyonVerif.Lemmas.Tess

set_option linter.unusedVariables false
set_option linter.unusedSimpArgs false

namespace Lyon.C04
open Lyon Lyon.Tess

/-! ## Specification vocabulary -/

/-- First refused vertex of a trace. -/
def firstRefusal : List Call → Option GErr
  | [] => none
  | .vertex (.error e) :: _ => some e
  | _ :: r => firstRefusal r

/-- The protocol the property demands of one tessellation call: `begin`, then only vertex /
triangle calls, then exactly one terminator — `end` iff the call returned `Ok`, `abort` iff it
returned an error — and nothing after it; a refused vertex is what the call returns (the first). -/
structure Protocol (tr : List Call) (res : Option TErr) : Prop where
  shape : ∃ body term, tr = .begin :: body ++ [term] ∧ (∀ c ∈ body, c.isBody = true) ∧
      ((res = none ∧ term = .endG) ∨ (res ≠ none ∧ term = .abort))
  first_error : ∀ e, firstRefusal tr = some e → res = some (.geometryBuilder e)

/-- Every triangle of a trace uses only ids returned (by successful vertex calls) earlier in it. -/
def idsFresh : List Nat → List Call → Bool
  | _, [] => true
  | ids, .vertex (.ok i) :: r => idsFresh (ids ++ [i]) r
  | ids, .tri a b c :: r => ids.contains a && ids.contains b && ids.contains c && idsFresh ids r
  | ids, _ :: r => idsFresh ids r

/-- Every triangle request names vertices requested before it (`n` = number requested so far). -/
def wellScoped : Nat → List CReq → Bool
  | _, [] => true
  | n, .v _ :: r => wellScoped (n + 1) r
  | n, .t a b c :: r => decide (a < n) && decide (b < n) && decide (c < n) && wellScoped n r

def Op.isBody : Op → Bool
  | .vertex _ => true
  | .tri _ _ _ => true
  | _ => false

/-- The requests strictly before the `j`-th vertex request (`j ≥ 1`). -/
def beforeKth : Nat → List CReq → List CReq
  | _, [] => []
  | 0, _ => []
  | 1, .v _ :: _ => []
  | j + 2, .v p :: r => .v p :: beforeKth (j + 1) r
  | j + 1, .t a b c :: r => .t a b c :: beforeKth (j + 1) r

/-! ## Helper facts (local) -/

theorem firstRefusal_skip (pre rest : List Call)
    (h : ∀ c ∈ pre, (∃ i, c = .vertex (.ok i)) ∨ (∃ a b d, c = .tri a b d)) :
    firstRefusal (pre ++ rest) = firstRefusal rest := by
  induction pre with
  | nil => rfl
  | cons c pre ih =>
    have hc := h c (by simp)
    have ih' := ih (fun c' hc' => h c' (by simp [hc']))
    rcases hc with ⟨i, rfl⟩ | ⟨a, b, d, rfl⟩ <;> simpa [firstRefusal] using ih'

theorem body_of_okTri (l : List Call)
    (h : ∀ c ∈ l, (∃ i, c = .vertex (.ok i)) ∨ (∃ a b d, c = .tri a b d)) :
    ∀ c ∈ l, c.isBody = true := by
  intro c hc
  rcases h c hc with ⟨i, rfl⟩ | ⟨a, b, d, rfl⟩ <;> rfl

abbrev OkTri (l : List Call) : Prop :=
  ∀ c ∈ l, (∃ i, c = .vertex (.ok i)) ∨ (∃ a b d, c = .tri a b d)

theorem protocol_refused (pre post : List Call) (e : GErr) (hall : OkTri pre)
    (hpost : ∀ c ∈ post, c.isBody = true) :
    Protocol (.begin :: (pre ++ [.vertex (.error e)]) ++ post ++ [.abort]) (some (.geometryBuilder e)) := by
  constructor
  · refine ⟨(pre ++ [.vertex (.error e)]) ++ post, .abort, by simp, ?_, Or.inr ⟨by simp, rfl⟩⟩
    intro c hc
    rcases List.mem_append.mp hc with h | h
    · rcases List.mem_append.mp h with h | h
      · exact body_of_okTri pre hall c h
      · simp at h; subst h; rfl
    · exact hpost c h
  · intro e' he'
    have : firstRefusal (.begin :: (pre ++ [.vertex (.error e)]) ++ post ++ [.abort]) = some e := by
      show firstRefusal ((pre ++ [.vertex (.error e)]) ++ post ++ [.abort]) = some e
      rw [List.append_assoc, List.append_assoc, firstRefusal_skip pre _ hall]
      rfl
    rw [this] at he'
    cases he'
    rfl

theorem protocol_core_err (calls : List Call) (ce : TErr) (hall : OkTri calls) :
    Protocol (.begin :: calls ++ [.abort]) (some ce) := by
  constructor
  · exact ⟨calls, .abort, by simp, body_of_okTri calls hall, Or.inr ⟨by simp, rfl⟩⟩
  · intro e' he'
    have : firstRefusal (.begin :: calls ++ [.abort]) = none := by
      show firstRefusal (calls ++ [.abort]) = none
      rw [firstRefusal_skip calls _ hall]; rfl
    rw [this] at he'
    cases he'

theorem protocol_ok (calls : List Call) (hall : OkTri calls) :
    Protocol (.begin :: calls ++ [.endG]) none := by
  constructor
  · exact ⟨calls, .endG, by simp, body_of_okTri calls hall, Or.inl ⟨rfl, rfl⟩⟩
  · intro e' he'
    have : firstRefusal (.begin :: calls ++ [.endG]) = none := by
      show firstRefusal (calls ++ [.endG]) = none
      rw [firstRefusal_skip calls _ hall]; rfl
    rw [this] at he'
    cases he'

theorem exec_preserves {σ : Type} {S : Sink σ} {P : σ → Prop} (h : S.Preserves P) :
    ∀ (ops : List Op) (s : σ), (∀ o ∈ ops, Op.isBody o = true) → P s → P (S.exec ops s).1 := by
  intro ops
  induction ops with
  | nil => intro s _ hp; simpa [Sink.exec] using hp
  | cons o rest ih =>
    intro s hb hp
    have hrest : ∀ o ∈ rest, Op.isBody o = true := fun o ho => hb o (by simp [ho])
    have ho := hb o (by simp)
    cases o with
    | vertex p => simp only [Sink.exec]; exact ih _ hrest (h.vertex s p hp)
    | tri a b c => simp only [Sink.exec]; exact ih _ hrest (h.tri s a b c hp)
    | begin => simp [Op.isBody] at ho
    | endG => simp [Op.isBody] at ho
    | abort => simp [Op.isBody] at ho

/-- The sinks of the correspondence check: a real `BuffersBuilder`, optionally wrapped in
`InvertWinding`, behind the fault injector (`k = 0`: never injects, so that only the builder's own
`TooManyVertices` can occur). -/
def tieSink (inv : Bool) (k : Nat) (e : GErr) : Sink (BB × Nat) :=
  (if inv then bbSink.invert else bbSink).refuseAt k e

theorem tieSink_preserves (inv : Bool) (k : Nat) (e : GErr) (b0 : Buffers) :
    (tieSink inv k e).Preserves (fun s => Ext b0 s.1) := by
  unfold tieSink
  cases inv
  · exact (bbSink_preserves_ext b0).refuseAt k e
  · exact (bbSink_preserves_ext b0).invert.refuseAt k e

theorem tieSink_begin (inv : Bool) (k : Nat) (e : GErr) (s : BB × Nat) :
    ((tieSink inv k e).begin s).1 = s.1.begin := by cases inv <;> rfl
theorem tieSink_abort (inv : Bool) (k : Nat) (e : GErr) (s : BB × Nat) :
    ((tieSink inv k e).abort s).1 = s.1.abort := by cases inv <;> rfl
theorem tieSink_endG (inv : Bool) (k : Nat) (e : GErr) (s : BB × Nat) :
    ((tieSink inv k e).endG s).1 = s.1 := by cases inv <;> rfl

theorem refuseAt_vertex_eq {σ : Type} (S : Sink σ) (e : GErr) (k n : Nat) (s : σ) (p : Nat)
    (h : n + 1 = k) : (S.refuseAt k e).vertex (s, n) p = ((s, n + 1), .error e) := by
  simp [Sink.refuseAt, h]

theorem refuseAt_vertex_ne {σ : Type} (S : Sink σ) (e : GErr) (k n : Nat) (s : σ) (p : Nat)
    (h : ¬ n + 1 = k) :
    (S.refuseAt k e).vertex (s, n) p = (((S.vertex s p).1, n + 1), (S.vertex s p).2) := by
  simp [Sink.refuseAt, h]

theorem refuseAt_tri {σ : Type} (S : Sink σ) (e : GErr) (k n : Nat) (s : σ) (a b c : Nat) :
    (S.refuseAt k e).tri (s, n) a b c = (S.tri s a b c, n) := rfl

theorem runQ_refuseAt {σ : Type} (S : Sink σ) (e : GErr) (k : Nat) :
    ∀ (core : List CReq) (s : σ) (n : Nat) (ids : List Nat),
      (runQ S core s ids).err = none → n < k → k ≤ n + nVerts core →
      (runQ (S.refuseAt k e) core (s, n) ids).calls =
          (runQ S (beforeKth (k - n) core) s ids).calls ++ [.vertex (.error e)] ∧
      (runQ (S.refuseAt k e) core (s, n) ids).err = some e ∧
      (runQ (S.refuseAt k e) core (s, n) ids).st = ((runQ S (beforeKth (k - n) core) s ids).st, k) := by
  intro core
  induction core with
  | nil => intro s n ids _ h1 h2; simp [nVerts] at h2; omega
  | cons r rest ih =>
    intro s n ids hok h1 h2
    cases r with
    | v p =>
      rcases hv : S.vertex s p with ⟨s', (i | e')⟩
      · -- accepted by the inner builder
        simp only [runQ, hv] at hok
        by_cases hk : n + 1 = k
        · have hj : k - n = 1 := by omega
          simp [runQ, refuseAt_vertex_eq S e k n s p hk, hj, beforeKth, hk]
        · obtain ⟨j, hj⟩ : ∃ j, k - n = j + 2 := ⟨k - n - 2, by omega⟩
          have hj' : k - (n + 1) = j + 1 := by omega
          have := ih s' (n + 1) (ids ++ [i]) hok (by omega) (by simp [nVerts] at h2; omega)
          rw [hj'] at this
          simp only [runQ, refuseAt_vertex_ne S e k n s p hk, hv, hj, beforeKth]
          simp only [this, List.cons_append, and_self]
      · simp [runQ, hv] at hok
    | t a b c =>
      simp only [runQ] at hok
      obtain ⟨j, hj⟩ : ∃ j, k - n = j + 1 := ⟨k - n - 1, by omega⟩
      have := ih (S.tri s (resolve ids a) (resolve ids b) (resolve ids c)) n ids hok h1
        (by simpa [nVerts] using h2)
      rw [hj] at this
      simp only [runQ, hj, beforeKth, refuseAt_tri]
      simp only [this, List.cons_append, and_self]

end Lyon.C04

namespace Lyon.C04
open Lyon Lyon.Tess

/-! ### index validity -/

theorem addVertex_cfg (b : BB) (p : Nat) :
    (b.addVertex p).1.cfg = b.cfg ∧ (b.addVertex p).1.vertexOffset = b.vertexOffset ∧
    (b.addVertex p).1.firstVertex = b.firstVertex ∧
    (b.addVertex p).1.buf.vertices = b.buf.vertices ++ [p] ∧
    (b.addVertex p).1.buf.indices = b.buf.indices := by
  simp only [BB.addVertex]; split <;> simp

theorem addVertex_ok (b : BB) (p i : Nat) (h : (b.addVertex p).2 = .ok i) : i = b.buf.vertices.length := by
  simp only [BB.addVertex] at h
  split at h
  · cases h
  · simp at h; omega

theorem conv_congr (b b' : BB) (h1 : b'.cfg = b.cfg) (h2 : b'.vertexOffset = b.vertexOffset) (a : Nat) :
    b'.conv a = b.conv a := by simp [BB.conv, h1, h2]

theorem contains_of_mem (ids : List Nat) (a : Nat) : ids.contains a = true ↔ a ∈ ids := by
  simp

/-- Running vertex/triangle calls whose triangles only use ids returned so far: the buffers are
extended, and every new index is the conversion of an id that lies in `[lo, final length)`. -/
theorem exec_valid (lo : Nat) : ∀ (ops : List Op) (b : BB) (ids : List Nat),
    (∀ o ∈ ops, Op.isBody o = true) → lo ≤ b.buf.vertices.length →
    (∀ id ∈ ids, lo ≤ id ∧ id < b.buf.vertices.length) →
    idsFresh ids (bbSink.exec ops b).2 = true →
    (bbSink.exec ops b).1.cfg = b.cfg ∧ (bbSink.exec ops b).1.vertexOffset = b.vertexOffset ∧
    ∃ vs is, (bbSink.exec ops b).1.buf.vertices = b.buf.vertices ++ vs ∧
      (bbSink.exec ops b).1.buf.indices = b.buf.indices ++ is ∧
      ∀ i ∈ is, ∃ a, i = b.conv a ∧ lo ≤ a ∧ a < (bbSink.exec ops b).1.buf.vertices.length := by
  intro ops
  induction ops with
  | nil => intro b ids _ _ _ _; exact ⟨rfl, rfl, [], [], by simp [Sink.exec], by simp [Sink.exec], by simp⟩
  | cons o rest ih =>
    intro b ids hb hlo hids hfresh
    have hrest : ∀ o ∈ rest, Op.isBody o = true := fun o ho => hb o (by simp [ho])
    have ho := hb o (by simp)
    cases o with
    | begin => simp [Op.isBody] at ho
    | endG => simp [Op.isBody] at ho
    | abort => simp [Op.isBody] at ho
    | vertex p =>
      obtain ⟨hc, hoff, hfv, hvs, his⟩ := addVertex_cfg b p
      have hvx : bbSink.vertex b p = b.addVertex p := rfl
      simp only [Sink.exec, hvx] at hfresh ⊢
      have hlen : (b.addVertex p).1.buf.vertices.length = b.buf.vertices.length + 1 := by simp [hvs]
      have key : ∀ ids', (∀ id ∈ ids', lo ≤ id ∧ id < (b.addVertex p).1.buf.vertices.length) →
          idsFresh ids' (bbSink.exec rest (b.addVertex p).1).2 = true → _ :=
        fun ids' h1 h2 => ih (b.addVertex p).1 ids' hrest (by omega) h1 h2
      have hids' : ∀ id ∈ ids, lo ≤ id ∧ id < (b.addVertex p).1.buf.vertices.length := by
        intro id hid; have := hids id hid; omega
      have fin : ∀ ids', (∀ id ∈ ids', lo ≤ id ∧ id < (b.addVertex p).1.buf.vertices.length) →
          idsFresh ids' (bbSink.exec rest (b.addVertex p).1).2 = true →
          (bbSink.exec rest (b.addVertex p).1).1.cfg = b.cfg ∧
          (bbSink.exec rest (b.addVertex p).1).1.vertexOffset = b.vertexOffset ∧
          ∃ vs is, (bbSink.exec rest (b.addVertex p).1).1.buf.vertices = b.buf.vertices ++ vs ∧
            (bbSink.exec rest (b.addVertex p).1).1.buf.indices = b.buf.indices ++ is ∧
            ∀ i ∈ is, ∃ a, i = b.conv a ∧ lo ≤ a ∧
              a < (bbSink.exec rest (b.addVertex p).1).1.buf.vertices.length := by
        intro ids' h1 h2
        obtain ⟨c1, c2, vs, is, e1, e2, e3⟩ := key ids' h1 h2
        refine ⟨c1.trans hc, c2.trans hoff, p :: vs, is, by simp [e1, hvs], by simp [e2, his], ?_⟩
        intro i hi
        obtain ⟨a, ha, hb1, hb2⟩ := e3 i hi
        exact ⟨a, by rw [ha, conv_congr _ _ hc hoff], hb1, hb2⟩
      cases hr : (b.addVertex p).2 with
      | ok i =>
        rw [hr] at hfresh
        simp only [idsFresh] at hfresh
        have hi := addVertex_ok b p i hr
        refine fin (ids ++ [i]) ?_ hfresh
        intro id hid
        rcases List.mem_append.mp hid with h | h
        · exact hids' id h
        · simp at h; subst h; omega
      | error e =>
        rw [hr] at hfresh
        simp only [idsFresh] at hfresh
        exact fin ids hids' hfresh
    | tri x y z =>
      have htx : bbSink.tri b x y z = b.addTriangle x y z := rfl
      simp only [Sink.exec, htx, idsFresh, Bool.and_eq_true, contains_of_mem] at hfresh ⊢
      obtain ⟨⟨⟨hx, hy⟩, hz⟩, hfr⟩ := hfresh
      have hb' : (b.addTriangle x y z).buf.vertices = b.buf.vertices := rfl
      obtain ⟨c1, c2, vs, is, e1, e2, e3⟩ := ih (b.addTriangle x y z) ids hrest (by rw [hb']; exact hlo)
        (by rw [hb']; exact hids) hfr
      rw [hb'] at e1
      have hge : b.buf.vertices.length ≤ (bbSink.exec rest (b.addTriangle x y z)).1.buf.vertices.length := by
        simp [e1]
      refine ⟨c1, c2, vs, [b.conv x, b.conv y, b.conv z] ++ is, e1, by rw [e2]; simp [BB.addTriangle], ?_⟩
      intro i hi
      rcases List.mem_append.mp hi with h | h
      · simp only [List.mem_cons, List.not_mem_nil, or_false] at h
        rcases h with rfl | rfl | rfl
        · exact ⟨x, rfl, (hids x hx).1, by have := (hids x hx).2; omega⟩
        · exact ⟨y, rfl, (hids y hy).1, by have := (hids y hy).2; omega⟩
        · exact ⟨z, rfl, (hids z hz).1, by have := (hids z hz).2; omega⟩
      · obtain ⟨a, ha, hb1, hb2⟩ := e3 i h
        exact ⟨a, by rw [ha]; rfl, hb1, hb2⟩

end Lyon.C04

namespace Lyon.C04
open Lyon Lyon.Tess

/-! ### freshness of the ids a well-scoped core uses -/

theorem resolve_mem (ids : List Nat) (a : Nat) (h : a < ids.length) : resolve ids a ∈ ids := by
  simp [resolve, List.getD_eq_getElem?_getD, List.getElem?_eq_getElem h]

theorem idsFresh_append_term (t : Call) (ht : t.isTerminator = true) :
    ∀ (l : List Call) (ids : List Nat), idsFresh ids (l ++ [t]) = idsFresh ids l := by
  intro l
  induction l with
  | nil => intro ids; cases t <;> simp_all [idsFresh, Call.isTerminator]
  | cons c l ih =>
    intro ids
    cases c with
    | vertex r => cases r <;> simp [idsFresh, ih]
    | tri a b d => simp [idsFresh, ih]
    | begin => simp [idsFresh, ih]
    | endG => simp [idsFresh, ih]
    | abort => simp [idsFresh, ih]

/-- The calls a well-scoped request sequence leads to only name ids returned before. -/
theorem runQ_fresh {σ : Type} (S : Sink σ) : ∀ (core : List CReq) (s : σ) (ids : List Nat),
    wellScoped ids.length core = true → idsFresh ids (runQ S core s ids).calls = true := by
  intro core
  induction core with
  | nil => intro s ids _; simp [runQ, idsFresh]
  | cons r rest ih =>
    intro s ids hw
    cases r with
    | v p =>
      simp only [wellScoped] at hw
      rcases hv : S.vertex s p with ⟨s', (i | e)⟩
      · simp only [runQ, hv, idsFresh]
        exact ih s' (ids ++ [i]) (by simpa using hw)
      · simp [runQ, hv, idsFresh]
    | t a b c =>
      simp only [wellScoped, Bool.and_eq_true, decide_eq_true_eq] at hw
      obtain ⟨⟨⟨ha, hb⟩, hc⟩, hr⟩ := hw
      simp only [runQ, idsFresh, Bool.and_eq_true, contains_of_mem]
      exact ⟨⟨⟨resolve_mem ids a ha, resolve_mem ids b hb⟩, resolve_mem ids c hc⟩, ih _ ids hr⟩

/-- `runQ` over a concatenation: stop in the first part if it refuses, else continue. -/
theorem runQ_append {σ : Type} (S : Sink σ) : ∀ (a b : List CReq) (s : σ) (ids : List Nat),
    (runQ S (a ++ b) s ids).calls =
      (match (runQ S a s ids).err with
       | some _ => (runQ S a s ids).calls
       | none => (runQ S a s ids).calls ++ (runQ S b (runQ S a s ids).st (runQ S a s ids).ids).calls) ∧
    (runQ S (a ++ b) s ids).err =
      (match (runQ S a s ids).err with
       | some e => some e
       | none => (runQ S b (runQ S a s ids).st (runQ S a s ids).ids).err) ∧
    (runQ S (a ++ b) s ids).st =
      (match (runQ S a s ids).err with
       | some _ => (runQ S a s ids).st
       | none => (runQ S b (runQ S a s ids).st (runQ S a s ids).ids).st) := by
  intro a
  induction a with
  | nil => intro b s ids; simp [runQ]
  | cons r rest ih =>
    intro b s ids
    cases r with
    | v p =>
      rcases hv : S.vertex s p with ⟨s', (i | e)⟩
      · simp only [List.cons_append, runQ, hv]
        obtain ⟨h1, h2, h3⟩ := ih b s' (ids ++ [i])
        rw [h1, h2, h3]
        cases (runQ S rest s' (ids ++ [i])).err <;> simp
      · simp [runQ, hv]
    | t x y z =>
      simp only [List.cons_append, runQ]
      obtain ⟨h1, h2, h3⟩ := ih b (S.tri s (resolve ids x) (resolve ids y) (resolve ids z)) ids
      rw [h1, h2, h3]
      cases (runQ S rest (S.tri s (resolve ids x) (resolve ids y) (resolve ids z)) ids).err <;> simp

/-- `strokeEvents` is `runQ` on the concatenated events (the per-event latch check only decides
how many events are consumed). -/
theorem strokeEvents_eq {σ : Type} (S : Sink σ) : ∀ (evs : List (List CReq)) (s : σ) (ids : List Nat),
    (strokeEvents S evs s ids).calls = (runQ S evs.flatten s ids).calls ∧
    (strokeEvents S evs s ids).err = (runQ S evs.flatten s ids).err ∧
    (strokeEvents S evs s ids).st = (runQ S evs.flatten s ids).st := by
  intro evs
  induction evs with
  | nil => intro s ids; simp [strokeEvents, runQ]
  | cons ev rest ih =>
    intro s ids
    obtain ⟨h1, h2, h3⟩ := runQ_append S ev rest.flatten s ids
    rw [List.flatten_cons, h1, h2, h3]
    unfold strokeEvents
    dsimp only
    cases hx : (runQ S ev s ids).err with
    | some e => simp
    | none =>
      obtain ⟨i1, i2, i3⟩ := ih (runQ S ev s ids).st (runQ S ev s ids).ids
      simp [i1, i2, i3]

theorem strokeEvents_calls_eq {σ : Type} (S : Sink σ) (evs : List (List CReq)) (s : σ) (ids : List Nat) :
    (strokeEvents S evs s ids).calls = (runQ S evs.flatten s ids).calls := (strokeEvents_eq S evs s ids).1

theorem strokeEvents_fresh {σ : Type} (S : Sink σ) (evs : List (List CReq)) (s : σ) (ids : List Nat)
    (h : wellScoped ids.length evs.flatten = true) : idsFresh ids (strokeEvents S evs s ids).calls = true := by
  rw [strokeEvents_calls_eq]
  exact runQ_fresh S _ s ids h

end Lyon.C04

namespace Lyon.C04
open Lyon Lyon.Tess

/-! ### offset shift -/

theorem too_many_vertices_aux (b : BB) (p : Nat) :
    (b.addVertex p).2 =
      if b.buf.vertices.length + 1 > b.cfg.max then .error .tooManyVertices else .ok b.buf.vertices.length := by
  simp only [BB.addVertex, List.length_append, List.length_cons, List.length_nil]
  split <;> simp

/-- `b'` is `b` with prior contents `Bv`, `Bi` in front and every id / index shifted by `|Bv|`. -/
structure Shifted (Bv Bi : List Nat) (b b' : BB) (ids ids' : List Nat) : Prop where
  vs : b'.buf.vertices = Bv ++ b.buf.vertices
  is : b'.buf.indices = Bi ++ b.buf.indices.map (· + Bv.length)
  idsEq : ids' = ids.map (· + Bv.length)
  cfg : b'.cfg = b.cfg
  off : b.vertexOffset = 0
  off' : b'.vertexOffset = 0
  lt : ∀ id ∈ ids, id < b.buf.vertices.length

theorem runQ_shift (Bv Bi : List Nat) : ∀ (core : List CReq) (b b' : BB) (ids ids' : List Nat),
    Shifted Bv Bi b b' ids ids' → wellScoped ids.length core = true →
    b'.buf.vertices.length + nVerts core ≤ b.cfg.max → b.cfg.max ≤ b.cfg.modulus → b.cfg.max ≤ idxMod →
    (runQ bbSink core b ids).err = none ∧ (runQ bbSink core b' ids').err = none ∧
    Shifted Bv Bi (runQ bbSink core b ids).st (runQ bbSink core b' ids').st
      (runQ bbSink core b ids).ids (runQ bbSink core b' ids').ids := by
  intro core
  induction core with
  | nil => intro b b' ids ids' h _ _ _ _; simpa [runQ] using h
  | cons r rest ih =>
    intro b b' ids ids' h hw hmax hm1 hm2
    have hlen' : b'.buf.vertices.length = Bv.length + b.buf.vertices.length := by simp [h.vs]
    cases r with
    | v p =>
      simp only [nVerts] at hmax
      simp only [wellScoped] at hw
      have hv : bbSink.vertex b p = b.addVertex p := rfl
      have hv' : bbSink.vertex b' p = b'.addVertex p := rfl
      have r1 := (too_many_vertices_aux b p)
      have r2 := (too_many_vertices_aux b' p)
      rw [if_neg (by omega)] at r1
      rw [if_neg (by rw [h.cfg]; omega)] at r2
      obtain ⟨c1, o1, _, v1, i1⟩ := addVertex_cfg b p
      obtain ⟨c2, o2, _, v2, i2⟩ := addVertex_cfg b' p
      have e1 : b.addVertex p = ((b.addVertex p).1, .ok b.buf.vertices.length) := by rw [← r1]
      have e2 : b'.addVertex p = ((b'.addVertex p).1, .ok b'.buf.vertices.length) := by rw [← r2]
      have hs : Shifted Bv Bi (b.addVertex p).1 (b'.addVertex p).1 (ids ++ [b.buf.vertices.length])
          (ids' ++ [b'.buf.vertices.length]) := by
        refine ⟨by simp [v1, v2, h.vs], by simp [i1, i2, h.is], by simp [h.idsEq, hlen']; omega, by rw [c1, c2, h.cfg],
          by rw [o1, h.off], by rw [o2, h.off'], ?_⟩
        intro id hid
        rcases List.mem_append.mp hid with hh | hh
        · have := h.lt id hh; simp [v1]; omega
        · simp at hh; subst hh; simp [v1]
      have := ih (b.addVertex p).1 (b'.addVertex p).1 _ _ hs (by simpa using hw)
        (by simp [v2]; rw [c1]; omega) (by rw [c1]; exact hm1) (by rw [c1]; exact hm2)
      rw [runQ, runQ, hv, hv', e1, e2]
      exact this
    | t x y z =>
      simp only [nVerts] at hmax
      simp only [wellScoped, Bool.and_eq_true, decide_eq_true_eq] at hw
      obtain ⟨⟨⟨hx, hy⟩, hz⟩, hr⟩ := hw
      have res : ∀ a, a < ids.length → resolve ids' a = resolve ids a + Bv.length ∧ resolve ids a < b.buf.vertices.length := by
        intro a ha
        have hm := resolve_mem ids a ha
        refine ⟨?_, h.lt _ hm⟩
        simp [resolve, h.idsEq, List.getD_eq_getElem?_getD, List.getElem?_eq_getElem ha, ha]
      have cv : ∀ a, a < ids.length → b'.conv (resolve ids' a) = b.conv (resolve ids a) + Bv.length := by
        intro a ha
        obtain ⟨e, l⟩ := res a ha
        have l1 : resolve ids a + Bv.length < idxMod := by omega
        have l2 : resolve ids a + Bv.length < b.cfg.modulus := by omega
        have l3 : resolve ids a < idxMod := by omega
        have l4 : resolve ids a < b.cfg.modulus := by omega
        simp only [BB.conv, e, h.off, h.off', h.cfg, Nat.add_zero, Nat.mod_eq_of_lt l1, Nat.mod_eq_of_lt l2,
          Nat.mod_eq_of_lt l3, Nat.mod_eq_of_lt l4]
      have ht : bbSink.tri b = b.addTriangle := rfl
      have ht' : bbSink.tri b' = b'.addTriangle := rfl
      have hs : Shifted Bv Bi (b.addTriangle (resolve ids x) (resolve ids y) (resolve ids z))
          (b'.addTriangle (resolve ids' x) (resolve ids' y) (resolve ids' z)) ids ids' := by
        refine ⟨h.vs, ?_, h.idsEq, h.cfg, h.off, h.off', h.lt⟩
        simp [BB.addTriangle, h.is, cv x hx, cv y hy, cv z hz]
      have := ih _ _ ids ids' hs hr hmax hm1 hm2
      rw [runQ, runQ, ht, ht']
      exact this

end Lyon.C04

namespace Lyon.C04
open Lyon Lyon.Tess

/-! ### the circle script is well scoped -/

theorem nVerts_append : ∀ (a b : List CReq), nVerts (a ++ b) = nVerts a + nVerts b := by
  intro a
  induction a with
  | nil => intro b; simp [nVerts]
  | cons r a ih => intro b; cases r <;> simp [nVerts, ih] <;> omega

theorem wellScoped_append : ∀ (a b : List CReq) (n : Nat),
    wellScoped n (a ++ b) = (wellScoped n a && wellScoped (n + nVerts a) b) := by
  intro a
  induction a with
  | nil => intro b n; simp [wellScoped, nVerts]
  | cons r a ih =>
    intro b n
    cases r with
    | v p => simp only [List.cons_append, wellScoped, nVerts, ih]; congr 2; omega
    | t x y z => simp only [List.cons_append, wellScoped, nVerts, ih, Bool.and_assoc]

theorem borderRadius_scoped : ∀ (n va vb next : Nat), va < next → vb < next →
    wellScoped next (borderRadius n va vb next).1 = true ∧
    (borderRadius n va vb next).2 = next + nVerts (borderRadius n va vb next).1 := by
  intro n
  induction n with
  | zero => intro va vb next _ _; simp [borderRadius, wellScoped, nVerts]
  | succ n ih =>
    intro va vb next ha hb
    obtain ⟨l1, l2⟩ := ih va next (next + 1) (by omega) (by omega)
    obtain ⟨r1, r2⟩ := ih next vb (borderRadius n va next (next + 1)).2 (by omega) (by omega)
    simp only [borderRadius, wellScoped, nVerts, wellScoped_append, nVerts_append, Bool.and_eq_true,
      decide_eq_true_eq]
    refine ⟨⟨⟨⟨by omega, by omega⟩, by omega⟩, l1, ?_⟩, ?_⟩
    · rw [← l2]; exact r1
    · rw [r2, l2]; omega

theorem circleQuadrants_scoped (n : Nat) : ∀ (q next : Nat), 4 ≤ next →
    wellScoped next (circleQuadrants n q next).1 = true ∧
    (circleQuadrants n q next).2 = next + nVerts (circleQuadrants n q next).1 := by
  intro q
  induction q with
  | zero => intro next _; simp [circleQuadrants, wellScoped, nVerts]
  | succ q ih =>
    intro next h4
    have hm : (3 - q + 1) % 4 < 4 := Nat.mod_lt _ (by omega)
    obtain ⟨x1, x2⟩ := borderRadius_scoped n (3 - q) ((3 - q + 1) % 4) next (by omega) (by omega)
    obtain ⟨y1, y2⟩ := ih (borderRadius n (3 - q) ((3 - q + 1) % 4) next).2 (by omega)
    simp only [circleQuadrants, wellScoped_append, nVerts_append, Bool.and_eq_true]
    exact ⟨⟨x1, by rw [← x2]; exact y1⟩, by rw [y2, x2]; omega⟩

end Lyon.C04

namespace Lyon.C04
open Lyon Lyon.Tess

/-! ### the repaired stroke and basic-shape skeletons are instances of the fill skeleton -/

theorem shapeRun_eq {σ : Type} (S : Sink σ) (script : List CReq) (s : σ) :
    shapeRun S script s = tessellateImpl S true script none s := by
  unfold shapeRun tessellateImpl
  dsimp only
  cases (runQ S script (S.begin s) []).err <;> simp

theorem strokeRun_eq {σ : Type} (S : Sink σ) (events : List (List CReq)) (s : σ) :
    (strokeRun S events s).trace = (tessellateImpl S true events.flatten none s).trace ∧
    (strokeRun S events s).result = (tessellateImpl S true events.flatten none s).result ∧
    (strokeRun S events s).st = (tessellateImpl S true events.flatten none s).st := by
  obtain ⟨h1, h2, h3⟩ := strokeEvents_eq S events (S.begin s) []
  unfold strokeRun tessellateImpl
  dsimp only
  rw [h1, h2, h3]
  cases (runQ S events.flatten (S.begin s) []).err <;> simp

end Lyon.C04

namespace Lyon.C04
open Lyon Lyon.Tess

/-! ### the skeleton's requests as direct builder calls; decidable protocol checker -/

/-- The builder calls (`Op`s, raw ids) that `runQ` makes for a request sequence. -/
def lower {σ : Type} (S : Sink σ) : List CReq → σ → List Nat → List Op
  | [], _, _ => []
  | .v p :: r, s, ids =>
      match S.vertex s p with
      | (s', .ok i) => .vertex p :: lower S r s' (ids ++ [i])
      | (_, .error _) => [.vertex p]
  | .t a b c :: r, s, ids =>
      .tri (resolve ids a) (resolve ids b) (resolve ids c) ::
        lower S r (S.tri s (resolve ids a) (resolve ids b) (resolve ids c)) ids

theorem lower_body {σ : Type} (S : Sink σ) : ∀ (core : List CReq) (s : σ) (ids : List Nat),
    ∀ o ∈ lower S core s ids, Op.isBody o = true := by
  intro core
  induction core with
  | nil => intro s ids o ho; simp [lower] at ho
  | cons r rest ih =>
    intro s ids o ho
    cases r with
    | v p =>
      rcases hv : S.vertex s p with ⟨s', (i | e)⟩
      · simp only [lower, hv, List.mem_cons] at ho
        rcases ho with rfl | ho
        · rfl
        · exact ih _ _ o ho
      · simp only [lower, hv, List.mem_cons, List.not_mem_nil, or_false] at ho
        subst ho; rfl
    | t a b c =>
      simp only [lower, List.mem_cons] at ho
      rcases ho with rfl | ho
      · rfl
      · exact ih _ _ o ho

/-- `Sink.exec` on the lowered calls is `runQ`: same final builder state, same recorded calls. -/
theorem exec_lower {σ : Type} (S : Sink σ) : ∀ (core : List CReq) (s : σ) (ids : List Nat),
    S.exec (lower S core s ids) s = ((runQ S core s ids).st, (runQ S core s ids).calls) := by
  intro core
  induction core with
  | nil => intro s ids; simp [lower, Sink.exec, runQ]
  | cons r rest ih =>
    intro s ids
    cases r with
    | v p =>
      rcases hv : S.vertex s p with ⟨s', (i | e)⟩
      · simp only [lower, hv, Sink.exec, runQ, ih s' (ids ++ [i])]
      · simp [lower, hv, Sink.exec, runQ]
    | t a b c =>
      simp only [lower, Sink.exec, runQ, ih]

/-- Body calls up to one terminator, which must match the result. -/
def bodyThenTerm : List Call → Option TErr → Bool
  | [], _ => false
  | [t], res => (decide (t = .endG) && res.isNone) || (decide (t = .abort) && res.isSome)
  | c :: r, res => c.isBody && bodyThenTerm r res

/-- Decidable form of `Protocol`. -/
def protocolB (tr : List Call) (res : Option TErr) : Bool :=
  (match tr with
   | .begin :: rest => bodyThenTerm rest res
   | _ => false) &&
  (match firstRefusal tr with
   | none => true
   | some e => decide (res = some (.geometryBuilder e)))

theorem bodyThenTerm_iff (res : Option TErr) : ∀ l : List Call,
    bodyThenTerm l res = true ↔
      ∃ body term, l = body ++ [term] ∧ (∀ c ∈ body, c.isBody = true) ∧
        ((res = none ∧ term = .endG) ∨ (res ≠ none ∧ term = .abort)) := by
  intro l
  induction l with
  | nil => simp [bodyThenTerm]
  | cons c r ih =>
    cases r with
    | nil =>
      simp only [bodyThenTerm, Bool.or_eq_true, Bool.and_eq_true, decide_eq_true_eq]
      constructor
      · rintro (⟨rfl, h⟩ | ⟨rfl, h⟩)
        · exact ⟨[], .endG, rfl, by simp, Or.inl ⟨by simpa [Option.isNone_iff_eq_none] using h, rfl⟩⟩
        · exact ⟨[], .abort, rfl, by simp,
            Or.inr ⟨by intro hn; rw [hn] at h; simp at h, rfl⟩⟩
      · rintro ⟨body, term, h, hb, hc⟩
        cases body with
        | nil =>
          simp only [List.nil_append, List.cons.injEq, and_true] at h
          subst h
          rcases hc with ⟨hr, rfl⟩ | ⟨hr, rfl⟩
          · exact Or.inl ⟨rfl, by simp [hr]⟩
          · exact Or.inr ⟨rfl, by cases res <;> simp_all⟩
        | cons x xs =>
          have := congrArg List.length h
          simp at this
    | cons d r' =>
      have hstep : bodyThenTerm (c :: d :: r') res = (c.isBody && bodyThenTerm (d :: r') res) := by
        simp [bodyThenTerm]
      rw [hstep, Bool.and_eq_true, ih]
      constructor
      · rintro ⟨hc, body, term, h, hb, hcond⟩
        refine ⟨c :: body, term, by simp [h], ?_, hcond⟩
        intro x hx
        simp only [List.mem_cons] at hx
        rcases hx with rfl | hx
        · exact hc
        · exact hb x hx
      · rintro ⟨body, term, h, hb, hcond⟩
        cases body with
        | nil => simp at h
        | cons x xs =>
          simp only [List.cons_append, List.cons.injEq] at h
          obtain ⟨rfl, h⟩ := h
          exact ⟨hb _ (by simp), xs, term, h, fun y hy => hb y (by simp [hy]), hcond⟩

end Lyon.C04
