/-
  C02 growth 3 (`Props/C02f.lean`), part 1: point-level geometry for the POINT-SET tiling proof of
  the basic monotone tessellator.

  * the sweep order on points is total (`after_total`), its direction cone `Hv` is closed under
    positive combinations (`hv_comb2`);
  * `InTri a b c q` — `q` lies strictly inside the (positively oriented) triangle `(a, b, c)`:
    `wind a b q, wind b c q, wind c a q > 0`; `InTriS σ x y z` — the same for a triangle listed in
    sweep order `x < y < z` whose middle vertex sticks out on side `σ`;
  * barycentric identities (`bary_sum`, `bary_wind`, `bary_x`, `bary_y`): polynomial identities,
    no division;
  * a point strictly inside a triangle lies strictly between its first and last vertex in sweep
    order (`inTriS_after`) and strictly on that side of a line on which the three vertices lie
    weakly, one of them strictly (`inTriS_side`);
  * three "turn" lemmas (`turn_from_x`, `turn_to_z`, `turn_outer`): consequences of `cross_trans`
    that move the half-plane test of a point from one edge of a triangle to another.
-/
import LyonVerif.Lemmas.MonotoneGeomInv

set_option linter.unusedSectionVars false
set_option linter.unusedVariables false
set_option linter.unusedSimpArgs false

namespace Lyon.C02f
open Lyon Lyon.Mono Lyon.C02 Lyon.C02c

section Geometry
variable {K : Type} [Field K] [LinearOrder K] [IsStrictOrderedRing K]

/-! ## the sweep order -/

theorem after_of_hv {a b : P K} (h : Hv (a - b)) : After a b := by
  rcases h with h | ⟨h1, h2⟩
  · left; simp only [geom] at h; linarith
  · right; simp only [geom] at h1 h2; exact ⟨by linarith, by linarith⟩

theorem after_total (a b : P K) : After a b ∨ a = b ∨ After b a := by
  rcases lt_trichotomy a.y b.y with h | h | h
  · right; right; left; exact h
  · rcases lt_trichotomy a.x b.x with g | g | g
    · right; right; right; exact ⟨h.symm, g⟩
    · right; left; exact P.ext' g h
    · left; right; exact ⟨h, g⟩
  · left; left; exact h

theorem after_asymm {a b : P K} (h : After a b) : ¬ After b a :=
  fun g => after_irrefl a (after_trans h g)

theorem after_ne {a b : P K} (h : After a b) : a ≠ b := fun e => after_irrefl b (e ▸ h)

/-- `a ≤ q` in sweep order -/
def AfterEq (q a : P K) : Prop := q = a ∨ After q a

theorem afterEq_trans_after {q a b : P K} (h1 : AfterEq q a) (h2 : After a b) : After q b := by
  rcases h1 with e | e
  · rw [e]; exact h2
  · exact after_trans e h2

theorem after_trans_afterEq {q a b : P K} (h1 : After q a) (h2 : AfterEq a b) : After q b := by
  rcases h2 with e | e
  · rw [← e]; exact h1
  · exact after_trans h1 e

theorem afterEq_trans {q a b : P K} (h1 : AfterEq q a) (h2 : AfterEq a b) : AfterEq q b := by
  rcases h2 with e | e
  · rw [← e]; exact h1
  · exact Or.inr (afterEq_trans_after h1 e)

theorem afterEq_of_not_after {q a : P K} (h : ¬ After a q) : AfterEq q a := by
  rcases after_total q a with g | g | g
  · exact Or.inr g
  · exact Or.inl g
  · exact absurd g h

theorem not_after_of_afterEq {q a : P K} (h : AfterEq q a) : ¬ After a q := by
  rcases h with e | e
  · rw [e]; exact after_irrefl a
  · exact after_asymm e

/-- `q` is in the half-open sweep interval `[a, b)` -/
def Span (a b q : P K) : Prop := AfterEq q a ∧ After b q

/-- a positive combination of two sweep directions is a sweep direction -/
theorem hv_comb2 {u v w : P K} {s t W : K} (hu : Hv u) (hv : Hv v) (hs : 0 < s) (ht : 0 < t) (hW : 0 < W)
    (ex : W * w.x = s * u.x + t * v.x) (ey : W * w.y = s * u.y + t * v.y) : Hv w := by
  have huy : 0 ≤ u.y := by rcases hu with h | ⟨h, _⟩; exact le_of_lt h; exact le_of_eq h.symm
  have hvy : 0 ≤ v.y := by rcases hv with h | ⟨h, _⟩; exact le_of_lt h; exact le_of_eq h.symm
  by_cases h0 : 0 < s * u.y + t * v.y
  · left
    rw [← ey] at h0
    exact (pos_iff_pos_of_mul_pos h0).mp hW
  · have h1 : s * u.y + t * v.y = 0 :=
      le_antisymm (not_lt.mp h0) (add_nonneg (mul_nonneg hs.le huy) (mul_nonneg ht.le hvy))
    have hu0 : u.y = 0 := by
      have : s * u.y ≤ 0 := by nlinarith [mul_nonneg ht.le hvy]
      have : u.y ≤ 0 := by
        by_contra hh
        have := mul_pos hs (not_le.mp hh)
        linarith
      linarith
    have hv0 : v.y = 0 := by
      have : t * v.y ≤ 0 := by nlinarith [mul_nonneg hs.le huy]
      have : v.y ≤ 0 := by
        by_contra hh
        have := mul_pos ht (not_le.mp hh)
        linarith
      linarith
    have hux : 0 < u.x := by
      rcases hu with h | ⟨_, h⟩
      · rw [hu0] at h; exact absurd h (lt_irrefl _)
      · exact h
    have hvx : 0 < v.x := by
      rcases hv with h | ⟨_, h⟩
      · rw [hv0] at h; exact absurd h (lt_irrefl _)
      · exact h
    right
    constructor
    · rw [h1] at ey
      rcases mul_eq_zero.mp ey with e | e
      · exact absurd e (ne_of_gt hW)
      · exact e
    · have : 0 < W * w.x := by rw [ex]; exact add_pos (mul_pos hs hux) (mul_pos ht hvx)
      exact (pos_iff_pos_of_mul_pos this).mp hW

/-! ## `wind` as a cross product of sweep directions -/

theorem wind_cross_a (a b q : P K) : wind a b q = (q - a).cross (b - a) := by
  simp only [wind]; geom_ring

theorem wind_cross_b (a b q : P K) : wind a b q = (b - a).cross (b - q) := by
  simp only [wind]; geom_ring

theorem wind_self_right (a b : P K) : wind a b b = 0 := by simp only [wind]; geom_ring
theorem wind_self_left (a b : P K) : wind a b a = 0 := by simp only [wind]; geom_ring

theorem sg_not (c : Bool) : (sg (!c) : K) = -sg c := by cases c <;> simp [sg]
theorem sg_mul_self (c : Bool) : (sg c : K) * sg c = 1 := by cases c <;> simp [sg]

/-- swapping the first two vertices = changing the side -/
theorem sg_wind_swap (c : Bool) (a b q : P K) : sg (!c) * wind b a q = sg c * wind a b q := by
  rw [sg_not, wind_swap]; ring

/-! ## barycentric identities (polynomial; no division) -/

theorem bary_sum (x y z q : P K) : wind x y z = wind y z q + wind z x q + wind x y q := by
  simp only [wind]; geom_ring

theorem bary_wind (x y z q a b : P K) :
    wind x y z * wind a b q = wind y z q * wind a b x + wind z x q * wind a b y + wind x y q * wind a b z := by
  simp only [wind]; geom_ring

theorem bary_x (x y z q p : P K) :
    wind x y z * (q.x - p.x) = wind y z q * (x.x - p.x) + wind z x q * (y.x - p.x) + wind x y q * (z.x - p.x) := by
  simp only [wind]; geom_ring

theorem bary_y (x y z q p : P K) :
    wind x y z * (q.y - p.y) = wind y z q * (x.y - p.y) + wind z x q * (y.y - p.y) + wind x y q * (z.y - p.y) := by
  simp only [wind]; geom_ring

/-! ## points strictly inside a triangle -/

/-- `q` lies strictly inside the triangle `(a, b, c)` taken in a positively oriented order
(`wind a b c > 0`; the predicate is empty for a negatively oriented or degenerate triple, see
`inTri_pos`) -/
def InTri (a b c q : P K) : Prop := 0 < wind a b q ∧ 0 < wind b c q ∧ 0 < wind c a q

/-- the same for a triangle listed in sweep order `x, y, z` whose orientation is given by the
side `σ` on which `y` sticks out of `x → z` -/
def InTriS (σ : Bool) (x y z q : P K) : Prop :=
  0 < sg σ * wind x y q ∧ 0 < sg σ * wind y z q ∧ 0 < sg σ * wind z x q

theorem inTri_pos {a b c q : P K} (h : InTri a b c q) : 0 < wind a b c := by
  rw [bary_sum a b c q]; linarith [h.1, h.2.1, h.2.2]

theorem inTriS_true (x y z q : P K) : InTriS true x y z q ↔ InTri x y z q := by
  simp [InTriS, InTri, sg]

theorem inTriS_false (x y z q : P K) : InTriS false x y z q ↔ InTri y x z q := by
  simp only [InTriS, InTri, sg, Bool.false_eq_true, if_false, neg_one_mul]
  rw [wind_swap x y q, wind_swap z x q, wind_swap y z q]
  constructor
  · rintro ⟨h1, h2, h3⟩; exact ⟨by linarith, by linarith, by linarith⟩
  · rintro ⟨h1, h2, h3⟩; exact ⟨by linarith, by linarith, by linarith⟩

theorem inTriS_pos {σ : Bool} {x y z q : P K} (h : InTriS σ x y z q) : 0 < sg σ * wind x y z := by
  rw [bary_sum x y z q]; linarith [h.1, h.2.1, h.2.2]

/-- a point strictly inside a triangle on sweep-sorted vertices lies strictly between the first
and the last vertex in sweep order -/
theorem inTriS_after {σ : Bool} {x y z q : P K} (hyx : After y x) (hzy : After z y)
    (h : InTriS σ x y z q) : After q x ∧ After z q := by
  have hW := inTriS_pos h
  obtain ⟨hc, ha, hb⟩ := h
  have hzx := after_trans hzy hyx
  constructor
  · apply after_of_hv
    refine hv_comb2 (after_hv hyx) (after_hv hzx) hb hc hW ?_ ?_
    · have := bary_x x y z q x
      simp only [geom]; linear_combination (sg σ) * this
    · have := bary_y x y z q x
      simp only [geom]; linear_combination (sg σ) * this
  · apply after_of_hv
    refine hv_comb2 (after_hv hzx) (after_hv hzy) ha hb hW ?_ ?_
    · have := bary_x x y z q z
      simp only [geom]; linear_combination (-(sg σ)) * this
    · have := bary_y x y z q z
      simp only [geom]; linear_combination (-(sg σ)) * this

/-- a point strictly inside a triangle is strictly on the side of a line `o₁ → o₂` on which the
three vertices lie weakly and the middle one strictly -/
theorem inTriS_side {σ τ : Bool} {x y z q o1 o2 : P K} (h : InTriS σ x y z q)
    (hx : 0 ≤ sg τ * wind o1 o2 x) (hy : 0 < sg τ * wind o1 o2 y) (hz : 0 ≤ sg τ * wind o1 o2 z) :
    0 < sg τ * wind o1 o2 q := by
  have hW := inTriS_pos h
  obtain ⟨hc, ha, hb⟩ := h
  have e := bary_wind x y z q o1 o2
  have : 0 < (sg σ * wind x y z) * (sg τ * wind o1 o2 q) := by
    have e' : (sg σ * wind x y z) * (sg τ * wind o1 o2 q) =
        (sg σ * wind y z q) * (sg τ * wind o1 o2 x) + (sg σ * wind z x q) * (sg τ * wind o1 o2 y)
          + (sg σ * wind x y q) * (sg τ * wind o1 o2 z) := by
      linear_combination (sg σ * sg τ) * e
    rw [e']
    have := mul_nonneg ha.le hx
    have := mul_pos hb hy
    have := mul_nonneg hc.le hz
    linarith
  exact (pos_iff_pos_of_mul_pos this).mp hW

theorem cross_flip (a b : P K) : a.cross b = -(b.cross a) := by geom_ring

/-! ## turn lemmas -/

/-- `y` sticks out of `x → z` on side `c` and `q` (after `x`) is strictly on the inner side of
`x → z` ⟹ `q` is strictly on the inner side of `x → y` -/
theorem turn_from_x (c : Bool) {x y z q : P K} (hy : After y x) (hz : After z x) (hq : AfterEq q x)
    (h1 : 0 < sg c * wind x y z) (h2 : 0 < sg c * wind x z q) : 0 < sg c * wind x y q := by
  rcases hq with e | hq
  · rw [e, wind_self_left] at h2; simp at h2
  have hu := after_hv hy
  have hv := after_hv hz
  have hw := after_hv hq
  rw [wind_cross_a] at h1 h2 ⊢
  cases c
  · simp only [sg, Bool.false_eq_true, if_false, neg_one_mul] at h1 h2 ⊢
    have a1 : 0 < (y - x).cross (z - x) := by rw [cross_flip]; linarith
    have a2 : 0 < (z - x).cross (q - x) := by rw [cross_flip]; linarith
    have := cross_trans hu hv hw a1 a2
    rw [cross_flip] at this; linarith
  · simp only [sg, if_true, one_mul] at h1 h2 ⊢
    exact cross_trans hw hv hu h2 h1

/-- the same seen from the far end: `q` (before `z`) strictly on the inner side of `x → z` ⟹
strictly on the inner side of `y → z` -/
theorem turn_to_z (c : Bool) {x y z q : P K} (hzx : After z x) (hzy : After z y) (hzq : After z q)
    (h1 : 0 < sg c * wind x y z) (h2 : 0 < sg c * wind x z q) : 0 < sg c * wind y z q := by
  have hv := after_hv hzx
  have hu := after_hv hzy
  have hw := after_hv hzq
  have e1 : wind x y z = (z - y).cross (z - x) := by simp only [wind]; geom_ring
  rw [e1] at h1
  rw [wind_cross_b] at h2 ⊢
  cases c
  · simp only [sg, Bool.false_eq_true, if_false, neg_one_mul] at h1 h2 ⊢
    have a1 : 0 < (z - x).cross (z - y) := by rw [cross_flip]; linarith
    have a2 : 0 < (z - q).cross (z - x) := by rw [cross_flip]; linarith
    have := cross_trans hw hv hu a2 a1
    rw [cross_flip] at this; linarith
  · simp only [sg, if_true, one_mul] at h1 h2 ⊢
    exact cross_trans hu hv hw h1 h2

/-- `b` sticks out of `a → d` on side `c`; `q` (before `d`) strictly on the outer side of `b → d`
⟹ strictly on the outer side of `a → d` -/
theorem turn_outer (c : Bool) {a b d q : P K} (hda : After d a) (hdb : After d b) (hdq : After d q)
    (h1 : 0 < sg c * wind a b d) (h2 : sg c * wind b d q < 0) : sg c * wind a d q < 0 := by
  have hv := after_hv hda
  have hu := after_hv hdb
  have hw := after_hv hdq
  have e1 : wind a b d = (d - b).cross (d - a) := by simp only [wind]; geom_ring
  rw [e1] at h1
  rw [wind_cross_b] at h2 ⊢
  cases c
  · simp only [sg, Bool.false_eq_true, if_false, neg_one_mul] at h1 h2 ⊢
    have a1 : 0 < (d - a).cross (d - b) := by rw [cross_flip]; linarith
    have a2 : 0 < (d - b).cross (d - q) := by linarith
    have := cross_trans hv hu hw a1 a2
    linarith
  · simp only [sg, if_true, one_mul] at h1 h2 ⊢
    have a2 : 0 < (d - q).cross (d - b) := by rw [cross_flip]; linarith
    have := cross_trans hw hu hv a2 h1
    rw [cross_flip] at this; linarith

end Geometry

end Lyon.C02f
