/-
  C17c: a reference interpreter of path data in which an arc command denotes exactly what
  `crates/extra/src/parser.rs` does with it, and the proof that the parser's own builder calls —
  WITH their attributes, for EVERY text — are that interpreter applied to the command list read.

  * `ACmd`        — an `SvgPathBuilder` command (`SCmd`, raw operands, `Lemmas/ParserConcreteSvg`)
                    together with the custom attribute values written after its end point.
  * `loopACmds`/`parseACmds` — the commands of the completed iterations, each with the attribute
                    buffer `parse_attributes` left (`St.attrs` after the iteration).
  * `refStep`     — the reference: every command except `A`/`a` is the SVG reference semantics of
                    C15 (`Svg.Spec.step`) with the command's attributes attached to its call;
                    `A`/`a` is `refArc`:
                      - only inside an open sub-path (the parser rejects it elsewhere);
                      - `is_straight_line` ⇒ `line_to(to, attrs)`;
                      - otherwise one `quadratic_bezier_to(ctrl, to_i, prev*(1-t_i) + attrs*t_i)` per
                        piece of `svg_arc.to_arc().for_each_quadratic_bezier_with_t` (`Num.arc`),
                        NO connecting `line_to`/`move_to` to the arc's computed start point;
                      - current point := the `to` operand itself (not the last piece's end);
                      - no control point is remembered (a smooth command afterwards reflects nothing).
  * `loop_ref`    — whole parses, success or error.
-/
import LyonVerif.Lemmas.ParserConcreteArcFree

set_option linter.unusedVariables false
set_option linter.unusedSectionVars false

namespace Lyon.Parser
open Lyon.Path Lyon.Svg

variable {ν : Type}

/-- a command with the attribute values written after its end point -/
abbrev ACmd (ν : Type) := SCmd ν × List ν

def ps (p : Svg.Pt ν) : Parser.Pt ν := (p.x, p.y)

/-- a reference call with attributes attached -/
def attach (a : List ν) : Call (Svg.Pt ν) Unit → PCall ν
  | .begin p _ => .begin (ps p) a
  | .line p _ => .line (ps p) a
  | .quad c p _ => .quad (ps c) (ps p) a
  | .cubic c1 c2 p _ => .cubic (ps c1) (ps c2) (ps p) a
  | .end_ b => .end_ b

/-- the call carries the attribute list `a` (`end` carries none) -/
def AttrOK (a : List ν) : PCall ν → Prop
  | .end_ _ => True
  | .begin _ b => b = a
  | .line _ b => b = a
  | .quad _ _ b => b = a
  | .cubic _ _ _ b => b = a

theorem attach_erase {a : List ν} {c : PCall ν} (h : AttrOK a c) : attach a (eraseCall c) = c := by
  cases c <;> simp_all [attach, eraseCall, AttrOK, sp, ps]

/-- reference state: the SVG reference state and the previous attribute buffer -/
structure RSt (ν : Type) where
  sp : Svg.Spec ν
  attrs : List ν

/-- the `SvgArc` operands the parser hands to lyon_geom -/
def arcArgsOf (s : RSt ν) (r : RawArc ν) (p : Svg.Pt ν) (a : List ν) : ArcArgs ν :=
  { from_ := ps s.sp.cur, rx := r.1, ry := r.2.1, rot := r.2.2.1, large := r.2.2.2.1,
    sweep := r.2.2.2.2, to := ps p, prevAttrs := s.attrs, attrs := a }

/-- what parser.rs does with an arc whose (absolute) target is `p` -/
def refArc (N : Num ν) (s : RSt ν) (r : RawArc ν) (p : Svg.Pt ν) (a : List ν) :
    RSt ν × List (PCall ν) :=
  if s.sp.isOpen then
    ({ sp := { s.sp with cur := p, prev := .arc }, attrs := a },
     if N.arcStraight (arcArgsOf s r p a) then [.line (ps p) a]
     else
       match N.arc 0 (arcArgsOf s r p a) with
       | some qs => qs.map (fun q => Call.quad q.1 q.2.1 (interpAttrs N s.attrs a q.2.2))
       | none => [])
  else (s, [])

/-- the geometry parameter of `Svg.Spec.step` is not consulted for the commands path data can
express other than arcs -/
def noGeo : Svg.Geo ν (RawArc ν) := ⟨fun _ _ => .skip, fun _ _ _ => .straight⟩

section sim
variable [Add ν] [Sub ν]

/-- the reference interpreter, one command -/
def refStep (N : Num ν) (s : RSt ν) (c : ACmd ν) : RSt ν × List (PCall ν) :=
  match c.1 with
  | .arcTo r p => refArc N s r p c.2
  | .relArcTo r v => refArc N s r (s.sp.cur + v) c.2
  | cmd => ({ sp := (s.sp.step noGeo cmd).1, attrs := c.2 }, (s.sp.step noGeo cmd).2.map (attach c.2))

def refRun (N : Num ν) (s : RSt ν) : List (ACmd ν) → RSt ν × List (PCall ν)
  | [] => (s, [])
  | c :: r => ((refRun N (refStep N s c).1 r).1, (refStep N s c).2 ++ (refRun N (refStep N s c).1 r).2)

/-- end of the data: the open sub-path, if any, is ended (not closed) -/
def refEnd (s : RSt ν) : List (PCall ν) := if s.sp.isOpen then [.end_ false] else []

/-- the path a command list denotes -/
def refBuild (N : Num ν) (cmds : List (ACmd ν)) : List (PCall ν) :=
  (refRun N ⟨Svg.Spec.init N.zero, []⟩ cmds).2 ++ refEnd (refRun N ⟨Svg.Spec.init N.zero, []⟩ cmds).1

theorem refStep_notArc (N : Num ν) (s : RSt ν) (c : ACmd ν) (h : c.1.isArc = false) :
    refStep N s c =
      ({ sp := (s.sp.step noGeo c.1).1, attrs := c.2 }, (s.sp.step noGeo c.1).2.map (attach c.2)) := by
  obtain ⟨cmd, a⟩ := c
  cases cmd <;> first | rfl | (simp [Svg.Cmd.isArc] at h)

end sim

/-! ### the commands with their attributes -/

/-- the commands of the iterations of `Parser.loop` that complete, each with the attribute buffer
after it -/
def loopACmds (N : Num ν) (na : Nat) (stop : Option Char) : Nat → St ν → Src → List (ACmd ν)
  | 0, _, _ => []
  | fuel + 1, st, s =>
    if s.fin then []
    else if stop == some s.cur then []
    else
      match step N na st s with
      | .cont st' s' _ => (cmdAt N na st s, st'.attrs) :: loopACmds N na stop fuel st' s'.skipWs
      | .fail .. => []
      | .panic .. => []

def parseACmds (N : Num ν) (na : Nat) (stop : Option Char) (inp : List Char) : List (ACmd ν) :=
  loopACmds N na stop (inp.length + 1) (St.init N) (Src.new inp).skipWs

theorem loopACmds_succ (N : Num ν) (na : Nat) (stop : Option Char) (fuel : Nat) (st : St ν)
    (x : Src) :
    loopACmds N na stop (fuel + 1) st x =
      if x.fin then []
      else if stop == some x.cur then []
      else
        match step N na st x with
        | .cont st' x' _ => (cmdAt N na st x, st'.attrs) :: loopACmds N na stop fuel st' x'.skipWs
        | .fail .. => []
        | .panic .. => [] := rfl

/-- forgetting the attributes gives the command list of C17b -/
theorem loopACmds_fst (N : Num ν) (na : Nat) (stop : Option Char) (fuel : Nat) :
    ∀ (st : St ν) (x : Src),
      (loopACmds N na stop fuel st x).map Prod.fst = loopCmds N na stop fuel st x := by
  induction fuel with
  | zero => intro st x; rfl
  | succ fuel ih =>
    intro st x
    rw [loopACmds_succ, loopCmds_succ2]
    by_cases hf : x.fin = true
    · simp [hf]
    by_cases hstop : (stop == some x.cur) = true
    · simp [hf, hstop]
    simp only [hf, hstop, if_false, Bool.false_eq_true]
    cases hstep : step N na st x with
    | cont st' x' em => simp [ih]
    | fail e ne x' em => rfl
    | panic x' em => rfl

/-! ### attributes of the calls of one iteration -/

theorem cmdL_attrs (N : Num ν) (na rel) (st : St ν) (s o s') (h : cmdL N na rel st s = .ok o s') :
    ∀ c ∈ o.1, AttrOK o.2.attrs c := by
  unfold cmdL at h
  obtain ⟨e, s1, _, h⟩ := bind_ok h
  rw [(pure_ok h).1]; simp [AttrOK]

theorem cmdH_attrs (N : Num ν) (na rel) (st : St ν) (s o s') (h : cmdH N na rel st s = .ok o s') :
    ∀ c ∈ o.1, AttrOK o.2.attrs c := by
  unfold cmdH at h
  obtain ⟨_, _, _, h⟩ := bind_ok h
  obtain ⟨_, _, _, h⟩ := bind_ok h
  rw [(pure_ok h).1]; simp [AttrOK]

theorem cmdV_attrs (N : Num ν) (na rel) (st : St ν) (s o s') (h : cmdV N na rel st s = .ok o s') :
    ∀ c ∈ o.1, AttrOK o.2.attrs c := by
  unfold cmdV at h
  obtain ⟨_, _, _, h⟩ := bind_ok h
  obtain ⟨_, _, _, h⟩ := bind_ok h
  rw [(pure_ok h).1]; simp [AttrOK]

theorem cmdQ_attrs (N : Num ν) (na rel) (st : St ν) (s o s') (h : cmdQ N na rel st s = .ok o s') :
    ∀ c ∈ o.1, AttrOK o.2.attrs c := by
  unfold cmdQ at h
  obtain ⟨_, _, _, h⟩ := bind_ok h
  obtain ⟨_, _, _, h⟩ := bind_ok h
  rw [(pure_ok h).1]; simp [AttrOK]

theorem cmdT_attrs (N : Num ν) (na rel) (st : St ν) (s o s') (h : cmdT N na rel st s = .ok o s') :
    ∀ c ∈ o.1, AttrOK o.2.attrs c := by
  unfold cmdT at h
  obtain ⟨_, _, _, h⟩ := bind_ok h
  rw [(pure_ok h).1]; simp [AttrOK]

theorem cmdC_attrs (N : Num ν) (na rel) (st : St ν) (s o s') (h : cmdC N na rel st s = .ok o s') :
    ∀ c ∈ o.1, AttrOK o.2.attrs c := by
  unfold cmdC at h
  obtain ⟨_, _, _, h⟩ := bind_ok h
  obtain ⟨_, _, _, h⟩ := bind_ok h
  obtain ⟨_, _, _, h⟩ := bind_ok h
  rw [(pure_ok h).1]; simp [AttrOK]

theorem cmdS_attrs (N : Num ν) (na rel) (st : St ν) (s o s') (h : cmdS N na rel st s = .ok o s') :
    ∀ c ∈ o.1, AttrOK o.2.attrs c := by
  unfold cmdS at h
  obtain ⟨_, _, _, h⟩ := bind_ok h
  obtain ⟨_, _, _, h⟩ := bind_ok h
  rw [(pure_ok h).1]; simp [AttrOK]

theorem edgeCmd_attrs (N : Num ν) (na : Nat) (cmd : Char) (st : St ν) (m : PM (EdgeOut ν))
    (h : edgeCmd N na cmd st = some m) (s o s') (hm : m s = .ok o s') :
    ∀ c ∈ o.1, AttrOK o.2.attrs c := by
  unfold edgeCmd at h
  split at h
  · cases h; exact cmdL_attrs _ _ _ _ _ _ _ hm
  split at h
  · cases h; exact cmdH_attrs _ _ _ _ _ _ _ hm
  split at h
  · cases h; exact cmdV_attrs _ _ _ _ _ _ _ hm
  split at h
  · cases h; exact cmdQ_attrs _ _ _ _ _ _ _ hm
  split at h
  · cases h; exact cmdT_attrs _ _ _ _ _ _ _ hm
  split at h
  · cases h; exact cmdC_attrs _ _ _ _ _ _ _ hm
  split at h
  · cases h; exact cmdS_attrs _ _ _ _ _ _ _ hm
  · cases h

def StepAttrs : StepOut ν → Prop
  | .cont st' _ em => ∀ e ∈ em, AttrOK st'.attrs e.2
  | _ => True

/-- every call of a completed non-arc iteration carries the new attribute buffer -/
theorem step_attrs (N : Num ν) (na : Nat) (st : St ν) (x : Src) (ha : cmdOf st x ≠ 'a')
    (hA : cmdOf st x ≠ 'A') : StepAttrs (step N na st x) := by
  unfold step
  split
  · trivial
  unfold dispatchCmd
  split
  · rename_i m hm
    unfold runEdge
    split
    · rename_i o x' heq
      have := edgeCmd_attrs N na _ st m hm _ _ _ heq
      intro e he
      simp only [emitAt, List.mem_map] at he
      obtain ⟨c, hc, rfl⟩ := he
      exact this c hc
    · trivial
  split
  · rename_i h
    rcases cmd_cases h with h | h
    · exact absurd h ha
    · exact absurd h hA
  split
  · unfold runMove
    split
    · intro e he
      cases hne : st.needEnd <;> simp [hne, emitAt] at he
      · subst he; simp [St.after, AttrOK]
      · rcases he with rfl | rfl <;> simp [St.after, AttrOK]
    · trivial
  split
  · unfold runClose
    intro e he
    simp [emitAt] at he
    subst he; trivial
  · trivial

/-! ### the simulation -/

section sim
variable [Add ν] [Sub ν]

structure RelA (st : St ν) (rs : RSt ν) : Prop where
  rel : Rel st rs.sp
  attrs : rs.attrs = st.attrs

theorem ps_sp (p : Parser.Pt ν) : ps (sp p) = p := rfl

theorem cmdAArgs_raw2 (N : Num ν) (na : Nat) (rel : Bool) (st : St ν) (x : Src) (a : ArcArgs ν)
    (x' : Src) (h : cmdAArgs N na rel st x = .ok a x') :
    ∃ (r : RawArc ν) (v : Svg.Pt ν),
      rdA N na rel x = .ok (if rel then .relArcTo r v else .arcTo r v) x' ∧
      a = { from_ := st.cur, rx := r.1, ry := r.2.1, rot := r.2.2.1, large := r.2.2.2.1,
            sweep := r.2.2.2.2, to := (relX N rel st.cur v.x, relY N rel st.cur v.y),
            prevAttrs := st.attrs, attrs := a.attrs } := by
  unfold cmdAArgs at h
  obtain ⟨rx, s1, h1, h⟩ := bind_ok h
  obtain ⟨ry, s2, h2, h⟩ := bind_ok h
  obtain ⟨rot, s3, h3, h⟩ := bind_ok h
  obtain ⟨lg, s4, h4, h⟩ := bind_ok h
  obtain ⟨sw, s5, h5, h⟩ := bind_ok h
  obtain ⟨e, s6, h6, h⟩ := bind_ok h
  obtain ⟨v, hv, hev⟩ := parseEndpoint_raw N na rel st.cur s5 e s6 h6
  have hp := pure_ok h
  refine ⟨(rx, ry, rot, lg, sw), v, ?_, ?_⟩
  · unfold rdA
    rw [bind_of_ok h1, bind_of_ok h2, bind_of_ok h3, bind_of_ok h4, bind_of_ok h5, bind_of_ok hv,
      hp.2]; rfl
  · rw [hp.1, ← hev]

theorem refArc_open (N : Num ν) (s : RSt ν) (r : RawArc ν) (p : Svg.Pt ν) (a : List ν)
    (hop : s.sp.isOpen = true) :
    refArc N s r p a =
      (({ sp := { s.sp with cur := p, prev := .arc }, attrs := a } : RSt ν),
       if N.arcStraight (arcArgsOf s r p a) then [.line (ps p) a]
       else
         match N.arc 0 (arcArgsOf s r p a) with
         | some qs => qs.map (fun q => Call.quad q.1 q.2.1 (interpAttrs N s.attrs a q.2.2))
         | none => []) := by
  unfold refArc; rw [if_pos hop]

def ArcSim (N : Num ν) (rs : RSt ν) (r : RawArc ν) (p : Svg.Pt ν) (a : ArcArgs ν) :
    StepOut ν → Prop
  | .cont st' _ em =>
    em.map Prod.snd = (refArc N rs r p a.attrs).2 ∧ RelA st' (refArc N rs r p a.attrs).1 ∧
      st'.attrs = a.attrs
  | .fail .. => False
  | .panic .. => True

theorem arcEmit_ref {N : Num ν} (hpos : ∀ p q a, N.arc p a = N.arc q a) (na : Nat)
    (a : ArcArgs ν) (cmd : Char) (st : St ν) (x' : Src) (rs : RSt ν) (r : RawArc ν)
    (p : Svg.Pt ν) (hop : rs.sp.isOpen = true) (harg : arcArgsOf rs r p a.attrs = a)
    (hrel : RelA st rs) (hq : isQuadCmd cmd = false) (hc : isCubicCmd cmd = false) :
    ArcSim N rs r p a (arcEmit N na a cmd st x') := by
  have hto : p = sp a.to := by rw [← harg]; rfl
  have hpa : rs.attrs = a.prevAttrs := by rw [← harg]; rfl
  have hR : RelA ({ st with cur := a.to, attrs := a.attrs }.after cmd)
      ⟨{ rs.sp with cur := p, prev := .arc }, a.attrs⟩ := by
    refine ⟨?_, rfl⟩
    constructor <;>
      simp [St.after, hq, hc, pcOf, pqOf, hto, hrel.rel.start, hrel.rel.isOpen, hrel.rel.ns]
  unfold arcEmit
  split
  · rename_i hs
    simp only [ArcSim]
    rw [refArc_open N rs r p a.attrs hop, harg]
    simp only [hs, if_true, emitAt_snd]
    exact ⟨by rw [hto]; rfl, hR, rfl⟩
  · rename_i hs
    rw [hpos x'.inp.length 0 a]
    cases harc : N.arc 0 a with
    | none => trivial
    | some qs =>
      simp only
      split
      · trivial
      · simp only [ArcSim]
        rw [refArc_open N rs r p a.attrs hop, harg]
        simp only [hs, harc, emitAt_snd, hpa, if_false, Bool.false_eq_true]
        exact ⟨trivial, hR, rfl⟩

def StepRef (N : Num ν) (na : Nat) (st : St ν) (rs : RSt ν) (x : Src) : StepOut ν → Prop
  | .cont st' _ em =>
    em.map Prod.snd = (refStep N rs (cmdAt N na st x, st'.attrs)).2 ∧
      RelA st' (refStep N rs (cmdAt N na st x, st'.attrs)).1
  | .fail _ ne x' em =>
    (em ++ closing ne x').map Prod.snd = refEnd rs
  | .panic _ _ => True

theorem fail_calls {st : St ν} {rs : RSt ν} (hr : RelA st rs) (ne : Bool) (x' : Src)
    (em : List (Emit ν)) (h : eraseEm (em ++ closing ne x') = specEnd rs.sp) :
    (em ++ closing ne x').map Prod.snd = refEnd rs := by
  -- a list of calls whose erasure is `[]` or `[end false]` is that list
  unfold specEnd at h
  unfold refEnd
  generalize (em ++ closing ne x') = l at h
  cases hop : rs.sp.isOpen <;> simp only [hop, if_true, if_false, Bool.false_eq_true] at h ⊢
  · cases l with
    | nil => rfl
    | cons a t => simp [eraseEm] at h
  · cases l with
    | nil => simp [eraseEm] at h
    | cons a t =>
      cases t with
      | nil =>
        obtain ⟨n, c⟩ := a
        cases c <;> simp_all [eraseEm, eraseCall]
      | cons b t => simp [eraseEm] at h

theorem step_ref {N : Num ν} (ho : Ops N) (hpos : ∀ p q a, N.arc p a = N.arc q a) (na : Nat)
    {st : St ν} {rs : RSt ν} (hr : RelA st rs) (x : Src) :
    StepRef N na st rs x (step N na st x) := by
  by_cases harcCmd : cmdOf st x = 'a' ∨ cmdOf st x = 'A'
  · -- the arc command
    have hab : (cmdOf st x == 'a' || cmdOf st x == 'A') = true := by
      rcases harcCmd with h | h <;> simp [h]
    have hq : isQuadCmd (cmdOf st x) = false := by rcases harcCmd with h | h <;> (rw [h]; decide)
    have hc : isCubicCmd (cmdOf st x) = false := by rcases harcCmd with h | h <;> (rw [h]; decide)
    have hd : isDrawingCmd (cmdOf st x) = true := by rcases harcCmd with h | h <;> (rw [h]; decide)
    have hnone : edgeCmd N na (cmdOf st x) st = none := by
      rcases harcCmd with h | h <;> (rw [h]; simp [edgeCmd])
    have hrn := readEdge_none N na _ st hnone
    have hsim := step_sim ho noGeo na hr.rel x
    unfold step at hsim ⊢
    split
    · rename_i hg; rw [if_pos hg] at hsim; exact fail_calls hr _ _ _ hsim
    rename_i hguard
    rw [if_neg hguard] at hsim
    have hns : st.needStart = false := by
      cases h : st.needStart
      · rfl
      · exact absurd (by simp [h, hd]) hguard
    have hop : rs.sp.isOpen = true := by rw [hr.rel.isOpen]; exact needEnd_of hr.rel hns
    unfold dispatchCmd at hsim ⊢
    rw [hnone] at hsim ⊢
    simp only [hab, if_true] at hsim ⊢
    unfold runArc at hsim ⊢
    split
    · rename_i a x' heq
      obtain ⟨r, v, hrd, harg⟩ := cmdAArgs_raw2 N na _ st _ a x' heq
      have hcmd : cmdAt N na st x =
          (if (cmdOf st x).isLower then .relArcTo r v else .arcTo r v) :=
        cmdAt_of (by unfold readCmd; rw [hrn]; dsimp only; rw [if_pos hab]) hrd
      have hstep : ∀ at_ : List ν, refStep N rs (cmdAt N na st x, at_) =
          refArc N rs r (tgt (cmdOf st x).isLower rs.sp.cur v) at_ := by
        intro at_; rw [hcmd]; cases (cmdOf st x).isLower <;> rfl
      have hargs : arcArgsOf rs r (tgt (cmdOf st x).isLower rs.sp.cur v) a.attrs = a := by
        rw [harg]
        simp only [arcArgsOf, hr.attrs, hr.rel.cur, ← sp_rel ho, ps_sp]
      have := arcEmit_ref hpos na a (cmdOf st x) st x' rs r _ hop hargs hr hq hc
      cases hem : arcEmit N na a (cmdOf st x) st x' with
      | cont st' y em =>
        rw [hem] at this
        obtain ⟨h1, h2, h3⟩ := this
        simp only [StepRef]
        rw [hstep, h3]; exact ⟨h1, h2⟩
      | fail e ne y em => rw [hem] at this; exact this.elim
      | panic y em => trivial
    · rename_i e x' heq
      rw [heq] at hsim
      exact fail_calls hr _ _ _ hsim
  · -- every other command: the SVG reference semantics, attributes attached
    have hna : cmdOf st x ≠ 'a' := fun h => harcCmd (Or.inl h)
    have hnA : cmdOf st x ≠ 'A' := fun h => harcCmd (Or.inr h)
    have hnot := cmdAt_notArc N na st x hna hnA
    have hsim := step_sim ho noGeo na hr.rel x
    have hat := step_attrs N na st x hna hnA
    cases hstep : step N na st x with
    | cont st' x' em =>
      rw [hstep] at hsim hat
      obtain ⟨hcalls, hrel⟩ := hsim hnot
      simp only [StepRef]
      rw [refStep_notArc N rs _ hnot]
      refine ⟨?_, ⟨hrel, rfl⟩⟩
      show em.map Prod.snd = ((rs.sp.step noGeo (cmdAt N na st x)).2).map (attach st'.attrs)
      rw [← hcalls]; simp only [eraseEm, List.map_map]
      apply List.map_congr_left
      intro e he; exact (attach_erase (hat e he)).symm
    | fail e ne x' em => rw [hstep] at hsim; exact fail_calls hr _ _ _ hsim
    | panic x' em => trivial

/-- whole parses: the calls the parser sends — attributes included; success or error, the clean-up
`end(false)` included — are the reference interpreter on the command list read -/
theorem loop_ref {N : Num ν} (ho : Ops N) (hpos : ∀ p q a, N.arc p a = N.arc q a) (na : Nat)
    (stop : Option Char) (fuel : Nat) :
    ∀ (st : St ν) (x : Src) (rs : RSt ν), RelA st rs →
      (loop N na stop fuel st x).outcome ≠ .panic →
      (loop N na stop fuel st x).outcome ≠ .stuck →
      (loop N na stop fuel st x).calls.map Prod.snd =
        (refRun N rs (loopACmds N na stop fuel st x)).2 ++
          refEnd (refRun N rs (loopACmds N na stop fuel st x)).1 := by
  induction fuel with
  | zero => intro st x rs _ _ h; exact absurd rfl h
  | succ fuel ih =>
    intro st x rs hr hp hs
    rw [loop_succ] at hp hs ⊢
    rw [loopACmds_succ]
    by_cases hf : x.fin = true
    · simp only [hf, if_true]
      rw [closing_snd]; simp [refRun, refEnd, hr.rel.isOpen]
    by_cases hstop : (stop == some x.cur) = true
    · simp only [hf, hstop, if_true, if_false, Bool.false_eq_true]
      rw [closing_snd]; simp [refRun, refEnd, hr.rel.isOpen]
    simp only [hf, hstop, if_false, Bool.false_eq_true] at hp hs ⊢
    have hsim := step_ref ho hpos na hr x
    cases hstep : step N na st x with
    | cont st' x' em =>
      rw [hstep] at hsim hp hs
      simp only at hp hs ⊢
      obtain ⟨hcalls, hrel⟩ := hsim
      have := ih st' x'.skipWs _ hrel hp hs
      simp only [Result.cons, refRun]
      rw [List.map_append, this, hcalls, List.append_assoc]
    | fail e ne x' em =>
      rw [hstep] at hsim
      simp only [refRun]
      simpa [StepRef] using hsim
    | panic x' em =>
      rw [hstep] at hp
      exact absurd rfl hp

theorem relA_init (N : Num ν) : RelA (St.init N) ⟨Svg.Spec.init N.zero, []⟩ :=
  ⟨rel_init N N.zero rfl, rfl⟩

end sim
end Lyon.Parser
