/-
  C16 with the concrete flatteners — the laws C09b's cubic tolerance theorems need of the
  non-field functions, bundled (`CubicLaws`: `CountLaws` + `x ≤ ceil x` + the sixth root
  `0 ≤ y^(1/6)`, `y ≤ (y^(1/6))⁶` for `y ≥ 0`), and the exactness of the cast of
  `num_quadratics` derived from them (`numQuadratics_cast`, given the count is below 2³²).
-/
import LyonVerif.Lemmas.AdaptersConcreteTC
import LyonVerif.Props.C09b

set_option linter.unusedSectionVars false
set_option linter.unusedVariables false

namespace Lyon.Adapt
open Lyon Lyon.Path Scalar Lyon.Flat

section field
variable {K : Type} [Field K] [LinearOrder K] [IsStrictOrderedRing K] [Transc K] [FlatConst K]

structure CubicLaws (K : Type) [Field K] [LinearOrder K] [IsStrictOrderedRing K] [Transc K]
    [FlatConst K] : Prop extends CountLaws K where
  le_ceil : ∀ x : K, x ≤ Transc.ceil x
  pow_sixth : ∀ y : K, 0 ≤ y →
    0 ≤ Transc.pow y (1 / 6) ∧ y ≤ (Transc.pow y (1 / 6)) ^ 6

/-- `num_quadratics.to_u32()` is exact when the (integer, ≥ 1) count is below 2³² -/
theorem numQuadratics_cast (L : CountLaws K) (c : Cubic K) (tol : K)
    (hlt : c.numQuadraticsImpl tol < 4294967296) :
    (((toU32 (c.numQuadraticsImpl tol)).getD 1 : ℕ) : K) = c.numQuadraticsImpl tol := by
  obtain ⟨hint, hge⟩ := numQuadraticsImpl_int L c tol
  have hsome : ∃ N, toU32 (c.numQuadraticsImpl tol) = some N := by
    unfold toU32
    rw [if_pos]
    · exact ⟨_, rfl⟩
    · refine ⟨?_, ?_⟩
      · have : (-(one : K)) = -1 := by rw [show (one : K) = 1 from sc_one]
        rw [this]; linarith
      · simpa [ofNat_eq] using hlt
  obtain ⟨N, hN⟩ := hsome
  rw [hN, Option.getD_some]
  exact (count_eq_of_toU32 L _ hint N hN).symm

end field

end Lyon.Adapt
