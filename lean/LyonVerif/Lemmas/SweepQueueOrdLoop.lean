/-
  The run-level lift of `ActiveSpan` + parameter range (`Lemmas/SweepSpan*.lean`) through the fuel-bounded
  loop, RELATIVE to the missing queue-order invariant: two state predicates `Q` (at the head of the loop) and
  `R` (during an event) with the properties `QOrdHyp` - `Q` gives `AdvOK`, the step functions keep them.
-/
import LyonVerif.Lemmas.SweepSpanLoop

set_option linter.unusedSectionVars false
set_option linter.unusedVariables false
set_option linter.unusedSimpArgs false
set_option mvcgen.warning false

namespace Lyon.SweepSpan
open Lyon Lyon.Scalar Lyon.Sweep Lyon.EQ Lyon.SweepPos Lyon.SweepIdx
open Std.Do

section field
variable {K : Type} [Field K] [LinearOrder K] [IsStrictOrderedRing K]
variable [w : Wide K]

/-- the weakest precondition of an `SM` program at a state is its postcondition at the result of the run -/
theorem wp_run {β : Type} (x : SM K β) (Q : β → St K → Prop) (E : Fail → St K → Prop) (s : St K) :
    (wp⟦x⟧ (post⟨fun r s => ⌜Q r s⌝, fun f s => ⌜E f s⌝⟩) s).down ↔
    (match (x.run.run s : Except Fail β × St K) with
      | (.ok r, s') => Q r s'
      | (.error f, s') => E f s') := by
  have h2 : (wp⟦(x.run.run s : Id (Except Fail β × St K))⟧ (PostCond.noThrow fun r =>
      ⌜match r with
        | (.ok r, s') => Q r s'
        | (.error f, s') => E f s'⌝)).down ↔ (wp⟦x⟧ (post⟨fun r s => ⌜Q r s⌝, fun f s => ⌜E f s⌝⟩) s).down := by
    rw [WP.StateT_run, WP.ExceptT_run]
    rfl
  rw [← h2]
  rfl

/-- two triples about the same program combine (the run is one run) -/
theorem triple_and {β : Type} {x : SM K β} {P1 P2 : St K → Prop} {Q1 Q2 : β → St K → Prop}
    {E1 E2 : Fail → St K → Prop}
    (h1 : ⦃fun s => ⌜P1 s⌝⦄ x ⦃post⟨fun r s => ⌜Q1 r s⌝, fun f s => ⌜E1 f s⌝⟩⦄)
    (h2 : ⦃fun s => ⌜P2 s⌝⦄ x ⦃post⟨fun r s => ⌜Q2 r s⌝, fun f s => ⌜E2 f s⌝⟩⦄) :
    ⦃fun s => ⌜P1 s ∧ P2 s⌝⦄ x ⦃post⟨fun r s => ⌜Q1 r s ∧ Q2 r s⌝, fun f s => ⌜E1 f s ∧ E2 f s⌝⟩⦄ := by
  intro s hs
  refine (wp_run x _ _ s).mpr ?_
  have a := (wp_run x _ _ s).mp (h1 s hs.1)
  have b := (wp_run x _ _ s).mp (h2 s hs.2)
  revert a b
  generalize (x.run.run s : Except Fail β × St K) = r
  obtain ⟨res, s'⟩ := r
  cases res <;> exact fun a b => ⟨a, b⟩

/-- **the missing queue-order invariant, as an interface**: `Q` holds at the head of the loop and gives `AdvOK`
(the next vertex is in sweep order), `R` holds during an event; the step functions keep them -/
structure QOrdHyp (Q R : St K → Prop) : Prop where
  adv : ∀ s, Inv s → Q s → AdvOK s
  init : ⦃fun s => ⌜Inv s ∧ Q s⌝⦄ (initializeEvents : SM K Unit) ⦃post⟨fun _ s => ⌜R s⌝, fun _ _ => ⌜True⌝⟩⦄
  event : ⦃fun s => ⌜Inv s ∧ R s⌝⦄ (processEvents : SM K (Option IErr)) ⦃post⟨fun _ s => ⌜R s⌝, fun _ _ => ⌜True⌝⟩⦄
  recover : ⦃fun s => ⌜Inv s ∧ R s⌝⦄ (recoverFromError : SM K Unit) ⦃post⟨fun _ s => ⌜R s⌝, fun _ _ => ⌜True⌝⟩⦄
  next : ∀ s, Inv s → R s → Q { s with curEvent := s.q.nextId s.curEvent }

variable {Q R : St K → Prop}

theorem init_both (h : QOrdHyp Q R) :
    ⦃fun s => ⌜Inv s ∧ Q s⌝⦄ (initializeEvents : SM K Unit)
    ⦃post⟨fun _ s => ⌜Inv s ∧ R s⌝, fun _ s => ⌜UInv s⌝⟩⦄ := by
  have a := triple_and (initializeEvents_inv (K := K)) h.init
  intro s hs
  have := a s ⟨⟨hs.1, h.adv s hs.1 hs.2⟩, hs⟩
  refine (wp (initializeEvents : SM K Unit)).mono _ _ ?_ s this
  exact ⟨fun _ s' hs' => hs', fun e s' hs' => hs'.1, trivial⟩

theorem event_both {M : w.W → Prop} (hw : SweepRep.WClosure (α := K) U M) (h : QOrdHyp Q R) :
    ⦃fun s => ⌜Inv s ∧ R s⌝⦄ (processEvents : SM K (Option IErr))
    ⦃post⟨fun _ s => ⌜Inv s ∧ R s⌝, fun _ s => ⌜UInv s⌝⟩⦄ := by
  have a := triple_and (processEvents_inv (K := K) hw) h.event
  intro s hs
  have := a s ⟨hs.1, hs⟩
  refine (wp (processEvents : SM K (Option IErr))).mono _ _ ?_ s this
  exact ⟨fun _ s' hs' => hs', fun e s' hs' => hs'.1.2, trivial⟩

theorem recover_both (h : QOrdHyp Q R) :
    ⦃fun s => ⌜Inv s ∧ R s⌝⦄ (recoverFromError : SM K Unit)
    ⦃post⟨fun _ s => ⌜Inv s ∧ R s⌝, fun _ s => ⌜UInv s⌝⟩⦄ := by
  have a := triple_and (recoverFromError_inv (K := K)) h.recover
  intro s hs
  have := a s ⟨hs.1, hs⟩
  refine (wp (recoverFromError : SM K Unit)).mono _ _ ?_ s this
  exact ⟨fun _ s' hs' => hs', fun e s' hs' => hs'.1.2, trivial⟩

/-- **the loop**: from a state with `ActiveSpan`, the parameter range and the queue-order invariant, every
parameter stored or emitted stays in `[0,1]` - whatever the outcome, no `Tainted` restriction -/
theorem tessellatorLoop_unit {M : w.W → Prop} (hw : SweepRep.WClosure (α := K) U M) (h : QOrdHyp Q R) : ∀ f : Nat,
    ⦃fun s => ⌜Inv s ∧ Q s⌝⦄ (tessellatorLoop f : SM K Unit) ⦃post⟨fun _ s => ⌜UInv s⌝, fun _ s => ⌜UInv s⌝⟩⦄
  | 0 => by
    unfold tessellatorLoop
    mvcgen
    exact (by assumption : Inv _ ∧ _).1.2
  | f+1 => by
    have ih := tessellatorLoop_unit hw h f
    have h1 := init_both h
    have h2 := event_both hw h
    have h3 := recover_both h
    unfold tessellatorLoop
    strip_mdata
    mvcgen [mark, ih, h1, h2, h3]
    case vc1 => exact (by assumption : Inv _ ∧ Q _).1.2
    all_goals
      have hR := ‹Inv _ ∧ R _›
    all_goals first
      | exact hR.1.2
      | exact ⟨hR.1, h.next _ hR.1 hR.2⟩

/-- the state `tessellate_impl` starts the loop from -/
noncomputable def startSt (q : Queue K) (rule : Slab.Rule) (horizontal : Bool) (tol : K) (handleIx : Bool) : St K :=
  { q := q, curPos := ⟨Wide.fmin (α := K), Wide.fmin (α := K)⟩, curVertex := INVALID, curEvent := q.firstId,
    active := #[], below := #[], spans := #[], pool := [], rule := rule, horizontal := horizontal,
    tolerance := tol * half, handleIntersections := handleIx, out := #[], nverts := 0 }

theorem inv_start (q : Queue K) (hq : QU q) (rule : Slab.Rule) (horizontal : Bool) (tol : K) (handleIx : Bool) :
    Inv (startSt q rule horizontal tol handleIx) := by
  refine ⟨⟨?_, ?_⟩, hq, ?_, ?_, ?_⟩
  · intro e he; simp [startSt] at he
  · intro e he; simp [startSt] at he
  · intro e he; simp [startSt] at he
  · intro e he; simp [startSt] at he
  · intro pos recs hm; simp [startSt] at hm

/-- **`tessellate_impl` on any queue whose records are in `[0,1]`**, relative to the queue-order invariant:
every record emitted with a vertex has both range ends in `[0,1]`, whatever the outcome -/
theorem tessellateImpl_unit {M : w.W → Prop} (hw : SweepRep.WClosure (α := K) U M) (h : QOrdHyp Q R)
    (q : Queue K) (hq : QU q) (rule : Slab.Rule) (horizontal : Bool) (tol : K) (handleIx : Bool)
    (hQ0 : Q (startSt q rule horizontal tol handleIx)) :
    OutU (tessellateImpl q rule horizontal tol handleIx).2.1 := by
  unfold tessellateImpl
  split
  · intro p r hm; simp at hm
  · dsimp only
    have h1 := SweepIdx.run_of_triple (tessellatorLoop_unit hw h (4 * q.events.size * q.events.size + 1000))
      (startSt q rule horizontal tol handleIx) ⟨inv_start q hq rule horizontal tol handleIx, hQ0⟩
    revert h1
    show UInv ((tessellatorLoop (α := K) (4 * q.events.size * q.events.size + 1000)).run.run
      (startSt q rule horizontal tol handleIx)).2 → _
    unfold startSt
    generalize ((tessellatorLoop (α := K) (4 * q.events.size * q.events.size + 1000)).run.run _) = r
    intro h1
    obtain ⟨res, s1⟩ := r
    cases res with
    | error f => exact h1.2.2.2
    | ok u =>
      dsimp only
      intro p recs hm
      rw [← Array.foldl_toList] at hm
      exact h1.2.2.2 p recs (SweepRep.flush_vertex_mem _ _ _ _ hm)

end field

end Lyon.SweepSpan
