/-
  Lemmas for the convex-hull certificate of the exact flattening checker
  (Model/Geom/FlattenCertExact.lean, `chkHull`):

  * `band_lerp`            the band of a segment is closed under `lerp` (from `Slab.band_convex`)
  * `quad_in_band`, `cubic_in_band`   de Casteljau: a Bézier point is in the band if the control points are
  * `quad_split_range_sample`         `split_range` of a quadratic is the quadratic re-parametrised
  * `quad_hull_law`, `cubic_hull_law` the control points of `split_range(τ0..τ1)` bound the curve over
                                      `[τ0,τ1]`
  * `sub_cover`            `[0,1]` is covered by the `m` intervals `[j/m,(j+1)/m]`
  * `range_covered_sound`  `rangeCovered` ⟹ every curve point of the range is near a candidate
  * `hull_sound`           soundness of `chkHull` for every curve with a hull law
-/
import LyonVerif.Lemmas.FlattenCertExactList

set_option linter.unusedSectionVars false
set_option linter.unusedVariables false

namespace Lyon.FlatChk
open Lyon Scalar Lyon.Flat

variable {K : Type} [Field K] [LinearOrder K] [IsStrictOrderedRing K]

/-- the band `{p | sqDistSeg p a b ≤ d}` is closed under `lerp` -/
theorem band_lerp (a b : P K) (d : K) (p1 p2 : P K) (u : K) (h0 : 0 ≤ u) (h1 : u ≤ 1)
    (hp1 : Slab.sqDistSeg p1 a b ≤ d) (hp2 : Slab.sqDistSeg p2 a b ≤ d) :
    Slab.sqDistSeg (p1.lerp p2 u) a b ≤ d :=
  Slab.band_convex a b d p1 p2 (p1.lerp p2 u) u h0 h1
    (by simp only [geom, Nat.cast_one]) (by simp only [geom, Nat.cast_one]) hp1 hp2

/-- de Casteljau for a quadratic -/
theorem quad_in_band (q : Quad K) (a b : P K) (d u : K) (h0 : 0 ≤ u) (h1 : u ≤ 1)
    (ha : Slab.sqDistSeg q.a a b ≤ d) (hc : Slab.sqDistSeg q.c a b ≤ d) (hb : Slab.sqDistSeg q.b a b ≤ d) :
    Slab.sqDistSeg (q.sample u) a b ≤ d := by
  have e : q.sample u = ((q.a.lerp q.c u).lerp (q.c.lerp q.b u) u) := by geom_ring
  rw [e]
  exact band_lerp a b d _ _ u h0 h1 (band_lerp a b d _ _ u h0 h1 ha hc) (band_lerp a b d _ _ u h0 h1 hc hb)

/-- de Casteljau for a cubic -/
theorem cubic_in_band (c : Cubic K) (a b : P K) (d u : K) (h0 : 0 ≤ u) (h1 : u ≤ 1)
    (ha : Slab.sqDistSeg c.a a b ≤ d) (hc1 : Slab.sqDistSeg c.c1 a b ≤ d)
    (hc2 : Slab.sqDistSeg c.c2 a b ≤ d) (hb : Slab.sqDistSeg c.b a b ≤ d) :
    Slab.sqDistSeg (c.sample u) a b ≤ d := by
  have e : c.sample u
      = (((c.a.lerp c.c1 u).lerp (c.c1.lerp c.c2 u) u).lerp ((c.c1.lerp c.c2 u).lerp (c.c2.lerp c.b u) u) u) := by
    geom_ring
  rw [e]
  have q0 := band_lerp a b d _ _ u h0 h1 ha hc1
  have q1 := band_lerp a b d _ _ u h0 h1 hc1 hc2
  have q2 := band_lerp a b d _ _ u h0 h1 hc2 hb
  exact band_lerp a b d _ _ u h0 h1 (band_lerp a b d _ _ u h0 h1 q0 q1) (band_lerp a b d _ _ u h0 h1 q1 q2)

/-- `split_range(t0..t1)` of a quadratic is the quadratic re-parametrised -/
theorem quad_split_range_sample (q : Quad K) (t0 t1 u : K) :
    (q.splitRange t0 t1).sample u = q.sample (t0 + u * (t1 - t0)) := by
  geom_ring

/-- what `chkHull` needs from the curve: the control points of a sub-range bound the curve over it -/
def HullLaw (sample : K → P K) (ctrl : K → K → List (P K)) : Prop :=
  ∀ (a b : P K) (d τ0 τ1 u : K), 0 ≤ u → u ≤ 1 →
    (∀ p ∈ ctrl τ0 τ1, Slab.sqDistSeg p a b ≤ d) → Slab.sqDistSeg (sample (τ0 + u * (τ1 - τ0))) a b ≤ d

theorem quad_hull_law (q : Quad K) : HullLaw q.sample (quadCtrl q) := by
  intro a b d τ0 τ1 u h0 h1 h
  rw [← quad_split_range_sample]
  simp only [quadCtrl, List.mem_cons, List.not_mem_nil, or_false, forall_eq_or_imp, forall_eq] at h
  exact quad_in_band _ a b d u h0 h1 h.1 h.2.1 h.2.2

theorem cubic_hull_law (c : Cubic K) : HullLaw c.sample (cubicCtrl c) := by
  intro a b d τ0 τ1 u h0 h1 h
  rw [← cubic_split_range_sample]
  simp only [cubicCtrl, List.mem_cons, List.not_mem_nil, or_false, forall_eq_or_imp, forall_eq] at h
  exact cubic_in_band _ a b d u h0 h1 h.1 h.2.1 h.2.2.1 h.2.2.2

/-- `[0, n]` is covered by the unit intervals `[j, j+1]`, `j < n` -/
theorem unit_cover (n : Nat) (hn : 0 < n) (x : K) (hx0 : 0 ≤ x) (hx1 : x ≤ n) :
    ∃ j : Nat, j < n ∧ (j : K) ≤ x ∧ x ≤ (j : K) + 1 := by
  induction n with
  | zero => exact absurd hn (lt_irrefl 0)
  | succ k ih =>
    rcases Nat.eq_zero_or_pos k with hk | hk
    · subst hk
      exact ⟨0, Nat.lt_one_iff.mpr rfl, by simpa using hx0, by simpa using hx1⟩
    · rcases le_or_gt x (k : K) with hle | hgt
      · obtain ⟨j, hj, h1, h2⟩ := ih hk hle
        exact ⟨j, Nat.lt_succ_of_lt hj, h1, h2⟩
      · refine ⟨k, Nat.lt_succ_self k, le_of_lt hgt, ?_⟩
        push_cast at hx1
        exact hx1

/-- `rangeCovered` ⟹ every curve point of the range is within `√r2` of a candidate segment -/
theorem range_covered_sound (sample : K → P K) (ctrl : K → K → List (P K)) (hl : HullLaw sample ctrl)
    (r2 : K) (cands : List (FlatSeg K)) (t0 t1 : K) (m : Nat) (hm : 0 < m)
    (h : rangeCovered ctrl r2 cands t0 t1 m = true) (s : K) (hs0 : 0 ≤ s) (hs1 : s ≤ 1) :
    ∃ sg ∈ cands, Slab.sqDistSeg (sample (t0 + s * (t1 - t0))) sg.a sg.b ≤ r2 := by
  have hmK : (0 : K) < (m : K) := by exact_mod_cast hm
  obtain ⟨j, hj, hj0, hj1⟩ := unit_cover m hm (s * m) (mul_nonneg hs0 (le_of_lt hmK))
    (by nlinarith)
  simp only [rangeCovered, List.all_eq_true, List.mem_range, List.any_eq_true, ptsNear,
    decide_eq_true_eq] at h
  obtain ⟨sg, hsg, hpts⟩ := h j hj
  refine ⟨sg, hsg, ?_⟩
  have hu0 : 0 ≤ s * m - j := by linarith
  have hu1 : s * m - j ≤ 1 := by linarith
  have := hl sg.a sg.b r2 (subParam t0 t1 m j) (subParam t0 t1 m (j+1)) (s * m - j) hu0 hu1 hpts
  have e : subParam t0 t1 m j + (s * m - j) * (subParam t0 t1 m (j+1) - subParam t0 t1 m j)
      = t0 + s * (t1 - t0) := by
    simp only [subParam, ofNat_eq]
    push_cast
    field_simp
    ring
  rw [e] at this
  exact this

theorem window_sub (all : List (FlatSeg K)) (w i : Nat) (x : FlatSeg K) (h : x ∈ window all w i) : x ∈ all :=
  List.mem_of_mem_drop (List.mem_of_mem_take h)

/-- `hullAll` ⟹ every segment of the suffix passed `chordHullOK` with candidates from the whole list -/
theorem hullAll_spec (ctrl : K → K → List (P K)) (r2 : K) (ms : List Nat) (w : Nat) (all l : List (FlatSeg K))
    (i : Nat) (hsub : ∀ x ∈ l, x ∈ all) (h : hullAll ctrl r2 ms w all l i = true) :
    ∀ sg ∈ l, ∃ cands : List (FlatSeg K), (∀ x ∈ cands, x ∈ all) ∧ chordHullOK ctrl r2 ms cands sg = true := by
  induction l generalizing i with
  | nil => intro sg hsg; cases hsg
  | cons y r ih =>
    simp only [hullAll, Bool.and_eq_true] at h
    intro sg hsg
    rcases List.mem_cons.mp hsg with rfl | hsg
    · refine ⟨candidates all w i sg, ?_, h.1⟩
      intro x hx
      simp only [candidates, List.mem_cons] at hx
      rcases hx with rfl | hx
      · exact hsub _ List.mem_cons_self
      · exact window_sub all w i x hx
    · exact ih (i + 1) (fun x hx => hsub x (List.mem_cons_of_mem _ hx)) h.2 sg hsg

/-- **soundness of the convex-hull checker** for every curve with a hull law -/
theorem hull_sound (sample : K → P K) (ctrl : K → K → List (P K)) (hl : HullLaw sample ctrl)
    (p0 p1 : P K) (r2 : K) (ms : List Nat) (w : Nat) (l : List (FlatSeg K))
    (h : chkHull sample ctrl p0 p1 r2 ms w l = true) :
    (l ≠ [] ∧ Chain p0 0 l ∧ lastPt p0 l = p1 ∧ lastT 0 l = 1
      ∧ ∀ sg ∈ l, 0 ≤ sg.t0 ∧ sg.t0 < sg.t1 ∧ sg.t1 ≤ 1)
    ∧ (∀ sg ∈ l, (sg.b - sample sg.t1).sqLen ≤ r2)
    ∧ ∀ t : K, 0 ≤ t → t ≤ 1 → ∃ sg ∈ l, ∃ s2 : K, 0 ≤ s2 ∧ s2 ≤ 1 ∧
        (sample t - sg.a.lerp sg.b s2).sqLen ≤ r2 := by
  simp only [chkHull, Bool.and_eq_true, sc_zero, sc_one] at h
  obtain ⟨⟨hch, hv⟩, hh⟩ := h
  obtain ⟨hne, hchain, hlp, hlt, hinc⟩ := chainOK_spec p0 0 p1 1 l hch
  obtain ⟨_, hrange⟩ := chain_params_range p0 0 l hchain hinc
  refine ⟨⟨hne, hchain, hlp, hlt, ?_⟩, ?_, ?_⟩
  · intro sg hsg
    obtain ⟨r1, r2'⟩ := hrange sg hsg
    rw [hlt] at r2'
    exact ⟨r1, hinc sg hsg, r2'⟩
  · simp only [vtxNear, List.all_eq_true, decide_eq_true_eq] at hv
    exact hv
  · intro t ht0 ht1
    obtain ⟨sg, hsg, s, hs0, hs1, rfl⟩ := chain_cover p0 0 1 l hchain hne hlt t ht0 ht1
    obtain ⟨cands, hc, hok⟩ := hullAll_spec ctrl r2 ms w l l 0 (fun x hx => hx) hh sg hsg
    simp only [chordHullOK, List.any_eq_true, Bool.and_eq_true, decide_eq_true_eq] at hok
    obtain ⟨m, _, hm, hcov⟩ := hok
    obtain ⟨sg2, hsg2, hd⟩ := range_covered_sound sample ctrl hl r2 cands sg.t0 sg.t1 m hm hcov s hs0 hs1
    obtain ⟨s2, h0, h1, hd2⟩ := (Slab.sqDistSeg_le_iff _ sg2.a sg2.b r2).mp hd
    refine ⟨sg2, hc sg2 hsg2, s2, h0, h1, ?_⟩
    have e : Slab.sqDistAt (sample (sg.t0 + s * (sg.t1 - sg.t0))) sg2.a sg2.b s2
        = (sample (sg.t0 + s * (sg.t1 - sg.t0)) - sg2.a.lerp sg2.b s2).sqLen := by
      simp only [Slab.sqDistAt, geom, Nat.cast_one]; ring
    rw [← e]; exact hd2

end Lyon.FlatChk
