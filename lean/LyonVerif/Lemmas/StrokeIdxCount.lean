/-
  Vertex count of the complete stroker model on an open fixed-width polyline without merged points,
  non-round joins and caps: `4 + Σ_joins (fold → 4 | kept miter → 2 | else → 3)`.
  (Round joins / caps add `2^d - 1` fan vertices per arc, `Lyon.C05.arc_fan`; `d` is numeric.)
-/
import LyonVerif.Lemmas.StrokeIdxCls

set_option linter.unusedSectionVars false
set_option linter.unusedVariables false

namespace Lyon.C05c
open Lyon Scalar Lyon.Stroke Lyon.Stroke.Full Lyon.C05 Lyon.C05b

section
variable {α : Type} [Scalar α] [Transc α]

/-- an endpoint as `begin` / `line_to` create it (fixed width), possibly with its advancement filled in -/
structure Fresh (e : Env α) (y : EP α) : Prop where
  ps : y.pos.single = none
  ns : y.neg.single = none
  flat : y.isFlat = false
  lj : y.lineJoin = e.o.join
  hw : y.halfWidth = e.hwFw

theorem fresh_mk' (e : Env α) (p : P α) (adv : α) (src : Src α) :
    Fresh e (EP.mk' p e.hwFw adv e.o.join src false) := ⟨rfl, rfl, rfl, rfl, rfl⟩

/-- the decisions of `compute_join_side_positions_fixed_width` depend on the three positions and
the join kind only -/
theorem fwGeo_congr {prev join next prev' join' next' : EP α} (ml vhw : α)
    (h1 : prev.position = prev'.position) (h2 : join.position = join'.position)
    (h3 : join.lineJoin = join'.lineJoin) (h4 : next.position = next'.position) :
    fwGeo prev join next ml vhw = fwGeo prev' join' next' ml vhw := by
  unfold fwGeo; simp only [h1, h2, h3, h4]

/-- vertices of one fixed-width join between the points `p, j, n`: 4 if it folds, 2 if the miter is
kept (one vertex per side), else 3 (inner vertex + the two outer ones) -/
def joinVertsFw (e : Env α) (p j n : P α) : Nat :=
  if (fwGeo (EP.mk' p e.hwFw nan e.o.join (.endpoint 0) false) (EP.mk' j e.hwFw nan e.o.join (.endpoint 0) false)
      (EP.mk' n e.hwFw nan e.o.join (.endpoint 0) false) e.o.miterLimit e.hwFw).fold then 4
  else if (fwGeo (EP.mk' p e.hwFw nan e.o.join (.endpoint 0) false) (EP.mk' j e.hwFw nan e.o.join (.endpoint 0) false)
      (EP.mk' n e.hwFw nan e.o.join (.endpoint 0) false) e.o.miterLimit e.hwFw).unclipped then 2
  else 3

def joinCostFw (e : Env α) : List (P α) → Nat
  | a :: b :: c :: rest => joinVertsFw e a b c + joinCostFw e (b :: c :: rest)
  | _ => 0

theorem joinVertsFw_range (e : Env α) (p j n : P α) : 2 ≤ joinVertsFw e p j n ∧ joinVertsFw e p j n ≤ 4 := by
  unfold joinVertsFw; split_ifs <;> omega

theorem edgeAndJoin_verts (tol : α) (count : Nat) (prev j : EP α) (d : VData α) (o : Out α)
    (hr : (j.lineJoin == Lyon.StrokeQuad.Join.round) = false) :
    (edgeAndJoin tol count prev j d o).verts = o.verts := by
  unfold edgeAndJoin tessellateJoin roundJoinIf
  have : j.toJoin.round = false := hr
  simp only [this, Bool.and_false, Bool.false_eq_true, if_false]
  split_ifs <;> rfl

theorem baseVertices_verts (j : EP α) (d : VData α) (o : Out α) :
    (baseVertices j d o).2.verts.length = o.verts.length
      + (if j.neg.single.isSome then 1 else 2) + (if j.pos.single.isSome then 1 else 2)
    ∧ (baseVertices j d o).1.position = j.position ∧ (baseVertices j d o).1.lineJoin = j.lineJoin := by
  rcases j with ⟨p, hw, adv, lj, src, ⟨pp, pn, ps, pi, pj⟩, ⟨np, nn, ns, ni, nj⟩, fp, fn, fl⟩
  cases ps <;> cases ns <;>
    simp [baseVertices, EP.withSides, EP.toJoin, addJoinBaseVertices, baseVerticesSide, Out.addVertex]

/-- the sides that get a single vertex after `compute_join_side_positions_fixed_width` on a fresh endpoint -/
theorem joinSidesFw_singles (ix : Lyon.StrokeQuad.Ix α) (prev join next : EP α) (ml vhw : α)
    (hp : join.pos.single = none) (hn : join.neg.single = none) :
    (if (joinSidesFw ix prev join next ml vhw).neg.single.isSome then 1 else 2)
      + (if (joinSidesFw ix prev join next ml vhw).pos.single.isSome then 1 else 2)
    = (if (fwGeo prev join next ml vhw).fold then 4 else if (fwGeo prev join next ml vhw).unclipped then 2 else 3)
    ∧ (joinSidesFw ix prev join next ml vhw).position = join.position
    ∧ (joinSidesFw ix prev join next ml vhw).lineJoin = join.lineJoin := by
  unfold joinSidesFw frontFix
  simp only []
  split_ifs <;> simp_all

theorem fastPath_fresh {e : Env α} {prev join next : EP α} (hf : Fresh e join) : fastPath prev join next = false := by
  unfold fastPath; rw [hf.flat]; rfl

/-- a fixed-width join of a fresh endpoint: the number of vertices it emits -/
theorem fwJoin_verts {e : Env α} (hj : e.o.join ≠ .round) (st : St α) (prev join next : EP α) (hf : Fresh e join) :
    ∃ j2 o', fwJoin e st prev join next = (commitSt st prev j2 o', next)
      ∧ j2.position = join.position
      ∧ o'.verts.length = st.out.verts.length + joinVertsFw e prev.position join.position next.position := by
  have hr : (join.lineJoin == Lyon.StrokeQuad.Join.round) = false := by
    rw [hf.lj]; cases h : e.o.join <;> simp_all
  obtain ⟨s1, s2, s3⟩ := joinSidesFw_singles e.ix prev join next e.o.miterLimit join.halfWidth hf.ps hf.ns
  generalize hj1 : joinSidesFw e.ix prev join next e.o.miterLimit join.halfWidth = j1 at s1 s2 s3
  have hgeo : fwGeo prev join next e.o.miterLimit join.halfWidth
      = fwGeo (EP.mk' prev.position e.hwFw nan e.o.join (.endpoint 0) false)
          (EP.mk' join.position e.hwFw nan e.o.join (.endpoint 0) false)
          (EP.mk' next.position e.hwFw nan e.o.join (.endpoint 0) false) e.o.miterLimit e.hwFw := by
    rw [hf.hw]; exact fwGeo_congr _ _ rfl rfl hf.lj rfl
  have hdd : ∃ dd : VData α, dd = { baseVertex join.src join.position join.halfWidth nan with
      advancement := j1.advancement } := ⟨_, rfl⟩
  obtain ⟨dd, edd⟩ := hdd
  obtain ⟨b1, b2, b3⟩ := baseVertices_verts j1 dd st.out
  refine ⟨(baseVertices j1 dd st.out).1,
    edgeAndJoin e.o.tolerance st.buf.count prev (baseVertices j1 dd st.out).1 dd (baseVertices j1 dd st.out).2,
    ?_, by rw [b2, s2], ?_⟩
  · unfold fwJoin; simp only []; rw [if_neg (by rw [fastPath_fresh hf]; simp)]
    show _ = _
    simp only [show (baseVertex join.src join.position join.halfWidth nan : VData α).halfWidth = join.halfWidth from rfl, hj1]
    rw [edd]; rfl
  · rw [edgeAndJoin_verts _ _ _ _ _ _ (by rw [b3, s3]; exact hr), b1, Nat.add_assoc, s1, hgeo]
    rfl

/-! ## the `line_to` loop -/

/-- the endpoint `line_to_fw` creates -/
def linePt (e : Env α) (q : Nat × P α) : EP α := EP.mk' q.2 e.hwFw nan e.o.join (.endpoint q.1) false

theorem fwStep_join_verts {e : Env α} (hj : e.o.join ≠ .round) {st : St α} (hwf : WF st.buf) {a b : EP α}
    (hab : st.buf.lastTwo = some (a, b)) (hb : Fresh e b) (next : EP α) (hn : Fresh e next)
    (hfar : pointsAreTooClose e.thr b.position next.position = false) :
    ∃ b', (fwStep e st next).1.buf.lastTwo = some (b', next) ∧ WF (fwStep e st next).1.buf
      ∧ b'.position = b.position
      ∧ (fwStep e st next).1.out.verts.length
          = st.out.verts.length + joinVertsFw e a.position b.position next.position := by
  have hlast := hwf.lastTwo_last _ _ hab
  have hclose : st.tooClose e.thr next.position = false := by rw [tooClose_eq hlast]; exact hfar
  obtain ⟨j2, o', ej, hp, hv⟩ := fwJoin_verts hj st a b next hb
  rw [fwStep_eq_join hclose hab, ej]
  have hc2 := WF.lastTwo_count _ _ hab
  obtain ⟨b1, hb1, hwf1, hc1, hl1, _⟩ := hwf.replaceLast (by omega) j2
  obtain ⟨b2, hb2, hwf2, _, _, hlt2⟩ := hwf1.push next
  have e2 : (commitSt st a j2 o').push next
      = { st with buf := b2, out := o', firsts := if st.buf.count == 2 then [a, j2] else st.firsts } := by
    simp [commitSt, St.push, St.setLast, hb1, hb2]
  simp only [e2]
  exact ⟨j2, hlt2 _ hl1, hwf2, hp, hv⟩

theorem feedFw_verts {e : Env α} (hj : e.o.join ≠ .round) (rest : List (Nat × P α)) :
    ∀ (st : St α) (a b : EP α), WF st.buf → st.buf.lastTwo = some (a, b) → Fresh e b →
      NoMerge e.thr (b.position :: rest.map (·.2)) →
      ∃ a' b', (rest.foldl (fun s q => (fwStep e s (linePt e q)).1) st).buf.lastTwo = some (a', b')
        ∧ WF (rest.foldl (fun s q => (fwStep e s (linePt e q)).1) st).buf
        ∧ (rest.foldl (fun s q => (fwStep e s (linePt e q)).1) st).out.verts.length
            = st.out.verts.length + joinCostFw e (a.position :: b.position :: rest.map (·.2)) := by
  induction rest with
  | nil => intro st a b hwf hab _ _; exact ⟨a, b, hab, hwf, rfl⟩
  | cons q rest ih =>
    intro st a b hwf hab hb hm
    obtain ⟨hfar, hm'⟩ := hm
    obtain ⟨b', h1, h2, h3, h4⟩ := fwStep_join_verts hj hwf hab hb (linePt e q) (fresh_mk' e _ _ _) hfar
    obtain ⟨a'', b'', g1, g2, g3⟩ := ih _ b' (linePt e q) h2 h1 (fresh_mk' e _ _ _) hm'
    refine ⟨a'', b'', g1, g2, ?_⟩
    rw [List.foldl_cons, g3, h4, h3]
    simp only [List.map_cons, joinCostFw, linePt, EP.mk']
    omega

/-! ## the caps -/

theorem lastEdge_verts (e : Env α) (hc : e.o.endCap ≠ .round) (p0 p1 : EP α) (isFirst : Bool) (o : Out α) :
    (lastEdge e p0 p1 isFirst o).2.verts.length = o.verts.length + 2 := by
  have hr : (e.o.endCap == Lyon.StrokeQuad.Cap.round) = false := by
    cases h : e.o.endCap <;> simp_all
  unfold lastEdge
  simp only [hr, Bool.false_eq_true, if_false]
  split_ifs <;> simp [Out.addVertex, Out.addTris]

theorem firstEdge_verts (e : Env α) (hc : e.o.startCap ≠ .round) (f s : EP α) (o : Out α) :
    (firstEdge e f s o).verts.length = o.verts.length + 2 := by
  have hr : (e.o.startCap == Lyon.StrokeQuad.Cap.round) = false := by
    cases h : e.o.startCap <;> simp_all
  unfold firstEdge
  simp only [hr, Bool.false_eq_true, if_false]
  simp [Out.addVertex, Out.addTris]

/-- `end_with_caps` with at least two kept points and non-round caps: 2 + 2 vertices -/
theorem endWithCaps_verts (e : Env α) (hs : e.o.startCap ≠ .round) (he : e.o.endCap ≠ .round) {st : St α}
    {p0 p1 : EP α} (h2 : st.buf.lastTwo = some (p0, p1)) :
    (endWithCaps e st).out.verts.length = st.out.verts.length + 4 := by
  have hc2 := WF.lastTwo_count _ _ h2
  have hcap : (st.mayNeedEmptyCap && st.buf.count == 1) = false := by
    have : (st.buf.count == 1) = false := by simp; omega
    simp [this]
  rw [endWithCaps_eq_some hcap h2]
  show (firstEdge e _ _ _).verts.length = _
  rw [firstEdge_verts e hs, capsOut, lastEdge_verts e he]

end

/-! ## the event loop on `begin, line_to*, end(false)` -/

section Loop
variable {α : Type} [Scalar α] [Transc α] [Asin α] [FlatConst α]

theorem step_fixed {e : Env α} (hfw : e.o.varWidth = false) : e.step = fwStep e := by
  unfold Env.step; simp [hfw]

theorem hwOf_fw {e : Env α} (hfw : e.o.varWidth = false) (store : Nat → List α) (id : Nat) :
    e.hwOf store id = e.hwFw := by
  unfold Env.hwOf; simp [hfw]

/-- the `line_to` events of a list of `(endpoint id, position)` pairs -/
def lineEvs (pts : List (Nat × P α)) : List (IdEv α) := pts.map (fun q => IdEv.line q.1 q.2)

theorem runLines {e : Env α} (hfw : e.o.varWidth = false) (store : Nat → List α) (rest : List (Nat × P α)) :
    ∀ r : Run α, r.panicked = false →
      ((lineEvs rest).foldl (fun r ev => if r.panicked then r else runEvent e store r ev) r).st
          = rest.foldl (fun s q => (fwStep e s (linePt e q)).1) r.st
      ∧ ((lineEvs rest).foldl (fun r ev => if r.panicked then r else runEvent e store r ev) r).panicked = false := by
  induction rest with
  | nil => intro r h; exact ⟨rfl, h⟩
  | cons q rest ih =>
    intro r h
    have e1 : (if r.panicked = true then r else runEvent e store r (IdEv.line q.1 q.2))
        = { r with st := (fwStep e r.st (linePt e q)).1, curId := q.1, curPos := q.2 } := by
      rw [if_neg (by simp [h])]
      show ({ r with st := (e.step r.st _).1, curId := q.1, curPos := q.2 } : Run α) = _
      rw [step_fixed hfw, hwOf_fw hfw]; rfl
    simp only [lineEvs, List.map_cons, List.foldl_cons]
    rw [e1]
    exact ih _ h

/-- the run up to the second point of the sub-path: nothing emitted yet, the window holds the first
point (side points of the first edge set) and the fresh second point -/
theorem run_two_points (e : Env α) (store : Nat → List α) (hfw : e.o.varWidth = false)
    (i0 i1 : Nat) (p0 p1 : P α) (hfar : pointsAreTooClose e.thr p0 p1 = false) :
    ∃ (st2 : St α) (a b : EP α),
      [IdEv.begin i0 p0, IdEv.line i1 p1].foldl (fun r ev => if r.panicked then r else runEvent e store r ev)
          (⟨St.new, unset, nanP, false⟩ : Run α) = ⟨st2, i1, p1, false⟩
      ∧ WF st2.buf ∧ st2.buf.lastTwo = some (a, b) ∧ Fresh e b
      ∧ b.foldPos = false ∧ b.foldNeg = false ∧ a.foldPos = false ∧ a.foldNeg = false
      ∧ a.position = p0 ∧ b.position = p1 ∧ st2.buf.count = 2 ∧ st2.out = Out.empty 0 := by
  simp only [List.foldl_cons, List.foldl_nil]
  -- begin
  have hb : (if (⟨St.new, unset, nanP, false⟩ : Run α).panicked = true then (⟨St.new, unset, nanP, false⟩ : Run α)
        else runEvent e store ⟨St.new, unset, nanP, false⟩ (IdEv.begin i0 p0))
      = ⟨(St.new : St α).push (EP.mk' p0 e.hwFw zero e.o.join (.endpoint i0) false), i0, p0, false⟩ := by
    rw [if_neg (by simp)]
    show ({ (⟨St.new, unset, nanP, false⟩ : Run α) with
      st := (e.step { (St.new : St α) with mayNeedEmptyCap := false } _).1, curId := i0, curPos := p0 } : Run α) = _
    rw [step_fixed hfw, hwOf_fw hfw]
    have : fwStep e ({ (St.new : St α) with mayNeedEmptyCap := false })
        (EP.mk' p0 e.hwFw (St.new : St α).subPathStartAdvancement e.o.join (Src.endpoint i0) false)
        = ((St.new : St α).push (EP.mk' p0 e.hwFw zero e.o.join (.endpoint i0) false), true) :=
      fwStep_eq_zero (by simp [St.tooClose, St.new, PointBuffer.new, PointBuffer.last])
        (by simp [St.new, PointBuffer.new, PointBuffer.lastTwo]) (by simp [St.new, PointBuffer.new, PointBuffer.last])
    rw [this]
  rw [hb]
  -- the state after `begin`
  obtain ⟨bb, hbb, hwfb, hcb, hlb, _⟩ := (WF.new (EP.default : EP α)).push (EP.mk' p0 e.hwFw zero e.o.join (.endpoint i0) false)
  have est1 : (St.new : St α).push (EP.mk' p0 e.hwFw zero e.o.join (.endpoint i0) false)
      = { (St.new : St α) with buf := bb } := by
    simp only [St.push, St.new] at hbb ⊢
    rw [hbb]; rfl
  rw [est1]
  have hcb1 : bb.count = 1 := by rw [hcb]; rfl
  -- line_to p1
  have hclose1 : ({ (St.new : St α) with buf := bb } : St α).tooClose e.thr (linePt e (i1, p1)).position = false := by
    rw [tooClose_eq (st := ({ (St.new : St α) with buf := bb } : St α)) hlb]; exact hfar
  have hl1 : (if (⟨{ (St.new : St α) with buf := bb }, i0, p0, false⟩ : Run α).panicked = true
        then (⟨{ (St.new : St α) with buf := bb }, i0, p0, false⟩ : Run α)
        else runEvent e store ⟨{ (St.new : St α) with buf := bb }, i0, p0, false⟩ (IdEv.line i1 p1))
      = ⟨(fwStep e { (St.new : St α) with buf := bb } (linePt e (i1, p1))).1, i1, p1, false⟩ := by
    rw [if_neg (by simp)]
    show ({ (⟨{ (St.new : St α) with buf := bb }, i0, p0, false⟩ : Run α) with
      st := (e.step _ _).1, curId := i1, curPos := p1 } : Run α) = _
    rw [step_fixed hfw, hwOf_fw hfw]; rfl
  rw [hl1]
  rw [fwStep_eq_first hclose1 (lastTwo_none (by show bb.count < 2; omega)) hlb]
  obtain ⟨b1, hb1, hwf1, hc1, hl1', _⟩ := hwfb.replaceLast (by omega)
    (firstEdgeSetup (EP.mk' p0 e.hwFw zero e.o.join (.endpoint i0) false) (linePt e (i1, p1))).1
  obtain ⟨b2, hb2, hwf2, hc2, _, hlt2⟩ := hwf1.push
    (firstEdgeSetup (EP.mk' p0 e.hwFw zero e.o.join (.endpoint i0) false) (linePt e (i1, p1))).2
  have est2 : (({ (St.new : St α) with buf := bb } : St α).setLast
        (firstEdgeSetup (EP.mk' p0 e.hwFw zero e.o.join (.endpoint i0) false) (linePt e (i1, p1))).1).push
        (firstEdgeSetup (EP.mk' p0 e.hwFw zero e.o.join (.endpoint i0) false) (linePt e (i1, p1))).2
      = { (St.new : St α) with buf := b2 } := by
    simp [St.push, St.setLast, hb1, hb2]
  simp only [est2]
  exact ⟨_, _, _, rfl, hwf2, hlt2 _ hl1', ⟨rfl, rfl, rfl, rfl, rfl⟩, rfl, rfl, rfl, rfl, rfl, rfl,
    by show b2.count = 2; rw [hc2, hc1, hcb1]; rfl, rfl⟩

/-- the run of a whole open sub-path, split at the second point and at `end` -/
theorem run_open_subpath (e : Env α) (store : Nat → List α) (hfw : e.o.varWidth = false)
    (i0 i1 : Nat) (p0 p1 : P α) (rest : List (Nat × P α)) (hfar : pointsAreTooClose e.thr p0 p1 = false) :
    ∃ (st2 : St α) (a b : EP α),
      WF st2.buf ∧ st2.buf.lastTwo = some (a, b) ∧ Fresh e b
      ∧ b.foldPos = false ∧ b.foldNeg = false ∧ a.foldPos = false ∧ a.foldNeg = false
      ∧ a.position = p0 ∧ b.position = p1 ∧ st2.buf.count = 2 ∧ st2.out = Out.empty 0
      ∧ (runEvents e store (IdEv.begin i0 p0 :: IdEv.line i1 p1 :: (lineEvs rest ++ [IdEv.end_ false]))).st.out
          = (endWithCaps e { (rest.foldl (fun s q => (fwStep e s (linePt e q)).1) st2) with
              mayNeedEmptyCap := (rest.foldl (fun s q => (fwStep e s (linePt e q)).1) st2).mayNeedEmptyCap
                || (false && (rest.foldl (fun s q => (fwStep e s (linePt e q)).1) st2).buf.count == 1) }).out := by
  obtain ⟨st2, a, b, e2, h1, h2, h3, h4, h5, h6, h7, h8, h9, h10, h11⟩ := run_two_points e store hfw i0 i1 p0 p1 hfar
  refine ⟨st2, a, b, h1, h2, h3, h4, h5, h6, h7, h8, h9, h10, h11, ?_⟩
  unfold runEvents
  have hsplit : (IdEv.begin i0 p0 :: IdEv.line i1 p1 :: (lineEvs rest ++ [IdEv.end_ false]))
      = [IdEv.begin i0 p0, IdEv.line i1 p1] ++ (lineEvs rest ++ [IdEv.end_ false]) := rfl
  rw [hsplit, List.foldl_append, e2, List.foldl_append]
  obtain ⟨r1, r2⟩ := runLines hfw store rest ⟨st2, i1, p1, false⟩ rfl
  generalize (lineEvs rest).foldl (fun r ev => if r.panicked then r else runEvent e store r ev)
    ⟨st2, i1, p1, false⟩ = rr at r1 r2
  simp only [List.foldl_cons, List.foldl_nil]
  rw [if_neg (by simp [r2])]
  show (endSub e e.step rr.st false).out = _
  rw [← r1]
  unfold endSub; simp

/-- **vertex count.**  Fixed line width, a sub-path `begin p0, line_to p1, line_to …, end(false)` none
of whose points is merged (`NoMerge`: consecutive points not within the merge threshold), join kind
Miter / MiterClip / Bevel, butt or square caps: the stroker emits
`4 + Σ_joins (4 if the join folds, 2 if its miter is kept, else 3)` vertices. -/
theorem polyline_vertex_count (e : Env α) (store : Nat → List α) (hfw : e.o.varWidth = false)
    (hj : e.o.join ≠ .round) (hs : e.o.startCap ≠ .round) (he : e.o.endCap ≠ .round)
    (i0 i1 : Nat) (p0 p1 : P α) (rest : List (Nat × P α))
    (hm : NoMerge e.thr (p0 :: p1 :: rest.map (·.2))) :
    (runEvents e store (IdEv.begin i0 p0 :: IdEv.line i1 p1 :: (lineEvs rest ++ [IdEv.end_ false]))).st.out.verts.length
      = 4 + joinCostFw e (p0 :: p1 :: rest.map (·.2)) := by
  obtain ⟨hfar, hm'⟩ := hm
  obtain ⟨st2, a, b, hwf2, hab, hfresh, _, _, _, _, ha, hb, _, hout, hrun⟩ :=
    run_open_subpath e store hfw i0 i1 p0 p1 rest hfar
  rw [hrun]
  obtain ⟨a', b', g1, g2, g3⟩ := feedFw_verts hj rest st2 a b hwf2 hab hfresh (by rw [hb]; exact hm')
  have hcaps := endWithCaps_verts e hs he
    (st := { (rest.foldl (fun s q => (fwStep e s (linePt e q)).1) st2) with
      mayNeedEmptyCap := (rest.foldl (fun s q => (fwStep e s (linePt e q)).1) st2).mayNeedEmptyCap
        || (false && (rest.foldl (fun s q => (fwStep e s (linePt e q)).1) st2).buf.count == 1) }) g1
  rw [hcaps, g3, hout, ha, hb]
  show 0 + joinCostFw e (p0 :: p1 :: rest.map (·.2)) + 4 = _
  omega

end Loop

end Lyon.C05c
