/-
  C02 growth 4 (`Props/C02g.lean`), part 18: `flush_side`'s fan tiles the chain polygon taken CLOSED on
  its chord side (`CSide`: at or beyond the chord) — the version of `flush_fan_tiles` whose covering
  clause also reaches the points of the chord itself, which the covering clause of the advanced
  tessellator's run needs.  Same proof: `ear_tiles_op` (the opposite side is any predicate containing
  the ear), `tail_ear_tilesC`, `mains_tilesC`, `level_tilesC`, `levels_tilesC`, `flush_fan_tilesC`.
-/
import LyonVerif.Lemmas.MonotoneTileAdvSetFinal

set_option linter.unusedSectionVars false
set_option linter.unusedVariables false
set_option linter.unusedSimpArgs false

namespace Lyon.C02f
open Lyon Lyon.Mono Lyon.C02 Lyon.C02c

section Geometry
variable {K : Type} [Field K] [LinearOrder K] [IsStrictOrderedRing K]

/-- in the sweep range of the chord `o → t` and at or beyond it (seen from a chain on side `c`) -/
def CSide (c : Bool) (o t q : P K) : Prop := Span o t q ∧ 0 ≤ sg (!c) * wind o t q

/-- one ear cut with covering; the opposite side of the region is any predicate that contains the ear -/
theorem ear_tiles_op (c : Bool) (A B : List (P K)) {x y z : P K} (Op : P K → Prop) (hyx : After y x) (hzy : After z y)
    (hconv : 0 < sg c * wind x y z) (hA : SortedP (A ++ [x])) (hB : SortedP (z :: B))
    (hO : ∀ q, InTriS c x y z q → Op q) :
    Tiles (fun q => ChainIn c (A ++ x :: y :: z :: B) q ∧ Op q) (fun (_ : Unit) => InTriS c x y z)
      (fun _ => InTriSC c x y z) [()] (fun q => ChainIn c (A ++ x :: z :: B) q ∧ Op q) := by
  refine ⟨?_, ?_, ?_, by simp, ?_⟩
  · intro _ _ q hq
    exact ⟨ear_chain_tri c A B hyx hzy q hq, hO q hq⟩
  · rintro q ⟨h1, h2⟩
    exact ⟨ear_chain_sub c A B hyx hzy hconv q h1, h2⟩
  · rintro _ _ q hq ⟨h1, _⟩
    exact ear_chain_apart c A B hyx hzy hA hB q hq h1
  · rintro q ⟨h1, h2⟩
    rcases ear_chain_cover c A B hyx hzy hconv q h1 with g | g
    · exact Or.inl ⟨g, h2⟩
    · exact Or.inr ⟨(), by simp, g⟩

/-- the left-over triangle of a level, chain polygon closed on the chord side -/
theorem tail_ear_tilesC (c : Bool) (C : List (P K)) {o b z : P K} (hC : (C ++ [b]).head? = some o)
    (hs : SortedP (C ++ [b])) (hbo : After b o) (hzb : After z b)
    (hconv : 0 < sg c * wind o b z) (hv : ∀ v ∈ C ++ [b], 0 ≤ sg c * wind o v b) :
    Tiles (fun q => ChainIn c (C ++ [b, z]) q ∧ CSide c o z q) (fun (_ : Unit) => InTriS c o b z)
      (fun _ => InTriSC c o b z) [()] (fun q => ChainIn c (C ++ [b]) q ∧ CSide c o b q) := by
  have hzo := after_trans hzb hbo
  have happ : ∀ q, ChainIn c (C ++ [b, z]) q ↔ ChainIn c (C ++ [b]) q ∨ (Span b z q ∧ 0 < sg c * wind b z q) := by
    intro q
    rw [chainIn_append c C b [z] q]
    constructor
    · rintro (h | h | h)
      · exact Or.inl h
      · exact Or.inr h
      · exact absurd h (chainIn_single c z q)
    · rintro (h | h)
      · exact Or.inl h
      · exact Or.inr (Or.inl h)
  have hlastb : (C ++ [b]).getLast? = some b := by simp
  refine ⟨?_, ?_, ?_, by simp, ?_⟩
  · intro _ _ q hq
    obtain ⟨hqo, hzq⟩ := inTriS_after hbo hzb hq
    refine ⟨(happ q).mpr ?_, ⟨Or.inr hqo, hzq⟩, by rw [sg_wind_swap]; exact hq.2.2.le⟩
    rcases after_total b q with g | g | g
    · exact Or.inl (chain_side c hbo hq.1 (C ++ [b]) o b hs hC hlastb hv (Or.inr hqo) g)
    · exact Or.inr ⟨⟨Or.inl g.symm, hzq⟩, hq.2.1⟩
    · exact Or.inr ⟨⟨Or.inr g, hzq⟩, hq.2.1⟩
  · rintro q ⟨h1, ⟨hqo, hbq⟩, hin⟩
    refine ⟨(happ q).mpr (Or.inl h1), ⟨hqo, after_trans hzb hbq⟩, ?_⟩
    rw [sg_not] at hin ⊢
    by_contra hn
    have := turn_from_x c hbo hzo hqo hconv (by linarith [not_le.mp hn])
    linarith
  · rintro _ _ q hq ⟨_, _, hin⟩
    have := hq.1
    rw [sg_not] at hin; linarith
  · rintro q ⟨h1, ⟨hqo, hzq⟩, hinz⟩
    have hzoq : 0 ≤ sg c * wind z o q := by rw [← sg_wind_swap]; simpa using hinz
    rcases (happ q).mp h1 with g | ⟨⟨hqb, _⟩, hin⟩
    · have hbq : After b q := chainIn_upper c (C ++ [b]) q b hs hlastb g
      by_cases t : sg c * wind o b q ≤ 0
      · left
        exact ⟨g, ⟨hqo, hbq⟩, by rw [sg_not]; linarith⟩
      · right
        have t' := (not_le.mp t).le
        exact ⟨(), by simp, ⟨t', turn_cover_xy_le c hbo hzb hbq hconv t', hzoq⟩⟩
    · right
      exact ⟨(), by simp, ⟨(turn_cover_yz c hbo hzb hqb hconv hin).le, hin.le, hzoq⟩⟩

/-- region between the level-`s` chain and its chord, closed on the chord side -/
def polyAtC (q : Nat → P K) (c : Bool) (len s : Nat) : P K → Prop :=
  fun x => ChainIn c (pts q s (List.range ((len - 1) / s + 1))) x ∧ CSide c (q 0) (q ((len - 1) / s * s)) x

variable {q : Nat → P K} {c : Bool} {len : Nat}

/-- **the ears at the odd multiples** -/
theorem mains_tilesC (h : ConvexChain q c len) (s m : Nat) (hs : 1 ≤ s) (hm : m * s < len) (n : Nat)
    (hn : 2 * n ≤ m) :
    Tiles (fun x => ChainIn c (pts q s (List.range (m + 1))) x ∧ CSide c (q 0) (q (m * s)) x)
      (fun t : Nat × Nat × Nat => InTriS c (q t.1) (q t.2.1) (q t.2.2))
      (fun t => InTriSC c (q t.1) (q t.2.1) (q t.2.2))
      ((List.range n).map (triS s)) (fun x => ChainIn c (chainN q s m n) x ∧ CSide c (q 0) (q (m * s)) x) := by
  induction n with
  | zero =>
    rw [chainN_zero]
    exact Tiles.refl _ _ _
  | succ n ih =>
    have ih' := ih (by omega)
    obtain ⟨e1, e2⟩ := chainN_step (q := q) s m n (by omega)
    rw [List.range_succ (n := n), List.map_append]
    refine ih'.trans ?_
    rw [e1, e2]
    have hms : ∀ j, j ≤ m → j * s < len := fun j hj => lt_of_le_of_lt (Nat.mul_le_mul_right s hj) hm
    have hx : n * 2 * s < n * 2 * s + s := by omega
    have hz : n * 2 * s + s + s ≤ m * s := by
      have : (2 * n + 2) * s ≤ m * s := Nat.mul_le_mul_right s (by omega)
      have e : (2 * n + 2) * s = n * 2 * s + s + s := by ring
      omega
    have hyx : After (q (n * 2 * s + s)) (q (n * 2 * s)) := h.sort _ _ (by omega) (by omega)
    have hzy : After (q (n * 2 * s + s + s)) (q (n * 2 * s + s)) := h.sort _ _ (by omega) (by omega)
    have hconv := h.conv (n * 2 * s) (n * 2 * s + s) (n * 2 * s + s + s) (by omega) (by omega) (by omega)
    have hA : SortedP (pts q (2 * s) (List.range n) ++ [q (n * 2 * s)]) := by
      have := h.sorted_pts (2 * s) (by omega) (List.range (n + 1)) (by
        rw [List.range_eq_range']; exact List.pairwise_lt_range') (by
        intro j hj
        have : j ≤ n := by have := List.mem_range.mp hj; omega
        have : j * (2 * s) ≤ n * (2 * s) := Nat.mul_le_mul_right _ this
        have e : n * (2 * s) = n * 2 * s := by ring
        omega)
      rw [List.range_succ] at this
      simpa [pts, Nat.mul_assoc] using this
    have hB : SortedP (q (n * 2 * s + s + s) :: pts q s (List.range' (2 * n + 3) (m - 2 * n - 2))) := by
      have := h.sorted_pts s hs (List.range' (2 * n + 2) (m - 2 * n - 2 + 1)) List.pairwise_lt_range' (by
        intro j hj
        have := List.mem_range'_1.mp hj
        exact hms j (by omega))
      rw [List.range'_succ] at this
      have e : (2 * n + 2) * s = n * 2 * s + s + s := by ring
      simpa [pts, e] using this
    have hxo : AfterEq (q (n * 2 * s)) (q 0) := by
      by_cases h0 : n * 2 * s = 0
      · rw [h0]; exact Or.inl rfl
      · exact Or.inr (h.sort _ _ (by omega) (by omega))
    have hzo : AfterEq (q (m * s)) (q (n * 2 * s + s + s)) := by
      by_cases h0 : n * 2 * s + s + s = m * s
      · rw [h0]; exact Or.inl rfl
      · exact Or.inr (h.sort _ _ (by omega) hm)
    have step := ear_tiles_op c (pts q (2 * s) (List.range n)) (pts q s (List.range' (2 * n + 3) (m - 2 * n - 2)))
      (CSide c (q 0) (q (m * s))) hyx hzy hconv hA hB (by
        intro x hx'
        refine ⟨⟨Or.inr (after_trans_afterEq (inTriS_after hyx hzy hx').1 hxo),
          afterEq_trans_after hzo (inTriS_after hyx hzy hx').2⟩, ?_⟩
        exact (inTriS_side hx' (h.chord_side (by omega) hm).1
          ((h.chord_side (p := n * 2 * s + s) (by omega) hm).2 (by omega) (by omega))
          (h.chord_side hz hm).1).le)
    exact step.map (fun _ => triS s n) (fun _ _ _ => Iff.rfl) (fun _ _ _ g => g)


variable (pos : Nat → P K) (ev : Array Nat)

/-- **one level of the doubling loop** -/
theorem level_tilesC (right : Bool) (len step : Nat)
    (h : ConvexChain (fun i => pos (ev.getD i 0)) (!right) len) (hs : 1 ≤ step) (hlt : step * 2 < len) :
    Tiles (polyAtC (fun i => pos (ev.getD i 0)) (!right) len step) (TriIn pos) (TriInC pos)
      (flushLevel ev len step right) (polyAtC (fun i => pos (ev.getD i 0)) (!right) len (2 * step)) := by
  generalize hq : (fun i => pos (ev.getD i 0)) = q at h ⊢
  have hqa : ∀ i, pos (ev.getD i 0) = q i := fun i => by rw [← hq]
  have hq2 : (len - 1) / (2 * step) = (len - 1) / step / 2 := by
    rw [Nat.div_div_eq_div_mul, Nat.mul_comm]
  have hm1 : 1 ≤ (len - 1) / (2 * step) := by
    rw [Nat.le_div_iff_mul_le (by omega)]; omega
  have hmul : (len - 1) / step * step ≤ len - 1 := Nat.div_mul_le_self _ _
  have hm : (len - 1) / step * step < len := by omega
  obtain ⟨m', hm'⟩ : ∃ m', (len - 1) / (2 * step) = m' + 1 := ⟨(len - 1) / (2 * step) - 1, by omega⟩
  have hm2 : (len - 1) / step = 2 * (m' + 1) ∨ (len - 1) / step = 2 * (m' + 1) + 1 := by omega
  -- the ears at the odd multiples
  have T1 := (mains_tilesC h step ((len - 1) / step) hs hm (m' + 1) (by omega)).map (posTri ev right)
    (fun t _ x => by have := (posTri_in pos ev right t x).1; simpa only [hqa] using this)
    (fun t _ x => by have := (posTri_in pos ev right t x).2; simpa only [hqa] using this)
  have hmain : ((List.range (m' + 1)).map (triS step)).map (posTri ev right) =
      (List.range (m' + 1)).map (fun i =>
        if right then (ev.getD (i * 2 * step + step) 0, ev.getD (i * 2 * step) 0, ev.getD (i * 2 * step + step + step) 0)
        else (ev.getD (i * 2 * step) 0, ev.getD (i * 2 * step + step) 0, ev.getD (i * 2 * step + step + step) 0)) := by
    rw [List.map_map]
    apply List.map_congr_left
    intro i _
    simp only [Function.comp, triS, posTri]
  rw [hmain] at T1
  unfold flushLevel
  simp only [hm']
  have h0 : (m' + 1 == 0) = false := by simp
  simp only [h0, Bool.false_eq_true, if_false, Nat.add_sub_cancel]
  have e1 : m' * 2 * step + step + step = (m' + 1) * (2 * step) := by ring
  unfold polyAtC
  rw [hm']
  rcases hm2 with hm2 | hm2
  · -- even number of live steps: no left-over triangle
    have hno : ¬ (m' * 2 * step + step + step + step < len) := by
      intro hh
      have : (2 * (m' + 1) + 1) * step ≤ len - 1 := by
        have : (2 * (m' + 1) + 1) * step = m' * 2 * step + step + step + step := by ring
        omega
      have := (Nat.le_div_iff_mul_le (by omega : 0 < step)).mpr this
      omega
    rw [if_neg hno, List.append_nil]
    have ec : chainN q step ((len - 1) / step) (m' + 1) = pts q (2 * step) (List.range (m' + 1 + 1)) := by
      simp only [chainN, hm2, Nat.sub_self, List.range'_zero, pts, List.map_nil, List.append_nil]
    have et : (len - 1) / step * step = (m' + 1) * (2 * step) := by rw [hm2]; ring
    rw [ec, et] at T1
    rw [et]
    exact T1
  · -- odd: the left-over triangle cuts the last live vertex off across the chord
    have hyes : m' * 2 * step + step + step + step < len := by
      have h1 : (2 * (m' + 1) + 1) * step ≤ len - 1 := by rw [← hm2]; exact hmul
      have : (2 * (m' + 1) + 1) * step = m' * 2 * step + step + step + step := by ring
      omega
    rw [if_pos hyes]
    have et : (len - 1) / step * step = (m' + 1) * (2 * step) + step := by rw [hm2]; ring
    have ec : chainN q step ((len - 1) / step) (m' + 1) =
        pts q (2 * step) (List.range (m' + 1)) ++ [q ((m' + 1) * (2 * step)), q ((m' + 1) * (2 * step) + step)] := by
      simp only [chainN, hm2, pts]
      rw [show 2 * (m' + 1) + 1 - 2 * (m' + 1) = 1 by omega, List.range_succ (n := m' + 1), List.map_append]
      simp only [List.range'_one, List.map_cons, List.map_nil, List.append_assoc, List.singleton_append]
      congr 3
      ring_nf
    rw [ec, et] at T1
    rw [et]
    refine T1.trans ?_
    have hb : (m' + 1) * (2 * step) < len := by omega
    have hz : (m' + 1) * (2 * step) + step < len := by omega
    have hCb : pts q (2 * step) (List.range (m' + 1)) ++ [q ((m' + 1) * (2 * step))] =
        pts q (2 * step) (List.range (m' + 1 + 1)) := by
      simp only [pts]
      rw [List.range_succ (n := m' + 1), List.map_append]
      rfl
    have hsort : SortedP (pts q (2 * step) (List.range (m' + 1 + 1))) :=
      h.sorted_pts (2 * step) (by omega) _ (by rw [List.range_eq_range']; exact List.pairwise_lt_range') (by
        intro j hj
        have : j ≤ m' + 1 := by have := List.mem_range.mp hj; omega
        have : j * (2 * step) ≤ (m' + 1) * (2 * step) := Nat.mul_le_mul_right _ this
        omega)
    have tail := tail_ear_tilesC (!right) (pts q (2 * step) (List.range (m' + 1))) (o := q 0)
      (b := q ((m' + 1) * (2 * step))) (z := q ((m' + 1) * (2 * step) + step))
      (by rw [hCb]; simp [pts, List.range_succ_eq_map])
      (by rw [hCb]; exact hsort)
      (h.sort _ _ (by
        have : 0 < (m' + 1) * (2 * step) := Nat.mul_pos (by omega) (by omega)
        exact this) hb)
      (h.sort _ _ (by omega) hz)
      (h.conv 0 _ _ (Nat.mul_pos (by omega) (by omega)) (by omega) hz)
      (by
        rw [hCb]
        intro v hv
        simp only [pts, List.mem_map, List.mem_range] at hv
        obtain ⟨j, hj, rfl⟩ := hv
        exact h.mid_side (Nat.mul_le_mul_right _ (by omega)) hb)
    have tail' := tail.map (fun _ => posTriX ev right (0, (m' + 1) * (2 * step), (m' + 1) * (2 * step) + step))
      (fun _ _ x => by have := (posTriX_in pos ev right (0, (m' + 1) * (2 * step), (m' + 1) * (2 * step) + step) x).1
                       simpa only [hqa] using this)
      (fun _ _ x => by have := (posTriX_in pos ev right (0, (m' + 1) * (2 * step), (m' + 1) * (2 * step) + step) x).2
                       simpa only [hqa] using this)
    rw [hCb] at tail'
    have ex : [()].map (fun _ => posTriX ev right (0, (m' + 1) * (2 * step), (m' + 1) * (2 * step) + step)) =
        [if right = true then (ev.getD 0 0, ev.getD (m' * 2 * step + step + step + step) 0, ev.getD (m' * 2 * step + step + step) 0)
         else (ev.getD 0 0, ev.getD (m' * 2 * step + step + step) 0, ev.getD (m' * 2 * step + step + step + step) 0)] := by
      simp only [List.map_cons, List.map_nil, posTriX, e1]
    rw [ex] at tail'
    exact tail'

theorem polyAtC_empty (q : Nat → P K) (c : Bool) (len step : Nat) (hm : (len - 1) / step ≤ 1) (x : P K) :
    ¬ polyAtC q c len step x := by
  unfold polyAtC
  have : (len - 1) / step = 0 ∨ (len - 1) / step = 1 := by
    generalize (len - 1) / step = m at hm ⊢; omega
  rcases this with e | e
  · rw [e]
    rintro ⟨h1, _⟩
    simp only [pts, List.range_one, List.map_cons, List.map_nil] at h1
    exact chainIn_single _ _ x h1
  · rw [e]
    simp only [pts, List.range_succ, List.range_zero, List.nil_append, List.cons_append, List.map_cons, List.map_nil,
      Nat.zero_mul, Nat.one_mul]
    rintro ⟨h1, h2⟩
    rcases h1 with ⟨_, hin⟩ | g
    · have := h2.2
      rw [sg_not] at this; linarith
    · exact absurd g (chainIn_single c _ x)

/-- **the whole doubling loop** from level `step` on -/
theorem levels_tilesC (right : Bool) (len : Nat) (h : ConvexChain (fun i => pos (ev.getD i 0)) (!right) len)
    (fuel step : Nat) (hs : 1 ≤ step) (hf : len ≤ step + fuel) :
    Tiles (polyAtC (fun i => pos (ev.getD i 0)) (!right) len step) (TriIn pos) (TriInC pos)
      (flushLevels ev len right fuel step) (fun _ => False) := by
  induction fuel generalizing step with
  | zero =>
    have hm : (len - 1) / step = 0 := Nat.div_eq_of_lt (by omega)
    simp only [flushLevels]
    exact (Tiles.refl _ _ _).rebase (fun _ g => g) (fun _ g => Or.inl g)
      (fun x => ⟨False.elim, fun g => polyAtC_empty _ _ len step (by omega) x g⟩)
  | succ fuel ih =>
    simp only [flushLevels]
    split
    · rename_i hlt
      have t1 := level_tilesC pos ev right len step h hs hlt
      have t2 := ih (step * 2) (by omega) (by omega)
      rw [Nat.mul_comm 2 step] at t1
      exact t1.trans t2
    · rename_i hge
      have hlt2 : (len - 1) / step < 2 := by
        rw [Nat.div_lt_iff_lt_mul (by omega)]; omega
      exact (Tiles.refl _ _ _).rebase (fun _ g => g) (fun _ g => Or.inl g)
        (fun x => ⟨False.elim, fun g => polyAtC_empty _ _ len step (by omega) x g⟩)

theorem polyAtC_one (q : Nat → P K) (c : Bool) (len : Nat) (hl : 1 ≤ len) :
    polyAtC q c len 1 = fun x => ChainIn c ((List.range len).map q) x ∧ CSide c (q 0) (q (len - 1)) x := by
  unfold polyAtC pts
  simp only [Nat.div_one, Nat.mul_one]
  rw [show len - 1 + 1 = len by omega]

/-- **`flush_side`'s fan is a triangulation of the chain polygon**: for a chain of `len` ids
(`ev`), strictly sorted and strictly convex to its side, the triangles of the doubling loop lie in
the region between the chain and its chord `first → last`, are pairwise interior-disjoint, and
their closures cover that region. -/
theorem flush_fan_tilesC (right : Bool) (len : Nat) (hl : 1 ≤ len)
    (h : ConvexChain (fun i => pos (ev.getD i 0)) (!right) len) :
    Tiles (fun x => ChainIn (!right) ((List.range len).map (fun i => pos (ev.getD i 0))) x ∧
        CSide (!right) (pos (ev.getD 0 0)) (pos (ev.getD (len - 1) 0)) x)
      (TriIn pos) (TriInC pos) (flushLevels ev len right (len + 1) 1) (fun _ => False) := by
  have := levels_tilesC pos ev right len h (len + 1) 1 (by omega) (by omega)
  rw [polyAtC_one _ _ _ hl] at this
  exact this


end Geometry

end Lyon.C02f
