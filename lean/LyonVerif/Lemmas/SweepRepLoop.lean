/-
  C07b - the loop: `process_events`, `initialize_events` (the one step that emits a vertex with
  its sibling records), `tessellator_loop` (fuel induction), `tessellate_impl` on any structurally
  well-formed queue, and the two entry points (`Sweep.tessellate` for polygonal input,
  `SweepCurves.tessellate` for curved input): they build the queue with `ofRecs` + `sort`, which
  keep the queue well formed and do not touch the records.
-/
import LyonVerif.Lemmas.SweepRepRecover
import LyonVerif.Model.Tess.SweepCurves

set_option linter.unusedSectionVars false
set_option linter.unusedVariables false
set_option linter.unusedSimpArgs false
set_option mvcgen.warning false

namespace Lyon.SweepRep
open Lyon Lyon.Scalar Lyon.Mono Lyon.Sweep Lyon.EQ
open Std.Do

variable {α : Type} [Scalar α] [Wide α]
variable (IdP : Nat → Nat → Prop) (U : α → Prop)

theorem processEvents_spec {V : α → Prop} {M : Wide.W α → Prop} (hcl : Closure U V) (hw : WClosure V M) :
    ⦃fun s => ⌜SInv IdP U s⌝⦄ (processEvents : SM α (Option IErr)) ⦃keepsR IdP U⦄ := by
  unfold processEvents
  strip_mdata
  have h1 := mark_spec (α := α) IdP U
  have h2 := processEdgesAbove_spec (α := α) IdP U
  have h3 := processEdgesBelow_spec (α := α) IdP U
  have h4 := updateActiveEdges_spec (α := α) IdP U hcl hw
  mvcgen [h1, h2, h3, h4]

variable {IdP U}

/-- the pending edges `initialize_events` creates from the edge records of the current event -/
theorem init_below_ok {V : α → Prop} {q : Queue α} {n : Nat} (cur : P α) (sibs : List Nat)
    (hs : ∀ i ∈ sibs, i < n ∧ V (q.ed i).t1) :
    ∀ (b : Array (PendingEdge α)), (∀ e ∈ b, BOk V n e) →
      ∀ e ∈ sibs.foldl (fun (b : Array (PendingEdge α)) i =>
        let e := q.ed i
        if e.isEdge then b.push ⟨e.to, slope (e.to - cur), i, e.winding, e.t1⟩ else b) b, BOk V n e := by
  induction sibs with
  | nil => intro b hb; exact hb
  | cons i rest ih =>
    intro b hb
    simp only [List.foldl_cons]
    apply ih (fun j hj => hs j (List.mem_cons_of_mem _ hj))
    split
    · exact all_push hb _ (hs i (List.mem_cons_self ..))
    · exact hb

theorem SInv.init {s s' : St α} (h : SInv IdP U s) (pos : P α)
    (e1 : s'.q = s.q) (e2 : s'.curEvent = s.curEvent) (e3 : s'.cov = s.cov) (e4 : s'.active = s.active)
    (e5 : s'.below = (s.q.siblings s.q.fuel s.curEvent).foldl (fun (b : Array (PendingEdge α)) i =>
        let e := s.q.ed i
        if e.isEdge then b.push ⟨e.to, slope (e.to - s.q.position s.curEvent), i, e.winding, e.t1⟩ else b) s.below)
    (e6 : s'.out = s.out.push (.vertex pos ((s.q.siblings s.q.fuel s.curEvent).map fun i => (s.q.position i, s.q.ed i)))) :
    SInv IdP U s' := by
  have hsib : ∀ i ∈ s.q.siblings s.q.fuel s.curEvent, i < s.q.edgeData.size := by
    intro i hi
    rw [h.qok.size]
    exact siblings_lt h.qok _ _ h.cur i hi
  refine ⟨e1 ▸ h.qok, by rw [e1, e2]; exact h.cur, by rw [e1, e3]; exact h.data, by rw [e1, e3, e4]; exact h.active, ?_, ?_⟩
  · rw [e1, e3, e5]
    exact init_below_ok _ _ (fun i hi => ⟨hsib i hi, (h.data.ed (hsib i hi)).2.2⟩) _ h.below
  · rw [e3, e6]
    intro p recs hm r hr
    rcases Array.mem_push.mp hm with hm | hm
    · exact h.out p recs hm r hr
    · cases hm
      obtain ⟨i, hi, rfl⟩ := List.mem_map.mp hr
      exact h.data.ed (hsib i hi)

theorem SInv.advance {s s' : St α} (h : SInv IdP U s) (e1 : s'.q = s.q) (e2 : s'.curEvent = s.q.nextId s.curEvent)
    (e3 : s'.cov = s.cov) (e4 : s'.active = s.active) (e5 : s'.below = s.below) (e6 : s'.out = s.out) : SInv IdP U s' :=
  ⟨e1 ▸ h.qok, by rw [e1, e2]; exact h.qok.nextId _, by rw [e1, e3]; exact h.data, by rw [e1, e3, e4]; exact h.active,
    by rw [e1, e3, e5]; exact h.below, by rw [e3, e6]; exact h.out⟩

variable (IdP U)

theorem initializeEvents_spec :
    ⦃fun s => ⌜SInv IdP U s⌝⦄ (initializeEvents : SM α Unit) ⦃keepsR IdP U⦄ := by
  unfold initializeEvents
  strip_mdata
  mvcgen
  all_goals first
    | sinv0
    | try_sinv (exact hS.init _ rfl rfl rfl rfl rfl rfl)

theorem tessellatorLoop_spec {V : α → Prop} {M : Wide.W α → Prop} (hcl : Closure U V) (hw : WClosure V M) : ∀ f : Nat,
    ⦃fun s => ⌜SInv IdP U s⌝⦄ (tessellatorLoop f : SM α Unit) ⦃keepsR IdP U⦄
  | 0 => by
    unfold tessellatorLoop
    mvcgen
  | f+1 => by
    have ih := tessellatorLoop_spec hcl hw f
    have h1 := initializeEvents_spec (α := α) IdP U
    have h2 := processEvents_spec (α := α) IdP U hcl hw
    have h3 := recoverFromError_spec (α := α) IdP U
    have h4 := mark_spec (α := α) IdP U
    unfold tessellatorLoop
    strip_mdata
    mvcgen [ih, h1, h2, h3, h4]
    all_goals try_sinv (exact hS.advance rfl rfl rfl rfl rfl rfl)

/-- the loop, as a statement about the run: from a state satisfying the invariant the final state
satisfies it, whatever the outcome (`ok`, `err`, `panic`, `unmodelled`, `fuel`) -/
theorem tessellatorLoop_run {V : α → Prop} {M : Wide.W α → Prop} (hcl : Closure U V) (hw : WClosure V M) (f : Nat)
    (s0 : St α) (h0 : SInv IdP U s0) : SInv IdP U ((tessellatorLoop f).run.run s0).2 :=
  SweepIdx.run_of_triple (tessellatorLoop_spec IdP U hcl hw f) s0 h0

variable {IdP U}

/-- the flush of the spans left over only appends triangles -/
theorem flush_vertex_mem (spans : List (Option (Adv α))) : ∀ (out : Array (Emit α)) (pos : P α) (recs : List (P α × EdgeData α)),
    Emit.vertex pos recs ∈ spans.foldl (fun o sp =>
        match sp with
        | some t => t.tess.tris.foldl (fun o t => o.push (.tri t.1 t.2.1 t.2.2)) o
        | none => o) out → Emit.vertex pos recs ∈ out := by
  induction spans with
  | nil => intro out pos recs h; exact h
  | cons sp rest ih =>
    intro out pos recs h
    simp only [List.foldl_cons] at h
    have := ih _ pos recs h
    cases sp with
    | none => exact this
    | some t => exact tris_vertex_mem _ this

variable (IdP U)

/-- **`tessellate_impl` on any structurally well-formed queue**: every record emitted with a vertex
satisfies `DOk` relative to the coverage the run reports - whatever the outcome. -/
theorem tessellateImpl_records {V : α → Prop} {M : Wide.W α → Prop} (hcl : Closure U V) (hw : WClosure V M)
    (q : Queue α) (hq : QOk q) (hd : ∀ i (h : i < q.edgeData.size), DOk IdP U q.edgeData[i])
    (rule : Slab.Rule) (horizontal : Bool) (tol : α) (handleIx : Bool) :
    OutOkR IdP U (tessellateImpl q rule horizontal tol handleIx).2.2 (tessellateImpl q rule horizontal tol handleIx).2.1 := by
  unfold tessellateImpl
  split
  · intro p r hm; simp at hm
  · dsimp only
    have h0 : SInv IdP U ({
        q := q, curPos := ⟨Wide.fmin (α := α), Wide.fmin (α := α)⟩, curVertex := INVALID, curEvent := q.firstId,
        active := #[], below := #[], spans := #[], pool := [], rule := rule, horizontal := horizontal,
        tolerance := tol * half, handleIntersections := handleIx, out := #[], nverts := 0 } : St α) :=
      ⟨hq, hq.first, fun i hi => (hd i hi).mono (fun _ u => Or.inr u), all_empty, all_empty,
        by intro p r hm; simp at hm⟩
    have h1 := tessellatorLoop_run IdP U hcl hw (4 * q.events.size * q.events.size + 1000) _ h0
    revert h1
    generalize ((tessellatorLoop (α := α) (4 * q.events.size * q.events.size + 1000)).run.run _) = r
    intro h1
    obtain ⟨res, s1⟩ := r
    cases res with
    | error f => exact h1.out
    | ok u =>
      dsimp only
      have hc : CovLe s1.cov (if (s1.spans.foldl (fun (o : Array (Emit α)) (sp : Option (Adv α)) =>
            match sp with
            | some t => t.tess.tris.foldl (fun (o : Array (Emit α)) (t : Mono.Tri) => o.push (.tri t.1 t.2.1 t.2.2)) o
            | none => o) s1.out).size == s1.out.size then s1.cov else s1.cov ||| (1 <<< 22)) := by
        split
        · exact CovLe.refl _
        · exact CovLe.or_right _ _
      intro p recs hm
      rw [← Array.foldl_toList] at hm
      exact (h1.out.mono hc) p recs (flush_vertex_mem _ _ _ _ hm)

end Lyon.SweepRep
